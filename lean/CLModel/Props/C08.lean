/-
C08 — Fluent: structural mismatches are errors, text differences never are.
Property theorems only (helper lemmas live in CLModel/Proofs/C08*.lean).

`Ftl.check locale key all ref l10n` is the model of
`list(FluentChecker(locale=…).check(refEnt, l10nEnt))` (checks/fluent.py + Checker.check of checks/base.py):
`ref`/`l10n` are the fluent.syntax ASTs of the two entities, `key`/`all` the l10n entity's key and source text.
All theorems quantify over ALL ASTs of the inductive type (a superset of what fluent.syntax produces).
-/
import CLModel.Checks.Fluent
import CLModel.Proofs.C08
import CLModel.Proofs.C08Plural
import CLModel.Proofs.C08Refs
import CLModel.Proofs.C08CGrammar
import CLModel.Proofs.C08CAgree
import CLModel.Proofs.C08CReject
import CLModel.Proofs.C08Text
import CLModel.Proofs.C08Warn
import CLModel.Proofs.C08Inst
import CLModel.Proofs.C08Self
import CLModel.Proofs.C08Span
namespace C08
open Ftl Gen.Tables

/-- the yielded list contains an `error` -/
def hasError (outs : List Out) : Prop := ∃ o ∈ outs, o.sev = sevError

def attrNames (attrs : List Attribute) : List Str := attrs.map (·.name)

/-- `check` never raises: the plural lookup is total on the generated tables, so the result is
    `checkWith kp` for the locale's plural categories `kp`. -/
theorem check_total (locale : Option Str) (key all : Str) (ref l10n : Entry) :
    ∃ kp, getPlural locale = .ok kp ∧ check locale key all ref l10n = .ok (checkWith kp key all ref l10n) :=
  check_ok locale key all ref l10n

/-- **Errors are exactly the structural mismatches.**  For every locale and every pair of messages,
    `check` yields an error iff value presence differs, or some attribute name occurs on one side
    only, or the localization has a `style` attribute whose value is a single text element that
    parse_css_spec/check_style do not accept (`badStyle`).  Nothing else — no text, placeable,
    reference, variant or plural difference — can produce an error. -/
theorem ftl_error_iff (locale : Option Str) (key all : Str) (ref l10n : Message) :
    ∃ outs, check locale key all (.message ref) (.message l10n) = .ok outs ∧
      (hasError outs ↔
        (ref.value.isSome ≠ l10n.value.isSome
          ∨ (∃ n ∈ attrNames ref.attributes, n ∉ attrNames l10n.attributes)
          ∨ (∃ n ∈ attrNames l10n.attributes, n ∉ attrNames ref.attributes)
          ∨ ∃ a ∈ l10n.attributes, badStyle a = true)) := by
  obtain ⟨kp, _, h⟩ := check_ok locale key all (.message ref) (.message l10n)
  refine ⟨_, h, ?_⟩
  unfold hasError
  rw [checkWith_hasError_iff]
  exact checkMessage_hasErr_iff kp ref l10n

/-- A *term* as the reference of a message (not reachable through compare-locales, where entities are
    paired by key and a term's key starts with `-`): the reference visitor has no `visit_Term`, so the
    reference counts as having no value. -/
theorem ftl_error_iff_term_reference (kp : Option (List Str)) (t : Term) (l10n : Message) :
    (∃ m ∈ checkMessage kp (.term t) l10n, m.sev = sevError) ↔
      (l10n.value.isSome = true
        ∨ (∃ n ∈ attrNames t.attributes, n ∉ attrNames l10n.attributes)
        ∨ (∃ n ∈ attrNames l10n.attributes, n ∉ attrNames t.attributes)
        ∨ ∃ a ∈ l10n.attributes, badStyle a = true) := by
  rw [checkMessage_hasErr_iff_gen kp (.term t) false t.attributes (refVisitEntry_term_hasValue t)
    (refVisitEntry_term_attrPos t) l10n]
  have : false ≠ l10n.value.isSome ↔ l10n.value.isSome = true := by cases l10n.value.isSome <;> simp
  rw [this]
  rfl

/-- **One error per mismatch.**  The errors of check_message (before the sort by position) are, in
    this order: one `reference is a CSS spec` per bad `style` attribute occurrence, `Obsolete value`
    (at the value) or `Missing value` when value presence differs, one `Missing attribute: n` per
    name `n` of the reference missing in the localization (each name once), one
    `Obsolete attribute: n` per name only in the localization (each name once, at the start of the
    LAST attribute with that name). -/
theorem ftl_error_count (kp : Option (List Str)) (ref l10n : Message) :
    ∃ (missing : List Str) (obsolete : List (Str × Nat)),
      missing.Nodup ∧ (∀ n, n ∈ missing ↔ n ∈ attrNames ref.attributes ∧ n ∉ attrNames l10n.attributes) ∧
      (obsolete.map (·.1)).Nodup ∧
      (∀ n p, (n, p) ∈ obsolete ↔ n ∉ attrNames ref.attributes ∧ lastStart l10n.attributes n = some p) ∧
      errsOf (checkMessage kp (.message ref) l10n) =
        (l10n.attributes.filter badStyle).map (fun _ => cssError)
        ++ valueErrs ref.value.isSome l10n.value
        ++ missing.map (fun n => ⟨sevError, 0, fmt fluentMsg_missing_attribute [n]⟩)
        ++ obsolete.map (fun p => ⟨sevError, p.2, fmt fluentMsg_obsolete_attribute [p.1]⟩) := by
  refine ⟨(dictKeys (attrsPos [] ref.attributes)).filter (fun n => !(dictKeys (attrsPos [] l10n.attributes)).contains n),
    (attrsPos [] l10n.attributes).filter (fun p => !(dictKeys (attrsPos [] ref.attributes)).contains p.1), ?_, ?_, ?_, ?_, ?_⟩
  · exact (nodup_keys_attrsPos_nil _).filter _
  · intro n
    simp only [List.mem_filter, attrNames, mem_keys_attrsPos_nil]
    constructor
    · rintro ⟨h1, h2⟩
      refine ⟨h1, fun hm => ?_⟩
      have := (mem_keys_attrsPos_nil l10n.attributes n).mpr hm
      simp [this] at h2
    · rintro ⟨h1, h2⟩
      refine ⟨h1, ?_⟩
      have : n ∉ dictKeys (attrsPos [] l10n.attributes) := fun h => h2 ((mem_keys_attrsPos_nil _ _).mp h)
      simp [this]
  · have := (nodup_keys_attrsPos_nil l10n.attributes)
    unfold dictKeys at this
    exact (List.Nodup.sublist (List.Sublist.map _ List.filter_sublist) this)
  · intro n p
    simp only [List.mem_filter, attrNames]
    rw [mem_dict_iff _ (nodup_keys_attrsPos_nil _), dictGet?_attrsPos]
    have hnil : dictGet? ([] : List (Str × Nat)) n = none := rfl
    constructor
    · rintro ⟨h1, h2⟩
      refine ⟨fun hm => ?_, ?_⟩
      · have := (mem_keys_attrsPos_nil ref.attributes n).mpr hm
        simp [this] at h2
      · cases hl : lastStart l10n.attributes n with
        | none => rw [hl] at h1; simp [hnil] at h1
        | some s => rw [hl] at h1; simpa using h1
    · rintro ⟨h1, h2⟩
      refine ⟨by rw [h2], ?_⟩
      have : n ∉ dictKeys (attrsPos [] ref.attributes) := fun h => h1 ((mem_keys_attrsPos_nil _ _).mp h)
      simp [this]
  · rw [checkMessage_errs, refVisitEntry_message_hasValue, refVisitEntry_message_attrPos]
    rfl

/-- **Text differences are never errors.**  A localization with the same value presence and the same
    set of attribute names as the reference, and no bad `style` value, yields no error — whatever its
    patterns, placeables, references, select expressions and variants are (they are universally
    quantified: nothing about `l10n`'s patterns is assumed). -/
theorem ftl_text_irrelevant (locale : Option Str) (key all : Str) (ref l10n : Message)
    (hval : ref.value.isSome = l10n.value.isSome)
    (hattrs : ∀ n, n ∈ attrNames ref.attributes ↔ n ∈ attrNames l10n.attributes)
    (hstyle : ∀ a ∈ l10n.attributes, badStyle a = false) :
    ∃ outs, check locale key all (.message ref) (.message l10n) = .ok outs ∧ ¬ hasError outs := by
  obtain ⟨outs, h, hiff⟩ := ftl_error_iff locale key all ref l10n
  refine ⟨outs, h, fun he => ?_⟩
  rcases hiff.mp he with h1 | ⟨n, hn, hn'⟩ | ⟨n, hn, hn'⟩ | ⟨a, ha, hb⟩
  · exact h1 hval
  · exact hn' ((hattrs n).mp hn)
  · exact hn' ((hattrs n).mpr hn)
  · rw [hstyle a ha] at hb; cases hb

/-- **Terms are checked on their own and never yield errors.**  Whatever the reference entry is
    (it is not even looked at) and whatever the term contains, every result of `check` on a
    localized term is a warning. -/
theorem term_never_error (locale : Option Str) (key all : Str) (ref : Entry) (t : Term) :
    ∃ outs, check locale key all ref (.term t) = .ok outs ∧ ∀ o ∈ outs, o.sev = sevWarning := by
  obtain ⟨kp, _, h⟩ := check_ok locale key all ref (.term t)
  refine ⟨_, h, ?_⟩
  intro o ho
  rw [checkWith_eq] at ho
  rcases List.mem_append.mp ho with h1 | h1
  · exact checkEncoding_warn key all o h1
  · obtain ⟨m, hm, rfl⟩ := List.mem_map.mp ((finish_perm _ _).mem_iff.mp h1)
    exact checkTerm_warn kp t m hm

/-- the reference plays no role for a term -/
theorem term_ignores_reference (locale : Option Str) (key all : Str) (ref ref' : Entry) (t : Term) :
    check locale key all ref (.term t) = check locale key all ref' (.term t) := rfl

/-- **Order of the results**: `check` = the U+FFFD warnings followed by the visitor messages in a
    stable sort by position — a permutation of the visitor messages (mapped to entry-relative
    positions), sorted by position, and messages at the same position keep the order in which the
    visitors appended them. -/
theorem check_sorted_stable (kp : Option (List Str)) (key all : Str) (ref l10n : Entry) :
    ∃ sorted : List Msg,
      checkWith kp key all ref l10n = checkEncoding key all ++ sorted.map (toOut l10n.start) ∧
      sorted.Perm (entryMsgs kp ref l10n) ∧
      sorted.Pairwise (fun a b => a.pos ≤ b.pos) ∧
      ∀ p, sorted.filter (fun m => m.pos == p) = (entryMsgs kp ref l10n).filter (fun m => m.pos == p) := by
  refine ⟨sortBy (fun a b => decide (a.pos ≤ b.pos)) (entryMsgs kp ref l10n), ?_, sortBy_perm _ _, ?_, ?_⟩
  · rw [checkWith_eq, finish_eq]
  · have := sortBy_pairwise (fun (a b : Msg) => decide (a.pos ≤ b.pos))
      (by intro a b; simp only [decide_eq_true_eq]; omega)
      (by intro a b c; simp only [decide_eq_true_eq]; omega) (entryMsgs kp ref l10n)
    exact this.imp (by intro a b h; simpa using h)
  · intro p
    apply sortBy_filter
    intro a b ha hb
    have ha' : a.pos = p := by simpa using ha
    have hb' : b.pos = p := by simpa using hb
    simp [ha', hb']

/-! ### warnings -/

/-- **Structure of check_message**: the visitor messages of a message pair are, in this order,
    the duplicate-attribute warnings, the per-node messages of the value (`evMsgs`, see
    `node_messages`), per attribute its per-node messages followed by the CSS messages of a `style`
    attribute (`attrsMsgs`), the value / attribute errors of `ftl_error_count`, and the
    `Missing … reference` warnings (`ftl_missing_ref_warnings`).  `rrOf … slot` are the reference
    names recorded by the reference visitor for the slot (`ref_slot_names`). -/
theorem check_message_structure (kp : Option (List Str)) (ref l10n : Message) :
    checkMessage kp (.message ref) l10n =
      checkDuplicateAttributes l10n.attributes
      ++ valueMsgs kp (rrOf (refVisitEntry (.message ref)).entryRefs) l10n.value
      ++ attrsMsgs kp (rrOf (refVisitEntry (.message ref)).entryRefs) (refVisitEntry (.message ref)).css l10n.attributes
      ++ valueErrs ref.value.isSome l10n.value
      ++ missingAttrErrs (dictKeys (attrsPos [] ref.attributes)) (dictKeys (attrsPos [] l10n.attributes))
      ++ obsoleteAttrErrs (dictKeys (attrsPos [] ref.attributes)) (attrsPos [] l10n.attributes)
      ++ missingRefs (refVisitEntry (.message ref)).entryRefs
          (l10nVisitMessage kp (refVisitEntry (.message ref)) l10n).entryRefs :=
  checkMessage_structure kp ref l10n

/-- **Structure of check_term**: duplicate-attribute warnings, then `check_variants` of every
    select expression anywhere in the value and the attributes (deep traversal: selectors and call
    arguments included), in post-order. -/
theorem check_term_structure (kp : Option (List Str)) (t : Term) :
    checkTerm kp t = checkDuplicateAttributes t.attributes
      ++ ((t.value :: t.attributes.map (·.value)).flatMap (evPattern true)).flatMap (termMsgs kp) :=
  checkTerm_structure kp t

/-- the reference names recorded for a slot (value or attribute name) are exactly the message /
    term references met in the patterns of that slot; selectors of select expressions and
    arguments of term references are not visited, references to term attributes are not recorded. -/
theorem ref_slot_names (ref : Message) (slot : Slot) (r : Str) :
    r ∈ rrOf (refVisitEntry (.message ref)).entryRefs slot ↔ r ∈ slotRefNames ref.value ref.attributes slot :=
  mem_rrOf_ref ref slot r

/-- **Obsolete references**: a message reference (resp. a term reference without attribute) in a slot
    of the localization yields one `Obsolete message (term) reference` warning at its own position iff
    the reference recorded no reference of that name in the same slot; a select expression yields
    `check_variants` of its variants; nothing else yields anything. -/
theorem node_messages (kp : Option (List Str)) (rr : List Str) :
    (∀ s i, evMsgs kp rr (.msgRef s i none) =
        if i ∈ rr then [] else [⟨sevWarning, s, fmt fluentMsg_obsolete_msg_ref [i]⟩]) ∧
    (∀ s i a, evMsgs kp rr (.msgRef s i (some a)) =
        if i ++ 46 :: a ∈ rr then [] else [⟨sevWarning, s, fmt fluentMsg_obsolete_msg_ref [i ++ 46 :: a]⟩]) ∧
    (∀ s i, evMsgs kp rr (.termRef s i none) =
        if 45 :: i ∈ rr then [] else [⟨sevWarning, s, fmt fluentMsg_obsolete_term_ref [45 :: i]⟩]) ∧
    (∀ s i a, evMsgs kp rr (.termRef s i (some a)) = []) ∧
    (∀ keys, evMsgs kp rr (.select keys) = checkVariants kp keys) := by
  refine ⟨?_, ?_, ?_, ?_, ?_⟩ <;> intros <;> simp [evMsgs, Ev.refKey]

/-- **Missing references**: the `Missing message (term) reference: r` warnings (all at position 0) are
    exactly: one per slot of the reference and per distinct reference name `r` recorded there
    (`refSlotDict`, a dict with distinct keys) that the localization does not reference in the SAME slot. -/
theorem ftl_missing_ref_warnings (kp : Option (List Str)) (ref l10n : Message) :
    let M := missingRefs (refVisitEntry (.message ref)).entryRefs
              (l10nVisitMessage kp (refVisitEntry (.message ref)) l10n).entryRefs
    -- one warning per (slot, recorded name) that is missing:
    (M = (refVisitEntry (.message ref)).entryRefs.flatMap (fun sr =>
          (sr.2.filter (fun q => !(l10nSlotSet kp (refVisitEntry (.message ref)) l10n sr.1).contains q.1)).map
            (fun q => missingRefMsg q.1 q.2))) ∧
    (dictKeys (refVisitEntry (.message ref)).entryRefs).Nodup ∧
    (∀ slot, (dictKeys (refSlotDict ref slot)).Nodup) ∧
    -- and as a set:
    (∀ m, m ∈ M ↔ ∃ slot r t, (r, t) ∈ refSlotDict ref slot ∧ r ∉ slotRefNames l10n.value l10n.attributes slot
            ∧ m = missingRefMsg r t) ∧
    (∀ slot r, r ∈ dictKeys (refSlotDict ref slot) ↔ r ∈ slotRefNames ref.value ref.attributes slot) ∧
    (∀ slot q, q ∈ refSlotDict ref slot → q ∈ slotRefs ref.value ref.attributes slot) := by
  refine ⟨?_, nodup_keys_refVisitEntry ref, nodup_keys_refSlotDict ref, ?_, ?_, mem_refSlotDict ref⟩
  · simp only [missingRefs, missingRefMsg, l10nSlotSet]
    rfl
  · intro m
    rw [mem_missingRefs]
    constructor
    · rintro ⟨slot, refs, r, t, h1, h2, h3, rfl⟩
      have hne : refs ≠ [] := by intro h; rw [h] at h2; cases h2
      have := (mem_entryRefs_iff ref slot refs hne).mp h1
      subst this
      refine ⟨slot, r, t, h2, ?_, rfl⟩
      intro h
      exact h3 ((mem_l10nSlotSet kp _ l10n slot r).mpr h)
    · rintro ⟨slot, r, t, h2, h3, rfl⟩
      have hne : refSlotDict ref slot ≠ [] := by intro h; rw [h] at h2; cases h2
      refine ⟨slot, refSlotDict ref slot, r, t, (mem_entryRefs_iff ref slot _ hne).mpr rfl, h2, ?_, rfl⟩
      intro h
      exact h3 ((mem_l10nSlotSet kp _ l10n slot r).mp h)
  · intro slot r
    exact mem_rrOf_ref ref slot r

/-- **Duplicate attributes**: one `Attribute "n" is duplicated` warning per attribute occurrence whose
    name occurs at least twice, at the attribute's position (as a multiset; the sort by position
    fixes the final order).  Holds for messages and terms alike. -/
theorem ftl_dup_attribute_warnings (attrs : List Attribute) :
    (checkDuplicateAttributes attrs).Perm
      ((attrs.filter (fun a => decide (2 ≤ (attrs.map (·.name)).count a.name))).map
        (fun a => ⟨sevWarning, a.start, fmt fluentMsg_duplicate_attribute [a.name]⟩)) :=
  (dupLoop_nil_perm (fun a : Attribute => a.name) attrs).map _

/-- **Duplicate variant keys**: `check_variants` yields one `Variant key "k" is duplicated` warning per
    variant whose key (same node type and same text) occurs at least twice, at the key's position,
    followed by the plural warning of `ftl_plural_warning`. -/
theorem ftl_dup_variant_warnings (kp : Option (List Str)) (keys : List VKey) :
    ∃ dups, checkVariants kp keys = dups ++ checkPlurals kp keys ∧
      dups.Perm ((keys.filter (fun k => decide (2 ≤ (keys.map VKey.tag).count k.tag))).map
        (fun k => ⟨sevWarning, k.start, fmt fluentMsg_duplicate_variant [k.str]⟩)) := by
  refine ⟨_, rfl, ?_⟩
  rw [VKey.equals_eq]
  exact (dupLoop_nil_perm VKey.tag keys).map _

/-- **Incomplete plural-category sets**: for a locale with plural categories `cats`, `check_variants`
    yields the warning `Plural categories missing: …` iff some variant key names a category of the
    locale other than `other` and some category of the locale is named by no key; then exactly one
    warning, at the first variant key, listing the missing categories (each once) in `str` order.
    For a locale without plural data there is no such warning. -/
theorem ftl_plural_warning (cats : List Str) (keys : List VKey) :
    checkPlurals none keys = [] ∧
    ((usesCategory cats keys ∧ ∃ c ∈ cats, c ∉ keys.map VKey.str) →
      ∃ k0 rest, keys = k0 :: rest ∧
        checkPlurals (some cats) keys =
          [⟨sevWarning, k0.start, fmt fluentMsg_missing_plural [join [44, 32] (missingCats cats keys)]⟩]) ∧
    (¬ (usesCategory cats keys ∧ ∃ c ∈ cats, c ∉ keys.map VKey.str) → checkPlurals (some cats) keys = []) ∧
    (∀ c, c ∈ missingCats cats keys ↔ c ∈ cats ∧ c ∉ keys.map VKey.str) ∧
    (missingCats cats keys).Pairwise (fun a b => strLe a b = true ∧ a ≠ b) := by
  have hmiss : (missingCats cats keys).isEmpty = false ↔ ∃ c ∈ cats, c ∉ keys.map VKey.str := by
    constructor
    · intro h
      cases hm : missingCats cats keys with
      | nil => rw [hm] at h; cases h
      | cons c r =>
        have : c ∈ missingCats cats keys := by rw [hm]; exact List.mem_cons_self
        exact ⟨c, (mem_missingCats cats keys c).mp this⟩
    · rintro ⟨c, h1, h2⟩
      have : c ∈ missingCats cats keys := (mem_missingCats cats keys c).mpr ⟨h1, h2⟩
      cases hm : missingCats cats keys with
      | nil => rw [hm] at this; cases this
      | cons _ _ => rfl
  by_cases hc : cats = []
  · -- a locale with an empty category tuple (`if known_plurals:` is false): never a warning
    subst hc
    refine ⟨rfl, ?_, fun _ => rfl, mem_missingCats [] keys, missingCats_sorted [] keys⟩
    rintro ⟨⟨k, _, hk, _⟩, _⟩
    cases hk
  refine ⟨rfl, ?_, ?_, mem_missingCats cats keys, missingCats_sorted cats keys⟩
  · rintro ⟨hu, hm⟩
    obtain ⟨k, hk, _⟩ := hu
    cases keys with
    | nil => cases hk
    | cons k0 rest =>
      refine ⟨k0, rest, rfl, ?_⟩
      rw [checkPlurals_some cats hc]
      have h1 := (any_check_iff cats (k0 :: rest)).mpr ⟨k, hk, ‹_›⟩
      have h2 := hmiss.mpr hm
      simp only [h1, h2, Bool.not_false, Bool.and_self, if_true]
  · intro hn
    rw [checkPlurals_some cats hc]
    cases keys with
    | nil => rfl
    | cons k0 rest =>
      simp only
      split
      · rename_i hcond
        exfalso
        apply hn
        have hcond' := Bool.and_eq_true_iff.mp hcond
        refine ⟨(any_check_iff cats (k0 :: rest)).mp hcond'.1, hmiss.mp ?_⟩
        simpa using hcond'.2
      · rfl

/-- the plural categories used by `check` are the table entry of the locale: the locale itself or,
    failing that, its part before the first `-`; `None` and unknown locales have no plural data -/
theorem plural_lookup (locale : Option Str) :
    getPluralRule locale = match locale with
      | none => none
      | some l => match dictGet? categoriesByLocale l with
        | some i => some i
        | none => dictGet? categoriesByLocale (l.takeWhile (fun c => c != 45)) := rfl

/-! ### non-vacuity -/

section examples
open Ftl

private def t (s : String) : Str := s.toList.map Char.toNat
private def pat (s : String) : Pattern := .mk 0 [.text (t s)]

/-- reference `m = v` + `.label`; localization without value, with `.label` twice, `.extra`, bad `.style` -/
private def exRef : Message := ⟨0, t "m", some (pat "v"), [⟨10, t "label", pat "x"⟩]⟩
private def exL10n : Message :=
  ⟨0, t "m", none, [⟨6, t "label", pat "a"⟩, ⟨20, t "extra", pat "b"⟩, ⟨30, t "label", pat "c"⟩, ⟨40, t "style", pat "wide"⟩]⟩

example : (checkWith (some [t "one", t "other"]) (t "m") (t "m =") (.message exRef) (.message exL10n)).map
      (fun o => (o.sev, o.pos)) =
    [(sevError, 0), (sevError, 0), (sevWarning, 6), (sevError, 20), (sevWarning, 30), (sevError, 40)] := by decide +kernel

example : badStyle ⟨40, t "style", pat "wide"⟩ = true := by decide +kernel
example : badStyle ⟨40, t "style", pat "width: 12em; min-height:3px;"⟩ = false := by decide +kernel
example : badStyle ⟨40, t "style", pat "width: 12em height: 3px"⟩ = true := by decide +kernel
/-- the hypotheses of `ftl_text_irrelevant` are satisfiable with different texts, placeables and attribute counts -/
example : ∃ ref l10n : Message, ref.value.isSome = l10n.value.isSome ∧
    (∀ n, n ∈ attrNames ref.attributes ↔ n ∈ attrNames l10n.attributes) ∧
    (∀ a ∈ l10n.attributes, badStyle a = false) ∧ ref.attributes.length ≠ l10n.attributes.length :=
  ⟨exRef, ⟨0, t "m", some (.mk 4 [.text (t "x "), .placeable (.msgRef 6 (t "foo") none)]),
      [⟨10, t "label", pat "y"⟩, ⟨20, t "label", pat "z"⟩]⟩, rfl,
    by intro n; simp [attrNames, exRef], by decide +kernel, by decide⟩
/-- declarations that touch without a separator are refused (fixed finding C08-css-adjacent-declarations):
    parse_css_spec reports css-missing-semicolon at the end of the first declaration, so the style is bad -/
example : cssBad (t "width: 1emheight: 2px") = true := by decide +kernel
example : (parseCssSpec (t "width: 1emheight: 2px")).2 = some [CssErr.missingSemicolon 10] := by decide +kernel
example : badStyle ⟨40, t "style", pat "width: 1emheight: 2px"⟩ = true := by decide +kernel
example : (checkMessage none (.message ⟨0, t "m", some (pat "v"), [⟨8, t "style", pat "width: 20em"⟩]⟩)
      ⟨0, t "m", some (pat "v"), [⟨8, t "style", pat "height: 1emwidth: 2em"⟩]⟩).map (fun m => (m.sev, m.pos)) =
    [(sevError, 0)] := by decide +kernel
/-- trailing white space after the last declaration is not a missing semicolon (/repo 7c75698);
    white space between two declarations without a semicolon still is -/
example : cssBad [119, 105, 100, 116, 104, 58, 49, 101, 109, 32] = false ∧           -- "width:1em "
    cssBad [119, 105, 100, 116, 104, 58, 49, 101, 109, 10] = false ∧                 -- "width:1em\n"
    cssBad (t "width:1em;height:2px" ++ [9]) = false ∧
    (parseCssSpec (t "width: 1em height: 2px")).2 = some [CssErr.missingSemicolon 10] := by decide +kernel
/-- the last declaration needs no semicolon, with or without one the spec is fine -/
example : cssBad (t "width: 1em") = false ∧ cssBad (t "width: 1em;") = false ∧ cssBad (t "width: 1em; height: 2px") = false := by
  decide +kernel

private def k (s : String) (p : Nat) : VKey := .ident p (t s)
/-- Polish (one, few, many): keys one/other/one -> two duplicate warnings and a plural warning -/
example : (checkVariants (some [t "one", t "few", t "many"]) [k "one" 5, k "other" 15, k "one" 25]).map (fun m => (m.pos, m.text)) =
    [(5, t "Variant key \"one\" is duplicated"), (25, t "Variant key \"one\" is duplicated"),
     (5, t "Plural categories missing: few, many")] := by decide +kernel
example : usesCategory [t "one", t "few", t "many"] [k "one" 5, k "other" 15] := ⟨k "one" 5, by decide, by decide, by decide⟩
/-- only `other` and non-category keys: no plural warning even though categories are missing -/
example : checkPlurals (some [t "one", t "other"]) [k "other" 5, k "masculine" 9] = [] := by decide +kernel
/-- an identifier and a number literal with the same text are different keys -/
example : checkVariants none [.ident 1 (t "1"), .num 5 (t "1")] = [] := by decide +kernel
/-- a reference inside an attribute is compared with the same attribute of the reference only -/
example : (checkMessage none
      (.message ⟨0, t "m", some (.mk 4 [.placeable (.msgRef 6 (t "foo") none)]), [⟨20, t "a", pat "x"⟩]⟩)
      ⟨0, t "m", some (pat "v"), [⟨20, t "a", .mk 25 [.placeable (.msgRef 27 (t "foo") none)]⟩]⟩).map (fun m => (m.sev, m.pos, m.text)) =
    [(sevWarning, 27, t "Obsolete message reference: foo"), (sevWarning, 0, t "Missing message reference: foo")] := by decide +kernel
/-- a select expression inside a selector is checked for terms, not for messages -/
private def nestedSel : Pattern :=
  .mk 0 [.placeable (.select (.funRef (t "F") (.mk [.select (.varRef (t "n")) [.mk (k "a" 7) (pat "x") false, .mk (k "a" 9) (pat "y") true]] []))
    [.mk (k "b" 20) (pat "z") true])]
example : (checkTerm none ⟨0, t "t", nestedSel, []⟩).length = 2 := by decide +kernel
example : (checkMessage none (.message ⟨0, t "m", some (pat "v"), []⟩) ⟨0, t "m", some nestedSel, []⟩).length = 0 := by decide +kernel

end examples

/-! ## extension C: `badStyle` / `parse_css_spec` and an independent grammar of CSS size specs

`badStyle` in `ftl_error_iff` is the verdict of the regex code.  Here it is related to a grammar that knows
nothing about regexes: `C08C.CssSpec ds v` — optional leading `ws* (; ws*)?`, the declarations `ds`, each
`prop ws* : ws* number unit` (`number` = digits, or optional digits `.` digits), separated by `ws* ; ws*`,
optional trailing `ws* (; ws*)?`.  The property names (`C08C.cssProps`) and units (`C08C.cssUnits`) are read off
the generated `_css_spec` regex, so a unit added upstream is in the grammar at once. -/

/-- css_models_agree: checks/fluent.py and checks/dtd.py use the same `CSSCheckMixin.parse_css_spec`; its two models
    (`Ftl.parseCssSpec`, `Dtd.parseCssSpec`) return the same map and the same errors on EVERY text (they differ in
    representation only), so theorems about one hold for the other. -/
theorem css_models_agree (v : Str) :
    parseCssSpec v =
      ((Dtd.parseCssSpec v).1.map C08C.toFtlMap, (Dtd.parseCssSpec v).2.map (·.map C08C.toFtlErr)) :=
  C08C.css_models_agree v

/-- css_grammar_accepts (soundness of the grammar w.r.t. the code): every grammatical spec is parsed without errors,
    and the map is exactly that of its declarations — `ref_map[prop] = unit` in their order (Python dict). -/
theorem css_grammar_accepts (ds : List C08C.Decl) (v : Str) (h : C08C.CssSpec ds v) :
    (parseCssSpec v).2 = none ∧
    (parseCssSpec v).1 = some ((C08C.declMap ds).map (fun p => (p.1, some p.2))) := by
  rw [C08C.css_grammar_accepts_ftl ds v h]
  exact ⟨rfl, rfl⟩

/-- … with pairwise distinct property names that map is the list of (property, unit) pairs as written -/
theorem css_grammar_map_distinct (ds : List C08C.Decl) (h : (ds.map (·.prop)).Nodup) :
    C08C.declMap ds = ds.map (fun d => (d.prop, d.unit)) :=
  C08C.declMap_distinct ds h

/-- A grammatical spec is never "bad": a `style` attribute whose value is one text element in the grammar never
    contributes an error to `ftl_error_iff` / `ftl_error_count`. -/
theorem css_grammar_not_bad (ds : List C08C.Decl) (v : Str) (h : C08C.CssSpec ds v) : cssBad v = false := by
  unfold cssBad
  rw [C08C.css_grammar_accepts_ftl ds v h]
  have hne := C08C.declMap_ne_nil (C08C.cssSpec_ne_nil h)
  cases hm : C08C.declMap ds with
  | nil => exact absurd hm hne
  | cons x xs => simp [cssBadP, C08C.toFtlMap]

theorem style_grammar_not_bad (pos start : Nat) (ds : List C08C.Decl) (v : Str) (h : C08C.CssSpec ds v) :
    badStyle ⟨pos, sStyle, .mk start [.text v]⟩ = false := by
  simp [badStyle, patternVariants, Pattern.elements, css_grammar_not_bad ds v h]

/-- css_spec_errors: on a spec with defects (`C08C.SpecE`: every gap before a declaration is a correct separator,
    white space without the semicolon, or junk; the trailing text is correct or junk) `parse_css_spec` returns the map
    of all declarations and exactly one error per defective gap, in order: `css-missing-semicolon` /
    `css-bad-content` at the end of the preceding declaration (0 before the first). -/
theorem css_spec_errors (ds : List C08C.Decl) (v : Str) (errs : List Dtd.CssErr) (h : C08C.SpecE true 0 ds v errs) :
    parseCssSpec v = (some (C08C.toFtlMap (C08C.declMap ds)), (C08C.optOf errs).map (·.map C08C.toFtlErr)) := by
  rw [C08C.css_models_agree, C08C.css_spec_errors ds v errs h]
  rfl

/-- … so any defect makes the style bad (the check yields the error "reference is a CSS spec") -/
theorem css_defect_bad (ds : List C08C.Decl) (v : Str) (errs : List Dtd.CssErr) (h : C08C.SpecE true 0 ds v errs)
    (he : errs ≠ []) : cssBad v = true := by
  unfold cssBad
  rw [css_spec_errors ds v errs h]
  have hds : ds ≠ [] := by cases h <;> simp
  have hne := C08C.declMap_ne_nil hds
  cases hm : C08C.declMap ds with
  | nil => exact absurd hm hne
  | cons x xs =>
    cases errs with
    | nil => exact absurd rfl he
    | cons e es => simp [cssBadP, C08C.toFtlMap, C08C.optOf]

/-- the breaking edits of the harness: two correct blocks with only white space (or nothing: touching declarations)
    between them → exactly `css-missing-semicolon` at the end of the first block … -/
theorem css_missing_semicolon (ds1 ds2 : List C08C.Decl) (lead t1 ws t2 trail : Str) (hl : C08C.IsEdge lead)
    (h1 : C08C.DeclsText ds1 t1) (hws : ws.all C08C.isWs = true) (h2 : C08C.DeclsText ds2 t2) (htr : C08C.IsEdge trail) :
    (parseCssSpec (lead ++ (t1 ++ (ws ++ (t2 ++ trail))))).2 = some [CssErr.missingSemicolon (lead.length + t1.length)] ∧
    cssBad (lead ++ (t1 ++ (ws ++ (t2 ++ trail)))) = true := by
  have hd := C08C.css_missing_semicolon ds1 ds2 lead t1 ws t2 trail hl h1 hws h2 htr
  have hp : parseCssSpec (lead ++ (t1 ++ (ws ++ (t2 ++ trail)))) =
      (some (C08C.toFtlMap (C08C.declMap (ds1 ++ ds2))), some [CssErr.missingSemicolon (lead.length + t1.length)]) := by
    rw [C08C.css_models_agree, hd]; rfl
  refine ⟨by rw [hp], ?_⟩
  unfold cssBad
  rw [hp]
  have hne := C08C.declMap_ne_nil (ds := ds1 ++ ds2) (by
    have := C08C.declsText_ne_nil h1
    simp [this])
  cases hm : C08C.declMap (ds1 ++ ds2) with
  | nil => exact absurd hm hne
  | cons x xs => simp [cssBadP, C08C.toFtlMap]

/-- … junk after a correct spec → exactly `css-bad-content` at the end of the last declaration … -/
theorem css_junk_after (ds : List C08C.Decl) (lead t junk : Str) (hl : C08C.IsEdge lead) (h : C08C.DeclsText ds t)
    (hj : C08C.IsJunk junk) :
    (parseCssSpec (lead ++ (t ++ junk))).2 = some [CssErr.badContent (lead.length + t.length)] ∧
    cssBad (lead ++ (t ++ junk)) = true := by
  have hp : parseCssSpec (lead ++ (t ++ junk)) =
      (some (C08C.toFtlMap (C08C.declMap ds)), some [CssErr.badContent (lead.length + t.length)]) := by
    rw [C08C.css_models_agree, C08C.css_junk_after ds lead t junk hl h hj]; rfl
  refine ⟨by rw [hp], ?_⟩
  unfold cssBad
  rw [hp]
  have hne := C08C.declMap_ne_nil (C08C.declsText_ne_nil h)
  cases hm : C08C.declMap ds with
  | nil => exact absurd hm hne
  | cons x xs => simp [cssBadP, C08C.toFtlMap]

/-- … junk before a correct spec → exactly `css-bad-content` at position 0 -/
theorem css_junk_before (ds : List C08C.Decl) (junk t trail : Str) (hj : C08C.IsJunk junk) (h : C08C.DeclsText ds t)
    (htr : C08C.IsEdge trail) :
    (parseCssSpec (junk ++ (t ++ trail))).2 = some [CssErr.badContent 0] ∧ cssBad (junk ++ (t ++ trail)) = true := by
  have hp : parseCssSpec (junk ++ (t ++ trail)) =
      (some (C08C.toFtlMap (C08C.declMap ds)), some [CssErr.badContent 0]) := by
    rw [C08C.css_models_agree, C08C.css_junk_before ds junk t trail hj h htr]; rfl
  refine ⟨by rw [hp], ?_⟩
  unfold cssBad
  rw [hp]
  have hne := C08C.declMap_ne_nil (C08C.declsText_ne_nil h)
  cases hm : C08C.declMap ds with
  | nil => exact absurd hm hne
  | cons x xs => simp [cssBadP, C08C.toFtlMap]

section examplesC
open C08C

private def tx (s : String) : Str := s.toList.map Char.toNat

/-- what the grammar reads off the generated regex (pins: they document the lists; the theorems do not depend on them) -/
example : cssProps = [tx "min-width", tx "min-height", tx "max-width", tx "max-height", tx "width", tx "height"] := by decide
example : cssUnits = [tx "ch", tx "em", tx "ex", tx "rem", tx "px", tx "cm", tx "mm", tx "in", tx "pc", tx "pt"] := by decide

private def d1 : Decl := ⟨tx "width", [], tx " ", tx "12", tx "em"⟩
private def d2 : Decl := ⟨tx "min-height", tx " ", [], tx ".5", tx "px"⟩
private theorem d1ok : d1.Ok := ⟨by decide, by decide, by decide, .int (tx "12") (by decide) (by decide), by decide⟩
private theorem d2ok : d2.Ok := ⟨by decide, by decide, by decide, .frac [] (tx "5") (by decide) (by decide) (by decide), by decide⟩

/-- non-vacuity: " width: 12em ;min-height :.5px; " is in the grammar … -/
example : CssSpec [d1, d2] (tx " " ++ ((d1.text ++ (tx " ;" ++ d2.text)) ++ tx "; ")) :=
  .mk (tx " ") _ (tx "; ") _ (Or.inl (by decide))
    (.cons d1 (tx " ;") [d2] d2.text d1ok ⟨tx " ", [], by decide, by decide, by decide⟩ (.one d2 d2ok))
    (Or.inr ⟨[], tx " ", by decide, by decide, by decide⟩)
/-- … and the regex code, evaluated, agrees with the theorem -/
example : parseCssSpec (tx " width: 12em ;min-height :.5px; ") =
    (some [(tx "width", some (tx "em")), (tx "min-height", some (tx "px"))], none) := by decide +kernel
example : declMap [d1, d2] = [(tx "width", tx "em"), (tx "min-height", tx "px")] := by decide

/-- the junk of the harness's edits is junk in the sense of the theorems: "x", "x ", "; foo", ", " -/
example : IsJunk (tx "x") := ⟨by decide, ⟨120, by decide, by decide, by decide⟩⟩
example : IsJunk (tx "x ") := ⟨by decide, ⟨120, by decide, by decide, by decide⟩⟩
example : IsJunk (tx "; foo") := ⟨by decide, ⟨102, by decide, by decide, by decide⟩⟩
example : IsJunk (tx ", ") := ⟨by decide, ⟨44, by decide, by decide, by decide⟩⟩
/-- … evaluated: "width: 12emx", "x width: 12em", "width: 12em min-height :.5px", "width: 12emmin-height :.5px" -/
example : (parseCssSpec (tx "width: 12emx")).2 = some [CssErr.badContent 11] ∧
    (parseCssSpec (tx "x width: 12em")).2 = some [CssErr.badContent 0] ∧
    (parseCssSpec (tx "width: 12em min-height :.5px")).2 = some [CssErr.missingSemicolon 11] ∧
    (parseCssSpec (tx "width: 12emmin-height :.5px")).2 = some [CssErr.missingSemicolon 11] := by decide +kernel

/-- outside the grammar and outside the defect classes (no theorem; the code's verdicts, pinned):
    two semicolons are bad content, a leading semicolon is accepted (it is in the grammar: `IsEdge`) -/
example : cssBad (tx "width:1em;;height:2px") = true ∧ cssBad (tx ";width:1em") = false := by decide +kernel

end examplesC

/-! ## round 4

### text-blindness of the WHOLE checker (also for the untranslated copy)

`C08T.mapMsg f g` replaces the value of every TextElement by `f` of it and the value of every StringLiteral (also of
named arguments) by `g` of it, everywhere in the message — value, attributes, variants, selectors, call arguments — except
in a `style` attribute that consists of one single TextElement (that text is the CSS spec under test).  `f`, `g` are
arbitrary functions.  Spans are inputs of the model and stay (see `check_text_blind` for what that means for the code). -/

/-- **check_message is text-blind, on both sides**: re-texting the localization (and, independently, the reference)
    changes nothing in the message list of `FluentChecker.check_message` — not one error, warning, position or text. -/
theorem check_message_text_blind (kp : Option (List Str)) (f g f' g' : Str → Str) (ref : Entry) (l10n : Message) :
    checkMessage kp (C08T.mapRefEntry f' g' ref) (C08T.mapMsg f g l10n) = checkMessage kp ref l10n :=
  C08T.checkMessage_map kp f g f' g' ref l10n

/-- **check_term is text-blind** (terms have no CSS exception: every text of the term may change) -/
theorem check_term_text_blind (kp : Option (List Str)) (f g : Str → Str) (t : Term) :
    checkTerm kp (C08T.mapTerm f g t) = checkTerm kp t :=
  C08T.checkTerm_map kp f g t

/-- **FluentChecker.check is text-blind**: for every locale, the results for a re-texted pair are the results for the
    original pair, except for the U+FFFD warnings of `Checker.check` (category `encodings`), which scan the source text
    `all` of the localized entity.  (In the code a re-texted entity has other spans; they only move the positions.) -/
theorem check_text_blind (locale : Option Str) (key all all' : Str) (f g f' g' : Str → Str) (ref l10n : Entry) :
    ∃ kp rest, getPlural locale = .ok kp ∧
      check locale key all ref l10n = .ok (checkEncoding key all ++ rest) ∧
      check locale key all' (C08T.mapRefEntry f' g' ref) (C08T.mapL10nEntry f g l10n) = .ok (checkEncoding key all' ++ rest) := by
  obtain ⟨kp, hkp, h⟩ := check_ok locale key all ref l10n
  obtain ⟨kp', hkp', h'⟩ := check_ok locale key all' (C08T.mapRefEntry f' g' ref) (C08T.mapL10nEntry f g l10n)
  have : kp' = kp := by rw [hkp] at hkp'; cases hkp'; rfl
  subst this
  refine ⟨kp', finish l10n.start (entryMsgs kp' ref l10n), hkp, ?_, ?_⟩
  · rw [h, checkWith_eq]
  · rw [h', checkWith_eq, C08T.entryMsgs_map, C08T.mapL10nEntry_start]

/-- **The untranslated copy is not special.**  Checking a message against ITSELF (what the linter does, and what compare
    does for a localization that copied the reference) gives exactly the messages that any re-texted copy gets.  So a
    shortcut "identical to the reference ⇒ nothing to report" changes verdicts whenever a re-texted copy has one. -/
theorem untranslated_copy_same_verdicts (kp : Option (List Str)) (f g : Str → Str) (m : Message) :
    checkMessage kp (.message m) (C08T.mapMsg f g m) = checkMessage kp (.message m) m :=
  C08T.checkMessage_map_l10n kp f g (.message m) m

/-- relation form: two localizations that differ in their texts only (`C08T.mapMsg` to the empty text gives the same
    skeleton) get the same messages against any reference -/
theorem same_skeleton_same_verdicts (kp : Option (List Str)) (ref : Entry) (l l' : Message)
    (h : C08T.mapMsg (fun _ => []) (fun _ => []) l = C08T.mapMsg (fun _ => []) (fun _ => []) l') :
    checkMessage kp ref l = checkMessage kp ref l' := by
  have h1 := C08T.checkMessage_map_l10n kp (fun _ => []) (fun _ => []) ref l
  have h2 := C08T.checkMessage_map_l10n kp (fun _ => []) (fun _ => []) ref l'
  rw [← h1, ← h2, h]

/-- **Self-check (`checker.check(entity, entity)`: the linter; compare for a verbatim copy).**  Checking a message against
    itself never gives a value / attribute error or a reference warning; it gives exactly: the duplicate-attribute warnings,
    `check_variants` (duplicate keys, plural categories of the locale) of every select expression the message visitors
    reach, and per `style` attribute the CSS verdict against the (popped) map of the message's own last style — i.e. the
    findings that are a function of the SHAPE and the locale.  It is not the empty list in general (see the examples). -/
theorem self_check_structure (kp : Option (List Str)) (m : Message) :
    checkMessage kp (.message m) m =
      checkDuplicateAttributes m.attributes
      ++ (match m.value with | some p => (evPattern false p).flatMap (termMsgs kp) | none => [])
      ++ C08S.attrsSel kp (refVisitEntry (.message m)).css m.attributes :=
  C08S.checkMessage_self kp m

/-! ### spans (white space, comments) do not influence verdicts -/

/-- **Equal entities, equal verdicts.**  If `FluentEntity.equals` holds between two localized messages (same AST up to spans
    and comments: e.g. another indentation, other blanks inside placeables, another comment), `check_message` gives them, against
    any reference, the same messages up to positions: same severities and texts in the same order (before the sort). -/
theorem equal_entities_same_verdicts (kp : Option (List Str)) (ref l l' : Message)
    (h : entityEquals (.message l) (.message l') = true) :
    (checkMessage kp (.message ref) l).map C08E.pf = (checkMessage kp (.message ref) l').map C08E.pf := by
  simp only [entityEquals, Entry.id, Entry.value, Entry.attributes, Bool.and_eq_true] at h
  exact C08E.checkMessage_eqv kp ref l l' h.1.2 h.2

/-- … and so does `check`: as multisets of (severity, text) — the sort by position may order them differently -/
theorem equal_entities_same_results (kp : Option (List Str)) (ref l l' : Message)
    (h : entityEquals (.message l) (.message l') = true) :
    ((finish l.start (checkMessage kp (.message ref) l)).map C08E.opf).Perm
      ((finish l'.start (checkMessage kp (.message ref) l')).map C08E.opf) := by
  have h1 := C08E.finish_opf_perm l.start (checkMessage kp (.message ref) l)
  have h2 := C08E.finish_opf_perm l'.start (checkMessage kp (.message ref) l')
  rw [equal_entities_same_verdicts kp ref l l' h] at h1
  exact h1.trans h2.symm

/-- **The verbatim copy of the reference** (`refEntity.equals(l10nEntity)`: compare's "unchanged") gets, up to positions,
    the self-check of the reference (`self_check_structure`) — which is `[]` only if the reference's own shape is clean for
    the locale.  This is the exact condition under which the shortcut "equal to the reference ⇒ report nothing" is right. -/
theorem verbatim_copy_verdicts (kp : Option (List Str)) (ref l : Message)
    (h : entityEquals (.message ref) (.message l) = true) :
    (checkMessage kp (.message ref) l).map C08E.pf =
      (checkDuplicateAttributes ref.attributes
        ++ (match ref.value with | some p => (evPattern false p).flatMap (termMsgs kp) | none => [])
        ++ C08S.attrsSel kp (refVisitEntry (.message ref)).css ref.attributes).map C08E.pf := by
  rw [← self_check_structure, equal_entities_same_verdicts kp ref ref l h]

/-- terms: same value and same attributes up to spans ⇒ same warnings up to positions.  (`FluentTerm.equals` IGNORES the
    attributes, so for terms `equals` alone does not give this: see the example below.) -/
theorem equal_terms_same_verdicts (kp : Option (List Str)) (t t' : Term) (hv : t.value.eqv t'.value = true)
    (ha : attrsEqv t.attributes t'.attributes = true) : (checkTerm kp t).map C08E.pf = (checkTerm kp t').map C08E.pf :=
  C08E.checkTerm_eqv kp t t' hv ha

/-! ### check_message / check_term as public methods: the defensive RuntimeErrors are unreachable through `check` -/

/-- `L10nMessageVisitor.visit_Term` / `TermVisitor.visit_Message` raise exactly when check_message is handed a Term /
    check_term a Message as the localized entry … -/
theorem raw_methods_raise (kp : Option (List Str)) (ref : Entry) (m : Message) (t : Term) :
    checkMessageRaw kp ref (.term t) = .error .runtime ∧ checkTermRaw kp (.message m) = .error .runtime ∧
    checkMessageRaw kp ref (.message m) = .ok (checkMessage kp ref m) ∧ checkTermRaw kp (.term t) = .ok (checkTerm kp t) :=
  ⟨rfl, rfl, rfl, rfl⟩

/-- … and `FluentChecker.check`, which dispatches on the type of the localized entry, never does that: written with the
    raw methods it is the `checkWith` of all other theorems, for every pair of entries. -/
theorem check_dispatch_total (kp : Option (List Str)) (key all : Str) (ref l10n : Entry) :
    checkDispatch kp key all ref l10n = .ok (checkWith kp key all ref l10n) := by
  cases l10n <;> rfl

/-! ### one FluentChecker instance over a sequence of calls -/

/-- **History does not matter.**  `Ftl.Checker` carries everything a FluentChecker object stores (`locale`, `extra_tests`,
    `reference`).  Whatever sequence of `set_reference` and `check` calls one instance has served, every `check` returns what
    a FRESH checker for the same locale returns for that pair; the instance itself only changes by `set_reference`. -/
theorem checker_history_irrelevant (c : Checker) (acts : List Action) :
    (c.run acts).1 = acts.filterMap (C08I.freshResult c.locale) ∧
    (c.run acts).2 = { c with reference := C08I.lastRef acts c.reference } :=
  C08I.run_spec c acts

/-- in particular the verdict for a pair does not depend on what was checked before or on `set_reference` -/
theorem checker_verdict_independent (c : Checker) (before : List Action) (key all : Str) (ref l10n : Entry) :
    ((c.run before).2.step (.case key all ref l10n)).1 = some (check c.locale key all ref l10n) := by
  rw [(C08I.run_spec c before).2]
  rfl

/-! ### the order of the `Missing attribute:` errors (a Python set iteration) -/

/-- **Set-iteration order is invisible outside the run.**  `for missing_attr in ref_attrs - l10n_attrs` appends its errors in
    hash order.  The message list of check_message is `pre ++ run ++ post` with `run` = the Missing-attribute errors
    (`ftl_error_count`: one per name, each once — a multiset); for ANY other order `run'` of that run, the sorted list that
    `check` yields is a permutation of the modelled one, and every sub-selection that leaves the run out — e.g. all other
    messages — is literally the same list.  (All elements of the run sit at position 0 and differ in their text only.) -/
theorem missing_attr_order_irrelevant (kp : Option (List Str)) (ref l10n : Message) :
    ∃ pre post, checkMessage kp (.message ref) l10n =
        pre ++ missingAttrErrs (dictKeys (attrsPos [] ref.attributes)) (dictKeys (attrsPos [] l10n.attributes)) ++ post ∧
      ∀ run', run'.Perm (missingAttrErrs (dictKeys (attrsPos [] ref.attributes)) (dictKeys (attrsPos [] l10n.attributes))) →
        (sortBy C08I.posLe (pre ++ run' ++ post)).Perm (sortBy C08I.posLe (checkMessage kp (.message ref) l10n)) ∧
        ∀ p : Msg → Bool, (∀ m ∈ run', p m = false) →
          (sortBy C08I.posLe (pre ++ run' ++ post)).filter p = (sortBy C08I.posLe (checkMessage kp (.message ref) l10n)).filter p := by
  refine ⟨checkDuplicateAttributes l10n.attributes
      ++ valueMsgs kp (rrOf (refVisitEntry (.message ref)).entryRefs) l10n.value
      ++ attrsMsgs kp (rrOf (refVisitEntry (.message ref)).entryRefs) (refVisitEntry (.message ref)).css l10n.attributes
      ++ valueErrs ref.value.isSome l10n.value,
    obsoleteAttrErrs (dictKeys (attrsPos [] ref.attributes)) (attrsPos [] l10n.attributes)
      ++ missingRefs (refVisitEntry (.message ref)).entryRefs (l10nVisitMessage kp (refVisitEntry (.message ref)) l10n).entryRefs,
    ?_, ?_⟩
  · rw [check_message_structure]; simp only [List.append_assoc]
  · intro run' hperm
    have h := C08I.run_order_irrelevant
      (checkDuplicateAttributes l10n.attributes
        ++ valueMsgs kp (rrOf (refVisitEntry (.message ref)).entryRefs) l10n.value
        ++ attrsMsgs kp (rrOf (refVisitEntry (.message ref)).entryRefs) (refVisitEntry (.message ref)).css l10n.attributes
        ++ valueErrs ref.value.isSome l10n.value) run' _
      (obsoleteAttrErrs (dictKeys (attrsPos [] ref.attributes)) (attrsPos [] l10n.attributes)
        ++ missingRefs (refVisitEntry (.message ref)).entryRefs (l10nVisitMessage kp (refVisitEntry (.message ref)) l10n).entryRefs) hperm
    have hs : checkMessage kp (.message ref) l10n = _ := check_message_structure kp ref l10n
    simp only [List.append_assoc] at h hs ⊢
    rw [hs]
    exact h

/-- `finish` (what `check` does with the message list) is that sort followed by the shift to entry-relative positions -/
theorem finish_is_sort (start : Nat) (msgs : List Msg) : finish start msgs = (sortBy C08I.posLe msgs).map (toOut start) := rfl

/-! ### the CSS warnings of check_style -/

/-- **Text of the CSS warning.**  For dicts `ref_map`, `l10n_map` (distinct keys — `css_maps_are_dicts`), a non-empty
    `l10n_map` and no syntax errors, `check_style` yields nothing when the maps agree, else ONE warning at position 0 whose
    text is the `", "`-join of: `"<p> only in reference"` for the reference's properties the localization lacks, in REVERSE
    reference order; `"<p> only in l10n"` for the localization's properties the reference lacks, in REVERSE localization
    order; `"units for <p> don't match (<l10n unit> != <ref unit>)"` for common properties with different units, in
    localization order.  Afterwards `ref_map` holds only the properties the localization did not name (`pop`). -/
theorem css_warning_text (rm lm : CssMap) (ce : Option (List CssErr)) (hne : lm ≠ [])
    (hce : (match ce with | some (_ :: _) => true | _ => false) = false)
    (hl : (dictKeys lm).Nodup) (hr : (dictKeys rm).Nodup) :
    checkStyle rm (some lm) ce =
      (if (C08W.styleMsgs rm lm).isEmpty then []
        else [⟨sevWarning, 0, join [44, 32] (C08W.styleMsgs rm lm)⟩], C08W.popped rm lm) ∧
    C08W.styleMsgs rm lm =
      ((C08W.onlyRef rm lm).map C08W.onlyRefMsg).reverse ++ ((C08W.onlyL10n rm lm).map C08W.onlyL10nMsg).reverse
        ++ C08W.mismatches rm lm := by
  have e9 : fmt checkStyleStr_9 [] = sevWarning := by decide
  have e10 : fmt checkStyleStr_10 [] = [44, 32] := by decide
  rw [C08W.checkStyle_ok rm lm ce hne hce hl hr, e9, e10]
  exact ⟨rfl, rfl⟩

/-- the parts of that text, as a set -/
theorem css_warning_members (rm lm : CssMap) (m : Str) :
    m ∈ C08W.styleMsgs rm lm ↔
      (∃ q ∈ rm, q.1 ∉ dictKeys lm ∧ m = C08W.onlyRefMsg q.1) ∨
      (∃ p ∈ lm, p.1 ∉ dictKeys rm ∧ m = C08W.onlyL10nMsg p.1) ∨
      (∃ p ∈ lm, ∃ ru, dictGet? rm p.1 = some ru ∧ p.2 ≠ ru ∧ m = C08W.unitsMsg p.1 p.2 ru) :=
  C08W.mem_styleMsgs rm lm m

/-- the maps the hypotheses of `css_warning_text` talk about are what the code has: every map `parse_css_spec` returns, and
    the reference visitor's `css_styles`, is non-empty with distinct keys -/
theorem css_maps_are_dicts :
    (∀ v m, (parseCssSpec v).1 = some m → m ≠ [] ∧ (dictKeys m).Nodup) ∧
    (∀ ref rm, (refVisitEntry ref).css = .map rm → (dictKeys rm).Nodup) :=
  ⟨fun v m h => ⟨C08W.parseCssSpec_ne_nil v m h, C08W.parseCssSpec_nodup v m h⟩, C08W.refVisitEntry_css_nodup⟩

/-- **Several `style` attributes in one message: `reference.css_styles` is popped in place.**  With the reference's map
    `rm`, the per-attribute messages of the l10n visitor are `C08W.attrsSpec`: attribute by attribute the node messages, then
    the style verdict against the map AS IT IS AT THAT MOMENT (`C08W.styleVerdict`: the warning of `css_warning_text` for an
    accepted style, the error for a bad one, nothing otherwise), then the map loses every property an accepted style named
    (`C08W.popOne`).  So a property is reported "only in reference" by every accepted style that lacks it until one names
    it, and a second style naming an already popped property reports it as "only in l10n".  Without a reference map (no
    `style` in the reference, or a complex one) every style is compared with a fresh empty map. -/
theorem css_pop_across_styles (kp : Option (List Str)) (rr : Slot → List Str) (attrs : List Attribute) :
    (∀ rm, (dictKeys rm).Nodup → attrsMsgs kp rr (.map rm) attrs = C08W.attrsSpec kp rr rm attrs) ∧
    (∀ rc, (∀ rm, rc ≠ .map rm) → attrsMsgs kp rr rc attrs = C08W.attrsSpecNoMap kp rr attrs) ∧
    (∀ rm q, q ∈ attrs.foldl C08W.popOne rm ↔
      q ∈ rm ∧ ∀ a ∈ attrs, ∀ lm, C08W.goodMap a = some lm → q.1 ∉ dictKeys lm) := by
  refine ⟨fun rm hr => C08W.attrsMsgs_map kp rr rm hr attrs, fun rc hrc => C08W.attrsMsgs_nomap kp rr rc hrc attrs, ?_⟩
  intro rm q
  rw [← C08W.cssAfter_eq_foldl]
  exact C08W.mem_cssAfter rm attrs q

/-- **maybe_style** (the entry of the other checkers into the same code): nothing when the reference value holds no
    declaration at all; otherwise exactly what `check_style` yields for the reference's map (syntax errors of the REFERENCE
    are dropped) and the parsed localization, every tuple in category `css`. -/
theorem maybe_style_spec (r l : Str) :
    ((parseCssSpec r).1 = none → maybeStyle r l = []) ∧
    (∀ rm, (parseCssSpec r).1 = some rm →
      (maybeStyle r l).map C08W.dropCat = (checkStyle rm (parseCssSpec l).1 (parseCssSpec l).2).1 ∧
      (∀ o ∈ maybeStyle r l, o.cat = fmt checkStyleStr_2 []) ∧
      ((∃ o ∈ maybeStyle r l, o.sev = sevError) ↔ cssBad l = true)) := by
  refine ⟨C08W.maybeStyle_none r l, ?_⟩
  intro rm h
  rw [C08W.maybeStyle_some r l rm h]
  obtain ⟨h1, _, h3⟩ := C08W.checkStyle4_eq rm (parseCssSpec l).1 (parseCssSpec l).2
  refine ⟨h1, h3, ?_⟩
  have herr := checkStyle_errs rm (parseCssSpec l).1 (parseCssSpec l).2
  rw [← h1] at herr
  have heta : ((parseCssSpec l).fst, (parseCssSpec l).snd) = parseCssSpec l := rfl
  rw [heta] at herr
  constructor
  · rintro ⟨o, ho, hs⟩
    by_cases hb : cssBad l = true
    · exact hb
    · have hb' : cssBadP (parseCssSpec l) = false := by simpa [cssBad] using hb
      rw [hb'] at herr
      have : C08W.dropCat o ∈ errsOf ((checkStyle4 rm (parseCssSpec l).1 (parseCssSpec l).2).1.map C08W.dropCat) := by
        refine List.mem_filter.mpr ⟨List.mem_map.mpr ⟨o, ho, rfl⟩, ?_⟩
        simp [C08W.dropCat, hs]
      rw [herr] at this
      cases this
  · intro hb
    have hb' : cssBadP (parseCssSpec l) = true := hb
    rw [hb'] at herr
    have hmem : cssError ∈ errsOf ((checkStyle4 rm (parseCssSpec l).1 (parseCssSpec l).2).1.map C08W.dropCat) := by
      rw [herr]; exact List.mem_cons_self
    obtain ⟨hm, hsev⟩ := List.mem_filter.mp hmem
    obtain ⟨o, ho, hoe⟩ := List.mem_map.mp hm
    refine ⟨o, ho, ?_⟩
    have : (C08W.dropCat o).sev = sevError := by rw [hoe]; rfl
    exact this

/-- `FluentEntity.equals` is reflexive (an entity equals itself, whatever it contains) -/
theorem entity_equals_refl (e : Entry) : entityEquals e e = true := C08I.entityEquals_refl e

/-! ### non-vacuity and negation witnesses of round 4 -/

section examples4
open Ftl

private def t4 (s : String) : Str := s.toList.map Char.toNat
private def pat4 (s : String) : Pattern := .mk 0 [.text (t4 s)]
private def k4 (s : String) (p : Nat) : VKey := .ident p (t4 s)

/-- the English message `{ $n -> [one] … *[other] … }`, copied verbatim into Russian (one, few, many) -/
private def enPlural : Message :=
  ⟨0, t4 "m", some (.mk 4 [.text (t4 "You have "), .placeable (.select (.varRef (t4 "n"))
    [.mk (k4 "one" 20) (pat4 "one item") false, .mk (k4 "other" 40) (pat4 "many items") true])]), []⟩

/-- **the regression `identical to the reference ⇒ []` is wrong for the model**: the verbatim copy gets the plural warning … -/
example : (checkMessage (some [t4 "one", t4 "few", t4 "many"]) (.message enPlural) enPlural).map (fun m => (m.sev, m.pos, m.text)) =
    [(sevWarning, 20, t4 "Plural categories missing: few, many")] := by decide +kernel
/-- … the same one a re-texted copy gets (instance of `untranslated_copy_same_verdicts`, evaluated) … -/
example : checkMessage (some [t4 "one", t4 "few", t4 "many"]) (.message enPlural)
      (C08T.mapMsg (fun v => v ++ t4 " (ru)") id enPlural) =
    checkMessage (some [t4 "one", t4 "few", t4 "many"]) (.message enPlural) enPlural := by decide +kernel
/-- … and `mapMsg` really changes the texts (the theorem is not about the identity) -/
example : (C08T.mapMsg (fun v => v ++ t4 "!") id ⟨0, t4 "m", some (pat4 "v"), [⟨8, t4 "a", pat4 "w"⟩]⟩).value.map patternVariants = some [t4 "v!"] ∧
    (C08T.mapMsg (fun v => v ++ t4 "!") id ⟨0, t4 "m", some (pat4 "v"), [⟨8, t4 "a", pat4 "w"⟩]⟩).attributes.map (fun a => patternVariants a.value) =
      [[t4 "w!"]] := by decide +kernel
/-- a copied bad `style` stays an error; duplicated attributes stay warnings -/
example : (checkMessage none (.message ⟨0, t4 "m", some (pat4 "v"), [⟨8, t4 "style", pat4 "wide"⟩, ⟨20, t4 "a", pat4 "x"⟩, ⟨30, t4 "a", pat4 "y"⟩]⟩)
      ⟨0, t4 "m", some (pat4 "v"), [⟨8, t4 "style", pat4 "wide"⟩, ⟨20, t4 "a", pat4 "x"⟩, ⟨30, t4 "a", pat4 "y"⟩]⟩).map (fun m => (m.sev, m.pos)) =
    [(sevWarning, 20), (sevWarning, 30), (sevError, 0)] := by decide +kernel
/-- the CSS text of a `style` attribute is NOT free: `mapMsg` leaves it alone (a changed spec changes the verdict) -/
example : (C08T.mapMsg (fun _ => t4 "x") id ⟨0, t4 "m", none, [⟨8, t4 "style", pat4 "width: 1em"⟩, ⟨30, t4 "label", pat4 "width: 1em"⟩]⟩).attributes.map
      (fun a => patternVariants a.value) = [[t4 "width: 1em"], [t4 "x"]] := by decide +kernel
example : checkMessage none (.message ⟨0, t4 "m", none, [⟨8, t4 "style", pat4 "width: 1em"⟩]⟩) ⟨0, t4 "m", none, [⟨8, t4 "style", pat4 "x"⟩]⟩ ≠
    checkMessage none (.message ⟨0, t4 "m", none, [⟨8, t4 "style", pat4 "width: 1em"⟩]⟩) ⟨0, t4 "m", none, [⟨8, t4 "style", pat4 "width: 1em"⟩]⟩ := by
  decide +kernel

/-- CSS warning text, evaluated: reference `width: 1em; height: 2px; min-width: 3ch`, localization `max-width: 1in; height: 2em` -/
example : (checkStyle [(t4 "width", some (t4 "em")), (t4 "height", some (t4 "px")), (t4 "min-width", some (t4 "ch"))]
      (some [(t4 "max-width", some (t4 "in")), (t4 "height", some (t4 "em"))]) none) =
    ([⟨sevWarning, 0, t4 "min-width only in reference, width only in reference, max-width only in l10n, units for height don't match (em != px)"⟩],
     [(t4 "width", some (t4 "em")), (t4 "min-width", some (t4 "ch"))]) := by decide +kernel
/-- two `style` attributes against the reference `width: 1em; height: 2px`: the first (`width: 1em`) pops `width`, so the second
    (`width: 1em; height: 2px`) is told that `width` is only in l10n -/
example : ((C08W.attrsSpec none (fun _ => []) [(t4 "width", some (t4 "em")), (t4 "height", some (t4 "px"))]
      [⟨8, t4 "style", pat4 "width: 1em"⟩, ⟨30, t4 "style", pat4 "width: 1em; height: 2px"⟩]).map (·.text)) =
    [t4 "height only in reference", t4 "width only in l10n"] := by decide +kernel
/-- the hypotheses of `css_warning_text` are needed: with a duplicate key in `ref_map` (not a dict) `pop` removes one pair only -/
example : (checkStyle [(t4 "width", some (t4 "em")), (t4 "width", some (t4 "px"))] (some [(t4 "width", some (t4 "em"))]) none).2 ≠
    C08W.popped [(t4 "width", some (t4 "em")), (t4 "width", some (t4 "px"))] [(t4 "width", some (t4 "em"))] := by decide +kernel

/-- maybe_style: reference without any declaration → silent; bad localization → the error; other unit → the warning -/
example : maybeStyle (t4 "wide") (t4 "x") = [] ∧
    (maybeStyle (t4 "width: 1em") (t4 "x")).map (fun o => (o.sev, o.text, o.cat)) = [(sevError, t4 "reference is a CSS spec", t4 "css")] ∧
    (maybeStyle (t4 "width: 1em") (t4 "width: 1px")).map (fun o => (o.sev, o.text)) =
      [(sevWarning, t4 "units for width don't match (px != em)")] := by decide +kernel

/-- a run in another order: same multiset after the sort, same list once the run is left out -/
example : sortBy C08I.posLe ([⟨sevWarning, 5, t4 "w"⟩] ++ [⟨sevError, 0, t4 "b"⟩, ⟨sevError, 0, t4 "a"⟩] ++ [⟨sevError, 3, t4 "o"⟩]) ≠
    sortBy C08I.posLe ([⟨sevWarning, 5, t4 "w"⟩] ++ [⟨sevError, 0, t4 "a"⟩, ⟨sevError, 0, t4 "b"⟩] ++ [⟨sevError, 3, t4 "o"⟩]) := by decide +kernel

/-- one instance: set_reference and earlier pairs do not touch a later verdict -/
example : ((Checker.new (some (t4 "ru"))).run [.case (t4 "m") (t4 "m = x") (.message enPlural) (.message enPlural),
      .setRef [t4 "a"], .case (t4 "m") (t4 "m = x") (.message enPlural) (.message enPlural)]).1.length = 2 := by decide +kernel

/-- FluentEntity.equals ignores spans, not texts; a term ignores its attributes -/
example : entityEquals (.message ⟨0, t4 "m", some (pat4 "a"), []⟩) (.message ⟨7, t4 "m", some (.mk 11 [.text (t4 "a")]), []⟩) = true ∧
    entityEquals (.message ⟨0, t4 "m", some (pat4 "a"), []⟩) (.message ⟨0, t4 "m", some (pat4 "b"), []⟩) = false ∧
    entityEquals (.term ⟨0, t4 "t", pat4 "a", [⟨5, t4 "x", pat4 "1"⟩]⟩) (.term ⟨0, t4 "t", pat4 "a", []⟩) = true ∧
    entityEquals (.message ⟨0, t4 "t", some (pat4 "a"), [⟨5, t4 "x", pat4 "1"⟩]⟩) (.message ⟨0, t4 "t", some (pat4 "a"), []⟩) = false := by
  decide +kernel

/-- equal up to spans: the same verdicts at other positions (`equal_entities_same_verdicts`, evaluated) -/
example : (checkMessage (some [t4 "one", t4 "few", t4 "many"]) (.message enPlural)
      ⟨7, t4 "m", some (.mk 13 [.text (t4 "You have "), .placeable (.select (.varRef (t4 "n"))
        [.mk (k4 "one" 33) (.mk 39 [.text (t4 "one item")]) false, .mk (k4 "other" 60) (.mk 68 [.text (t4 "many items")]) true])]), []⟩).map
      (fun m => (m.sev, m.pos, m.text)) = [(sevWarning, 33, t4 "Plural categories missing: few, many")] := by decide +kernel
/-- `FluentTerm.equals` ignores attributes, check_term does not: two "equal" terms with different verdicts -/
example : entityEquals (.term ⟨0, t4 "t", pat4 "a", []⟩) (.term ⟨0, t4 "t", pat4 "a", [⟨5, t4 "x", pat4 "1"⟩, ⟨9, t4 "x", pat4 "2"⟩]⟩) = true ∧
    (checkTerm none ⟨0, t4 "t", pat4 "a", []⟩).length = 0 ∧
    (checkTerm none ⟨0, t4 "t", pat4 "a", [⟨5, t4 "x", pat4 "1"⟩, ⟨9, t4 "x", pat4 "2"⟩]⟩).length = 2 := by decide +kernel

end examples4

end C08

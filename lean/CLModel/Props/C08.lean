/-
C08 — Fluent: structural mismatches are errors, text differences never are.
Property theorems only (helper lemmas live in CLModel/Proofs/C08*.lean).

`Ftl.check locale key all ref l10n` is the model of
`list(FluentChecker(locale=…).check(refEnt, l10nEnt))` (checks/fluent.py + Checker.check of checks/base.py):
`ref`/`l10n` are the fluent.syntax ASTs of the two entities, `key`/`all` the l10n entity's key and source text.
All theorems quantify over ALL ASTs of the inductive type (a superset of what fluent.syntax produces).
-/
import CLModel.Checks.Fluent
import CLModel.Proofs.C08
import CLModel.Proofs.C08Plural
import CLModel.Proofs.C08Refs
import CLModel.Proofs.C08CGrammar
import CLModel.Proofs.C08CAgree
import CLModel.Proofs.C08CReject
namespace C08
open Ftl Gen.Tables

/-- the yielded list contains an `error` -/
def hasError (outs : List Out) : Prop := ∃ o ∈ outs, o.sev = sevError

def attrNames (attrs : List Attribute) : List Str := attrs.map (·.name)

/-- `check` never raises: the plural lookup is total on the generated tables, so the result is
    `checkWith kp` for the locale's plural categories `kp`. -/
theorem check_total (locale : Option Str) (key all : Str) (ref l10n : Entry) :
    ∃ kp, getPlural locale = .ok kp ∧ check locale key all ref l10n = .ok (checkWith kp key all ref l10n) :=
  check_ok locale key all ref l10n

/-- **Errors are exactly the structural mismatches.**  For every locale and every pair of messages,
    `check` yields an error iff value presence differs, or some attribute name occurs on one side
    only, or the localization has a `style` attribute whose value is a single text element that
    parse_css_spec/check_style do not accept (`badStyle`).  Nothing else — no text, placeable,
    reference, variant or plural difference — can produce an error. -/
theorem ftl_error_iff (locale : Option Str) (key all : Str) (ref l10n : Message) :
    ∃ outs, check locale key all (.message ref) (.message l10n) = .ok outs ∧
      (hasError outs ↔
        (ref.value.isSome ≠ l10n.value.isSome
          ∨ (∃ n ∈ attrNames ref.attributes, n ∉ attrNames l10n.attributes)
          ∨ (∃ n ∈ attrNames l10n.attributes, n ∉ attrNames ref.attributes)
          ∨ ∃ a ∈ l10n.attributes, badStyle a = true)) := by
  obtain ⟨kp, _, h⟩ := check_ok locale key all (.message ref) (.message l10n)
  refine ⟨_, h, ?_⟩
  unfold hasError
  rw [checkWith_hasError_iff]
  exact checkMessage_hasErr_iff kp ref l10n

/-- A *term* as the reference of a message (not reachable through compare-locales, where entities are
    paired by key and a term's key starts with `-`): the reference visitor has no `visit_Term`, so the
    reference counts as having no value. -/
theorem ftl_error_iff_term_reference (kp : Option (List Str)) (t : Term) (l10n : Message) :
    (∃ m ∈ checkMessage kp (.term t) l10n, m.sev = sevError) ↔
      (l10n.value.isSome = true
        ∨ (∃ n ∈ attrNames t.attributes, n ∉ attrNames l10n.attributes)
        ∨ (∃ n ∈ attrNames l10n.attributes, n ∉ attrNames t.attributes)
        ∨ ∃ a ∈ l10n.attributes, badStyle a = true) := by
  rw [checkMessage_hasErr_iff_gen kp (.term t) false t.attributes (refVisitEntry_term_hasValue t)
    (refVisitEntry_term_attrPos t) l10n]
  have : false ≠ l10n.value.isSome ↔ l10n.value.isSome = true := by cases l10n.value.isSome <;> simp
  rw [this]
  rfl

/-- **One error per mismatch.**  The errors of check_message (before the sort by position) are, in
    this order: one `reference is a CSS spec` per bad `style` attribute occurrence, `Obsolete value`
    (at the value) or `Missing value` when value presence differs, one `Missing attribute: n` per
    name `n` of the reference missing in the localization (each name once), one
    `Obsolete attribute: n` per name only in the localization (each name once, at the start of the
    LAST attribute with that name). -/
theorem ftl_error_count (kp : Option (List Str)) (ref l10n : Message) :
    ∃ (missing : List Str) (obsolete : List (Str × Nat)),
      missing.Nodup ∧ (∀ n, n ∈ missing ↔ n ∈ attrNames ref.attributes ∧ n ∉ attrNames l10n.attributes) ∧
      (obsolete.map (·.1)).Nodup ∧
      (∀ n p, (n, p) ∈ obsolete ↔ n ∉ attrNames ref.attributes ∧ lastStart l10n.attributes n = some p) ∧
      errsOf (checkMessage kp (.message ref) l10n) =
        (l10n.attributes.filter badStyle).map (fun _ => cssError)
        ++ valueErrs ref.value.isSome l10n.value
        ++ missing.map (fun n => ⟨sevError, 0, fmt fluentMsg_missing_attribute [n]⟩)
        ++ obsolete.map (fun p => ⟨sevError, p.2, fmt fluentMsg_obsolete_attribute [p.1]⟩) := by
  refine ⟨(dictKeys (attrsPos [] ref.attributes)).filter (fun n => !(dictKeys (attrsPos [] l10n.attributes)).contains n),
    (attrsPos [] l10n.attributes).filter (fun p => !(dictKeys (attrsPos [] ref.attributes)).contains p.1), ?_, ?_, ?_, ?_, ?_⟩
  · exact (nodup_keys_attrsPos_nil _).filter _
  · intro n
    simp only [List.mem_filter, attrNames, mem_keys_attrsPos_nil]
    constructor
    · rintro ⟨h1, h2⟩
      refine ⟨h1, fun hm => ?_⟩
      have := (mem_keys_attrsPos_nil l10n.attributes n).mpr hm
      simp [this] at h2
    · rintro ⟨h1, h2⟩
      refine ⟨h1, ?_⟩
      have : n ∉ dictKeys (attrsPos [] l10n.attributes) := fun h => h2 ((mem_keys_attrsPos_nil _ _).mp h)
      simp [this]
  · have := (nodup_keys_attrsPos_nil l10n.attributes)
    unfold dictKeys at this
    exact (List.Nodup.sublist (List.Sublist.map _ List.filter_sublist) this)
  · intro n p
    simp only [List.mem_filter, attrNames]
    rw [mem_dict_iff _ (nodup_keys_attrsPos_nil _), dictGet?_attrsPos]
    have hnil : dictGet? ([] : List (Str × Nat)) n = none := rfl
    constructor
    · rintro ⟨h1, h2⟩
      refine ⟨fun hm => ?_, ?_⟩
      · have := (mem_keys_attrsPos_nil ref.attributes n).mpr hm
        simp [this] at h2
      · cases hl : lastStart l10n.attributes n with
        | none => rw [hl] at h1; simp [hnil] at h1
        | some s => rw [hl] at h1; simpa using h1
    · rintro ⟨h1, h2⟩
      refine ⟨by rw [h2], ?_⟩
      have : n ∉ dictKeys (attrsPos [] ref.attributes) := fun h => h1 ((mem_keys_attrsPos_nil _ _).mp h)
      simp [this]
  · rw [checkMessage_errs, refVisitEntry_message_hasValue, refVisitEntry_message_attrPos]
    rfl

/-- **Text differences are never errors.**  A localization with the same value presence and the same
    set of attribute names as the reference, and no bad `style` value, yields no error — whatever its
    patterns, placeables, references, select expressions and variants are (they are universally
    quantified: nothing about `l10n`'s patterns is assumed). -/
theorem ftl_text_irrelevant (locale : Option Str) (key all : Str) (ref l10n : Message)
    (hval : ref.value.isSome = l10n.value.isSome)
    (hattrs : ∀ n, n ∈ attrNames ref.attributes ↔ n ∈ attrNames l10n.attributes)
    (hstyle : ∀ a ∈ l10n.attributes, badStyle a = false) :
    ∃ outs, check locale key all (.message ref) (.message l10n) = .ok outs ∧ ¬ hasError outs := by
  obtain ⟨outs, h, hiff⟩ := ftl_error_iff locale key all ref l10n
  refine ⟨outs, h, fun he => ?_⟩
  rcases hiff.mp he with h1 | ⟨n, hn, hn'⟩ | ⟨n, hn, hn'⟩ | ⟨a, ha, hb⟩
  · exact h1 hval
  · exact hn' ((hattrs n).mp hn)
  · exact hn' ((hattrs n).mpr hn)
  · rw [hstyle a ha] at hb; cases hb

/-- **Terms are checked on their own and never yield errors.**  Whatever the reference entry is
    (it is not even looked at) and whatever the term contains, every result of `check` on a
    localized term is a warning. -/
theorem term_never_error (locale : Option Str) (key all : Str) (ref : Entry) (t : Term) :
    ∃ outs, check locale key all ref (.term t) = .ok outs ∧ ∀ o ∈ outs, o.sev = sevWarning := by
  obtain ⟨kp, _, h⟩ := check_ok locale key all ref (.term t)
  refine ⟨_, h, ?_⟩
  intro o ho
  rw [checkWith_eq] at ho
  rcases List.mem_append.mp ho with h1 | h1
  · exact checkEncoding_warn key all o h1
  · obtain ⟨m, hm, rfl⟩ := List.mem_map.mp ((finish_perm _ _).mem_iff.mp h1)
    exact checkTerm_warn kp t m hm

/-- the reference plays no role for a term -/
theorem term_ignores_reference (locale : Option Str) (key all : Str) (ref ref' : Entry) (t : Term) :
    check locale key all ref (.term t) = check locale key all ref' (.term t) := rfl

/-- **Order of the results**: `check` = the U+FFFD warnings followed by the visitor messages in a
    stable sort by position — a permutation of the visitor messages (mapped to entry-relative
    positions), sorted by position, and messages at the same position keep the order in which the
    visitors appended them. -/
theorem check_sorted_stable (kp : Option (List Str)) (key all : Str) (ref l10n : Entry) :
    ∃ sorted : List Msg,
      checkWith kp key all ref l10n = checkEncoding key all ++ sorted.map (toOut l10n.start) ∧
      sorted.Perm (entryMsgs kp ref l10n) ∧
      sorted.Pairwise (fun a b => a.pos ≤ b.pos) ∧
      ∀ p, sorted.filter (fun m => m.pos == p) = (entryMsgs kp ref l10n).filter (fun m => m.pos == p) := by
  refine ⟨sortBy (fun a b => decide (a.pos ≤ b.pos)) (entryMsgs kp ref l10n), ?_, sortBy_perm _ _, ?_, ?_⟩
  · rw [checkWith_eq, finish_eq]
  · have := sortBy_pairwise (fun (a b : Msg) => decide (a.pos ≤ b.pos))
      (by intro a b; simp only [decide_eq_true_eq]; omega)
      (by intro a b c; simp only [decide_eq_true_eq]; omega) (entryMsgs kp ref l10n)
    exact this.imp (by intro a b h; simpa using h)
  · intro p
    apply sortBy_filter
    intro a b ha hb
    have ha' : a.pos = p := by simpa using ha
    have hb' : b.pos = p := by simpa using hb
    simp [ha', hb']

/-! ### warnings -/

/-- **Structure of check_message**: the visitor messages of a message pair are, in this order,
    the duplicate-attribute warnings, the per-node messages of the value (`evMsgs`, see
    `node_messages`), per attribute its per-node messages followed by the CSS messages of a `style`
    attribute (`attrsMsgs`), the value / attribute errors of `ftl_error_count`, and the
    `Missing … reference` warnings (`ftl_missing_ref_warnings`).  `rrOf … slot` are the reference
    names recorded by the reference visitor for the slot (`ref_slot_names`). -/
theorem check_message_structure (kp : Option (List Str)) (ref l10n : Message) :
    checkMessage kp (.message ref) l10n =
      checkDuplicateAttributes l10n.attributes
      ++ valueMsgs kp (rrOf (refVisitEntry (.message ref)).entryRefs) l10n.value
      ++ attrsMsgs kp (rrOf (refVisitEntry (.message ref)).entryRefs) (refVisitEntry (.message ref)).css l10n.attributes
      ++ valueErrs ref.value.isSome l10n.value
      ++ missingAttrErrs (dictKeys (attrsPos [] ref.attributes)) (dictKeys (attrsPos [] l10n.attributes))
      ++ obsoleteAttrErrs (dictKeys (attrsPos [] ref.attributes)) (attrsPos [] l10n.attributes)
      ++ missingRefs (refVisitEntry (.message ref)).entryRefs
          (l10nVisitMessage kp (refVisitEntry (.message ref)) l10n).entryRefs :=
  checkMessage_structure kp ref l10n

/-- **Structure of check_term**: duplicate-attribute warnings, then `check_variants` of every
    select expression anywhere in the value and the attributes (deep traversal: selectors and call
    arguments included), in post-order. -/
theorem check_term_structure (kp : Option (List Str)) (t : Term) :
    checkTerm kp t = checkDuplicateAttributes t.attributes
      ++ ((t.value :: t.attributes.map (·.value)).flatMap (evPattern true)).flatMap (termMsgs kp) :=
  checkTerm_structure kp t

/-- the reference names recorded for a slot (value or attribute name) are exactly the message /
    term references met in the patterns of that slot; selectors of select expressions and
    arguments of term references are not visited, references to term attributes are not recorded. -/
theorem ref_slot_names (ref : Message) (slot : Slot) (r : Str) :
    r ∈ rrOf (refVisitEntry (.message ref)).entryRefs slot ↔ r ∈ slotRefNames ref.value ref.attributes slot :=
  mem_rrOf_ref ref slot r

/-- **Obsolete references**: a message reference (resp. a term reference without attribute) in a slot
    of the localization yields one `Obsolete message (term) reference` warning at its own position iff
    the reference recorded no reference of that name in the same slot; a select expression yields
    `check_variants` of its variants; nothing else yields anything. -/
theorem node_messages (kp : Option (List Str)) (rr : List Str) :
    (∀ s i, evMsgs kp rr (.msgRef s i none) =
        if i ∈ rr then [] else [⟨sevWarning, s, fmt fluentMsg_obsolete_msg_ref [i]⟩]) ∧
    (∀ s i a, evMsgs kp rr (.msgRef s i (some a)) =
        if i ++ 46 :: a ∈ rr then [] else [⟨sevWarning, s, fmt fluentMsg_obsolete_msg_ref [i ++ 46 :: a]⟩]) ∧
    (∀ s i, evMsgs kp rr (.termRef s i none) =
        if 45 :: i ∈ rr then [] else [⟨sevWarning, s, fmt fluentMsg_obsolete_term_ref [45 :: i]⟩]) ∧
    (∀ s i a, evMsgs kp rr (.termRef s i (some a)) = []) ∧
    (∀ keys, evMsgs kp rr (.select keys) = checkVariants kp keys) := by
  refine ⟨?_, ?_, ?_, ?_, ?_⟩ <;> intros <;> simp [evMsgs, Ev.refKey]

/-- **Missing references**: the `Missing message (term) reference: r` warnings (all at position 0) are
    exactly: one per slot of the reference and per distinct reference name `r` recorded there
    (`refSlotDict`, a dict with distinct keys) that the localization does not reference in the SAME slot. -/
theorem ftl_missing_ref_warnings (kp : Option (List Str)) (ref l10n : Message) :
    let M := missingRefs (refVisitEntry (.message ref)).entryRefs
              (l10nVisitMessage kp (refVisitEntry (.message ref)) l10n).entryRefs
    -- one warning per (slot, recorded name) that is missing:
    (M = (refVisitEntry (.message ref)).entryRefs.flatMap (fun sr =>
          (sr.2.filter (fun q => !(l10nSlotSet kp (refVisitEntry (.message ref)) l10n sr.1).contains q.1)).map
            (fun q => missingRefMsg q.1 q.2))) ∧
    (dictKeys (refVisitEntry (.message ref)).entryRefs).Nodup ∧
    (∀ slot, (dictKeys (refSlotDict ref slot)).Nodup) ∧
    -- and as a set:
    (∀ m, m ∈ M ↔ ∃ slot r t, (r, t) ∈ refSlotDict ref slot ∧ r ∉ slotRefNames l10n.value l10n.attributes slot
            ∧ m = missingRefMsg r t) ∧
    (∀ slot r, r ∈ dictKeys (refSlotDict ref slot) ↔ r ∈ slotRefNames ref.value ref.attributes slot) ∧
    (∀ slot q, q ∈ refSlotDict ref slot → q ∈ slotRefs ref.value ref.attributes slot) := by
  refine ⟨?_, nodup_keys_refVisitEntry ref, nodup_keys_refSlotDict ref, ?_, ?_, mem_refSlotDict ref⟩
  · simp only [missingRefs, missingRefMsg, l10nSlotSet]
    rfl
  · intro m
    rw [mem_missingRefs]
    constructor
    · rintro ⟨slot, refs, r, t, h1, h2, h3, rfl⟩
      have hne : refs ≠ [] := by intro h; rw [h] at h2; cases h2
      have := (mem_entryRefs_iff ref slot refs hne).mp h1
      subst this
      refine ⟨slot, r, t, h2, ?_, rfl⟩
      intro h
      exact h3 ((mem_l10nSlotSet kp _ l10n slot r).mpr h)
    · rintro ⟨slot, r, t, h2, h3, rfl⟩
      have hne : refSlotDict ref slot ≠ [] := by intro h; rw [h] at h2; cases h2
      refine ⟨slot, refSlotDict ref slot, r, t, (mem_entryRefs_iff ref slot _ hne).mpr rfl, h2, ?_, rfl⟩
      intro h
      exact h3 ((mem_l10nSlotSet kp _ l10n slot r).mp h)
  · intro slot r
    exact mem_rrOf_ref ref slot r

/-- **Duplicate attributes**: one `Attribute "n" is duplicated` warning per attribute occurrence whose
    name occurs at least twice, at the attribute's position (as a multiset; the sort by position
    fixes the final order).  Holds for messages and terms alike. -/
theorem ftl_dup_attribute_warnings (attrs : List Attribute) :
    (checkDuplicateAttributes attrs).Perm
      ((attrs.filter (fun a => decide (2 ≤ (attrs.map (·.name)).count a.name))).map
        (fun a => ⟨sevWarning, a.start, fmt fluentMsg_duplicate_attribute [a.name]⟩)) :=
  (dupLoop_nil_perm (fun a : Attribute => a.name) attrs).map _

/-- **Duplicate variant keys**: `check_variants` yields one `Variant key "k" is duplicated` warning per
    variant whose key (same node type and same text) occurs at least twice, at the key's position,
    followed by the plural warning of `ftl_plural_warning`. -/
theorem ftl_dup_variant_warnings (kp : Option (List Str)) (keys : List VKey) :
    ∃ dups, checkVariants kp keys = dups ++ checkPlurals kp keys ∧
      dups.Perm ((keys.filter (fun k => decide (2 ≤ (keys.map VKey.tag).count k.tag))).map
        (fun k => ⟨sevWarning, k.start, fmt fluentMsg_duplicate_variant [k.str]⟩)) := by
  refine ⟨_, rfl, ?_⟩
  rw [VKey.equals_eq]
  exact (dupLoop_nil_perm VKey.tag keys).map _

/-- **Incomplete plural-category sets**: for a locale with plural categories `cats`, `check_variants`
    yields the warning `Plural categories missing: …` iff some variant key names a category of the
    locale other than `other` and some category of the locale is named by no key; then exactly one
    warning, at the first variant key, listing the missing categories (each once) in `str` order.
    For a locale without plural data there is no such warning. -/
theorem ftl_plural_warning (cats : List Str) (keys : List VKey) :
    checkPlurals none keys = [] ∧
    ((usesCategory cats keys ∧ ∃ c ∈ cats, c ∉ keys.map VKey.str) →
      ∃ k0 rest, keys = k0 :: rest ∧
        checkPlurals (some cats) keys =
          [⟨sevWarning, k0.start, fmt fluentMsg_missing_plural [join [44, 32] (missingCats cats keys)]⟩]) ∧
    (¬ (usesCategory cats keys ∧ ∃ c ∈ cats, c ∉ keys.map VKey.str) → checkPlurals (some cats) keys = []) ∧
    (∀ c, c ∈ missingCats cats keys ↔ c ∈ cats ∧ c ∉ keys.map VKey.str) ∧
    (missingCats cats keys).Pairwise (fun a b => strLe a b = true ∧ a ≠ b) := by
  have hmiss : (missingCats cats keys).isEmpty = false ↔ ∃ c ∈ cats, c ∉ keys.map VKey.str := by
    constructor
    · intro h
      cases hm : missingCats cats keys with
      | nil => rw [hm] at h; cases h
      | cons c r =>
        have : c ∈ missingCats cats keys := by rw [hm]; exact List.mem_cons_self
        exact ⟨c, (mem_missingCats cats keys c).mp this⟩
    · rintro ⟨c, h1, h2⟩
      have : c ∈ missingCats cats keys := (mem_missingCats cats keys c).mpr ⟨h1, h2⟩
      cases hm : missingCats cats keys with
      | nil => rw [hm] at this; cases this
      | cons _ _ => rfl
  by_cases hc : cats = []
  · -- a locale with an empty category tuple (`if known_plurals:` is false): never a warning
    subst hc
    refine ⟨rfl, ?_, fun _ => rfl, mem_missingCats [] keys, missingCats_sorted [] keys⟩
    rintro ⟨⟨k, _, hk, _⟩, _⟩
    cases hk
  refine ⟨rfl, ?_, ?_, mem_missingCats cats keys, missingCats_sorted cats keys⟩
  · rintro ⟨hu, hm⟩
    obtain ⟨k, hk, _⟩ := hu
    cases keys with
    | nil => cases hk
    | cons k0 rest =>
      refine ⟨k0, rest, rfl, ?_⟩
      rw [checkPlurals_some cats hc]
      have h1 := (any_check_iff cats (k0 :: rest)).mpr ⟨k, hk, ‹_›⟩
      have h2 := hmiss.mpr hm
      simp only [h1, h2, Bool.not_false, Bool.and_self, if_true]
  · intro hn
    rw [checkPlurals_some cats hc]
    cases keys with
    | nil => rfl
    | cons k0 rest =>
      simp only
      split
      · rename_i hcond
        exfalso
        apply hn
        have hcond' := Bool.and_eq_true_iff.mp hcond
        refine ⟨(any_check_iff cats (k0 :: rest)).mp hcond'.1, hmiss.mp ?_⟩
        simpa using hcond'.2
      · rfl

/-- the plural categories used by `check` are the table entry of the locale: the locale itself or,
    failing that, its part before the first `-`; `None` and unknown locales have no plural data -/
theorem plural_lookup (locale : Option Str) :
    getPluralRule locale = match locale with
      | none => none
      | some l => match dictGet? categoriesByLocale l with
        | some i => some i
        | none => dictGet? categoriesByLocale (l.takeWhile (fun c => c != 45)) := rfl

/-! ### non-vacuity -/

section examples
open Ftl

private def t (s : String) : Str := s.toList.map Char.toNat
private def pat (s : String) : Pattern := .mk 0 [.text (t s)]

/-- reference `m = v` + `.label`; localization without value, with `.label` twice, `.extra`, bad `.style` -/
private def exRef : Message := ⟨0, t "m", some (pat "v"), [⟨10, t "label", pat "x"⟩]⟩
private def exL10n : Message :=
  ⟨0, t "m", none, [⟨6, t "label", pat "a"⟩, ⟨20, t "extra", pat "b"⟩, ⟨30, t "label", pat "c"⟩, ⟨40, t "style", pat "wide"⟩]⟩

example : (checkWith (some [t "one", t "other"]) (t "m") (t "m =") (.message exRef) (.message exL10n)).map
      (fun o => (o.sev, o.pos)) =
    [(sevError, 0), (sevError, 0), (sevWarning, 6), (sevError, 20), (sevWarning, 30), (sevError, 40)] := by decide +kernel

example : badStyle ⟨40, t "style", pat "wide"⟩ = true := by decide +kernel
example : badStyle ⟨40, t "style", pat "width: 12em; min-height:3px;"⟩ = false := by decide +kernel
example : badStyle ⟨40, t "style", pat "width: 12em height: 3px"⟩ = true := by decide +kernel
/-- the hypotheses of `ftl_text_irrelevant` are satisfiable with different texts, placeables and attribute counts -/
example : ∃ ref l10n : Message, ref.value.isSome = l10n.value.isSome ∧
    (∀ n, n ∈ attrNames ref.attributes ↔ n ∈ attrNames l10n.attributes) ∧
    (∀ a ∈ l10n.attributes, badStyle a = false) ∧ ref.attributes.length ≠ l10n.attributes.length :=
  ⟨exRef, ⟨0, t "m", some (.mk 4 [.text (t "x "), .placeable (.msgRef 6 (t "foo") none)]),
      [⟨10, t "label", pat "y"⟩, ⟨20, t "label", pat "z"⟩]⟩, rfl,
    by intro n; simp [attrNames, exRef], by decide +kernel, by decide⟩
/-- declarations that touch without a separator are refused (fixed finding C08-css-adjacent-declarations):
    parse_css_spec reports css-missing-semicolon at the end of the first declaration, so the style is bad -/
example : cssBad (t "width: 1emheight: 2px") = true := by decide +kernel
example : (parseCssSpec (t "width: 1emheight: 2px")).2 = some [CssErr.missingSemicolon 10] := by decide +kernel
example : badStyle ⟨40, t "style", pat "width: 1emheight: 2px"⟩ = true := by decide +kernel
example : (checkMessage none (.message ⟨0, t "m", some (pat "v"), [⟨8, t "style", pat "width: 20em"⟩]⟩)
      ⟨0, t "m", some (pat "v"), [⟨8, t "style", pat "height: 1emwidth: 2em"⟩]⟩).map (fun m => (m.sev, m.pos)) =
    [(sevError, 0)] := by decide +kernel
/-- trailing white space after the last declaration is not a missing semicolon (/repo 7c75698);
    white space between two declarations without a semicolon still is -/
example : cssBad [119, 105, 100, 116, 104, 58, 49, 101, 109, 32] = false ∧           -- "width:1em "
    cssBad [119, 105, 100, 116, 104, 58, 49, 101, 109, 10] = false ∧                 -- "width:1em\n"
    cssBad (t "width:1em;height:2px" ++ [9]) = false ∧
    (parseCssSpec (t "width: 1em height: 2px")).2 = some [CssErr.missingSemicolon 10] := by decide +kernel
/-- the last declaration needs no semicolon, with or without one the spec is fine -/
example : cssBad (t "width: 1em") = false ∧ cssBad (t "width: 1em;") = false ∧ cssBad (t "width: 1em; height: 2px") = false := by
  decide +kernel

private def k (s : String) (p : Nat) : VKey := .ident p (t s)
/-- Polish (one, few, many): keys one/other/one -> two duplicate warnings and a plural warning -/
example : (checkVariants (some [t "one", t "few", t "many"]) [k "one" 5, k "other" 15, k "one" 25]).map (fun m => (m.pos, m.text)) =
    [(5, t "Variant key \"one\" is duplicated"), (25, t "Variant key \"one\" is duplicated"),
     (5, t "Plural categories missing: few, many")] := by decide +kernel
example : usesCategory [t "one", t "few", t "many"] [k "one" 5, k "other" 15] := ⟨k "one" 5, by decide, by decide, by decide⟩
/-- only `other` and non-category keys: no plural warning even though categories are missing -/
example : checkPlurals (some [t "one", t "other"]) [k "other" 5, k "masculine" 9] = [] := by decide +kernel
/-- an identifier and a number literal with the same text are different keys -/
example : checkVariants none [.ident 1 (t "1"), .num 5 (t "1")] = [] := by decide +kernel
/-- a reference inside an attribute is compared with the same attribute of the reference only -/
example : (checkMessage none
      (.message ⟨0, t "m", some (.mk 4 [.placeable (.msgRef 6 (t "foo") none)]), [⟨20, t "a", pat "x"⟩]⟩)
      ⟨0, t "m", some (pat "v"), [⟨20, t "a", .mk 25 [.placeable (.msgRef 27 (t "foo") none)]⟩]⟩).map (fun m => (m.sev, m.pos, m.text)) =
    [(sevWarning, 27, t "Obsolete message reference: foo"), (sevWarning, 0, t "Missing message reference: foo")] := by decide +kernel
/-- a select expression inside a selector is checked for terms, not for messages -/
private def nestedSel : Pattern :=
  .mk 0 [.placeable (.select (.funRef (t "F") (.mk [.select (.varRef (t "n")) [.mk (k "a" 7) (pat "x") false, .mk (k "a" 9) (pat "y") true]] []))
    [.mk (k "b" 20) (pat "z") true])]
example : (checkTerm none ⟨0, t "t", nestedSel, []⟩).length = 2 := by decide +kernel
example : (checkMessage none (.message ⟨0, t "m", some (pat "v"), []⟩) ⟨0, t "m", some nestedSel, []⟩).length = 0 := by decide +kernel

end examples

/-! ## extension C: `badStyle` / `parse_css_spec` and an independent grammar of CSS size specs

`badStyle` in `ftl_error_iff` is the verdict of the regex code.  Here it is related to a grammar that knows
nothing about regexes: `C08C.CssSpec ds v` — optional leading `ws* (; ws*)?`, the declarations `ds`, each
`prop ws* : ws* number unit` (`number` = digits, or optional digits `.` digits), separated by `ws* ; ws*`,
optional trailing `ws* (; ws*)?`.  The property names (`C08C.cssProps`) and units (`C08C.cssUnits`) are read off
the generated `_css_spec` regex, so a unit added upstream is in the grammar at once. -/

/-- css_models_agree: checks/fluent.py and checks/dtd.py use the same `CSSCheckMixin.parse_css_spec`; its two models
    (`Ftl.parseCssSpec`, `Dtd.parseCssSpec`) return the same map and the same errors on EVERY text (they differ in
    representation only), so theorems about one hold for the other. -/
theorem css_models_agree (v : Str) :
    parseCssSpec v =
      ((Dtd.parseCssSpec v).1.map C08C.toFtlMap, (Dtd.parseCssSpec v).2.map (·.map C08C.toFtlErr)) :=
  C08C.css_models_agree v

/-- css_grammar_accepts (soundness of the grammar w.r.t. the code): every grammatical spec is parsed without errors,
    and the map is exactly that of its declarations — `ref_map[prop] = unit` in their order (Python dict). -/
theorem css_grammar_accepts (ds : List C08C.Decl) (v : Str) (h : C08C.CssSpec ds v) :
    (parseCssSpec v).2 = none ∧
    (parseCssSpec v).1 = some ((C08C.declMap ds).map (fun p => (p.1, some p.2))) := by
  rw [C08C.css_grammar_accepts_ftl ds v h]
  exact ⟨rfl, rfl⟩

/-- … with pairwise distinct property names that map is the list of (property, unit) pairs as written -/
theorem css_grammar_map_distinct (ds : List C08C.Decl) (h : (ds.map (·.prop)).Nodup) :
    C08C.declMap ds = ds.map (fun d => (d.prop, d.unit)) :=
  C08C.declMap_distinct ds h

/-- A grammatical spec is never "bad": a `style` attribute whose value is one text element in the grammar never
    contributes an error to `ftl_error_iff` / `ftl_error_count`. -/
theorem css_grammar_not_bad (ds : List C08C.Decl) (v : Str) (h : C08C.CssSpec ds v) : cssBad v = false := by
  unfold cssBad
  rw [C08C.css_grammar_accepts_ftl ds v h]
  have hne := C08C.declMap_ne_nil (C08C.cssSpec_ne_nil h)
  cases hm : C08C.declMap ds with
  | nil => exact absurd hm hne
  | cons x xs => simp [cssBadP, C08C.toFtlMap]

theorem style_grammar_not_bad (pos start : Nat) (ds : List C08C.Decl) (v : Str) (h : C08C.CssSpec ds v) :
    badStyle ⟨pos, sStyle, .mk start [.text v]⟩ = false := by
  simp [badStyle, patternVariants, Pattern.elements, css_grammar_not_bad ds v h]

/-- css_spec_errors: on a spec with defects (`C08C.SpecE`: every gap before a declaration is a correct separator,
    white space without the semicolon, or junk; the trailing text is correct or junk) `parse_css_spec` returns the map
    of all declarations and exactly one error per defective gap, in order: `css-missing-semicolon` /
    `css-bad-content` at the end of the preceding declaration (0 before the first). -/
theorem css_spec_errors (ds : List C08C.Decl) (v : Str) (errs : List Dtd.CssErr) (h : C08C.SpecE true 0 ds v errs) :
    parseCssSpec v = (some (C08C.toFtlMap (C08C.declMap ds)), (C08C.optOf errs).map (·.map C08C.toFtlErr)) := by
  rw [C08C.css_models_agree, C08C.css_spec_errors ds v errs h]
  rfl

/-- … so any defect makes the style bad (the check yields the error "reference is a CSS spec") -/
theorem css_defect_bad (ds : List C08C.Decl) (v : Str) (errs : List Dtd.CssErr) (h : C08C.SpecE true 0 ds v errs)
    (he : errs ≠ []) : cssBad v = true := by
  unfold cssBad
  rw [css_spec_errors ds v errs h]
  have hds : ds ≠ [] := by cases h <;> simp
  have hne := C08C.declMap_ne_nil hds
  cases hm : C08C.declMap ds with
  | nil => exact absurd hm hne
  | cons x xs =>
    cases errs with
    | nil => exact absurd rfl he
    | cons e es => simp [cssBadP, C08C.toFtlMap, C08C.optOf]

/-- the breaking edits of the harness: two correct blocks with only white space (or nothing: touching declarations)
    between them → exactly `css-missing-semicolon` at the end of the first block … -/
theorem css_missing_semicolon (ds1 ds2 : List C08C.Decl) (lead t1 ws t2 trail : Str) (hl : C08C.IsEdge lead)
    (h1 : C08C.DeclsText ds1 t1) (hws : ws.all C08C.isWs = true) (h2 : C08C.DeclsText ds2 t2) (htr : C08C.IsEdge trail) :
    (parseCssSpec (lead ++ (t1 ++ (ws ++ (t2 ++ trail))))).2 = some [CssErr.missingSemicolon (lead.length + t1.length)] ∧
    cssBad (lead ++ (t1 ++ (ws ++ (t2 ++ trail)))) = true := by
  have hd := C08C.css_missing_semicolon ds1 ds2 lead t1 ws t2 trail hl h1 hws h2 htr
  have hp : parseCssSpec (lead ++ (t1 ++ (ws ++ (t2 ++ trail)))) =
      (some (C08C.toFtlMap (C08C.declMap (ds1 ++ ds2))), some [CssErr.missingSemicolon (lead.length + t1.length)]) := by
    rw [C08C.css_models_agree, hd]; rfl
  refine ⟨by rw [hp], ?_⟩
  unfold cssBad
  rw [hp]
  have hne := C08C.declMap_ne_nil (ds := ds1 ++ ds2) (by
    have := C08C.declsText_ne_nil h1
    simp [this])
  cases hm : C08C.declMap (ds1 ++ ds2) with
  | nil => exact absurd hm hne
  | cons x xs => simp [cssBadP, C08C.toFtlMap]

/-- … junk after a correct spec → exactly `css-bad-content` at the end of the last declaration … -/
theorem css_junk_after (ds : List C08C.Decl) (lead t junk : Str) (hl : C08C.IsEdge lead) (h : C08C.DeclsText ds t)
    (hj : C08C.IsJunk junk) :
    (parseCssSpec (lead ++ (t ++ junk))).2 = some [CssErr.badContent (lead.length + t.length)] ∧
    cssBad (lead ++ (t ++ junk)) = true := by
  have hp : parseCssSpec (lead ++ (t ++ junk)) =
      (some (C08C.toFtlMap (C08C.declMap ds)), some [CssErr.badContent (lead.length + t.length)]) := by
    rw [C08C.css_models_agree, C08C.css_junk_after ds lead t junk hl h hj]; rfl
  refine ⟨by rw [hp], ?_⟩
  unfold cssBad
  rw [hp]
  have hne := C08C.declMap_ne_nil (C08C.declsText_ne_nil h)
  cases hm : C08C.declMap ds with
  | nil => exact absurd hm hne
  | cons x xs => simp [cssBadP, C08C.toFtlMap]

/-- … junk before a correct spec → exactly `css-bad-content` at position 0 -/
theorem css_junk_before (ds : List C08C.Decl) (junk t trail : Str) (hj : C08C.IsJunk junk) (h : C08C.DeclsText ds t)
    (htr : C08C.IsEdge trail) :
    (parseCssSpec (junk ++ (t ++ trail))).2 = some [CssErr.badContent 0] ∧ cssBad (junk ++ (t ++ trail)) = true := by
  have hp : parseCssSpec (junk ++ (t ++ trail)) =
      (some (C08C.toFtlMap (C08C.declMap ds)), some [CssErr.badContent 0]) := by
    rw [C08C.css_models_agree, C08C.css_junk_before ds junk t trail hj h htr]; rfl
  refine ⟨by rw [hp], ?_⟩
  unfold cssBad
  rw [hp]
  have hne := C08C.declMap_ne_nil (C08C.declsText_ne_nil h)
  cases hm : C08C.declMap ds with
  | nil => exact absurd hm hne
  | cons x xs => simp [cssBadP, C08C.toFtlMap]

section examplesC
open C08C

private def tx (s : String) : Str := s.toList.map Char.toNat

/-- what the grammar reads off the generated regex (pins: they document the lists; the theorems do not depend on them) -/
example : cssProps = [tx "min-width", tx "min-height", tx "max-width", tx "max-height", tx "width", tx "height"] := by decide
example : cssUnits = [tx "ch", tx "em", tx "ex", tx "rem", tx "px", tx "cm", tx "mm", tx "in", tx "pc", tx "pt"] := by decide

private def d1 : Decl := ⟨tx "width", [], tx " ", tx "12", tx "em"⟩
private def d2 : Decl := ⟨tx "min-height", tx " ", [], tx ".5", tx "px"⟩
private theorem d1ok : d1.Ok := ⟨by decide, by decide, by decide, .int (tx "12") (by decide) (by decide), by decide⟩
private theorem d2ok : d2.Ok := ⟨by decide, by decide, by decide, .frac [] (tx "5") (by decide) (by decide) (by decide), by decide⟩

/-- non-vacuity: " width: 12em ;min-height :.5px; " is in the grammar … -/
example : CssSpec [d1, d2] (tx " " ++ ((d1.text ++ (tx " ;" ++ d2.text)) ++ tx "; ")) :=
  .mk (tx " ") _ (tx "; ") _ (Or.inl (by decide))
    (.cons d1 (tx " ;") [d2] d2.text d1ok ⟨tx " ", [], by decide, by decide, by decide⟩ (.one d2 d2ok))
    (Or.inr ⟨[], tx " ", by decide, by decide, by decide⟩)
/-- … and the regex code, evaluated, agrees with the theorem -/
example : parseCssSpec (tx " width: 12em ;min-height :.5px; ") =
    (some [(tx "width", some (tx "em")), (tx "min-height", some (tx "px"))], none) := by decide +kernel
example : declMap [d1, d2] = [(tx "width", tx "em"), (tx "min-height", tx "px")] := by decide

/-- the junk of the harness's edits is junk in the sense of the theorems: "x", "x ", "; foo", ", " -/
example : IsJunk (tx "x") := ⟨by decide, ⟨120, by decide, by decide, by decide⟩⟩
example : IsJunk (tx "x ") := ⟨by decide, ⟨120, by decide, by decide, by decide⟩⟩
example : IsJunk (tx "; foo") := ⟨by decide, ⟨102, by decide, by decide, by decide⟩⟩
example : IsJunk (tx ", ") := ⟨by decide, ⟨44, by decide, by decide, by decide⟩⟩
/-- … evaluated: "width: 12emx", "x width: 12em", "width: 12em min-height :.5px", "width: 12emmin-height :.5px" -/
example : (parseCssSpec (tx "width: 12emx")).2 = some [CssErr.badContent 11] ∧
    (parseCssSpec (tx "x width: 12em")).2 = some [CssErr.badContent 0] ∧
    (parseCssSpec (tx "width: 12em min-height :.5px")).2 = some [CssErr.missingSemicolon 11] ∧
    (parseCssSpec (tx "width: 12emmin-height :.5px")).2 = some [CssErr.missingSemicolon 11] := by decide +kernel

/-- outside the grammar and outside the defect classes (no theorem; the code's verdicts, pinned):
    two semicolons are bad content, a leading semicolon is accepted (it is in the grammar: `IsEdge`) -/
example : cssBad (tx "width:1em;;height:2px") = true ∧ cssBad (tx ";width:1em") = false := by decide +kernel

end examplesC

end C08

/-
C15 — Cross-channel merge keeps every string once, newest wins, order stable.
Property theorems only (helper lemmas live in CLModel/Proofs/C15*.lean).

Vocabulary (defined in CLModel/Merge/Channels.lean):
  `versionDict i es`   the ordered dict `parse_resource` builds for version number `i` (0 = newest)
  `versionDicts rs`    these dicts for all versions, newest first
  `nwKeys d`           keys of the dict entries that are not Whitespace objects, in dict order
                       (entity keys, `(comment text, occurrence)` keys, section / instruction keys)
  `AR.specKeys l r`    key sequence of the C20 closed form of `AddRemove` (C20.addRemove_eq_spec / C20.ar_anchor)
All theorems hold for every list of versions and every entry list: no bound on sizes.

Vocabulary of the re-parse theorem `merge_reparses_properties_partial` (CLModel/Proofs/C02Roundtrip.lean):
  `P.printProps rs`        the file `key=value⏎` per record (C02)
  `P.SafeRec (key, value)` non-empty key without `# ! = :` / white-space; value without backslash / newline that neither starts
                           nor ends in a blank (nor ends in CR) — the class of C02.roundtrip_properties_partial
-/
import CLModel.Proofs.C15Text
import CLModel.Proofs.C15Newest
import CLModel.Proofs.C15RProps
import CLModel.Proofs.C15RIni
import CLModel.Proofs.C15Total
import CLModel.Proofs.C15Dup
import CLModel.Proofs.C20Dup
import CLModel.Proofs.C15RDtd
import CLModel.Proofs.C15Comment
import CLModel.Proofs.C15Hist
namespace C15
open Merge AR

/-- Every key of every version exactly once: the dict `merge_resources` returns has no key twice, and a key
    that is not a Whitespace object is in it iff it is a (non-Whitespace) key of the dict of some version.
    For the Python code: after `merge_channels` every entity / comment / section of every channel is
    serialised exactly once (Whitespace objects are folded by `prune` and excluded here). -/
theorem merged_keys (rs : List (List Ent)) (d : Dict) (h : mergeResources rs = some d) :
    (keysOf d).Nodup ∧
    ∀ k, k ∈ nwKeys d ↔ ∃ i es, rs[i]? = some es ∧ k ∈ nwKeys (versionDict i es) := by
  rw [mergeResources_eq] at h
  have hst := stamped_versionDicts rs
  cases hvd : versionDicts rs with
  | nil => rw [hvd] at h; simp at h
  | cons d0 ds =>
    rw [hvd] at h hst
    simp only [Option.some.injEq] at h
    subst h
    have hwf0 := hst.1
    have hlt := verEq_lt 0 d0 hst.2.1
    refine ⟨(fold_wf ds 1 d0 hwf0 hlt hst.2.2).nodup, ?_⟩
    intro k
    rw [fold_nwKeys ds 1 d0 hwf0 hlt hst.2.2, foldl_map_nwKeys]
    have hall : ∀ d ∈ d0 :: ds, WF d := stamped_wf 0 _ hst
    have := (foldSpec_mem (ds.map nwKeys) (nwKeys d0) (nwKeys_nodup d0 hwf0)
      (by
        intro r hr
        rw [List.mem_map] at hr
        obtain ⟨d, hd, rfl⟩ := hr
        exact nwKeys_nodup d (hall d (List.mem_cons_of_mem _ hd))) k).2
    rw [this]
    constructor
    · rintro (h0 | ⟨r, hr, hk⟩)
      · have : d0 ∈ versionDicts rs := by rw [hvd]; simp
        obtain ⟨i, es, hi, rfl⟩ := (mem_versionDicts rs d0).1 this
        exact ⟨i, es, hi, h0⟩
      · rw [List.mem_map] at hr
        obtain ⟨d, hd, rfl⟩ := hr
        have : d ∈ versionDicts rs := by rw [hvd]; exact List.mem_cons_of_mem _ hd
        obtain ⟨i, es, hi, rfl⟩ := (mem_versionDicts rs d).1 this
        exact ⟨i, es, hi, hk⟩
    · rintro ⟨i, es, hi, hk⟩
      have : versionDict i es ∈ d0 :: ds := by
        rw [← hvd]; exact (mem_versionDicts rs _).2 ⟨i, es, hi, rfl⟩
      rw [List.mem_cons] at this
      rcases this with e | hm
      · left; rw [← e]; exact hk
      · right; exact ⟨nwKeys (versionDict i es), List.mem_map.2 ⟨_, hm, rfl⟩, hk⟩

/-- The same for the strings themselves: an `entity.key` is a key of the merged dict iff some entry of
    some version (that is neither Comment nor Whitespace) has it — and then exactly once (`merged_keys`). -/
theorem merged_entity_keys (rs : List (List Ent)) (d : Dict) (h : mergeResources rs = some d) (ek : EKey) :
    Key.ent ek ∈ keysOf d ↔ ∃ es ∈ rs, ∃ e ∈ es, e.keyed = true ∧ e.ekey = ek := by
  have hmk := (merged_keys rs d h).2 (Key.ent ek)
  have hwf : WF d := by
    rw [mergeResources_eq] at h
    have hst := stamped_versionDicts rs
    cases hvd : versionDicts rs with
    | nil => rw [hvd] at h; simp at h
    | cons d0 ds =>
      rw [hvd] at h hst
      simp only [Option.some.injEq] at h
      subst h
      exact fold_wf ds 1 d0 hst.1 (verEq_lt 0 d0 hst.2.1) hst.2.2
  have hnw : ∀ d' : Dict, WF d' → (Key.ent ek ∈ nwKeys d' ↔ Key.ent ek ∈ keysOf d') := by
    intro d' hd'
    rw [nwKeys_eq_filter d' hd', List.mem_filter]
    simp [Key.isObj]
  rw [← hnw d hwf, hmk]
  constructor
  · rintro ⟨i, es, hi, hk⟩
    rw [hnw _ (versionDict_wf i es)] at hk
    have := (versionDict_mem_keys _ _ _).1 hk
    obtain ⟨e, he, hkeyed, hek⟩ := (pairs_ent_mem _ _ _).1 this
    -- `e` is a stamped copy of an entry of `es`
    simp only [stamp, List.mem_map] at he
    obtain ⟨p, hp, rfl⟩ := he
    have hp1 : p.1 ∈ es := by
      have := List.mem_map_of_mem (f := Prod.fst) hp
      rwa [List.zipIdx_map_fst] at this
    exact ⟨es, List.mem_of_getElem? hi, p.1, hp1, hkeyed, hek⟩
  · rintro ⟨es, hes, e, he, hkeyed, hek⟩
    obtain ⟨i, hi, hget⟩ := List.mem_iff_getElem.1 hes
    refine ⟨i, es, by rw [List.getElem?_eq_getElem hi, hget], ?_⟩
    rw [hnw _ (versionDict_wf i es)]
    apply (versionDict_mem_keys _ _ _).2
    apply (pairs_ent_mem _ _ _).2
    obtain ⟨j, hj, hgetj⟩ := List.mem_iff_getElem.1 he
    refine ⟨{ e with oid := (i, j) }, ?_, hkeyed, hek⟩
    simp only [stamp, List.mem_map]
    refine ⟨(e, j), ?_, rfl⟩
    rw [List.mem_zipIdx_iff_getElem?, List.getElem?_eq_getElem hj, hgetj]

/-- Newest wins: under a key that is not a Whitespace object the merged dict holds the entry of the FIRST
    version (newest first) whose dict has the key.  For the Python code: the text serialised for a string is
    `entity.all` (attached comment included) of the newest channel that has the string. -/
theorem newest_wins (rs : List (List Ent)) (d : Dict) (h : mergeResources rs = some d) (k : Key)
    (hk : k.isObj = false) :
    dget d k = (versionDicts rs).findSome? (fun dv => dget dv k) := by
  rw [mergeResources_eq] at h
  have hst := stamped_versionDicts rs
  cases hvd : versionDicts rs with
  | nil => rw [hvd] at h; simp at h
  | cons d0 ds =>
    rw [hvd] at h hst
    simp only [Option.some.injEq] at h
    subst h
    exact fold_dget ds 1 d0 hst.1 (verEq_lt 0 d0 hst.2.1) hst.2.2 k hk

/-- Newest wins, at the level of the serialised text: if version `i` (without a repeated key) has an entry `e`
    with key `ek`, and no entry of a newer version has that key, then the merged dict holds, under that key,
    an entry with exactly `e`'s text (`entity.all`, attached comment included). -/
theorem newest_text (rs : List (List Ent)) (d : Dict) (h : mergeResources rs = some d)
    (i : Nat) (es : List Ent) (hi : rs[i]? = some es) (hk : NodupKeys es)
    (e : Ent) (he : e ∈ es) (hkeyed : e.keyed = true)
    (hfirst : ∀ j < i, ∀ es', rs[j]? = some es' → ∀ e' ∈ es', e'.keyed = true → e'.ekey ≠ e.ekey) :
    (dget d (Key.ent e.ekey)).map (·.all) = some e.all := by
  have h1 := versionDict_dget_ent i es hk e he hkeyed
  cases hv : dget (versionDict i es) (Key.ent e.ekey) with
  | none => rw [hv] at h1; simp at h1
  | some v =>
    rw [hv] at h1
    rw [newest_wins rs d h _ rfl, versionDicts,
      findSome_first (Key.ent e.ekey) rs 0 i es v hi
        (fun j hj es' hes' => by
          rw [Nat.zero_add]
          exact versionDict_dget_none j es' e.ekey (hfirst j hj es' hes'))
        (by rw [Nat.zero_add]; exact hv)]
    exact h1

/-- The merged text is the concatenation of the texts of the merged dict's entries, in dict order
    (`serialize_legacy_resource`); with `merged_keys`, `newest_text` and `order_spec` this says which texts
    and in which order. -/
theorem merged_text (f : P.Fmt) (texts : List (Array Nat)) (t : List Nat) (h : mergeTexts f texts = .ok t) :
    ∃ vs d, walkAll f texts.zipIdx = .ok vs ∧ mergeResources vs = some d ∧ t = (d.map (·.2.all)).flatten := by
  unfold mergeTexts at h
  split at h
  · simp at h
  · rename_i vs hvs
    split at h
    · simp at h
    · rename_i d hd
      simp only [Except.ok.injEq] at h
      exact ⟨vs, d, hvs, hd, h.symm⟩

/-- Order: the key order of the merge (Whitespace objects aside) is the C20 closed form folded over the
    versions: start with the newest version's keys; for every older version, each key only it has goes right
    after the last key preceding it there that the merge so far has too (`AR.specKeys`, see `C20.ar_anchor`). -/
theorem order_spec (rs : List (List Ent)) (d : Dict) (h : mergeResources rs = some d) :
    ∃ d0 ds, versionDicts rs = d0 :: ds ∧
      nwKeys d = ds.foldl (fun l dv => specKeys l (nwKeys dv)) (nwKeys d0) := by
  rw [mergeResources_eq] at h
  have hst := stamped_versionDicts rs
  cases hvd : versionDicts rs with
  | nil => rw [hvd] at h; simp at h
  | cons d0 ds =>
    rw [hvd] at h hst
    simp only [Option.some.injEq] at h
    subst h
    exact ⟨d0, ds, rfl, fold_nwKeys ds 1 d0 hst.1 (verEq_lt 0 d0 hst.2.1) hst.2.2⟩

/-- The placement rule of one merge step, spelled out (from C20): keys only the older sequence `r` has and
    that follow no key of `l` come first, then every key `k` of `l` in `l`'s order, followed by the keys only
    `r` has whose last preceding `l`-key in `r` is `k`, in `r`'s order. -/
theorem order_step (l r : List Key) :
    specKeys l r =
      ((anchors l r none).filter (fun p => p.1 == none)).map (·.2) ++
        l.flatMap (fun k => k :: ((anchors l r none).filter (fun p => p.1 == some k)).map (·.2)) :=
  spec_keys' l r

/-- The newest version's keys keep their relative order in the merge. -/
theorem newest_order_kept (rs : List (List Ent)) (d : Dict) (h : mergeResources rs = some d) :
    ∃ d0 ds, versionDicts rs = d0 :: ds ∧ (nwKeys d).filter (fun k => (nwKeys d0).contains k) = nwKeys d0 := by
  obtain ⟨d0, ds, hvd, hord⟩ := order_spec rs d h
  refine ⟨d0, ds, hvd, ?_⟩
  rw [hord, foldl_map_nwKeys]
  exact foldSpec_left _ _

/-- Merging a single version returns its text.  `hl` is the losslessness of the parse (C01), `hk` excludes a
    key occurring twice in the file (an ordered dict keeps one entry per key: see the witness below). -/
theorem merge_single (f : P.Fmt) (s : Array Nat) (es : List P.Entry) (ents : List Ent)
    (hw : P.walk f s = .done es) (he : toEnts f s 0 es.zipIdx = .ok ents) (hk : NodupKeys ents)
    (hl : (es.map (P.Entry.all s)).flatten = s.toList) :
    mergeTexts f [s] = .ok s.toList := by
  have h1 : walkAll f [s].zipIdx = .ok [ents] := by
    simp [walkAll, walkEnts, hw, he]
  rw [mergeTexts, h1]
  simp only [mergeResources_single, serialize_versionDict 0 ents hk, toEnts_all f s 0 _ ents he]
  rw [← hl]
  congr 2
  have : (fun p : P.Entry × Nat => P.Entry.all s p.1) = (P.Entry.all s) ∘ Prod.fst := rfl
  rw [this, ← List.map_map, List.zipIdx_map_fst]

/-- Merging n+1 identical versions returns the text.  Besides the hypotheses of `merge_single`: the version is
    junk-free (`hj`, as the property states: every Junk object has its own key, so junk is repeated).
    (Round 4: the former hypothesis `NoAdjWs ents` — no two neighbouring Whitespace entries — is now PROVED for the
    parser models, `walk_no_adjacent_whitespace`.) -/
theorem merge_identical (f : P.Fmt) (s : Array Nat) (es : List P.Entry) (ents : List Ent) (n : Nat)
    (hw : P.walk f s = .done es) (he : toEnts f s 0 es.zipIdx = .ok ents)
    (hj : ∀ e ∈ es, e.kind ≠ .junk) (hk : NodupKeys ents)
    (hl : (es.map (P.Entry.all s)).flatten = s.toList) :
    mergeTexts f (List.replicate (n + 1) s) = .ok s.toList := by
  have ha : NoAdjWs ents := C15W.walk_noAdjWs f s es ents 0 hw he
  obtain ⟨vs, hvs, hall⟩ := walkAll_replicate f s es ents hw he hj (n + 1) 0
  obtain ⟨d, hd, hser⟩ := mergeResources_identical ents n hk ha
  rw [mergeTexts, hvs]
  simp only [mergeResources_congr _ _ hall, hd, hser, toEnts_all f s 0 _ ents he]
  rw [← hl]
  congr 2
  have : (fun p : P.Entry × Nat => P.Entry.all s p.1) = (P.Entry.all s) ∘ Prod.fst := rfl
  rw [this, ← List.map_map, List.zipIdx_map_fst]

/-- The entry-level core of `merge_identical`, for any format (Fluent and Android included, whose entries
    come from external parsers). -/
theorem merge_identical_entries (es : List Ent) (n : Nat) (hk : NodupKeys es) (ha : NoAdjWs es) :
    ∃ d, mergeResources (List.replicate (n + 1) es) = some d ∧ serialize d = (es.map (·.all)).flatten :=
  mergeResources_identical es n hk ha

/-- RE-PARSE, `.properties`, printed safe records.  Take ANY non-empty list of versions (newest first), each printed
    from safe records with distinct keys (`key=value⏎` per record; the versions may have different keys, values, orders).
    Then `merge_channels` — the model run end to end: every text parsed by `PropertiesParser.walk`, `merge_resources`,
    `serialize_legacy_resource` — succeeds, and `PropertiesParser.walk` parses the merged text, WITHOUT JUNK, into exactly
    one entity per record of a list `recs` (key = the record's key, raw value = value = the record's value, no comment) with:
    every key at most once; a key occurs iff some version has it; and for every record `r` of version `i` such that no
    newer version has its key, `r` itself is in `recs` (so, keys being unique, every key carries the value of the newest
    version having it).
    Proof route: C02 round trip (the walk of a printed file is known) → in each version's dict every entity is directly
    followed by a Whitespace object; this shape survives the closed form of `AddRemove`, `prune` and the fold over the
    versions (`C15R.merged_alt`) → `merged_text`: the text is a sequence of printed records and newlines → `C04R.walk_toks`;
    which records: `merged_entity_keys`, `newest_text`.
    FULL statement (not proved): the other formats, comments, blank lines, all legal layouts; entity ORDER of the re-parse
    (it is the dict order of `order_spec`). -/
theorem merge_reparses_properties_partial (vers : List (List P.PRec)) (hne : vers ≠ [])
    (hsafe : ∀ rs ∈ vers, ∀ r ∈ rs, P.SafeRec r) (hnd : ∀ rs ∈ vers, (rs.map (·.1)).Nodup) :
    ∃ (t : List Nat) (es : List P.Entry) (recs : List P.PRec), mergeTexts .properties (vers.map (fun rs => (P.printProps rs).toArray)) = .ok t ∧
      P.walk .properties t.toArray = .done es ∧
      P.entitiesOf .properties t.toArray es = recs.map P.expectedView ∧
      P.junkOf t.toArray es = [] ∧
      (recs.map (·.1)).Nodup ∧
      (∀ k, k ∈ recs.map (·.1) ↔ ∃ rs ∈ vers, k ∈ rs.map (·.1)) ∧
      (∀ (i : Nat) (rs : List P.PRec) (r : P.PRec), vers[i]? = some rs → r ∈ rs →
        (∀ j < i, ∀ rs' : List P.PRec, vers[j]? = some rs' → r.1 ∉ rs'.map (·.1)) → r ∈ recs) := by
  cases vers with
  | nil => exact absurd rfl hne
  | cons v vs =>
    obtain ⟨t, es, d, ht, hd, hwf, hgood, hw, he, hj⟩ := C15R.merge_reparses_core v vs hsafe hnd
    obtain ⟨h1, h2, h3⟩ := C15R.recs_facts (v :: vs) d hwf hgood hsafe hnd
      (fun ek => merged_entity_keys _ d hd ek)
      (fun i es hi hk e hmem hkeyed hfirst => newest_text _ d hd i es hi hk e hmem hkeyed hfirst)
    exact ⟨t, es, _, ht, hw, he, hj, h1, h2, h3⟩

/-- RE-PARSE, `.ini`, printed safe records.  Every version `[sec]⏎` + `key=value⏎` per record with the SAME section name
    (`C02X.printIni`; safe ini records, see `C02.roundtrip_ini_partial`), distinct keys per version, none equal to the section
    name.  Then `merge_channels` succeeds and `IniParser.walk` parses the merged text, WITHOUT JUNK, into the section entry and
    exactly one entity per record of a list `recs` with: every key at most once; a key occurs iff some version has it; the
    record of the newest version having a key is in `recs`.
    Additional step: the merged dict starts with the newest version's section entry (`C15R.merged_head`) and holds no other
    (dict keys are unique).  FULL statement (not proved): versions without / with several / with different sections, comments,
    blank lines. -/
theorem merge_reparses_ini_partial (sec : List Nat) (vers : List (List P.PRec)) (hne : vers ≠ [])
    (hsec : ∀ c ∈ sec, c ≠ 93 ∧ c ≠ 10)
    (hsafe : ∀ rs ∈ vers, ∀ r ∈ rs, C02X.SafeIniRec r) (hnd : ∀ rs ∈ vers, (sec :: rs.map (·.1)).Nodup) :
    ∃ (t : List Nat) (es : List P.Entry) (recs : List P.PRec),
      mergeTexts .ini (vers.map (fun rs => (C02X.printIni sec rs).toArray)) = .ok t ∧
      P.walk .ini t.toArray = .done es ∧
      P.entitiesOf .ini t.toArray es = recs.map P.expectedView ∧
      P.junkOf t.toArray es = [] ∧
      (recs.map (·.1)).Nodup ∧
      (∀ k, k ∈ recs.map (·.1) ↔ ∃ rs ∈ vers, k ∈ rs.map (·.1)) ∧
      (∀ (i : Nat) (rs : List P.PRec) (r : P.PRec), vers[i]? = some rs → r ∈ rs →
        (∀ j < i, ∀ rs' : List P.PRec, vers[j]? = some rs' → r.1 ∉ rs'.map (·.1)) → r ∈ recs) := by
  cases vers with
  | nil => exact absurd rfl hne
  | cons v vs =>
    obtain ⟨t, es, d, S, d', ht, hd, hde, hwf, hgood, hw, he, hj⟩ := C15R.merge_reparses_ini_core sec hsec v vs hsafe hnd
    obtain ⟨h1, h2, h3⟩ := C15R.recs_facts_ini sec (v :: vs) d S d' hde hwf hgood hnd
      (fun ek => merged_entity_keys _ d hd ek)
      (fun i es hi hk e hmem hkeyed hfirst => newest_text _ d hd i es hi hk e hmem hkeyed hfirst)
    exact ⟨t, es, _, ht, hw, he, hj, h1, h2, h3⟩



/-- RE-PARSE, DTD, printed safe records (round 4).  Every version `<!ENTITY key "value">⏎` per record
    (`C02X.printDtd`, the class of `C02.roundtrip_dtd_partial`), distinct keys per version.  Then `merge_channels` succeeds,
    the merged text is ITSELF a printed file `printDtd recs` (the merged dict alternates strictly entity / one-newline
    white-space: `C15S.merged_strict` — `Alt` + "prune never leaves two neighbouring white-space entries" + "the merge
    starts with an entity when every version does"), hence `DTDParser.walk` parses it WITHOUT JUNK into exactly one entity
    per record of `recs`; `recs` has every key once, a key iff some version has it, and the record of the newest version
    having the key.  FULL statement (not proved): comments, blank lines, other layouts, `&`/`"` in values; the ORDER of
    `recs` (it is the dict order of `order_spec`). -/
theorem merge_reparses_dtd_partial (vers : List (List P.PRec)) (hne : vers ≠ [])
    (hsafe : ∀ rs ∈ vers, ∀ r ∈ rs, C02X.SafeDtdRec r) (hnd : ∀ rs ∈ vers, (rs.map (·.1)).Nodup) :
    ∃ (t : List Nat) (es : List P.Entry) (recs : List P.PRec),
      mergeTexts .dtd (vers.map (fun rs => (C02X.printDtd rs).toArray)) = .ok t ∧
      t = C02X.printDtd recs ∧
      P.walk .dtd t.toArray = .done es ∧
      P.entitiesOf .dtd t.toArray es = recs.map P.expectedView ∧
      P.junkOf t.toArray es = [] ∧
      (recs.map (·.1)).Nodup ∧
      (∀ k, k ∈ recs.map (·.1) ↔ ∃ rs ∈ vers, k ∈ rs.map (·.1)) ∧
      (∀ (i : Nat) (rs : List P.PRec) (r : P.PRec), vers[i]? = some rs → r ∈ rs →
        (∀ j < i, ∀ rs' : List P.PRec, vers[j]? = some rs' → r.1 ∉ rs'.map (·.1)) → r ∈ recs) := by
  cases vers with
  | nil => exact absurd rfl hne
  | cons v vs =>
    obtain ⟨d, hd⟩ := C15S.merge_some C15S.dtdL v vs
    have hwa := C15S.walkAll_gen C15S.dtdL .dtd C02X.printDtd C02X.SafeDtdRec C15S.walkEnts_dtd_printed (v :: vs) 0 hsafe
    obtain ⟨recs, hser, hsr, h1, h2, h3⟩ := C15S.merged_printed C15S.dtdL C15S.dtdL_val C02X.SafeDtdRec (v :: vs) d hd
      hsafe hnd (fun ek => merged_entity_keys _ d hd ek)
      (fun i es hi hk e hmem hkeyed hfirst => newest_text _ d hd i es hi hk e hmem hkeyed hfirst)
    rw [C15S.printL_dtd] at hser
    obtain ⟨he1, he2⟩ := C02X.entitiesOf_dtdExpEntries (C02X.printDtd recs).toArray recs 0 (by simp) hsr
    refine ⟨C02X.printDtd recs, _, recs, ?_, rfl, C02X.walk_dtd_printed recs hsr, he1, he2, h1, h2, h3⟩
    unfold mergeTexts
    rw [hwa]
    simp only [hd, hser]

/-- RE-PARSE, .inc, printed safe records (round 4).  Every version `#define key value⏎` (`#define key⏎` for an empty
    value) per record (`C02X.printInc`, the class of `C02.roundtrip_inc_partial`), distinct keys per version.  Same
    conclusion as for DTD: the merged text is the printed file of `recs` and `DefinesParser.walk` parses it without junk.
    The strict alternation matters here: outside `#filter emptyLines` a blank line (two neighbouring newlines) or a leading
    newline IS Junk for `DefinesParser` (witnesses below), and `prune` / the head lemma exclude both.
    FULL statement (not proved): comments, `#filter emptyLines` blocks, other instructions. -/
theorem merge_reparses_inc_partial (vers : List (List P.PRec)) (hne : vers ≠ [])
    (hsafe : ∀ rs ∈ vers, ∀ r ∈ rs, C02X.SafeIncRec r) (hnd : ∀ rs ∈ vers, (rs.map (·.1)).Nodup) :
    ∃ (t : List Nat) (es : List P.Entry) (recs : List P.PRec),
      mergeTexts .inc (vers.map (fun rs => (C02X.printInc rs).toArray)) = .ok t ∧
      t = C02X.printInc recs ∧
      P.walk .inc t.toArray = .done es ∧
      P.entitiesOf .inc t.toArray es = recs.map P.expectedView ∧
      P.junkOf t.toArray es = [] ∧
      (recs.map (·.1)).Nodup ∧
      (∀ k, k ∈ recs.map (·.1) ↔ ∃ rs ∈ vers, k ∈ rs.map (·.1)) ∧
      (∀ (i : Nat) (rs : List P.PRec) (r : P.PRec), vers[i]? = some rs → r ∈ rs →
        (∀ j < i, ∀ rs' : List P.PRec, vers[j]? = some rs' → r.1 ∉ rs'.map (·.1)) → r ∈ recs) := by
  cases vers with
  | nil => exact absurd rfl hne
  | cons v vs =>
    obtain ⟨d, hd⟩ := C15S.merge_some C15S.incL v vs
    have hwa := C15S.walkAll_gen C15S.incL .inc C02X.printInc C02X.SafeIncRec C15S.walkEnts_inc_printed (v :: vs) 0 hsafe
    obtain ⟨recs, hser, hsr, h1, h2, h3⟩ := C15S.merged_printed C15S.incL C15S.incL_val C02X.SafeIncRec (v :: vs) d hd
      hsafe hnd (fun ek => merged_entity_keys _ d hd ek)
      (fun i es hi hk e hmem hkeyed hfirst => newest_text _ d hd i es hi hk e hmem hkeyed hfirst)
    rw [C15S.printL_inc] at hser
    obtain ⟨he1, he2⟩ := C02X.entitiesOf_incExpEntries (C02X.printInc recs).toArray recs 0 (by simp)
    refine ⟨C02X.printInc recs, _, recs, ?_, rfl, C02X.walk_inc_printed recs hsr, he1, he2, h1, h2, h3⟩
    unfold mergeTexts
    rw [hwa]
    simp only [hd, hser]

/-- the entry-level core of both (any parser): when every version's dict alternates strictly "entry, white-space, …",
    so does the merged dict -/
theorem merged_strict_shape (rs : List (List Ent)) (d : Dict) (h : mergeResources rs = some d)
    (hall : ∀ dv ∈ versionDicts rs, C15S.Strict dv) : C15S.Strict d :=
  C15S.merged_strict rs d h hall

/-! ### Round 4: hypotheses discharged by the parser models; equal keys; repeated keys -/

/-- `NoAdjWs` is a THEOREM about the parser models (all five regex formats, every text): the full walk never yields two
    neighbouring Whitespace entries — `[ \t\r\n]+` / `\n+` are greedy repeats of a one-character step, so the expression
    cannot match again where a match ended (`C15W.plus_stop`), and a Whitespace entry is only yielded where it matches. -/
theorem walk_no_adjacent_whitespace (f : P.Fmt) (s : Array Nat) (es : List P.Entry) (ents : List Ent) (v : Nat)
    (hw : P.walk f s = .done es) (he : toEnts f s v es.zipIdx = .ok ents) : NoAdjWs ents :=
  C15W.walk_noAdjWs f s es ents v hw he

/-- `merge_single` without ANY hypothesis about the walk: for every text `s` of every regex format (a DTD must not start
    with a byte-order mark: the DTD walk drops it) the walk terminates with entries the merge accepts (C01 totality and
    losslessness; PO: `PoEntity.key` re-evaluates a `createEntity` that succeeded), and if no `entity.key` occurs twice
    among them, `merge_channels(name, [s]) == s`. -/
theorem merge_single_total (f : P.Fmt) (s : Array Nat) (hb : f = .dtd → s[0]? ≠ some 0xFEFF) :
    ∃ es ents, P.walk f s = .done es ∧ toEnts f s 0 es.zipIdx = .ok ents ∧
      (NodupKeys ents → mergeTexts f [s] = .ok s.toList) := by
  obtain ⟨es, ents, hw, he, hl⟩ := C15W.walk_total f s 0
  exact ⟨es, ents, hw, he, fun hk => merge_single f s es ents hw he hk (hl hb)⟩

/-- `merge_identical` without any hypothesis about the walk: … and if moreover no entry is Junk,
    `merge_channels(name, [s] * (n+1)) == s`. -/
theorem merge_identical_total (f : P.Fmt) (s : Array Nat) (n : Nat) (hb : f = .dtd → s[0]? ≠ some 0xFEFF) :
    ∃ es ents, P.walk f s = .done es ∧ toEnts f s 0 es.zipIdx = .ok ents ∧
      ((∀ e ∈ es, e.kind ≠ .junk) → NodupKeys ents → mergeTexts f (List.replicate (n + 1) s) = .ok s.toList) := by
  obtain ⟨es, ents, hw, he, hl⟩ := C15W.walk_total f s 0
  exact ⟨es, ents, hw, he, fun hj hk => merge_identical f s es ents n hw he hj hk (hl hb)⟩

/-- ENTRIES WITH EQUAL KEYS COLLAPSE TO THE NEWEST.  The entry-level model takes the parser's entries WITH THEIR KEYS as
    input (for Android: the sticky `DocumentWrapper` entries are keyed `<?xml?><resources>`, the ATTRIBUTE NAME of each root
    attribute, `>`, `</resources>` — the harness checks this input contract on every generated version).  Whatever the
    entries are: if an entry `e` of version `i` (no key twice in that version) and an entry `e'` of any other version carry
    the same `entity.key`, and no version newer than `i` has that key, then the merged dict has that key exactly once
    (`Nodup` + membership) and the single entry stored under it carries `e`'s text — `e'`'s text is not serialised.
    For the Android wrappers: a root attribute present with different values in several channels appears ONCE, with the
    newest value. -/
theorem equal_keys_collapse (rs : List (List Ent)) (d : Dict) (h : mergeResources rs = some d)
    (i j : Nat) (es es' : List Ent) (hi : rs[i]? = some es) (_hj : rs[j]? = some es') (hk : NodupKeys es)
    (e e' : Ent) (he : e ∈ es) (_he' : e' ∈ es') (hkeyed : e.keyed = true) (_hkeyed' : e'.keyed = true)
    (heq : e'.ekey = e.ekey)
    (hfirst : ∀ j' < i, ∀ es'', rs[j']? = some es'' → ∀ x ∈ es'', x.keyed = true → x.ekey ≠ e.ekey) :
    (keysOf d).Nodup ∧ Key.ent e.ekey ∈ keysOf d ∧ (dget d (Key.ent e'.ekey)).map (·.all) = some e.all := by
  refine ⟨(merged_keys rs d h).1, ?_, ?_⟩
  · exact (merged_entity_keys rs d h e.ekey).2 ⟨es, List.mem_of_getElem? hi, e, he, hkeyed, rfl⟩
  · rw [heq]
    exact newest_text rs d h i es hi hk e he hkeyed hfirst


/-- STAND-ALONE COMMENTS (the duplicate-comment counter of `get_key_value`): the merge holds an `n`-th copy of the
    stand-alone comment text `v` iff SOME version has at least `n` stand-alone comments with that text — so the number of
    copies in the merge is the MAXIMUM over the versions (identical comments "at the same index" are de-duplicated, a version
    with more copies contributes the surplus).  A comment ATTACHED to a string is part of `entity.all` and travels with the
    string: with `newest_text`, the newest version's attached comment wins together with its value. -/
theorem comment_copies (rs : List (List Ent)) (d : Dict) (h : mergeResources rs = some d) (v : List Nat) (n : Nat) :
    Key.comment v n ∈ keysOf d ↔ ∃ es ∈ rs, 1 ≤ n ∧ n ≤ C15C.copies v es := by
  have hmk := (merged_keys rs d h).2 (Key.comment v n)
  have hwf : WF d := by
    rw [mergeResources_eq] at h
    have hst := stamped_versionDicts rs
    cases hvd : versionDicts rs with
    | nil => rw [hvd] at h; simp at h
    | cons d0 ds =>
      rw [hvd] at h hst
      simp only [Option.some.injEq] at h
      subst h
      exact fold_wf ds 1 d0 hst.1 (verEq_lt 0 d0 hst.2.1) hst.2.2
  have hnw : ∀ d' : Dict, WF d' → (Key.comment v n ∈ nwKeys d' ↔ Key.comment v n ∈ keysOf d') := by
    intro d' hd'
    rw [nwKeys_eq_filter d' hd', List.mem_filter]
    simp [Key.isObj]
  rw [← hnw d hwf, hmk]
  constructor
  · rintro ⟨i, es, hi, hk⟩
    rw [hnw _ (versionDict_wf i es), C15C.versionDict_comment] at hk
    exact ⟨es, List.mem_of_getElem? hi, hk⟩
  · rintro ⟨es, hes, hk⟩
    obtain ⟨i, hi, hget⟩ := List.mem_iff_getElem.1 hes
    refine ⟨i, es, by rw [List.getElem?_eq_getElem hi, hget], ?_⟩
    rw [hnw _ (versionDict_wf i es), C15C.versionDict_comment]
    exact hk

/-- A SINGLE VERSION WITH REPEATED KEYS (no `NodupKeys` hypothesis): `merge_channels(name, [s])` is the serialisation of
    the dict `OrderedDict(pairs)`, whose keys are the FIRST occurrences of the `get_key_value` keys in file order and whose
    value under an `entity.key` is the LAST entry of the file with that key: a repeated string is kept once, at the place
    of its first occurrence, with the text of its last occurrence (`a=1 ⏎ a=2 ⏎` ⇒ `a=2 ⏎ ⏎`).  "Every string once" holds,
    "a single version is returned unchanged" cannot (the input has the string twice): the two clauses of the property
    contradict each other on such a file, which is why it is outside the property's domain and not a finding. -/
theorem merge_single_dup (f : P.Fmt) (s : Array Nat) :
    ∃ es ents, P.walk f s = .done es ∧ toEnts f s 0 es.zipIdx = .ok ents ∧
      mergeTexts f [s] = .ok (serialize (versionDict 0 ents)) ∧
      keysOf (versionDict 0 ents) = C15D.firstOcc [] ((pairs (stamp 0 ents) []).map (·.1)) ∧
      (∀ ek, dget (versionDict 0 ents) (Key.ent ek) = C15D.lastEnt ek (stamp 0 ents)) := by
  obtain ⟨es, ents, hw, he, _⟩ := C15W.walk_total f s 0
  obtain ⟨h1, _, h3⟩ := C15D.versionDict_closed 0 ents
  refine ⟨es, ents, hw, he, ?_, h1, h3⟩
  have hwa : walkAll f [s].zipIdx = .ok [ents] := by simp [walkAll, walkEnts, hw, he]
  rw [mergeTexts, hwa]
  rfl

/-- the same closed form at entry level, for any parser and any version number -/
theorem version_dict_closed_form (v : Nat) (es : List Ent) :
    keysOf (versionDict v es) = C15D.firstOcc [] ((pairs (stamp v es) []).map (·.1)) ∧
    (∀ k, dget (versionDict v es) k = C15D.lastVal (pairs (stamp v es) []) k) ∧
    (∀ ek, dget (versionDict v es) (Key.ent ek) = C15D.lastEnt ek (stamp v es)) :=
  C15D.versionDict_closed v es

/-- NO MISPLACEMENT THROUGH REPEATED KEYS.  `AddRemove` misplaces later keys when the right sequence repeats a right-only
    key (C20: `left=[0,1]`, `right=[5,0,5,6]` yields 5, 6, 0, 1).  Inside `merge_channels` this cannot happen: at EVERY step
    of `reduce(merge_two, …)` both key lists handed to `AddRemove` — the keys of the merge so far and the keys of the next
    older version's dict — are duplicate-free, because `OrderedDict(pairs)` collapsed a repeated key when the version was
    parsed; the diff therefore IS the duplicate-free closed form (`order_spec` needs no hypothesis on the versions). -/
theorem diff_never_sees_duplicates (rs : List (List Ent)) (d0 : Dict) (ds : List Dict) (h : versionDicts rs = d0 :: ds)
    (n : Nat) (dv : Dict) (hn : ds[n]? = some dv) :
    (keysOf ((ds.take n).foldl mergeTwo d0)).Nodup ∧ (keysOf dv).Nodup ∧
    addRemove (keysOf ((ds.take n).foldl mergeTwo d0)) (keysOf dv)
      = spec (keysOf ((ds.take n).foldl mergeTwo d0)) (keysOf dv) :=
  C15D.diff_inputs_nodup rs d0 ds h n dv hn

/-- Unsupported file types are refused explicitly: when no pattern of `parser.__constructors` matches the
    file name, `merge_channels` raises MergeNotSupportedError whatever the resources are. -/
theorem unsupported_refused (name : List Nat) (texts : List (Array Nat)) (h : getParserClass name = none) :
    mergeChannels name texts = .error .mergeNotSupported := by
  simp [mergeChannels, h]

/-- … and only then: a file name some pattern matches is never answered with MergeNotSupportedError. -/
theorem refused_iff_unsupported (name : List Nat) (texts : List (Array Nat)) :
    mergeChannels name texts = .error .mergeNotSupported ↔ getParserClass name = none := by
  constructor
  · intro h
    cases hc : getParserClass name with
    | none => rfl
    | some cls =>
      exfalso
      simp only [mergeChannels, hc] at h
      split at h
      · exact mergeTexts_not_refused _ _ h
      · simp at h
  · exact unsupported_refused name texts

/-! ### non-vacuity -/

def e (k : Nat) (txt : List Nat) : Ent := { kind := .entity, ekey := .str [k], val := [], all := txt, oid := (0, 0) }
def w (txt : List Nat) : Ent := { kind := .whitespace, ekey := .str [], val := [], all := txt, oid := (0, 0) }
def c (txt : List Nat) : Ent := { kind := .comment, ekey := .str [], val := txt, all := txt, oid := (0, 0) }

/-- the hypotheses of the entry-level theorems hold for a version with a comment, entities and whitespace -/
example : NodupKeys [c [35], w [10, 10], e 1 [97], w [10], e 2 [98], w [10]] ∧
    NoAdjWs [c [35], w [10, 10], e 1 [97], w [10], e 2 [98], w [10]] := by
  constructor
  · unfold NodupKeys; decide
  · simp [NoAdjWs, Ent.isWs, w, e, c]

/-- a merge of two versions, evaluated through the closed form of `merge_two`: newest `a b`, older `a x b`
    with another value for `a`: the older-only `x` lands after `a`, `a` keeps the newest text -/
example : (mergeTwo (versionDict 0 [e 1 [97], w [10], e 2 [98], w [10]])
      (versionDict 1 [e 1 [65], w [10], e 3 [120], w [10], e 2 [98], w [10]])).map (·.2.all)
    = [[97], [10], [120], [10], [98], [10]] := by
  rw [mergeTwo_eq _ _ (versionDict_wf _ _) (versionDict_wf _ _)]
  decide

/-- the text-level theorems applied to a concrete properties file, `# c\n\na=1\n`: all hypotheses are
    discharged by evaluation, three identical versions merge to the text itself -/
def sampleText : Array Nat := #[35, 32, 99, 10, 10, 97, 61, 49, 10]
def sampleEntries : List P.Entry :=
  [{ kind := .comment, full := 0, s := 0, e := 3 },
   { kind := .whitespace, full := 3, s := 3, e := 5, ks := 3, ke := 5, vs := 3, ve := 5 },
   { kind := .entity, full := 5, s := 5, e := 8, ks := 5, ke := 6, vs := 7, ve := 8 },
   { kind := .whitespace, full := 8, s := 8, e := 9, ks := 8, ke := 9, vs := 8, ve := 9 }]
def sampleEnts : List Ent :=
  [{ kind := .comment, ekey := .str [], val := [32, 99], all := [35, 32, 99], oid := (0, 0) },
   { kind := .whitespace, ekey := .str [10, 10], val := [], all := [10, 10], oid := (0, 1) },
   { kind := .entity, ekey := .str [97], val := [], all := [97, 61, 49], oid := (0, 2) },
   { kind := .whitespace, ekey := .str [10], val := [], all := [10], oid := (0, 3) }]

example : mergeTexts .properties [sampleText, sampleText, sampleText] = .ok sampleText.toList :=
  merge_identical .properties sampleText sampleEntries sampleEnts 2 (by decide) (by rfl) (by decide)
    (by unfold NodupKeys; decide) (by decide)

example : mergeTexts .properties [sampleText] = .ok sampleText.toList :=
  merge_single .properties sampleText sampleEntries sampleEnts (by decide) (by rfl)
    (by unfold NodupKeys; decide) (by decide)

/-- the file-name patterns: `foo.unknown` is refused, `a.properties` is not -/
example : getParserClass [102, 111, 111, 46, 117, 110, 107, 110, 111, 119, 110] = none := by decide
example : getParserClass [97, 46, 112, 114, 111, 112, 101, 114, 116, 105, 101, 115] ≠ none := by decide

/-! ### negation witnesses for the hypotheses the proofs forced -/

/-- `NodupKeys` is needed in `merge_single`: with a key twice, the dict keeps the LAST entry at the FIRST
    position (`a=1 a=2` is serialised as `a=2`, the first line is lost) -/
example : ¬ NodupKeys [e 1 [97, 61, 49], w [10], e 1 [97, 61, 50], w [10]] ∧
    serialize (versionDict 0 [e 1 [97, 61, 49], w [10], e 1 [97, 61, 50], w [10]]) = [97, 61, 50, 10, 10] := by
  constructor
  · unfold NodupKeys; decide
  · decide

/-- `NoAdjWs` is needed in `merge_identical`: two neighbouring Whitespace entries are folded into one -/
example : ¬ NoAdjWs [w [10], w [32]] ∧
    (mergeTwo (versionDict 0 [w [10], w [32]]) (versionDict 1 [w [10], w [32]])).map (·.2.all) = [[10]] := by
  constructor
  · simp [NoAdjWs, Ent.isWs, w]
  · rw [mergeTwo_eq _ _ (versionDict_wf _ _) (versionDict_wf _ _)]
    decide

/-- junk-freeness is needed in `merge_identical`: every Junk object has its own key, identical junk is repeated -/
example : (mergeTwo
      (versionDict 0 [{ kind := .junk, ekey := .junk 0 0, val := [], all := [63], oid := (0, 0) }])
      (versionDict 1 [{ kind := .junk, ekey := .junk 1 0, val := [], all := [63], oid := (0, 0) }])).map (·.2.all)
    = [[63], [63]] := by
  rw [mergeTwo_eq _ _ (versionDict_wf _ _) (versionDict_wf _ _)]
  decide


/-! ### Round 4: witnesses -/

/-- a keyed entry as the entry-level model sees a sticky DocumentWrapper: (key, text) -/
def sw (k txt : List Nat) : Ent := { kind := .entity, ekey := .str k, val := [], all := txt, oid := (0, 0) }

/-- `equal_keys_collapse`, non-vacuity: wrappers `R`, attribute `a` (key = the attribute NAME `[2]`), `>`; the newest version
    has the text `[50]` for the attribute, the older one `[51]` and one more attribute `[4]`: the merge keeps `[50]` once
    and adds the older-only attribute after it -/
example : (mergeTwo (versionDict 0 [sw [1] [1], sw [2] [50], sw [3] [3]])
      (versionDict 1 [sw [1] [1], sw [2] [51], sw [4] [52], sw [3] [3]])).map (·.2.all) = [[1], [50], [52], [3]] := by
  rw [mergeTwo_eq _ _ (versionDict_wf _ _) (versionDict_wf _ _)]
  decide

/-- NEGATION WITNESS for `heq` (equal keys) — the input contract "an attribute wrapper is keyed by the attribute name":
    keyed by their literal TEXT (` a="1"` vs ` a="2"`, here `[50]` vs `[51]`) the two wrappers are different strings for
    the merge and BOTH are serialised — the attribute twice, i.e. XML that is not well-formed -/
example : (mergeTwo (versionDict 0 [sw [1] [1], sw [50] [50], sw [3] [3]])
      (versionDict 1 [sw [1] [1], sw [51] [51], sw [3] [3]])).map (·.2.all) = [[1], [51], [50], [3]] := by
  rw [mergeTwo_eq _ _ (versionDict_wf _ _) (versionDict_wf _ _)]
  decide

/-- `merge_single_total` / `merge_identical_total` applied (no hypothesis about the walk left; `NodupKeys` and junk-freeness
    of the concrete entries are discharged by evaluation after identifying the entries with the walk) -/
example : ∃ es ents, P.walk .properties sampleText = .done es ∧ toEnts .properties sampleText 0 es.zipIdx = .ok ents ∧
    (NodupKeys ents → mergeTexts .properties [sampleText] = .ok sampleText.toList) :=
  merge_single_total .properties sampleText (by intro h; cases h)

/-- NEGATION WITNESS for the byte-order-mark hypothesis of `merge_single_total`: the DTD walk drops a leading U+FEFF,
    so the single version `U+FEFF <!ENTITY a "1">` is returned without it -/
example : (mergeTexts .dtd [#[0xFEFF, 60, 33, 69, 78, 84, 73, 84, 89, 32, 97, 32, 34, 49, 34, 62]]).toOption
    = some [60, 33, 69, 78, 84, 73, 84, 89, 32, 97, 32, 34, 49, 34, 62] := by decide


/-- `comment_copies` on an example: newest `# x ⏎⏎ a`, older `# x ⏎⏎ # x ⏎⏎ a`: the merge has the comment twice (the maximum),
    not three times -/
example : ((mergeTwo (versionDict 0 [c [35, 120], w [10, 10], e 1 [97]])
      (versionDict 1 [c [35, 120], w [10, 10], c [35, 120], w [10, 10], e 1 [97]])).filter (fun p => p.2.kind == .comment)).length = 2 := by
  rw [mergeTwo_eq _ _ (versionDict_wf _ _) (versionDict_wf _ _)]
  decide

/-- the `AddRemove` misplacement needs a REPEATED right-only key: `left=[0,1]`, `right=[5,0,5,6]` puts 6 before 0 … -/
example : (addRemove [0, 1] [5, 0, 5, 6]).map (·.2) = [5, 6, 0, 1] := by
  rw [C20P.addRemove_eq_specD]; decide

/-- … but an older version with the repeated key `5` (entries 5 0 5 6) reaches `AddRemove` as the dict keys 5 0 6, and 6 is
    placed after 0, the neighbour it followed (`diff_never_sees_duplicates`; newest version: 0 1) -/
example : (mergeTwo (versionDict 0 [e 0 [48], e 1 [49]])
      (versionDict 1 [e 5 [53], e 0 [79], e 5 [54], e 6 [55]])).map (·.2.all) = [[54], [48], [55], [49]] := by
  rw [mergeTwo_eq _ _ (versionDict_wf _ _) (versionDict_wf _ _)]
  decide

/-- `merge_single_dup` / `version_dict_closed_form` on `a=1 ⏎ a=2 ⏎`: one key `a` at the first position, the LAST entry
    under it -/
example : keysOf (versionDict 0 [e 1 [97, 61, 49], w [10], e 1 [97, 61, 50], w [10]])
      = [Key.ent (.str [1]), Key.obj 0 1, Key.obj 0 3] ∧
    (dget (versionDict 0 [e 1 [97, 61, 49], w [10], e 1 [97, 61, 50], w [10]]) (Key.ent (.str [1]))).map (·.all)
      = some [97, 61, 50] := by
  constructor <;> decide

/-! ### re-parse theorem: non-vacuity and negation witnesses -/

/-- the hypotheses of `merge_reparses_properties_partial` hold for three versions, newest first: `a=1 ⏎ b=2 ⏎`,
    `b=9 ⏎ x=o p ⏎ a=1 ⏎` (reordered, another value for `b`, a key only it has) and `c=3 ⏎` -/
example :
    ∃ (t : List Nat) (es : List P.Entry) (recs : List P.PRec), mergeTexts .properties ([[([97], [49]), ([98], [50])], [([98], [57]), ([120], [111, 32, 112]), ([97], [49])],
        [([99], [51])]].map (fun rs => (P.printProps rs).toArray)) = .ok t ∧
      P.walk .properties t.toArray = .done es ∧
      P.entitiesOf .properties t.toArray es = recs.map P.expectedView ∧
      P.junkOf t.toArray es = [] ∧ (recs.map (·.1)).Nodup ∧
      [99] ∈ recs.map (·.1) ∧ [100] ∉ recs.map (·.1) ∧
      ([98], [50]) ∈ recs ∧ ([120], [111, 32, 112]) ∈ recs := by
  obtain ⟨t, es, recs, h1, h2, h3, h4, h5, h6, h7⟩ := merge_reparses_properties_partial
    [[([97], [49]), ([98], [50])], [([98], [57]), ([120], [111, 32, 112]), ([97], [49])], [([99], [51])]] (by simp)
    (by
      intro rs hrs r hr
      simp at hrs
      rcases hrs with rfl | rfl | rfl <;> simp at hr
      · rcases hr with rfl | rfl <;> constructor <;> simp [P.propsKeyChar]
      · rcases hr with rfl | rfl | rfl <;> constructor <;> simp [P.propsKeyChar]
      · subst hr; constructor <;> simp [P.propsKeyChar])
    (by intro rs hrs; simp at hrs; rcases hrs with rfl | rfl | rfl <;> decide)
  refine ⟨t, es, recs, h1, h2, h3, h4, h5, ?_, ?_, ?_, ?_⟩
  · rw [h6]
    exact ⟨[([99], [51])], by simp, by simp⟩
  · rw [h6]
    rintro ⟨rs, hrs, hk⟩
    simp at hrs
    rcases hrs with rfl | rfl | rfl <;> simp at hk
  · exact h7 0 _ _ rfl (by simp) (by intro j hj; omega)
  · exact h7 1 _ _ rfl (by simp) (by
      intro j hj rs' hrs'
      have : j = 0 := by omega
      subst this
      simp at hrs'
      subst hrs'
      decide)


/-- `merge_reparses_dtd_partial`, non-vacuity: newest `<!ENTITY a "1">⏎`, older `<!ENTITY b.c "x y">⏎ <!ENTITY a "0">⏎` -/
example :
    ∃ (t : List Nat) (es : List P.Entry) (recs : List P.PRec),
      mergeTexts .dtd ([[([97], [49])], [([98, 46, 99], [120, 32, 121]), ([97], [48])]].map (fun rs => (C02X.printDtd rs).toArray)) = .ok t ∧
      t = C02X.printDtd recs ∧ P.walk .dtd t.toArray = .done es ∧
      P.junkOf t.toArray es = [] ∧ (recs.map (·.1)).Nodup ∧ ([97], [49]) ∈ recs ∧ ([98, 46, 99], [120, 32, 121]) ∈ recs := by
  obtain ⟨t, es, recs, h1, h2, h3, _, h5, h6, _, h8⟩ := merge_reparses_dtd_partial
    [[([97], [49])], [([98, 46, 99], [120, 32, 121]), ([97], [48])]] (by simp)
    (by
      intro rs hrs r hr
      simp at hrs
      rcases hrs with rfl | rfl <;> simp at hr
      · subst hr; constructor <;> simp <;> decide
      · rcases hr with rfl | rfl <;> constructor <;> simp <;> decide)
    (by intro rs hrs; simp at hrs; rcases hrs with rfl | rfl <;> decide)
  refine ⟨t, es, recs, h1, h2, h3, h5, h6, ?_, ?_⟩
  · exact h8 0 _ _ rfl (by simp) (by intro j hj; omega)
  · exact h8 1 _ _ rfl (by simp) (by
      intro j hj rs' hrs'
      have : j = 0 := by omega
      subst this
      simp at hrs'
      subst hrs'
      decide)

/-- `merge_reparses_inc_partial`, non-vacuity: newest `#define a 1⏎`, older `#define b⏎ #define a 0⏎` (`b` without value) -/
example :
    ∃ (t : List Nat) (es : List P.Entry) (recs : List P.PRec),
      mergeTexts .inc ([[([97], [49])], [([98], []), ([97], [48])]].map (fun rs => (C02X.printInc rs).toArray)) = .ok t ∧
      t = C02X.printInc recs ∧ P.walk .inc t.toArray = .done es ∧
      P.junkOf t.toArray es = [] ∧ (recs.map (·.1)).Nodup ∧ ([97], [49]) ∈ recs ∧ ([98], []) ∈ recs := by
  obtain ⟨t, es, recs, h1, h2, h3, _, h5, h6, _, h8⟩ := merge_reparses_inc_partial
    [[([97], [49])], [([98], []), ([97], [48])]] (by simp)
    (by
      intro rs hrs r hr
      simp at hrs
      rcases hrs with rfl | rfl <;> simp at hr
      · subst hr; constructor <;> simp <;> decide
      · rcases hr with rfl | rfl <;> constructor <;> simp <;> decide)
    (by intro rs hrs; simp at hrs; rcases hrs with rfl | rfl <;> decide)
  refine ⟨t, es, recs, h1, h2, h3, h5, h6, ?_, ?_⟩
  · exact h8 0 _ _ rfl (by simp) (by intro j hj; omega)
  · exact h8 1 _ _ rfl (by simp) (by
      intro j hj rs' hrs'
      have : j = 0 := by omega
      subst this
      simp at hrs'
      subst hrs'
      decide)

/-- why the STRICT shape is needed for .inc (and why `C16R.Alt` alone is not enough): a leading newline and a blank line
    between two defines are Junk for `DefinesParser` outside `#filter emptyLines` -/
example : (P.definesGetNext #[10, 35, 100, 101, 102, 105, 110, 101, 32, 97, 10] false 0).1.kind = .junk := by decide

/-- NEGATION WITNESS for `vers ≠ []`: `reduce` of an empty sequence -/
example : mergeTexts .properties [] = .error .emptySequence := rfl

/-- NEGATION WITNESS for "distinct keys per version" (`hnd`): `a=1 ⏎ a=2 ⏎` as the only version is serialised as
    `a=2 ⏎ ⏎` (the `NodupKeys` witness above): the record `a=1` of version 0, which no newer version overrides, is not in
    the merge.  For the hypotheses on keys and values (`hsafe`) see the witnesses of `C02.roundtrip_properties_partial`
    (a value ending in a blank is stripped, a value ending in a backslash swallows the next line, …) and, for a version
    ending in a comment without final newline, the witness of `C16.serialize_reparses_properties_partial`. -/
example : ¬ ((([([97], [49]), ([97], [50])] : List P.PRec).map (·.1)).Nodup) := by decide

/-- `merge_reparses_ini_partial`, non-vacuity: two versions under `[S]`, newest `a=1 ⏎`, older `b= 2 ⏎ a=0 ⏎` -/
example :
    ∃ (t : List Nat) (es : List P.Entry) (recs : List P.PRec),
      mergeTexts .ini ([[([97], [49])], [([98], [32, 50]), ([97], [48])]].map (fun rs => (C02X.printIni [83] rs).toArray)) = .ok t ∧
      P.walk .ini t.toArray = .done es ∧
      P.entitiesOf .ini t.toArray es = recs.map P.expectedView ∧
      P.junkOf t.toArray es = [] ∧ (recs.map (·.1)).Nodup ∧ ([97], [49]) ∈ recs ∧ ([98], [32, 50]) ∈ recs := by
  obtain ⟨t, es, recs, h1, h2, h3, h4, h5, _, h7⟩ := merge_reparses_ini_partial [83]
    [[([97], [49])], [([98], [32, 50]), ([97], [48])]] (by simp) (by decide)
    (by
      intro rs hrs r hr
      simp at hrs
      rcases hrs with rfl | rfl <;> simp at hr
      · subst hr; constructor <;> simp
      · rcases hr with rfl | rfl <;> constructor <;> simp)
    (by intro rs hrs; simp at hrs; rcases hrs with rfl | rfl <;> decide)
  refine ⟨t, es, recs, h1, h2, h3, h4, h5, ?_, ?_⟩
  · exact h7 0 _ _ rfl (by simp) (by intro j hj; omega)
  · exact h7 1 _ _ rfl (by simp) (by
      intro j hj rs' hrs'
      have : j = 0 := by omega
      subst this
      simp at hrs'
      subst hrs'
      decide)

/-- NEGATION WITNESS for "no key equals the section name": `IniSection.key` shares the dict with the entity keys; for the
    single version `[a]⏎ a=1 ⏎` the dict keeps the entity at the position of the section — the header is lost
    (`merge_channels("x.ini", [b"[a]\na=1\n", …])` of the real code drops it too, see NOTES-C15) -/
example :
    serialize (versionDict 0 [{ kind := .section, ekey := .str [97], val := [], all := [91, 97, 93], oid := (0, 0) },
      w [10], e 97 [97, 61, 49], w [10]]) = [97, 61, 49, 10, 10] := by
  decide

/-! ### round 5: `merge_channels` inside a process HISTORY

`merge_channels` owns no parser: it uses the shared instances of `parser.__constructors`, the same objects
`ContentComparer.compare`, `L10nLinter.lint_file`, `serialize` and every `getParser(name).readFile/readUnicode/
readContents` use.  `MergeH` (CLModel/Merge/History.lean) puts the merge into the state machine of C18
(`HistM.S`: the singletons' current Context, the heap of Contexts, `Junk.junkid`, `filter_empty_lines`, the entry
points, every memo of the tools).  The theorems say that no earlier operation of the process can show in a merge. -/

section history
open HistM MergeH

/-- The merge output of every reachable state is `Merge.mergeTexts` of the arguments of THAT call — corollary of
    `C18.out_independent_all` (`pureOut` of a merge is `mergeTexts`, and nothing of it is renamed by the counters). -/
theorem merge_result_history_free (ep : EpEnv) (s : S) (h : Reachable ep s) (f : P.Fmt) (texts : List (Array Nat)) :
    (HistM.step s (.mergeChannels f texts)).2 = .chan (mergeTexts f texts) := by
  have h1 := C18.out_independent_all ep s h (.mergeChannels f texts) (by simp [HistM.Op.closed])
  rw [h1]
  rfl

/-- … and it holds in EVERY state of the machine, reachable or not: the merge reads no component of the state
    (it REPLACES the parser's Context for every version, `HistM.parseAll`). -/
theorem merge_result_state_free (s s' : S) (f : P.Fmt) (texts : List (Array Nat)) :
    (HistM.step s (.mergeChannels f texts)).2 = (HistM.step s' (.mergeChannels f texts)).2 ∧
    (HistM.step s (.mergeChannels f texts)).2 = .chan (mergeTexts f texts) :=
  ⟨rfl, rfl⟩

/-- `merge_channels(name, resources)` — parser lookup, refusal and merge — returns `Merge.mergeChannels name
    resources` in every state of a process without third-party parser plugins. -/
theorem merge_named_history_free (s : S) (hep : NoPlugins s.ep) (name : List Nat) (texts : List (Array Nat)) :
    (mergeNamed s name texts).2 = mergeChannels name texts :=
  C15H.mergeNamed_out s hep name texts

/-- Whole histories: run ANY sequence of operations that interleaves merges with the other operations of the tools
    (`getParser` on any name, `readUnicode`, `walk`, `compare`, `lint_file`, `serialize`, matcher / configuration /
    checker operations), from ANY state: the result of every merge step is the function `promised` of that step's own
    arguments — `Merge.mergeChannels name texts`, to which every other theorem of this file applies. -/
theorem merge_history_free (ops : List MergeH.Op) (s : S) (hep : NoPlugins s.ep) :
    (ops.zip (MergeH.run s ops).2).map (fun p => observed p.1 p.2) = ops.map promised :=
  C15H.run_promised ops s hep

/-- Refusal does not depend on the history either: in every state the merge raises MergeNotSupportedError exactly
    when no pattern of `parser.__constructors` matches THIS name — whatever names were looked up (and refused, or
    accepted) before. -/
theorem refusal_history_free (s : S) (hep : NoPlugins s.ep) (name : List Nat) (texts : List (Array Nat)) :
    (mergeNamed s name texts).2 = .error .mergeNotSupported ↔ getParserClass name = none := by
  rw [merge_named_history_free s hep name texts]
  exact refused_iff_unsupported name texts

/-- A lookup leaves no trace: `getParser(path)` (found or not) and a refused `merge_channels` return the process
    state they were called in — there is no memo of names or extensions a later lookup could read. -/
theorem lookup_leaves_no_trace (s : S) (path : List Nat) (texts : List (Array Nat)) :
    (HistM.step s (.getParser path)).1 = s ∧
    (HistM.getParser s.ep path = none → (mergeNamed s path texts).1 = s) := by
  refine ⟨rfl, fun h => ?_⟩
  rw [C15H.refused_state s path texts h]

/-- "Merging a single version returns the input" in the middle of any history: for a name whose parser is the one of
    regex format `f`, in every state, under the hypotheses of `merge_single_total` only. -/
theorem merge_single_in_any_history (s : S) (hep : NoPlugins s.ep) (name : List Nat) (f : P.Fmt)
    (hn : (getParserClass name).bind parserOfClass = some (.regex f)) (t : Array Nat)
    (hb : f = .dtd → t[0]? ≠ some 0xFEFF) :
    ∃ es ents, P.walk f t = .done es ∧ toEnts f t 0 es.zipIdx = .ok ents ∧
      (NodupKeys ents → (mergeNamed s name [t]).2 = .ok t.toList) := by
  obtain ⟨es, ents, h1, h2, h3⟩ := merge_single_total f t hb
  refine ⟨es, ents, h1, h2, fun hk => ?_⟩
  rw [merge_named_history_free s hep name [t], ← h3 hk]
  unfold mergeChannels
  cases hc : getParserClass name with
  | none => simp [hc] at hn
  | some cls =>
    simp only [hc, Option.bind_some] at hn
    simp only [hn]

/-- … and "merging identical versions returns the input", likewise. -/
theorem merge_identical_in_any_history (s : S) (hep : NoPlugins s.ep) (name : List Nat) (f : P.Fmt)
    (hn : (getParserClass name).bind parserOfClass = some (.regex f)) (t : Array Nat) (n : Nat)
    (hb : f = .dtd → t[0]? ≠ some 0xFEFF) :
    ∃ es ents, P.walk f t = .done es ∧ toEnts f t 0 es.zipIdx = .ok ents ∧
      ((∀ e ∈ es, e.kind ≠ .junk) → NodupKeys ents → (mergeNamed s name (List.replicate (n + 1) t)).2 = .ok t.toList) := by
  obtain ⟨es, ents, h1, h2, h3⟩ := merge_identical_total f t n hb
  refine ⟨es, ents, h1, h2, fun hj hk => ?_⟩
  rw [merge_named_history_free s hep name _, ← h3 hj hk]
  unfold mergeChannels
  cases hc : getParserClass name with
  | none => simp [hc] at hn
  | some cls =>
    simp only [hc, Option.bind_some] at hn
    simp only [hn]

/-- the states the theorems are used in: everything a fresh interpreter reaches by merges and other operations -/
theorem history_reachable (ep : EpEnv) (ops : List MergeH.Op) (s : S) (h : Reachable ep s) (hp : ∀ op ∈ ops, op.plain) :
    Reachable ep (MergeH.run s ops).1 ∧ (MergeH.run s ops).1.ep = ep :=
  ⟨C15H.run_reachable ep ops s h hp, C15H.reachable_ep ep _ (C15H.run_reachable ep ops s h hp)⟩

/-! non-vacuity of the history theorems -/

/-- `a=1⏎`, `z=9⏎` -/
def hX : Array Nat := #[97, 61, 49, 10]
def hY : Array Nat := #[122, 61, 57, 10]
/-- `a.ini`, `m.xml` (a look-alike: no parser), `strings.xml` -/
def hIni : List Nat := [97, 46, 105, 110, 105]
def hXml : List Nat := [109, 46, 120, 109, 108]
def hStr : List Nat := [115, 116, 114, 105, 110, 103, 115, 46, 120, 109, 108]

/-- the history of the missed class: a merge whose last parsed resource is X; a refused look-alike `*.xml` name is
    looked up; ANOTHER file is loaded into the same parser and walked; the merge of X again; a refused merge; the
    Android name of the same extension; a parse; a merge of the other file -/
def hist : List MergeH.Op :=
  [.merge hIni [hX], .other (.getParser hXml), .other (.read .ini hY), .other (.rewalk .ini),
   .merge hIni [hX], .merge hXml [hX], .merge hStr [hX], .other (.base (.parse .ini hY)), .merge hIni [hY]]

/-- what the arguments promise (evaluated): X, X again (not the file loaded in between), refusal for `m.xml`, the
    external Android parser for `strings.xml` (NOT a refusal although `m.xml` was refused before), Y -/
example : hist.map promised
   = [some (.ok hX.toList), none, none, none, some (.ok hX.toList), some (.error .mergeNotSupported),
      some (.error .external), none, some (.ok hY.toList)] := by
  set_option maxRecDepth 100000 in decide

/-- … and the run from a fresh interpreter returns exactly that -/
example : (hist.zip (MergeH.run S.init hist).2).map (fun p => observed p.1 p.2) = hist.map promised :=
  merge_history_free hist S.init rfl

example : Reachable (.plugins []) (MergeH.run S.init hist).1 :=
  (history_reachable (.plugins []) hist S.init Reachable.init (by intro op h; simp [hist] at h; rcases h with rfl | rfl | rfl | rfl | rfl | rfl | rfl | rfl | rfl <;> simp [MergeH.Op.plain, HistM.Op.mutatesConfig])).1

/-- NEGATION WITNESS for `NoPlugins`: with a third-party parser registered whose `use(path)` accepts `m.xml`, the
    process does not refuse that name while `Merge.mergeChannels` (no plugins) does -/
def plugS : S := { S.init with ep := .plugins [(.lit 109, [80])] }
example : (mergeNamed plugS hXml [hX]).2 = .error .external ∧ mergeChannels hXml [hX] = .error .mergeNotSupported := by
  set_option maxRecDepth 100000 in decide

end history

end C15

/-
C14 — Filter verdicts follow last-rule-wins and most-severe-wins.
Property theorems only (helper lemmas live in CLModel/Proofs/C14*.lean).

Model: CLModel/Paths/Filter.lean (`ProjectConfig._compile_rule`, `all_locales`, `cache`, `_filter`,
`filter`) and CLModel/Compare/MissingFilter.lean (the missing-entity branch of
`ContentComparer.compare` under `Observer`s with filters).  Reference semantics:
CLModel/Paths/FilterSpec.lean.  Path matching (`Matcher`) is an abstract predicate, key regexes are
user data run by the `Rx` engine.
-/
import CLModel.Paths.Filter
import CLModel.Paths.FilterSpec
import CLModel.Compare.MissingFilter
import CLModel.Proofs.C14Filter
import CLModel.Proofs.C14Rules
import CLModel.Proofs.C14Compare
namespace C14
open Filt Filt.Spec

/-! ## the verdict -/

/-- `config.filter(file, entity)` (transliteration of the Python, with its loop, `break`, action sets,
    early returns and cache) equals the reference interpreter `Spec.verdict`:
    ignore when no configuration of the project names the file's locale; ignore when an excluded
    configuration reports the *file* as error; otherwise the most severe of the configuration's own
    verdict and the included configurations' verdicts (ignore when nobody covers the path); the own
    verdict being the action of the last applicable rule, error when the path is covered and no
    rule applies.  Holds for EVERY configuration tree, file, entity, path predicate and key regex. -/
theorem filter_spec (cfg : Config) (file : File) (entity : Option Text) :
    filter cfg file entity = verdict cfg file entity :=
  filter_eq_verdict cfg file entity

/-- `l10n_file.locale not in self.all_locales` is the reference notion "some configuration of the
    project (the configuration itself or an included one, NOT an excluded one) or one of their
    `paths` entries lists the locale". -/
theorem all_locales_spec (cfg : Config) (l : Text) : (allLocales cfg).contains l = hasLocale cfg l :=
  allLocales_contains cfg l

/-- a locale the project does not name is ignored, whatever the rules say -/
theorem locale_not_covered (cfg : Config) (file : File) (entity : Option Text)
    (h : hasLocale cfg file.locale = false) : filter cfg file entity = .ignore := by
  rw [filter_spec, verdict, h]; rfl

/-- a path no configuration covers is ignored: own verdict `none`, all children `none` -/
theorem path_not_covered (locales : Option (List Text)) (paths : List PathEntry) (rules : List Rule)
    (children excludes : List Config) (file : File) (entity : Option Text)
    (hown : covered paths file = false) (hch : ∀ c ∈ children, inner c file entity = none) :
    filter (.mk locales paths rules children excludes) file entity = .ignore := by
  rw [filter_spec, verdict]
  have hall : ∀ cs : List Config, (∀ c ∈ cs, inner c file entity = none) →
      mostSevere (innerAll cs file entity) = none := by
    intro cs
    induction cs with
    | nil => intro _; rfl
    | cons c cs ih =>
      intro h
      have h1 := h c (by simp)
      have h2 := ih (fun c hc => h c (by simp [hc]))
      show worse (inner c file entity) (mostSevere (innerAll cs file entity)) = none
      rw [h1, h2]; rfl
  have : inner (.mk locales paths rules children excludes) file entity = none := by
    rw [inner]
    split
    · rfl
    · show worse (own paths rules file entity) (mostSevere (innerAll children file entity)) = none
      rw [hall children hch, own, hown]; rfl
  rw [this]
  split <;> rfl

/-- exclude short-circuit: as soon as one excluded configuration answers `error` for the FILE
    query (`exclude.filter(l10n_file)`, no entity), the parent answers ignore for the file and
    for every entity in it, whatever its own rules and its included configurations say. -/
theorem exclude_short_circuit (locales : Option (List Text)) (paths : List PathEntry) (rules : List Rule)
    (children excludes : List Config) (file : File) (entity : Option Text)
    (ex : Config) (hex : ex ∈ excludes) (herr : filter ex file none = .error) :
    filter (.mk locales paths rules children excludes) file entity = .ignore := by
  have h : anyExcludeError excludes file = true := by
    rw [anyExcludeError_eq_any, List.any_eq_true]
    exact ⟨ex, hex, by simp [herr]⟩
  unfold filter
  rw [filterInner, h]
  split <;> rfl

/-- the excluded configuration is consulted with the public `filter` on the file (no entity):
    the test inside `_filter` is `any(exclude.filter(file) == "error")` -/
theorem exclude_test (excludes : List Config) (file : File) :
    excluded excludes file = excludes.any (fun ex => filter ex file none == Action.error) := by
  rw [← anyExcludeError_eq, anyExcludeError_eq_any]

/-- most severe wins: when no exclude fires, `_filter` returns the most severe (error > warning >
    ignore > None) of the own verdict and the included configurations' `_filter` results -/
theorem most_severe_wins (locales : Option (List Text)) (paths : List PathEntry) (rules : List Rule)
    (children excludes : List Config) (file : File) (entity : Option Text)
    (hex : excluded excludes file = false) :
    filterInner (.mk locales paths rules children excludes) file entity =
      mostSevere (own paths rules file entity :: children.map (fun c => filterInner c file entity)) := by
  rw [filterInner_eq, inner, hex]
  have : innerAll children file entity = children.map (fun c => filterInner c file entity) := by
    induction children with
    | nil => rfl
    | cons c cs ih => rw [innerAll, ih, List.map_cons, filterInner_eq]
  rw [this]; rfl

/-- `mostSevere` really is the maximum for error > warning > ignore > None: it is at least as
    severe as every element, and it is one of the elements (or None for nothing at all) -/
theorem severity_lattice (l : List (Option Action)) :
    (∀ a ∈ l, sev a ≤ sev (mostSevere l)) ∧ (mostSevere l = none ∨ mostSevere l ∈ l) ∧
    sev (some Action.error) > sev (some Action.warning) ∧ sev (some Action.warning) > sev (some Action.ignore) ∧
    sev (some Action.ignore) > sev none :=
  ⟨fun _ h => sev_le_mostSevere h, mostSevere_mem l, by decide, by decide, by decide⟩

/-- an error of an included configuration cannot be downgraded by the parent's rules -/
theorem child_error_wins (locales : Option (List Text)) (paths : List PathEntry) (rules : List Rule)
    (children excludes : List Config) (file : File) (entity : Option Text)
    (hex : excluded excludes file = false) (c : Config) (hc : c ∈ children)
    (herr : filterInner c file entity = some .error) :
    filterInner (.mk locales paths rules children excludes) file entity = some .error := by
  rw [most_severe_wins _ _ _ _ _ _ _ hex]
  have hmem : some Action.error ∈
      own paths rules file entity :: children.map (fun c => filterInner c file entity) :=
    List.mem_cons_of_mem _ (List.mem_map.mpr ⟨c, hc, herr⟩)
  have h1 := sev_le_mostSevere hmem
  apply sev_injective
  have : ∀ a : Option Action, sev a ≤ 3 := by
    intro a; rcases a with _ | _ | _ | _ <;> simp [sev]
  have h2 := this (mostSevere (own paths rules file entity :: children.map (fun c => filterInner c file entity)))
  have h3 : sev (some Action.error) = 3 := rfl
  omega

/-! ## the configuration's own verdict -/

/-- last rule wins: in a covered file, if rule `r` applies and no later rule does, the own verdict
    is `r.action` — whatever the earlier rules are -/
theorem last_rule_wins (paths : List PathEntry) (pre post : List Rule) (r : Rule) (file : File)
    (entity : Option Text) (hcov : covered paths file = true) (hr : applies r file entity = true)
    (hpost : ∀ q ∈ post, applies q file entity = false) :
    own paths (pre ++ r :: post) file entity = some r.action := by
  rw [own, if_pos hcov, filter_getLast_of_last _ pre post r hr hpost]

/-- covered and no applicable rule: error by default -/
theorem default_error (paths : List PathEntry) (rules : List Rule) (file : File) (entity : Option Text)
    (hcov : covered paths file = true) (hno : ∀ q ∈ rules, applies q file entity = false) :
    own paths rules file entity = some .error := by
  have : rules.filter (fun r => applies r file entity) = [] := by
    rw [List.filter_eq_nil_iff]; intro q hq; simp [hno q hq]
  rw [own, if_pos hcov, this]; rfl

/-- not covered by the configuration's own paths (for this locale): no own verdict, rules are not consulted -/
theorem not_covered_none (paths : List PathEntry) (rules : List Rule) (file : File) (entity : Option Text)
    (hcov : covered paths file = false) : own paths rules file entity = none := by
  rw [own, hcov]; rfl

/-- key/file distinction: a rule with a key never applies to a file query, a rule without key never
    applies to an entity query; so file verdicts depend on the key-less rules only and entity
    verdicts on the keyed rules only. -/
theorem key_file_distinction (paths : List PathEntry) (rules : List Rule) (file : File) :
    (∀ r : Rule, applies r file none = true → r.key = none) ∧
    (∀ (r : Rule) (e : Text), applies r file (some e) = true → ∃ k, r.key = some k ∧ k.matches e = true) ∧
    own paths rules file none = own paths (rules.filter (fun r => r.key.isNone)) file none ∧
    (∀ e : Text, own paths rules file (some e) = own paths (rules.filter (fun r => r.key.isSome)) file (some e)) := by
  have h1 : ∀ r : Rule, applies r file none = true → r.key = none := by
    intro r h
    unfold applies at h
    cases hk : r.key with
    | none => rfl
    | some k => rw [hk] at h; simp at h
  have h2 : ∀ (r : Rule) (e : Text), applies r file (some e) = true → ∃ k, r.key = some k ∧ k.matches e = true := by
    intro r e h
    unfold applies at h
    cases hk : r.key with
    | none => rw [hk] at h; simp at h
    | some k => rw [hk] at h; simp at h; exact ⟨k, rfl, h.2⟩
  refine ⟨h1, h2, ?_, ?_⟩
  · unfold own
    rw [List.filter_filter]
    congr 3
    apply List.filter_congr
    intro r _
    cases ha : applies r file none with
    | false => simp
    | true => simp [h1 r ha]
  · intro e
    unfold own
    rw [List.filter_filter]
    congr 3
    apply List.filter_congr
    intro r _
    cases ha : applies r file (some e) with
    | false => simp
    | true => obtain ⟨k, hk, _⟩ := h2 r e ha; simp [hk]

/-! ## rule dictionaries: lists, literal and `re:` keys -/

/-- `add_rules` appends the compiled rules in order -/
theorem add_rules_spec (rules : List Rule) (raws : List RawRule) :
    addRules rules raws = rules ++ raws.flatMap compileRule :=
  addRules_eq rules raws

/-- `_compile_rule` expands path lists and key lists into single rules that all carry the
    dictionary's action, and some expanded rule applies exactly when some listed path matches and
    (for entities) some listed key matches. -/
theorem compile_rule_spec (raw : RawRule) (file : File) (entity : Option Text) :
    (∀ r ∈ compileRule raw, r.action = raw.action) ∧
    (compileRule raw).any (fun r => applies r file entity) = rawApplies raw file entity :=
  ⟨compileRule_action raw, compileRule_any raw file entity⟩

/-- hence last-rule-wins can be read on the rule dictionaries as written in the configuration -/
theorem own_on_rule_dicts (paths : List PathEntry) (raws : List RawRule) (file : File) (entity : Option Text) :
    own paths (addRules [] raws) file entity = ownRaw paths raws file entity := by
  rw [addRules_eq, List.nil_append, own_compiled]

/-- a literal key (no `re:` prefix) is compiled to `re.escape(key) + "$"` and used with
    `Pattern.match`: it accepts exactly the entity equal to the key — and the key followed by one
    newline (the `$` caveat; entity keys of the supported formats contain no newline). -/
theorem literal_key (k : RawKey) (entity : Text)
    (h : Gen.Tables.ruleKeyRePrefix.isPrefixOf k.text = false) :
    (compileKey k).matches entity = (entity == k.text || entity == k.text ++ [10]) := by
  unfold compileKey
  rw [h]
  exact literal_matches k.text entity

/-- a `re:` key is the user's regular expression matched at the START of the entity key
    (`Pattern.match`: not anchored at the end) -/
theorem regex_key (k : RawKey) (entity : Text)
    (h : Gen.Tables.ruleKeyRePrefix.isPrefixOf k.text = true) :
    (compileKey k).matches entity = (Rx.matchAt entity.toArray k.compiled 0).isSome := by
  unfold compileKey
  rw [h]; rfl

/-! ## the per-locale cache -/

/-- `ProjectConfig.cache(locale)` returns what a fresh computation for `locale` returns, provided the
    memo (if any) was itself built from the current paths and rules — for whichever locale. -/
theorem cache_memo_sound (paths : List PathEntry) (rules : List Rule) (memo : Option FilterCache) (locale : Text)
    (h : ∀ c, memo = some c → c = buildCache paths rules c.locale) :
    cacheStep memo paths rules locale = buildCache paths rules locale :=
  cacheStep_valid paths rules memo locale h

/-! ## filter → Observer → ContentComparer: missing entities -/

/-- One observer with filter verdicts `v` (= `fun key => filter cfg l10nFile (some key)`), missing
    keys `keys` (reference order): the loop in `ContentComparer.compare` ends with
    `missing` = number of error keys, `report` = number of warning keys, `missings` (what `merge`
    copies from the reference) = the error keys, and the recorded `missingEntity` details = the
    non-ignored keys; the counts reach the summary unless `v ""` is ignore. -/
theorem compare_respects_filter (v : Text → Action) (keys : List Text) :
    compareMissing [some v] keys = .ok
      ⟨⟨(keys.filter (fun k => v k == .error)).length,
        (keys.filter (fun k => v k == .warning)).length,
        keys.filter (fun k => v k == .error),
        keys.filter (fun k => v k != .ignore)⟩,
       [if v [] == .ignore then none
        else some ((keys.filter (fun k => v k == .error)).length, (keys.filter (fun k => v k == .warning)).length)]⟩ := by
  rw [compareMissing_eq]
  have hc : combined [some v] = v := funext (combined_single v)
  simp [hc, missingSpec, MissAcc.zero, observerUpdateStats]

/-- ignored missing strings are neither counted, shown nor merged; warning ones are not merged and
    not counted as missing (they are the `report` count) -/
theorem ignored_and_warning_keys (v : Text → Action) (keys : List Text) (out : CompareOut)
    (h : compareMissing [some v] keys = .ok out) :
    (∀ k, v k = .ignore → k ∉ out.acc.missings ∧ k ∉ out.acc.shown) ∧
    (∀ k, v k = .warning → k ∉ out.acc.missings) ∧
    out.acc.missing = out.acc.missings.length ∧
    out.acc.missing + out.acc.report = (keys.filter (fun k => v k != .ignore)).length := by
  rw [compare_respects_filter] at h
  cases h
  refine ⟨?_, ?_, rfl, ?_⟩
  · intro k hk; simp [List.mem_filter, hk]
  · intro k hk; simp [List.mem_filter, hk]
  · simp only
    induction keys with
    | nil => rfl
    | cons k ks ih =>
      simp only [List.filter_cons]
      cases hv : v k <;> simp <;> omega

/-- several observers (multi-project runs): the comparer acts on the most severe answer; a key is
    skipped only when every observer ignores it -/
theorem compare_many_observers (observers : List Obs) (keys : List Text) :
    compareMissing observers keys = .ok
      ⟨missingSpec (combined observers) keys MissAcc.zero,
       observers.map (fun o => observerUpdateStats o (missingSpec (combined observers) keys MissAcc.zero))⟩ :=
  compareMissing_eq observers keys


/-! ## non-vacuity: the model evaluated on concrete configurations (no theorem used)

Texts are code point lists: `one` = [111,110,101], `two` = [116,119,111].  The path predicate
`everywhere` matches any path, `inBrowser` only the path `[1]`. -/
namespace Examples

def everywhere : PathM := ⟨fun _ _ => true⟩
def inBrowser : PathM := ⟨fun _ p => p == [1]⟩
def de : Text := [100, 101]
def fr : Text := [102, 114]
def one : Text := [111, 110, 101]
def two : Text := [116, 119, 111]
def fileB : File := ⟨[1], de⟩      -- a file in browser/
def fileT : File := ⟨[2], de⟩      -- a file elsewhere
def rx (t : Text) (r : Rx.Re) : RawKey := ⟨t, r⟩

/-- rules as written: [browser files: ignore] [key "one": warning] [key re:t.*: ignore] [key "one" in browser: error] -/
def raws : List RawRule :=
  [ ⟨.one inBrowser, none, .ignore⟩,
    ⟨.one everywhere, some (.one (rx one .eps)), .warning⟩,
    ⟨.one everywhere, some (.one (rx ([114, 101, 58] ++ [116]) (.lit 116))), .ignore⟩,
    ⟨.many [inBrowser], some (.many [rx two .eps, rx one .eps]), .error⟩ ]

def leaf : Config := .mk (some [de]) [⟨everywhere, none⟩] (addRules [] raws) [] []
/-- a child that warns for every entity of browser files -/
def warnChild : Config :=
  .mk none [⟨inBrowser, none⟩] (addRules [] [⟨.one everywhere, some (.one (rx [114, 101, 58] .eps)), .warning⟩]) [] []
/-- an excluded project covering browser files (file verdict: error) -/
def excl : Config := .mk (some [de]) [⟨inBrowser, none⟩] [] [] []
def parent : Config := .mk (some [de]) [⟨everywhere, none⟩]
  (addRules [] [⟨.one everywhere, some (.one (rx one .eps)), .ignore⟩]) [warnChild] []
def parentEx : Config := .mk (some [de]) [⟨everywhere, none⟩] [] [warnChild] [excl]

-- file rules vs key rules, last rule wins, default error
example : filter leaf fileB none = .ignore := by decide
example : filter leaf fileT none = .error := by decide
example : filter leaf fileT (some one) = .warning := by decide
example : filter leaf fileB (some one) = .error := by decide          -- the later list rule wins
example : filter leaf fileT (some two) = .ignore := by decide         -- re:t matches at the start
example : filter leaf fileT (some [120]) = .error := by decide        -- no rule applies
example : filter leaf ⟨[1], fr⟩ none = .ignore := by decide           -- locale not named
-- most severe of own and child; exclude short-circuit
example : filter parent fileB (some one) = .warning := by decide      -- own ignore, child warning
example : filter parent fileT (some one) = .ignore := by decide       -- child does not cover
example : filter parent fileB (some two) = .error := by decide        -- own default error
example : filter parentEx fileB (some one) = .ignore ∧ filter parentEx fileT (some one) = .error := by decide
-- the reference interpreter on the same inputs
example : verdict parent fileB (some one) = .warning ∧ verdict parentEx fileB none = .ignore := by decide
-- the comparer link
example : compareMissing [some (fun k => filter leaf fileT (some k))] [one, two, [120]] =
    .ok ⟨⟨1, 1, [[120]], [one, [120]]⟩, [some (1, 1)]⟩ := by rfl

/-! ### negation witnesses for the hypotheses -/

/-- `literal_key`: the `$` — a literal key also accepts the key followed by ONE newline (not two) -/
example : (compileKey (rx one .eps)).matches (one ++ [10]) = true ∧
    (compileKey (rx one .eps)).matches (one ++ [10, 10]) = false ∧
    (compileKey (rx one .eps)).matches (one ++ [120]) = false := by decide

/-- `last_rule_wins` needs "no later rule applies": with a later applicable rule the answer changes -/
example : own [⟨everywhere, none⟩] [⟨everywhere, none, .ignore⟩, ⟨everywhere, none, .warning⟩] fileB none
    = some .warning := by decide

/-- `exclude_short_circuit` needs the exclude's FILE verdict to be error: a warning-level exclude does not suppress -/
example : filter (.mk (some [de]) [⟨everywhere, none⟩] [] []
      [.mk (some [de]) [⟨inBrowser, none⟩] [⟨everywhere, none, .warning⟩] [] []]) fileB none = .error := by decide

/-- `cache_memo_sound` needs a memo built from the current rules: a memo of the same locale built
    before a rule was added answers differently (stale cache) -/
example : (cacheStep (some (buildCache [] [] de)) [] [⟨everywhere, none, .ignore⟩] de).rules.length = 0 ∧
    (buildCache [] [⟨everywhere, none, .ignore⟩] de).rules.length = 1 := by decide

/-- `most_severe_wins` needs "no exclude fires" -/
example : filterInner parentEx fileB (some one) = none ∧
    mostSevere (own [⟨everywhere, none⟩] [] fileB (some one) :: [filterInner warnChild fileB (some one)]) = some .error := by
  decide

end Examples

end C14

/-
C14 — Filter verdicts follow last-rule-wins and most-severe-wins.
Property theorems only (helper lemmas live in CLModel/Proofs/C14*.lean).

Model: CLModel/Paths/Filter.lean (`ProjectConfig._compile_rule`, `all_locales`, `cache`, `_filter`,
`filter`) and CLModel/Compare/MissingFilter.lean (the missing-entity branch of
`ContentComparer.compare` under `Observer`s with filters).  Reference semantics:
CLModel/Paths/FilterSpec.lean.  Path matching (`Matcher`) is an abstract predicate, key regexes are
user data run by the `Rx` engine.
-/
import CLModel.Paths.Filter
import CLModel.Paths.FilterSpec
import CLModel.Compare.MissingFilter
import CLModel.Proofs.C14Filter
import CLModel.Proofs.C14Rules
import CLModel.Proofs.C14Compare
import CLModel.Paths.FilterM
import CLModel.Proofs.C14MCompose
import CLModel.Proofs.C14MParse
import CLModel.Proofs.C14MMatch
import CLModel.Proofs.C14MTexts
import CLModel.Proofs.C14MCor
import CLModel.Props.C12
namespace C14
open Filt Filt.Spec

/-! ## the verdict -/

/-- `config.filter(file, entity)` (transliteration of the Python, with its loop, `break`, action sets,
    early returns and cache) equals the reference interpreter `Spec.verdict`:
    ignore when no configuration of the project names the file's locale; ignore when an excluded
    configuration reports the *file* as error; otherwise the most severe of the configuration's own
    verdict and the included configurations' verdicts (ignore when nobody covers the path); the own
    verdict being the action of the last applicable rule, error when the path is covered and no
    rule applies.  Holds for EVERY configuration tree, file, entity, path predicate and key regex. -/
theorem filter_spec (cfg : Config) (file : File) (entity : Option Text) :
    filter cfg file entity = verdict cfg file entity :=
  filter_eq_verdict cfg file entity

/-- `l10n_file.locale not in self.all_locales` is the reference notion "some configuration of the
    project (the configuration itself or an included one, NOT an excluded one) or one of their
    `paths` entries lists the locale". -/
theorem all_locales_spec (cfg : Config) (l : Text) : (allLocales cfg).contains l = hasLocale cfg l :=
  allLocales_contains cfg l

/-- a locale the project does not name is ignored, whatever the rules say -/
theorem locale_not_covered (cfg : Config) (file : File) (entity : Option Text)
    (h : hasLocale cfg file.locale = false) : filter cfg file entity = .ignore := by
  rw [filter_spec, verdict, h]; rfl

/-- a path no configuration covers is ignored: own verdict `none`, all children `none` -/
theorem path_not_covered (locales : Option (List Text)) (paths : List PathEntry) (rules : List Rule)
    (children excludes : List Config) (file : File) (entity : Option Text)
    (hown : covered paths file = false) (hch : ∀ c ∈ children, inner c file entity = none) :
    filter (.mk locales paths rules children excludes) file entity = .ignore := by
  rw [filter_spec, verdict]
  have hall : ∀ cs : List Config, (∀ c ∈ cs, inner c file entity = none) →
      mostSevere (innerAll cs file entity) = none := by
    intro cs
    induction cs with
    | nil => intro _; rfl
    | cons c cs ih =>
      intro h
      have h1 := h c (by simp)
      have h2 := ih (fun c hc => h c (by simp [hc]))
      show worse (inner c file entity) (mostSevere (innerAll cs file entity)) = none
      rw [h1, h2]; rfl
  have : inner (.mk locales paths rules children excludes) file entity = none := by
    rw [inner]
    split
    · rfl
    · show worse (own paths rules file entity) (mostSevere (innerAll children file entity)) = none
      rw [hall children hch, own, hown]; rfl
  rw [this]
  split <;> rfl

/-- exclude short-circuit: as soon as one excluded configuration answers `error` for the FILE
    query (`exclude.filter(l10n_file)`, no entity), the parent answers ignore for the file and
    for every entity in it, whatever its own rules and its included configurations say. -/
theorem exclude_short_circuit (locales : Option (List Text)) (paths : List PathEntry) (rules : List Rule)
    (children excludes : List Config) (file : File) (entity : Option Text)
    (ex : Config) (hex : ex ∈ excludes) (herr : filter ex file none = .error) :
    filter (.mk locales paths rules children excludes) file entity = .ignore := by
  have h : anyExcludeError excludes file = true := by
    rw [anyExcludeError_eq_any, List.any_eq_true]
    exact ⟨ex, hex, by simp [herr]⟩
  unfold filter
  rw [filterInner, h]
  split <;> rfl

/-- the excluded configuration is consulted with the public `filter` on the file (no entity):
    the test inside `_filter` is `any(exclude.filter(file) == "error")` -/
theorem exclude_test (excludes : List Config) (file : File) :
    excluded excludes file = excludes.any (fun ex => filter ex file none == Action.error) := by
  rw [← anyExcludeError_eq, anyExcludeError_eq_any]

/-- most severe wins: when no exclude fires, `_filter` returns the most severe (error > warning >
    ignore > None) of the own verdict and the included configurations' `_filter` results -/
theorem most_severe_wins (locales : Option (List Text)) (paths : List PathEntry) (rules : List Rule)
    (children excludes : List Config) (file : File) (entity : Option Text)
    (hex : excluded excludes file = false) :
    filterInner (.mk locales paths rules children excludes) file entity =
      mostSevere (own paths rules file entity :: children.map (fun c => filterInner c file entity)) := by
  rw [filterInner_eq, inner, hex]
  have : innerAll children file entity = children.map (fun c => filterInner c file entity) := by
    induction children with
    | nil => rfl
    | cons c cs ih => rw [innerAll, ih, List.map_cons, filterInner_eq]
  rw [this]; rfl

/-- `mostSevere` really is the maximum for error > warning > ignore > None: it is at least as
    severe as every element, and it is one of the elements (or None for nothing at all) -/
theorem severity_lattice (l : List (Option Action)) :
    (∀ a ∈ l, sev a ≤ sev (mostSevere l)) ∧ (mostSevere l = none ∨ mostSevere l ∈ l) ∧
    sev (some Action.error) > sev (some Action.warning) ∧ sev (some Action.warning) > sev (some Action.ignore) ∧
    sev (some Action.ignore) > sev none :=
  ⟨fun _ h => sev_le_mostSevere h, mostSevere_mem l, by decide, by decide, by decide⟩

/-- an error of an included configuration cannot be downgraded by the parent's rules -/
theorem child_error_wins (locales : Option (List Text)) (paths : List PathEntry) (rules : List Rule)
    (children excludes : List Config) (file : File) (entity : Option Text)
    (hex : excluded excludes file = false) (c : Config) (hc : c ∈ children)
    (herr : filterInner c file entity = some .error) :
    filterInner (.mk locales paths rules children excludes) file entity = some .error := by
  rw [most_severe_wins _ _ _ _ _ _ _ hex]
  have hmem : some Action.error ∈
      own paths rules file entity :: children.map (fun c => filterInner c file entity) :=
    List.mem_cons_of_mem _ (List.mem_map.mpr ⟨c, hc, herr⟩)
  have h1 := sev_le_mostSevere hmem
  apply sev_injective
  have : ∀ a : Option Action, sev a ≤ 3 := by
    intro a; rcases a with _ | _ | _ | _ <;> simp [sev]
  have h2 := this (mostSevere (own paths rules file entity :: children.map (fun c => filterInner c file entity)))
  have h3 : sev (some Action.error) = 3 := rfl
  omega

/-! ## the configuration's own verdict -/

/-- last rule wins: in a covered file, if rule `r` applies and no later rule does, the own verdict
    is `r.action` — whatever the earlier rules are -/
theorem last_rule_wins (paths : List PathEntry) (pre post : List Rule) (r : Rule) (file : File)
    (entity : Option Text) (hcov : covered paths file = true) (hr : applies r file entity = true)
    (hpost : ∀ q ∈ post, applies q file entity = false) :
    own paths (pre ++ r :: post) file entity = some r.action := by
  rw [own, if_pos hcov, filter_getLast_of_last _ pre post r hr hpost]

/-- covered and no applicable rule: error by default -/
theorem default_error (paths : List PathEntry) (rules : List Rule) (file : File) (entity : Option Text)
    (hcov : covered paths file = true) (hno : ∀ q ∈ rules, applies q file entity = false) :
    own paths rules file entity = some .error := by
  have : rules.filter (fun r => applies r file entity) = [] := by
    rw [List.filter_eq_nil_iff]; intro q hq; simp [hno q hq]
  rw [own, if_pos hcov, this]; rfl

/-- not covered by the configuration's own paths (for this locale): no own verdict, rules are not consulted -/
theorem not_covered_none (paths : List PathEntry) (rules : List Rule) (file : File) (entity : Option Text)
    (hcov : covered paths file = false) : own paths rules file entity = none := by
  rw [own, hcov]; rfl

/-- key/file distinction: a rule with a key never applies to a file query, a rule without key never
    applies to an entity query; so file verdicts depend on the key-less rules only and entity
    verdicts on the keyed rules only. -/
theorem key_file_distinction (paths : List PathEntry) (rules : List Rule) (file : File) :
    (∀ r : Rule, applies r file none = true → r.key = none) ∧
    (∀ (r : Rule) (e : Text), applies r file (some e) = true → ∃ k, r.key = some k ∧ k.matches e = true) ∧
    own paths rules file none = own paths (rules.filter (fun r => r.key.isNone)) file none ∧
    (∀ e : Text, own paths rules file (some e) = own paths (rules.filter (fun r => r.key.isSome)) file (some e)) := by
  have h1 : ∀ r : Rule, applies r file none = true → r.key = none := by
    intro r h
    unfold applies at h
    cases hk : r.key with
    | none => rfl
    | some k => rw [hk] at h; simp at h
  have h2 : ∀ (r : Rule) (e : Text), applies r file (some e) = true → ∃ k, r.key = some k ∧ k.matches e = true := by
    intro r e h
    unfold applies at h
    cases hk : r.key with
    | none => rw [hk] at h; simp at h
    | some k => rw [hk] at h; simp at h; exact ⟨k, rfl, h.2⟩
  refine ⟨h1, h2, ?_, ?_⟩
  · unfold own
    rw [List.filter_filter]
    congr 3
    apply List.filter_congr
    intro r _
    cases ha : applies r file none with
    | false => simp
    | true => simp [h1 r ha]
  · intro e
    unfold own
    rw [List.filter_filter]
    congr 3
    apply List.filter_congr
    intro r _
    cases ha : applies r file (some e) with
    | false => simp
    | true => obtain ⟨k, hk, _⟩ := h2 r e ha; simp [hk]

/-! ## rule dictionaries: lists, literal and `re:` keys -/

/-- `add_rules` appends the compiled rules in order -/
theorem add_rules_spec (rules : List Rule) (raws : List RawRule) :
    addRules rules raws = rules ++ raws.flatMap compileRule :=
  addRules_eq rules raws

/-- `_compile_rule` expands path lists and key lists into single rules that all carry the
    dictionary's action, and some expanded rule applies exactly when some listed path matches and
    (for entities) some listed key matches. -/
theorem compile_rule_spec (raw : RawRule) (file : File) (entity : Option Text) :
    (∀ r ∈ compileRule raw, r.action = raw.action) ∧
    (compileRule raw).any (fun r => applies r file entity) = rawApplies raw file entity :=
  ⟨compileRule_action raw, compileRule_any raw file entity⟩

/-- hence last-rule-wins can be read on the rule dictionaries as written in the configuration -/
theorem own_on_rule_dicts (paths : List PathEntry) (raws : List RawRule) (file : File) (entity : Option Text) :
    own paths (addRules [] raws) file entity = ownRaw paths raws file entity := by
  rw [addRules_eq, List.nil_append, own_compiled]

/-- a literal key (no `re:` prefix) is compiled to `re.escape(key) + "$"` and used with
    `Pattern.match`: it accepts exactly the entity equal to the key — and the key followed by one
    newline (the `$` caveat; entity keys of the supported formats contain no newline). -/
theorem literal_key (k : RawKey) (entity : Text)
    (h : Gen.Tables.ruleKeyRePrefix.isPrefixOf k.text = false) :
    (compileKey k).matches entity = (entity == k.text || entity == k.text ++ [10]) := by
  unfold compileKey
  rw [h]
  exact literal_matches k.text entity

/-- a `re:` key is the user's regular expression matched at the START of the entity key
    (`Pattern.match`: not anchored at the end) -/
theorem regex_key (k : RawKey) (entity : Text)
    (h : Gen.Tables.ruleKeyRePrefix.isPrefixOf k.text = true) :
    (compileKey k).matches entity = (Rx.matchAt entity.toArray k.compiled 0).isSome := by
  unfold compileKey
  rw [h]; rfl

/-! ## the per-locale cache -/

/-- `ProjectConfig.cache(locale)` returns what a fresh computation for `locale` returns, provided the
    memo (if any) was itself built from the current paths and rules — for whichever locale. -/
theorem cache_memo_sound (paths : List PathEntry) (rules : List Rule) (memo : Option FilterCache) (locale : Text)
    (h : ∀ c, memo = some c → c = buildCache paths rules c.locale) :
    cacheStep memo paths rules locale = buildCache paths rules locale :=
  cacheStep_valid paths rules memo locale h

/-! ## filter → Observer → ContentComparer: missing entities -/

/-- One observer with filter verdicts `v` (= `fun key => filter cfg l10nFile (some key)`), missing
    keys `keys` (reference order): the loop in `ContentComparer.compare` ends with
    `missing` = number of error keys, `report` = number of warning keys, `missings` (what `merge`
    copies from the reference) = the error keys, and the recorded `missingEntity` details = the
    non-ignored keys; the counts reach the summary unless `v ""` is ignore. -/
theorem compare_respects_filter (v : Text → Action) (keys : List Text) :
    compareMissing [some v] keys = .ok
      ⟨⟨(keys.filter (fun k => v k == .error)).length,
        (keys.filter (fun k => v k == .warning)).length,
        keys.filter (fun k => v k == .error),
        keys.filter (fun k => v k != .ignore)⟩,
       [if v [] == .ignore then none
        else some ((keys.filter (fun k => v k == .error)).length, (keys.filter (fun k => v k == .warning)).length)]⟩ := by
  rw [compareMissing_eq]
  have hc : combined [some v] = v := funext (combined_single v)
  simp [hc, missingSpec, MissAcc.zero, observerUpdateStats]

/-- ignored missing strings are neither counted, shown nor merged; warning ones are not merged and
    not counted as missing (they are the `report` count) -/
theorem ignored_and_warning_keys (v : Text → Action) (keys : List Text) (out : CompareOut)
    (h : compareMissing [some v] keys = .ok out) :
    (∀ k, v k = .ignore → k ∉ out.acc.missings ∧ k ∉ out.acc.shown) ∧
    (∀ k, v k = .warning → k ∉ out.acc.missings) ∧
    out.acc.missing = out.acc.missings.length ∧
    out.acc.missing + out.acc.report = (keys.filter (fun k => v k != .ignore)).length := by
  rw [compare_respects_filter] at h
  cases h
  refine ⟨?_, ?_, rfl, ?_⟩
  · intro k hk; simp [List.mem_filter, hk]
  · intro k hk; simp [List.mem_filter, hk]
  · simp only
    induction keys with
    | nil => rfl
    | cons k ks ih =>
      simp only [List.filter_cons]
      cases hv : v k <;> simp <;> omega

/-- several observers (multi-project runs): the comparer acts on the most severe answer; a key is
    skipped only when every observer ignores it -/
theorem compare_many_observers (observers : List Obs) (keys : List Text) :
    compareMissing observers keys = .ok
      ⟨missingSpec (combined observers) keys MissAcc.zero,
       observers.map (fun o => observerUpdateStats o (missingSpec (combined observers) keys MissAcc.zero))⟩ :=
  compareMissing_eq observers keys


/-! ## the composed model: verdicts as a function of the pattern TEXTS (`FiltM`, C14 ∘ C11/C12) -/
section Composed
open FiltM PM C14M

/-- **The composed verdict is the abstract verdict of the instantiated configuration.**
    `filterM cfg file entity` builds `Matcher(text, env=self.environ, root=self.root)` for every `l10n` path and
    rule path of the configuration tree, and runs the transliteration of `filter`/`_filter`/`cache` with the raise
    sites kept and the evaluation order of the Python (lazy `any`, reverse rule scan with `break`, early `error`
    of an included configuration before the own matchers are bound).  `instantiate cfg file.locale file.fullpath`
    makes ALL those constructions, all `with_env({"locale": file.locale})` and all `match(file.fullpath)` calls
    eagerly and returns the abstract configuration of `Paths/Filter.lean` whose path predicates are the answers
    (`instantiate_spec`).  Whenever that returns, the composed verdict is `Filt.filter` of it — so EVERY theorem
    above (`filter_spec`, `most_severe_wins`, `exclude_short_circuit`, `last_rule_wins`, `key_file_distinction`,
    `compare_respects_filter`, …) holds for real pattern texts.
    The hypothesis is forced in this direction only: the lazy code may return although some matcher that it
    does not reach would raise (`ExamplesM.lazy_witness`). -/
theorem filterm_eq_filter (cfg : ConfigM) (file : File) (entity : Option (List Nat)) (c : Config)
    (h : instantiate cfg file.locale file.fullpath = .ok c) :
    filterM cfg file entity = .ok (filter c file entity) :=
  filterM_eq entity h

/-- raise sites: `filter` raises only if some `Matcher(...)` construction, `with_env` or `match(fullpath)` of the
    configuration tree raises for this file (the converse fails: laziness, `ExamplesM.lazy_witness`) -/
theorem filterm_raise_sites (cfg : ConfigM) (file : File) (entity : Option (List Nat)) (e : PM.PyErr)
    (h : filterM cfg file entity = .error e) : ∃ e', instantiate cfg file.locale file.fullpath = .error e' := by
  cases hi : instantiate cfg file.locale file.fullpath with
  | error e' => exact ⟨e', rfl⟩
  | ok c => rw [filterm_eq_filter cfg file entity c hi] at h; cases h

/-- what `instantiate` returns: the same `locales`; one abstract path entry / rule per pattern text, in order,
    with the same `locales` / key / action, whose path predicate is
    `Matcher(text, env=environ, root=root).with_env({"locale": loc}).match(fp) is not None` (`patMatches`);
    the instantiated included and excluded configurations. -/
theorem instantiate_spec {locales : Option (List (List Nat))} {environ : Environ} {root : Option (List Nat)}
    {paths : List PathEntryM} {rules : List RuleM} {children excludes : List ConfigM} {loc fp : List Nat} {c : Config}
    (h : instantiate (.mk locales environ root paths rules children excludes) loc fp = .ok c) :
    ∃ (lp : List (PathEntryM × PathEntry)) (lr : List (RuleM × Rule)) (lc le : List (ConfigM × Config)),
      c = .mk locales (lp.map (·.2)) (lr.map (·.2)) (lc.map (·.2)) (le.map (·.2)) ∧
      paths = lp.map (·.1) ∧ rules = lr.map (·.1) ∧ children = lc.map (·.1) ∧ excludes = le.map (·.1) ∧
      (∀ p ∈ lp, patMatches environ root p.1.l10n loc fp = .ok (p.2.l10n.matchWith loc fp) ∧ p.1.locales = p.2.locales) ∧
      (∀ p ∈ lr, patMatches environ root p.1.path loc fp = .ok (p.2.path.matchWith loc fp) ∧
        p.1.key = p.2.key ∧ p.1.action = p.2.action) ∧
      (∀ p ∈ lc, instantiate p.1 loc fp = .ok p.2) ∧ (∀ p ∈ le, instantiate p.1 loc fp = .ok p.2) :=
  instantiate_inv h

/-! ### concrete pattern classes -/

/-- **A rule (or `l10n` path) whose pattern is a literal text applies to exactly that file path.**
    `t` contains neither `*` nor `{` (`Plain`); any environment, any root, any locale.  The bound matcher matches
    `path` iff `path` is `t` — prefixed with the root when the configuration is rooted and `t` is relative
    (`effRoot`) — and the dictionary it returns is EMPTY.  An empty dict is falsy in Python: this is the fixed
    finding F14 ("literal paths never apply"); `_filter` now tests `is not None`, which is what `patMatches` is. -/
theorem literal_rule_applies {environ : Environ} {root : Option (List Nat)} {t L : List Nat} {b : Matcher}
    (ht : Plain t) (hb : boundMatcher environ root t L = .ok b) (path : List Nat) :
    b.match path = .ok (if path = effRoot root t ++ t then some [] else none) ∧
    patMatches environ root t L path = .ok (decide (path = effRoot root t ++ t)) := by
  have h := literal_bound_match ht hb path
  refine ⟨h, ?_⟩
  rw [patMatches_of_bound hb h]
  by_cases hp : path = effRoot root t ++ t <;> simp [hp]

/-- **A rule `dir/*.ext` applies to `dir/x.ext` iff `x` contains no `/`**, and then the star group is `x`.
    Pattern text `pre ++ "*" ++ post` with `pre`, `post` free of `*` and `{` and `pre` non-empty (a rooted pattern
    must not begin with a wildcard: finding F11, it raises); any environment, root, locale, any `x`.
    (The general fact behind the "only if" for every pattern with a top-level `*` is `C12.star_no_slash`; the
    "if" is the instance of `C12.expand_match_star_partial` in which the star is followed by the final literal, where
    its separation hypothesis holds automatically.  Here both directions are computed on the engine.) -/
theorem star_rule_scope {environ : Environ} {root : Option (List Nat)} {pre post L : List Nat} {b : Matcher}
    (hpre : Plain pre) (hne : pre ≠ []) (hpost : Plain post)
    (hb : boundMatcher environ root (pre ++ 42 :: post) L = .ok b) (x : List Nat) :
    b.match (effRoot root pre ++ pre ++ x ++ post) = .ok (if 47 ∈ x then none else some [(sname 1, some x)]) ∧
    patMatches environ root (pre ++ 42 :: post) L (effRoot root pre ++ pre ++ x ++ post) = .ok (decide (47 ∉ x)) := by
  have h := star_bound_match hpre hne hpost hb x
  refine ⟨h, ?_⟩
  rw [patMatches_of_bound hb h]
  by_cases hx : 47 ∈ x <;> simp [hx]

/-- for EVERY rule path with a top-level `*` (any pattern text, environment, root): whenever the rule's matcher
    returns a dictionary for the file, the text the star stands for contains no `/` (`C12.star_no_slash` on the
    bound matcher), and the whole path was consumed (`C12.only_complete_paths`) -/
theorem star_rule_general {environ : Environ} {root : Option (List Nat)} {pat L path : List Nat} {b : Matcher}
    {d : GroupDict} (_hb : boundMatcher environ root pat L = .ok b) (hm : b.match path = .ok (some d)) :
    (∀ n v, Node.star n ∈ b.pattern.nodes → d.lookup (sname n) = some (some v) → 47 ∉ v) ∧
    (∃ re names st, b.regexOf = .ok (re, names) ∧ Rx.matchAt path.toArray re 0 = some st ∧ st.pos = path.length) :=
  ⟨fun _ _ hn hl => C12.star_no_slash hm hn hl, C12.only_complete_paths hm⟩

/-- **`{locale}` is the queried file's locale.**  The matcher consulted for ANY pattern text of the configuration
    and a file of locale `L` is `Matcher(pat, env=environ, root=root).with_env({"locale": L})` (`instantiate_spec`:
    every path predicate is `patMatches … L …`).  In it
      * "locale" is bound to the parsed text `L`, whatever `environ` says, and every other variable is bound as in
        `environ` (`e` = the parsed `environ`);
      * so, for a locale text without `*` / `{` and an environment of the shape the C12 theorems ask for (`EnvOK`: no
        value repeats a variable — in particular every environment of plain texts, `C14M.bound_env_plain`): whenever
        the matcher returns a dictionary for a path and `{locale}` occurs at top level in the pattern, the dictionary
        says `locale = L` — the path has the file's own locale at the variable's position
        (`C12.match_returns_bound_values`), for every pattern, wildcards included.
    `Plain L` is forced (`ExamplesM`: the locale text is parsed as a pattern). -/
theorem locale_binding {environ : Environ} {root : Option (List Nat)} {pat L : List Nat} {b : Matcher}
    (hb : boundMatcher environ root pat L = .ok b) :
    (∃ e pl, realEnv environ = .ok e ∧ parsePattern L = .ok pl ∧ b.env.lookup localeName = some (.pat pl) ∧
      ∀ k, k ≠ localeName → b.env.lookup k = e.lookup k) ∧
    (EnvOK b.env → Plain L → ∀ path d, b.match path = .ok (some d) →
      Node.var localeName false ∈ b.pattern.nodes → d.lookup localeName = some (some L)) := by
  constructor
  · obtain ⟨e, p, pl, he, _, hpl, rfl⟩ := boundMatcher_inv hb
    refine ⟨e, pl, he, hpl, ?_, ?_⟩
    · simp only [lookup_dupdate, List.reverse_cons, List.reverse_nil, List.nil_append, List.lookup_cons,
        beq_self_eq_true]
    · intro k hk
      have : (k == localeName) = false := by simpa using hk
      simp only [lookup_dupdate, List.reverse_cons, List.reverse_nil, List.nil_append, List.lookup_cons, this,
        List.lookup_nil]
  · intro hok hL path d hm hn
    obtain ⟨pl, hpl, hlk⟩ := bound_locale_lookup hb
    rw [parsePattern_plain hL] at hpl
    cases hpl
    apply C12.match_returns_bound_values hok hm hn hlk
    obtain ⟨g, hg⟩ := fuelFor_pos b.env
    rw [hg, expandVal]
    have := expandPat_flat (rec := expandVal g) (env := derase b.env localeName) (rm := true)
      (p := ⟨[.lit L], none, 1⟩) ⟨rfl, fun n hn => ⟨L, by simpa using hn⟩⟩
    simpa [textOf, litText] using this

/-- the shape hypothesis of `locale_binding` holds for every environment of texts without `*` / `{` -/
theorem locale_binding_plain_env {environ : Environ} {root : Option (List Nat)} {pat L : List Nat} {b : Matcher}
    (henv : ∀ kv ∈ environ, Plain kv.2) (hL : Plain L) (hb : boundMatcher environ root pat L = .ok b) :
    EnvOK b.env :=
  (bound_env_plain henv hL hb).1

/-- what `environ` binds "locale" to never reaches a verdict: the matcher consulted is the same with and without
    an `environ` entry for "locale" (`cache()` rebinds it for the queried file) -/
theorem environ_locale_overridden {environ : Environ} {root : Option (List Nat)} {pat L v : List Nat} {pv : Pattern}
    (hno : environ.any (fun p => p.1 == localeName) = false) (hv : parsePattern v = .ok pv) :
    boundMatcher (environ ++ [(localeName, v)]) root pat L = boundMatcher environ root pat L ∧
    ∀ path, patMatches (environ ++ [(localeName, v)]) root pat L path = patMatches environ root pat L path := by
  have h := bound_ignores_environ_locale (root := root) (pat := pat) (L := L) hno hv
  exact ⟨h, fun path => by unfold patMatches; rw [h]⟩

/-! ### last-rule-wins, error by default, not covered ⇒ ignore — over pattern texts

First for the OWN verdict of any node of a configuration tree (`own_…_texts`; combine with `filterm_eq_filter`,
`most_severe_wins`, `exclude_short_circuit` for trees), then end-to-end for a configuration without included / excluded
configurations.  `C14M.RuleApplies environ root r file entity`: the rule's bound matcher
returns a dictionary for `file.fullpath` and the key part fits; `C14M.Covered`: some `l10n` pattern text enabled for
the locale matches; `C14M.namesLocale`: the configuration names the locale.  The hypothesis `hc` says that every
matcher of the configuration returns for this file (see `filterm_eq_filter`). -/

/-- last rule wins for the OWN verdict of any configuration node (whatever it includes / excludes): the rule text
    `r` applies, no later rule text does — the own verdict (`Spec.own` of the instantiated node, the quantity
    `most_severe_wins` combines with the included configurations' verdicts) is `r.action` -/
theorem own_last_rule_wins_texts {locales : Option (List (List Nat))} {environ : Environ} {root : Option (List Nat)}
    {paths : List PathEntryM} {pre post : List RuleM} {r : RuleM} {children excludes : List ConfigM} {file : File}
    {entity : Option (List Nat)} {c : Config}
    (hc : instantiate (.mk locales environ root paths (pre ++ r :: post) children excludes) file.locale file.fullpath
      = .ok c)
    (hcov : Covered environ root paths file) (hr : RuleApplies environ root r file entity)
    (hpost : ∀ q ∈ post, ¬ RuleApplies environ root q file entity) :
    own c.paths c.rules file entity = some r.action :=
  own_last_rule_wins hc hcov hr hpost

/-- own verdict, covered and no rule text applies: error -/
theorem own_default_error_texts {locales : Option (List (List Nat))} {environ : Environ} {root : Option (List Nat)}
    {paths : List PathEntryM} {rules : List RuleM} {children excludes : List ConfigM} {file : File}
    {entity : Option (List Nat)} {c : Config}
    (hc : instantiate (.mk locales environ root paths rules children excludes) file.locale file.fullpath = .ok c)
    (hcov : Covered environ root paths file) (hno : ∀ q ∈ rules, ¬ RuleApplies environ root q file entity) :
    own c.paths c.rules file entity = some .error :=
  own_default_error hc hcov hno

/-- own verdict, no `l10n` pattern text enabled for the locale matches: none (the rules are not consulted) -/
theorem own_not_covered_texts {locales : Option (List (List Nat))} {environ : Environ} {root : Option (List Nat)}
    {paths : List PathEntryM} {rules : List RuleM} {children excludes : List ConfigM} {file : File}
    {entity : Option (List Nat)} {c : Config}
    (hc : instantiate (.mk locales environ root paths rules children excludes) file.locale file.fullpath = .ok c)
    (hcov : ¬ Covered environ root paths file) :
    own c.paths c.rules file entity = none :=
  own_not_covered hc hcov

/-- last rule wins: the rule `r` applies and no later rule does — the verdict is `r.action`, whatever the
    earlier rule texts are -/
theorem last_rule_wins_texts {locales : Option (List (List Nat))} {environ : Environ} {root : Option (List Nat)}
    {paths : List PathEntryM} {pre post : List RuleM} {r : RuleM} {file : File} {entity : Option (List Nat)} {c : Config}
    (hc : instantiate (.mk locales environ root paths (pre ++ r :: post) [] []) file.locale file.fullpath = .ok c)
    (hloc : namesLocale locales paths file.locale = true) (hcov : Covered environ root paths file)
    (hr : RuleApplies environ root r file entity)
    (hpost : ∀ q ∈ post, ¬ RuleApplies environ root q file entity) :
    filterM (.mk locales environ root paths (pre ++ r :: post) [] []) file entity = .ok r.action :=
  last_rule_wins_leaf hc hloc hcov hr hpost

/-- covered and no rule text applies: error -/
theorem default_error_texts {locales : Option (List (List Nat))} {environ : Environ} {root : Option (List Nat)}
    {paths : List PathEntryM} {rules : List RuleM} {file : File} {entity : Option (List Nat)} {c : Config}
    (hc : instantiate (.mk locales environ root paths rules [] []) file.locale file.fullpath = .ok c)
    (hloc : namesLocale locales paths file.locale = true) (hcov : Covered environ root paths file)
    (hno : ∀ q ∈ rules, ¬ RuleApplies environ root q file entity) :
    filterM (.mk locales environ root paths rules [] []) file entity = .ok .error :=
  default_error_leaf hc hloc hcov hno

/-- no `l10n` pattern text (enabled for the locale) matches the file: ignore, the rules are not consulted -/
theorem not_covered_ignore_texts {locales : Option (List (List Nat))} {environ : Environ} {root : Option (List Nat)}
    {paths : List PathEntryM} {rules : List RuleM} {file : File} {entity : Option (List Nat)} {c : Config}
    (hc : instantiate (.mk locales environ root paths rules [] []) file.locale file.fullpath = .ok c)
    (hcov : ¬ Covered environ root paths file) :
    filterM (.mk locales environ root paths rules [] []) file entity = .ok .ignore :=
  not_covered_leaf hc hcov

/-- a literal rule at the end of the rule list decides the verdict of exactly its own file -/
theorem literal_rule_last_wins {locales : Option (List (List Nat))} {environ : Environ} {root : Option (List Nat)}
    {paths : List PathEntryM} {pre : List RuleM} {t L : List Nat} {a : Action} {c : Config} (ht : Plain t)
    (hc : instantiate (.mk locales environ root paths (pre ++ [⟨t, none, a⟩]) [] []) L (effRoot root t ++ t) = .ok c)
    (hloc : namesLocale locales paths L = true) (hcov : Covered environ root paths ⟨effRoot root t ++ t, L⟩) :
    filterM (.mk locales environ root paths (pre ++ [⟨t, none, a⟩]) [] []) ⟨effRoot root t ++ t, L⟩ none = .ok a := by
  obtain ⟨x, hx⟩ := instantiate_rule_returns hc ⟨t, none, a⟩ (by simp)
  obtain ⟨b, _, hb, _, _⟩ := patMatches_ok_inv hx
  have hr : RuleApplies environ root ⟨t, none, a⟩ ⟨effRoot root t ++ t, L⟩ none :=
    ⟨by rw [(literal_rule_applies ht hb _).2]; simp, rfl⟩
  exact last_rule_wins_texts (file := ⟨effRoot root t ++ t, L⟩) (post := []) hc hloc hcov hr (fun q hq => by cases hq)

/-- a rule `dir/*.ext` at the end of the rule list decides the verdict of `dir/x.ext` for every `/`-free `x` -/
theorem star_rule_last_wins {locales : Option (List (List Nat))} {environ : Environ} {root : Option (List Nat)}
    {paths : List PathEntryM} {pre : List RuleM} {dir ext L x : List Nat} {a : Action} {c : Config}
    (hdir : Plain dir) (hne : dir ≠ []) (hext : Plain ext) (hx : 47 ∉ x)
    (hc : instantiate (.mk locales environ root paths (pre ++ [⟨dir ++ 42 :: ext, none, a⟩]) [] []) L
      (effRoot root dir ++ dir ++ x ++ ext) = .ok c)
    (hloc : namesLocale locales paths L = true)
    (hcov : Covered environ root paths ⟨effRoot root dir ++ dir ++ x ++ ext, L⟩) :
    filterM (.mk locales environ root paths (pre ++ [⟨dir ++ 42 :: ext, none, a⟩]) [] [])
      ⟨effRoot root dir ++ dir ++ x ++ ext, L⟩ none = .ok a := by
  obtain ⟨y, hy⟩ := instantiate_rule_returns hc ⟨dir ++ 42 :: ext, none, a⟩ (by simp)
  obtain ⟨b, _, hb, _, _⟩ := patMatches_ok_inv hy
  have hr : RuleApplies environ root ⟨dir ++ 42 :: ext, none, a⟩ ⟨effRoot root dir ++ dir ++ x ++ ext, L⟩ none :=
    ⟨by rw [(star_rule_scope hdir hne hext hb x).2]; simp [hx], rfl⟩
  exact last_rule_wins_texts (file := ⟨effRoot root dir ++ dir ++ x ++ ext, L⟩) (post := []) hc hloc hcov hr
    (fun q hq => by cases hq)

/-- … and does not reach into sub-directories: with `dir/*.ext` as the only rule, a covered `dir/x.ext` whose
    `x` contains a `/` gets the default verdict error -/
theorem star_rule_stops_at_slash {locales : Option (List (List Nat))} {environ : Environ} {root : Option (List Nat)}
    {paths : List PathEntryM} {dir ext L x : List Nat} {a : Action} {c : Config}
    (hdir : Plain dir) (hne : dir ≠ []) (hext : Plain ext) (hx : 47 ∈ x)
    (hc : instantiate (.mk locales environ root paths [⟨dir ++ 42 :: ext, none, a⟩] [] []) L
      (effRoot root dir ++ dir ++ x ++ ext) = .ok c)
    (hloc : namesLocale locales paths L = true)
    (hcov : Covered environ root paths ⟨effRoot root dir ++ dir ++ x ++ ext, L⟩) :
    filterM (.mk locales environ root paths [⟨dir ++ 42 :: ext, none, a⟩] [] [])
      ⟨effRoot root dir ++ dir ++ x ++ ext, L⟩ none = .ok .error := by
  obtain ⟨y, hy⟩ := instantiate_rule_returns hc ⟨dir ++ 42 :: ext, none, a⟩ (by simp)
  obtain ⟨b, _, hb, _, _⟩ := patMatches_ok_inv hy
  apply default_error_texts (file := ⟨effRoot root dir ++ dir ++ x ++ ext, L⟩) hc hloc hcov
  intro q hq
  simp only [List.mem_singleton] at hq
  subst hq
  rintro ⟨h1, _⟩
  rw [(star_rule_scope hdir hne hext hb x).2] at h1
  simp [hx] at h1

end Composed

/-! ## non-vacuity: the model evaluated on concrete configurations (no theorem used)

Texts are code point lists: `one` = [111,110,101], `two` = [116,119,111].  The path predicate
`everywhere` matches any path, `inBrowser` only the path `[1]`. -/
namespace Examples

def everywhere : PathM := ⟨fun _ _ => true⟩
def inBrowser : PathM := ⟨fun _ p => p == [1]⟩
def de : Text := [100, 101]
def fr : Text := [102, 114]
def one : Text := [111, 110, 101]
def two : Text := [116, 119, 111]
def fileB : File := ⟨[1], de⟩      -- a file in browser/
def fileT : File := ⟨[2], de⟩      -- a file elsewhere
def rx (t : Text) (r : Rx.Re) : RawKey := ⟨t, r⟩

/-- rules as written: [browser files: ignore] [key "one": warning] [key re:t.*: ignore] [key "one" in browser: error] -/
def raws : List RawRule :=
  [ ⟨.one inBrowser, none, .ignore⟩,
    ⟨.one everywhere, some (.one (rx one .eps)), .warning⟩,
    ⟨.one everywhere, some (.one (rx ([114, 101, 58] ++ [116]) (.lit 116))), .ignore⟩,
    ⟨.many [inBrowser], some (.many [rx two .eps, rx one .eps]), .error⟩ ]

def leaf : Config := .mk (some [de]) [⟨everywhere, none⟩] (addRules [] raws) [] []
/-- a child that warns for every entity of browser files -/
def warnChild : Config :=
  .mk none [⟨inBrowser, none⟩] (addRules [] [⟨.one everywhere, some (.one (rx [114, 101, 58] .eps)), .warning⟩]) [] []
/-- an excluded project covering browser files (file verdict: error) -/
def excl : Config := .mk (some [de]) [⟨inBrowser, none⟩] [] [] []
def parent : Config := .mk (some [de]) [⟨everywhere, none⟩]
  (addRules [] [⟨.one everywhere, some (.one (rx one .eps)), .ignore⟩]) [warnChild] []
def parentEx : Config := .mk (some [de]) [⟨everywhere, none⟩] [] [warnChild] [excl]

-- file rules vs key rules, last rule wins, default error
example : filter leaf fileB none = .ignore := by decide
example : filter leaf fileT none = .error := by decide
example : filter leaf fileT (some one) = .warning := by decide
example : filter leaf fileB (some one) = .error := by decide          -- the later list rule wins
example : filter leaf fileT (some two) = .ignore := by decide         -- re:t matches at the start
example : filter leaf fileT (some [120]) = .error := by decide        -- no rule applies
example : filter leaf ⟨[1], fr⟩ none = .ignore := by decide           -- locale not named
-- most severe of own and child; exclude short-circuit
example : filter parent fileB (some one) = .warning := by decide      -- own ignore, child warning
example : filter parent fileT (some one) = .ignore := by decide       -- child does not cover
example : filter parent fileB (some two) = .error := by decide        -- own default error
example : filter parentEx fileB (some one) = .ignore ∧ filter parentEx fileT (some one) = .error := by decide
-- the reference interpreter on the same inputs
example : verdict parent fileB (some one) = .warning ∧ verdict parentEx fileB none = .ignore := by decide
-- the comparer link
example : compareMissing [some (fun k => filter leaf fileT (some k))] [one, two, [120]] =
    .ok ⟨⟨1, 1, [[120]], [one, [120]]⟩, [some (1, 1)]⟩ := by rfl

/-! ### negation witnesses for the hypotheses -/

/-- `literal_key`: the `$` — a literal key also accepts the key followed by ONE newline (not two) -/
example : (compileKey (rx one .eps)).matches (one ++ [10]) = true ∧
    (compileKey (rx one .eps)).matches (one ++ [10, 10]) = false ∧
    (compileKey (rx one .eps)).matches (one ++ [120]) = false := by decide

/-- `last_rule_wins` needs "no later rule applies": with a later applicable rule the answer changes -/
example : own [⟨everywhere, none⟩] [⟨everywhere, none, .ignore⟩, ⟨everywhere, none, .warning⟩] fileB none
    = some .warning := by decide

/-- `exclude_short_circuit` needs the exclude's FILE verdict to be error: a warning-level exclude does not suppress -/
example : filter (.mk (some [de]) [⟨everywhere, none⟩] [] []
      [.mk (some [de]) [⟨inBrowser, none⟩] [⟨everywhere, none, .warning⟩] [] []]) fileB none = .error := by decide

/-- `cache_memo_sound` needs a memo built from the current rules: a memo of the same locale built
    before a rule was added answers differently (stale cache) -/
example : (cacheStep (some (buildCache [] [] de)) [] [⟨everywhere, none, .ignore⟩] de).rules.length = 0 ∧
    (buildCache [] [⟨everywhere, none, .ignore⟩] de).rules.length = 1 := by decide

/-- `most_severe_wins` needs "no exclude fires" -/
example : filterInner parentEx fileB (some one) = none ∧
    mostSevere (own [⟨everywhere, none⟩] [] fileB (some one) :: [filterInner warnChild fileB (some one)]) = some .error := by
  decide

end Examples

/-! ## non-vacuity and negation witnesses of the composed model (evaluation, `decide +kernel`) -/
namespace ExamplesM
open FiltM PM C14M

def de : List Nat := T "de"
def fr : List Nat := T "fr"
def cover : PathEntryM := ⟨T "/src/{locale}/**", none⟩
def litRule : RuleM := ⟨T "/src/de/browser/a.ftl", none, .ignore⟩
def locStarRule : RuleM := ⟨T "/src/{locale}/browser/*.ftl", none, .warning⟩
def starRule : RuleM := ⟨T "/src/de/browser/" ++ 42 :: T ".ftl", none, .warning⟩

/-- two locales, one `l10n` path, two rules as `add_rules` compiles them: a literal one, then `{locale}`/`*` -/
def cfg : ConfigM := .mk (some [de, fr]) [] none [cover]
  (addRulesM [] [⟨.one (T "/src/de/browser/a.ftl"), none, .ignore⟩,
                 ⟨.one (T "/src/{locale}/browser/*.ftl"), none, .warning⟩]) [] []
/-- the same two rules in the other order -/
def cfgSwapped : ConfigM := .mk (some [de, fr]) [] none [cover] ([locStarRule] ++ [litRule]) [] []
/-- a literal rule, then `/src/de/browser/*.ftl` -/
def cfgStar : ConfigM := .mk (some [de, fr]) [] none [cover] ([litRule] ++ [starRule]) [] []

def aDe : File := ⟨T "/src/de/browser/a.ftl", de⟩
def aFr : File := ⟨T "/src/fr/browser/a.ftl", fr⟩
def subDe : File := ⟨T "/src/de/browser/sub/c.ftl", de⟩

/-- the composed model evaluated: last rule wins (either order), the literal rule applies to its own file only,
    `*` stays inside `browser/`, `{locale}` is the file's locale (a `de` path queried as locale `fr` is not
    covered), an unnamed locale is ignored -/
example : filterM cfg aDe none = .ok .warning ∧ filterM cfgSwapped aDe none = .ok .ignore ∧
    filterM cfgSwapped aFr none = .ok .warning ∧ filterM cfg subDe none = .ok .error ∧
    filterM cfg ⟨T "/src/de/browser/a.ftl", fr⟩ none = .ok .ignore ∧
    filterM cfg ⟨T "/src/ja/browser/a.ftl", T "ja"⟩ none = .ok .ignore ∧
    filterM cfg aDe (some (T "key")) = .ok .error := by decide +kernel

/-- non-vacuity of `filterm_eq_filter`: `instantiate` returns on these queries -/
example : isOk (instantiate cfg de aDe.fullpath) = true ∧ isOk (instantiate cfgSwapped fr aFr.fullpath) = true ∧
    isOk (instantiate cfgStar de subDe.fullpath) = true := by decide +kernel

/-- what the matcher of the `{locale}`/`*` rule returns for a `de` file: `locale = de`, `s1 = a` -/
example : (boundMatcher [] none locStarRule.path de >>= fun b => b.match aDe.fullpath) =
    .ok (some [(localeName, some de), (sname 1, some (T "a"))]) := by decide +kernel

/-- `literal_rule_last_wins` applied: its hypotheses hold for `cfgSwapped` and the file of the literal rule -/
example : filterM cfgSwapped aDe none = .ok .ignore := by
  have hc : isOk (instantiate cfgSwapped de aDe.fullpath) = true := by decide +kernel
  cases hi : instantiate cfgSwapped de aDe.fullpath with
  | error e => rw [hi] at hc; cases hc
  | ok c =>
    have hcov : Covered [] none [cover] ⟨effRoot none litRule.path ++ litRule.path, de⟩ :=
      ⟨cover, by simp, rfl, by decide +kernel⟩
    exact literal_rule_last_wins (t := litRule.path) (a := .ignore) (by decide) hi (by decide) hcov

/-- `star_rule_last_wins` / `star_rule_stops_at_slash` applied to `cfgStar`-like configurations -/
example : filterM cfgStar aDe none = .ok .warning := by
  have hc : isOk (instantiate cfgStar de aDe.fullpath) = true := by decide +kernel
  cases hi : instantiate cfgStar de aDe.fullpath with
  | error e => rw [hi] at hc; cases hc
  | ok c =>
    have hcov : Covered [] none [cover] ⟨effRoot none (T "/src/de/browser/") ++ T "/src/de/browser/" ++ T "a" ++ T ".ftl", de⟩ :=
      ⟨cover, by simp, rfl, by decide +kernel⟩
    exact star_rule_last_wins (dir := T "/src/de/browser/") (ext := T ".ftl") (x := T "a") (a := .warning)
      (by decide) (by decide) (by decide) (by decide) hi (by decide) hcov

/-! ### negation witnesses -/

def dupEnv : Environ := [(T "dup", T "{locale}x")]
/-- a rule whose matcher raises `re.error` when it is used (group `locale` defined twice: finding F12) -/
def boom : RuleM := ⟨T "/src/{dup}/{locale}/**", none, .ignore⟩

/-- `filterm_eq_filter` needs `instantiate` to return, and only in this direction: with the raising rule BEFORE
    the applicable one the reverse scan never consults it — the code returns although `instantiate` raises; with
    the raising rule AFTER it the code raises. -/
theorem lazy_witness :
    filterM (.mk (some [de]) dupEnv none [cover] [boom, locStarRule] [] []) aDe none = .ok .warning ∧
    errIs (instantiate (.mk (some [de]) dupEnv none [cover] [boom, locStarRule] [] []) de aDe.fullpath) .reError = true ∧
    filterM (.mk (some [de]) dupEnv none [cover] [locStarRule, boom] [] []) aDe none = .error .reError := by
  decide +kernel

/-- likewise a raising `l10n` path after a matching one is not consulted, and an included configuration that
    answers error returns before the own (raising) matchers are -/
example :
    filterM (.mk (some [de]) dupEnv none [cover, ⟨boom.path, none⟩] [] [] []) aDe none = .ok .error ∧
    filterM (.mk (some [de]) dupEnv none [⟨boom.path, none⟩, cover] [] [] []) aDe none = .error .reError ∧
    filterM (.mk (some [de]) dupEnv none [⟨boom.path, none⟩] [] [.mk none [] none [cover] [] [] []] []) aDe none
      = .ok .error := by decide +kernel

/-- `literal_rule_applies` needs a text without `*` / `{`: "/src/*" matches "/src/x", not itself only -/
example : patMatches [] none (T "/src/*") de (T "/src/x") = .ok true ∧
    patMatches [] none (T "/src/{locale}") de (T "/src/de") = .ok true := by decide +kernel

/-- `star_rule_scope` needs a non-empty directory part when the configuration is rooted: a rooted pattern that
    begins with a wildcard raises KeyError (finding F11) — and `filter` with it -/
example : patMatches [] (some (T "/r/")) (T "*.ftl") de (T "/r/a.ftl") = .error .keyError ∧
    filterM (.mk (some [de]) [] (some (T "/r/")) [⟨T "*.ftl", none⟩] [] [] []) ⟨T "/r/a.ftl", de⟩ none
      = .error .keyError := by decide +kernel

/-- a rooted configuration: relative patterns are relative to the root, absolute ones are not -/
example : patMatches [] (some (T "/r/")) (T "de/a.ftl") de (T "/r/de/a.ftl") = .ok true ∧
    patMatches [] (some (T "/r/")) (T "de/a.ftl") de (T "de/a.ftl") = .ok false ∧
    patMatches [] (some (T "/r/")) (T "/src/de/a.ftl") de (T "/src/de/a.ftl") = .ok true := by decide +kernel

/-- `locale_binding` (captured value) needs a locale text without specials: the locale text is parsed as a
    pattern, "d*" makes `{locale}` a wildcard -/
example : (boundMatcher [] none (T "/{locale}/a") (T "d*") >>= fun b => b.match (T "/de/a")) =
    .ok (some [(localeName, some (T "de")), (sname 1, some (T "e"))]) := by decide +kernel

/-- `environ_locale_overridden` evaluated: an `environ` entry "locale" = "zz" changes nothing -/
example : filterM (.mk (some [de, fr]) [(localeName, T "zz")] none [cover] [litRule, locStarRule] [] []) aFr none
    = .ok .warning := by decide +kernel

end ExamplesM

end C14

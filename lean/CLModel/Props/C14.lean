/-
C14 — Filter verdicts follow last-rule-wins and most-severe-wins.
Property theorems only (helper lemmas live in CLModel/Proofs/C14*.lean).

Model: CLModel/Paths/Filter.lean (`ProjectConfig._compile_rule`, `all_locales`, `cache`, `_filter`,
`filter`) and CLModel/Compare/MissingFilter.lean (the missing-entity branch of
`ContentComparer.compare` under `Observer`s with filters).  Reference semantics:
CLModel/Paths/FilterSpec.lean.  Path matching (`Matcher`) is an abstract predicate, key regexes are
user data run by the `Rx` engine.
-/
import CLModel.Paths.Filter
import CLModel.Paths.FilterSpec
import CLModel.Compare.MissingFilter
import CLModel.Proofs.C14Filter
import CLModel.Proofs.C14Rules
import CLModel.Proofs.C14Compare
import CLModel.Paths.FilterM
import CLModel.Proofs.C14MCompose
import CLModel.Proofs.C14MParse
import CLModel.Proofs.C14MMatch
import CLModel.Proofs.C14MTexts
import CLModel.Proofs.C14MCor
import CLModel.Props.C12
import CLModel.Compare.FilterObserver
import CLModel.Proofs.C14QObs
import CLModel.Props.C10
import CLModel.Proofs.C14LLazy
import CLModel.Paths.FilterPy
import CLModel.Proofs.C14PPy
import CLModel.Proofs.C14RKeys
namespace C14
open Filt Filt.Spec

/-! ## the verdict -/

/-- `config.filter(file, entity)` (transliteration of the Python, with its loop, `break`, action sets,
    early returns and cache) equals the reference interpreter `Spec.verdict`:
    ignore when no configuration of the project names the file's locale; ignore when an excluded
    configuration reports the *file* as error; otherwise the most severe of the configuration's own
    verdict and the included configurations' verdicts (ignore when nobody covers the path); the own
    verdict being the action of the last applicable rule, error when the path is covered and no
    rule applies.  Holds for EVERY configuration tree, file, entity, path predicate and key regex. -/
theorem filter_spec (cfg : Config) (file : File) (entity : Option Text) :
    filter cfg file entity = verdict cfg file entity :=
  filter_eq_verdict cfg file entity

/-- `l10n_file.locale not in self.all_locales` is the reference notion "some configuration of the
    project (the configuration itself or an included one, NOT an excluded one) or one of their
    `paths` entries lists the locale". -/
theorem all_locales_spec (cfg : Config) (l : Text) : (allLocales cfg).contains l = hasLocale cfg l :=
  allLocales_contains cfg l

/-- a locale the project does not name is ignored, whatever the rules say -/
theorem locale_not_covered (cfg : Config) (file : File) (entity : Option Text)
    (h : hasLocale cfg file.locale = false) : filter cfg file entity = .ignore := by
  rw [filter_spec, verdict, h]; rfl

/-- a path no configuration covers is ignored: own verdict `none`, all children `none` -/
theorem path_not_covered (locales : Option (List Text)) (paths : List PathEntry) (rules : List Rule)
    (children excludes : List Config) (file : File) (entity : Option Text)
    (hown : covered paths file = false) (hch : ∀ c ∈ children, inner c file entity = none) :
    filter (.mk locales paths rules children excludes) file entity = .ignore := by
  rw [filter_spec, verdict]
  have hall : ∀ cs : List Config, (∀ c ∈ cs, inner c file entity = none) →
      mostSevere (innerAll cs file entity) = none := by
    intro cs
    induction cs with
    | nil => intro _; rfl
    | cons c cs ih =>
      intro h
      have h1 := h c (by simp)
      have h2 := ih (fun c hc => h c (by simp [hc]))
      show worse (inner c file entity) (mostSevere (innerAll cs file entity)) = none
      rw [h1, h2]; rfl
  have : inner (.mk locales paths rules children excludes) file entity = none := by
    rw [inner]
    split
    · rfl
    · show worse (own paths rules file entity) (mostSevere (innerAll children file entity)) = none
      rw [hall children hch, own, hown]; rfl
  rw [this]
  split <;> rfl

/-- exclude short-circuit: as soon as one excluded configuration answers `error` for the FILE
    query (`exclude.filter(l10n_file)`, no entity), the parent answers ignore for the file and
    for every entity in it, whatever its own rules and its included configurations say. -/
theorem exclude_short_circuit (locales : Option (List Text)) (paths : List PathEntry) (rules : List Rule)
    (children excludes : List Config) (file : File) (entity : Option Text)
    (ex : Config) (hex : ex ∈ excludes) (herr : filter ex file none = .error) :
    filter (.mk locales paths rules children excludes) file entity = .ignore := by
  have h : anyExcludeError excludes file = true := by
    rw [anyExcludeError_eq_any, List.any_eq_true]
    exact ⟨ex, hex, by simp [herr]⟩
  unfold filter
  rw [filterInner, h]
  split <;> rfl

/-- the excluded configuration is consulted with the public `filter` on the file (no entity):
    the test inside `_filter` is `any(exclude.filter(file) == "error")` -/
theorem exclude_test (excludes : List Config) (file : File) :
    excluded excludes file = excludes.any (fun ex => filter ex file none == Action.error) := by
  rw [← anyExcludeError_eq, anyExcludeError_eq_any]

/-- most severe wins: when no exclude fires, `_filter` returns the most severe (error > warning >
    ignore > None) of the own verdict and the included configurations' `_filter` results -/
theorem most_severe_wins (locales : Option (List Text)) (paths : List PathEntry) (rules : List Rule)
    (children excludes : List Config) (file : File) (entity : Option Text)
    (hex : excluded excludes file = false) :
    filterInner (.mk locales paths rules children excludes) file entity =
      mostSevere (own paths rules file entity :: children.map (fun c => filterInner c file entity)) := by
  rw [filterInner_eq, inner, hex]
  have : innerAll children file entity = children.map (fun c => filterInner c file entity) := by
    induction children with
    | nil => rfl
    | cons c cs ih => rw [innerAll, ih, List.map_cons, filterInner_eq]
  rw [this]; rfl

/-- `mostSevere` really is the maximum for error > warning > ignore > None: it is at least as
    severe as every element, and it is one of the elements (or None for nothing at all) -/
theorem severity_lattice (l : List (Option Action)) :
    (∀ a ∈ l, sev a ≤ sev (mostSevere l)) ∧ (mostSevere l = none ∨ mostSevere l ∈ l) ∧
    sev (some Action.error) > sev (some Action.warning) ∧ sev (some Action.warning) > sev (some Action.ignore) ∧
    sev (some Action.ignore) > sev none :=
  ⟨fun _ h => sev_le_mostSevere h, mostSevere_mem l, by decide, by decide, by decide⟩

/-- an error of an included configuration cannot be downgraded by the parent's rules -/
theorem child_error_wins (locales : Option (List Text)) (paths : List PathEntry) (rules : List Rule)
    (children excludes : List Config) (file : File) (entity : Option Text)
    (hex : excluded excludes file = false) (c : Config) (hc : c ∈ children)
    (herr : filterInner c file entity = some .error) :
    filterInner (.mk locales paths rules children excludes) file entity = some .error := by
  rw [most_severe_wins _ _ _ _ _ _ _ hex]
  have hmem : some Action.error ∈
      own paths rules file entity :: children.map (fun c => filterInner c file entity) :=
    List.mem_cons_of_mem _ (List.mem_map.mpr ⟨c, hc, herr⟩)
  have h1 := sev_le_mostSevere hmem
  apply sev_injective
  have : ∀ a : Option Action, sev a ≤ 3 := by
    intro a; rcases a with _ | _ | _ | _ <;> simp [sev]
  have h2 := this (mostSevere (own paths rules file entity :: children.map (fun c => filterInner c file entity)))
  have h3 : sev (some Action.error) = 3 := rfl
  omega

/-! ## the configuration's own verdict -/

/-- last rule wins: in a covered file, if rule `r` applies and no later rule does, the own verdict
    is `r.action` — whatever the earlier rules are -/
theorem last_rule_wins (paths : List PathEntry) (pre post : List Rule) (r : Rule) (file : File)
    (entity : Option Text) (hcov : covered paths file = true) (hr : applies r file entity = true)
    (hpost : ∀ q ∈ post, applies q file entity = false) :
    own paths (pre ++ r :: post) file entity = some r.action := by
  rw [own, if_pos hcov, filter_getLast_of_last _ pre post r hr hpost]

/-- covered and no applicable rule: error by default -/
theorem default_error (paths : List PathEntry) (rules : List Rule) (file : File) (entity : Option Text)
    (hcov : covered paths file = true) (hno : ∀ q ∈ rules, applies q file entity = false) :
    own paths rules file entity = some .error := by
  have : rules.filter (fun r => applies r file entity) = [] := by
    rw [List.filter_eq_nil_iff]; intro q hq; simp [hno q hq]
  rw [own, if_pos hcov, this]; rfl

/-- not covered by the configuration's own paths (for this locale): no own verdict, rules are not consulted -/
theorem not_covered_none (paths : List PathEntry) (rules : List Rule) (file : File) (entity : Option Text)
    (hcov : covered paths file = false) : own paths rules file entity = none := by
  rw [own, hcov]; rfl

/-- key/file distinction: a rule with a key never applies to a file query, a rule without key never
    applies to an entity query; so file verdicts depend on the key-less rules only and entity
    verdicts on the keyed rules only. -/
theorem key_file_distinction (paths : List PathEntry) (rules : List Rule) (file : File) :
    (∀ r : Rule, applies r file none = true → r.key = none) ∧
    (∀ (r : Rule) (e : Text), applies r file (some e) = true → ∃ k, r.key = some k ∧ k.matches e = true) ∧
    own paths rules file none = own paths (rules.filter (fun r => r.key.isNone)) file none ∧
    (∀ e : Text, own paths rules file (some e) = own paths (rules.filter (fun r => r.key.isSome)) file (some e)) := by
  have h1 : ∀ r : Rule, applies r file none = true → r.key = none := by
    intro r h
    unfold applies at h
    cases hk : r.key with
    | none => rfl
    | some k => rw [hk] at h; simp at h
  have h2 : ∀ (r : Rule) (e : Text), applies r file (some e) = true → ∃ k, r.key = some k ∧ k.matches e = true := by
    intro r e h
    unfold applies at h
    cases hk : r.key with
    | none => rw [hk] at h; simp at h
    | some k => rw [hk] at h; simp at h; exact ⟨k, rfl, h.2⟩
  refine ⟨h1, h2, ?_, ?_⟩
  · unfold own
    rw [List.filter_filter]
    congr 3
    apply List.filter_congr
    intro r _
    cases ha : applies r file none with
    | false => simp
    | true => simp [h1 r ha]
  · intro e
    unfold own
    rw [List.filter_filter]
    congr 3
    apply List.filter_congr
    intro r _
    cases ha : applies r file (some e) with
    | false => simp
    | true => obtain ⟨k, hk, _⟩ := h2 r e ha; simp [hk]

/-! ## rule dictionaries: lists, literal and `re:` keys -/

/-- `add_rules` appends the compiled rules in order -/
theorem add_rules_spec (rules : List Rule) (raws : List RawRule) :
    addRules rules raws = rules ++ raws.flatMap compileRule :=
  addRules_eq rules raws

/-- `_compile_rule` expands path lists and key lists into single rules that all carry the
    dictionary's action, and some expanded rule applies exactly when some listed path matches and
    (for entities) some listed key matches. -/
theorem compile_rule_spec (raw : RawRule) (file : File) (entity : Option Text) :
    (∀ r ∈ compileRule raw, r.action = raw.action) ∧
    (compileRule raw).any (fun r => applies r file entity) = rawApplies raw file entity :=
  ⟨compileRule_action raw, compileRule_any raw file entity⟩

/-- hence last-rule-wins can be read on the rule dictionaries as written in the configuration -/
theorem own_on_rule_dicts (paths : List PathEntry) (raws : List RawRule) (file : File) (entity : Option Text) :
    own paths (addRules [] raws) file entity = ownRaw paths raws file entity := by
  rw [addRules_eq, List.nil_append, own_compiled]

/-- a literal key (no `re:` prefix) is compiled to `re.escape(key) + "$"` and used with
    `Pattern.match`: it accepts exactly the entity equal to the key — and the key followed by one
    newline (the `$` caveat; entity keys of the supported formats contain no newline). -/
theorem literal_key (k : RawKey) (entity : Text)
    (h : Gen.Tables.ruleKeyRePrefix.isPrefixOf k.text = false) :
    (compileKey k).matches entity = (entity == k.text || entity == k.text ++ [10]) := by
  unfold compileKey
  rw [h]
  exact literal_matches k.text entity

/-- a `re:` key is the user's regular expression matched at the START of the entity key
    (`Pattern.match`: not anchored at the end) -/
theorem regex_key (k : RawKey) (entity : Text)
    (h : Gen.Tables.ruleKeyRePrefix.isPrefixOf k.text = true) :
    (compileKey k).matches entity = (Rx.matchAt entity.toArray k.compiled 0).isSome := by
  unfold compileKey
  rw [h]; rfl

/-! ## the per-locale cache -/

/-- `ProjectConfig.cache(locale)` returns what a fresh computation for `locale` returns, provided the
    memo (if any) was itself built from the current paths and rules — for whichever locale. -/
theorem cache_memo_sound (paths : List PathEntry) (rules : List Rule) (memo : Option FilterCache) (locale : Text)
    (h : ∀ c, memo = some c → c = buildCache paths rules c.locale) :
    cacheStep memo paths rules locale = buildCache paths rules locale :=
  cacheStep_valid paths rules memo locale h

/-! ## filter → Observer → ContentComparer: missing entities -/

/-- One observer with filter verdicts `v` (= `fun key => filter cfg l10nFile (some key)`), missing
    keys `keys` (reference order): the loop in `ContentComparer.compare` ends with
    `missing` = number of error keys, `report` = number of warning keys, `missings` (what `merge`
    copies from the reference) = the error keys, and the recorded `missingEntity` details = the
    non-ignored keys; the counts reach the summary unless `v ""` is ignore. -/
theorem compare_respects_filter (v : Text → Action) (keys : List Text) :
    compareMissing [some v] keys = .ok
      ⟨⟨(keys.filter (fun k => v k == .error)).length,
        (keys.filter (fun k => v k == .warning)).length,
        keys.filter (fun k => v k == .error),
        keys.filter (fun k => v k != .ignore)⟩,
       [if v [] == .ignore then none
        else some ((keys.filter (fun k => v k == .error)).length, (keys.filter (fun k => v k == .warning)).length)]⟩ := by
  rw [compareMissing_eq]
  have hc : combined [some v] = v := funext (combined_single v)
  simp [hc, missingSpec, MissAcc.zero, observerUpdateStats]

/-- ignored missing strings are neither counted, shown nor merged; warning ones are not merged and
    not counted as missing (they are the `report` count) -/
theorem ignored_and_warning_keys (v : Text → Action) (keys : List Text) (out : CompareOut)
    (h : compareMissing [some v] keys = .ok out) :
    (∀ k, v k = .ignore → k ∉ out.acc.missings ∧ k ∉ out.acc.shown) ∧
    (∀ k, v k = .warning → k ∉ out.acc.missings) ∧
    out.acc.missing = out.acc.missings.length ∧
    out.acc.missing + out.acc.report = (keys.filter (fun k => v k != .ignore)).length := by
  rw [compare_respects_filter] at h
  cases h
  refine ⟨?_, ?_, rfl, ?_⟩
  · intro k hk; simp [List.mem_filter, hk]
  · intro k hk; simp [List.mem_filter, hk]
  · simp only
    induction keys with
    | nil => rfl
    | cons k ks ih =>
      simp only [List.filter_cons]
      cases hv : v k <;> simp <;> omega

/-- several observers (multi-project runs): the comparer acts on the most severe answer; a key is
    skipped only when every observer ignores it -/
theorem compare_many_observers (observers : List Obs) (keys : List Text) :
    compareMissing observers keys = .ok
      ⟨missingSpec (combined observers) keys MissAcc.zero,
       observers.map (fun o => observerUpdateStats o (missingSpec (combined observers) keys MissAcc.zero))⟩ :=
  compareMissing_eq observers keys


/-! ## the composed model: verdicts as a function of the pattern TEXTS (`FiltM`, C14 ∘ C11/C12) -/
section Composed
open FiltM PM C14M

/-- **The composed verdict is the abstract verdict of the instantiated configuration.**
    `filterM cfg file entity` builds `Matcher(text, env=self.environ, root=self.root)` for every `l10n` path and
    rule path of the configuration tree, and runs the transliteration of `filter`/`_filter`/`cache` with the raise
    sites kept and the evaluation order of the Python (lazy `any`, reverse rule scan with `break`, early `error`
    of an included configuration before the own matchers are bound).  `instantiate cfg file.locale file.fullpath`
    makes ALL those constructions, all `with_env({"locale": file.locale})` and all `match(file.fullpath)` calls
    eagerly and returns the abstract configuration of `Paths/Filter.lean` whose path predicates are the answers
    (`instantiate_spec`).  Whenever that returns, the composed verdict is `Filt.filter` of it — so EVERY theorem
    above (`filter_spec`, `most_severe_wins`, `exclude_short_circuit`, `last_rule_wins`, `key_file_distinction`,
    `compare_respects_filter`, …) holds for real pattern texts.
    The hypothesis is forced in this direction only: the lazy code may return although some matcher that it
    does not reach would raise (`ExamplesM.lazy_witness`). -/
theorem filterm_eq_filter (cfg : ConfigM) (file : File) (entity : Option (List Nat)) (c : Config)
    (h : instantiate cfg file.locale file.fullpath = .ok c) :
    filterM cfg file entity = .ok (filter c file entity) :=
  filterM_eq entity h

/-- raise sites: `filter` raises only if some `Matcher(...)` construction, `with_env` or `match(fullpath)` of the
    configuration tree raises for this file (the converse fails: laziness, `ExamplesM.lazy_witness`) -/
theorem filterm_raise_sites (cfg : ConfigM) (file : File) (entity : Option (List Nat)) (e : PM.PyErr)
    (h : filterM cfg file entity = .error e) : ∃ e', instantiate cfg file.locale file.fullpath = .error e' := by
  cases hi : instantiate cfg file.locale file.fullpath with
  | error e' => exact ⟨e', rfl⟩
  | ok c => rw [filterm_eq_filter cfg file entity c hi] at h; cases h

/-- what `instantiate` returns: the same `locales`; one abstract path entry / rule per pattern text, in order,
    with the same `locales` / key / action, whose path predicate is
    `Matcher(text, env=environ, root=root).with_env({"locale": loc}).match(fp) is not None` (`patMatches`);
    the instantiated included and excluded configurations. -/
theorem instantiate_spec {locales : Option (List (List Nat))} {environ : Environ} {root : Option (List Nat)}
    {paths : List PathEntryM} {rules : List RuleM} {children excludes : List ConfigM} {loc fp : List Nat} {c : Config}
    (h : instantiate (.mk locales environ root paths rules children excludes) loc fp = .ok c) :
    ∃ (lp : List (PathEntryM × PathEntry)) (lr : List (RuleM × Rule)) (lc le : List (ConfigM × Config)),
      c = .mk locales (lp.map (·.2)) (lr.map (·.2)) (lc.map (·.2)) (le.map (·.2)) ∧
      paths = lp.map (·.1) ∧ rules = lr.map (·.1) ∧ children = lc.map (·.1) ∧ excludes = le.map (·.1) ∧
      (∀ p ∈ lp, patMatches environ root p.1.l10n loc fp = .ok (p.2.l10n.matchWith loc fp) ∧ p.1.locales = p.2.locales) ∧
      (∀ p ∈ lr, patMatches environ root p.1.path loc fp = .ok (p.2.path.matchWith loc fp) ∧
        p.1.key = p.2.key ∧ p.1.action = p.2.action) ∧
      (∀ p ∈ lc, instantiate p.1 loc fp = .ok p.2) ∧ (∀ p ∈ le, instantiate p.1 loc fp = .ok p.2) :=
  instantiate_inv h

/-! ### concrete pattern classes -/

/-- **A rule (or `l10n` path) whose pattern is a literal text applies to exactly that file path.**
    `t` contains neither `*` nor `{` (`Plain`); any environment, any root, any locale.  The bound matcher matches
    `path` iff `path` is `t` — prefixed with the root when the configuration is rooted and `t` is relative
    (`effRoot`) — and the dictionary it returns is EMPTY.  An empty dict is falsy in Python: this is the fixed
    finding F14 ("literal paths never apply"); `_filter` now tests `is not None`, which is what `patMatches` is. -/
theorem literal_rule_applies {environ : Environ} {root : Option (List Nat)} {t L : List Nat} {b : Matcher}
    (ht : Plain t) (hb : boundMatcher environ root t L = .ok b) (path : List Nat) :
    b.match path = .ok (if path = effRoot root t ++ t then some [] else none) ∧
    patMatches environ root t L path = .ok (decide (path = effRoot root t ++ t)) := by
  have h := literal_bound_match ht hb path
  refine ⟨h, ?_⟩
  rw [patMatches_of_bound hb h]
  by_cases hp : path = effRoot root t ++ t <;> simp [hp]

/-- **A rule `dir/*.ext` applies to `dir/x.ext` iff `x` contains no `/`**, and then the star group is `x`.
    Pattern text `pre ++ "*" ++ post` with `pre`, `post` free of `*` and `{` and `pre` non-empty (a rooted pattern
    must not begin with a wildcard: finding F11, it raises); any environment, root, locale, any `x`.
    (The general fact behind the "only if" for every pattern with a top-level `*` is `C12.star_no_slash`; the
    "if" is the instance of `C12.expand_match_star_partial` in which the star is followed by the final literal, where
    its separation hypothesis holds automatically.  Here both directions are computed on the engine.) -/
theorem star_rule_scope {environ : Environ} {root : Option (List Nat)} {pre post L : List Nat} {b : Matcher}
    (hpre : Plain pre) (hne : pre ≠ []) (hpost : Plain post)
    (hb : boundMatcher environ root (pre ++ 42 :: post) L = .ok b) (x : List Nat) :
    b.match (effRoot root pre ++ pre ++ x ++ post) = .ok (if 47 ∈ x then none else some [(sname 1, some x)]) ∧
    patMatches environ root (pre ++ 42 :: post) L (effRoot root pre ++ pre ++ x ++ post) = .ok (decide (47 ∉ x)) := by
  have h := star_bound_match hpre hne hpost hb x
  refine ⟨h, ?_⟩
  rw [patMatches_of_bound hb h]
  by_cases hx : 47 ∈ x <;> simp [hx]

/-- for EVERY rule path with a top-level `*` (any pattern text, environment, root): whenever the rule's matcher
    returns a dictionary for the file, the text the star stands for contains no `/` (`C12.star_no_slash` on the
    bound matcher), and the whole path was consumed (`C12.only_complete_paths`) -/
theorem star_rule_general {environ : Environ} {root : Option (List Nat)} {pat L path : List Nat} {b : Matcher}
    {d : GroupDict} (_hb : boundMatcher environ root pat L = .ok b) (hm : b.match path = .ok (some d)) :
    (∀ n v, Node.star n ∈ b.pattern.nodes → d.lookup (sname n) = some (some v) → 47 ∉ v) ∧
    (∃ re names st, b.regexOf = .ok (re, names) ∧ Rx.matchAt path.toArray re 0 = some st ∧ st.pos = path.length) :=
  ⟨fun _ _ hn hl => C12.star_no_slash hm hn hl, C12.only_complete_paths hm⟩

/-- **`{locale}` is the queried file's locale.**  The matcher consulted for ANY pattern text of the configuration
    and a file of locale `L` is `Matcher(pat, env=environ, root=root).with_env({"locale": L})` (`instantiate_spec`:
    every path predicate is `patMatches … L …`).  In it
      * "locale" is bound to the parsed text `L`, whatever `environ` says, and every other variable is bound as in
        `environ` (`e` = the parsed `environ`);
      * so, for a locale text without `*` / `{` and an environment of the shape the C12 theorems ask for (`EnvOK`: no
        value repeats a variable — in particular every environment of plain texts, `C14M.bound_env_plain`): whenever
        the matcher returns a dictionary for a path and `{locale}` occurs at top level in the pattern, the dictionary
        says `locale = L` — the path has the file's own locale at the variable's position
        (`C12.match_returns_bound_values`), for every pattern, wildcards included.
    `Plain L` is forced (`ExamplesM`: the locale text is parsed as a pattern). -/
theorem locale_binding {environ : Environ} {root : Option (List Nat)} {pat L : List Nat} {b : Matcher}
    (hb : boundMatcher environ root pat L = .ok b) :
    (∃ e pl, realEnv environ = .ok e ∧ parsePattern L = .ok pl ∧ b.env.lookup localeName = some (.pat pl) ∧
      ∀ k, k ≠ localeName → b.env.lookup k = e.lookup k) ∧
    (EnvOK b.env → Plain L → ∀ path d, b.match path = .ok (some d) →
      Node.var localeName false ∈ b.pattern.nodes → d.lookup localeName = some (some L)) := by
  constructor
  · obtain ⟨e, p, pl, he, _, hpl, rfl⟩ := boundMatcher_inv hb
    refine ⟨e, pl, he, hpl, ?_, ?_⟩
    · simp only [lookup_dupdate, List.reverse_cons, List.reverse_nil, List.nil_append, List.lookup_cons,
        beq_self_eq_true]
    · intro k hk
      have : (k == localeName) = false := by simpa using hk
      simp only [lookup_dupdate, List.reverse_cons, List.reverse_nil, List.nil_append, List.lookup_cons, this,
        List.lookup_nil]
  · intro hok hL path d hm hn
    obtain ⟨pl, hpl, hlk⟩ := bound_locale_lookup hb
    rw [parsePattern_plain hL] at hpl
    cases hpl
    apply C12.match_returns_bound_values hok hm hn hlk
    obtain ⟨g, hg⟩ := fuelFor_pos b.env
    rw [hg, expandVal]
    have := expandPat_flat (rec := expandVal g) (env := derase b.env localeName) (rm := true)
      (p := ⟨[.lit L], none, 1⟩) ⟨rfl, fun n hn => ⟨L, by simpa using hn⟩⟩
    simpa [textOf, litText] using this

/-- the shape hypothesis of `locale_binding` holds for every environment of texts without `*` / `{` -/
theorem locale_binding_plain_env {environ : Environ} {root : Option (List Nat)} {pat L : List Nat} {b : Matcher}
    (henv : ∀ kv ∈ environ, Plain kv.2) (hL : Plain L) (hb : boundMatcher environ root pat L = .ok b) :
    EnvOK b.env :=
  (bound_env_plain henv hL hb).1

/-- what `environ` binds "locale" to never reaches a verdict: the matcher consulted is the same with and without
    an `environ` entry for "locale" (`cache()` rebinds it for the queried file) -/
theorem environ_locale_overridden {environ : Environ} {root : Option (List Nat)} {pat L v : List Nat} {pv : Pattern}
    (hno : environ.any (fun p => p.1 == localeName) = false) (hv : parsePattern v = .ok pv) :
    boundMatcher (environ ++ [(localeName, v)]) root pat L = boundMatcher environ root pat L ∧
    ∀ path, patMatches (environ ++ [(localeName, v)]) root pat L path = patMatches environ root pat L path := by
  have h := bound_ignores_environ_locale (root := root) (pat := pat) (L := L) hno hv
  exact ⟨h, fun path => by unfold patMatches; rw [h]⟩

/-! ### last-rule-wins, error by default, not covered ⇒ ignore — over pattern texts

First for the OWN verdict of any node of a configuration tree (`own_…_texts`; combine with `filterm_eq_filter`,
`most_severe_wins`, `exclude_short_circuit` for trees), then end-to-end for a configuration without included / excluded
configurations.  `C14M.RuleApplies environ root r file entity`: the rule's bound matcher
returns a dictionary for `file.fullpath` and the key part fits; `C14M.Covered`: some `l10n` pattern text enabled for
the locale matches; `C14M.namesLocale`: the configuration names the locale.  The hypothesis `hc` says that every
matcher of the configuration returns for this file (see `filterm_eq_filter`). -/

/-- last rule wins for the OWN verdict of any configuration node (whatever it includes / excludes): the rule text
    `r` applies, no later rule text does — the own verdict (`Spec.own` of the instantiated node, the quantity
    `most_severe_wins` combines with the included configurations' verdicts) is `r.action` -/
theorem own_last_rule_wins_texts {locales : Option (List (List Nat))} {environ : Environ} {root : Option (List Nat)}
    {paths : List PathEntryM} {pre post : List RuleM} {r : RuleM} {children excludes : List ConfigM} {file : File}
    {entity : Option (List Nat)} {c : Config}
    (hc : instantiate (.mk locales environ root paths (pre ++ r :: post) children excludes) file.locale file.fullpath
      = .ok c)
    (hcov : Covered environ root paths file) (hr : RuleApplies environ root r file entity)
    (hpost : ∀ q ∈ post, ¬ RuleApplies environ root q file entity) :
    own c.paths c.rules file entity = some r.action :=
  own_last_rule_wins hc hcov hr hpost

/-- own verdict, covered and no rule text applies: error -/
theorem own_default_error_texts {locales : Option (List (List Nat))} {environ : Environ} {root : Option (List Nat)}
    {paths : List PathEntryM} {rules : List RuleM} {children excludes : List ConfigM} {file : File}
    {entity : Option (List Nat)} {c : Config}
    (hc : instantiate (.mk locales environ root paths rules children excludes) file.locale file.fullpath = .ok c)
    (hcov : Covered environ root paths file) (hno : ∀ q ∈ rules, ¬ RuleApplies environ root q file entity) :
    own c.paths c.rules file entity = some .error :=
  own_default_error hc hcov hno

/-- own verdict, no `l10n` pattern text enabled for the locale matches: none (the rules are not consulted) -/
theorem own_not_covered_texts {locales : Option (List (List Nat))} {environ : Environ} {root : Option (List Nat)}
    {paths : List PathEntryM} {rules : List RuleM} {children excludes : List ConfigM} {file : File}
    {entity : Option (List Nat)} {c : Config}
    (hc : instantiate (.mk locales environ root paths rules children excludes) file.locale file.fullpath = .ok c)
    (hcov : ¬ Covered environ root paths file) :
    own c.paths c.rules file entity = none :=
  own_not_covered hc hcov

/-- last rule wins: the rule `r` applies and no later rule does — the verdict is `r.action`, whatever the
    earlier rule texts are -/
theorem last_rule_wins_texts {locales : Option (List (List Nat))} {environ : Environ} {root : Option (List Nat)}
    {paths : List PathEntryM} {pre post : List RuleM} {r : RuleM} {file : File} {entity : Option (List Nat)} {c : Config}
    (hc : instantiate (.mk locales environ root paths (pre ++ r :: post) [] []) file.locale file.fullpath = .ok c)
    (hloc : namesLocale locales paths file.locale = true) (hcov : Covered environ root paths file)
    (hr : RuleApplies environ root r file entity)
    (hpost : ∀ q ∈ post, ¬ RuleApplies environ root q file entity) :
    filterM (.mk locales environ root paths (pre ++ r :: post) [] []) file entity = .ok r.action :=
  last_rule_wins_leaf hc hloc hcov hr hpost

/-- covered and no rule text applies: error -/
theorem default_error_texts {locales : Option (List (List Nat))} {environ : Environ} {root : Option (List Nat)}
    {paths : List PathEntryM} {rules : List RuleM} {file : File} {entity : Option (List Nat)} {c : Config}
    (hc : instantiate (.mk locales environ root paths rules [] []) file.locale file.fullpath = .ok c)
    (hloc : namesLocale locales paths file.locale = true) (hcov : Covered environ root paths file)
    (hno : ∀ q ∈ rules, ¬ RuleApplies environ root q file entity) :
    filterM (.mk locales environ root paths rules [] []) file entity = .ok .error :=
  default_error_leaf hc hloc hcov hno

/-- no `l10n` pattern text (enabled for the locale) matches the file: ignore, the rules are not consulted -/
theorem not_covered_ignore_texts {locales : Option (List (List Nat))} {environ : Environ} {root : Option (List Nat)}
    {paths : List PathEntryM} {rules : List RuleM} {file : File} {entity : Option (List Nat)} {c : Config}
    (hc : instantiate (.mk locales environ root paths rules [] []) file.locale file.fullpath = .ok c)
    (hcov : ¬ Covered environ root paths file) :
    filterM (.mk locales environ root paths rules [] []) file entity = .ok .ignore :=
  not_covered_leaf hc hcov

/-- a literal rule at the end of the rule list decides the verdict of exactly its own file -/
theorem literal_rule_last_wins {locales : Option (List (List Nat))} {environ : Environ} {root : Option (List Nat)}
    {paths : List PathEntryM} {pre : List RuleM} {t L : List Nat} {a : Action} {c : Config} (ht : Plain t)
    (hc : instantiate (.mk locales environ root paths (pre ++ [⟨t, none, a⟩]) [] []) L (effRoot root t ++ t) = .ok c)
    (hloc : namesLocale locales paths L = true) (hcov : Covered environ root paths ⟨effRoot root t ++ t, L⟩) :
    filterM (.mk locales environ root paths (pre ++ [⟨t, none, a⟩]) [] []) ⟨effRoot root t ++ t, L⟩ none = .ok a := by
  obtain ⟨x, hx⟩ := instantiate_rule_returns hc ⟨t, none, a⟩ (by simp)
  obtain ⟨b, _, hb, _, _⟩ := patMatches_ok_inv hx
  have hr : RuleApplies environ root ⟨t, none, a⟩ ⟨effRoot root t ++ t, L⟩ none :=
    ⟨by rw [(literal_rule_applies ht hb _).2]; simp, rfl⟩
  exact last_rule_wins_texts (file := ⟨effRoot root t ++ t, L⟩) (post := []) hc hloc hcov hr (fun q hq => by cases hq)

/-- a rule `dir/*.ext` at the end of the rule list decides the verdict of `dir/x.ext` for every `/`-free `x` -/
theorem star_rule_last_wins {locales : Option (List (List Nat))} {environ : Environ} {root : Option (List Nat)}
    {paths : List PathEntryM} {pre : List RuleM} {dir ext L x : List Nat} {a : Action} {c : Config}
    (hdir : Plain dir) (hne : dir ≠ []) (hext : Plain ext) (hx : 47 ∉ x)
    (hc : instantiate (.mk locales environ root paths (pre ++ [⟨dir ++ 42 :: ext, none, a⟩]) [] []) L
      (effRoot root dir ++ dir ++ x ++ ext) = .ok c)
    (hloc : namesLocale locales paths L = true)
    (hcov : Covered environ root paths ⟨effRoot root dir ++ dir ++ x ++ ext, L⟩) :
    filterM (.mk locales environ root paths (pre ++ [⟨dir ++ 42 :: ext, none, a⟩]) [] [])
      ⟨effRoot root dir ++ dir ++ x ++ ext, L⟩ none = .ok a := by
  obtain ⟨y, hy⟩ := instantiate_rule_returns hc ⟨dir ++ 42 :: ext, none, a⟩ (by simp)
  obtain ⟨b, _, hb, _, _⟩ := patMatches_ok_inv hy
  have hr : RuleApplies environ root ⟨dir ++ 42 :: ext, none, a⟩ ⟨effRoot root dir ++ dir ++ x ++ ext, L⟩ none :=
    ⟨by rw [(star_rule_scope hdir hne hext hb x).2]; simp [hx], rfl⟩
  exact last_rule_wins_texts (file := ⟨effRoot root dir ++ dir ++ x ++ ext, L⟩) (post := []) hc hloc hcov hr
    (fun q hq => by cases hq)

/-- … and does not reach into sub-directories: with `dir/*.ext` as the only rule, a covered `dir/x.ext` whose
    `x` contains a `/` gets the default verdict error -/
theorem star_rule_stops_at_slash {locales : Option (List (List Nat))} {environ : Environ} {root : Option (List Nat)}
    {paths : List PathEntryM} {dir ext L x : List Nat} {a : Action} {c : Config}
    (hdir : Plain dir) (hne : dir ≠ []) (hext : Plain ext) (hx : 47 ∈ x)
    (hc : instantiate (.mk locales environ root paths [⟨dir ++ 42 :: ext, none, a⟩] [] []) L
      (effRoot root dir ++ dir ++ x ++ ext) = .ok c)
    (hloc : namesLocale locales paths L = true)
    (hcov : Covered environ root paths ⟨effRoot root dir ++ dir ++ x ++ ext, L⟩) :
    filterM (.mk locales environ root paths [⟨dir ++ 42 :: ext, none, a⟩] [] [])
      ⟨effRoot root dir ++ dir ++ x ++ ext, L⟩ none = .ok .error := by
  obtain ⟨y, hy⟩ := instantiate_rule_returns hc ⟨dir ++ 42 :: ext, none, a⟩ (by simp)
  obtain ⟨b, _, hb, _, _⟩ := patMatches_ok_inv hy
  apply default_error_texts (file := ⟨effRoot root dir ++ dir ++ x ++ ext, L⟩) hc hloc hcov
  intro q hq
  simp only [List.mem_singleton] at hq
  subst hq
  rintro ⟨h1, _⟩
  rw [(star_rule_scope hdir hne hext hb x).2] at h1
  simp [hx] at h1

end Composed


/-! ## round 4 — filter ∘ Observer ∘ ContentComparer at EVERY quiet level (`Compare/FilterObserver.lean`)

`Observer.notify` consults the filter BEFORE it looks at the quiet level, for every category: the quiet level
(`-q`, `-qq`, …) decides only which details are listed.  The C10 theorems (`C10.notify_ret`, `C10.quiet_summary_inv`,
`C10.quiet_monotone`) say this for an abstract filter and an abstract history; here the filter is
`ProjectConfig.filter` and the history is the one `ContentComparer.compare` produces, whose LENGTH AND CONTENT
depend on the returned verdicts (counts, `missings` for the merge). -/
section Quiet
open ObsM FiltObs C14Q

/-- **`Observer.notify` returns the filter's verdict whatever the quiet level, for every category**, and the
    summary / error-flag increments do not depend on quiet either: two observers with the same filter, summary and
    error flag — but any two quiet levels and any details — answer the same and stay in step. -/
theorem notify_verdict_quiet_free (o1 o2 o1' o2' : ObsM.Obs) (cat : Cat) (file : ObsM.File) (data : Data) (rv1 rv2 : Ret)
    (hf : o1.filter = o2.filter) (hs : o1.summary = o2.summary) (he : o1.error = o2.error)
    (h1 : o1.notify cat file data = .ok (o1', rv1)) (h2 : o2.notify cat file data = .ok (o2', rv2)) :
    rv1 = rv2 ∧ rv1 = rvOf o1.filter cat file data ∧ o1'.summary = o2'.summary ∧ o1'.error = o2'.error := by
  obtain ⟨a1, b1, _⟩ := notify_ok h1
  obtain ⟨a2, b2, _⟩ := notify_ok h2
  have hc : o1.core = o2.core := by simp [Obs.core, hs, he]
  have : o1'.core = o2'.core := by rw [b1, b2, hf, hc]
  simp only [Obs.core, Prod.mk.injEq] at this
  exact ⟨by rw [a1, a2, hf], a1, this.1, this.2⟩

/-- the verdict `Observer(quiet, filter=config.filter).notify(category, file, key)` returns is
    `config.filter(file)` for the file categories and `config.filter(file, key)` for all others — hence
    (`filter_spec`) the reference verdict: last applicable rule, error by default, most severe of own and included —
    at every quiet level. -/
theorem notify_project_verdict (o o' : ObsM.Obs) (cfg : Config) (fp : ObsM.File → Text) (cat : Cat) (file : ObsM.File)
    (loc k : Text) (rv : Ret) (ho : o.filter = some (projectFilter cfg fp)) (hl : file.locale = some loc)
    (h : o.notify cat file (.str k) = .ok (o', rv)) :
    rv = toRet (verdict cfg ⟨fp file, loc⟩ (if cat.isFile then none else some k)) := by
  rw [(notify_ok h).1, ho, ← filter_spec]
  cases hc : cat.isFile <;> simp [rvOf, hc, projectFilter, hl]

/-- `ObserverList.notify` (what `ContentComparer` acts on): two lists whose project observers have the same
    filters return the same verdict — the most severe of the filters' answers — whatever their quiet levels. -/
theorem list_notify_quiet_free (l1 l2 l1' l2' : ObsList) (cat : Cat) (file : ObsM.File) (data : Data) (rv1 rv2 : Ret)
    (hf : l1.filters = l2.filters)
    (h1 : l1.notify cat file data = .ok (l1', rv1)) (h2 : l2.notify cat file data = .ok (l2', rv2)) :
    rv1 = rv2 ∧ rv1 = listRet (l1.filters.map (fun flt => rvOf flt cat file data)) := by
  have e1 := (list_notify_spec h1).1
  have e2 := (list_notify_spec h2).1
  have m : ∀ l : ObsList, l.observers.map (fun o => rvOf o.filter cat file data)
      = l.filters.map (fun flt => rvOf flt cat file data) := by
    intro l; simp [ObsList.filters, List.map_map, Function.comp_def]
  rw [m] at e1 e2
  exact ⟨by rw [e1, e2, hf], e1⟩

/-- **The comparison does not depend on the quiet level.**  `ContentComparer(q)` with `Observer(q, filter)` for
    every filter in `flts`, against the same with `q'`, over the same keys (`evs`: missing / obsolete keys, Junk,
    checker messages, in `AddRemove` order): the counters `missing`, `missing_w`, `report`, `obsolete`, the keys
    handed to the merge (`missings`) and every verdict returned by `observers.notify` are EQUAL — they are the
    closed form `accSpec` of the filters' answers —, and so are the summary and the error flag of the list and of
    every project observer.  (Only the details differ: `compareq_details_monotone`.) -/
theorem compareq_quiet_free (q q' : Nat) (flts : List (Option Filter)) (file : ObsM.File) (evs : List KeyEv)
    (b : BothCounts) (l1 l2 : ObsList) (a1 a2 : CmpAcc)
    (h1 : compareQ (fresh q flts) file evs b = .ok (l1, a1))
    (h2 : compareQ (fresh q' flts) file evs b = .ok (l2, a2)) :
    a1 = a2 ∧ a1 = accSpec flts file evs CmpAcc.zero ∧
    l1.own.summary = l2.own.summary ∧ l1.own.error = l2.own.error ∧
    l1.observers.map (fun o => (o.summary, o.error)) = l2.observers.map (fun o => (o.summary, o.error)) := by
  obtain ⟨e1, r1⟩ := compareQ_spec h1
  obtain ⟨e2, r2⟩ := compareQ_spec h2
  rw [fresh_filters] at e1 e2 r1 r2
  have hown : l1.own.core = l2.own.core := by rw [fresh_own_core_run r1, fresh_own_core_run r2]
  simp only [Obs.core, Prod.mk.injEq] at hown
  have hobs := (fresh_observers_core r1).trans (fresh_observers_core r2).symm
  exact ⟨by rw [e1, e2], e1, hown.1, hown.2, hobs⟩

/-- raising the quiet level only removes listed details: for the list's own observer and for every project
    observer, per path, the details at the higher level are a sublist of those at the lower level. -/
theorem compareq_details_monotone (q q' : Nat) (hq : q ≤ q') (flts : List (Option Filter)) (file : ObsM.File)
    (evs : List KeyEv) (b : BothCounts) (l1 l2 : ObsList) (a1 a2 : CmpAcc)
    (h1 : compareQ (fresh q flts) file evs b = .ok (l1, a1))
    (h2 : compareQ (fresh q' flts) file evs b = .ok (l2, a2)) (p : List TreeM.Part) :
    ((TreeM.find l2.own.details p).getD []).Sublist ((TreeM.find l1.own.details p).getD []) ∧
    ∀ (i : Nat) (o1 o2 : ObsM.Obs), l1.observers[i]? = some o1 → l2.observers[i]? = some o2 →
      ((TreeM.find o2.details p).getD []).Sublist ((TreeM.find o1.details p).getD []) := by
  obtain ⟨_, r1⟩ := compareQ_spec h1
  obtain ⟨_, r2⟩ := compareQ_spec h2
  rw [fresh_filters] at r1 r2
  refine ⟨C10.quiet_monotone q q' hq none _ _ _ (fresh_own_run r1) (fresh_own_run r2) p, ?_⟩
  intro i o1 o2 hi1 hi2
  obtain ⟨f1, hf1, hr1⟩ := fresh_observer_run r1 i o1 hi1
  obtain ⟨f2, hf2, hr2⟩ := fresh_observer_run r2 i o2 hi2
  rw [hf1] at hf2
  cases hf2
  exact C10.quiet_monotone q q' hq f1 _ _ _ hr1 hr2 p

/-- the comparison never raises on a modelled file (in particular `assert len(rvs) == 1` cannot fail), and its
    result is the closed form -/
theorem compareq_total (q : Nat) (flts : List (Option Filter)) (file : ObsM.File) (evs : List KeyEv) (b : BothCounts)
    (hm : Modelled file) :
    ∃ l', compareQ (fresh q flts) file evs b = .ok (l', accSpec flts file evs CmpAcc.zero) := by
  have hev : ∀ ev ∈ historyOf flts file evs b, Modelled ev.file := by
    intro ev hev
    simp only [historyOf, List.mem_append, List.mem_map, List.mem_singleton] at hev
    rcases hev with ⟨e, _, rfl⟩ | rfl <;> exact hm
  obtain ⟨l', hr⟩ := C10.list_run_total q flts (historyOf flts file evs b) hev
  have := compareQ_of_run (l := fresh q flts) (file := file) (evs := evs) (b := b) (l' := l')
    (by rw [fresh_filters]; exact hr)
  rw [fresh_filters] at this
  exact ⟨l', this⟩

/-- **One project configuration, every quiet level**: with `v key = config.filter(l10n_file, key)`,
    `missing` = number of missing keys with verdict error, `report` = those with verdict warning, the merge gets
    exactly the error keys (in order), `missing_w` their word counts, `obsolete` = number of obsolete keys whose
    verdict is not ignore, and the i-th value returned by `notify` is the verdict of the i-th key.
    (`compare_respects_filter` is the quiet = 0, missing-only instance.) -/
theorem compareq_counts (q : Nat) (cfg : Config) (fp : ObsM.File → Text) (file : ObsM.File) (loc : Text)
    (hl : file.locale = some loc) (evs : List KeyEv) (b : BothCounts) (l' : ObsList) (acc : CmpAcc)
    (h : compareQ (fresh q [some (projectFilter cfg fp)]) file evs b = .ok (l', acc)) :
    let v := fun k => filter cfg ⟨fp file, loc⟩ (some k)
    acc.missing = ((missKeys evs).filter (fun kw => v kw.1 == .error)).length ∧
    acc.report = ((missKeys evs).filter (fun kw => v kw.1 == .warning)).length ∧
    acc.missings = ((missKeys evs).filter (fun kw => v kw.1 == .error)).map (·.1) ∧
    acc.missingW = (((missKeys evs).filter (fun kw => v kw.1 == .error)).map (·.2)).sum ∧
    acc.obsolete = ((obsKeys evs).filter (fun k => v k != .ignore)).length := by
  intro v
  obtain ⟨e, _⟩ := compareQ_spec h
  rw [fresh_filters] at e
  have c := accSpec_counts [some (projectFilter cfg fp)] file evs CmpAcc.zero
  rw [← e] at c
  have hm : ∀ k, missRv [some (projectFilter cfg fp)] file k = toRet (v k) := missRv_project cfg fp file loc hl
  have ho : ∀ k, obsRv [some (projectFilter cfg fp)] file k = toRet (v k) := obsRv_project cfg fp file loc hl
  have t1 : ∀ a : Action, (toRet a == Ret.error) = (a == Action.error) := fun a => by cases a <;> rfl
  have t2 : ∀ a : Action, (toRet a == Ret.warning) = (a == Action.warning) := fun a => by cases a <;> rfl
  have t3 : ∀ a : Action, (toRet a != Ret.ignore) = (a != Action.ignore) := fun a => by cases a <;> rfl
  refine ⟨?_, ?_, ?_, ?_, ?_⟩
  · rw [c.missing]; simp [CmpAcc.zero, hm, t1]
  · rw [c.report]; simp [CmpAcc.zero, hm, t2]
  · rw [c.missings]; simp [CmpAcc.zero, hm, t1]
  · rw [c.missingW]; simp [CmpAcc.zero, hm, t1]
  · rw [c.obsolete]; simp [CmpAcc.zero, ho, t3]

/-- ignored keys at every quiet level: a missing key the configuration ignores is neither counted nor merged, an
    ignored obsolete key is not counted; a warning-level missing key is not merged -/
theorem compareq_ignored_keys (q : Nat) (cfg : Config) (fp : ObsM.File → Text) (file : ObsM.File) (loc : Text)
    (hl : file.locale = some loc) (evs : List KeyEv) (b : BothCounts) (l' : ObsList) (acc : CmpAcc)
    (h : compareQ (fresh q [some (projectFilter cfg fp)]) file evs b = .ok (l', acc)) :
    (∀ k, filter cfg ⟨fp file, loc⟩ (some k) ≠ .error → k ∉ acc.missings) ∧
    acc.missing = acc.missings.length ∧
    acc.missing + acc.report ≤ (missKeys evs).length ∧ acc.obsolete ≤ (obsKeys evs).length := by
  obtain ⟨c1, c2, c3, _, c5⟩ := compareq_counts q cfg fp file loc hl evs b l' acc h
  simp only at c1 c2 c3 c5
  refine ⟨?_, ?_, ?_, ?_⟩
  · intro k hk hmem
    rw [c3] at hmem
    simp only [List.mem_map, List.mem_filter, beq_iff_eq] at hmem
    obtain ⟨kw, ⟨_, hv⟩, rfl⟩ := hmem
    exact hk hv
  · rw [c1, c3, List.length_map]
  · rw [c1, c2]
    generalize missKeys evs = ks
    induction ks with
    | nil => simp
    | cons kw ks ih =>
      simp only [List.filter_cons, List.length_cons]
      cases hv : filter cfg ⟨fp file, loc⟩ (some kw.1) <;> simp <;> omega
  · rw [c5]; exact List.length_filter_le _ _

/-- the round-0 model `compareMissing` (`Compare/MissingFilter.lean`: quiet 0, missing keys only) is the
    restriction of the full model: same `missing`, `report` and merged keys, at EVERY quiet level -/
theorem compareq_refines_missing (q : Nat) (observers : List Filt.Obs) (file : ObsM.File) (keys : List Text)
    (b : BothCounts) (l' : ObsList) (acc : CmpAcc)
    (h : compareQ (fresh q (observers.map (liftObs file))) file (keys.map (fun k => KeyEv.missing k 0)) b = .ok (l', acc)) :
    ∃ out, compareMissing observers keys = .ok out ∧
      out.acc.missing = acc.missing ∧ out.acc.report = acc.report ∧ out.acc.missings = acc.missings := by
  refine ⟨_, compareMissing_eq observers keys, ?_⟩
  obtain ⟨e, _⟩ := compareQ_spec h
  rw [fresh_filters] at e
  have c := accSpec_counts (observers.map (liftObs file)) file (keys.map (fun k => KeyEv.missing k 0)) CmpAcc.zero
  rw [← e] at c
  have hk := missKeys_map keys
  have hv : ∀ k, missRv (observers.map (liftObs file)) file k = toRet (combined observers k) := by
    intro k
    simp only [missRv, List.map_map, Function.comp_def, rvOf_liftObs]
    have := listRet_map_toRet (observers.map (fun o => obsVerdict o k))
    rw [List.map_map] at this
    simp only [Function.comp_def] at this
    rw [this, contains_map_eq_any, contains_map_eq_any]
    rfl
  have t1 : ∀ a : Action, (toRet a == Ret.error) = (a == Action.error) := fun a => by cases a <;> rfl
  have t2 : ∀ a : Action, (toRet a == Ret.warning) = (a == Action.warning) := fun a => by cases a <;> rfl
  refine ⟨?_, ?_, ?_⟩
  · rw [c.missing, hk]; simp [missingSpec, MissAcc.zero, CmpAcc.zero, hv, t1, List.filter_map, Function.comp_def]
  · rw [c.report, hk]; simp [missingSpec, MissAcc.zero, CmpAcc.zero, hv, t2, List.filter_map, Function.comp_def]
  · rw [c.missings, hk]; simp [missingSpec, MissAcc.zero, CmpAcc.zero, hv, t1, List.filter_map, Function.comp_def]

/-- **whole files, every quiet level**: `ContentComparer.add` (missing file) and `remove` (obsolete file) get the
    configuration's FILE verdict (`filter(file)`, key-less rules) whatever the quiet level; a missing file that is
    ignored is not counted; the `missing` / `missing_w` counts that reach the summaries do not depend on quiet. -/
theorem files_quiet_free (q q' : Nat) (flts : List (Option Filter)) (file : ObsM.File) (n w : Nat)
    (l1 l2 m1 m2 : ObsList) (rv1 rv2 rv3 rv4 : Ret)
    (h1 : addFileQ (fresh q flts) file n w = .ok (l1, rv1)) (h2 : addFileQ (fresh q' flts) file n w = .ok (l2, rv2))
    (h3 : removeFileQ (fresh q flts) file = .ok (m1, rv3)) (h4 : removeFileQ (fresh q' flts) file = .ok (m2, rv4)) :
    rv1 = rv2 ∧ rv1 = fileRv flts .missingFile file ∧ rv3 = rv4 ∧ rv3 = fileRv flts .obsoleteFile file ∧
    l1.own.summary = l2.own.summary ∧
    l1.observers.map (fun o => (o.summary, o.error)) = l2.observers.map (fun o => (o.summary, o.error)) ∧
    (rv1 = .ignore → ∀ loc key, getCount l1.own.summary loc key = 0) := by
  obtain ⟨a1, r1⟩ := addFileQ_spec h1
  obtain ⟨a2, r2⟩ := addFileQ_spec h2
  obtain ⟨a3, _⟩ := removeFileQ_spec h3
  obtain ⟨a4, _⟩ := removeFileQ_spec h4
  rw [fresh_filters] at a1 a2 a3 a4 r1 r2
  have hown : l1.own.core = l2.own.core := by rw [fresh_own_core_run r1, fresh_own_core_run r2]
  simp only [Obs.core, Prod.mk.injEq] at hown
  refine ⟨by rw [a1, a2], a1, by rw [a3, a4], a3, hown.1, (fresh_observers_core r1).trans (fresh_observers_core r2).symm, ?_⟩
  intro hi loc key
  have hc := fresh_own_core_run r1
  have hrv : (fileRv flts .missingFile file == Ret.ignore) = true := by rw [← a1, hi]; rfl
  have hign : ignList flts (.notify .missingFile file .none) = true := by
    have : fileRv flts .missingFile file = .ignore := by rw [← a1, hi]
    simp only [fileRv, listRet] at this
    by_cases hall : (flts.map (fun flt => rvOf flt .missingFile file .none)).all (· == .ignore) = true
    · simpa [ignList, List.all_map] using hall
    · simp only [hall, Bool.false_eq_true, ↓reduceIte] at this
      split at this <;> cases this
  have hs : l1.own.summary = [] := by
    have := congrArg Prod.fst hc
    simp only [Obs.core, addFileHistory, hrv, ↓reduceIte, coreRun, List.foldl_cons, List.foldl_nil, coreEv, coreNotify,
      hign] at this
    exact this
  rw [hs]; rfl

end Quiet

/-! ## round 4 — laziness, exactly (`Proofs/C14LLazy.lean`)

`filterm_eq_filter` is one-directional: the eager instantiation may raise where the code returns.  What the code
does is characterised here by EQUATIONS and EQUIVALENCES over the model with the raise sites (`FiltM`): which matchers
are consulted, in which order, and which are not.  `firstD l` is the first element of a list of answers that is not
`ok false` (a `true` or an exception), `ok false` if there is none. -/
section Lazy
open FiltM PM C14M C14L

/-- `firstD` is "the first decisive answer": a decisive `x` (a `true`, an exception) comes out iff it occurs after a
    prefix of `ok false` answers — whatever follows it, raising answers included; `ok false` comes out iff every
    answer is `ok false`. -/
theorem first_decisive_spec {ε : Type} (l : List (Except ε Bool)) :
    (firstD l = match l.find? decisive with | some x => x | none => .ok false) ∧
    (∀ x, decisive x = true → (firstD l = x ↔ ∃ pre post, l = pre ++ x :: post ∧ ∀ y ∈ pre, y = .ok false)) ∧
    (firstD l = .ok false ↔ ∀ x ∈ l, x = .ok false) :=
  ⟨firstD_eq_find l, fun x hx => firstD_eq_iff l x hx, firstD_ok_false_iff l⟩

/-- the covered test `any(p.match(fullpath) is not None for p in cached.l10n_paths)` is lazy: the first decisive
    answer of the `l10n` matchers in order; a matcher behind a matching one is not consulted -/
theorem covered_test_lazy (fp : List Nat) (ps : List PM.Matcher) :
    anyMatchS fp ps = firstD (ps.map (matchesS · fp)) :=
  anyMatchS_eq fp ps

/-- **the reverse rule scan, as an equivalence.**  `rs` is the cached rule list REVERSED (scan order).  The scan
    returns `a` iff some rule tests `ok true` (its path matches and the key part fits), every rule scanned before it
    — i.e. every LATER rule of the configuration — tests `ok false`, and `a` is its action; or all rules test
    `ok false` and `a` is `error`.  It raises `e` iff some rule's test raises `e` after `ok false` tests only.
    Rules behind the decisive one (EARLIER in the configuration) are never consulted: nothing is assumed of them.
    The test of a rule consults the path first: a raising path matcher raises even if the key part would not fit. -/
theorem rule_scan_lazy (fp : List Nat) (entity : Option (List Nat)) (rs : List CachedRuleS) :
    (∀ a, scanRulesS fp entity rs = .ok a ↔
      (∃ pre r post, rs = pre ++ r :: post ∧ (∀ q ∈ pre, ruleTestS fp entity q = .ok false) ∧
        ruleTestS fp entity r = .ok true ∧ a = r.action) ∨
      ((∀ q ∈ rs, ruleTestS fp entity q = .ok false) ∧ a = .error)) ∧
    (∀ e, scanRulesS fp entity rs = .error e ↔
      ∃ pre r post, rs = pre ++ r :: post ∧ (∀ q ∈ pre, ruleTestS fp entity q = .ok false) ∧
        ruleTestS fp entity r = .error e) :=
  ⟨scan_ok_iff fp entity rs, scan_error_iff fp entity rs⟩

/-- `cache(locale)` is EAGER: `with_env({"locale": locale})` is called for every enabled `l10n` matcher in order, then
    for every rule in order, before any `match`: the first one that raises decides -/
theorem cache_is_eager (loc : List Nat) (ps : List PathEntryS) (rs : List RuleS) :
    cachePaths loc ps = (ps.filter (fun p => enabledFor p.locales loc)).mapM (fun p => p.l10n.withEnv (localeEnv loc)) ∧
    cacheRules loc rs = rs.mapM (fun r => do
      let m ← r.path.withEnv (localeEnv loc)
      pure (⟨m, r.key, r.action⟩ : CachedRuleS)) :=
  ⟨cachePaths_eq loc ps, cacheRules_eq loc rs⟩

/-- the excluded configurations are consulted lazily and through their public `filter` on the FILE: the first decisive
    answer of `exclude.filter(file) == "error"` in order; the included configurations are ALL evaluated, in order
    (a set comprehension) -/
theorem excludes_lazy_includes_eager (file : File) (entity : Option (List Nat)) (exs cs : List ConfigS) :
    anyExcludeErrorS exs file = firstD (exs.map (excludeHitS file)) ∧
    childActionsS cs file entity = cs.mapM (fun c => filterInnerS c file entity) :=
  ⟨anyExcludeErrorS_eq file exs, childActionsS_eq_mapM file entity cs⟩

/-- **`_filter` with its evaluation order spelled out** (an equation, for every node of every configuration tree):
    excludes lazily, included configurations eagerly, early `error`, the two eager loops of `cache`, the covered
    test lazily, the rule scan lazily from the end. -/
theorem filter_inner_lazy (locales : Option (List (List Nat))) (paths : List PathEntryS) (rules : List RuleS)
    (children excludes : List ConfigS) (file : File) (entity : Option (List Nat)) :
    filterInnerS (.mk locales paths rules children excludes) file entity =
      (do
        if (← firstD (excludes.map (excludeHitS file))) then pure none else
        let actions ← children.mapM (fun c => filterInnerS c file entity)
        if actions.contains (some .error) then pure (some .error) else
        let ps ← (paths.filter (fun p => enabledFor p.locales file.locale)).mapM
          (fun p => p.l10n.withEnv (localeEnv file.locale))
        let rs ← rules.mapM (fun r => do
          let m ← r.path.withEnv (localeEnv file.locale)
          pure (⟨m, r.key, r.action⟩ : CachedRuleS))
        if (← firstD (ps.map (matchesS · file.fullpath))) then do
          let a ← scanRulesS file.fullpath entity rs.reverse
          pure (pick (actions ++ [some a]))
        else pure (pick actions)) :=
  filterInnerS_lazy locales paths rules children excludes file entity

/-- **Last rule wins, at lazy strength, on the texts** (replaces the hypothesis `instantiate … = ok` of
    `last_rule_wins_texts` — "every matcher of the configuration returns" — by what the code really needs).
    A configuration without included / excluded ones.  Needed: every `Matcher(...)` constructor returns (`build`: the
    constructors run when the configuration is built), every `with_env` of `cache` returns (enabled paths, all
    rules), the file is covered lazily (`CoveredLazy`: a matching enabled `l10n` text, the enabled ones BEFORE it
    answering "no match"), the rule text `r` applies, every LATER rule text is skipped (returns, and does not apply).
    NOT needed: anything about `match` of the rules before `r` or of the `l10n` texts after the covering one —
    they may raise (`ExamplesM.lazy_witness`). -/
theorem last_rule_wins_lazy {locales : Option (List (List Nat))} {environ : Environ} {root : Option (List Nat)}
    {paths : List PathEntryM} {pre post : List RuleM} {r : RuleM} {s : ConfigS} {file : File}
    {entity : Option (List Nat)}
    (hb : build (.mk locales environ root paths (pre ++ r :: post) [] []) = .ok s)
    (hloc : namesLocale locales paths file.locale = true)
    (hbindp : ∀ p ∈ paths, enabledFor p.locales file.locale = true →
      ∃ b, boundMatcher environ root p.l10n file.locale = .ok b)
    (hbindr : ∀ q ∈ pre ++ r :: post, ∃ b, boundMatcher environ root q.path file.locale = .ok b)
    (hcov : CoveredLazy environ root paths file) (hr : RuleApplies environ root r file entity)
    (hpost : ∀ q ∈ post, RuleSkipped environ root q file entity) :
    filterM (.mk locales environ root paths (pre ++ r :: post) [] []) file entity = .ok r.action := by
  obtain ⟨lp, lr, hlp, hlr, hrel, hf⟩ := leaf_eval entity hb hloc hbindp hbindr
  rw [hf, firstD_covered hlp hcov]
  obtain ⟨c, rest, hc, hs⟩ := scan_split hlr hrel hpost
  simp only
  rw [hs, ruleTest_text hc, hr.1]
  simp only [Bool.true_and, hr.2]
  rw [hc.2.1]

/-- … and the converse direction for exceptions: if the path matcher of `r` RAISES `e` (later rules skipped, file
    covered lazily), `filter` raises `e` — whatever the earlier rules are -/
theorem rule_raise_lazy {locales : Option (List (List Nat))} {environ : Environ} {root : Option (List Nat)}
    {paths : List PathEntryM} {pre post : List RuleM} {r : RuleM} {s : ConfigS} {file : File}
    {entity : Option (List Nat)} {e : PM.PyErr}
    (hb : build (.mk locales environ root paths (pre ++ r :: post) [] []) = .ok s)
    (hloc : namesLocale locales paths file.locale = true)
    (hbindp : ∀ p ∈ paths, enabledFor p.locales file.locale = true →
      ∃ b, boundMatcher environ root p.l10n file.locale = .ok b)
    (hbindr : ∀ q ∈ pre ++ r :: post, ∃ b, boundMatcher environ root q.path file.locale = .ok b)
    (hcov : CoveredLazy environ root paths file)
    (hr : patMatches environ root r.path file.locale file.fullpath = .error e)
    (hpost : ∀ q ∈ post, RuleSkipped environ root q file entity) :
    filterM (.mk locales environ root paths (pre ++ r :: post) [] []) file entity = .error e := by
  obtain ⟨lp, lr, hlp, hlr, hrel, hf⟩ := leaf_eval entity hb hloc hbindp hbindr
  rw [hf, firstD_covered hlp hcov]
  obtain ⟨c, rest, hc, hs⟩ := scan_split hlr hrel hpost
  simp only
  rw [hs, ruleTest_text hc, hr]

/-- error by default at lazy strength: covered lazily and every rule text is skipped -/
theorem default_error_lazy {locales : Option (List (List Nat))} {environ : Environ} {root : Option (List Nat)}
    {paths : List PathEntryM} {rules : List RuleM} {s : ConfigS} {file : File} {entity : Option (List Nat)}
    (hb : build (.mk locales environ root paths rules [] []) = .ok s)
    (hloc : namesLocale locales paths file.locale = true)
    (hbindp : ∀ p ∈ paths, enabledFor p.locales file.locale = true →
      ∃ b, boundMatcher environ root p.l10n file.locale = .ok b)
    (hbindr : ∀ q ∈ rules, ∃ b, boundMatcher environ root q.path file.locale = .ok b)
    (hcov : CoveredLazy environ root paths file)
    (hall : ∀ q ∈ rules, RuleSkipped environ root q file entity) :
    filterM (.mk locales environ root paths rules [] []) file entity = .ok .error := by
  obtain ⟨lp, lr, hlp, hlr, hrel, hf⟩ := leaf_eval entity hb hloc hbindp hbindr
  rw [hf, firstD_covered hlp hcov]
  simp only
  rw [scan_ok_iff]
  refine Or.inr ⟨?_, rfl⟩
  intro c hc
  rw [List.mem_reverse] at hc
  obtain ⟨p, hp, rfl⟩ := List.mem_map.mp hc
  obtain ⟨bb, h1, h2⟩ := hall p.1 (hlr ▸ List.mem_map.mpr ⟨p, hp, rfl⟩)
  rw [ruleTest_text (hrel p hp), h1]
  simp only [h2]

end Lazy

/-! ## round 4 — how a rule key is compiled, on TEXTS; `[[filters]]` tables -/
section KeysAndToml
open FiltM C14R

/-- **a `re:` key compiles exactly the text after the marker**, whatever that text starts with: `key[3:]` removes the
    three characters of the marker `re:` once — `re:re:x` compiles `re:x`, `re:external` compiles `external`
    (a `lstrip("re:")`-style removal would eat the `e`).  The marker and the slice length are regenerated from the
    source (`ruleKeyRePrefix`, `ruleKeyReSlice`): if they stop fitting each other this proof breaks. -/
theorem re_key_text (e : Text) : compiledKeyText (Gen.Tables.ruleKeyRePrefix ++ e) = e := by
  have hp : Gen.Tables.ruleKeyRePrefix.isPrefixOf (Gen.Tables.ruleKeyRePrefix ++ e) = true := by
    rw [List.isPrefixOf_iff_prefix]; exact List.prefix_append _ _
  rw [compiledKeyText, if_pos hp]
  show (Gen.Tables.ruleKeyRePrefix ++ e).drop Gen.Tables.ruleKeyReSlice = e
  have : Gen.Tables.ruleKeyReSlice = Gen.Tables.ruleKeyRePrefix.length := by decide
  rw [this, List.drop_left]

/-- **a literal key compiles `re.escape(key) + "$"`**: every character of the key as itself — with a backslash in
    front of the characters `re.escape` escapes, so that un-escaping gives the key back — followed by `$` -/
theorem literal_key_text (k : Text) (h : Gen.Tables.ruleKeyRePrefix.isPrefixOf k = false) :
    compiledKeyText k = reEscape k ++ [36] ∧ unEscape (reEscape k) = k := by
  refine ⟨?_, unEscape_reEscape k⟩
  rw [compiledKeyText, h]
  rfl

/-- the abstract literal branch IS the translation of the compiled text: the recogniser the `c14.keytext`
    correspondence applies to the translation `r` of the real `rule["key"].pattern` accepts exactly
    `escapedDollar key`; so for a literal key, running the translated real pattern and `compileKey` agree on every
    entity — and `literal_key` says what they accept: the key (or the key plus one newline), as a WHOLE (`match` at
    position 0 and `$`), not as a prefix and not anywhere inside (`search`). -/
theorem literal_branch_is_translation (k : RawKey) (h : Gen.Tables.ruleKeyRePrefix.isPrefixOf k.text = false) :
    (litDollarText k.compiled = some k.text ↔ k.compiled = escapedDollar k.text) ∧
    (litDollarText k.compiled = some k.text →
      ∀ e, (KeyPred.regex k.compiled).matches e = (compileKey k).matches e) := by
  refine ⟨⟨litDollarText_sound _ _, fun hk => by rw [hk]; exact litDollarText_complete _⟩, ?_⟩
  intro hk e
  have := litDollarText_sound _ _ hk
  unfold compileKey
  rw [h]
  simp only [KeyPred.matches, KeyPred.toRe, this, Bool.false_eq_true, ↓reduceIte]

/-- `TOMLParser.processFilters` on the `[[filters]]` tables of a file = `add_rules` of the tables as written: a path
    given as a string and the one-element list compile to the same rules, keys and actions are passed through -/
theorem toml_filters_spec (tables : List RawRuleM) :
    processFiltersM tables = addRulesM [] tables ∧
    (∀ (p : List Nat) (k : Option (OneOrMany RawKey)) (a : Action),
      compileRuleM ⟨.many [p], k, a⟩ = compileRuleM ⟨.one p, k, a⟩) :=
  ⟨processFiltersM_eq tables, compileRuleM_single⟩

end KeysAndToml

/-! ## round 4 — legacy filter.py mixed with rules; the guards of the object graph; `set_locales(deep)` -/
section FilterPy
open FiltP C14P

/-- **what `filter_` makes of the legacy callable's result**: raising (any `BaseException`) → error; `True` → error,
    `False` → ignore, `"report"` → warning; `"error"` / `"ignore"` / `"warning"` pass; `None` passes as `None`;
    every other string and every other hashable object → `AssertionError`; an unhashable object → `TypeError`
    (raised by the `dict.get`, outside the `try`). -/
theorem filter_py_normalisation (f : PyFilter) (m : Option Text) (p : Text) (e : Option Text) :
    (f m p e = .raised → filterPyCall f m p e = .ok (some .error)) ∧
    (f m p e = .bool true → filterPyCall f m p e = .ok (some .error)) ∧
    (f m p e = .bool false → filterPyCall f m p e = .ok (some .ignore)) ∧
    (f m p e = .none → filterPyCall f m p e = .ok none) ∧
    (f m p e = .unhashable → filterPyCall f m p e = .error .typeError) ∧
    (f m p e = .other → filterPyCall f m p e = .error .assertion) ∧
    (∀ a : Action, f m p e = .str (Action.name a) → filterPyCall f m p e = .ok (some a)) ∧
    (f m p e = .str [114, 101, 112, 111, 114, 116] → filterPyCall f m p e = .ok (some .warning)) ∧
    (∀ s, f m p e = .str s → s ≠ [114, 101, 112, 111, 114, 116] → (∀ a : Action, s ≠ Action.name a) →
      filterPyCall f m p e = .error .assertion) := by
  refine ⟨?_, ?_, ?_, ?_, ?_, ?_, ?_, ?_, ?_⟩
  · intro h; rw [filterPyCall, h]; decide
  · intro h; rw [filterPyCall, h]; decide
  · intro h; rw [filterPyCall, h]; decide
  · intro h; rw [filterPyCall, h]; decide
  · intro h; rw [filterPyCall, h]
  · intro h; rw [filterPyCall, h]
  · intro a h; rw [filterPyCall, h]; cases a <;> decide
  · intro h; rw [filterPyCall, h]; decide
  · intro s h hr ha
    rw [filterPyCall, h]
    have h1 : normStr s = s := by
      simp only [normStr, Gen.Tables.filterPyStrMap, List.lookup_cons, List.lookup_nil]
      have : (s == [114, 101, 112, 111, 114, 116]) = false := by simpa using hr
      rw [this]
    have h2 : Gen.Tables.filterPyAllowed.contains s = false := by
      have e1 := ha .error
      have e2 := ha .ignore
      have e3 := ha .warning
      simp only [Action.name] at e1 e2 e3
      simp [Gen.Tables.filterPyAllowed, e1, e2, e3]
    simp only [h1, h2, Bool.false_eq_true, ↓reduceIte]

/-- **the legacy callable wins over everything below it**: a configuration with `filter_py` answers — after the
    locale test — with the normalised result of the callable on `(file.module, file.file, entity)`; its rules (there
    are none: `py_rules_exclusive`), its included AND its excluded configurations are never consulted. -/
theorem filter_py_wins (f : PyFilter) (locales : Option (List Text)) (paths : List PathEntry) (rules : List Rule)
    (children excludes : List ConfigP) (file : FileP) (entity : Option Text) :
    filterP (.mk (some f) locales paths rules children excludes) file entity =
      if (allLocalesP (.mk (some f) locales paths rules children excludes)).contains file.locale
      then filterPyCall f file.module file.file entity else .ok (some .ignore) := by
  rw [filterP]
  cases (allLocalesP (.mk (some f) locales paths rules children excludes)).contains file.locale <;> rfl

/-- **the callable of an INCLUDED configuration is dead**: the parent calls `child._filter`, which never looks at
    `filter_py`; clearing the callables of all included configurations (at any depth, `clr`) changes no answer.
    An included legacy configuration therefore contributes `error` for every file its paths cover (it cannot have
    rules). -/
theorem included_py_dead (c : ConfigP) (file : FileP) (entity : Option Text) :
    filterP (clr false c) file entity = filterP c file entity ∧
    (∀ b, filterInnerP (clr b c) file entity = filterInnerP c file entity) :=
  ⟨filterP_clr c file entity, fun b => filterInnerP_clr b c file entity⟩

/-- **the callable of an EXCLUDED configuration is consulted** (through its public `filter`, on the file): the
    exclude fires iff the locale is named and the normalised answer is error; `None` / warning / ignore do not fire;
    an `AssertionError` / `TypeError` of the normalisation propagates. -/
theorem excluded_py_consulted (f : PyFilter) (locales : Option (List Text)) (paths : List PathEntry) (rules : List Rule)
    (children excludes rest : List ConfigP) (file : FileP) :
    anyExcludeErrorP (.mk (some f) locales paths rules children excludes :: rest) file =
      (if !(allLocalesP (.mk (some f) locales paths rules children excludes)).contains file.locale
        then anyExcludeErrorP rest file
       else match filterPyCall f file.module file.file none with
        | .ok rv => if rv == some Action.error then .ok true else anyExcludeErrorP rest file
        | .error e => .error e) := by
  rw [anyExcludeErrorP]
  simp only [ConfigP.filterPy]
  by_cases hl : (allLocalesP (.mk (some f) locales paths rules children excludes)).contains file.locale = true
  · simp only [hl, Bool.not_true, Bool.false_eq_true, ↓reduceIte, bind, Except.bind, pure, Except.pure]
    cases filterPyCall f file.module file.file none with
    | error e => rfl
    | ok rv => cases hrv : (rv == some Action.error) <;> simp [hrv]
  · have hl' : file.locale ∉ allLocalesP (.mk (some f) locales paths rules children excludes) := by
      simpa using hl
    simp [hl', bind, Except.bind, pure, Except.pure]

/-- without any legacy callable the model is `Paths/Filter.lean`: every theorem above applies -/
theorem filterp_no_py (c : ConfigP) (file : FileP) (entity : Option Text) (h : noPy c = true) :
    filterP c file entity = .ok (some (filter (erase c) file.toFile entity)) :=
  filterP_noPy c file entity h

/-- **rules and a legacy callable never meet on one configuration**: `set_filter_py` asserts that there are no
    rules, `add_rules` (even of zero rules) asserts that there is no callable; after either succeeds the
    configuration has a callable or rules, not both. -/
theorem py_rules_exclusive (c : ConfigP) (f : PyFilter) (raws : List RawRule) :
    (setFilterPy c f = .error .assertion ↔ c.rules ≠ []) ∧
    (addRulesP c raws = .error .assertion ↔ c.filterPy.isSome = true) ∧
    (∀ c', setFilterPy c f = .ok c' → c'.filterPy.isSome = true ∧ c'.rules = []) ∧
    (∀ c', addRulesP c raws = .ok c' → c'.filterPy = none ∧ c'.rules = addRules c.rules raws) := by
  cases c with
  | mk g l p r ch ex =>
    refine ⟨?_, ?_, ?_, ?_⟩
    · simp only [setFilterPy, ConfigP.rules]
      cases r <;> simp
    · simp only [addRulesP, ConfigP.filterPy]
      cases g <;> simp
    · intro c' h
      simp only [setFilterPy] at h
      cases r with
      | nil => simp at h; subst h; simp [ConfigP.filterPy, ConfigP.rules]
      | cons a b => simp at h
    · intro c' h
      simp only [addRulesP] at h
      cases g with
      | none => simp at h; subst h; simp [ConfigP.filterPy, ConfigP.rules]
      | some _ => simp at h

/-- `add_child` refuses a configuration that declares excludes, `exclude` refuses one that — itself or through an
    included configuration — declares excludes (`ExcludeError`); otherwise they append -/
theorem add_child_exclude_guards (c child : ConfigP) :
    (addChild c child = .error .excludeError ↔ child.excludes ≠ []) ∧
    (excludeP c child = .error .excludeError ↔ anyExcludes child = true) ∧
    (∀ c', addChild c child = .ok c' → c'.children = c.children ++ [child] ∧ c'.excludes = c.excludes) ∧
    (∀ c', excludeP c child = .ok c' → c'.excludes = c.excludes ++ [child] ∧ c'.children = c.children) := by
  cases c with
  | mk g l p r ch ex =>
    refine ⟨?_, ?_, ?_, ?_⟩
    · simp only [addChild]
      cases child.excludes <;> simp
    · simp only [excludeP]
      cases anyExcludes child <;> simp
    · intro c' h
      simp only [addChild] at h
      cases hce : child.excludes with
      | nil => rw [hce] at h; simp at h; subst h; simp [ConfigP.children, ConfigP.excludes]
      | cons a b => rw [hce] at h; simp at h
    · intro c' h
      simp only [excludeP] at h
      cases hae : anyExcludes child with
      | false => rw [hae] at h; simp at h; subst h; simp [ConfigP.children, ConfigP.excludes]
      | true => rw [hae] at h; simp at h

/-- **`set_locales(locales, deep=True)`** reaches the configuration and every included one (not the excluded ones):
    afterwards the project names a locale iff it is in `locales` or in a `locales` list of some `paths` entry; and the
    locales only gate the public entry — `_filter` (own verdict, included and excluded configurations) is unchanged. -/
theorem set_locales_deep_spec (c : ConfigP) (ls : Option (List Text)) (l : Text) (file : FileP) (entity : Option Text) :
    (l ∈ allLocalesP (setLocalesDeep c ls) ↔ l ∈ optLocales ls ∨ l ∈ pathLocales c) ∧
    filterInnerP (setLocalesDeep c ls) file entity = filterInnerP c file entity :=
  ⟨mem_allLocalesP_deep c ls l, filterInnerP_setLocalesDeep c ls file entity⟩

end FilterPy

/-! ## non-vacuity: the model evaluated on concrete configurations (no theorem used)

Texts are code point lists: `one` = [111,110,101], `two` = [116,119,111].  The path predicate
`everywhere` matches any path, `inBrowser` only the path `[1]`. -/
namespace Examples

def everywhere : PathM := ⟨fun _ _ => true⟩
def inBrowser : PathM := ⟨fun _ p => p == [1]⟩
def de : Text := [100, 101]
def fr : Text := [102, 114]
def one : Text := [111, 110, 101]
def two : Text := [116, 119, 111]
def fileB : File := ⟨[1], de⟩      -- a file in browser/
def fileT : File := ⟨[2], de⟩      -- a file elsewhere
def rx (t : Text) (r : Rx.Re) : RawKey := ⟨t, r⟩

/-- rules as written: [browser files: ignore] [key "one": warning] [key re:t.*: ignore] [key "one" in browser: error] -/
def raws : List RawRule :=
  [ ⟨.one inBrowser, none, .ignore⟩,
    ⟨.one everywhere, some (.one (rx one .eps)), .warning⟩,
    ⟨.one everywhere, some (.one (rx ([114, 101, 58] ++ [116]) (.lit 116))), .ignore⟩,
    ⟨.many [inBrowser], some (.many [rx two .eps, rx one .eps]), .error⟩ ]

def leaf : Config := .mk (some [de]) [⟨everywhere, none⟩] (addRules [] raws) [] []
/-- a child that warns for every entity of browser files -/
def warnChild : Config :=
  .mk none [⟨inBrowser, none⟩] (addRules [] [⟨.one everywhere, some (.one (rx [114, 101, 58] .eps)), .warning⟩]) [] []
/-- an excluded project covering browser files (file verdict: error) -/
def excl : Config := .mk (some [de]) [⟨inBrowser, none⟩] [] [] []
def parent : Config := .mk (some [de]) [⟨everywhere, none⟩]
  (addRules [] [⟨.one everywhere, some (.one (rx one .eps)), .ignore⟩]) [warnChild] []
def parentEx : Config := .mk (some [de]) [⟨everywhere, none⟩] [] [warnChild] [excl]

-- file rules vs key rules, last rule wins, default error
example : filter leaf fileB none = .ignore := by decide
example : filter leaf fileT none = .error := by decide
example : filter leaf fileT (some one) = .warning := by decide
example : filter leaf fileB (some one) = .error := by decide          -- the later list rule wins
example : filter leaf fileT (some two) = .ignore := by decide         -- re:t matches at the start
example : filter leaf fileT (some [120]) = .error := by decide        -- no rule applies
example : filter leaf ⟨[1], fr⟩ none = .ignore := by decide           -- locale not named
-- most severe of own and child; exclude short-circuit
example : filter parent fileB (some one) = .warning := by decide      -- own ignore, child warning
example : filter parent fileT (some one) = .ignore := by decide       -- child does not cover
example : filter parent fileB (some two) = .error := by decide        -- own default error
example : filter parentEx fileB (some one) = .ignore ∧ filter parentEx fileT (some one) = .error := by decide
-- the reference interpreter on the same inputs
example : verdict parent fileB (some one) = .warning ∧ verdict parentEx fileB none = .ignore := by decide
-- the comparer link
example : compareMissing [some (fun k => filter leaf fileT (some k))] [one, two, [120]] =
    .ok ⟨⟨1, 1, [[120]], [one, [120]]⟩, [some (1, 1)]⟩ := by rfl

/-! ### negation witnesses for the hypotheses -/

/-- `literal_key`: the `$` — a literal key also accepts the key followed by ONE newline (not two) -/
example : (compileKey (rx one .eps)).matches (one ++ [10]) = true ∧
    (compileKey (rx one .eps)).matches (one ++ [10, 10]) = false ∧
    (compileKey (rx one .eps)).matches (one ++ [120]) = false := by decide

/-- `last_rule_wins` needs "no later rule applies": with a later applicable rule the answer changes -/
example : own [⟨everywhere, none⟩] [⟨everywhere, none, .ignore⟩, ⟨everywhere, none, .warning⟩] fileB none
    = some .warning := by decide

/-- `exclude_short_circuit` needs the exclude's FILE verdict to be error: a warning-level exclude does not suppress -/
example : filter (.mk (some [de]) [⟨everywhere, none⟩] [] []
      [.mk (some [de]) [⟨inBrowser, none⟩] [⟨everywhere, none, .warning⟩] [] []]) fileB none = .error := by decide

/-- `cache_memo_sound` needs a memo built from the current rules: a memo of the same locale built
    before a rule was added answers differently (stale cache) -/
example : (cacheStep (some (buildCache [] [] de)) [] [⟨everywhere, none, .ignore⟩] de).rules.length = 0 ∧
    (buildCache [] [⟨everywhere, none, .ignore⟩] de).rules.length = 1 := by decide

/-- `most_severe_wins` needs "no exclude fires" -/
example : filterInner parentEx fileB (some one) = none ∧
    mostSevere (own [⟨everywhere, none⟩] [] fileB (some one) :: [filterInner warnChild fileB (some one)]) = some .error := by
  decide

end Examples

/-! ## non-vacuity and negation witnesses of the composed model (evaluation, `decide +kernel`) -/
namespace ExamplesM
open FiltM PM C14M

def de : List Nat := T "de"
def fr : List Nat := T "fr"
def cover : PathEntryM := ⟨T "/src/{locale}/**", none⟩
def litRule : RuleM := ⟨T "/src/de/browser/a.ftl", none, .ignore⟩
def locStarRule : RuleM := ⟨T "/src/{locale}/browser/*.ftl", none, .warning⟩
def starRule : RuleM := ⟨T "/src/de/browser/" ++ 42 :: T ".ftl", none, .warning⟩

/-- two locales, one `l10n` path, two rules as `add_rules` compiles them: a literal one, then `{locale}`/`*` -/
def cfg : ConfigM := .mk (some [de, fr]) [] none [cover]
  (addRulesM [] [⟨.one (T "/src/de/browser/a.ftl"), none, .ignore⟩,
                 ⟨.one (T "/src/{locale}/browser/*.ftl"), none, .warning⟩]) [] []
/-- the same two rules in the other order -/
def cfgSwapped : ConfigM := .mk (some [de, fr]) [] none [cover] ([locStarRule] ++ [litRule]) [] []
/-- a literal rule, then `/src/de/browser/*.ftl` -/
def cfgStar : ConfigM := .mk (some [de, fr]) [] none [cover] ([litRule] ++ [starRule]) [] []

def aDe : File := ⟨T "/src/de/browser/a.ftl", de⟩
def aFr : File := ⟨T "/src/fr/browser/a.ftl", fr⟩
def subDe : File := ⟨T "/src/de/browser/sub/c.ftl", de⟩

/-- the composed model evaluated: last rule wins (either order), the literal rule applies to its own file only,
    `*` stays inside `browser/`, `{locale}` is the file's locale (a `de` path queried as locale `fr` is not
    covered), an unnamed locale is ignored -/
example : filterM cfg aDe none = .ok .warning ∧ filterM cfgSwapped aDe none = .ok .ignore ∧
    filterM cfgSwapped aFr none = .ok .warning ∧ filterM cfg subDe none = .ok .error ∧
    filterM cfg ⟨T "/src/de/browser/a.ftl", fr⟩ none = .ok .ignore ∧
    filterM cfg ⟨T "/src/ja/browser/a.ftl", T "ja"⟩ none = .ok .ignore ∧
    filterM cfg aDe (some (T "key")) = .ok .error := by decide +kernel

/-- non-vacuity of `filterm_eq_filter`: `instantiate` returns on these queries -/
example : isOk (instantiate cfg de aDe.fullpath) = true ∧ isOk (instantiate cfgSwapped fr aFr.fullpath) = true ∧
    isOk (instantiate cfgStar de subDe.fullpath) = true := by decide +kernel

/-- what the matcher of the `{locale}`/`*` rule returns for a `de` file: `locale = de`, `s1 = a` -/
example : (boundMatcher [] none locStarRule.path de >>= fun b => b.match aDe.fullpath) =
    .ok (some [(localeName, some de), (sname 1, some (T "a"))]) := by decide +kernel

/-- `literal_rule_last_wins` applied: its hypotheses hold for `cfgSwapped` and the file of the literal rule -/
example : filterM cfgSwapped aDe none = .ok .ignore := by
  have hc : isOk (instantiate cfgSwapped de aDe.fullpath) = true := by decide +kernel
  cases hi : instantiate cfgSwapped de aDe.fullpath with
  | error e => rw [hi] at hc; cases hc
  | ok c =>
    have hcov : Covered [] none [cover] ⟨effRoot none litRule.path ++ litRule.path, de⟩ :=
      ⟨cover, by simp, rfl, by decide +kernel⟩
    exact literal_rule_last_wins (t := litRule.path) (a := .ignore) (by decide) hi (by decide) hcov

/-- `star_rule_last_wins` / `star_rule_stops_at_slash` applied to `cfgStar`-like configurations -/
example : filterM cfgStar aDe none = .ok .warning := by
  have hc : isOk (instantiate cfgStar de aDe.fullpath) = true := by decide +kernel
  cases hi : instantiate cfgStar de aDe.fullpath with
  | error e => rw [hi] at hc; cases hc
  | ok c =>
    have hcov : Covered [] none [cover] ⟨effRoot none (T "/src/de/browser/") ++ T "/src/de/browser/" ++ T "a" ++ T ".ftl", de⟩ :=
      ⟨cover, by simp, rfl, by decide +kernel⟩
    exact star_rule_last_wins (dir := T "/src/de/browser/") (ext := T ".ftl") (x := T "a") (a := .warning)
      (by decide) (by decide) (by decide) (by decide) hi (by decide) hcov

/-! ### negation witnesses -/

def dupEnv : Environ := [(T "dup", T "{locale}x")]
/-- a rule whose matcher raises `re.error` when it is used (group `locale` defined twice: finding F12) -/
def boom : RuleM := ⟨T "/src/{dup}/{locale}/**", none, .ignore⟩

/-- `filterm_eq_filter` needs `instantiate` to return, and only in this direction: with the raising rule BEFORE
    the applicable one the reverse scan never consults it — the code returns although `instantiate` raises; with
    the raising rule AFTER it the code raises. -/
theorem lazy_witness :
    filterM (.mk (some [de]) dupEnv none [cover] [boom, locStarRule] [] []) aDe none = .ok .warning ∧
    errIs (instantiate (.mk (some [de]) dupEnv none [cover] [boom, locStarRule] [] []) de aDe.fullpath) .reError = true ∧
    filterM (.mk (some [de]) dupEnv none [cover] [locStarRule, boom] [] []) aDe none = .error .reError := by
  decide +kernel

/-- likewise a raising `l10n` path after a matching one is not consulted, and an included configuration that
    answers error returns before the own (raising) matchers are -/
example :
    filterM (.mk (some [de]) dupEnv none [cover, ⟨boom.path, none⟩] [] [] []) aDe none = .ok .error ∧
    filterM (.mk (some [de]) dupEnv none [⟨boom.path, none⟩, cover] [] [] []) aDe none = .error .reError ∧
    filterM (.mk (some [de]) dupEnv none [⟨boom.path, none⟩] [] [.mk none [] none [cover] [] [] []] []) aDe none
      = .ok .error := by decide +kernel

/-- `literal_rule_applies` needs a text without `*` / `{`: "/src/*" matches "/src/x", not itself only -/
example : patMatches [] none (T "/src/*") de (T "/src/x") = .ok true ∧
    patMatches [] none (T "/src/{locale}") de (T "/src/de") = .ok true := by decide +kernel

/-- `star_rule_scope` needs a non-empty directory part when the configuration is rooted: a rooted pattern that
    begins with a wildcard raises KeyError (finding F11) — and `filter` with it -/
example : patMatches [] (some (T "/r/")) (T "*.ftl") de (T "/r/a.ftl") = .error .keyError ∧
    filterM (.mk (some [de]) [] (some (T "/r/")) [⟨T "*.ftl", none⟩] [] [] []) ⟨T "/r/a.ftl", de⟩ none
      = .error .keyError := by decide +kernel

/-- a rooted configuration: relative patterns are relative to the root, absolute ones are not -/
example : patMatches [] (some (T "/r/")) (T "de/a.ftl") de (T "/r/de/a.ftl") = .ok true ∧
    patMatches [] (some (T "/r/")) (T "de/a.ftl") de (T "de/a.ftl") = .ok false ∧
    patMatches [] (some (T "/r/")) (T "/src/de/a.ftl") de (T "/src/de/a.ftl") = .ok true := by decide +kernel

/-- `locale_binding` (captured value) needs a locale text without specials: the locale text is parsed as a
    pattern, "d*" makes `{locale}` a wildcard -/
example : (boundMatcher [] none (T "/{locale}/a") (T "d*") >>= fun b => b.match (T "/de/a")) =
    .ok (some [(localeName, some (T "de")), (sname 1, some (T "e"))]) := by decide +kernel

/-- `environ_locale_overridden` evaluated: an `environ` entry "locale" = "zz" changes nothing -/
example : filterM (.mk (some [de, fr]) [(localeName, T "zz")] none [cover] [litRule, locStarRule] [] []) aFr none
    = .ok .warning := by decide +kernel


theorem exists_of_isOk {ε α : Type} {x : Except ε α} (h : isOk x = true) : ∃ b, x = .ok b := by
  cases x with
  | ok b => exact ⟨b, rfl⟩
  | error e => cases h

/-- non-vacuity of `last_rule_wins_lazy` exactly where `last_rule_wins_texts` does not apply: the configuration of
    `lazy_witness` — the rule BEFORE the winning one raises on `match` (so `instantiate` raises), its `with_env`
    returns; every hypothesis of the lazy theorem holds -/
example : filterM (.mk (some [de]) dupEnv none [cover] ([boom] ++ locStarRule :: []) [] []) aDe none = .ok .warning := by
  have hb := exists_of_isOk (x := build (.mk (some [de]) dupEnv none [cover] ([boom] ++ locStarRule :: []) [] []))
    (by decide +kernel)
  obtain ⟨s, hbs⟩ := hb
  refine C14.last_rule_wins_lazy (r := locStarRule) hbs (by decide) ?_ ?_ ?_ ?_ ?_
  · intro p hp _
    simp only [List.mem_singleton] at hp
    subst hp
    exact exists_of_isOk (by decide +kernel)
  · intro q hq
    simp only [List.cons_append, List.nil_append, List.mem_cons, List.not_mem_nil, or_false] at hq
    rcases hq with rfl | rfl
    · exact exists_of_isOk (by decide +kernel)
    · exact exists_of_isOk (by decide +kernel)
  · exact ⟨[], cover, [], rfl, (fun _ h => by cases h), by decide +kernel⟩
  · exact ⟨by decide +kernel, rfl⟩
  · intro q hq; cases hq

/-- … and `rule_raise_lazy` with the raising rule AFTER the applicable one -/
example : filterM (.mk (some [de]) dupEnv none [cover] ([locStarRule] ++ boom :: []) [] []) aDe none = .error .reError := by
  obtain ⟨s, hbs⟩ := exists_of_isOk (x := build (.mk (some [de]) dupEnv none [cover] ([locStarRule] ++ boom :: []) [] []))
    (by decide +kernel)
  refine C14.rule_raise_lazy (r := boom) hbs (by decide) ?_ ?_ ?_ ?_ ?_
  · intro p hp _
    simp only [List.mem_singleton] at hp
    subst hp
    exact exists_of_isOk (by decide +kernel)
  · intro q hq
    simp only [List.cons_append, List.nil_append, List.mem_cons, List.not_mem_nil, or_false] at hq
    rcases hq with rfl | rfl
    · exact exists_of_isOk (by decide +kernel)
    · exact exists_of_isOk (by decide +kernel)
  · exact ⟨[], cover, [], rfl, (fun _ h => by cases h), by decide +kernel⟩
  · decide +kernel
  · intro q hq; cases hq

end ExamplesM



/-! ## round 4: non-vacuity and negation witnesses (evaluation, no theorem used unless said) -/
namespace ExamplesR4
open ObsM FiltObs C14Q FiltP FiltM C14M C14L PM

def one : List Nat := [111, 110, 101]
def two : List Nat := [116, 119, 111]
def obs1 : List Nat := [111, 98, 115]
def de : List Nat := [100, 101]
def everywhere : PathM := ⟨fun _ _ => true⟩
/-- rules: key "one" ignore, key "two" warning, key "obs" ignore; everything else error by default -/
def cfg : Config := .mk (some [de]) [⟨everywhere, none⟩]
  [⟨everywhere, some (.literal one), .ignore⟩, ⟨everywhere, some (.literal two), .warning⟩,
   ⟨everywhere, some (.literal obs1), .ignore⟩] [] []
def l10n : ObsM.File := ⟨[97], none, some de⟩
def flts : List (Option Filter) := [some (projectFilter cfg (fun _ => [1]))]
/-- missing: one (ignored), two (warning), x (error); obsolete: obs (ignored), y (counted) -/
def evs : List KeyEv := [.missing one 2, .missing two 3, .obsolete obs1, .missing [120] 5, .obsolete [121]]

def summaryOf (r : Except TreeM.PyErr (ObsList × CmpAcc)) : Option (CmpAcc × List (Nat × Nat × Nat)) :=
  match r with
  | .ok (l, a) => some (a, l.observers.map (fun o =>
      (getCount o.summary (some de) .missing, getCount o.summary (some de) .report, getCount o.summary (some de) .obsolete)))
  | .error _ => none

def detailCount (r : Except TreeM.PyErr (ObsList × CmpAcc)) : Option Nat :=
  match r with
  | .ok (l, _) => some ((TreeM.flatten l.own.details).flatMap (·.2)).length
  | .error _ => none

/-- the comparison evaluated at quiet 0, 1, 2 and 4: counters, merged keys, returned verdicts and summaries are the
    same (`compareq_quiet_free`), missing = 1 (x), report = 1 (two), obsolete = 1 (y), merged = [x], missing_w = 5;
    only the number of listed details shrinks: 3, 2, 0, 0 -/
example : summaryOf (compareQ (fresh 0 flts) l10n evs ⟨0, 0, 0, 0, 0⟩)
    = some (⟨1, 5, 1, 1, [[120]], [.ignore, .warning, .ignore, .error, .error]⟩, [(1, 1, 1)]) := by decide +kernel
example : summaryOf (compareQ (fresh 1 flts) l10n evs ⟨0, 0, 0, 0, 0⟩)
    = summaryOf (compareQ (fresh 0 flts) l10n evs ⟨0, 0, 0, 0, 0⟩) := by decide +kernel
example : summaryOf (compareQ (fresh 2 flts) l10n evs ⟨0, 0, 0, 0, 0⟩)
    = summaryOf (compareQ (fresh 0 flts) l10n evs ⟨0, 0, 0, 0, 0⟩) := by decide +kernel
example : summaryOf (compareQ (fresh 4 flts) l10n evs ⟨0, 0, 0, 0, 0⟩)
    = summaryOf (compareQ (fresh 0 flts) l10n evs ⟨0, 0, 0, 0, 0⟩) := by decide +kernel
example : detailCount (compareQ (fresh 0 flts) l10n evs ⟨0, 0, 0, 0, 0⟩) = some 3 ∧
    detailCount (compareQ (fresh 1 flts) l10n evs ⟨0, 0, 0, 0, 0⟩) = some 2 ∧
    detailCount (compareQ (fresh 2 flts) l10n evs ⟨0, 0, 0, 0, 0⟩) = some 0 := by decide +kernel

/-- `compareq_counts` needs `file.locale = some loc`: a file without locale is ignored altogether -/
example : summaryOf (compareQ (fresh 0 flts) ⟨[97], none, none⟩ evs ⟨0, 0, 0, 0, 0⟩)
    = some (⟨0, 0, 0, 0, [], [.ignore, .ignore, .ignore, .ignore, .ignore]⟩, [(0, 0, 0)]) := by decide +kernel

/-- `compareq_total` needs a modelled file (a `File` with a module has a locale) -/
example : (compareQ (fresh 0 [none]) ⟨[97], some [98], none⟩ [.missing [120] 1] ⟨0, 0, 0, 0, 0⟩).toOption.isNone = true := by
  decide +kernel

/-! ### keys -/

/-- the marker is removed once, whatever follows: `re:re:x` compiles `re:x`, `re:external` compiles `external`,
    `re::` compiles `:`; a literal key is escaped and gets the `$`: `a+b` compiles `a\+b$` -/
example : compiledKeyText (T "re:re:x") = T "re:x" ∧ compiledKeyText (T "re:external") = T "external" ∧
    compiledKeyText (T "re::") = T ":" ∧ compiledKeyText (T "re:") = [] ∧
    compiledKeyText (T "a+b") = T "a\\+b$" ∧ compiledKeyText (T "re") = T "re$" ∧ compiledKeyText (T "r:e:x") = T "r:e:x$" := by
  decide

/-- `match`, not `search`: the `re:` key `ne` does not accept the entity `one`; it accepts `next` (start only, no `$`) -/
example : (compileKey ⟨T "re:ne", .seq (.lit 110) (.lit 101)⟩).matches (T "one") = false ∧
    (compileKey ⟨T "re:ne", .seq (.lit 110) (.lit 101)⟩).matches (T "next") = true := by decide

/-- `literal_branch_is_translation` needs the translation to have the literal shape: `one.*` has not -/
example : litDollarText (.seq (.lit 111) (.rep 0 none true (.any false))) = none ∧
    litDollarText (escapedDollar one) = some one := by decide

/-! ### legacy filter.py -/

/-- a callable: entity `one` → `"report"`, entity `two` → `None`, files → `False`, everything else raises -/
def py : PyFilter := fun _ _ e =>
  if e == some one then .str [114, 101, 112, 111, 114, 116] else if e == some two then .none
  else if e == none then .bool false else .raised
def fileP : FileP := ⟨[1], de, none, [97]⟩
def leafP (f : Option PyFilter) : ConfigP := .mk f (some [de]) [⟨everywhere, none⟩] [] [] []

/-- the callable wins at the root (report → warning, None stays None, False → ignore, raising → error); as an
    INCLUDED configuration its callable is dead (the paths cover, no rules: error); as an EXCLUDED one it is consulted
    (file verdict ignore: the exclude does not fire; with `True` it fires) -/
example :
    filterP (leafP (some py)) fileP (some one) = .ok (some .warning) ∧ filterP (leafP (some py)) fileP (some two) = .ok none ∧
    filterP (leafP (some py)) fileP none = .ok (some .ignore) ∧ filterP (leafP (some py)) fileP (some [120]) = .ok (some .error) ∧
    filterP (.mk none (some [de]) [] [] [leafP (some py)] []) fileP none = .ok (some .error) ∧
    filterP (.mk none (some [de]) [⟨everywhere, none⟩] [] [] [leafP (some py)]) fileP none = .ok (some .error) ∧
    filterP (.mk none (some [de]) [⟨everywhere, none⟩] [] [] [leafP (some (fun _ _ _ => .bool true))]) fileP none
      = .ok (some .ignore) := by decide

/-- `filterp_no_py` needs `noPy`: with the callable the answer differs from the rule semantics of the erased tree -/
example : filterP (leafP (some py)) fileP none = .ok (some .ignore) ∧
    filter (erase (leafP (some py))) fileP.toFile none = .error := by decide

/-- the guards: rules then callable / callable then rules → AssertionError; an included configuration with excludes,
    an excluded configuration whose included one has excludes → ExcludeError -/
example :
    ((addRulesP ConfigP.empty [⟨.one everywhere, none, .ignore⟩]).bind (fun c => setFilterPy c py)).toOption.isNone = true ∧
    ((setFilterPy ConfigP.empty py).bind (fun c => addRulesP c [])).toOption.isNone = true ∧
    ((addRulesP ConfigP.empty []).bind (fun c => setFilterPy c py)).toOption.isSome = true ∧
    (addChild ConfigP.empty (.mk none none [] [] [] [ConfigP.empty])).toOption.isNone = true ∧
    (excludeP ConfigP.empty (.mk none none [] [] [.mk none none [] [] [] [ConfigP.empty]] [])).toOption.isNone = true ∧
    (excludeP ConfigP.empty (.mk none none [] [] [ConfigP.empty] [])).toOption.isSome = true := by decide

/-- `set_locales(["de"], deep=True)` on a parent without locales whose included configuration names `fr` only:
    afterwards `de` is named and `fr` is not; the excluded configuration keeps its own locales -/
example :
    (allLocalesP (setLocalesDeep (.mk none none [] [] [leafP none] [leafP none]) (some [[102, 114]]))) = [[102, 114], [102, 114]] ∧
    (setLocalesDeep (.mk none none [] [] [] [leafP none]) (some [[102, 114]])).excludes.map (·.locales) = [some [de]] := by
  decide

end ExamplesR4

end C14

/-
C05 — Comparison and linting always produce a report, whatever the content.
The theorems cover the parts of the pipeline that are logic of this code base; the end-to-end
claim over the external decoders/XML/Fluent parsers is decided by the execution oracle.
-/
import CLModel.Props.C01
import CLModel.Checks.Base
import CLModel.Compare.Merge
import CLModel.Proofs.RxSearch
import CLModel.Proofs.C05Pipe
import CLModel.Proofs.C05Report
import CLModel.Proofs.C05Lint
import CLModel.Proofs.C05Props
namespace C05
open P Rx

/-- no regex parser can hang: for every format and every text the walk ends with a finite entry list -/
theorem parse_never_stuck (f : Fmt) (s : Array Nat) : ∃ es, walk f s = .done es := by
  cases f
  · obtain ⟨es, h, _⟩ := C01.walk_lossless_properties s; exact ⟨es, h⟩
  · obtain ⟨es, h, _⟩ := C01.walk_lossless_dtd s; exact ⟨es, h⟩
  · obtain ⟨es, h, _⟩ := C01.walk_lossless_ini s; exact ⟨es, h⟩
  · obtain ⟨es, h, _⟩ := C01.walk_lossless_inc s; exact ⟨es, h⟩
  · obtain ⟨es, h, _⟩ := C01.walk_lossless_po s; exact ⟨es, h⟩

/-- regex search is complete: it finds a match whenever one exists at or after the start -/
theorem search_complete {s : Array Nat} {r : Re} {pos q : Nat} {st : St}
    (hm : matchAt s r q = some st) (hle : pos ≤ q) (hq : q ≤ s.size) :
    ∃ q' st', search s r pos = some (q', st') ∧ q' ≤ q := Rx.search_complete hm hle hq

theorem mochibake_match (all : Array Nat) (i : Nat) :
    (matchAt all Gen.Pat.checks_base_mochibake i).isSome ↔ all[i]? = some 0xFFFD := by
  simp [matchAt, m, Gen.Pat.checks_base_mochibake]

/-- every entity text containing U+FFFD gets at least one "encodings" warning -/
theorem ufffd_warned (all : Array Nat) (h : 0xFFFD ∈ all.toList) :
    ∃ r ∈ Checks.baseCheck all, r.severity = .warning ∧ r.category = "encodings" := by
  obtain ⟨i, hi, hget⟩ := List.getElem_of_mem h
  have hsome : (matchAt all Gen.Pat.checks_base_mochibake i).isSome := by
    rw [mochibake_match]; simp at hi; simp [hi, ← hget]
  obtain ⟨st, hst⟩ := Option.isSome_iff_exists.mp hsome
  have hne := Rx.finditer_nonempty hst (by simp at hi; omega)
  unfold Checks.baseCheck
  cases hf : finditer all Gen.Pat.checks_base_mochibake with
  | nil => exact absurd hf hne
  | cons p ps =>
    exact ⟨{ severity := .warning, pos := p.1, category := "encodings" }, by simp, rfl, rfl⟩

/-- the base check only yields warnings, each positioned at a U+FFFD inside the text -/
theorem encoding_results_wellformed (all : Array Nat) :
    ∀ r ∈ Checks.baseCheck all, r.severity = .warning ∧ r.category = "encodings" ∧ all[r.pos]? = some 0xFFFD := by
  intro r hr
  unfold Checks.baseCheck at hr
  simp only [List.mem_map] at hr
  obtain ⟨p, hp, rfl⟩ := hr
  refine ⟨rfl, rfl, ?_⟩
  obtain ⟨_, hm⟩ := Rx.finditer_sound all _ p hp
  rcases hm with hm | hm
  · exact (mochibake_match all p.1).mp (by simp [hm])
  · simp only [matchAtNE, m, Gen.Pat.checks_base_mochibake] at hm
    split at hm
    · rename_i h; simpa using h
    · cases hm

/-- `ContentComparer.merge` raises (TypeError while sorting) only if some skip has no span … -/
theorem merge_no_type_error (mf : Bool) (caps : Nat) (contents : List Nat) (skips : List Merge.Skip)
    (ms : List (List Nat)) (h : ∀ s ∈ skips, s.span.isSome) :
    Merge.merge mf caps contents skips ms ≠ .typeError := by
  have hall : skips.all (fun s => s.span.isSome) = true := by simpa using h
  have hsort : ∀ (l : List Merge.Skip), l.all (fun s => s.span.isSome) = true → Merge.sortSkips l ≠ none := by
    intro l hl
    unfold Merge.sortSkips
    split <;> simp_all
  unfold Merge.merge
  repeat' split
  all_goals first | simp | (simp_all; done) | skip
  all_goals
    rename_i hnone
    split at hnone
    · cases hnone
    · exact absurd hnone (hsort skips hall)

/-- … and exactly then: two or more skips, one of them span-less (Android entities; finding F5) -/
theorem merge_type_error_iff (contents : List Nat) (skips : List Merge.Skip) (ms : List (List Nat)) :
    Merge.merge true Gen.Tables.CAN_SKIP contents skips ms = .typeError ↔
      (2 ≤ skips.length ∧ ∃ s ∈ skips, s.span = none) := by
  unfold Merge.merge Merge.sortSkips
  match skips with
  | [] => simp [Merge.hasCap, Gen.Tables.CAN_SKIP, Gen.Tables.CAN_COPY, Gen.Tables.CAN_NONE, Gen.Tables.CAN_MERGE]
  | [x] => simp [Merge.hasCap, Gen.Tables.CAN_SKIP, Gen.Tables.CAN_COPY, Gen.Tables.CAN_NONE, Gen.Tables.CAN_MERGE]
  | x :: y :: rest =>
    simp only [Merge.hasCap, Gen.Tables.CAN_SKIP, Gen.Tables.CAN_COPY, Gen.Tables.CAN_NONE, Gen.Tables.CAN_MERGE]
    generalize hl : x :: y :: rest = l
    have hlen : 2 ≤ l.length := by subst hl; simp
    by_cases hall : l.all (fun s => s.span.isSome) = true
    · have hno : ¬ ∃ s ∈ l, s.span = none := by
        rintro ⟨s, hs, hn⟩
        have := List.all_eq_true.mp hall s hs
        simp [hn] at this
      subst hl
      simp only [hall]
      simp
      exact ⟨fun h => hno ⟨x, by simp, h⟩, fun h => hno ⟨y, by simp, h⟩, fun z hz h => hno ⟨z, by simp [hz], h⟩⟩
    · have hex : ∃ s ∈ l, s.span = none := by
        have : ∃ s ∈ l, ¬ (s.span.isSome = true) := by
          simpa [List.all_eq_true] using hall
        obtain ⟨s, hs, hn⟩ := this
        exact ⟨s, hs, by simpa using hn⟩
      subst hl
      simp only [hall]
      simp
      obtain ⟨s, hs, hn⟩ := hex
      simp only [List.mem_cons] at hs
      rcases hs with rfl | rfl | hs
      · exact Or.inl hn
      · exact Or.inr (Or.inl hn)
      · exact Or.inr (Or.inr ⟨s, hs, hn⟩)

example : ∃ r ∈ Checks.baseCheck #[97, 0xFFFD, 98], r.pos = 1 := by decide

/-! ## The composed pipeline (CLModel/Compare/Pipeline.lean)

`Pipe.compareTexts fmt refText l10nText mergeOn : Except PyErr Report` is `ContentComparer.compare` (one unfiltered
`Observer`, file `a.<ext>`, locale "de", fresh process) followed by `observers.toJSON()`; `Pipe.compareFiles` is the same
for any `File` and any list of fresh observers with filters; `Pipe.lintText` is `L10nLinter.lint_file`.  They compose
the component models: `P.walk` (C01), `Hist.assign` (C18), `P.entView` (C02), `AR.addRemove`/`keyedIndex` (C20), the
loop of C03 extended by the checker call, `Checks.baseCheck` (C05) / `PropCk.check` (C06), `Pos.resolveCheckPos`
(C17), `ObsM`/`TreeM` (C10), `Merge.merge` (C04), `Lint.lintFile` (C19).

Covered: ini, inc, po (base `Checker`) and properties (`PropertiesChecker`).  Not covered: dtd (expat is external),
ftl, android (no regex parser): for those the claim is decided by the execution oracle.

FULL STATEMENT (C05): `∀ fmt refText l10nText mergeOn, ∃ r, compareTexts fmt refText l10nText mergeOn = .ok r`.
It is FALSE for the code as it is: when the key of a localized entity equals the key `_junk_<n>_<a>-<b>` of a `Junk`
of the reference, `refent.equals(l10nent)` raises AttributeError (`Junk` has no `equals`) — `junk_key_clash_raises`
below is the model's witness, the harness shows it on the real code (finding F8-junk-key-clash-raise).  The theorems
on the comparison therefore carry the hypothesis `Pipe.NoJunkClashT` and are named `_partial`; besides that hypothesis
they are restricted to the covered formats.  `Pipe.noClashTB` is a decidable sufficient condition. -/

/-- the formats whose whole pipeline is modelled -/
def CoveredFmt (f : P.Fmt) : Prop := f = .ini ∨ f = .inc ∨ f = .po ∨ f = .properties

theorem covered_checker {f : P.Fmt} (h : CoveredFmt f) : ∃ ck, Pipe.checkerOf f = some ck := by
  rcases h with rfl | rfl | rfl | rfl <;> exact ⟨_, rfl⟩

theorem stdFile_modelled (fmt : P.Fmt) : ObsM.Modelled (Pipe.stdFile fmt) := by
  intro m hmod; simp [Pipe.stdFile] at hmod

/-- **compare never raises** (all texts, no bound; any file the observers can address, any list of fresh observers
    with arbitrary filters and quiet level; with or without merge staging).  From: `parse_never_stuck` (C01), the
    value lemmas of C02 (`props_unescape_is_spec`, `po_unescape_is_spec`), the lookup lemmas of C03/C20, observer
    totality `list_run_ok` (C10), `linecol` totality (C17), the C06 verdict theorems (properties checker),
    `merge_no_type_error` (C05: regex-format entries always have spans). -/
theorem compare_never_raises_partial (fmt : P.Fmt) (hf : CoveredFmt fmt) (file : ObsM.File) (hm : ObsM.Modelled file)
    (q : Nat) (flts : List (Option ObsM.Filter)) (refText l10nText : Array Nat) (mergeOn : Bool)
    (hnc : Pipe.NoJunkClashT fmt refText l10nText) :
    ∃ r, Pipe.compareFiles fmt file (ObsM.ObsList.init q (flts.map (ObsM.Obs.init q))) refText l10nText mergeOn = .ok r := by
  obtain ⟨ck, hck⟩ := covered_checker hf
  obtain ⟨_, _, _, _, obs', outcome, _, _, _, _, _, _, h, _⟩ :=
    Pipe.compareFiles_spec fmt ck hck file hm (Pipe.fresh_init q flts) refText l10nText mergeOn
      (parse_never_stuck fmt) merge_no_type_error
      (fun ref l10n hwr hwl => Pipe.checkerOK_covered fmt ck hck _ rfl ref l10n hwr hwl) hnc
  exact ⟨_, h⟩

/-- the same for the harness configuration `compareTexts` -/
theorem compareTexts_never_raises_partial (fmt : P.Fmt) (hf : CoveredFmt fmt) (refText l10nText : Array Nat) (mergeOn : Bool)
    (hnc : Pipe.NoJunkClashT fmt refText l10nText) :
    ∃ r, Pipe.compareTexts fmt refText l10nText mergeOn = .ok r :=
  compare_never_raises_partial fmt hf _ (stdFile_modelled fmt) 0 [none] refText l10nText mergeOn hnc

/-- a well-formed item of `toJSON()["details"]`: an error or a warning whose value is a `str` of one of the four
    message shapes (all positions are `%d`-formatted integers), or a missing/obsolete entity whose value is the key -/
def DetailWF (d : ObsM.Detail) : Prop :=
  ((d.1 = .error ∨ d.1 = .warning) ∧ ∃ t, d.2 = .data (.str t) ∧ Pipe.MsgShape t) ∨
  ((d.1 = .missingEntity ∨ d.1 = .obsoleteEntity) ∧ ∃ k, d.2 = .data (Pipe.keyData k))

/-- **the report is well formed**: whatever the filters and the quiet level, every detail item is an error or a
    warning with a text message — `"<key> occurs <n> times"`, `"Parser error in en-US"`, `Junk.error_message()` with
    four integers, or `"<msg> at line <int>, column <int> for <key>"` — or a missing/obsolete key.
    (That the summary values are natural numbers holds by the type of `Report.summary`.) -/
theorem report_wellformed_partial (fmt : P.Fmt) (hf : CoveredFmt fmt) (file : ObsM.File) (hm : ObsM.Modelled file)
    (q : Nat) (flts : List (Option ObsM.Filter)) (refText l10nText : Array Nat) (mergeOn : Bool)
    (hnc : Pipe.NoJunkClashT fmt refText l10nText) (r : Pipe.Report)
    (hr : Pipe.compareFiles fmt file (ObsM.ObsList.init q (flts.map (ObsM.Obs.init q))) refText l10nText mergeOn = .ok r) :
    ∀ leaf ∈ r.details, ∀ d ∈ leaf.2, DetailWF d := by
  obtain ⟨ck, hck⟩ := covered_checker hf
  obtain ⟨_, _, _, _, obs', outcome, evs, stats, _, _, _, _, h, hreach, hwf, _⟩ :=
    Pipe.compareFiles_spec fmt ck hck file hm (Pipe.fresh_init q flts) refText l10nText mergeOn
      (parse_never_stuck fmt) merge_no_type_error
      (fun ref l10n hwr hwl => Pipe.checkerOK_covered fmt ck hck _ rfl ref l10n hwr hwl) hnc
  rw [h] at hr
  cases hr
  intro leaf hleaf d hd
  obtain ⟨cat, f, data, rv, hev, rfl⟩ := Pipe.report_details_from_history q flts file hm _ obs' hreach outcome leaf hleaf d hd
  simp only [List.mem_append, List.mem_singleton] at hev
  rcases hev with hev | hev
  · have := hwf _ hev
    simp only [Pipe.EvWF] at this
    rcases this with ⟨hc, t, rfl, hs⟩ | ⟨hc, k, rfl⟩
    · have hnf : cat.isFile = false := by rcases hc with rfl | rfl <;> rfl
      exact Or.inl ⟨by simpa [ObsM.detailOf, hnf] using hc, t, by simp [ObsM.detailOf, hnf], hs⟩
    · have hnf : cat.isFile = false := by rcases hc with rfl | rfl <;> rfl
      exact Or.inr ⟨by simpa [ObsM.detailOf, hnf] using hc, k, by simp [ObsM.detailOf, hnf]⟩
  · cases hev

/-- **U+FFFD is always warned, end to end**: for every key shared by the two files whose LAST localized entry's text
    (`.all`) contains U+FFFD, `toJSON()["details"]` of the finished comparison has the warning
    `"� in: <key> at line <l>, column <c> for <key>"` — the "encodings" result of the base check, which
    `PropertiesChecker.check` yields first.  Uses `ufffd_warned`. -/
theorem ufffd_warned_end_to_end_partial (fmt : P.Fmt) (hf : CoveredFmt fmt) (refText l10nText : Array Nat) (mergeOn : Bool)
    (hnc : Pipe.NoJunkClashT fmt refText l10nText) :
    ∃ r ref n1 l10n n2, Pipe.compareTexts fmt refText l10nText mergeOn = .ok r ∧
      Pipe.parseFile fmt refText 0 = .ok (ref, n1) ∧ Pipe.parseFile fmt l10nText n1 = .ok (l10n, n2) ∧
      ∀ k refent l10nent, Pipe.lookup ref k = .ok refent → Pipe.lookup l10n k = .ok l10nent → 0xFFFD ∈ l10nent.all →
        ∃ leaf ∈ r.details, ∃ line col : Int,
          (ObsM.Cat.warning, ObsM.DVal.data (.str (Pipe.checkMsg (Pipe.encPrefix ++ Pipe.keyText l10nent.key) line col refent.key)))
            ∈ leaf.2 := by
  have hm := stdFile_modelled fmt
  obtain ⟨ck, hck⟩ := covered_checker hf
  obtain ⟨ref, n1, l10n, n2, obs', outcome, evs, stats, hp1, hp2, hw1, hw2, h, hreach, _, hall⟩ :=
    Pipe.compareFiles_spec fmt ck hck (Pipe.stdFile fmt) hm (Pipe.fresh_init 0 [none]) refText l10nText mergeOn
      (parse_never_stuck fmt) merge_no_type_error
      (fun ref l10n hwr hwl => Pipe.checkerOK_covered fmt ck hck _ rfl ref l10n hwr hwl) hnc
  refine ⟨_, ref, n1, l10n, n2, h, hp1, hp2, ?_⟩
  intro k refent l10nent hlr hll hff
  obtain ⟨hrm, _, hkr⟩ := Pipe.lookup_ok hlr
  obtain ⟨hlm, _, hkl⟩ := Pipe.lookup_ok hll
  -- the diff has the item (equal, k)
  have hkmem : k ∈ (AR.addRemove (ref.map (·.key)) (l10n.map (·.key))).map (·.2) :=
    (AR.addRemove_keys_mem_gen _ _ k).2 (Or.inl hkr)
  obtain ⟨p, hp, hpk⟩ := List.mem_map.1 hkmem
  have hlab := AR.addRemove_labels_gen _ _ p hp
  have hc1 : (ref.map (·.key)).contains k = true := by simpa using hkr
  have hc2 : (l10n.map (·.key)).contains k = true := by simpa using hkl
  rw [hpk] at hlab
  simp only [AR.lab, hc1, hc2, if_true] at hlab
  obtain ⟨evp, hse, hsub⟩ := hall p hp
  obtain ⟨refent', l10nent', rs, hlr', hll', hrs, hevp⟩ := hse hlab
  rw [hpk] at hlr' hll'
  rw [hlr] at hlr'; cases hlr'
  rw [hll] at hll'; cases hll'
  -- the results of the checker contain those of the base check
  obtain ⟨hrj, hlj⟩ := hnc ref n1 l10n n2 ck hp1 hp2 hck k hkr hkl
  have hbase := Pipe.base_in_results fmt ck hck _ refent l10nent (hw1 _ hrm) (hw2 _ hlm) (hrj _ hlr)
    (fun hp => hlj hp _ hll) rs hrs
  -- the base check yields an "encodings" warning
  obtain ⟨br, hbr, hsev, _⟩ := ufffd_warned l10nent.all.toArray (by simpa using hff)
  obtain ⟨lc, hlc⟩ := Pipe.position_total l10nText l10nent.entry (br.pos : Int)
  have hev : ObsM.Ev.notify .warning (Pipe.stdFile fmt)
      (.str (Pipe.checkMsg (Pipe.encPrefix ++ Pipe.keyText l10nent.key) lc.1 lc.2 refent.key)) ∈ evp := by
    rw [hevp]
    simp only [List.mem_filterMap]
    refine ⟨{ sev := br.severity, pos := .entityPos (br.pos : Int), msg := Pipe.encPrefix ++ Pipe.keyText l10nent.key, cat := Pipe.encCat }, ?_, ?_⟩
    · apply hbase
      simp only [Pipe.runBase, List.mem_map]
      exact ⟨br, hbr, rfl⟩
    · simp only [Pipe.checkEv, Pipe.envOf, Pos.resolveCheckPos, hlc, Option.map_some, hsev, Pipe.sevCat]
  obtain ⟨leaf, hleaf, hd⟩ := Pipe.report_has_detail (Pipe.stdFile fmt) hm _ obs' hreach outcome .warning _
    (List.mem_append_left _ (hsub _ hev)) (Or.inr (Or.inl rfl))
  exact ⟨leaf, hleaf, lc.1, lc.2, hd⟩

/-- **lint never raises** (all texts of the covered formats, with or without a reference file): no hypothesis on junk
    keys is needed, the linter compares an Entity with whatever the reference has under its key (`Entity.equals` only
    reads `key` and `val`, which a `Junk` has too). -/
theorem lint_never_raises (fmt : P.Fmt) (hf : CoveredFmt fmt) (refText : Option (Array Nat)) (curText : Array Nat) :
    ∃ rs, Pipe.lintText fmt refText curText = .ok rs := by
  obtain ⟨ck, hck⟩ := covered_checker hf
  exact Pipe.lintText_ok fmt ck hck refText curText (parse_never_stuck fmt)
    (fun e hw hj => Pipe.lint_checker_covered fmt ck hck e hw hj)

/-! ### the tie of `compareTexts` to file names: the generated tables select this parser and this checker -/

/-- `getParser("a.<ext>")` is the parser class of the format (first match in the generated constructor table) -/
theorem fileName_parser :
    Lint.getParserName (Pipe.fileName .ini) = some [73, 110, 105, 80, 97, 114, 115, 101, 114] ∧
    Lint.getParserName (Pipe.fileName .inc) = some [68, 101, 102, 105, 110, 101, 115, 80, 97, 114, 115, 101, 114] ∧
    Lint.getParserName (Pipe.fileName .po) = some [80, 111, 80, 97, 114, 115, 101, 114] ∧
    Lint.getParserName (Pipe.fileName .properties) =
      some [80, 114, 111, 112, 101, 114, 116, 105, 101, 115, 80, 97, 114, 115, 101, 114] := by
  refine ⟨?_, ?_, ?_, ?_⟩ <;> decide +kernel

/-- `getChecker`: `PropertiesChecker.pattern` matches `a.properties` only; none of the four special checkers' patterns
    matches `a.ini`, `a.inc`, `a.po` (so `getChecker` falls through to the base `Checker`) -/
theorem fileName_checker :
    (Rx.matchAt (Pipe.fileName .properties).toArray Gen.Pat.PropertiesChecker_pattern 0).isSome = true ∧
    ∀ f, f = P.Fmt.ini ∨ f = P.Fmt.inc ∨ f = P.Fmt.po →
      (Rx.matchAt (Pipe.fileName f).toArray Gen.Pat.PropertiesChecker_pattern 0).isSome = false ∧
      (Rx.matchAt (Pipe.fileName f).toArray Gen.Pat.DTDChecker_pattern 0).isSome = false ∧
      (Rx.matchAt (Pipe.fileName f).toArray Gen.Pat.FluentChecker_pattern 0).isSome = false ∧
      (Rx.matchAt (Pipe.fileName f).toArray Gen.Pat.AndroidChecker_pattern 0).isSome = false := by
  refine ⟨by decide +kernel, ?_⟩
  intro f hf
  rcases hf with rfl | rfl | rfl <;> (refine ⟨?_, ?_, ?_, ?_⟩ <;> decide +kernel)

/-! ### non-vacuity and negation witnesses

`List.mergeSort` (inside `AR.addRemove`) is defined by well-founded recursion, which `decide` cannot unfold for more
than one key; examples with several keys are therefore obtained by INSTANTIATING the theorems on a concrete pair of
texts whose hypothesis `noClashTB` is decided, and the single-key examples are evaluated outright. -/

/-- "a=1\nb=2\n" -/
def exRef : Array Nat := #[97, 61, 49, 10, 98, 61, 50, 10]
/-- "a=�\n??\nc=3\n": `a` shared and containing U+FFFD, junk `??\n`, `c` obsolete, `b` missing -/
def exL10n : Array Nat := #[97, 61, 65533, 10, 63, 63, 10, 99, 61, 51, 10]

/-- the hypothesis holds on a text pair with junk + missing + obsolete + U+FFFD … -/
theorem ex_noClash : Pipe.NoJunkClashT .ini exRef exL10n :=
  Pipe.noClashTB_sound _ _ _ (by decide +kernel)

/-- … so the comparison of that pair returns a report, with and without merge staging, -/
example : ∀ m, ∃ r, Pipe.compareTexts .ini exRef exL10n m = .ok r :=
  fun m => compareTexts_never_raises_partial .ini (Or.inl rfl) _ _ m ex_noClash

def okWith {α : Type} (p : α → Bool) : Except Pipe.PyErr α → Bool
  | .ok a => p a
  | .error _ => false

/-- … the localized file parses to the entity `a` (with U+FFFD), one Junk and the entity `c`, and `a` is the last
    entry of its key (the premise of `ufffd_warned_end_to_end_partial` is satisfiable) -/
example : okWith (fun p => p.1.map (fun e => (e.junk, e.all.contains 0xFFFD)) == [(false, true), (true, false), (false, false)]
    && (match Pipe.lookup p.1 (.str [97]) with | .ok e => e.all.contains 0xFFFD | .error _ => false))
    (Pipe.parseFile .ini exL10n 0) = true := by decide +kernel

/-- single shared key, evaluated outright: "a=1\n" against "a=�\n" gives exactly one detail, the encoding warning
    `"� in: a at line 1, column 3 for a"`, and the counters errors 0, warnings 1, changed 1 (1 word) -/
example : okWith (fun r => r.details.map (·.2) == [[(.warning, .data (.str
      [65533, 32, 105, 110, 58, 32, 97, 32, 97, 116, 32, 108, 105, 110, 101, 32, 49, 44, 32, 99, 111, 108, 117, 109, 110, 32, 51, 32, 102, 111, 114, 32, 97]))]]
    && r.summary.map (fun p => p.2.map (·.2)) == [[0, 1, 0, 0, 0, 0, 1, 1, 0, 0, 0]] && r.merge == .copyL10n)
    (Pipe.compareTexts .ini #[97, 61, 49, 10] #[97, 61, 65533, 10] true) = true := by decide +kernel

/-- properties, evaluated outright: "a=%S\n" against "a=%d\n" with merge staging: one printf error, the entity is skipped
    and the reference entity appended (written file "\n\na=%S\n" after cutting "a=%d") -/
example : okWith (fun r => r.details.map (fun l => l.2.map (·.1)) == [[.error]]
    && (match r.merge with | .written _ => true | _ => false))
    (Pipe.compareTexts .properties #[97, 61, 37, 83, 10] #[97, 61, 37, 100, 10] true) = true := by decide +kernel

/-- lint of the junk/obsolete/U+FFFD text against the reference: three results (changed `a`… ) never an exception -/
example : okWith (fun rs => rs.length == 3) (Pipe.lintText .ini (some exRef) exL10n) = true := by decide +kernel

deriving instance DecidableEq for Except

/-- **negation witness for `NoJunkClashT`**: reference "abc" (one Junk, key `_junk_1_0-3`) against the localization
    "_junk_1_0-3=x": the model raises AttributeError (`Junk` has no `equals`), as the real code does. -/
theorem junk_key_clash_raises :
    Pipe.compareTexts .ini #[97, 98, 99] #[95, 106, 117, 110, 107, 95, 49, 95, 48, 45, 51, 61, 120] false
      = .error .attributeError := by decide +kernel

/-- … and the decidable condition rejects that pair -/
example : Pipe.noClashTB .ini #[97, 98, 99] #[95, 106, 117, 110, 107, 95, 49, 95, 48, 45, 51, 61, 120] = false := by
  decide +kernel

/-- the linter does not raise on that pair -/
example : okWith (fun _ => true)
    (Pipe.lintText .ini (some #[97, 98, 99]) #[95, 106, 117, 110, 107, 95, 49, 95, 48, 45, 51, 61, 120]) = true := by
  decide +kernel

end C05

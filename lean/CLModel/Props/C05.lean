/-
C05 — Comparison and linting always produce a report, whatever the content.
The theorems cover the parts of the pipeline that are logic of this code base; the end-to-end
claim over the external decoders/XML/Fluent parsers is decided by the execution oracle.
-/
import CLModel.Props.C01
import CLModel.Checks.Base
import CLModel.Compare.Merge
import CLModel.Proofs.RxSearch
import CLModel.Proofs.C05Pipe
import CLModel.Proofs.C05Report
import CLModel.Proofs.C05Lint
import CLModel.Proofs.C05Props
import CLModel.Proofs.C05DtdPipe
import CLModel.Proofs.C05Clash
import CLModel.Proofs.C05Decode
import CLModel.Proofs.C05Ext
import CLModel.Proofs.C05Sess
namespace C05
open P Rx

/-- no regex parser can hang: for every format and every text the walk ends with a finite entry list -/
theorem parse_never_stuck (f : Fmt) (s : Array Nat) : ∃ es, walk f s = .done es := by
  cases f
  · obtain ⟨es, h, _⟩ := C01.walk_lossless_properties s; exact ⟨es, h⟩
  · obtain ⟨es, h, _⟩ := C01.walk_lossless_dtd s; exact ⟨es, h⟩
  · obtain ⟨es, h, _⟩ := C01.walk_lossless_ini s; exact ⟨es, h⟩
  · obtain ⟨es, h, _⟩ := C01.walk_lossless_inc s; exact ⟨es, h⟩
  · obtain ⟨es, h, _⟩ := C01.walk_lossless_po s; exact ⟨es, h⟩

/-- regex search is complete: it finds a match whenever one exists at or after the start -/
theorem search_complete {s : Array Nat} {r : Re} {pos q : Nat} {st : St}
    (hm : matchAt s r q = some st) (hle : pos ≤ q) (hq : q ≤ s.size) :
    ∃ q' st', search s r pos = some (q', st') ∧ q' ≤ q := Rx.search_complete hm hle hq

theorem mochibake_match (all : Array Nat) (i : Nat) :
    (matchAt all Gen.Pat.checks_base_mochibake i).isSome ↔ all[i]? = some 0xFFFD := by
  simp [matchAt, m, Gen.Pat.checks_base_mochibake]

/-- every entity text containing U+FFFD gets at least one "encodings" warning -/
theorem ufffd_warned (all : Array Nat) (h : 0xFFFD ∈ all.toList) :
    ∃ r ∈ Checks.baseCheck all, r.severity = .warning ∧ r.category = "encodings" := by
  obtain ⟨i, hi, hget⟩ := List.getElem_of_mem h
  have hsome : (matchAt all Gen.Pat.checks_base_mochibake i).isSome := by
    rw [mochibake_match]; simp at hi; simp [hi, ← hget]
  obtain ⟨st, hst⟩ := Option.isSome_iff_exists.mp hsome
  have hne := Rx.finditer_nonempty hst (by simp at hi; omega)
  unfold Checks.baseCheck
  cases hf : finditer all Gen.Pat.checks_base_mochibake with
  | nil => exact absurd hf hne
  | cons p ps =>
    exact ⟨{ severity := .warning, pos := p.1, category := "encodings" }, by simp, rfl, rfl⟩

/-- the base check only yields warnings, each positioned at a U+FFFD inside the text -/
theorem encoding_results_wellformed (all : Array Nat) :
    ∀ r ∈ Checks.baseCheck all, r.severity = .warning ∧ r.category = "encodings" ∧ all[r.pos]? = some 0xFFFD := by
  intro r hr
  unfold Checks.baseCheck at hr
  simp only [List.mem_map] at hr
  obtain ⟨p, hp, rfl⟩ := hr
  refine ⟨rfl, rfl, ?_⟩
  obtain ⟨_, hm⟩ := Rx.finditer_sound all _ p hp
  rcases hm with hm | hm
  · exact (mochibake_match all p.1).mp (by simp [hm])
  · simp only [matchAtNE, m, Gen.Pat.checks_base_mochibake] at hm
    split at hm
    · rename_i h; simpa using h
    · cases hm

/-- `ContentComparer.merge` raises (TypeError while sorting) only if some skip has no span … -/
theorem merge_no_type_error (mf : Bool) (caps : Nat) (contents : List Nat) (skips : List Merge.Skip)
    (ms : List (List Nat)) (h : ∀ s ∈ skips, s.span.isSome) :
    Merge.merge mf caps contents skips ms ≠ .typeError := by
  have hall : skips.all (fun s => s.span.isSome) = true := by simpa using h
  have hsort : ∀ (l : List Merge.Skip), l.all (fun s => s.span.isSome) = true → Merge.sortSkips l ≠ none := by
    intro l hl
    unfold Merge.sortSkips
    split <;> simp_all
  unfold Merge.merge
  repeat' split
  all_goals first | simp | (simp_all; done) | skip
  all_goals
    rename_i hnone
    split at hnone
    · cases hnone
    · exact absurd hnone (hsort skips hall)

/-- … and exactly then: two or more skips, one of them span-less (Android entities; finding F5) -/
theorem merge_type_error_iff (contents : List Nat) (skips : List Merge.Skip) (ms : List (List Nat)) :
    Merge.merge true Gen.Tables.CAN_SKIP contents skips ms = .typeError ↔
      (2 ≤ skips.length ∧ ∃ s ∈ skips, s.span = none) := by
  unfold Merge.merge Merge.sortSkips
  match skips with
  | [] => simp [Merge.hasCap, Gen.Tables.CAN_SKIP, Gen.Tables.CAN_COPY, Gen.Tables.CAN_NONE, Gen.Tables.CAN_MERGE]
  | [x] => simp [Merge.hasCap, Gen.Tables.CAN_SKIP, Gen.Tables.CAN_COPY, Gen.Tables.CAN_NONE, Gen.Tables.CAN_MERGE]
  | x :: y :: rest =>
    simp only [Merge.hasCap, Gen.Tables.CAN_SKIP, Gen.Tables.CAN_COPY, Gen.Tables.CAN_NONE, Gen.Tables.CAN_MERGE]
    generalize hl : x :: y :: rest = l
    have hlen : 2 ≤ l.length := by subst hl; simp
    by_cases hall : l.all (fun s => s.span.isSome) = true
    · have hno : ¬ ∃ s ∈ l, s.span = none := by
        rintro ⟨s, hs, hn⟩
        have := List.all_eq_true.mp hall s hs
        simp [hn] at this
      subst hl
      simp only [hall]
      simp
      exact ⟨fun h => hno ⟨x, by simp, h⟩, fun h => hno ⟨y, by simp, h⟩, fun z hz h => hno ⟨z, by simp [hz], h⟩⟩
    · have hex : ∃ s ∈ l, s.span = none := by
        have : ∃ s ∈ l, ¬ (s.span.isSome = true) := by
          simpa [List.all_eq_true] using hall
        obtain ⟨s, hs, hn⟩ := this
        exact ⟨s, hs, by simpa using hn⟩
      subst hl
      simp only [hall]
      simp
      obtain ⟨s, hs, hn⟩ := hex
      simp only [List.mem_cons] at hs
      rcases hs with rfl | rfl | hs
      · exact Or.inl hn
      · exact Or.inr (Or.inl hn)
      · exact Or.inr (Or.inr ⟨s, hs, hn⟩)

example : ∃ r ∈ Checks.baseCheck #[97, 0xFFFD, 98], r.pos = 1 := by decide

/-! ## The composed pipeline (CLModel/Compare/Pipeline.lean)

`Pipe.compareTexts ext fmt refText l10nText mergeOn : Except PyErr Report` is `ContentComparer.compare` (one unfiltered
`Observer`, file `a.<ext>`, locale "de", fresh process) followed by `observers.toJSON()`; `Pipe.compareFiles` is the same
for any `File` and any list of fresh observers with filters; `Pipe.lintText` is `L10nLinter.lint_file`.  They compose
the component models: `P.walk` (C01), `Hist.assign` (C18), `P.entView` (C02), `AR.addRemove`/`keyedIndex` (C20), the
loop of C03 extended by the checker call, `Checks.baseCheck` (C05) / `PropCk.check` (C06) / `Dtd.check` (C07),
`Pos.resolveCheckPos` (C17), `ObsM`/`TreeM` (C10), `Merge.merge` (C04), `Lint.lintFile` (C19).

Covered from the TEXT on: ini, inc, po (base `Checker`), properties (`PropertiesChecker`) and dtd (`DTDChecker`).
`ext : Pipe.Ext` holds the external library functions as PARAMETERS: expat's verdict per synthetic document and
`html.unescape`; every theorem below holds for EVERY `ext` — no contract on expat's line / column / message is needed:
the position arithmetic of the checker (`Dtd.errorPos`, with upstream fix f80b06f) and `DTDEntity.value_position` are
total on all integers.  Fluent and Android are covered from the external parser's output on (section below).

FULL STATEMENT (C05): `∀ ext fmt refText l10nText mergeOn, ∃ r, compareTexts ext fmt refText l10nText mergeOn = .ok r`.
It is FALSE for the code as it is: when the key of a localized entity equals the key `_junk_<n>_<a>-<b>` of a `Junk`
of the reference, `refent.equals(l10nent)` raises AttributeError (`Junk` has no `equals`) — `junk_key_clash_raises`
below is the model's witness, the harness shows it on the real code (finding F8-junk-key-clash-raise).  The theorems
on the comparison therefore carry the hypothesis `Pipe.NoJunkClashT` and are named `_partial`.  For dtd the texts must
hold Unicode scalar values (`TextOK`): `str.encode("utf-8")` raises on a lone surrogate (`surrogate_raises`); texts read
by `Parser.readFile` always satisfy this (`C05.decode_scalar`). -/

/-- what the theorems need of a text: nothing, except for `.dtd` where the checker encodes pieces of it as UTF-8 -/
def TextOK (fmt : P.Fmt) (t : Array Nat) : Prop := fmt = .dtd → C05Dtd.ScalarText t.toList

theorem stdFile_modelled (fmt : P.Fmt) : ObsM.Modelled (Pipe.stdFile fmt) := by
  intro m hmod; simp [Pipe.stdFile] at hmod

/-- the checker of every format answers for every pair of Entities the comparison hands to it -/
theorem checkerOK_fmt (ext : Pipe.Ext) (fmt : P.Fmt) (file : ObsM.File) (mergeOn : Bool) (refText l10nText : Array Nat)
    (hs1 : TextOK fmt refText) (hs2 : TextOK fmt l10nText) :
    ∀ ref n1 l10n n2, Pipe.parseFile ext fmt refText 0 = .ok (ref, n1) → Pipe.parseFile ext fmt l10nText n1 = .ok (l10n, n2) →
      (∀ e ∈ ref, Pipe.PWf fmt e) → (∀ e ∈ l10n, Pipe.PWf fmt e) →
      Pipe.CheckerOK (Pipe.envOf ext fmt file mergeOn ref l10nText) ref l10n := by
  intro ref n1 l10n n2 hp1 hp2 hw1 hw2
  by_cases hd : fmt = .dtd
  · subst hd
    have hsr := C05Dtd.parseFile_scalar ext refText (hs1 rfl) 0 ref n1 hp1
    have hsl := C05Dtd.parseFile_scalar ext l10nText (hs2 rfl) n1 l10n n2 hp2
    exact C05Dtd.checkerOK_dtd _ rfl rfl ref l10n hw1 hw2 (C05Dtd.refVals_scalar ref hsr) hsr hsl
  · exact Pipe.checkerOK_internal fmt hd _ rfl rfl ref l10n hw1 hw2

/-- **compare never raises** (all texts, no bound; any file the observers can address, any list of fresh observers
    with arbitrary filters and quiet level; with or without merge staging; for dtd: EVERY expat verdict function and
    every `html.unescape`).  From: `parse_never_stuck` (C01), the value lemmas of C02 (`props_unescape_is_spec`,
    `po_unescape_is_spec`), the lookup lemmas of C03/C20, observer totality `list_run_ok` (C10), `linecol` totality
    (C17), the C06 verdict theorems (properties checker), `Dtd.errorPos_isSome` (C07: the `lines[lnr-1]` IndexError is
    gone) and `C05Dtd.check_no_exc`, `merge_no_type_error` (C05: regex-format entries always have spans). -/
theorem compare_never_raises_partial (ext : Pipe.Ext) (fmt : P.Fmt) (file : ObsM.File) (hm : ObsM.Modelled file)
    (q : Nat) (flts : List (Option ObsM.Filter)) (refText l10nText : Array Nat) (mergeOn : Bool)
    (hs1 : TextOK fmt refText) (hs2 : TextOK fmt l10nText)
    (hnc : Pipe.NoJunkClashT ext fmt refText l10nText) :
    ∃ r, Pipe.compareFiles ext fmt file (ObsM.ObsList.init q (flts.map (ObsM.Obs.init q))) refText l10nText mergeOn = .ok r := by
  obtain ⟨_, _, _, _, obs', outcome, _, _, _, _, _, _, h, _⟩ :=
    Pipe.compareFiles_spec ext fmt file hm (Pipe.fresh_init q flts) refText l10nText mergeOn
      (parse_never_stuck fmt) merge_no_type_error (checkerOK_fmt ext fmt file mergeOn refText l10nText hs1 hs2) hnc
  exact ⟨_, h⟩

/-- the same for the harness configuration `compareTexts` -/
theorem compareTexts_never_raises_partial (ext : Pipe.Ext) (fmt : P.Fmt) (refText l10nText : Array Nat) (mergeOn : Bool)
    (hs1 : TextOK fmt refText) (hs2 : TextOK fmt l10nText)
    (hnc : Pipe.NoJunkClashT ext fmt refText l10nText) :
    ∃ r, Pipe.compareTexts ext fmt refText l10nText mergeOn = .ok r :=
  compare_never_raises_partial ext fmt _ (stdFile_modelled fmt) 0 [none] refText l10nText mergeOn hs1 hs2 hnc

/-- a well-formed item of `toJSON()["details"]`: an error or a warning whose value is a `str` of one of the four
    message shapes (all positions are `%d`-formatted integers), or a missing/obsolete entity whose value is the key -/
def DetailWF (d : ObsM.Detail) : Prop :=
  ((d.1 = .error ∨ d.1 = .warning) ∧ ∃ t, d.2 = .data (.str t) ∧ Pipe.MsgShape t) ∨
  ((d.1 = .missingEntity ∨ d.1 = .obsoleteEntity) ∧ ∃ k, d.2 = .data (Pipe.keyData k))

/-- **the report is well formed**: whatever the filters and the quiet level, every detail item is an error or a
    warning with a text message — `"<key> occurs <n> times"`, `"Parser error in en-US"`, `Junk.error_message()` with
    four integers, or `"<msg> at line <int>, column <int> for <key>"` — or a missing/obsolete key.
    (That the summary values are natural numbers holds by the type of `Report.summary`.) -/
theorem report_wellformed_partial (ext : Pipe.Ext) (fmt : P.Fmt) (file : ObsM.File) (hm : ObsM.Modelled file)
    (q : Nat) (flts : List (Option ObsM.Filter)) (refText l10nText : Array Nat) (mergeOn : Bool)
    (hs1 : TextOK fmt refText) (hs2 : TextOK fmt l10nText)
    (hnc : Pipe.NoJunkClashT ext fmt refText l10nText) (r : Pipe.Report)
    (hr : Pipe.compareFiles ext fmt file (ObsM.ObsList.init q (flts.map (ObsM.Obs.init q))) refText l10nText mergeOn = .ok r) :
    ∀ leaf ∈ r.details, ∀ d ∈ leaf.2, DetailWF d := by
  obtain ⟨_, _, _, _, obs', outcome, evs, stats, _, _, _, _, h, hreach, hwf, _⟩ :=
    Pipe.compareFiles_spec ext fmt file hm (Pipe.fresh_init q flts) refText l10nText mergeOn
      (parse_never_stuck fmt) merge_no_type_error (checkerOK_fmt ext fmt file mergeOn refText l10nText hs1 hs2) hnc
  rw [h] at hr
  cases hr
  intro leaf hleaf d hd
  obtain ⟨cat, f, data, rv, hev, rfl⟩ := Pipe.report_details_from_history q flts file hm _ obs' hreach outcome leaf hleaf d hd
  simp only [List.mem_append, List.mem_singleton] at hev
  rcases hev with hev | hev
  · have := hwf _ hev
    simp only [Pipe.EvWF] at this
    rcases this with ⟨hc, t, rfl, hs⟩ | ⟨hc, k, rfl⟩
    · have hnf : cat.isFile = false := by rcases hc with rfl | rfl <;> rfl
      exact Or.inl ⟨by simpa [ObsM.detailOf, hnf] using hc, t, by simp [ObsM.detailOf, hnf], hs⟩
    · have hnf : cat.isFile = false := by rcases hc with rfl | rfl <;> rfl
      exact Or.inr ⟨by simpa [ObsM.detailOf, hnf] using hc, k, by simp [ObsM.detailOf, hnf]⟩
  · cases hev

/-- whatever the checker of a format yields for two Entities contains the results of the base check -/
theorem base_in_results_fmt (ext : Pipe.Ext) (fmt : P.Fmt) (file : ObsM.File) (mergeOn : Bool) (refText l10nText : Array Nat)
    (hs1 : TextOK fmt refText) (hs2 : TextOK fmt l10nText)
    (ref : List Pipe.PEnt) (n1 : Nat) (l10n : List Pipe.PEnt) (n2 : Nat)
    (hp1 : Pipe.parseFile ext fmt refText 0 = .ok (ref, n1)) (hp2 : Pipe.parseFile ext fmt l10nText n1 = .ok (l10n, n2))
    (hw1 : ∀ e ∈ ref, Pipe.PWf fmt e) (hw2 : ∀ e ∈ l10n, Pipe.PWf fmt e)
    (r l : Pipe.PEnt) (hr : r ∈ ref) (hl : l ∈ l10n) (hrj : r.junk = false) (hlj : Pipe.checkerOf fmt ≠ .base → l.junk = false)
    (rs : List Pipe.CheckRes) (h : Pipe.runChecker (Pipe.envOf ext fmt file mergeOn ref l10nText).ck r l = .ok rs) :
    ∀ b ∈ Pipe.runBase l, b ∈ rs := by
  by_cases hd : fmt = .dtd
  · subst hd
    have hsr := C05Dtd.parseFile_scalar ext refText (hs1 rfl) 0 ref n1 hp1
    have hsl := C05Dtd.parseFile_scalar ext l10nText (hs2 rfl) n1 l10n n2 hp2
    have hlj' := hlj (by simp [Pipe.checkerOf])
    obtain ⟨rk, hrk⟩ := (hw1 r hr).2.1 (by simp)
    obtain ⟨lk, hlk⟩ := (hw2 l hl).2.1 (by simp)
    obtain ⟨rs', h1, _, h3⟩ := C05Dtd.runDtd_ok (Pipe.envOf ext .dtd file mergeOn ref l10nText).ck r l rk lk hrk hlk hlj'
      ((hw2 l hl).entity hlj') (C05Dtd.refVals_scalar ref hsr) (hsr r hr) (hsl l hl) hrj
    have : Pipe.runChecker (Pipe.envOf ext .dtd file mergeOn ref l10nText).ck r l = Pipe.runDtd (Pipe.envOf ext .dtd file mergeOn ref l10nText).ck r l := rfl
    rw [this, h1] at h
    cases h
    exact h3
  · exact Pipe.base_in_results fmt hd _ rfl r l (hw1 r hr) (hw2 l hl) hrj hlj rs h

/-- **U+FFFD is always warned, end to end**: for every key shared by the two files whose LAST localized entry's text
    (`.all`) contains U+FFFD, `toJSON()["details"]` of the finished comparison has the warning
    `"� in: <key> at line <l>, column <c> for <key>"` — the "encodings" result of the base check, which
    `PropertiesChecker.check` and `DTDChecker.check` yield first.  Uses `ufffd_warned`. -/
theorem ufffd_warned_end_to_end_partial (ext : Pipe.Ext) (fmt : P.Fmt) (refText l10nText : Array Nat) (mergeOn : Bool)
    (hs1 : TextOK fmt refText) (hs2 : TextOK fmt l10nText)
    (hnc : Pipe.NoJunkClashT ext fmt refText l10nText) :
    ∃ r ref n1 l10n n2, Pipe.compareTexts ext fmt refText l10nText mergeOn = .ok r ∧
      Pipe.parseFile ext fmt refText 0 = .ok (ref, n1) ∧ Pipe.parseFile ext fmt l10nText n1 = .ok (l10n, n2) ∧
      ∀ k refent l10nent, Pipe.lookup ref k = .ok refent → Pipe.lookup l10n k = .ok l10nent → 0xFFFD ∈ l10nent.all →
        ∃ leaf ∈ r.details, ∃ line col : Int,
          (ObsM.Cat.warning, ObsM.DVal.data (.str (Pipe.checkMsg (Pipe.encPrefix ++ Pipe.keyText l10nent.key) line col refent.key)))
            ∈ leaf.2 := by
  have hm := stdFile_modelled fmt
  obtain ⟨ref, n1, l10n, n2, obs', outcome, evs, stats, hp1, hp2, hw1, hw2, h, hreach, _, hall⟩ :=
    Pipe.compareFiles_spec ext fmt (Pipe.stdFile fmt) hm (Pipe.fresh_init 0 [none]) refText l10nText mergeOn
      (parse_never_stuck fmt) merge_no_type_error (checkerOK_fmt ext fmt _ mergeOn refText l10nText hs1 hs2) hnc
  refine ⟨_, ref, n1, l10n, n2, h, hp1, hp2, ?_⟩
  intro k refent l10nent hlr hll hff
  obtain ⟨hrm, _, hkr⟩ := Pipe.lookup_ok hlr
  obtain ⟨hlm, _, hkl⟩ := Pipe.lookup_ok hll
  -- the diff has the item (equal, k)
  have hkmem : k ∈ (AR.addRemove (ref.map (·.key)) (l10n.map (·.key))).map (·.2) :=
    (AR.addRemove_keys_mem_gen _ _ k).2 (Or.inl hkr)
  obtain ⟨p, hp, hpk⟩ := List.mem_map.1 hkmem
  have hlab := AR.addRemove_labels_gen _ _ p hp
  have hc1 : (ref.map (·.key)).contains k = true := by simpa using hkr
  have hc2 : (l10n.map (·.key)).contains k = true := by simpa using hkl
  rw [hpk] at hlab
  simp only [AR.lab, hc1, hc2, if_true] at hlab
  obtain ⟨evp, hse, hsub⟩ := hall p hp
  obtain ⟨refent', l10nent', rs, hlr', hll', hrs, hevp⟩ := hse hlab
  rw [hpk] at hlr' hll'
  rw [hlr] at hlr'; cases hlr'
  rw [hll] at hll'; cases hll'
  -- the results of the checker contain those of the base check
  obtain ⟨hrj, hlj⟩ := hnc ref n1 l10n n2 hp1 hp2 k hkr hkl
  have hbase := base_in_results_fmt ext fmt (Pipe.stdFile fmt) mergeOn refText l10nText hs1 hs2 ref n1 l10n n2 hp1 hp2 hw1 hw2
    refent l10nent hrm hlm (hrj _ hlr) (fun hp => hlj hp _ hll) rs hrs
  -- the base check yields an "encodings" warning
  obtain ⟨br, hbr, hsev, _⟩ := ufffd_warned l10nent.all.toArray (by simpa using hff)
  obtain ⟨lc, hlc⟩ := Pipe.resolve_entityPos l10nText (Pipe.clsOf fmt) l10nent (br.pos : Int)
  have hev : ObsM.Ev.notify .warning (Pipe.stdFile fmt)
      (.str (Pipe.checkMsg (Pipe.encPrefix ++ Pipe.keyText l10nent.key) lc.1 lc.2 refent.key)) ∈ evp := by
    rw [hevp]
    simp only [List.mem_filterMap]
    refine ⟨{ sev := br.severity, pos := .entityPos (br.pos : Int), msg := Pipe.encPrefix ++ Pipe.keyText l10nent.key, cat := Pipe.encCat }, ?_, ?_⟩
    · apply hbase
      simp only [Pipe.runBase, List.mem_map]
      exact ⟨br, hbr, rfl⟩
    · simp only [Pipe.checkEv, Pipe.envOf, hlc, Option.map_some, hsev, Pipe.sevCat]
  obtain ⟨leaf, hleaf, hd⟩ := Pipe.report_has_detail (Pipe.stdFile fmt) hm _ obs' hreach outcome .warning _
    (List.mem_append_left _ (hsub _ hev)) (Or.inr (Or.inl rfl))
  exact ⟨leaf, hleaf, lc.1, lc.2, hd⟩

/-- **lint never raises** (all texts, with or without a reference file, for dtd every expat verdict function): no
    hypothesis on junk keys is needed, the linter compares an Entity with whatever the reference has under its key
    (`Entity.equals` only reads `key` and `val`, which a `Junk` has too). -/
theorem lint_never_raises (ext : Pipe.Ext) (fmt : P.Fmt) (refText : Option (Array Nat)) (curText : Array Nat)
    (hs : TextOK fmt curText) :
    ∃ rs, Pipe.lintText ext fmt refText curText = .ok rs := by
  refine Pipe.lintText_ok ext fmt refText curText (parse_never_stuck fmt) ?_
  intro cur n0 n1 hp e he hw hj
  by_cases hd : fmt = .dtd
  · subst hd
    have hsc := C05Dtd.parseFile_scalar ext curText (hs rfl) n0 cur n1 hp
    obtain ⟨k, hk⟩ := hw.2.1 (by simp)
    obtain ⟨rs, h1, h2, _⟩ := C05Dtd.runDtd_ok
      { kind := .dtd, locale := some Pipe.referenceLocale, xml := ext.xml, refVals := cur.map (·.raw) } e e k k hk hk hj
      (hw.entity hj) (C05Dtd.refVals_scalar cur hsc) (hsc e he) (hsc e he) hj
    exact ⟨rs, h1, h2⟩
  · exact Pipe.lint_checker_internal fmt hd _ rfl _ e hw hj

/-! ### the tie of `compareTexts` to file names: the generated tables select this parser and this checker -/

/-- `getParser("a.<ext>")` is the parser class of the format (first match in the generated constructor table) -/
theorem fileName_parser :
    Lint.getParserName (Pipe.fileName .ini) = some [73, 110, 105, 80, 97, 114, 115, 101, 114] ∧
    Lint.getParserName (Pipe.fileName .inc) = some [68, 101, 102, 105, 110, 101, 115, 80, 97, 114, 115, 101, 114] ∧
    Lint.getParserName (Pipe.fileName .po) = some [80, 111, 80, 97, 114, 115, 101, 114] ∧
    Lint.getParserName (Pipe.fileName .properties) =
      some [80, 114, 111, 112, 101, 114, 116, 105, 101, 115, 80, 97, 114, 115, 101, 114] ∧
    Lint.getParserName (Pipe.fileName .dtd) = some [68, 84, 68, 80, 97, 114, 115, 101, 114] := by
  refine ⟨?_, ?_, ?_, ?_, ?_⟩ <;> decide +kernel

/-- `getChecker`: `PropertiesChecker.pattern` matches `a.properties`, `DTDChecker.pattern` matches `a.dtd` (and the
    properties pattern, tried first, does not); none of the four special checkers' patterns matches `a.ini`, `a.inc`,
    `a.po` (so `getChecker` falls through to the base `Checker`) -/
theorem fileName_checker :
    (Rx.matchAt (Pipe.fileName .properties).toArray Gen.Pat.PropertiesChecker_pattern 0).isSome = true ∧
    (Rx.matchAt (Pipe.fileName .dtd).toArray Gen.Pat.PropertiesChecker_pattern 0).isSome = false ∧
    (Rx.matchAt (Pipe.fileName .dtd).toArray Gen.Pat.DTDChecker_pattern 0).isSome = true ∧
    ∀ f, f = P.Fmt.ini ∨ f = P.Fmt.inc ∨ f = P.Fmt.po →
      (Rx.matchAt (Pipe.fileName f).toArray Gen.Pat.PropertiesChecker_pattern 0).isSome = false ∧
      (Rx.matchAt (Pipe.fileName f).toArray Gen.Pat.DTDChecker_pattern 0).isSome = false ∧
      (Rx.matchAt (Pipe.fileName f).toArray Gen.Pat.FluentChecker_pattern 0).isSome = false ∧
      (Rx.matchAt (Pipe.fileName f).toArray Gen.Pat.AndroidChecker_pattern 0).isSome = false := by
  refine ⟨by decide +kernel, by decide +kernel, by decide +kernel, ?_⟩
  intro f hf
  rcases hf with rfl | rfl | rfl <;> (refine ⟨?_, ?_, ?_, ?_⟩ <;> decide +kernel)

/-! ### non-vacuity and negation witnesses

`List.mergeSort` (inside `AR.addRemove`) is defined by well-founded recursion, which `decide` cannot unfold for more
than one key; examples with several keys are therefore obtained by INSTANTIATING the theorems on a concrete pair of
texts whose hypothesis `noClashTB` is decided, and the single-key examples are evaluated outright. -/

/-- "a=1\nb=2\n" -/
def exRef : Array Nat := #[97, 61, 49, 10, 98, 61, 50, 10]
/-- "a=�\n??\nc=3\n": `a` shared and containing U+FFFD, junk `??\n`, `c` obsolete, `b` missing -/
def exL10n : Array Nat := #[97, 61, 65533, 10, 63, 63, 10, 99, 61, 51, 10]

/-- the hypothesis holds on a text pair with junk + missing + obsolete + U+FFFD … -/
theorem ex_noClash : Pipe.NoJunkClashT default .ini exRef exL10n :=
  Pipe.noClashTB_sound _ _ _ _ (by decide +kernel)

theorem textOK_of_ne {fmt : P.Fmt} (h : fmt ≠ .dtd) (t : Array Nat) : TextOK fmt t := fun e => absurd e h

/-- … so the comparison of that pair returns a report, with and without merge staging, -/
example : ∀ m, ∃ r, Pipe.compareTexts default .ini exRef exL10n m = .ok r :=
  fun m => compareTexts_never_raises_partial default .ini _ _ m (textOK_of_ne (by simp) _) (textOK_of_ne (by simp) _) ex_noClash

def okWith {α : Type} (p : α → Bool) : Except Pipe.PyErr α → Bool
  | .ok a => p a
  | .error _ => false

/-- … the localized file parses to the entity `a` (with U+FFFD), one Junk and the entity `c`, and `a` is the last
    entry of its key (the premise of `ufffd_warned_end_to_end_partial` is satisfiable) -/
example : okWith (fun p => p.1.map (fun e => (e.junk, e.all.contains 0xFFFD)) == [(false, true), (true, false), (false, false)]
    && (match Pipe.lookup p.1 (.str [97]) with | .ok e => e.all.contains 0xFFFD | .error _ => false))
    (Pipe.parseFile default .ini exL10n 0) = true := by decide +kernel

/-- single shared key, evaluated outright: "a=1\n" against "a=�\n" gives exactly one detail, the encoding warning
    `"� in: a at line 1, column 3 for a"`, and the counters errors 0, warnings 1, changed 1 (1 word) -/
example : okWith (fun r => r.details.map (·.2) == [[(.warning, .data (.str
      [65533, 32, 105, 110, 58, 32, 97, 32, 97, 116, 32, 108, 105, 110, 101, 32, 49, 44, 32, 99, 111, 108, 117, 109, 110, 32, 51, 32, 102, 111, 114, 32, 97]))]]
    && r.summary.map (fun p => p.2.map (·.2)) == [[0, 1, 0, 0, 0, 0, 1, 1, 0, 0, 0]] && r.merge == .copyL10n)
    (Pipe.compareTexts default .ini #[97, 61, 49, 10] #[97, 61, 65533, 10] true) = true := by decide +kernel

/-- properties, evaluated outright: "a=%S\n" against "a=%d\n" with merge staging: one printf error, the entity is skipped
    and the reference entity appended (written file "\n\na=%S\n" after cutting "a=%d") -/
example : okWith (fun r => r.details.map (fun l => l.2.map (·.1)) == [[.error]]
    && (match r.merge with | .written _ => true | _ => false))
    (Pipe.compareTexts default .properties #[97, 61, 37, 83, 10] #[97, 61, 37, 100, 10] true) = true := by decide +kernel

/-- lint of the junk/obsolete/U+FFFD text against the reference: three results (changed `a`… ) never an exception -/
example : okWith (fun rs => rs.length == 3) (Pipe.lintText default .ini (some exRef) exL10n) = true := by decide +kernel

deriving instance DecidableEq for Except

/-- **negation witness for `NoJunkClashT`**: reference "abc" (one Junk, key `_junk_1_0-3`) against the localization
    "_junk_1_0-3=x": the model raises AttributeError (`Junk` has no `equals`), as the real code does. -/
theorem junk_key_clash_raises :
    Pipe.compareTexts default .ini #[97, 98, 99] #[95, 106, 117, 110, 107, 95, 49, 95, 48, 45, 51, 61, 120] false
      = .error .attributeError := by decide +kernel

/-- … and the decidable condition rejects that pair -/
example : Pipe.noClashTB default .ini #[97, 98, 99] #[95, 106, 117, 110, 107, 95, 49, 95, 48, 45, 51, 61, 120] = false := by
  decide +kernel

/-- the linter does not raise on that pair -/
example : okWith (fun _ => true)
    (Pipe.lintText default .ini (some #[97, 98, 99]) #[95, 106, 117, 110, 107, 95, 49, 95, 48, 45, 51, 61, 120]) = true := by
  decide +kernel

/-! ### DTD: witnesses -/

/-- `<!ENTITY a "x">` -/
def dtdRef : Array Nat := #[60, 33, 69, 78, 84, 73, 84, 89, 32, 97, 32, 34, 120, 34, 62]
/-- `<!ENTITY a "\ud800">`: a lone surrogate in the value (no file read by `Parser.readFile` has one) -/
def dtdSur : Array Nat := #[60, 33, 69, 78, 84, 73, 84, 89, 32, 97, 32, 34, 0xD800, 34, 62]
/-- `<!-- c -->\n<!ENTITY a "">`: an EMPTY value under a comment line -/
def dtdEmpty : Array Nat :=
  #[60, 33, 45, 45, 32, 99, 32, 45, 45, 62, 10, 60, 33, 69, 78, 84, 73, 84, 89, 32, 97, 32, 34, 34, 62]

/-- **negation witness for `TextOK`**: a lone surrogate in a shared DTD value makes `value.encode("utf-8")` raise
    inside `DTDChecker.check`, which ends the comparison -/
theorem surrogate_raises : Pipe.compareTexts default .dtd dtdRef dtdSur false = .error .unicodeEncodeError := by
  decide +kernel

example : ¬ TextOK .dtd dtdSur := by
  intro h
  have := h rfl 0xD800 (by decide)
  revert this; decide

/-- an expat that rejects EVERY document at line 3, column 7 -/
def rejectAll : Pipe.Ext := { xml := fun _ => ⟨some (3, 7, [120]), []⟩, unescape := fun t => t }

/-- the raise site of the historic IndexError (`lines[lnr - 1]` with `lines == []`: empty value, error reported beyond
    its lines; fixed by f80b06f): the position arithmetic answers `(0, 0)` … -/
example : Dtd.errorPos [] 3 7 = some (0, 0) := by decide

/-- … and the whole comparison returns a report with the xmlparse error positioned at the start of the (empty) value:
    `"x at line 2, column 14 for a"`, after the warning "can't parse en-US value" -/
example : okWith (fun r => r.details.map (fun l => l.2.map (·.1)) == [[.warning, .error]])
    (Pipe.compareTexts rejectAll .dtd dtdRef dtdEmpty false) = true := by decide +kernel

/-! ## When can a Junk key equal the key of an entry of the other file?  (`Pipe.NoJunkClashT` made concrete)

`Junk.key = "_junk_%d_%d-%d" % (junkid, start, end)`; the counter runs on from the reference to the localization, the
format is injective (C18), so two Junks of the two files never share a key: a clash needs an ENTITY whose key text is
exactly such a key.  Proofs in Proofs/C05Clash.lean. -/

/-- **two Junk objects of the two files never have the same key** (the harness relies on this to tell the known finding
    F8 from any other AttributeError on a Junk) -/
theorem junk_keys_differ (ext : Pipe.Ext) (fmt : P.Fmt) (refText l10nText : Array Nat) (ref l10n : List Pipe.PEnt) (n1 n2 : Nat)
    (hp1 : Pipe.parseFile ext fmt refText 0 = .ok (ref, n1)) (hp2 : Pipe.parseFile ext fmt l10nText n1 = .ok (l10n, n2))
    (r l : Pipe.PEnt) (hr : r ∈ ref) (hl : l ∈ l10n) (hrj : r.junk = true) (hlj : l.junk = true) : r.key ≠ l.key :=
  C05Clash.junk_keys_differ (C05Clash.parseFile_ids ext fmt refText 0 n1 ref hp1) (C05Clash.parseFile_ids ext fmt l10nText n1 n2 l10n hp2)
    r l hr hl hrj hlj

/-- **the hypothesis is decidable on the two texts, exactly**: `clashFree` parses both and looks at the shared keys -/
theorem clashFree_iff (ext : Pipe.Ext) (fmt : P.Fmt) (refText l10nText : Array Nat) :
    C05Clash.clashFree ext fmt refText l10nText = true ↔ Pipe.NoJunkClashT ext fmt refText l10nText :=
  C05Clash.clashFree_iff ext fmt refText l10nText

/-- **a syntactic sufficient condition, on each text alone, independent of the external functions**: no string id
    begins with `_junk_` (`entityKeysOK`; gettext ids are tuples: nothing to check) -/
theorem noClash_of_keys (ext : Pipe.Ext) (fmt : P.Fmt) (refText l10nText : Array Nat)
    (h1 : C05Clash.entityKeysOK fmt refText = true) (h2 : C05Clash.entityKeysOK fmt l10nText = true) :
    Pipe.NoJunkClashT ext fmt refText l10nText :=
  C05Clash.noJunkClashT_of_keys ext fmt refText l10nText h1 h2

/-- **compare never raises**, with the decidable hypothesis in place of the abstract one: all texts whose string ids
    do not begin with `_junk_` (for dtd: scalar texts), any file, any observers, with or without merge, every `ext` -/
theorem compare_never_raises (ext : Pipe.Ext) (fmt : P.Fmt) (file : ObsM.File) (hm : ObsM.Modelled file)
    (q : Nat) (flts : List (Option ObsM.Filter)) (refText l10nText : Array Nat) (mergeOn : Bool)
    (hs1 : TextOK fmt refText) (hs2 : TextOK fmt l10nText)
    (hk1 : C05Clash.entityKeysOK fmt refText = true) (hk2 : C05Clash.entityKeysOK fmt l10nText = true) :
    ∃ r, Pipe.compareFiles ext fmt file (ObsM.ObsList.init q (flts.map (ObsM.Obs.init q))) refText l10nText mergeOn = .ok r :=
  compare_never_raises_partial ext fmt file hm q flts refText l10nText mergeOn hs1 hs2 (noClash_of_keys ext fmt _ _ hk1 hk2)

/-- **gettext: compare never raises, no hypothesis at all** (keys are tuples, a Junk key is a `str`) -/
theorem compare_never_raises_po (ext : Pipe.Ext) (file : ObsM.File) (hm : ObsM.Modelled file)
    (q : Nat) (flts : List (Option ObsM.Filter)) (refText l10nText : Array Nat) (mergeOn : Bool) :
    ∃ r, Pipe.compareFiles ext .po file (ObsM.ObsList.init q (flts.map (ObsM.Obs.init q))) refText l10nText mergeOn = .ok r :=
  compare_never_raises ext .po file hm q flts refText l10nText mergeOn (textOK_of_ne (by simp) _) (textOK_of_ne (by simp) _) rfl rfl

/-- the DTD pair with the empty value: the theorems apply for EVERY expat and every `html.unescape` -/
example (ext : Pipe.Ext) (m : Bool) : ∃ r, Pipe.compareTexts ext .dtd dtdRef dtdEmpty m = .ok r :=
  compare_never_raises ext .dtd _ (stdFile_modelled .dtd) 0 [none] dtdRef dtdEmpty m
    (fun _ c hc => by revert c hc; decide) (fun _ c hc => by revert c hc; decide) (by decide +kernel) (by decide +kernel)

/-- the syntactic condition rejects the clash pair, as it must -/
example : C05Clash.entityKeysOK .ini #[95, 106, 117, 110, 107, 95, 49, 95, 48, 45, 51, 61, 120] = false := by decide +kernel

/-! ## From the BYTES of the files (`Pipe.decode` = `Parser.readFile`, Compare/Decode.lean)

`readFile` opens with encoding "utf-8", errors="replace", newline=None.  Proofs in Proofs/C05Decode.lean. -/

/-- **universal newlines**: the decoded text has no carriage return at all ("\r\n" and every lone "\r" became "\n") -/
theorem decode_no_cr (bytes : List Nat) : 13 ∉ Pipe.decode bytes := C05Dec.decode_no_cr bytes

/-- **the decoded text holds Unicode scalar values only** (no surrogate, nothing above U+10FFFF): what the DTD checker
    needs to encode pieces of it again -/
theorem decode_scalar (bytes : List Nat) : C05Dtd.ScalarText (Pipe.decode bytes) := C05Dec.decode_scalar bytes

/-- **every ill-formed byte sequence leaves a U+FFFD**: if the UTF-8 decoding of the bytes has no U+FFFD, the bytes are
    the UTF-8 encoding of that text (nothing was replaced or dropped silently) … -/
theorem no_ufffd_wellformed (bytes : List Nat) (h : 0xFFFD ∉ Pipe.utf8Decode bytes) :
    Dtd.utf8 (Pipe.utf8Decode bytes) = some bytes := C05Dec.wellformed_of_no_ufffd bytes h

/-- … and at its place: after a well-formed prefix, a rest that does not begin with the encoding of a scalar value is
    decoded to U+FFFD for its first 1 to 3 bytes (the maximal ill-formed subsequence as CPython delimits it), then the
    decoding of what follows them -/
theorem invalid_yields_ufffd (t e r : List Nat) (h : Dtd.utf8 t = some e) (hr : r ≠ [])
    (hbad : ¬ ∃ c ec tail, Dtd.utf8Char c = some ec ∧ r = ec ++ tail) :
    ∃ k, 1 ≤ k ∧ k ≤ 3 ∧ k ≤ r.length ∧ Pipe.utf8Decode (e ++ r) = t ++ 0xFFFD :: Pipe.utf8Decode (r.drop k) :=
  C05Dec.invalid_yields_ufffd t e r h hr hbad

/-- **decoding inverts encoding**: well-formed bytes are decoded to the text they encode -/
theorem decode_encode (t e : List Nat) (h : Dtd.utf8 t = some e) : Pipe.utf8Decode e = t := C05Dec.decode_encode t e h

theorem textOK_decode (fmt : P.Fmt) (bytes : List Nat) : TextOK fmt (Pipe.decode bytes).toArray :=
  fun _ => by simpa using decode_scalar bytes

/-- **compare never raises, from the bytes of the two files** — any byte strings (invalid UTF-8 included), every
    format with a regex parser, every expat / `html.unescape`; the hypothesis on junk keys is the only one left -/
theorem compare_never_raises_bytes_partial (ext : Pipe.Ext) (fmt : P.Fmt) (file : ObsM.File) (hm : ObsM.Modelled file)
    (q : Nat) (flts : List (Option ObsM.Filter)) (refBytes l10nBytes : List Nat) (mergeOn : Bool)
    (hnc : Pipe.NoJunkClashT ext fmt (Pipe.decode refBytes).toArray (Pipe.decode l10nBytes).toArray) :
    ∃ r, Pipe.compareBytes ext fmt file (ObsM.ObsList.init q (flts.map (ObsM.Obs.init q))) refBytes l10nBytes mergeOn = .ok r :=
  compare_never_raises_partial ext fmt file hm q flts _ _ mergeOn (textOK_decode fmt refBytes) (textOK_decode fmt l10nBytes) hnc

/-- **lint never raises, from the bytes**: no hypothesis at all -/
theorem lint_never_raises_bytes (ext : Pipe.Ext) (fmt : P.Fmt) (refBytes : Option (List Nat)) (curBytes : List Nat) :
    ∃ rs, Pipe.lintBytes ext fmt refBytes curBytes = .ok rs :=
  lint_never_raises ext fmt _ _ (textOK_decode fmt curBytes)

/-- **U+FFFD is warned, end to end from the bytes**: the report of `compareBytes` has the "� in: <key>" warning for
    every shared key whose last localized entry's text contains U+FFFD — and by `no_ufffd_wellformed` /
    `invalid_yields_ufffd` every ill-formed byte sequence inside an entry puts one there -/
theorem ufffd_warned_from_bytes_partial (ext : Pipe.Ext) (fmt : P.Fmt) (refBytes l10nBytes : List Nat) (mergeOn : Bool)
    (hnc : Pipe.NoJunkClashT ext fmt (Pipe.decode refBytes).toArray (Pipe.decode l10nBytes).toArray) :
    ∃ r ref n1 l10n n2,
      Pipe.compareBytes ext fmt (Pipe.stdFile fmt) Pipe.stdObs refBytes l10nBytes mergeOn = .ok r ∧
      Pipe.parseFile ext fmt (Pipe.decode refBytes).toArray 0 = .ok (ref, n1) ∧
      Pipe.parseFile ext fmt (Pipe.decode l10nBytes).toArray n1 = .ok (l10n, n2) ∧
      ∀ k refent l10nent, Pipe.lookup ref k = .ok refent → Pipe.lookup l10n k = .ok l10nent → 0xFFFD ∈ l10nent.all →
        ∃ leaf ∈ r.details, ∃ line col : Int,
          (ObsM.Cat.warning, ObsM.DVal.data (.str (Pipe.checkMsg (Pipe.encPrefix ++ Pipe.keyText l10nent.key) line col refent.key)))
            ∈ leaf.2 :=
  ufffd_warned_end_to_end_partial ext fmt _ _ mergeOn (textOK_decode fmt refBytes) (textOK_decode fmt l10nBytes) hnc

/-- bytes `61 3D C3 28 0D 0A` ("a=", a lead byte without continuation, "(", CR LF) decode to "a=�(\n" -/
example : Pipe.decode [0x61, 0x3D, 0xC3, 0x28, 0x0D, 0x0A] = [0x61, 0x3D, 0xFFFD, 0x28, 0x0A] := by decide

/-- a byte order mark is kept as U+FEFF (the encoding is "utf-8", not "utf-8-sig") -/
example : Pipe.decode [0xEF, 0xBB, 0xBF, 0x61] = [0xFEFF, 0x61] := by decide

/-- an encoded surrogate (ED A0 80) is three errors, never a surrogate -/
example : Pipe.decode [0xED, 0xA0, 0x80] = [0xFFFD, 0xFFFD, 0xFFFD] := by decide

/-! ## Fluent and Android: from the external parser's output on

`Pipe.compareFtl` / `Pipe.compareAndroid` take what `fluent.syntax` / `xml.dom.minidom` returned (entry kinds with spans
and the AST summary of C08's model; the objects of the walk over the DOM with the node summary of C09's model) and do
the rest: entries, junk ids, keys, `FluentChecker.check` / `AndroidChecker.check`, the comparison core, the report.
Input contract: a Message / Term of the body carries its AST (`FtlBodyOK`).  Proofs in Proofs/C05Ext.lean. -/

/-- the comparison core never raises and reports well-formed details, for ANY checker environment whose checker
    answers (`CheckerOK`), without a junk-key clash, and with spans to cut when merging -/
theorem parsed_never_raises (env : Pipe.Env) (hm : ObsM.Modelled env.file) (q : Nat) (flts : List (Option ObsM.Filter))
    (ref l10n : List Pipe.PEnt) (hck : Pipe.CheckerOK env ref l10n) (hnc : Pipe.NoJunkClash env.ck.kind ref l10n)
    (hsp : env.mergeOn = true → env.cls ≠ .node) :
    ∃ obs' outcome, Pipe.compareParsed env ref l10n (ObsM.ObsList.init q (flts.map (ObsM.Obs.init q))) = .ok (obs', outcome) ∧
      ∀ leaf ∈ (Pipe.reportOf obs' outcome).details, ∀ d ∈ leaf.2, DetailWF d := by
  obtain ⟨obs', outcome, evs, stats, hcmp, hreach, hwf, _⟩ :=
    Pipe.compareParsed_spec env (Pipe.fresh_init q flts) hm ref l10n hck hnc hsp merge_no_type_error
  refine ⟨obs', outcome, hcmp, ?_⟩
  intro leaf hleaf d hd
  obtain ⟨cat, f, data, rv, hev, rfl⟩ := Pipe.report_details_from_history q flts env.file hm _ obs' hreach outcome leaf hleaf d hd
  simp only [List.mem_append, List.mem_singleton] at hev
  rcases hev with hev | hev
  · have := hwf _ hev
    simp only [Pipe.EvWF] at this
    rcases this with ⟨hc, t, rfl, hs⟩ | ⟨hc, k, rfl⟩
    · have hnf : cat.isFile = false := by rcases hc with rfl | rfl <;> rfl
      exact Or.inl ⟨by simpa [ObsM.detailOf, hnf] using hc, t, by simp [ObsM.detailOf, hnf], hs⟩
    · have hnf : cat.isFile = false := by rcases hc with rfl | rfl <;> rfl
      exact Or.inr ⟨by simpa [ObsM.detailOf, hnf] using hc, k, by simp [ObsM.detailOf, hnf]⟩
  · cases hev

/-- the comparison core warns about every U+FFFD of a shared entity, for any environment whose checker yields the
    results of the base check (one unfiltered observer) -/
theorem parsed_ufffd_warned (env : Pipe.Env) (hm : ObsM.Modelled env.file) (ref l10n : List Pipe.PEnt)
    (hck : Pipe.CheckerOK env ref l10n) (hnc : Pipe.NoJunkClash env.ck.kind ref l10n)
    (hsp : env.mergeOn = true → env.cls ≠ .node)
    (hbase : ∀ r ∈ ref, ∀ l ∈ l10n, r.junk = false → (env.ck.kind ≠ .base → l.junk = false) →
      ∀ rs, Pipe.runChecker env.ck r l = .ok rs → ∀ b ∈ Pipe.runBase l, b ∈ rs) :
    ∃ obs' outcome, Pipe.compareParsed env ref l10n Pipe.stdObs = .ok (obs', outcome) ∧
      ∀ k refent l10nent, Pipe.lookup ref k = .ok refent → Pipe.lookup l10n k = .ok l10nent → 0xFFFD ∈ l10nent.all →
        ∃ leaf ∈ (Pipe.reportOf obs' outcome).details, ∃ line col : Int,
          (ObsM.Cat.warning, ObsM.DVal.data (.str (Pipe.checkMsg (Pipe.encPrefix ++ Pipe.keyText l10nent.key) line col refent.key)))
            ∈ leaf.2 := by
  obtain ⟨obs', outcome, evs, stats, hcmp, hreach, _, hall⟩ :=
    Pipe.compareParsed_spec env (Pipe.fresh_init 0 [none]) hm ref l10n hck hnc hsp merge_no_type_error
  refine ⟨obs', outcome, hcmp, ?_⟩
  intro k refent l10nent hlr hll hff
  obtain ⟨hrm, _, hkr⟩ := Pipe.lookup_ok hlr
  obtain ⟨hlm, _, hkl⟩ := Pipe.lookup_ok hll
  have hkmem : k ∈ (AR.addRemove (ref.map (·.key)) (l10n.map (·.key))).map (·.2) :=
    (AR.addRemove_keys_mem_gen _ _ k).2 (Or.inl hkr)
  obtain ⟨p, hp, hpk⟩ := List.mem_map.1 hkmem
  have hlab := AR.addRemove_labels_gen _ _ p hp
  have hc1 : (ref.map (·.key)).contains k = true := by simpa using hkr
  have hc2 : (l10n.map (·.key)).contains k = true := by simpa using hkl
  rw [hpk] at hlab
  simp only [AR.lab, hc1, hc2, if_true] at hlab
  obtain ⟨evp, hse, hsub⟩ := hall p hp
  obtain ⟨refent', l10nent', rs, hlr', hll', hrs, hevp⟩ := hse hlab
  rw [hpk] at hlr' hll'
  rw [hlr] at hlr'; cases hlr'
  rw [hll] at hll'; cases hll'
  obtain ⟨hrj, hlj⟩ := hnc k hkr hkl
  have hb := hbase refent hrm l10nent hlm (hrj _ hlr) (fun hp => hlj hp _ hll) rs hrs
  obtain ⟨br, hbr, hsev, _⟩ := ufffd_warned l10nent.all.toArray (by simpa using hff)
  obtain ⟨lc, hlc⟩ := Pipe.resolve_entityPos env.l10nText env.cls l10nent (br.pos : Int)
  have hev : ObsM.Ev.notify .warning env.file
      (.str (Pipe.checkMsg (Pipe.encPrefix ++ Pipe.keyText l10nent.key) lc.1 lc.2 refent.key)) ∈ evp := by
    rw [hevp]
    simp only [List.mem_filterMap]
    refine ⟨{ sev := br.severity, pos := .entityPos (br.pos : Int), msg := Pipe.encPrefix ++ Pipe.keyText l10nent.key, cat := Pipe.encCat }, ?_, ?_⟩
    · apply hb
      simp only [Pipe.runBase, List.mem_map]
      exact ⟨br, hbr, rfl⟩
    · simp only [Pipe.checkEv, hlc, Option.map_some, hsev, Pipe.sevCat]
  obtain ⟨leaf, hleaf, hd⟩ := Pipe.report_has_detail env.file hm _ obs' hreach outcome .warning _
    (List.mem_append_left _ (hsub _ hev)) (Or.inr (Or.inl rfl))
  exact ⟨leaf, hleaf, lc.1, lc.2, hd⟩

/-- **Fluent: compare never raises and the report is well formed**, for every text, every body `fluent.syntax` can
    return under the contract, every locale (C08.check_total), any file / observers / filters, with or without merge —
    unless a key is shared with a Junk of the other file -/
theorem compare_ftl_never_raises_partial (file : ObsM.File) (hm : ObsM.Modelled file) (q : Nat) (flts : List (Option ObsM.Filter))
    (refText l10nText : Array Nat) (refBody l10nBody : List Pipe.FtlItem) (mergeOn : Bool)
    (hb1 : C05Ext.FtlBodyOK refBody) (hb2 : C05Ext.FtlBodyOK l10nBody)
    (hnc : Pipe.NoJunkClash .fluent (Pipe.parseFtl refText refBody 0).1
      (Pipe.parseFtl l10nText l10nBody (Pipe.parseFtl refText refBody 0).2).1) :
    ∃ r, Pipe.compareFtl file (ObsM.ObsList.init q (flts.map (ObsM.Obs.init q))) l10nText refText refBody l10nBody mergeOn = .ok r ∧
      ∀ leaf ∈ r.details, ∀ d ∈ leaf.2, DetailWF d := by
  obtain ⟨_, hw1, _⟩ := C05Ext.parseFtl_spec refText refBody 0 hb1
  obtain ⟨_, hw2, _⟩ := C05Ext.parseFtl_spec l10nText l10nBody (Pipe.parseFtl refText refBody 0).2 hb2
  obtain ⟨obs', outcome, h, hwf⟩ := parsed_never_raises (Pipe.ftlEnv file mergeOn l10nText) hm q flts _ _
    (C05Ext.checkerOK_ftl file mergeOn l10nText _ _ hw1 hw2) hnc (fun _ => by simp [Pipe.ftlEnv])
  exact ⟨_, by simp only [Pipe.compareFtl, Pipe.compareFtlP, h], hwf⟩

/-- the junk-key hypothesis follows from a contract on the ids: no Message / Term key begins with `_junk_` (Fluent
    identifiers begin with a letter, Term keys with `-`) -/
theorem ftl_noClash_of_keys (refText l10nText : Array Nat) (refBody l10nBody : List Pipe.FtlItem)
    (hb1 : C05Ext.FtlBodyOK refBody) (hb2 : C05Ext.FtlBodyOK l10nBody)
    (hk1 : C05Clash.NoJunkLike (Pipe.parseFtl refText refBody 0).1)
    (hk2 : C05Clash.NoJunkLike (Pipe.parseFtl l10nText l10nBody (Pipe.parseFtl refText refBody 0).2).1) :
    Pipe.NoJunkClash .fluent (Pipe.parseFtl refText refBody 0).1
      (Pipe.parseFtl l10nText l10nBody (Pipe.parseFtl refText refBody 0).2).1 := by
  obtain ⟨_, _, hi1⟩ := C05Ext.parseFtl_spec refText refBody 0 hb1
  obtain ⟨_, _, hi2⟩ := C05Ext.parseFtl_spec l10nText l10nBody (Pipe.parseFtl refText refBody 0).2 hb2
  exact C05Clash.noJunkClash_of_keys hi1 hi2 hk1 hk2 _

/-- **Fluent: U+FFFD is warned, end to end** -/
theorem ufffd_warned_ftl_partial (refText l10nText : Array Nat) (refBody l10nBody : List Pipe.FtlItem) (mergeOn : Bool)
    (hb1 : C05Ext.FtlBodyOK refBody) (hb2 : C05Ext.FtlBodyOK l10nBody)
    (hnc : Pipe.NoJunkClash .fluent (Pipe.parseFtl refText refBody 0).1
      (Pipe.parseFtl l10nText l10nBody (Pipe.parseFtl refText refBody 0).2).1) :
    ∃ r, Pipe.compareFtl (Pipe.fileNamed Pipe.ftlFileName) Pipe.stdObs l10nText refText refBody l10nBody mergeOn = .ok r ∧
      ∀ k refent l10nent, Pipe.lookup (Pipe.parseFtl refText refBody 0).1 k = .ok refent →
        Pipe.lookup (Pipe.parseFtl l10nText l10nBody (Pipe.parseFtl refText refBody 0).2).1 k = .ok l10nent →
        0xFFFD ∈ l10nent.all →
        ∃ leaf ∈ r.details, ∃ line col : Int,
          (ObsM.Cat.warning, ObsM.DVal.data (.str (Pipe.checkMsg (Pipe.encPrefix ++ Pipe.keyText l10nent.key) line col refent.key)))
            ∈ leaf.2 := by
  have hm : ObsM.Modelled (Pipe.fileNamed Pipe.ftlFileName) := by intro m hmod; simp [Pipe.fileNamed] at hmod
  obtain ⟨_, hw1, _⟩ := C05Ext.parseFtl_spec refText refBody 0 hb1
  obtain ⟨_, hw2, _⟩ := C05Ext.parseFtl_spec l10nText l10nBody (Pipe.parseFtl refText refBody 0).2 hb2
  obtain ⟨obs', outcome, h, hall⟩ := parsed_ufffd_warned (Pipe.ftlEnv (Pipe.fileNamed Pipe.ftlFileName) mergeOn l10nText) hm _ _
    (C05Ext.checkerOK_ftl _ mergeOn l10nText _ _ hw1 hw2) hnc (fun _ => by simp [Pipe.ftlEnv]) (by
      intro r hr l hl hrj hlj rs hrs
      obtain ⟨rs', h1, _, h3⟩ := C05Ext.runFluent_ok (Pipe.fileNamed Pipe.ftlFileName).locale r l (hw1 r hr) (hw2 l hl) hrj
        (hlj (by simp [Pipe.ftlEnv]))
      have : Pipe.runChecker (Pipe.ftlEnv (Pipe.fileNamed Pipe.ftlFileName) mergeOn l10nText).ck r l
          = Pipe.runFluent (Pipe.fileNamed Pipe.ftlFileName).locale r l := rfl
      rw [this, h1] at hrs
      cases hrs
      exact h3)
  exact ⟨_, by simp only [Pipe.compareFtl, Pipe.compareFtlP, h], hall⟩

/-- **Android: compare never raises and the report is well formed WITHOUT merge staging**, for every list of objects
    the walk over the DOM can yield, any file / observers / filters — unless a key is shared with an XMLJunk of the
    other file.  With merge staging the statement is false: known finding F5-android-no-spans-raise
    (`android_merge_raises`). -/
theorem compare_android_never_raises_partial (file : ObsM.File) (hm : ObsM.Modelled file) (q : Nat)
    (flts : List (Option ObsM.Filter)) (l10nText : Array Nat) (refItems l10nItems : List Pipe.AItem)
    (hnc : Pipe.NoJunkClash .android (Pipe.parseAndroid refItems 0).1
      (Pipe.parseAndroid l10nItems (Pipe.parseAndroid refItems 0).2).1) :
    ∃ r, Pipe.compareAndroid file (ObsM.ObsList.init q (flts.map (ObsM.Obs.init q))) l10nText refItems l10nItems false = .ok r ∧
      ∀ leaf ∈ r.details, ∀ d ∈ leaf.2, DetailWF d := by
  obtain ⟨_, hw1, _⟩ := C05Ext.parseAndroid_spec refItems 0
  obtain ⟨_, hw2, _⟩ := C05Ext.parseAndroid_spec l10nItems (Pipe.parseAndroid refItems 0).2
  obtain ⟨obs', outcome, h, hwf⟩ := parsed_never_raises (Pipe.androidEnv file false l10nText) hm q flts _ _
    (C05Ext.checkerOK_android file false l10nText _ _ hw1 hw2) hnc (fun h => by simp [Pipe.androidEnv] at h)
  exact ⟨_, by simp only [Pipe.compareAndroid, h], hwf⟩

/-- **Android: U+FFFD is warned, end to end** (without merge staging) -/
theorem ufffd_warned_android_partial (l10nText : Array Nat) (refItems l10nItems : List Pipe.AItem)
    (hnc : Pipe.NoJunkClash .android (Pipe.parseAndroid refItems 0).1
      (Pipe.parseAndroid l10nItems (Pipe.parseAndroid refItems 0).2).1) :
    ∃ r, Pipe.compareAndroid (Pipe.fileNamed Pipe.androidFileName) Pipe.stdObs l10nText refItems l10nItems false = .ok r ∧
      ∀ k refent l10nent, Pipe.lookup (Pipe.parseAndroid refItems 0).1 k = .ok refent →
        Pipe.lookup (Pipe.parseAndroid l10nItems (Pipe.parseAndroid refItems 0).2).1 k = .ok l10nent →
        0xFFFD ∈ l10nent.all →
        ∃ leaf ∈ r.details, ∃ line col : Int,
          (ObsM.Cat.warning, ObsM.DVal.data (.str (Pipe.checkMsg (Pipe.encPrefix ++ Pipe.keyText l10nent.key) line col refent.key)))
            ∈ leaf.2 := by
  have hm : ObsM.Modelled (Pipe.fileNamed Pipe.androidFileName) := by intro m hmod; simp [Pipe.fileNamed] at hmod
  obtain ⟨_, hw1, _⟩ := C05Ext.parseAndroid_spec refItems 0
  obtain ⟨_, hw2, _⟩ := C05Ext.parseAndroid_spec l10nItems (Pipe.parseAndroid refItems 0).2
  obtain ⟨obs', outcome, h, hall⟩ := parsed_ufffd_warned (Pipe.androidEnv (Pipe.fileNamed Pipe.androidFileName) false l10nText) hm _ _
    (C05Ext.checkerOK_android _ false l10nText _ _ hw1 hw2) hnc (fun h => by simp [Pipe.androidEnv] at h) (by
      intro r hr l hl hrj hlj rs hrs
      obtain ⟨rs', h1, _, h3⟩ := C05Ext.runAndroid_ok r l (hw1 r hr) (hw2 l hl) hrj (hlj (by simp [Pipe.androidEnv]))
      have : Pipe.runChecker (Pipe.androidEnv (Pipe.fileNamed Pipe.androidFileName) false l10nText).ck r l
          = Pipe.runAndroid r l := rfl
      rw [this, h1] at hrs
      cases hrs
      exact h3)
  exact ⟨_, by simp only [Pipe.compareAndroid, h], hall⟩

/-- the junk-key hypothesis for Android from the `name` attributes: none begins with `_junk_` -/
theorem android_noClash_of_keys (refItems l10nItems : List Pipe.AItem)
    (hk1 : C05Clash.NoJunkLike (Pipe.parseAndroid refItems 0).1)
    (hk2 : C05Clash.NoJunkLike (Pipe.parseAndroid l10nItems (Pipe.parseAndroid refItems 0).2).1) :
    Pipe.NoJunkClash .android (Pipe.parseAndroid refItems 0).1
      (Pipe.parseAndroid l10nItems (Pipe.parseAndroid refItems 0).2).1 := by
  obtain ⟨_, _, hi1⟩ := C05Ext.parseAndroid_spec refItems 0
  obtain ⟨_, _, hi2⟩ := C05Ext.parseAndroid_spec l10nItems (Pipe.parseAndroid refItems 0).2
  exact C05Clash.noJunkClash_of_keys hi1 hi2 hk1 hk2 _

/-- **negation witness (known finding F5-android-no-spans-raise)**: with merge staging, two localized AndroidEntities
    collected in `skips` (each has a check error; their `span` is `(None, None)`) make
    `skips.sort(key=lambda s: s.span[0])` compare `None` with `None`: the merge call of the model raises TypeError,
    whatever the file contents and the reference.  (A whole-comparison instance needs two keys, which `decide` cannot
    evaluate — see above; the harness shows it on the real code.) -/
theorem android_merge_raises (file : ObsM.File) (l10nText : Array Nat) (ref : List Pipe.PEnt) (a b : Pipe.PEnt)
    (ha : a.junk = false) (hb : b.junk = false) (hka : a.key ∈ ref.map (·.key)) (hkb : b.key ∈ ref.map (·.key)) :
    Pipe.doMerge (Pipe.androidEnv file true l10nText) ref [] [a, b] = .error .typeError := by
  obtain ⟨ta, hta⟩ := Pipe.refAllOf_ok ref a.key hka
  obtain ⟨tb, htb⟩ := Pipe.refAllOf_ok ref b.key hkb
  simp [Pipe.doMerge, Pipe.androidEnv, Pipe.mapE, Pipe.mkSkip, Pipe.spanOf, ha, hb, hta, htb, Merge.merge, Merge.sortSkips,
    Merge.hasCap, Gen.Tables.cap_android, Gen.Tables.CAN_NONE, Gen.Tables.CAN_COPY, Gen.Tables.CAN_SKIP]

/-- **Android: lint never raises**, no hypothesis: for every list of objects the walk can yield, with or without a
    reference (AndroidEntity / XMLJunk positions are `(0, offset)`, `Entity.equals` reads key and val only) -/
theorem lint_android_never_raises (refItems : Option (List Pipe.AItem)) (curText : Array Nat) (curItems : List Pipe.AItem) :
    ∃ rs, Pipe.lintAndroid refItems curText curItems = .ok rs := by
  have key : ∀ (reference : Option (List Pipe.PEnt)) (n : Nat),
      ∃ rs, Pipe.lintParsed default Pipe.androidFileName .android .node reference curText (Pipe.parseAndroid curItems n).1 = .ok rs := by
    intro reference n
    obtain ⟨_, hw, _⟩ := C05Ext.parseAndroid_spec curItems n
    refine Pipe.lintParsed_ok default _ _ _ reference curText _ ?_ (by simp [Pipe.lintJunkClash]) ?_
    · intro e he hj
      rcases (hw e he).kind with ⟨h, _⟩ | ⟨_, h, _⟩
      · rw [hj] at h; cases h
      · exact h
    · intro e he hj
      obtain ⟨rs, h1, h2, _⟩ := C05Ext.runAndroid_ok e e (hw e he) (hw e he) hj hj
      exact ⟨rs, h1, h2⟩
  unfold Pipe.lintAndroid
  cases refItems with
  | none => exact key none 0
  | some items => exact key _ _

/-- **Fluent: lint never raises** under the input contract, unless a FluentEntity shares its key with a Junk of the
    reference (`lintJunkClash`, decidable: `current_entity.equals(reference_entity)` reads `other.entry`) -/
theorem lint_ftl_never_raises_partial (refT : Option (Array Nat × List Pipe.FtlItem)) (curText : Array Nat)
    (curBody : List Pipe.FtlItem) (hb : C05Ext.FtlBodyOK curBody)
    (hclash : ∀ t body, refT = some (t, body) →
      Pipe.lintJunkClash .fluent (Pipe.parseFtl t body 0).1 (Pipe.parseFtl curText curBody (Pipe.parseFtl t body 0).2).1 = false) :
    ∃ rs, Pipe.lintFtl refT curText curBody = .ok rs := by
  have key : ∀ (reference : Option (List Pipe.PEnt)) (n : Nat),
      Pipe.lintJunkClash .fluent (Pipe.refList reference) (Pipe.parseFtl curText curBody n).1 = false →
      ∃ rs, Pipe.lintParsed default Pipe.ftlFileName .fluent .fluent reference curText (Pipe.parseFtl curText curBody n).1 = .ok rs := by
    intro reference n hc
    obtain ⟨_, hw, _⟩ := C05Ext.parseFtl_spec curText curBody n hb
    refine Pipe.lintParsed_ok default _ _ _ reference curText _ ?_ hc ?_
    · intro e he hj
      rcases (hw e he).kind with ⟨h, _⟩ | ⟨_, h, _⟩
      · rw [hj] at h; cases h
      · exact h
    · intro e he hj
      obtain ⟨rs, h1, h2, _⟩ := C05Ext.runFluent_ok (some Pipe.referenceLocale) e e (hw e he) (hw e he) hj hj
      exact ⟨rs, h1, h2⟩
  unfold Pipe.lintFtl
  cases refT with
  | none => exact key none 0 (by simp [Pipe.lintJunkClash, Pipe.refList, Pipe.lookup, AR.keyedIndex_eq])
  | some p =>
    obtain ⟨t, body⟩ := p
    exact key _ _ (hclash t body rfl)

/-! ## Whole files: `ContentComparer.add` and `ContentComparer.remove` -/

theorem notify_total (file : ObsM.File) (hm : ObsM.Modelled file) (q : Nat) (flts : List (Option ObsM.Filter))
    (cat : ObsM.Cat) (d : ObsM.Data) :
    ∃ p, (ObsM.ObsList.init q (flts.map (ObsM.Obs.init q))).notify cat file d = .ok p := by
  let env : Pipe.Env := { caps := 0, cls := .plain, ck := { kind := .base, locale := none }, file := file, mergeOn := false, l10nText := #[] }
  obtain ⟨l', rv, h, _⟩ := Pipe.notify_spec env (Pipe.fresh_init q flts) hm (Pipe.Reach.nil _ _) cat d
  simp only [Pipe.notify] at h
  cases hn : (ObsM.ObsList.init q (flts.map (ObsM.Obs.init q))).notify cat file d with
  | error e => simp [env, hn] at h
  | ok p => exact ⟨p, rfl⟩

/-- **`ContentComparer.remove` never raises** (any file the observers can address, any filters) -/
theorem remove_never_raises (file : ObsM.File) (hm : ObsM.Modelled file) (q : Nat) (flts : List (Option ObsM.Filter)) (mergeOn : Bool) :
    ∃ r, Pipe.removeFile file (ObsM.ObsList.init q (flts.map (ObsM.Obs.init q))) mergeOn = .ok r := by
  obtain ⟨p, hp⟩ := notify_total file hm q flts .obsoleteFile .none
  unfold Pipe.removeFile
  simp only [hp]
  exact ⟨_, rfl⟩

/-- **`ContentComparer.add` never raises** for every text of a format with a regex parser, any file, any filters,
    every `ext`: the `try … except Exception` around `readFile` / `parse` is never needed -/
theorem add_never_raises (ext : Pipe.Ext) (fmt : P.Fmt) (file : ObsM.File) (hm : ObsM.Modelled file) (q : Nat)
    (flts : List (Option ObsM.Filter)) (refText : Array Nat) (mergeOn : Bool) :
    ∃ r, Pipe.addFile ext fmt file (ObsM.ObsList.init q (flts.map (ObsM.Obs.init q))) refText mergeOn = .ok r := by
  obtain ⟨p, hp⟩ := notify_total file hm q flts .missingFile .none
  obtain ⟨ents, n, hpf, _⟩ := Pipe.parseFile_ok ext fmt refText 0 (parse_never_stuck fmt refText)
  unfold Pipe.addFile
  simp only [hp, hpf]
  split <;> exact ⟨_, rfl⟩

/-- **Fluent, when the external parser RAISES** (e.g. RecursionError on ~200 nested placeables): `lint_file` reports
    the one error entry (line 1, column 1, level "error", `str(e)`), whichever file made the parser raise … -/
theorem lint_ftl_parser_raises (t : Array Nat) (name : String) (msg : Pipe.Text) (curText : Array Nat) (cur : Pipe.FtlParse) :
    Pipe.lintFtlP (some (t, .raises name msg)) curText cur = .ok [Pipe.lintParseError msg] ∧
    Pipe.lintFtlP none curText (.raises name msg) = .ok [Pipe.lintParseError msg] ∧
    ∀ rb, Pipe.lintFtlP (some (t, .body rb)) curText (.raises name msg) = .ok [Pipe.lintParseError msg] :=
  ⟨rfl, rfl, fun _ => rfl⟩

/-- … and `compare` reports it as an "error" detail — for the reference on `ref_file` (upstream fix d91dd73: `parse()` of
    the reference is inside the `try` now), for the localization on `l10n` — and then neither merges nor counts -/
theorem compare_ftl_parser_raises (refFile file : ObsM.File) (hmr : ObsM.Modelled refFile) (hm : ObsM.Modelled file) (q : Nat)
    (flts : List (Option ObsM.Filter)) (refText l10nText : Array Nat) (name : String) (msg : Pipe.Text) (mergeOn : Bool) :
    (∀ l10n, ∃ r, Pipe.compareFtlP refFile file (ObsM.ObsList.init q (flts.map (ObsM.Obs.init q))) l10nText refText
      (.raises name msg) l10n mergeOn = .ok r ∧ r.merge = .nothing) ∧
    (∀ refBody, ∃ r, Pipe.compareFtlP refFile file (ObsM.ObsList.init q (flts.map (ObsM.Obs.init q))) l10nText refText
      (.body refBody) (.raises name msg) mergeOn = .ok r ∧ r.merge = .nothing) := by
  obtain ⟨p1, hp1⟩ := notify_total refFile hmr q flts .error (.str msg)
  obtain ⟨p2, hp2⟩ := notify_total file hm q flts .error (.str msg)
  constructor
  · intro l10n
    refine ⟨Pipe.reportOf p1.1 .nothing, ?_, rfl⟩
    simp only [Pipe.compareFtlP, hp1]
  · intro refBody
    refine ⟨Pipe.reportOf p2.1 .nothing, ?_, rfl⟩
    simp only [Pipe.compareFtlP, hp2]

/-! ## Sessions: ONE `ContentComparer` / ONE `L10nLinter` over a SEQUENCE of files (CLModel/Compare/PipeSession.lean)

`compareProjects` creates one `ContentComparer` and calls `compare` for every file of every locale; `L10nLinter.lint`
calls `lint_file` for every path.  `Pipe.compareSession ext jobs st` is that loop: the state `st` threaded through the jobs
holds the comparer's observers and the junk counters (`Junk.junkid`, `XMLJunk.junkid`) — and nothing else.  The checker is
a per-FILE value: `Pipe.Job.checker ext j ref = fileChecker ext (class by file name) j.file ref` is `getChecker(l10n)` +
`set_reference(ref_entities)` evaluated inside the call for job `j`; it is no component of the state.

The theorems below say that what C05 promises for a file holds for EVERY job of EVERY session, wherever the job stands:
no raise, well-formed details, and the encoding warning for every shared string with U+FFFD — in the details of THAT file.
A change of the code that lets a checker (or data a checker derived from one file: scan offsets, a memo of entities)
survive into the next `compare` call is outside this model: the correspondence `c05.session` / `c05.lintsession` breaks,
and the execution oracle of the session stream shows the file whose warning is lost.

Hypotheses, all on the single job (`C05Sess.JobOK`, independent of the position in the session and of the counters): the
ones of the one-comparison theorems — dtd texts hold scalar values, a Fluent body carries its ASTs, no string id begins
with `_junk_` (F8), no merge staging for Android (F5).  For the statements about `toJSON()`: the paths of the files are
not prefixes of each other (`C05Sess.PrefixFree`; C10's hypothesis, witness `C10.prefix_case_witness`). -/

theorem walk_total : ∀ (fmt : P.Fmt) (s : Array Nat), ∃ es, P.walk fmt s = .done es := fun fmt s => parse_never_stuck fmt s

theorem base_warns : C05Sess.BaseWarns := fun all h => by
  obtain ⟨r, hr, hs, _⟩ := ufffd_warned all h
  exact ⟨r, hr, hs⟩

/-- **a session never raises**: every `compare` call of one comparer returns, for every list of covered jobs (text of the
    five regex formats, Fluent / Android from the parser's output), any fresh observers with any filters and quiet level,
    and ANY value of the junk counters at the start (whatever the process did before) -/
theorem session_never_raises_partial (ext : Pipe.Ext) (jobs : List Pipe.Job) (hok : ∀ j ∈ jobs, C05Sess.JobOK j)
    (q : Nat) (flts : List (Option ObsM.Filter)) (ids : Pipe.JunkIds) :
    ∃ st os, Pipe.compareSession ext jobs { obs := ObsM.ObsList.init q (flts.map (ObsM.Obs.init q)), ids := ids } = .ok (st, os) := by
  obtain ⟨st, os, _, h, _⟩ := C05Sess.session_spec ext walk_total merge_no_type_error base_warns jobs
    { obs := ObsM.ObsList.init q (flts.map (ObsM.Obs.init q)), ids := ids } (Pipe.fresh_init q flts) hok
  exact ⟨st, os, h⟩

theorem sess_files_mem {jobs : List Pipe.Job} {H : List ObsM.Ev} (h : ∀ ev ∈ H, ∃ j ∈ jobs, ev.file = j.file) :
    ∀ ev ∈ H, ev.file ∈ jobs.map (·.file) := by
  intro ev hev
  obtain ⟨j, hj, hf⟩ := h ev hev
  exact List.mem_map.2 ⟨j, hj, hf.symm⟩

theorem sess_files_modelled {jobs : List Pipe.Job} (hok : ∀ j ∈ jobs, C05Sess.JobOK j) :
    ∀ f ∈ jobs.map (·.file), ObsM.Modelled f := by
  intro f hf
  obtain ⟨j, hj, rfl⟩ := List.mem_map.1 hf
  exact (hok j hj).modelled

/-- **U+FFFD is warned in EVERY job of EVERY session**: one comparer (`ContentComparer()` + one `Observer()`, fresh
    process) compares the jobs in order.  For every job `j`, wherever it stands (`jobs = pre ++ j :: post`), with `ref` /
    `l10n` the entity lists it parses at the counters the jobs before it left: every key shared by its two files whose
    last localized entry's text contains U+FFFD has the warning `"� in: <key> at line l, column c for <key>"` in
    `toJSON()["details"]` after the session, in the leaf whose path is the path of `j.file` — whatever the other files
    contain, before or after, same format or not, same keys or not. -/
theorem ufffd_warned_in_every_job (ext : Pipe.Ext) (jobs : List Pipe.Job) (hok : ∀ j ∈ jobs, C05Sess.JobOK j)
    (hpf : C05Sess.PrefixFree (jobs.map (·.file))) :
    ∃ st os, Pipe.compareSession ext jobs Pipe.SessSt.fresh = .ok (st, os) ∧
      ∀ pre j post, jobs = pre ++ j :: post → ∃ ref l10n, C05Sess.JobParsed ext Pipe.SessSt.fresh pre j ref l10n ∧
        ∀ k refent l10nent, Pipe.lookup ref k = .ok refent → Pipe.lookup l10n k = .ok l10nent → 0xFFFD ∈ l10nent.all →
          ∃ parts, ObsM.partsOf j.file = .ok parts ∧
            ∃ leaf ∈ (Pipe.sessReport st os).report.details, TreeM.joinSlash leaf.1 = TreeM.joinSlash parts ∧
              ∃ line col : Int,
                (ObsM.Cat.warning, ObsM.DVal.data (.str (Pipe.checkMsg (Pipe.encPrefix ++ Pipe.keyText l10nent.key) line col refent.key)))
                  ∈ leaf.2 := by
  obtain ⟨st, os, H, hs, hrun, hfiles, _, hjobs⟩ := C05Sess.session_spec ext walk_total merge_no_type_error base_warns jobs
    Pipe.SessSt.fresh C05Sess.fresh_stdObs hok
  refine ⟨st, os, hs, ?_⟩
  intro pre j post hsplit
  obtain ⟨ref, l10n, hparsed, hevs⟩ := hjobs pre j post hsplit
  refine ⟨ref, l10n, hparsed, ?_⟩
  intro k refent l10nent hlr hll hu
  obtain ⟨line, col, hev⟩ := hevs k refent l10nent hlr hll hu
  obtain ⟨parts, hparts, leaf, hleaf, hpath, hd⟩ := C05Sess.report_has_detail (jobs.map (·.file)) hpf (sess_files_modelled hok)
    H st.obs hrun (sess_files_mem hfiles) .nothing j.file .warning _ hev (Or.inr (Or.inl rfl))
  exact ⟨parts, hparts, leaf, hleaf, hpath, line, col, hd⟩

/-- **the report of a session is well formed**: every item of `toJSON()["details"]` after the session is an error or a
    warning with a text of one of the four message shapes, or a missing / obsolete key -/
theorem session_report_wellformed_partial (ext : Pipe.Ext) (jobs : List Pipe.Job) (hok : ∀ j ∈ jobs, C05Sess.JobOK j)
    (hpf : C05Sess.PrefixFree (jobs.map (·.file))) (st : Pipe.SessSt) (os : List Merge.Outcome)
    (hs : Pipe.compareSession ext jobs Pipe.SessSt.fresh = .ok (st, os)) :
    ∀ leaf ∈ (Pipe.sessReport st os).report.details, ∀ d ∈ leaf.2, DetailWF d := by
  obtain ⟨st', os', H, hs', hrun, hfiles, hwf, _⟩ := C05Sess.session_spec ext walk_total merge_no_type_error base_warns jobs
    Pipe.SessSt.fresh C05Sess.fresh_stdObs hok
  rw [hs] at hs'
  cases hs'
  intro leaf hleaf d hd
  obtain ⟨cat, f, data, rv, hev, rfl⟩ := C05Sess.report_details_from_history (jobs.map (·.file)) hpf (sess_files_modelled hok)
    H st.obs hrun (sess_files_mem hfiles) .nothing leaf hleaf d hd
  have := hwf _ hev
  simp only [Pipe.EvWF] at this
  rcases this with ⟨hc, t, rfl, hsh⟩ | ⟨hc, k, rfl⟩
  · have hnf : cat.isFile = false := by rcases hc with rfl | rfl <;> rfl
    exact Or.inl ⟨by simpa [ObsM.detailOf, hnf] using hc, t, by simp [ObsM.detailOf, hnf], hsh⟩
  · have hnf : cat.isFile = false := by rcases hc with rfl | rfl <;> rfl
    exact Or.inr ⟨by simpa [ObsM.detailOf, hnf] using hc, k, by simp [ObsM.detailOf, hnf]⟩

/-- **what a checker may be shared on**: the checker built for a file is a function of its class (the file name), the
    file's locale and — for a class with `needs_reference` — the parsed reference; of nothing else.  Two files that agree
    on these get EQUAL checkers, so a cache keyed by exactly these is invisible in the model; anything else a checker
    object would carry from one file into the next (scan offsets of one file's contents, a memo of its entities) has no
    counterpart in `CkCtx` and cannot be keyed. -/
theorem job_checker_key (ext : Pipe.Ext) (k : Pipe.CheckerKind) (f f' : ObsM.File) (r r' : List Pipe.PEnt)
    (hl : f.locale = f'.locale) (hr : Pipe.needsReference k = true → r.map (·.raw) = r'.map (·.raw)) :
    Pipe.fileChecker ext k f r = Pipe.fileChecker ext k f' r' := by
  unfold Pipe.fileChecker Pipe.getChecker Pipe.setReference
  cases k <;> simp_all [Pipe.needsReference]

/-- **a lint session never raises**: one `L10nLinter.lint` over any list of covered files, with or without references,
    from any value of the junk counters, returns one result list per file -/
theorem lint_session_never_raises_partial (ext : Pipe.Ext) (srcs : List Pipe.LintSrc) (hok : ∀ s ∈ srcs, C05Sess.LintSrcOK s)
    (ids : Pipe.JunkIds) : ∃ rss, Pipe.lintSession ext srcs ids = .ok rss ∧ rss.length = srcs.length :=
  C05Sess.lintSession_ok ext walk_total srcs ids hok

/-! ### non-vacuity: a session of three jobs over two formats, U+FFFD in the second and third file only -/

/-- "a = 1\nb = 2\n" / "a = �\nb = 2\n" as `.properties` -/
def exPropRef : Array Nat := #[97, 32, 61, 32, 49, 10, 98, 32, 61, 32, 50, 10]
def exPropL10n : Array Nat := #[97, 32, 61, 32, 65533, 10, 98, 32, 61, 32, 50, 10]

/-- f0/a.ini (clean), f1/a.ini (U+FFFD in `a`), f2/a.properties (U+FFFD in `a`) -/
def exSession : List Pipe.Job :=
  [{ src := .text .ini exRef exRef, file := Pipe.l10nFile [102, 48, 47, 97, 46, 105, 110, 105], mergeOn := false },
   { src := .text .ini exRef exL10n, file := Pipe.l10nFile [102, 49, 47, 97, 46, 105, 110, 105], mergeOn := true },
   { src := .text .properties exPropRef exPropL10n,
     file := Pipe.l10nFile [102, 50, 47, 97, 46, 112, 114, 111, 112, 101, 114, 116, 105, 101, 115], mergeOn := false }]

/-- a text job of a format other than dtd is covered as soon as no string id of its files begins with `_junk_` -/
theorem jobOK_text (fmt : P.Fmt) (hd : fmt ≠ .dtd) (r l : Array Nat) (rel : Pipe.Text) (m : Bool)
    (h1 : C05Clash.entityKeysOK fmt r = true) (h2 : C05Clash.entityKeysOK fmt l = true) :
    C05Sess.JobOK { src := .text fmt r l, file := Pipe.l10nFile rel, mergeOn := m } := by
  refine ⟨?_, ?_, ?_⟩
  · intro mod hmod; simp [Pipe.l10nFile, Pipe.fileNamed] at hmod
  · exact ⟨fun h => absurd h hd, h1, h2⟩
  · intro h
    cases fmt <;> simp [Pipe.JobSrc.cls, Pipe.clsOf] at h

theorem exSession_ok : ∀ j ∈ exSession, C05Sess.JobOK j := by
  intro j hj
  simp only [exSession, List.mem_cons, List.not_mem_nil, or_false] at hj
  rcases hj with rfl | rfl | rfl
  · exact jobOK_text .ini (by decide) _ _ _ _ (by decide +kernel) (by decide +kernel)
  · exact jobOK_text .ini (by decide) _ _ _ _ (by decide +kernel) (by decide +kernel)
  · exact jobOK_text .properties (by decide) _ _ _ _ (by decide +kernel) (by decide +kernel)

theorem exSession_prefixFree : C05Sess.PrefixFree (exSession.map (·.file)) := by
  have p0 : ObsM.partsOf (Pipe.l10nFile [102, 48, 47, 97, 46, 105, 110, 105]) = .ok [[102, 48], [97, 46, 105, 110, 105]] := by decide +kernel
  have p1 : ObsM.partsOf (Pipe.l10nFile [102, 49, 47, 97, 46, 105, 110, 105]) = .ok [[102, 49], [97, 46, 105, 110, 105]] := by decide +kernel
  have p2 : ObsM.partsOf (Pipe.l10nFile [102, 50, 47, 97, 46, 112, 114, 111, 112, 101, 114, 116, 105, 101, 115])
      = .ok [[102, 50], [97, 46, 112, 114, 111, 112, 101, 114, 116, 105, 101, 115]] := by decide +kernel
  intro f1 h1 f2 h2 q1 q2 hq1 hq2 hpre
  simp only [exSession, List.map_cons, List.map_nil, List.mem_cons, List.not_mem_nil, or_false] at h1 h2
  rcases h1 with rfl | rfl | rfl <;> rcases h2 with rfl | rfl | rfl <;>
    (first
      | (rw [p0] at hq1; cases hq1)
      | (rw [p1] at hq1; cases hq1)
      | (rw [p2] at hq1; cases hq1)) <;>
    (first
      | (rw [p0] at hq2; cases hq2)
      | (rw [p1] at hq2; cases hq2)
      | (rw [p2] at hq2; cases hq2)) <;>
    first
      | rfl
      | exact absurd hpre (by decide)

/-- … so the session theorems apply to it: it never raises and all three files are judged, the second and the third — after
    a clean file of the same format, resp. after two files of another format — included -/
example : ∃ st os, Pipe.compareSession default exSession Pipe.SessSt.fresh = .ok (st, os) :=
  let ⟨st, os, h, _⟩ := ufffd_warned_in_every_job default exSession exSession_ok exSession_prefixFree
  ⟨st, os, h⟩

end C05

/-
C05 — Comparison and linting always produce a report, whatever the content.
The theorems cover the parts of the pipeline that are logic of this code base; the end-to-end
claim over the external decoders/XML/Fluent parsers is decided by the execution oracle.
-/
import CLModel.Props.C01
import CLModel.Checks.Base
import CLModel.Compare.Merge
import CLModel.Proofs.RxSearch
namespace C05
open P Rx

/-- no regex parser can hang: for every format and every text the walk ends with a finite entry list -/
theorem parse_never_stuck (f : Fmt) (s : Array Nat) : ∃ es, walk f s = .done es := by
  cases f
  · obtain ⟨es, h, _⟩ := C01.walk_lossless_properties s; exact ⟨es, h⟩
  · obtain ⟨es, h, _⟩ := C01.walk_lossless_dtd s; exact ⟨es, h⟩
  · obtain ⟨es, h, _⟩ := C01.walk_lossless_ini s; exact ⟨es, h⟩
  · obtain ⟨es, h, _⟩ := C01.walk_lossless_inc s; exact ⟨es, h⟩
  · obtain ⟨es, h, _⟩ := C01.walk_lossless_po s; exact ⟨es, h⟩

/-- regex search is complete: it finds a match whenever one exists at or after the start -/
theorem search_complete {s : Array Nat} {r : Re} {pos q : Nat} {st : St}
    (hm : matchAt s r q = some st) (hle : pos ≤ q) (hq : q ≤ s.size) :
    ∃ q' st', search s r pos = some (q', st') ∧ q' ≤ q := Rx.search_complete hm hle hq

theorem mochibake_match (all : Array Nat) (i : Nat) :
    (matchAt all Gen.Pat.checks_base_mochibake i).isSome ↔ all[i]? = some 0xFFFD := by
  simp [matchAt, m, Gen.Pat.checks_base_mochibake]

/-- every entity text containing U+FFFD gets at least one "encodings" warning -/
theorem ufffd_warned (all : Array Nat) (h : 0xFFFD ∈ all.toList) :
    ∃ r ∈ Checks.baseCheck all, r.severity = .warning ∧ r.category = "encodings" := by
  obtain ⟨i, hi, hget⟩ := List.getElem_of_mem h
  have hsome : (matchAt all Gen.Pat.checks_base_mochibake i).isSome := by
    rw [mochibake_match]; simp at hi; simp [hi, ← hget]
  obtain ⟨st, hst⟩ := Option.isSome_iff_exists.mp hsome
  have hne := Rx.finditer_nonempty hst (by simp at hi; omega)
  unfold Checks.baseCheck
  cases hf : finditer all Gen.Pat.checks_base_mochibake with
  | nil => exact absurd hf hne
  | cons p ps =>
    exact ⟨{ severity := .warning, pos := p.1, category := "encodings" }, by simp, rfl, rfl⟩

/-- the base check only yields warnings, each positioned at a U+FFFD inside the text -/
theorem encoding_results_wellformed (all : Array Nat) :
    ∀ r ∈ Checks.baseCheck all, r.severity = .warning ∧ r.category = "encodings" ∧ all[r.pos]? = some 0xFFFD := by
  intro r hr
  unfold Checks.baseCheck at hr
  simp only [List.mem_map] at hr
  obtain ⟨p, hp, rfl⟩ := hr
  refine ⟨rfl, rfl, ?_⟩
  obtain ⟨_, hm⟩ := Rx.finditer_sound all _ p hp
  rcases hm with hm | hm
  · exact (mochibake_match all p.1).mp (by simp [hm])
  · simp only [matchAtNE, m, Gen.Pat.checks_base_mochibake] at hm
    split at hm
    · rename_i h; simpa using h
    · cases hm

/-- `ContentComparer.merge` raises (TypeError while sorting) only if some skip has no span … -/
theorem merge_no_type_error (mf : Bool) (caps : Nat) (contents : List Nat) (skips : List Merge.Skip)
    (ms : List (List Nat)) (h : ∀ s ∈ skips, s.span.isSome) :
    Merge.merge mf caps contents skips ms ≠ .typeError := by
  have hall : skips.all (fun s => s.span.isSome) = true := by simpa using h
  have hsort : ∀ (l : List Merge.Skip), l.all (fun s => s.span.isSome) = true → Merge.sortSkips l ≠ none := by
    intro l hl
    unfold Merge.sortSkips
    split <;> simp_all
  unfold Merge.merge
  repeat' split
  all_goals first | simp | (simp_all; done) | skip
  all_goals
    rename_i hnone
    split at hnone
    · cases hnone
    · exact absurd hnone (hsort skips hall)

/-- … and exactly then: two or more skips, one of them span-less (Android entities; finding F5) -/
theorem merge_type_error_iff (contents : List Nat) (skips : List Merge.Skip) (ms : List (List Nat)) :
    Merge.merge true Gen.Tables.CAN_SKIP contents skips ms = .typeError ↔
      (2 ≤ skips.length ∧ ∃ s ∈ skips, s.span = none) := by
  unfold Merge.merge Merge.sortSkips
  match skips with
  | [] => simp [Merge.hasCap, Gen.Tables.CAN_SKIP, Gen.Tables.CAN_COPY, Gen.Tables.CAN_NONE, Gen.Tables.CAN_MERGE]
  | [x] => simp [Merge.hasCap, Gen.Tables.CAN_SKIP, Gen.Tables.CAN_COPY, Gen.Tables.CAN_NONE, Gen.Tables.CAN_MERGE]
  | x :: y :: rest =>
    simp only [Merge.hasCap, Gen.Tables.CAN_SKIP, Gen.Tables.CAN_COPY, Gen.Tables.CAN_NONE, Gen.Tables.CAN_MERGE]
    generalize hl : x :: y :: rest = l
    have hlen : 2 ≤ l.length := by subst hl; simp
    by_cases hall : l.all (fun s => s.span.isSome) = true
    · have hno : ¬ ∃ s ∈ l, s.span = none := by
        rintro ⟨s, hs, hn⟩
        have := List.all_eq_true.mp hall s hs
        simp [hn] at this
      subst hl
      simp only [hall]
      simp
      exact ⟨fun h => hno ⟨x, by simp, h⟩, fun h => hno ⟨y, by simp, h⟩, fun z hz h => hno ⟨z, by simp [hz], h⟩⟩
    · have hex : ∃ s ∈ l, s.span = none := by
        have : ∃ s ∈ l, ¬ (s.span.isSome = true) := by
          simpa [List.all_eq_true] using hall
        obtain ⟨s, hs, hn⟩ := this
        exact ⟨s, hs, by simpa using hn⟩
      subst hl
      simp only [hall]
      simp
      obtain ⟨s, hs, hn⟩ := hex
      simp only [List.mem_cons] at hs
      rcases hs with rfl | rfl | hs
      · exact Or.inl hn
      · exact Or.inr (Or.inl hn)
      · exact Or.inr (Or.inr ⟨s, hs, hn⟩)

example : ∃ r ∈ Checks.baseCheck #[97, 0xFFFD, 98], r.pos = 1 := by decide

end C05

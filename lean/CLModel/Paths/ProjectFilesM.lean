/-
`ProjectFilesM`: the model of `ProjectFiles` (Paths/ProjectFiles.lean) run on the executable model of `Matcher`
(Paths/Matcher.lean) instead of on harness-supplied tables.  Core Lean only.

Paths/ProjectFiles.lean keeps a `Matcher` abstract: the record `MEnv` says, per matcher id and path, whether it matches,
what `sub` gives, the `prefix` and whether the pattern is wildcard-free.  Here that record is COMPUTED (`menv`) from a
list of `PM.Matcher` values, which in turn are built (`buildAll`) from what a project configuration contains: pattern
TEXT, environment texts, root, and the `with_env` binding `ProjectFiles.__init__` adds.

* `mtch m p`    = `ms[m].match(p)` is a dictionary (`PM.Matcher.match`);
* `expand o g`  = `ms[m].sub(ms[o], p)` for the call `ms[m].match(p)` that produced the id `g` (`PM.Matcher.sub`):
                  an id is the code (`encode`, an injection `List Nat → Nat`) of `m :: p`, so `expand` re-runs the pure
                  `match` exactly like the Python `sub` does;
* `pfx m`       = `ms[m].prefix` (`PM.Matcher.prefix`);
* `literal m`   = `ms[m].pattern.prefix_length == len(ms[m].pattern)`;
* `pat m`       = equality class of `ms[m].pattern` (`Pattern.__eq__`: nodes, root, prefix_length) = index of the first
                  matcher of the list with an equal pattern;
* `realpfx m`   = `mozpath.realpath(prefix)` for a prefix without `//`, `.`, `..` segments and without symbolic links:
                  trailing slashes stripped (`normReal`).

Exceptions.  `MEnv` has total fields, Python raises.  `newM` therefore accepts only tables in which every matcher is
`usable` — `prefix` returns, `re.compile` accepts the pattern and it has no `{android_locale}` group, so that
`match` cannot raise (`usable_match_ok`) — and reports everything else as `MErr.unsupported` (the harness skips and
counts those); inside the class the only call that can still raise is `sub` (a wildcard the other pattern lacks, …):
`expand` then returns `bad`, a one-element list that is not a `str`, every such value ends up in the enumeration /
lookup result (`known[l10npath]`, `reference`, `merge`), and `iterM` / `matchM` turn it into `MErr.sub`.
-/
import CLModel.Paths.ProjectFiles
import CLModel.Paths.Matcher
namespace PFM
open PF

abbrev Text := PM.Text

/-! ### an injective code `List Nat → Nat`

`[c₁, …, cₙ]` with `B = max cᵢ + 2`, `k` = number of binary digits of `B`:
`k` zero bits, a one bit, `B` in `k` bits, then the digits `cᵢ + 1` in base `B` (little endian; no digit is 0). -/

def maxOf : List Nat → Nat
  | [] => 0
  | a :: as => max a (maxOf as)

def bitsF : Nat → Nat → Nat
  | 0, _ => 0
  | f + 1, n => if n == 0 then 0 else bitsF f (n / 2) + 1

/-- number of binary digits of `n` (so `n < 2 ^ bits n`) -/
def bits (n : Nat) : Nat := bitsF n n

def encBody (B : Nat) : List Nat → Nat
  | [] => 0
  | c :: cs => (c + 1) + B * encBody B cs

def encode (l : List Nat) : Nat :=
  ((encBody (maxOf l + 2) l * 2 ^ bits (maxOf l + 2) + (maxOf l + 2)) * 2 + 1) * 2 ^ bits (maxOf l + 2)

/-- number of trailing zero bits (first argument: fuel) -/
def tzF : Nat → Nat → Nat
  | 0, _ => 0
  | f + 1, g => if g % 2 == 1 then 0 else tzF f (g / 2) + 1

def decBody (B : Nat) : Nat → Nat → List Nat
  | 0, _ => []
  | f + 1, n => if n == 0 then [] else (n % B - 1) :: decBody B f (n / B)

def decode (g : Nat) : List Nat :=
  let k := tzF g g
  let rest := g / 2 ^ k / 2
  decBody (rest % 2 ^ k) (rest / 2 ^ k) (rest / 2 ^ k)

/-! ### matchers from configuration texts -/

/-- one matcher as a configuration gives it: `Matcher(pattern, env, root)`, then optionally `.with_env(withEnv)`
    (`root` is what Python stores: `mozpath.abspath(root) + "/"`) -/
structure MSpec where
  pattern : Text
  env : List (Text × Text)
  root : Option Text
  withEnv : Option (List (Text × Text))
  deriving Repr

def MSpec.build (s : MSpec) : Except PM.PyErr PM.Matcher :=
  match PM.mkMatcher s.pattern s.env s.root with
  | .error e => .error e
  | .ok m =>
    match s.withEnv with
    | none => .ok m
    | some w => m.withEnv w

/-- all matchers of the table; the index of the first one that raises comes with the error -/
def buildAll : List MSpec → Except (Nat × PM.PyErr) (List PM.Matcher)
  | [] => .ok []
  | s :: rest =>
    match s.build with
    | .error e => .error (0, e)
    | .ok m =>
      match buildAll rest with
      | .error (i, e) => .error (i + 1, e)
      | .ok ms => .ok (m :: ms)

/-! ### the computed matcher relation -/

/-- `Matcher.match` after `_cache_regex` (the part of `PM.Matcher.match` below `regexOf`) -/
def matchCore (re : Rx.Re) (names : List Text) (path : Text) : Except PM.PyErr (Option PM.GroupDict) :=
  let s := path.toArray
  match Rx.matchAt s re 0 with
  | none => pure none
  | some st =>
    let d := PM.groupDict s st names
    if d.any (·.1 == PM.androidName) && !d.any (·.1 == PM.localeName) then
      match d.lookup PM.androidName with
      | some (some a) => do
        let l ← PM.toStandard a
        pure (some (d ++ [(PM.localeName, some l)]))
      | _ => throw .typeError
    else pure (some d)

/-- a matcher with its `prefix` and its compiled regular expression evaluated once (`_cached_re`) -/
structure Prep where
  m : PM.Matcher
  pre : Except PM.PyErr Text
  rx : Except PM.PyErr (Rx.Re × List Text)

def prep (a : PM.Matcher) : Prep := { m := a, pre := a.prefix, rx := a.regexOf }

/-- `Matcher.match(path)` -/
def Prep.matchP (x : Prep) (path : Text) : Except PM.PyErr (Option PM.GroupDict) :=
  match x.rx with
  | .error e => .error e
  | .ok (re, names) => matchCore re names path

/-- `x.sub(y, path)` -/
def Prep.subP (x y : Prep) (path : Text) : Except PM.PyErr (Option Text) :=
  match x.matchP path with
  | .error e => .error e
  | .ok none => .ok none
  | .ok (some d) =>
    match PM.expandTop y.m.pattern (PM.subEnv d y.m.env) with
    | .error e => .error e
    | .ok r => .ok (some r)

/-- what the composed model supports: `prefix` returns, `re.compile` accepts the pattern, and the pattern has no
    `{android_locale}` group (then `match` cannot raise) -/
def Prep.usable (x : Prep) : Bool :=
  (match x.pre with | .ok _ => true | .error _ => false) &&
  (match x.rx with | .ok (_, names) => !names.contains PM.androidName | .error _ => false)

def usable (a : PM.Matcher) : Bool := (prep a).usable

/-- the value of a field of `MEnv` that Python would not have computed (it raised): not a `str` -/
def bad : Path := [1114112]

/-- `mozpath.realpath(p)` for a path without `//`, `.`, `..` segments and without symbolic links -/
def normReal (p : Path) : Path :=
  if p.all (· == 47) then (if p.isEmpty then [] else [47]) else rstripSlash p

def pfxOf (ps : List Prep) (m : MId) : Path :=
  match ps[m]? with
  | some x => (match x.pre with | .ok t => t | .error _ => bad)
  | none => bad

/-- `MEnv` of a list of matchers -/
def menvP (ps : List Prep) : MEnv where
  pfx := pfxOf ps
  realpfx m := normReal (pfxOf ps m)
  pat m :=
    match ps[m]? with
    | some x => ps.findIdx (fun y => y.m.pattern == x.m.pattern)
    | none => m
  literal m :=
    match ps[m]? with
    | some x => x.m.pattern.prefixLen == x.m.pattern.nodes.length
    | none => false
  mtch m p :=
    match ps[m]? with
    | some x => (match x.matchP p with | .ok (some _) => some (encode (m :: p)) | _ => none)
    | none => none
  expand o g :=
    match decode g with
    | [] => bad
    | m :: p =>
      match ps[m]?, ps[o]? with
      | some x, some y => (match x.subP y p with | .ok (some t) => t | _ => bad)
      | _, _ => bad

def menv (ms : List PM.Matcher) : MEnv := menvP (ms.map prep)

/-! ### `ProjectFilesM` -/

inductive MErr where
  | matcher (i : Nat) (e : PM.PyErr)   -- `Matcher(...)` / `with_env` raised for entry `i` of the table
  | unsupported                        -- some matcher is not `usable`: outside the composed model
  | badId                              -- a path rule refers to a matcher that is not in the table
  | init (e : PF.Err)                  -- exception of `ProjectFiles.__init__`
  | sub                                -- a `Matcher.sub` call of the enumeration / lookup raised
  deriving Repr, DecidableEq

def ruleIdsOk (n : Nat) (r : PathRule) : Bool :=
  decide (r.l10n < n) && decide (r.merge < n) && (match r.reference with | some m => decide (m < n) | none => true)

mutual
def idsOk (n : Nat) : Config → Bool
  | .mk _ _ ps ch ex => ps.all (ruleIdsOk n) && idsOkL n ch && idsOkL n ex
def idsOkL (n : Nat) : List Config → Bool
  | [] => true
  | c :: cs => idsOk n c && idsOkL n cs
end

/-- a `ProjectFiles` object of the composed model: the matcher table, the relation computed from it (`env = menv ms`,
    kept so that every regular expression is compiled once) and the `ProjectFiles` state -/
structure Obj where
  ms : List PM.Matcher
  env : MEnv
  pf : PF

/-- `ProjectFiles(locale, projects, mergebase)` on pattern texts: the matcher table `specs` (a path rule of `projects`
    names its matchers by index) is built, checked, and `PF.new` runs on the computed relation -/
def newM (specs : List MSpec) (locale : Option Loc) (projects : List Config) (mergebase : Bool) : Except MErr Obj :=
  match buildAll specs with
  | .error (i, e) => .error (.matcher i e)
  | .ok ms =>
    if !ms.all usable then .error .unsupported
    else if !idsOkL ms.length projects then .error .badId
    else
      let env := menv ms
      match PF.new env locale projects mergebase with
      | .error e => .error (.init e)
      | .ok pf => .ok { ms := ms, env := env, pf := pf }

def cleanItem (it : Item) : Bool :=
  it.path != bad && it.reference != some bad && it.merge != some bad

/-- `list(pf)` over the regular files `fs` -/
def Obj.iterM (o : Obj) (fs : FS) : Except MErr (List Item) :=
  let its := o.pf.iter o.env fs
  if its.all cleanItem then .ok its else .error .sub

/-- `pf.match(path)` -/
def Obj.matchM (o : Obj) (path : Path) : Except MErr (Option Item) :=
  match o.pf.matchPath o.env path with
  | none => .ok none
  | some it => if cleanItem it then .ok (some it) else .error .sub

end PFM

/-
C14 — the reference interpreter of the documented filter semantics, written without the
loop / break / set / cache plumbing of the implementation.  `C14.filter_spec` proves
`Filt.filter = Spec.verdict`.  Core Lean only.
-/
import CLModel.Paths.Filter
namespace Filt.Spec
open Filt

/-- severity order: error > warning > ignore > (not covered) -/
def sev : Option Action → Nat
  | none => 0
  | some .ignore => 1
  | some .warning => 2
  | some .error => 3

/-- the more severe of two verdicts -/
def worse (a b : Option Action) : Option Action := if sev a < sev b then b else a

/-- the most severe of a list of verdicts (`none` for the empty list) -/
def mostSevere (l : List (Option Action)) : Option Action := l.foldr worse none

/-- an optional locale list names the locale -/
def names : Option (List Text) → Text → Bool
  | some ls, l => ls.contains l
  | none, _ => false

/-- an optional locale restriction allows the locale (no restriction allows all) -/
def allows : Option (List Text) → Text → Bool
  | some ls, l => ls.contains l
  | none, _ => true

/-- does rule `r` apply to the query (file, entity)?  Rules with a key apply to entity queries
    only, rules without key to file queries only. -/
def applies (r : Rule) (file : File) (entity : Option Text) : Bool :=
  r.path.matchWith file.locale file.fullpath &&
  (match r.key, entity with
   | none, none => true
   | some k, some e => k.matches e
   | _, _ => false)

/-- is the file covered by one of the configuration's own `paths` (for the file's locale)? -/
def covered (paths : List PathEntry) (file : File) : Bool :=
  paths.any (fun p =>
    allows p.locales file.locale && p.l10n.matchWith file.locale file.fullpath)

/-- the configuration's own verdict: not covered → none; otherwise the action of the LAST
    applicable rule, `error` when there is none -/
def own (paths : List PathEntry) (rules : List Rule) (file : File) (entity : Option Text) : Option Action :=
  if covered paths file then
    match (rules.filter (fun r => applies r file entity)).getLast? with
    | some r => some r.action
    | none => some .error
  else none

mutual
/-- does the project (this configuration or an included one) name the locale? -/
def hasLocale : Config → Text → Bool
  | .mk locales paths _ children _, l =>
    names locales l || paths.any (fun p => names p.locales l) ||
    hasLocaleAny children l
def hasLocaleAny : List Config → Text → Bool
  | [], _ => false
  | c :: cs, l => hasLocale c l || hasLocaleAny cs l
end

mutual
/-- verdict of a configuration before the locale test: `none` = not covered / excluded -/
def inner : Config → File → Option Text → Option Action
  | .mk _ paths rules children excludes, file, entity =>
    if excluded excludes file then none
    else mostSevere (own paths rules file entity :: innerAll children file entity)
def innerAll : List Config → File → Option Text → List (Option Action)
  | [], _, _ => []
  | c :: cs, file, entity => inner c file entity :: innerAll cs file entity
/-- some excluded configuration would report the *file* as an error -/
def excluded : List Config → File → Bool
  | [], _ => false
  | ex :: rest, file =>
    (hasLocale ex file.locale && inner ex file none == some Action.error) || excluded rest file
end

/-- the documented verdict of `config.filter(file, entity)` -/
def verdict (cfg : Config) (file : File) (entity : Option Text) : Action :=
  if hasLocale cfg file.locale then
    match inner cfg file entity with
    | some a => a
    | none => .ignore
  else .ignore

end Filt.Spec

namespace Filt.Spec
open Filt

def OneOrMany.toList {α : Type} : OneOrMany α → List α
  | .one a => [a]
  | .many l => l

/-- key part of `rawApplies`: key-less rules are for file queries, keyed rules for entity queries -/
def rawKeyApplies : Option (OneOrMany RawKey) → Option Text → Bool
  | none, none => true
  | some ks, some e => (OneOrMany.toList ks).any (fun k => (compileKey k).matches e)
  | _, _ => false

/-- documented meaning of a rule dictionary whose `path` and/or `key` may be lists:
    it applies when SOME listed path matches and (for entity queries) SOME listed key matches;
    a key starting with `re:` is a regular expression (matched at the start of the entity key,
    not anchored at its end), any other key is compared literally -/
def rawApplies (r : RawRule) (file : File) (entity : Option Text) : Bool :=
  (OneOrMany.toList r.path).any (fun p => p.matchWith file.locale file.fullpath) &&
  rawKeyApplies r.key entity

/-- own verdict stated on the rule dictionaries as written in the configuration -/
def ownRaw (paths : List PathEntry) (raws : List RawRule) (file : File) (entity : Option Text) : Option Action :=
  if covered paths file then
    match (raws.filter (fun r => rawApplies r file entity)).getLast? with
    | some r => some r.action
    | none => some .error
  else none

end Filt.Spec

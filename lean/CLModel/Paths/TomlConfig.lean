/-
Model of `compare_locales.paths.configparser.TOMLParser` (`parse`, `context`, `load`, `processBasePath`, `processEnv`,
`processPaths`, `processFilters`, `processIncludes`, `processExcludes`, `_processChild`, `processLocales`, `asConfig`) and of the
parts of `paths/project.py` it drives (`ProjectConfig.__init__`, `set_root`, `add_environment`, `add_paths`, `add_rules`,
`_compile_rule`, `add_child`, `exclude`, `set_locales` incl. `deep=True`, `configs`, `all_locales`, `same`), as a function from

* the TOML-PARSED dictionaries (`TV`, the output of `toml.load`, which stays external): `World.files` maps the absolute,
  normalised path of every readable, decodable configuration file to its dictionary; any other path is a file `load` turns
  into `ConfigNotFound` (missing, unreadable, `TomlDecodeError`);
* the command-line environment (`env`, what `-D` / `l10n_base` give to `TOMLParser().parse(path, env=…)`);
* the flag `ignore_missing_includes`

to the `ProjectConfig` object graph `PC`.  `toPFM` turns a list of such graphs into what `ProjectFilesM` (Paths/ProjectFilesM.lean)
consumes — the table of matcher TEXTS (`Matcher(text, env=pc.environ, root=pc.root)` plus the `with_env` binding
`ProjectFiles.__init__` adds) and the `PF.Config` tree — so that `enumerate` = parsing composed with enumeration is ONE function of
(dictionaries, env, file tree).  Core Lean only.

Typing.  `toml.load` returns nested `dict` / `list` / `str` / other scalars (`TV`).  `decode` reads such a value against the schema
the parser expects (`Doc`): a key that is ABSENT stays absent (`none`: the parser's `.get` default, `in` test or `KeyError` decides),
a key whose value has another type than the code assumes makes the document ill-typed (`Err.illTyped`: outside the model; what
Python does there — `TypeError`, `AttributeError`, iterating the characters of a string — is not modelled).
The key names are the TOML schema (the specification of the input), the constants `REFERENCE_LOCALE`, the `re:` prefix and the
`re.escape` table come from `Gen.Tables`.

Exceptions: `ConfigNotFound(path)`, `KeyError(key)` for a missing mandatory key, `ExcludeError`, what `Matcher(...)` /
`expand(...)` raise (`MissingEnvironment`, …), and `RecursionError` for an include cycle (the fuel of `parseF`).
`posixpath.join/normpath/dirname/abspath` are transliterated (`cwd` is an input); symbolic links are outside the model.
-/
import CLModel.Paths.ProjectFilesM
import CLModel.Gen.Tables
import CLModel.Gen.TablesCfg
namespace TC
open PF

abbrev Text := List Nat
abbrev Env := List (Text × Text)

/-- Lean string literal as a text (used for the TOML key names) -/
def T (s : String) : Text := s.toList.map Char.toNat

/-! ### posixpath -/

/-- `os.path.isabs` -/
def isabs (p : Text) : Bool := p.head? == some 47

/-- `posixpath.join(a, b)` -/
def join (a b : Text) : Text :=
  if isabs b then b
  else if a.isEmpty || a.getLast? == some 47 then a ++ b
  else a ++ [47] ++ b

def dot : Text := [46]
def dotdot : Text := [46, 46]

/-- loop body of `posixpath.normpath`; `acc` is `new_comps` reversed -/
def normStep (rooted : Bool) (acc : List Text) (comp : Text) : List Text :=
  if comp.isEmpty || comp == dot then acc
  else if comp != dotdot || (!rooted && acc.isEmpty) || acc.head? == some dotdot then comp :: acc
  else
    match acc with
    | [] => []
    | _ :: rest => rest

/-- `"/".join(comps)` -/
def joinSlash : List Text → Text
  | [] => []
  | [c] => c
  | c :: cs => c ++ [47] ++ joinSlash cs

/-- `posixpath.normpath` -/
def normpath (p : Text) : Text :=
  if p.isEmpty then dot
  else
    let slashes : Nat :=
      if isabs p then (if p.take 2 == [47, 47] && p.take 3 != [47, 47, 47] then 2 else 1) else 0
    let comps := (PM.splitOn 47 p).foldl (normStep (slashes != 0)) []
    let r := List.replicate slashes 47 ++ joinSlash comps.reverse
    if r.isEmpty then dot else r

/-- `mozpath.abspath` (`os.getcwd()` is the input `cwd`) -/
def abspath (cwd p : Text) : Text := normpath (if isabs p then p else join cwd p)

/-! ### the output of `toml.load` -/

inductive TV where
  | str (s : Text)
  | other                          -- int, float, bool, datetime
  | arr (xs : List TV)
  | tbl (kvs : List (Text × TV))

/-- one `[[paths]]` table -/
structure PathDoc where
  l10n : Option Text
  locales : Option (List Text)
  reference : Option Text
  test : Option (List Text)
  deriving Repr, DecidableEq

/-- Python: a `str` or a list of them -/
inductive OneOrMany where
  | one (a : Text)
  | many (l : List Text)
  deriving Repr, DecidableEq

/-- one `[[filters]]` table -/
structure FilterDoc where
  path : Option OneOrMany
  action : Option Text
  key : Option OneOrMany
  deriving Repr, DecidableEq

/-- one `[[includes]]` / `[[excludes]]` table -/
structure ChildDoc where
  path : Option Text
  deriving Repr, DecidableEq

/-- a configuration file, typed; `none` = the key is absent -/
structure Doc where
  basepath : Option Text
  env : Option Env
  paths : Option (List PathDoc)
  filters : Option (List FilterDoc)
  includes : Option (List ChildDoc)
  excludes : Option (List ChildDoc)
  locales : Option (List Text)
  deriving Repr, DecidableEq

def asStr : TV → Option Text
  | .str s => some s
  | _ => none

def asStrList : TV → Option (List Text)
  | .arr xs => xs.mapM asStr
  | _ => none

def asOneOrMany : TV → Option OneOrMany
  | .str s => some (.one s)
  | .arr xs => (xs.mapM asStr).map .many
  | _ => none

def asTbl : TV → Option (List (Text × TV))
  | .tbl kvs => some kvs
  | _ => none

def asTblList : TV → Option (List (List (Text × TV)))
  | .arr xs => xs.mapM asTbl
  | _ => none

/-- a `[env]` table: every value a string -/
def asEnv : TV → Option Env
  | .tbl kvs => kvs.mapM fun kv => (asStr kv.2).map (kv.1, ·)
  | _ => none

/-- field `k` read with the reader `f`: `some none` = absent, `none` = present with another type -/
def field {α} (kvs : List (Text × TV)) (k : String) (f : TV → Option α) : Option (Option α) :=
  match kvs.lookup (T k) with
  | none => some none
  | some v => (f v).map some

def decodePath (kvs : List (Text × TV)) : Option PathDoc := do
  let l ← field kvs "l10n" asStr
  let ls ← field kvs "locales" asStrList
  let r ← field kvs "reference" asStr
  let t ← field kvs "test" asStrList
  pure { l10n := l, locales := ls, reference := r, test := t }

def decodeFilter (kvs : List (Text × TV)) : Option FilterDoc := do
  let p ← field kvs "path" asOneOrMany
  let a ← field kvs "action" asStr
  let k ← field kvs "key" asOneOrMany
  pure { path := p, action := a, key := k }

def decodeChild (kvs : List (Text × TV)) : Option ChildDoc := do
  let p ← field kvs "path" asStr
  pure { path := p }

def tblListOf {α} (f : List (Text × TV) → Option α) (v : TV) : Option (List α) :=
  (asTblList v).bind fun l => l.mapM f

/-- the dictionary `toml.load` returned, read against the schema -/
def decode : TV → Option Doc
  | .tbl kvs => do
    let b ← field kvs "basepath" asStr
    let e ← field kvs "env" asEnv
    let p ← field kvs "paths" (tblListOf decodePath)
    let f ← field kvs "filters" (tblListOf decodeFilter)
    let i ← field kvs "includes" (tblListOf decodeChild)
    let x ← field kvs "excludes" (tblListOf decodeChild)
    let l ← field kvs "locales" asStrList
    pure { basepath := b, env := e, paths := p, filters := f, includes := i, excludes := x, locales := l }
  | _ => none

/-! ### the `ProjectConfig` object graph -/

/-- one element of `ProjectConfig.paths`; the stored matchers are `Matcher(l10n, env=environ, root=root)` and
    `Matcher(reference, env=environ, root=root)` of the owning config -/
structure PathD where
  l10n : Text
  reference : Option Text
  test : Option (List Text)
  locales : Option (List Text)
  module : Option Text             -- `d.get("module")`: `None` on the TOML route, the directory on the l10n.ini route
  deriving Repr, DecidableEq

/-- a compiled `rule["key"]`: the source of the regular expression given to `re.compile` -/
inductive KeyD where
  | literal (s : Text)             -- `re.compile(re.escape(key) + "$")`
  | regex (s : Text)               -- `re.compile(key[3:])`
  deriving Repr, DecidableEq

/-- `re.escape` (Python ≥ 3.7: the characters of `re._special_chars_map` get a backslash) -/
def reEscape (s : Text) : Text :=
  s.flatMap fun c => if Gen.TablesCfg.reEscapeSpecials.contains c then [92, c] else [c]

/-- tail of `_compile_rule` for one key string -/
def compileKey (k : Text) : KeyD :=
  if Gen.Tables.ruleKeyRePrefix.isPrefixOf k then .regex (k.drop Gen.Tables.ruleKeyRePrefix.length) else .literal k

/-- the source text of the compiled key regex (`rule["key"].pattern`) -/
def KeyD.source : KeyD → Text
  | .regex s => s
  | .literal s => reEscape s ++ [36]

/-- one element of `ProjectConfig.rules`; `path` is `Matcher(path, env=environ, root=root)` -/
structure RuleD where
  path : Text
  key : Option KeyD
  action : Text
  deriving Repr, DecidableEq

inductive PC where
  | mk (path : Option Text) (root : Option Text) (environ : Env) (paths : List PathD) (rules : List RuleD)
       (locales : Option (List Text)) (children : List PC) (excludes : List PC)

def PC.path : PC → Option Text | .mk p _ _ _ _ _ _ _ => p
def PC.root : PC → Option Text | .mk _ r _ _ _ _ _ _ => r
def PC.environ : PC → Env | .mk _ _ e _ _ _ _ _ => e
def PC.paths : PC → List PathD | .mk _ _ _ p _ _ _ _ => p
def PC.rules : PC → List RuleD | .mk _ _ _ _ r _ _ _ => r
def PC.locales : PC → Option (List Text) | .mk _ _ _ _ _ l _ _ => l
def PC.children : PC → List PC | .mk _ _ _ _ _ _ c _ => c
def PC.excludes : PC → List PC | .mk _ _ _ _ _ _ _ x => x

mutual
/-- `ProjectConfig.configs`: this config, then the children's, recursively (the excludes are not visited) -/
def PC.configs : PC → List PC
  | .mk p r e ps rs l ch ex => .mk p r e ps rs l ch ex :: configsL ch
def configsL : List PC → List PC
  | [] => []
  | c :: cs => c.configs ++ configsL cs
end

mutual
/-- every `ProjectConfig` object of the graph: the config, then those below its children and below its excludes -/
def PC.nodes : PC → List PC
  | .mk p r e ps rs l ch ex => .mk p r e ps rs l ch ex :: (nodesL ch ++ nodesL ex)
def nodesL : List PC → List PC
  | [] => []
  | c :: cs => c.nodes ++ nodesL cs
end

/-- Python `str.__lt__` is `PF.pathLt`; `sorted(set(…))`: insertion into a strictly increasing list -/
def insertText (x : Text) : List Text → List Text
  | [] => [x]
  | y :: ys => if pathLt x y then x :: y :: ys else if x == y then y :: ys else y :: insertText x ys

def sortedSet (l : List Text) : List Text := l.foldl (fun s x => insertText x s) []

/-- `locales` that one config adds to the set of `all_locales` -/
def ownLocales (c : PC) : List Text :=
  (match c.locales with | some l => l | none => []) ++
  c.paths.flatMap fun p => match p.locales with | some l => l | none => []

/-- `ProjectConfig.all_locales` -/
def PC.allLocales (c : PC) : List Text := sortedSet (c.configs.flatMap ownLocales)

mutual
/-- `ProjectConfig.set_locales(locales, deep=True)` -/
def PC.setLocalesDeep (ls : List Text) : PC → PC
  | .mk p r e ps rs _ ch ex => .mk p r e ps rs (some ls) (setLocalesDeepL ls ch) ex
def setLocalesDeepL (ls : List Text) : List PC → List PC
  | [] => []
  | c :: cs => c.setLocalesDeep ls :: setLocalesDeepL ls cs
end

/-- `ProjectConfig.set_locales(locales)` (`deep=False`) -/
def PC.setLocales (ls : List Text) : PC → PC
  | .mk p r e ps rs _ ch ex => .mk p r e ps rs (some ls) ch ex

/-- `Pattern.__eq__` of the patterns two texts parse to (`{ v }` and `{v}` are the same pattern) -/
def patEq (a b : Text) : Bool :=
  match PM.parsePattern a, PM.parsePattern b with
  | .ok x, .ok y => x == y
  | _, _ => a == b

/-- `dict.__eq__` for two dictionaries with distinct keys: same size, same value under every key -/
def dictEq (a b : Env) : Bool :=
  a.length == b.length && a.all fun kv => b.lookup kv.1 == some kv.2

/-- equality of two elements of `paths` (dictionaries of `Matcher`s — `Matcher.__eq__` — and plain values) -/
def pathDEq (a b : PathD) : Bool :=
  patEq a.l10n b.l10n &&
  (match a.reference, b.reference with
   | some x, some y => patEq x y
   | none, none => true
   | _, _ => false) &&
  a.test == b.test && a.locales == b.locales && a.module == b.module

/-- equality of two elements of `rules` (a compiled regular expression equals another iff the sources are equal) -/
def ruleDEq (a b : RuleD) : Bool :=
  patEq a.path b.path && a.action == b.action && a.key.map KeyD.source == b.key.map KeyD.source

def listEq {α} (f : α → α → Bool) : List α → List α → Bool
  | [], [] => true
  | a :: as, b :: bs => f a b && listEq f as bs
  | _, _ => false

mutual
/-- `ProjectConfig.same(other)` for two `ProjectConfig` objects: "equality test, ignoring locales" (and the excludes) -/
def PC.same : PC → PC → Bool
  | .mk p r e ps rs _ ch _, .mk p' r' e' ps' rs' _ ch' _ =>
    if ch.length != ch'.length then false
    else if !(p == p' && r == r' && listEq pathDEq ps ps' && listEq ruleDEq rs rs' && dictEq e e') then false
    else sameL ch ch'
/-- `for this_child, other_child in zip(…): if not this_child.same(other_child): return False` -/
def sameL : List PC → List PC → Bool
  | c :: cs, d :: ds => if !c.same d then false else sameL cs ds
  | _, _ => true
end

/-! ### errors -/

inductive Err where
  | configNotFound (path : Text)   -- `ConfigNotFound(path)`
  | keyError (key : Text)          -- `data["l10n"]`, `data["path"]`, `data["action"]`, `child_config["path"]`
  | excludeError                   -- `add_child` / `exclude`
  | recursion                      -- include cycle: `RecursionError`
  | matcher (e : PM.PyErr)         -- raised by `Matcher(...)` or `expand(...)`
  | illTyped                       -- a value of a type the code does not expect: outside the model
  deriving Repr, DecidableEq

/-! ### `ProjectConfig` methods -/

/-- `ProjectConfig.set_root(basepath)` -/
def setRoot (cwd : Text) (path : Option Text) (basepath : Text) : Option Text :=
  match path with
  | none => none
  | some p => some (abspath cwd (join (dirname p) basepath))

/-- the `root` argument as `Matcher.__init__` stores it: `mozpath.abspath(root) + "/"` -/
def matcherRoot (cwd : Text) (root : Option Text) : Option Text := root.map fun r => abspath cwd r ++ [47]

/-- `Matcher(text, env=environ, root=root)` (the object is rebuilt by whoever uses the config: only the exception counts) -/
def checkMatcher (cwd : Text) (root : Option Text) (environ : Env) (text : Text) : Except Err Unit :=
  match PM.mkMatcher text environ (matcherRoot cwd root) with
  | .error e => .error (.matcher e)
  | .ok _ => .ok ()

/-- `data.get(key, [])` / `data.get("env", {})` -/
def optL {α} : Option (List α) → List α
  | some l => l
  | none => []

/-- `processEnv`: `add_environment(**data.get("env", {}))`, then `add_environment(**ctx.env)` on the fresh `environ` -/
def processEnv (fileEnv : Option Env) (env : Env) : Env :=
  PM.dupdate (PM.dupdate [] (optL fileEnv)) env

/-- body of the loop of `processPaths` + `add_paths` for one `[[paths]]` table -/
def addPath (cwd : Text) (root : Option Text) (environ : Env) (d : PathDoc) : Except Err PathD :=
  match d.l10n with
  | none => .error (.keyError (T "l10n"))
  | some l =>
    match checkMatcher cwd root environ l with
    | .error e => .error e
    | .ok () =>
      match (match d.reference with
             | some r => checkMatcher cwd root environ r
             | none => .ok ()) with
      | .error e => .error e
      | .ok () => .ok { l10n := l, reference := d.reference, test := d.test, locales := d.locales, module := none }

/-- the path rule a `[[paths]]` table stands for (none without the mandatory `l10n`) -/
def PathDoc.toPathD? (d : PathDoc) : Option PathD :=
  d.l10n.map fun l => { l10n := l, reference := d.reference, test := d.test, locales := d.locales, module := none }

/-- `processPaths` -/
def addPaths (cwd : Text) (root : Option Text) (environ : Env) : List PathDoc → Except Err (List PathD)
  | [] => .ok []
  | d :: ds =>
    match addPath cwd root environ d with
    | .error e => .error e
    | .ok p => (addPaths cwd root environ ds).map (p :: ·)

/-- `_compile_rule` once `rule["path"]` is one `Matcher` -/
def compileKeys (path action : Text) : Option OneOrMany → List RuleD
  | none => [⟨path, none, action⟩]
  | some (.many ks) => ks.map fun k => ⟨path, some (compileKey k), action⟩
  | some (.one k) => [⟨path, some (compileKey k), action⟩]

/-- `_compile_rule` for `rule["path"]` a list (what `processFilters` always passes): `Matcher(path, …)` for every path in
    turn, each followed by its keys -/
def compilePaths (cwd : Text) (root : Option Text) (environ : Env) (action : Text) (key : Option OneOrMany) :
    List Text → Except Err (List RuleD)
  | [] => .ok []
  | p :: ps =>
    match checkMatcher cwd root environ p with
    | .error e => .error e
    | .ok () => (compilePaths cwd root environ action key ps).map (compileKeys p action key ++ ·)

/-- body of the loop of `processFilters` + `add_rules` for one `[[filters]]` table -/
def addFilter (cwd : Text) (root : Option Text) (environ : Env) (d : FilterDoc) : Except Err (List RuleD) :=
  match d.path with
  | none => .error (.keyError (T "path"))
  | some paths =>
    match d.action with
    | none => .error (.keyError (T "action"))
    | some action =>
      compilePaths cwd root environ action d.key (match paths with | .one p => [p] | .many ps => ps)

/-- `processFilters` -/
def addFilters (cwd : Text) (root : Option Text) (environ : Env) : List FilterDoc → Except Err (List RuleD)
  | [] => .ok []
  | d :: ds =>
    match addFilter cwd root environ d with
    | .error e => .error e
    | .ok rs => (addFilters cwd root environ ds).map (rs ++ ·)

/-- `add_child`: "Included configs cannot declare their own excludes." -/
def includeRefused (child : PC) : Bool := !child.excludes.isEmpty

/-- `exclude`: "Excluded configs cannot declare their own excludes." (any config of `child.configs`) -/
def excludeRefused (child : PC) : Bool := child.configs.any fun c => !c.excludes.isEmpty

/-- `mozpath.normpath(expand(ctx.pc.root, child_config["path"], ctx.pc.environ))` -/
def childPath (cwd : Text) (root : Option Text) (environ : Env) (text : Text) : Except Err Text :=
  match PM.mkMatcher text environ (matcherRoot cwd root) with
  | .error e => .error (.matcher e)
  | .ok m =>
    match m.str with
    | .error e => .error (.matcher e)
    | .ok p => .ok (normpath p)

/-- `processIncludes` / `processExcludes` = `_processChild` (a generator: every child is parsed, then handed to `add_child` /
    `exclude`, before the next one is looked at).  `parseOne p` = `self.parse(p, env=ctx.env, ignore_missing_includes=…)`,
    `refused` = the `ExcludeError` test of `add_child` resp. `exclude`. -/
def processChildren (parseOne : Text → Except Err PC) (ignore : Bool) (cwd : Text) (root : Option Text) (environ : Env)
    (refused : PC → Bool) : List ChildDoc → Except Err (List PC)
  | [] => .ok []
  | c :: cs =>
    match c.path with
    | none => .error (.keyError (T "path"))
    | some text =>
      match childPath cwd root environ text with
      | .error e => .error e
      | .ok p =>
        match parseOne p with
        | .error (.configNotFound q) =>
          if !ignore then .error (.configNotFound q)
          else processChildren parseOne ignore cwd root environ refused cs
        | .error e => .error e
        | .ok child =>
          if refused child then .error .excludeError
          else (processChildren parseOne ignore cwd root environ refused cs).map (child :: ·)

/-! ### the parser -/

/-- everything `TOMLParser` reads from outside -/
structure World where
  files : List (Text × TV)         -- absolute normalised path ↦ `toml.load` of that file
  cwd : Text

/-- `TOMLParser.load`: `ConfigNotFound` unless the file can be opened and decoded -/
def World.load (w : World) (path : Text) : Except Err Doc :=
  match w.files.lookup (abspath w.cwd path) with
  | none => .error (.configNotFound path)
  | some tv =>
    match decode tv with
    | none => .error .illTyped
    | some d => .ok d

/-- `ctx.data.get("basepath", ".")` -/
def Doc.base (d : Doc) : Text :=
  match d.basepath with
  | some b => b
  | none => dot

/-- `TOMLParser.parse(path, env, ignore_missing_includes)`; the first argument bounds the nesting of includes -/
def parseF (w : World) (env : Env) (ignore : Bool) : Nat → Text → Except Err PC
  | 0, _ => .error .recursion
  | fuel + 1, path =>
    match w.load path with
    | .error e => .error e
    | .ok doc =>
      -- processBasePath
      let root := setRoot w.cwd (some path) doc.base
      -- processEnv
      let environ := processEnv doc.env env
      -- processPaths
      match addPaths w.cwd root environ (optL doc.paths) with
      | .error e => .error e
      | .ok paths =>
        -- processFilters
        match addFilters w.cwd root environ (optL doc.filters) with
        | .error e => .error e
        | .ok rules =>
          -- processIncludes
          match processChildren (parseF w env ignore fuel) ignore w.cwd root environ includeRefused (optL doc.includes) with
          | .error e => .error e
          | .ok children =>
            -- processExcludes
            match processChildren (parseF w env ignore fuel) ignore w.cwd root environ excludeRefused (optL doc.excludes) with
            | .error e => .error e
            | .ok excludes =>
              -- processLocales, asConfig
              .ok (.mk (some path) root environ paths rules doc.locales children excludes)

/-- `TOMLParser().parse(path, env=env, ignore_missing_includes=ignore)`: a chain of includes longer than the number of
    files repeats a file, and then Python recurses until `RecursionError` -/
def parse (w : World) (env : Env) (ignore : Bool) (path : Text) : Except Err PC :=
  parseF w env ignore (w.files.length + 1) path

/-! ### from the object graph to `ProjectFilesM` -/

/-- "l10n_base" -/
def l10nBaseName : Text := T "l10n_base"

/-- what `ProjectFiles.__init__` needs besides the projects -/
structure Mode where
  locale : Option Loc
  mergebase : Option Text
  cwd : Text

/-- `locale or REFERENCE_LOCALE` -/
def Mode.boundLocale (md : Mode) : Loc :=
  match md.locale with
  | some (c :: l) => c :: l
  | _ => Gen.TablesCfg.referenceLocale

/-- `paths["l10n"].with_env({"locale": locale or REFERENCE_LOCALE})` of a config with this `root` and `environ` -/
def l10nSpec (md : Mode) (root : Option Text) (environ : Env) (text : Text) : PFM.MSpec :=
  { pattern := text, env := environ, root := matcherRoot md.cwd root, withEnv := some [(PM.localeName, md.boundLocale)] }

/-- `paths["reference"]` -/
def refSpec (md : Mode) (root : Option Text) (environ : Env) (text : Text) : PFM.MSpec :=
  { pattern := text, env := environ, root := matcherRoot md.cwd root, withEnv := none }

/-- the matchers `ProjectFiles.__init__` derives from one element of `pc.paths`, numbered from `n`:
    `paths["l10n"].with_env({"locale": locale or REFERENCE_LOCALE})`, `paths["reference"]`,
    `paths["l10n"].with_env({"locale": locale, "l10n_base": mergebase})` (the latter only when it can be built) -/
def pathSpecs (md : Mode) (root : Option Text) (environ : Env) (d : PathD) (n : Nat) : List PFM.MSpec × PathRule :=
  let r := matcherRoot md.cwd root
  let l10n : PFM.MSpec := l10nSpec md root environ d.l10n
  let refs : List PFM.MSpec :=
    match d.reference with
    | some t => [refSpec md root environ t]
    | none => []
  let merges : List PFM.MSpec :=
    match md.mergebase, md.locale with
    | some b, some l => [{ pattern := d.l10n, env := environ, root := r,
                           withEnv := some [(PM.localeName, l), (l10nBaseName, b)] }]
    | _, _ => []
  (l10n :: refs ++ merges,
   { l10n := n, reference := d.reference.map fun _ => n + 1,
     merge := if merges.isEmpty then n else n + 1 + refs.length,
     test := d.test.map fun ts => ts.map PFM.encode, locales := d.locales })

def rulesOf (md : Mode) (root : Option Text) (environ : Env) : List PathD → Nat → List PFM.MSpec × List PathRule
  | [], _ => ([], [])
  | d :: ds, n =>
    let a := pathSpecs md root environ d n
    let b := rulesOf md root environ ds (n + a.1.length)
    (a.1 ++ b.1, a.2 :: b.2)

mutual
/-- every `pc.path` of the graph, in pre-order (config, children, excludes) -/
def PC.allPaths : PC → List (Option Text)
  | .mk p _ _ _ _ _ ch ex => p :: allPathsL ch ++ allPathsL ex
def allPathsL : List PC → List (Option Text)
  | [] => []
  | c :: cs => c.allPaths ++ allPathsL cs
end

mutual
/-- the `PF.Config` tree and the matcher table (numbered from `n`) of one `ProjectConfig`; `ids` = all config paths:
    `ConfigList.maybe_extend` compares `pc.path`, the model a number that is equal iff the paths are -/
def toCfg (md : Mode) (ids : List (Option Text)) : PC → Nat → List PFM.MSpec × Config
  | .mk p root environ paths _ locales ch ex, n =>
    let a := rulesOf md root environ paths n
    let b := toCfgL md ids ch (n + a.1.length)
    let c := toCfgL md ids ex (n + a.1.length + b.1.length)
    (a.1 ++ b.1 ++ c.1, .mk (ids.findIdx (· == p)) locales a.2 b.2 c.2)
def toCfgL (md : Mode) (ids : List (Option Text)) : List PC → Nat → List PFM.MSpec × List Config
  | [], _ => ([], [])
  | c :: cs, n =>
    let a := toCfg md ids c n
    let b := toCfgL md ids cs (n + a.1.length)
    (a.1 ++ b.1, a.2 :: b.2)
end

/-- matcher table and config trees for `ProjectFiles(locale, projects, mergebase)` -/
def toPFM (md : Mode) (projects : List PC) : List PFM.MSpec × List Config :=
  toCfgL md (allPathsL projects) projects 0

/-! ### parsing composed with enumeration -/

inductive EErr where
  | parse (i : Nat) (e : Err)      -- `TOMLParser().parse` of the `i`-th configuration raised
  | files (e : PFM.MErr)           -- `ProjectFiles(...)`, `list(...)` or `match(...)`
  deriving Repr, DecidableEq

def parseAll (w : World) (env : Env) (ignore : Bool) : List Text → Except (Nat × Err) (List PC)
  | [] => .ok []
  | p :: ps =>
    match parse w env ignore p with
    | .error e => .error (0, e)
    | .ok c =>
      match parseAll w env ignore ps with
      | .error (i, e) => .error (i + 1, e)
      | .ok cs => .ok (c :: cs)

/-- `ProjectFiles(locale, [TOMLParser().parse(p, env, ignore) for p in configs], mergebase)` -/
def projectFiles (w : World) (env : Env) (ignore : Bool) (configs : List Text) (locale : Option Loc)
    (mergebase : Option Text) : Except EErr PFM.Obj :=
  match parseAll w env ignore configs with
  | .error (i, e) => .error (.parse i e)
  | .ok pcs =>
    let t := toPFM { locale := locale, mergebase := mergebase, cwd := w.cwd } pcs
    match PFM.newM t.1 locale t.2 mergebase.isSome with
    | .error e => .error (.files e)
    | .ok o => .ok o

/-- `list(ProjectFiles(locale, [parsed configs], mergebase))` over the regular files `fs`: one function of
    (dictionaries, env, file tree) -/
def enumerate (w : World) (env : Env) (ignore : Bool) (configs : List Text) (locale : Option Loc)
    (mergebase : Option Text) (fs : FS) : Except EErr (List Item) :=
  match projectFiles w env ignore configs locale mergebase with
  | .error e => .error e
  | .ok o =>
    match o.iterM fs with
    | .error e => .error (.files e)
    | .ok its => .ok its

end TC

/-
C14 composed with C11/C12: `ProjectConfig.filter` over the real `Matcher`.

`Paths/Filter.lean` models `ProjectConfig` with path matching as an ABSTRACT predicate (`PathM`).
Here the predicate is the executable model of `paths/matcher.py` (`Paths/Matcher.lean`), so that a
filter verdict is a function of the rule and path TEXTS:

* `ConfigM`  — a configuration as written: `locales`, `environ`, `root`, the `l10n` pattern texts of
  `paths`, the compiled rules with their path pattern texts (`addRulesM` = `add_rules` on texts),
  included and excluded configurations;
* `build`    — what `add_paths` / `_compile_rule` store: `Matcher(text, env=self.environ, root=self.root)`
  for every pattern (`ConfigS`); the constructor can raise (`Except`);
* `filterS`  — transliteration of `filter` / `_filter` / `cache` on the stored configuration with the raise
  sites kept: `cache(locale)` binds every matcher with `with_env({"locale": locale})`, `_filter` calls
  `match(l10n_file.fullpath)` lazily (`any(...)` short-circuits, the reverse rule scan stops at the first
  applicable rule, an `error` of an included configuration returns before the own matchers are consulted);
* `filterM`  — `build` then `filterS`: the composed verdict;
* `instantiate` — the abstract `Filt.Config` of `Filter.lean` obtained by running EVERY matcher of the
  configuration (bound to the queried locale) on the queried path; `C14.filterm_eq_filter` proves that
  `filterM` is `Filt.filter` of that configuration.

`root` is given as `Matcher` stores it (`mozpath.abspath(root) + "/"`, see Matcher.lean).  The per-locale memo
`self._cache` is not repeated here (`C14.cache_memo_sound`).  Core Lean only.
-/
import CLModel.Paths.Filter
import CLModel.Paths.Matcher
namespace FiltM
open Filt

abbrev PyErr := PM.PyErr
/-- `self.environ`: variable name ↦ pattern text -/
abbrev Environ := List (Text × Text)

/-! ### configurations as written (pattern texts) -/

/-- a compiled rule whose `path` is still the text given to `Matcher(...)` -/
structure RuleM where
  path : Text
  key : Option KeyPred
  action : Action

/-- a rule dictionary as given to `add_rules`, paths as texts -/
structure RawRuleM where
  path : OneOrMany Text
  key : Option (OneOrMany RawKey)
  action : Action

/-- a dictionary given to `add_paths` (`l10n` and `locales`; `reference`, `test`, `module` play no role in `filter`) -/
structure PathEntryM where
  l10n : Text
  locales : Option (List Text)

inductive ConfigM where
  | mk (locales : Option (List Text)) (environ : Environ) (root : Option Text)
       (paths : List PathEntryM) (rules : List RuleM)
       (children : List ConfigM) (excludes : List ConfigM)

/-- `_compile_rule` once `rule["path"]` is a single pattern (same branches as `Filt.compileKeys`) -/
def compileKeysM (path : Text) (action : Action) : Option (OneOrMany RawKey) → List RuleM
  | none => [⟨path, none, action⟩]
  | some (.many ks) => ks.map (fun k => ⟨path, some (compileKey k), action⟩)
  | some (.one k) => [⟨path, some (compileKey k), action⟩]

/-- `ProjectConfig._compile_rule` on texts -/
def compileRuleM (r : RawRuleM) : List RuleM :=
  match r.path with
  | .many ps => ps.flatMap (fun p => compileKeysM p r.action r.key)
  | .one p => compileKeysM p r.action r.key

/-- `ProjectConfig.add_rules(*rules)` on texts -/
def addRulesM (rules : List RuleM) (raws : List RawRuleM) : List RuleM :=
  raws.foldl (fun acc r => acc ++ compileRuleM r) rules


/-- `paths/configparser.py TOMLParser.processFilters` on the `[[filters]]` tables of a TOML file, in file order:
    `paths = data["path"]; if isinstance(paths, str): paths = [paths]`, `rule = {"path": paths, "action":
    data["action"]}`, `if "key" in data: rule["key"] = data["key"]`, `ctx.pc.add_rules(rule)` — one `add_rules` call
    per table, the path always handed over as a list -/
def processFiltersM (tables : List RawRuleM) : List RuleM :=
  tables.foldl (fun rules d =>
    let paths := match d.path with
      | .one p => [p]
      | .many ps => ps
    addRulesM rules [⟨.many paths, d.key, d.action⟩]) []

/-! ### the stored configuration: `Matcher` objects -/

structure RuleS where
  path : PM.Matcher
  key : Option KeyPred
  action : Action

structure PathEntryS where
  l10n : PM.Matcher
  locales : Option (List Text)

inductive ConfigS where
  | mk (locales : Option (List Text)) (paths : List PathEntryS) (rules : List RuleS)
       (children : List ConfigS) (excludes : List ConfigS)

/-- `add_paths`: `Matcher(d["l10n"], env=self.environ, root=self.root)` for every dictionary, in order -/
def buildPaths (environ : Environ) (root : Option Text) : List PathEntryM → Except PyErr (List PathEntryS)
  | [] => pure []
  | p :: ps => do
    let m ← PM.mkMatcher p.l10n environ root
    let rest ← buildPaths environ root ps
    pure (⟨m, p.locales⟩ :: rest)

/-- `_compile_rule`: `Matcher(path, env=self.environ, root=self.root)` for every rule, in order -/
def buildRules (environ : Environ) (root : Option Text) : List RuleM → Except PyErr (List RuleS)
  | [] => pure []
  | r :: rs => do
    let m ← PM.mkMatcher r.path environ root
    let rest ← buildRules environ root rs
    pure (⟨m, r.key, r.action⟩ :: rest)

mutual
/-- building the `ProjectConfig` object tree: own paths, own rules, then the included and the excluded
    configurations -/
def build : ConfigM → Except PyErr ConfigS
  | .mk locales environ root paths rules children excludes => do
    let ps ← buildPaths environ root paths
    let rs ← buildRules environ root rules
    let cs ← buildList children
    let es ← buildList excludes
    pure (.mk locales ps rs cs es)
def buildList : List ConfigM → Except PyErr (List ConfigS)
  | [] => pure []
  | c :: cs => do
    let c' ← build c
    let cs' ← buildList cs
    pure (c' :: cs')
end

/-! ### `all_locales` on the stored configuration (as `Filt.allLocales`) -/

def ownLocalesS (locales : Option (List Text)) (paths : List PathEntryS) : List Text :=
  optLocales locales ++ paths.flatMap (fun p => optLocales p.locales)

mutual
def allLocalesS : ConfigS → List Text
  | .mk locales paths _ children _ => ownLocalesS locales paths ++ allLocalesListS children
def allLocalesListS : List ConfigS → List Text
  | [] => []
  | c :: cs => allLocalesS c ++ allLocalesListS cs
end

/-! ### the per-locale cache -/

/-- the environment `cache` passes to `with_env`: `{"locale": locale}` -/
def localeEnv (locale : Text) : Environ := [(PM.localeName, locale)]

/-- `matcher.match(fullpath) is not None` -/
def matchesS (m : PM.Matcher) (fullpath : Text) : Except PyErr Bool := do
  let r ← m.match fullpath
  pure r.isSome

structure CachedRuleS where
  path : PM.Matcher
  key : Option KeyPred
  action : Action

structure FilterCacheS where
  locale : Text
  rules : List CachedRuleS
  l10nPaths : List PM.Matcher

/-- negation of `"locales" in paths and locale not in paths["locales"]` -/
def enabledFor (locales : Option (List Text)) (locale : Text) : Bool :=
  match locales with
  | some ls => ls.contains locale
  | none => true

/-- first loop of `cache`: `paths["l10n"].with_env({"locale": locale})` for the enabled paths -/
def cachePaths (locale : Text) : List PathEntryS → Except PyErr (List PM.Matcher)
  | [] => pure []
  | p :: ps =>
    if !enabledFor p.locales locale then cachePaths locale ps      -- `continue`
    else do
      let m ← p.l10n.withEnv (localeEnv locale)
      let rest ← cachePaths locale ps
      pure (m :: rest)

/-- second loop of `cache`: `rule["path"].with_env({"locale": locale})` for every rule -/
def cacheRules (locale : Text) : List RuleS → Except PyErr (List CachedRuleS)
  | [] => pure []
  | r :: rs => do
    let m ← r.path.withEnv (localeEnv locale)
    let rest ← cacheRules locale rs
    pure (⟨m, r.key, r.action⟩ :: rest)

/-- the body of `ProjectConfig.cache(locale)` after the early return -/
def cacheS (paths : List PathEntryS) (rules : List RuleS) (locale : Text) : Except PyErr FilterCacheS := do
  let ps ← cachePaths locale paths
  let rs ← cacheRules locale rules
  pure { locale := locale, rules := rs, l10nPaths := ps }

/-! ### `_filter` -/

/-- `any(p.match(l10n_file.fullpath) is not None for p in cached.l10n_paths)` (short-circuit) -/
def anyMatchS (fullpath : Text) : List PM.Matcher → Except PyErr Bool
  | [] => pure false
  | p :: ps => do
    if (← matchesS p fullpath) then pure true else anyMatchS fullpath ps

/-- `for rule in reversed(cached.rules): … break`, started with `action = "error"`;
    the argument is the already reversed list; the path is matched first, and only if it matches
    are the key tests made -/
def scanRulesS (fullpath : Text) (entity : Option Text) : List CachedRuleS → Except PyErr Action
  | [] => pure .error
  | rule :: rest => do
    if !(← matchesS rule.path fullpath) then scanRulesS fullpath entity rest
    else if rule.key.isSome != entity.isSome then scanRulesS fullpath entity rest
    else
      match rule.key, entity with
      | some k, some e => if !k.matches e then scanRulesS fullpath entity rest else pure rule.action
      | _, _ => pure rule.action

/-- the part of `_filter` after the children: `cache`, the covered test, the rule scan, the final tests -/
def ownStepS (paths : List PathEntryS) (rules : List RuleS) (file : File) (entity : Option Text)
    (actions : List (Option Action)) : Except PyErr (Option Action) := do
  let cached ← cacheS paths rules file.locale
  if (← anyMatchS file.fullpath cached.l10nPaths) then
    let a ← scanRulesS file.fullpath entity cached.rules.reverse
    pure (pick (actions ++ [some a]))
  else pure (pick actions)

mutual
/-- `ProjectConfig._filter(l10n_file, entity)` -/
def filterInnerS : ConfigS → File → Option Text → Except PyErr (Option Action)
  | .mk _ paths rules children excludes, file, entity => do
    if (← anyExcludeErrorS excludes file) then pure none else
    let actions ← childActionsS children file entity
    if actions.contains (some .error) then pure (some .error) else
    ownStepS paths rules file entity actions
/-- `{child._filter(l10n_file, entity=entity) for child in self.children}` (every child is evaluated) -/
def childActionsS : List ConfigS → File → Option Text → Except PyErr (List (Option Action))
  | [], _, _ => pure []
  | c :: cs, file, entity => do
    let a ← filterInnerS c file entity
    let rest ← childActionsS cs file entity
    pure (a :: rest)
/-- `any(exclude.filter(l10n_file) == "error" for exclude in self.excludes)` (short-circuit), with the
    body of `filter` inlined for the structural recursion -/
def anyExcludeErrorS : List ConfigS → File → Except PyErr Bool
  | [], _ => pure false
  | ex :: rest, file => do
    let hit ←
      if !(allLocalesS ex).contains file.locale then pure false       -- "ignore" == "error"
      else do
        match ← filterInnerS ex file none with
        | none => pure false                                          -- "ignore" == "error"
        | some a => pure (a == Action.error)
    if hit then pure true else anyExcludeErrorS rest file
end

/-- `ProjectConfig.filter(l10n_file, entity=None)` on the stored configuration (`filter_py is None`) -/
def filterS (cfg : ConfigS) (file : File) (entity : Option Text) : Except PyErr Action := do
  if !(allLocalesS cfg).contains file.locale then pure .ignore else
  match ← filterInnerS cfg file entity with
  | none => pure .ignore
  | some a => pure a

/-- the composed verdict: build the configuration from its texts, then `filter` -/
def filterM (cfg : ConfigM) (file : File) (entity : Option Text) : Except PyErr Action := do
  let s ← build cfg
  filterS s file entity

/-! ### the abstract configuration of `Filter.lean` for one query -/

/-- the abstract path predicate of a stored `Matcher` for the query (locale, fullpath):
    `m.with_env({"locale": locale}).match(fullpath) is not None` -/
def evalMatcher (m : PM.Matcher) (locale fullpath : Text) : Except PyErr PathM := do
  let b ← m.withEnv (localeEnv locale)
  let r ← matchesS b fullpath
  pure ⟨fun _ _ => r⟩

def evalPaths (locale fullpath : Text) : List PathEntryS → Except PyErr (List PathEntry)
  | [] => pure []
  | p :: ps => do
    let m ← evalMatcher p.l10n locale fullpath
    let rest ← evalPaths locale fullpath ps
    pure (⟨m, p.locales⟩ :: rest)

def evalRules (locale fullpath : Text) : List RuleS → Except PyErr (List Rule)
  | [] => pure []
  | r :: rs => do
    let m ← evalMatcher r.path locale fullpath
    let rest ← evalRules locale fullpath rs
    pure (⟨m, r.key, r.action⟩ :: rest)

mutual
/-- every matcher of the stored configuration (own, included, excluded), bound to `locale` and run on
    `fullpath`: the `Filt.Config` whose path predicates are those answers -/
def evalS : ConfigS → Text → Text → Except PyErr Config
  | .mk locales paths rules children excludes, locale, fullpath => do
    let ps ← evalPaths locale fullpath paths
    let rs ← evalRules locale fullpath rules
    let cs ← evalListS children locale fullpath
    let es ← evalListS excludes locale fullpath
    pure (.mk locales ps rs cs es)
def evalListS : List ConfigS → Text → Text → Except PyErr (List Config)
  | [], _, _ => pure []
  | c :: cs, locale, fullpath => do
    let c' ← evalS c locale fullpath
    let cs' ← evalListS cs locale fullpath
    pure (c' :: cs')
end

/-- `instantiate cfg locale fullpath`: the abstract configuration for queries about the file
    `fullpath` of locale `locale` — all `Matcher(...)` constructions, all `with_env({"locale": locale})`
    and all `match(fullpath)` calls made eagerly -/
def instantiate (cfg : ConfigM) (locale fullpath : Text) : Except PyErr Config := do
  let s ← build cfg
  evalS s locale fullpath

/-- the matcher `_filter` consults for one pattern text and a file of locale `locale`:
    `Matcher(pat, env=environ, root=root).with_env({"locale": locale})` -/
def boundMatcher (environ : Environ) (root : Option Text) (pat locale : Text) : Except PyErr PM.Matcher := do
  let m ← PM.mkMatcher pat environ root
  m.withEnv (localeEnv locale)

/-- the boolean a single pattern text contributes: `boundMatcher(...).match(fullpath) is not None` -/
def patMatches (environ : Environ) (root : Option Text) (pat locale fullpath : Text) : Except PyErr Bool := do
  let b ← boundMatcher environ root pat locale
  matchesS b fullpath

end FiltM

/-
Model of compare_locales/paths/matcher.py (Matcher, Pattern, Node classes, PatternParser,
Android locale mapping) and of the legacy glob compare_locales/mozpath.py `match`.
Transliteration: same branches in the same order; partial operations are `Except PyErr`.
Regexes, regex fragments and the Android tables come from `Gen.*` (regenerated on every run).

Representation choices (validated by the differential correspondence, see Ops/C11.lean):
* text = `List Nat` of code points;
* a Python dict is an association list in insertion order (`set` replaces in place or appends);
* the regular expression that `regex_pattern` assembles as a *string* is assembled as an `Rx.Re`
  AST (`re.escape(s)` then `re.compile` = the sequence of literal characters of `s`); a named group
  `(?P<name>…)` is `Re.group (encName name) …`, i.e. group *numbers* are an injective encoding of
  the group *names*; the errors `re.compile` raises for such patterns (redefinition of a group name,
  reference to an unknown/open group, bad group name) are the check `wfRe`/`validName`;
* unbounded recursion (`RecursionError`) is running out of `fuelFor env` (no terminating
  evaluation nests deeper than that, see `C12.no_cycle_terminates`);
* `encoding` is `None` (the only value compare-locales itself uses); `root` is given as Python
  stores it (`mozpath.abspath(root) + "/"`, the `os.path` call is outside the model).
-/
import CLModel.Rx.Basic
import CLModel.Gen.Regexes
import CLModel.Gen.Tables
namespace PM
open Rx

abbrev Text := List Nat

inductive PyErr where
  | keyError | missingEnv | reError | recursion | typeError | indexError
  | notStr    -- internal: `Star.expand` returned an object that is not a `str` (TypeError once it is used)
  deriving Repr, DecidableEq, Inhabited

inductive Node where
  | lit (s : Text)
  | var (name : Text) (rep : Bool)
  | android (rep : Bool)
  | star (n : Nat)
  | starstar (n : Nat) (suffix : Text)
  deriving Repr, DecidableEq, Inhabited

structure Pattern where
  nodes : List Node
  root : Option Text
  prefixLen : Nat
  deriving Repr, DecidableEq, Inhabited

/-- value of an environment entry: a parsed `Pattern` (Matcher.env) or a `Literal` (the captures in `sub`) -/
inductive Val where
  | str (s : Text)
  | pat (p : Pattern)
  deriving Repr, DecidableEq, Inhabited

abbrev Env := List (Text × Val)

/-- "locale" -/
def localeName : Text := [108, 111, 99, 97, 108, 101]
/-- "android_locale" -/
def androidName : Text := [97, 110, 100, 114, 111, 105, 100, 95, 108, 111, 99, 97, 108, 101]

/-! ### dict operations -/

def dset {β} (d : List (Text × β)) (k : Text) (v : β) : List (Text × β) :=
  if d.any (·.1 == k) then d.map (fun p => if p.1 == k then (k, v) else p) else d ++ [(k, v)]

def dupdate {β} (d other : List (Text × β)) : List (Text × β) :=
  other.foldl (fun e p => dset e p.1 p.2) d

/-- `env.copy(); env.pop(name)` (only called when the name is present; a no-op otherwise) -/
def derase {β} (d : List (Text × β)) (k : Text) : List (Text × β) := d.filter (fun p => !(p.1 == k))

/-! ### small string helpers -/

def slice (s : Array Nat) (a b : Nat) : Text := (s.extract a b).toList

def groupText (s : Array Nat) (st : St) (g : Nat) : Option Text :=
  match st.group g with
  | some (a, b) => some (slice s a b)
  | none => none

/-- Python truthiness of `match.group(..)`: not None and not empty -/
def truthy : Option Text → Bool
  | some (_ :: _) => true
  | _ => false

def natDecAux : Nat → Nat → Text → Text
  | 0, _, acc => acc
  | f + 1, n, acc =>
    let acc' := (48 + n % 10) :: acc
    if n / 10 = 0 then acc' else natDecAux f (n / 10) acc'

/-- `"%d" % n` -/
def natDec (n : Nat) : Text := natDecAux (n + 1) n []

/-- `"s%d" % n` -/
def sname (n : Nat) : Text := 115 :: natDec n

/-- `str.replace(old, new)` for non-empty `old` -/
def replaceAll (old new : Text) : Nat → Text → Text
  | 0, s => s
  | _ + 1, [] => []
  | f + 1, c :: cs =>
    if !old.isEmpty && old.isPrefixOf (c :: cs) then new ++ replaceAll old new f ((c :: cs).drop old.length)
    else c :: replaceAll old new f cs

def splitOnAux (sep : Nat) : Text → Text → List Text
  | [], cur => [cur.reverse]
  | c :: cs, cur => if c == sep then cur.reverse :: splitOnAux sep cs [] else splitOnAux sep cs (c :: cur)

/-- `str.split(sep)` for a one-character separator -/
def splitOn (sep : Nat) (s : Text) : List Text := splitOnAux sep s []

def lookupTable (t : List (Text × Text)) (k : Text) : Except PyErr Text :=
  match t.lookup k with
  | some v => pure v
  | none => throw .keyError

/-- `re.sub(pattern, callback, s)` with a callback that may raise -/
def subWithE (s : Array Nat) (r : Re) (f : St → Except PyErr Text) : Except PyErr Text :=
  let rec go : List (Nat × St) → Nat → Except PyErr Text
    | [], last => pure (slice s last s.size)
    | (q, st) :: rest, last => do
      let x ← f st
      let tl ← go rest st.pos
      pure (slice s last q ++ x ++ tl)
  go (finditer s r) 0

/-! ### Android locale codes -/

/-- the conversion part of `AndroidLocale._get_android_locale` (BCP 47 -> resource qualifier) -/
def toAndroid (bcp47 : Text) : Except PyErr Text := do
  let s := bcp47.toArray
  let b ← subWithE s Gen.Pat.paths_matcher_AndroidLocale__get_android_locale_0 (fun st =>
    match groupText s st 1 with
    | some g => lookupTable Gen.Tables.androidLegacyMap g
    | none => throw .keyError)
  if (matchAt b.toArray Gen.Pat.paths_matcher_AndroidLocale__get_android_locale_1 0).isSome then
    match splitOn 45 b with
    | p0 :: p1 :: _ => pure (p0 ++ [45, 114] ++ p1)
    | _ => throw .indexError
  else if b.contains 45 then
    pure ([98, 43] ++ replaceAll [45] [43] (b.length + 1) b)
  else pure b

/-- the conversion part of `Matcher.match` (resource qualifier -> BCP 47): first `b+..+..` is
    normalised, then the legacy language codes are mapped back, then `-rXX` becomes `-XX` -/
def toStandard (android : Text) : Except PyErr Text := do
  -- `if locale.startswith("b+"): locale = locale[2:]` (only the leading marker is stripped)
  let l0 := if [98, 43].isPrefixOf android then android.drop 2 else android
  let l1 := replaceAll [43] [45] (l0.length + 1) l0
  let s := l1.toArray
  let l2 ← subWithE s Gen.Pat.paths_matcher_Matcher_match_0 (fun st =>
    match groupText s st 1 with
    | some g => lookupTable Gen.Tables.androidStandardMap g
    | none => throw .keyError)
  let s2 := l2.toArray
  subWithE s2 Gen.Pat.paths_matcher_Matcher_match_1 (fun st =>
    match groupText s2 st 1 with
    | some g => pure (45 :: g)
    | none => pure [45])

/-! ### PatternParser -/

structure PState where
  nodes : List Node
  star : Nat
  known : List Text
  cursor : Nat
  prefixLen : Option Nat
  deriving Repr

def gStarstar := Gen.Pat.paths_matcher_PATH_SPECIAL_g_starstar
def gSuffix := Gen.Pat.paths_matcher_PATH_SPECIAL_g_suffix
def gStar := Gen.Pat.paths_matcher_PATH_SPECIAL_g_star
def gVariable := Gen.Pat.paths_matcher_PATH_SPECIAL_g_variable
def gVarname := Gen.Pat.paths_matcher_PATH_SPECIAL_g_varname

/-- `PatternParser.variable` -/
def stepVariable (s : Array Nat) (st : St) (ps : PState) : Except PyErr PState :=
  match groupText s st gVarname with
  | none => throw .typeError
  | some name =>
    let node := if name == androidName then Node.android (ps.known.contains name)
                else Node.var name (ps.known.contains name)
    pure { ps with nodes := ps.nodes ++ [node], known := name :: ps.known }

/-- "wildcard found, stop prefix" -/
def markPrefix (ps : PState) : PState :=
  match ps.prefixLen with
  | none => { ps with prefixLen := some ps.nodes.length }
  | some _ => ps

/-- `PatternParser.wildcard` -/
def stepWildcard (s : Array Nat) (st : St) (ps : PState) : Except PyErr PState :=
  let ps := markPrefix ps
  let w := ps.star
  let ps := { ps with star := w + 1 }
  if truthy (groupText s st gStar) then
    pure { ps with nodes := ps.nodes ++ [.star w] }
  else
    match groupText s st gSuffix with
    | some sfx => pure { ps with nodes := ps.nodes ++ [.starstar w sfx] }
    | none => throw .typeError

/-- one iteration of the `finditer` loop of `PatternParser.parse` (literal before the match, then `handle`) -/
def parseStep (s : Array Nat) (ps : PState) (q : Nat) (st : St) : Except PyErr PState := do
  let ps := if q > ps.cursor then { ps with nodes := ps.nodes ++ [.lit (slice s ps.cursor q)] } else ps
  let ps ← if truthy (groupText s st gVariable) then stepVariable s st ps else stepWildcard s st ps
  pure { ps with cursor := st.pos }

def parseLoop (s : Array Nat) : List (Nat × St) → PState → Except PyErr PState
  | [], ps => pure ps
  | (q, st) :: rest, ps => do
    let ps ← parseStep s ps q st
    parseLoop s rest ps

/-- `PatternParser.parse(pattern)` for a string -/
def parsePattern (pattern : Text) : Except PyErr Pattern := do
  let s := pattern.toArray
  let ps ← parseLoop s (finditer s Gen.Pat.paths_matcher_PATH_SPECIAL)
    { nodes := [], star := 1, known := [], cursor := 0, prefixLen := none }
  let nodes := ps.nodes ++ [.lit (slice s ps.cursor s.size)]
  let pl := match ps.prefixLen with
    | some n => n
    | none => nodes.length
  pure { nodes := nodes, root := none, prefixLen := pl }

/-! ### Matcher construction -/

structure Matcher where
  pattern : Pattern
  env : Env
  deriving Repr

/-- `{k: parser.parse(v) for k, v in env.items()}` (keys of a dict are distinct) -/
def realEnv : List (Text × Text) → Except PyErr Env
  | [] => pure []
  | (k, v) :: rest => do
    let p ← parsePattern v
    let e ← realEnv rest
    pure ((k, .pat p) :: e)

/-- `Matcher(pattern, env, root)`; `root` is `mozpath.abspath(root) + "/"` computed by the caller -/
def mkMatcher (pattern : Text) (env : List (Text × Text)) (root : Option Text) : Except PyErr Matcher := do
  let e ← realEnv env
  let p ← parsePattern pattern
  pure { pattern := { p with root := root }, env := e }

/-- `Matcher.with_env(environ)` = `Matcher(self, environ)` -/
def Matcher.withEnv (m : Matcher) (env : List (Text × Text)) : Except PyErr Matcher := do
  let e ← realEnv env
  pure { pattern := m.pattern, env := dupdate m.env e }

/-! ### expansion -/

abbrev ExpRec := Val → Env → Bool → Except PyErr Text

def isabs (seg : Text) : Bool := seg.head? == some 47

/-- `AndroidLocale._get_android_locale(env)` -/
def getAndroidLocale (rec : ExpRec) (env : Env) : Except PyErr (Option Text) :=
  match env.lookup localeName with
  | none => pure none
  | some v => do
    let b ← rec v (derase env androidName) false
    let a ← toAndroid b
    pure (some a)

/-- `child.expand(env, raise_missing=rm)` for a node -/
def expandNode (rec : ExpRec) (n : Node) (env : Env) (rm : Bool) : Except PyErr Text :=
  match n with
  | .lit s => pure s
  | .var name _ =>
    match env.lookup name with
    | none => throw .missingEnv
    | some v => rec v (derase env name) rm
  | .android _ => do
    match ← getAndroidLocale rec env with
    | none => throw .missingEnv
    | some a => pure a
  | .star n | .starstar n _ =>
    match env.lookup (sname n) with
    | none => throw .keyError
    | some (.str s) => pure s
    | some (.pat _) => throw .notStr

/-- `"".join(self._expand_children(env, raise_missing))` -/
def expandChildren (rec : ExpRec) : List Node → Env → Bool → Except PyErr Text
  | [], _, _ => pure []
  | c :: cs, env, rm =>
    match expandNode rec c env true with
    | .error .missingEnv => if rm then throw .missingEnv else pure []
    | .error .notStr =>
      -- the generator goes on; `"".join` complains about the non-string item afterwards
      match expandChildren rec cs env rm with
      | .ok _ => throw .typeError
      | .error e => throw e
    | .error e => throw e
    | .ok s => do
      let tl ← expandChildren rec cs env rm
      pure (s ++ tl)

/-- the `root` decision shared by `Pattern.expand` and `Pattern.regex_pattern` -/
def rootOf (rec : ExpRec) (p : Pattern) (env : Env) : Except PyErr Text :=
  match p.root with
  | none => pure []
  | some r =>
    match p.nodes with
    | [] => throw .indexError
    | n0 :: _ =>
      match expandNode rec n0 env false with
      | .error .notStr => throw .typeError      -- os.path.isabs(non-string)
      | .error e => throw e
      | .ok seg => pure (if isabs seg then [] else r)

/-- `Pattern.expand(env, raise_missing)` -/
def expandPat (rec : ExpRec) (p : Pattern) (env : Env) (rm : Bool) : Except PyErr Text := do
  let root ← rootOf rec p env
  let body ← expandChildren rec p.nodes env rm
  pure (root ++ body)

/-- `value.expand(env, raise_missing)` for an environment value; the first argument bounds the nesting -/
def expandVal : Nat → Val → Env → Bool → Except PyErr Text
  | _, .str s, _, _ => pure s
  | 0, .pat _, _, _ => throw .recursion
  | f + 1, .pat p, env, rm => expandPat (expandVal f) p env rm

def fuelFor (env : Env) : Nat := 2 * env.length + 3

/-- `pattern.expand(env)` at top level -/
def expandTop (p : Pattern) (env : Env) : Except PyErr Text :=
  expandPat (expandVal (fuelFor env)) p env false

/-- `Matcher.__str__` -/
def Matcher.str (m : Matcher) : Except PyErr Text := expandTop m.pattern m.env

/-- `Pattern(self.pattern[: self.pattern.prefix_length])` with the root copied -/
def Matcher.prefixPattern (m : Matcher) : Pattern :=
  { nodes := m.pattern.nodes.take m.pattern.prefixLen, root := m.pattern.root, prefixLen := m.pattern.prefixLen }

/-- `Matcher.prefix` -/
def Matcher.prefix (m : Matcher) : Except PyErr Text := expandTop m.prefixPattern m.env

/-! ### regular expression -/

def seqOf : List Re → Re
  | [] => .eps
  | [x] => x
  | x :: y :: rest => .seq x (seqOf (y :: rest))

/-- group number standing for a group name (injective: base-1114112 digits + 1) -/
def encName (name : Text) : Nat := name.foldl (fun acc c => acc * 1114112 + c + 1) 0

abbrev RxRec := Val → Env → Except PyErr (List Re × List Text)

/-- `child.regex_pattern(env)` : regex items and the group names they define (in order) -/
def rxNode (rec : RxRec) (n : Node) (env : Env) : Except PyErr (List Re × List Text) :=
  match n with
  | .lit s => pure (s.map Re.lit, [])
  | .var name rep =>
    if rep then pure ([Re.backref (encName name)], [])
    else
      match env.lookup name with
      | some v => do
        let (body, ns) ← rec v (derase env name)
        pure ([Re.group (encName name) (seqOf body)], name :: ns)
      | none => pure ([Re.group (encName name) Gen.Pat.matcher_frag_var], [name])
  | .android rep =>
    if rep then pure ([Re.backref (encName androidName)], [])
    else do
      match ← getAndroidLocale (expandVal (fuelFor env)) env with
      | some a => pure ([Re.group (encName androidName) (seqOf (a.map Re.lit))], [androidName])
      | none => pure ([Re.group (encName androidName) Gen.Pat.matcher_frag_var], [androidName])
  | .star n => pure ([Re.group (encName (sname n)) Gen.Pat.matcher_frag_star], [sname n])
  | .starstar n sfx =>
    pure ([Re.alt (Re.group (encName (sname n)) (seqOf (Gen.Pat.matcher_frag_starstar :: sfx.map Re.lit))) Re.eps],
          [sname n])

def rxChildren (rec : RxRec) : List Node → Env → Except PyErr (List Re × List Text)
  | [], _ => pure ([], [])
  | c :: cs, env => do
    let (a, na) ← rxNode rec c env
    let (b, nb) ← rxChildren rec cs env
    pure (a ++ b, na ++ nb)

/-- `Pattern.regex_pattern(env)` -/
def rxPat (rec : RxRec) (p : Pattern) (env : Env) : Except PyErr (List Re × List Text) := do
  let root ← rootOf (expandVal (fuelFor env)) p env
  let (items, names) ← rxChildren rec p.nodes env
  pure (root.map Re.lit ++ items, names)

def rxVal : Nat → Val → Env → Except PyErr (List Re × List Text)
  | _, .str s, _ => pure (s.map Re.lit, [])
  | 0, .pat _, _ => throw .recursion
  | f + 1, .pat p, env => rxPat (rxVal f) p env

/-- what `re.compile` checks about groups: no name defined twice, references only to closed groups.
    State: (defined groups, open groups). -/
def wfRe : Re → List Nat × List Nat → Option (List Nat × List Nat)
  | .group i r, (d, o) =>
    if d.contains i then none else
    match wfRe r (i :: d, i :: o) with
    | some (d', o') => some (d', o'.erase i)
    | none => none
  | .backref i, (d, o) => if d.contains i && !o.contains i then some (d, o) else none
  | .seq a b, s => match wfRe a s with
    | some s' => wfRe b s'
    | none => none
  | .alt a b, s => match wfRe a s with
    | some s' => wfRe b s'
    | none => none
  | .rep _ _ _ r, s => wfRe r s
  | .look _ _ r, s => wfRe r s
  | _, s => some s

def isAsciiAlpha (c : Nat) : Bool := (65 ≤ c && c ≤ 90) || (97 ≤ c && c ≤ 122) || c == 95
def isAsciiDigit (c : Nat) : Bool := 48 ≤ c && c ≤ 57

/-- `str.isidentifier()` on ASCII names (non-ASCII variable names are outside the model) -/
def validName : Text → Bool
  | [] => false
  | c :: cs => isAsciiAlpha c && cs.all (fun d => isAsciiAlpha d || isAsciiDigit d)

/-- `Matcher._cache_regex`: the compiled pattern and its group names (`groupindex` order) -/
def Matcher.regexOf (m : Matcher) : Except PyErr (Re × List Text) := do
  let (items, names) ← rxPat (rxVal (fuelFor m.env)) m.pattern m.env
  let re := seqOf (items ++ [Gen.Pat.matcher_frag_anchor])
  if names.all validName && (wfRe re ([], [])).isSome then pure (re, names) else throw .reError

abbrev GroupDict := List (Text × Option Text)

/-- `m.groupdict()` -/
def groupDict (s : Array Nat) (st : St) (names : List Text) : GroupDict :=
  names.map (fun nm => (nm, groupText s st (encName nm)))

/-- `Matcher.match(path)` -/
def Matcher.match (m : Matcher) (path : Text) : Except PyErr (Option GroupDict) := do
  let (re, names) ← m.regexOf
  let s := path.toArray
  match matchAt s re 0 with
  | none => pure none
  | some st =>
    let d := groupDict s st names
    if d.any (·.1 == androidName) && !d.any (·.1 == localeName) then
      match d.lookup androidName with
      | some (some a) => do
        let l ← toStandard a
        pure (some (d ++ [(localeName, some l)]))
      | _ => throw .typeError
    else pure (some d)

/-- the environment `sub` builds: captures as Literals, then `other.env` on top -/
def subEnv (d : GroupDict) (otherEnv : Env) : Env :=
  let caps : Env := d.foldl (fun e p => dset e p.1 (.str (match p.2 with | some t => t | none => []))) []
  dupdate caps otherEnv

/-- `self.sub(other, path)` -/
def Matcher.sub (self other : Matcher) (path : Text) : Except PyErr (Option Text) := do
  match ← self.match path with
  | none => pure none
  | some d =>
    let r ← expandTop other.pattern (subEnv d other.env)
    pure (some r)

/-! ### mozpath.match -/

def mozStep (ps : Array Nat) (acc : List Re × Nat) (q : Nat) (st : St) : Except PyErr (List Re × Nat) := do
  let items := if q > acc.2 then acc.1 ++ (slice ps acc.2 q).map Re.lit else acc.1
  let items ←
    if truthy (groupText ps st Gen.Pat.mozpath_match_0_g_star) then
      pure (items ++ [Gen.Pat.mozpath_frag_star])
    else
      match groupText ps st 1 with
      | none => throw .typeError
      | some g1 =>
        match groupText ps st 2 with
        | some (c :: cs) =>
          pure (items ++ g1.map Re.lit ++
            [Re.alt (seqOf (Gen.Pat.mozpath_frag_anyplus :: (c :: cs).map Re.lit)) Re.eps])
        | _ => pure (items ++ [Re.alt (seqOf (g1.map Re.lit ++ [Gen.Pat.mozpath_frag_anyplus])) Re.eps])
  pure (items, st.pos)

def mozLoop (ps : Array Nat) : List (Nat × St) → List Re × Nat → Except PyErr (List Re × Nat)
  | [], acc => pure acc
  | (q, st) :: rest, acc => do
    let acc ← mozStep ps acc q st
    mozLoop ps rest acc

/-- the regular expression `mozpath.match` caches for a non-empty pattern -/
def mozRegex (pattern : Text) : Except PyErr Re := do
  let ps := pattern.toArray
  let (items, last) ← mozLoop ps (finditer ps Gen.Pat.mozpath_match_0) ([], 0)
  pure (seqOf (items ++ (slice ps last ps.size).map Re.lit ++ [Gen.Pat.mozpath_frag_tail]))

/-- `mozpath.match(path, pattern)` -/
def mozMatch (path pattern : Text) : Except PyErr Bool :=
  if pattern.isEmpty then pure true else do
    let re ← mozRegex pattern
    pure (matchAt path.toArray re 0).isSome

end PM

/-
PARSER SESSIONS: the long-lived objects of the configuration route as state machines.

The models of Paths/TomlConfig.lean and Paths/IniConfig.lean are pure functions of what is on disk and of the arguments of ONE
call.  Here the OBJECTS a caller keeps between calls are explicit, every mutable component a field:

* `TParser` — a `compare_locales.paths.configparser.TOMLParser` instance.  The class has no `__init__`, no class attribute, and
  no method assigns to `self` (`parse`, `context`, `load`, `process*`, `_processChild`, `asConfig` only read `self` to call each
  other; all per-call state lives in the `ParseContext` that `context` creates afresh): the instance dictionary is empty before
  and after every call.  `TParser.parse` is `parse` as a STEP: (object, arguments, the files as they are now) ↦ (object, result).
* the `ProjectConfig` graphs the caller holds (`State.live`): `parse` appends a new graph that shares nothing with the older
  ones, `set_locales(ls, deep=True)` replaces one of them, `ProjectFiles(locale, [graphs], mergebase)` + `list(…)` + `match(…)`
  only read them.
* `EApp` — an `EnumerateApp` / `EnumerateSourceTreeApp` instance: `self.config` is loaded ONCE, by the constructor
  (`setupConfigParser` → `loadConfigs`), `self.l10nbase = mozpath.abspath(l10nbase)`; `asConfig()` builds a NEW `ProjectConfig`
  from them and reads `filter.py` and the all-locales file as they are when it is called.

Core Lean only.  The driver op `c13.session` replays a recorded history of real calls on these machines.
-/
import CLModel.Paths.TomlConfig
import CLModel.Paths.IniConfig
namespace TS
open TC PF

/-! ### the `TOMLParser` object -/

/-- a `TOMLParser` instance: no instance attribute exists -/
structure TParser where
  deriving Repr, DecidableEq

/-- the arguments of one `parse` call together with the files as they are on disk WHEN the call is made -/
structure ParseArgs where
  w : World
  env : Option Env                 -- the `env` argument; `none` = omitted / `None`
  ignore : Bool
  path : Text

/-- `TOMLParser.context`: `env if env is not None else {}` (a new dict per call) -/
def ctxEnv : Option Env → Env
  | some e => e
  | none => []

/-- `self.parse(path, env=env, ignore_missing_includes=ignore)` as a step of the object: the object afterwards, and what the
    call returns or raises -/
def TParser.parse (self : TParser) (a : ParseArgs) : TParser × Except TC.Err PC :=
  (self, TC.parse a.w (ctxEnv a.env) a.ignore a.path)

/-- one object, a sequence of `parse` calls -/
def TParser.session (self : TParser) : List ParseArgs → List (Except TC.Err PC)
  | [] => []
  | a :: as => (self.parse a).2 :: (self.parse a).1.session as

/-! ### `ProjectFiles` on graphs the caller holds -/

/-- `ProjectFiles(locale, pcs, mergebase)` for `ProjectConfig` graphs already parsed -/
def filesOf (cwd : Text) (pcs : List PC) (locale : Option Loc) (mergebase : Option Text) : Except EErr PFM.Obj :=
  let t := toPFM { locale := locale, mergebase := mergebase, cwd := cwd } pcs
  match PFM.newM t.1 locale t.2 mergebase.isSome with
  | .error e => .error (.files e)
  | .ok o => .ok o

/-- `[pf.match(p) for p in paths]` -/
def lookups (o : PFM.Obj) : List Path → Except PFM.MErr (List (Option Item))
  | [] => .ok []
  | p :: ps =>
    match o.matchM p with
    | .error e => .error e
    | .ok r =>
      match lookups o ps with
      | .error e => .error e
      | .ok rest => .ok (r :: rest)

/-- `pf = ProjectFiles(locale, pcs, mergebase); (list(pf), [pf.match(p) for p in looks])` over the regular files `fs` -/
def listOf (cwd : Text) (pcs : List PC) (locale : Option Loc) (mergebase : Option Text) (fs : FS) (looks : List Path) :
    Except EErr (List Item × List (Option Item)) :=
  match filesOf cwd pcs locale mergebase with
  | .error e => .error e
  | .ok o =>
    match o.iterM fs with
    | .error e => .error (.files e)
    | .ok its =>
      match lookups o looks with
      | .error e => .error (.files e)
      | .ok ls => .ok (its, ls)

/-! ### the session: one parser, the graphs it returned, operations on them -/

/-- one call of a session -/
inductive Op where
  /-- `live.append(parser.parse(path, env, ignore))` -/
  | parse (a : ParseArgs)
  /-- `live[i].set_locales(ls, deep=True)` (what `compare-locales` does with a parsed configuration) -/
  | deep (i : Nat) (ls : List Text)
  /-- `pf = ProjectFiles(locale, [live[i] for i in is], mergebase); list(pf); [pf.match(p) for p in looks]` on the tree `fs` -/
  | files (is : List Nat) (locale : Option Loc) (mergebase : Option Text) (cwd : Text) (fs : FS) (looks : List Path)

/-- everything that outlives a call -/
structure State where
  parser : TParser
  live : List PC                   -- the configurations the successful `parse` calls returned, oldest first

inductive Out where
  | parsed (r : Except TC.Err PC)
  | mutated (pc : PC)
  | listed (r : Except EErr (List Item × List (Option Item)))
  | badIndex                       -- the recorded history names a configuration that does not exist (never for a real history)

def State.init : State := { parser := {}, live := [] }

def step (s : State) : Op → State × Out
  | .parse a =>
    let r := s.parser.parse a
    match r.2 with
    | .ok pc => ({ parser := r.1, live := s.live ++ [pc] }, .parsed (.ok pc))
    | .error e => ({ parser := r.1, live := s.live }, .parsed (.error e))
  | .deep i ls =>
    match s.live[i]? with
    | none => (s, .badIndex)
    | some pc => ({ parser := s.parser, live := s.live.set i (pc.setLocalesDeep ls) }, .mutated (pc.setLocalesDeep ls))
  | .files is locale mb cwd fs looks =>
    match is.mapM (fun i => s.live[i]?) with
    | none => (s, .badIndex)
    | some pcs => (s, .listed (listOf cwd pcs locale mb fs looks))

/-- a whole history: the final state and the result of every call -/
def run (s : State) : List Op → State × List Out
  | [] => (s, [])
  | op :: ops =>
    let a := step s op
    let b := run a.1 ops
    (b.1, a.2 :: b.2)

/-- the state in which call number `n` is made -/
def stateAt (s : State) (ops : List Op) (n : Nat) : State := (run s (ops.take n)).1

/-! ### the `EnumerateApp` object -/

/-- an `EnumerateApp` / `EnumerateSourceTreeApp` after `__init__` (`self.modules`, `self.filters` are not read by `asConfig`) -/
structure EApp where
  config : TI.Loaded               -- `self.config`, after `loadConfigs()`
  l10nbase : Text                  -- `self.l10nbase = mozpath.abspath(l10nbase)`

/-- `EnumerateApp(inipath, l10nbase)` / `EnumerateSourceTreeApp(inipath, basepath, l10nbase, redirects)` -/
def EApp.new (w : TI.IniWorld) (fl : TI.Flavour) (inipath l10nbase : Text) : Except TI.Err EApp :=
  match TI.load w fl inipath with
  | .error e => .error e
  | .ok cfg => .ok { config := cfg, l10nbase := abspath w.cwd l10nbase }

/-- `self.asConfig()` as a step, the files being `w` when it is called -/
def EApp.asConfig (self : EApp) (w : TI.IniWorld) : EApp × Except TI.Err TI.Result :=
  (self, TI.asConfigAbs w self.l10nbase self.config)

/-- one application object, `asConfig()` called once per world of the list -/
def EApp.session (self : EApp) : List TI.IniWorld → List (Except TI.Err TI.Result)
  | [] => []
  | w :: ws => (self.asConfig w).2 :: (self.asConfig w).1.session ws

end TS

/-
Model of compare_locales/paths/project.py `ProjectConfig`:
`add_rules`/`_compile_rule`, `all_locales`, `cache`/`FilterCache`, `_filter`, `filter`.
Transliteration of the Python (same branches, same order).  Core Lean only.

Abstractions (see NOTES-C14.md):
* `paths/matcher.py Matcher` is abstract: a `PathM` is the function
  `locale ↦ fullpath ↦ (m.with_env({"locale": locale}).match(fullpath) is not None)`.
  (The harness fills it from the real `Matcher`; C11/C12 model `Matcher` itself.)
* a compiled key (`re.Pattern`) is a `KeyPred`: either the literal branch
  `re.compile(re.escape(key) + "$")` or a user regex (`re:` prefix) given as an `Rx.Re`
  (translated from the user's pattern text by harness/translate.py at run time).
* Python sets of actions are lists used through membership only.
* legacy `filter_py` configurations are not modelled (`filter_py is None`).
-/
import CLModel.Rx.Basic
import CLModel.Gen.Tables
namespace Filt

abbrev Text := List Nat

inductive Action where
  | error | warning | ignore
  deriving DecidableEq, Repr, Inhabited

/-- `Matcher(pattern, env=self.environ, root=self.root)`, abstract. -/
structure PathM where
  /-- `self.with_env({"locale": locale}).match(fullpath) is not None` -/
  matchWith : Text → Text → Bool

/-- a `Matcher` after `with_env({"locale": locale})` -/
structure BoundM where
  matchPath : Text → Bool

def PathM.withLocale (m : PathM) (locale : Text) : BoundM := ⟨m.matchWith locale⟩

/-- `paths.File`: only `fullpath` and `locale` are consulted by the filter -/
structure File where
  fullpath : Text
  locale : Text

/-! ### rule keys -/

/-- a compiled `rule["key"]` -/
inductive KeyPred where
  | literal (s : Text)      -- re.compile(re.escape(key) + "$")
  | regex (r : Rx.Re)       -- re.compile(key[3:])

/-- the regex `re.escape(s) + "$"`: the characters of `s` as literals, then `$` (not MULTILINE) -/
def escapedDollar (s : Text) : Rx.Re := s.foldr (fun c r => Rx.Re.seq (Rx.Re.lit c) r) (Rx.Re.eol false)

def KeyPred.toRe : KeyPred → Rx.Re
  | .literal s => escapedDollar s
  | .regex r => r

/-- `rule["key"].match(entity)` (truthiness of the result) -/
def KeyPred.matches (k : KeyPred) (entity : Text) : Bool :=
  (Rx.matchAt entity.toArray k.toRe 0).isSome

/-! ### the pattern TEXT `_compile_rule` hands to `re.compile` (round 4)

`compileKey` above receives the compiled expression of a `re:` key from the translator.  What is compiled is decided
here, on texts: the marker test, the slice, `re.escape`, the `$`.  The `c14.keytext` correspondence compares
`compiledKeyText key` with `rule["key"].pattern` of the real compiled rule, and checks that the translation of that
pattern is `escapedDollar key` (literal branch, `litDollarText`) resp. is what `compileKey` receives (`re:` branch). -/

/-- `re.escape(s)` (CPython ≥ 3.7): a backslash before every character of `re._special_chars_map` -/
def reEscape (s : Text) : Text :=
  s.flatMap (fun c => if Gen.Tables.reEscapeSpecials.contains c then [92, c] else [c])

/-- tail of `_compile_rule`: `key[3:]` if `key.startswith("re:")`, else `re.escape(key) + "$"` -/
def compiledKeyText (key : Text) : Text :=
  if Gen.Tables.ruleKeyRePrefix.isPrefixOf key then key.drop Gen.Tables.ruleKeyReSlice
  else reEscape key ++ Gen.Tables.ruleKeyLiteralSuffix

/-- the text `s` if the expression is `s` as literals followed by a non-MULTILINE `$` — the shape of
    `escapedDollar s` — else `none` -/
def litDollarText : Rx.Re → Option Text
  | .eol false => some []
  | .seq (.lit c) r => (litDollarText r).map (c :: ·)
  | _ => none

/-- a raw key string of a rule together with `re.compile(text[len("re:"):])`
    (only meaningful when `text` starts with `re:`; supplied by the translator) -/
structure RawKey where
  text : Text
  compiled : Rx.Re

/-- Python: a `str` or a list of them -/
inductive OneOrMany (α : Type) where
  | one (a : α)
  | many (l : List α)

/-- a rule dictionary as given to `add_rules` -/
structure RawRule where
  path : OneOrMany PathM
  key : Option (OneOrMany RawKey)     -- `"key" in rule`
  action : Action

/-- a compiled rule (element of `self.rules`) -/
structure Rule where
  path : PathM
  key : Option KeyPred
  action : Action

/-- tail of `_compile_rule`: `key.startswith("re:")` → `key[3:]`, else `re.escape(key) + "$"` -/
def compileKey (k : RawKey) : KeyPred :=
  if Gen.Tables.ruleKeyRePrefix.isPrefixOf k.text then .regex k.compiled
  else .literal k.text

/-- `_compile_rule` once `rule["path"]` is a single Matcher -/
def compileKeys (path : PathM) (action : Action) : Option (OneOrMany RawKey) → List Rule
  | none => [⟨path, none, action⟩]
  | some (.many ks) => ks.map (fun k => ⟨path, some (compileKey k), action⟩)
  | some (.one k) => [⟨path, some (compileKey k), action⟩]

/-- `ProjectConfig._compile_rule` (a generator; the list of yielded rules) -/
def compileRule (r : RawRule) : List Rule :=
  match r.path with
  | .many ps => ps.flatMap (fun p => compileKeys p r.action r.key)
  | .one p => compileKeys p r.action r.key

/-- `ProjectConfig.add_rules(*rules)` applied to `self.rules` -/
def addRules (rules : List Rule) (raws : List RawRule) : List Rule :=
  raws.foldl (fun acc r => acc ++ compileRule r) rules

/-! ### configurations -/

/-- an element of `self.paths` -/
structure PathEntry where
  l10n : PathM
  locales : Option (List Text)     -- `"locales" in paths`

inductive Config where
  | mk (locales : Option (List Text)) (paths : List PathEntry) (rules : List Rule)
       (children : List Config) (excludes : List Config)

def Config.locales : Config → Option (List Text) | .mk l _ _ _ _ => l
def Config.paths : Config → List PathEntry | .mk _ p _ _ _ => p
def Config.rules : Config → List Rule | .mk _ _ r _ _ => r
def Config.children : Config → List Config | .mk _ _ _ c _ => c
def Config.excludes : Config → List Config | .mk _ _ _ _ e => e

/-- an optional `locales` list as what gets `update`d into the set (`None`/absent adds nothing) -/
def optLocales : Option (List Text) → List Text
  | some ls => ls
  | none => []

/-- the per-config part of the loop body of `all_locales` -/
def ownLocales (locales : Option (List Text)) (paths : List PathEntry) : List Text :=
  optLocales locales ++ paths.flatMap (fun p => optLocales p.locales)

mutual
/-- `ProjectConfig.all_locales` as the list of everything `update`d into the set
    (`for config in self.configs`: self first, then the children recursively; excludes are not visited) -/
def allLocales : Config → List Text
  | .mk locales paths _ children _ => ownLocales locales paths ++ allLocalesList children
def allLocalesList : List Config → List Text
  | [] => []
  | c :: cs => allLocales c ++ allLocalesList cs
end

/-! ### the per-locale cache -/

structure CachedRule where
  path : BoundM
  key : Option KeyPred
  action : Action

structure FilterCache where
  locale : Text
  rules : List CachedRule
  l10nPaths : List BoundM

/-- negation of `"locales" in paths and locale not in paths["locales"]` (the `continue` test in `cache`) -/
def PathEntry.enabledFor (p : PathEntry) (locale : Text) : Bool :=
  match p.locales with
  | some ls => ls.contains locale
  | none => true

/-- the body of `ProjectConfig.cache` after the early return -/
def buildCache (paths : List PathEntry) (rules : List Rule) (locale : Text) : FilterCache :=
  { locale := locale
    l10nPaths := (paths.filter (fun p => p.enabledFor locale)).map (fun p => p.l10n.withLocale locale)
    rules := rules.map (fun r => ⟨r.path.withLocale locale, r.key, r.action⟩) }

/-- `ProjectConfig.cache(locale)` with the memo `self._cache` made explicit -/
def cacheStep (memo : Option FilterCache) (paths : List PathEntry) (rules : List Rule) (locale : Text) :
    FilterCache :=
  match memo with
  | some c => if c.locale == locale then c else buildCache paths rules locale
  | none => buildCache paths rules locale

/-! ### `_filter` -/

/-- `for rule in reversed(cached.rules): … break`, started with `action = "error"`;
    the argument is the already reversed list -/
def scanRules (fullpath : Text) (entity : Option Text) : List CachedRule → Action
  | [] => .error
  | rule :: rest =>
    if !rule.path.matchPath fullpath then scanRules fullpath entity rest
    else if rule.key.isSome != entity.isSome then scanRules fullpath entity rest   -- key/file mismatch
    else
      match rule.key, entity with
      | some k, some e => if !k.matches e then scanRules fullpath entity rest else rule.action
      | _, _ => rule.action

/-- the three final `if … in actions` tests (falls through to `None`) -/
def pick (actions : List (Option Action)) : Option Action :=
  if actions.contains (some .error) then some .error
  else if actions.contains (some .warning) then some .warning
  else if actions.contains (some .ignore) then some .ignore
  else none

mutual
/-- `ProjectConfig._filter(l10n_file, entity)`; `none` is Python's `None` -/
def filterInner : Config → File → Option Text → Option Action
  | .mk _ paths rules children excludes, file, entity =>
    if anyExcludeError excludes file then none else
    let actions := childActions children file entity
    if actions.contains (some .error) then some .error else
    let cached := buildCache paths rules file.locale
    let actions :=
      if cached.l10nPaths.any (fun p => p.matchPath file.fullpath) then
        actions ++ [some (scanRules file.fullpath entity cached.rules.reverse)]
      else actions
    pick actions
/-- `{child._filter(l10n_file, entity=entity) for child in self.children}` -/
def childActions : List Config → File → Option Text → List (Option Action)
  | [], _, _ => []
  | c :: cs, file, entity => filterInner c file entity :: childActions cs file entity
/-- `any(exclude.filter(l10n_file) == "error" for exclude in self.excludes)`, with the body of
    `filter` (locale test, `None` → "ignore") inlined for the structural recursion -/
def anyExcludeError : List Config → File → Bool
  | [], _ => false
  | ex :: rest, file =>
    (if !(allLocales ex).contains file.locale then false       -- "ignore" == "error"
     else match filterInner ex file none with
          | none => false                                       -- "ignore" == "error"
          | some a => a == Action.error)
    || anyExcludeError rest file
end

/-- `ProjectConfig.filter(l10n_file, entity=None)` for `filter_py is None` -/
def filter (cfg : Config) (file : File) (entity : Option Text) : Action :=
  if !(allLocales cfg).contains file.locale then .ignore else
  match filterInner cfg file entity with
  | none => .ignore
  | some a => a

end Filt

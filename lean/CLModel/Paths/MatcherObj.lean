/-
Model of the OBJECTS of compare_locales/paths/matcher.py (round 5): every mutable component is explicit.

* A Python `dict` is an OBJECT: the heap `Heap` is the list of all dicts ever created, an address is an index.
  `env.copy()` allocates, `env.pop(..)` / `env.update(..)` / `env[k] = v` write at an address, nothing is freed.
  A `Matcher` object (`MObj`) holds its `pattern` (a value: the copy constructor copies it), the ADDRESS of its `env`
  and `_cached_re`.  A `Store` is the heap plus the matcher objects created so far.
* `Variable.expand / _no_cycle`, `Pattern.expand / _expand_children / regex_pattern`, `AndroidLocale._get_android_locale`
  are transliterated once more in heap-passing style (`…H`): they take the ADDRESS of the environment they were given
  and return the heap afterwards - also when they raise (`MissingEnvironment` in a nested expansion is the interesting
  path).  `_no_cycle` returns the same address when the name is absent and allocates `env.copy()` minus the name
  otherwise.
* `none` = the model is stuck on a dangling address (never happens for a well-formed store: `C12H.*`); a Python
  exception is `some (.error e, heap)`.

The theorems (`Props/C11.lean`, `Props/C12.lean`, proofs in `Proofs/C12Heap.lean`, `Proofs/C11Obj.lean`) say that the
heap-passing functions compute exactly the stateless functions of `Matcher.lean` on the CONTENTS of the dict at the
address, and leave every dict that existed before the call untouched, on the normal and on the exception path.
-/
import CLModel.Paths.MatcherX
namespace PM
open Rx

abbrev Addr := Nat
/-- all dict objects created so far; an address is an index -/
abbrev Heap := List Env
/-- result (or Python exception) and the heap afterwards; `none` = dangling address -/
abbrev HM (α : Type) := Heap → Option (Except PyErr α × Heap)

/-- `Variable._no_cycle(env)`: `env` itself when the name is not in it, else `env.copy()` with the name popped -/
def noCycleH (name : Text) (a : Addr) (h : Heap) : Option (Addr × Heap) :=
  match h[a]? with
  | none => none
  | some env =>
    match env.lookup name with
    | none => some (a, h)
    | some _ => some (h.length, h ++ [derase env name])

abbrev ExpRecH := Val → Addr → Bool → HM Text

/-- `AndroidLocale._get_android_locale(env)` -/
def getAndroidLocaleH (rec : ExpRecH) (a : Addr) : HM (Option Text) := fun h =>
  match h[a]? with
  | none => none
  | some env =>
    match env.lookup localeName with
    | none => some (.ok none, h)
    | some v =>
      match noCycleH androidName a h with
      | none => none
      | some (a1, h1) =>
        match rec v a1 false h1 with
        | none => none
        | some (.error e, h2) => some (.error e, h2)
        | some (.ok b, h2) =>
          match toAndroid b with
          | .error e => some (.error e, h2)
          | .ok r => some (.ok (some r), h2)

/-- `child.expand(env, raise_missing=rm)` for a node; `a` is the address of `env` -/
def expandNodeH (rec : ExpRecH) (n : Node) (a : Addr) (rm : Bool) : HM Text := fun h =>
  match n with
  | .lit s => some (.ok s, h)
  | .var name _ =>
    match h[a]? with
    | none => none
    | some env =>
      match env.lookup name with
      | none => some (.error .missingEnv, h)
      | some v =>
        match noCycleH name a h with
        | none => none
        | some (a1, h1) => rec v a1 rm h1
  | .android _ =>
    match getAndroidLocaleH rec a h with
    | none => none
    | some (.error e, h1) => some (.error e, h1)
    | some (.ok none, h1) => some (.error .missingEnv, h1)
    | some (.ok (some r), h1) => some (.ok r, h1)
  | .star n | .starstar n _ =>
    match h[a]? with
    | none => none
    | some env =>
      match env.lookup (sname n) with
      | none => some (.error .keyError, h)
      | some (.str s) => some (.ok s, h)
      | some (.pat _) => some (.error .notStr, h)

/-- `"".join(self._expand_children(env, raise_missing))` -/
def expandChildrenH (rec : ExpRecH) : List Node → Addr → Bool → HM Text
  | [], _, _ => fun h => some (.ok [], h)
  | c :: cs, a, rm => fun h =>
    match expandNodeH rec c a true h with
    | none => none
    | some (.error .missingEnv, h1) => if rm then some (.error .missingEnv, h1) else some (.ok [], h1)
    | some (.error .notStr, h1) =>
      match expandChildrenH rec cs a rm h1 with
      | none => none
      | some (.ok _, h2) => some (.error .typeError, h2)
      | some (.error e, h2) => some (.error e, h2)
    | some (.error e, h1) => some (.error e, h1)
    | some (.ok s, h1) =>
      match expandChildrenH rec cs a rm h1 with
      | none => none
      | some (.error e, h2) => some (.error e, h2)
      | some (.ok tl, h2) => some (.ok (s ++ tl), h2)

/-- the `root` decision shared by `Pattern.expand` and `Pattern.regex_pattern` -/
def rootOfH (rec : ExpRecH) (p : Pattern) (a : Addr) : HM Text := fun h =>
  match p.root with
  | none => some (.ok [], h)
  | some r =>
    match p.nodes with
    | [] => some (.error .indexError, h)
    | n0 :: _ =>
      match expandNodeH rec n0 a false h with
      | none => none
      | some (.error .notStr, h1) => some (.error .typeError, h1)
      | some (.error e, h1) => some (.error e, h1)
      | some (.ok seg, h1) => some (.ok (if isabs seg then [] else r), h1)

/-- `Pattern.expand(env, raise_missing)` -/
def expandPatH (rec : ExpRecH) (p : Pattern) (a : Addr) (rm : Bool) : HM Text := fun h =>
  match rootOfH rec p a h with
  | none => none
  | some (.error e, h1) => some (.error e, h1)
  | some (.ok root, h1) =>
    match expandChildrenH rec p.nodes a rm h1 with
    | none => none
    | some (.error e, h2) => some (.error e, h2)
    | some (.ok body, h2) => some (.ok (root ++ body), h2)

/-- `value.expand(env, raise_missing)` for an environment value; the first argument bounds the nesting -/
def expandValH : Nat → Val → Addr → Bool → HM Text
  | _, .str s, _, _ => fun h => some (.ok s, h)
  | 0, .pat _, _, _ => fun h => some (.error .recursion, h)
  | f + 1, .pat p, a, rm => expandPatH (expandValH f) p a rm

/-- `pattern.expand(env, raise_missing)` at top level (the nesting bound is that of the dict at the address) -/
def expandTopH (p : Pattern) (a : Addr) (rm : Bool) : HM Text := fun h =>
  match h[a]? with
  | none => none
  | some env => expandPatH (expandValH (fuelFor env)) p a rm h

/-! ### regular expression -/

abbrev RxRecH := Val → Addr → HM (List Re × List Text)

/-- `child.regex_pattern(env)` -/
def rxNodeH (rec : RxRecH) (n : Node) (a : Addr) : HM (List Re × List Text) := fun h =>
  match n with
  | .lit s => some (.ok (s.map Re.lit, []), h)
  | .var name rep =>
    if rep then some (.ok ([Re.backref (encName name)], []), h)
    else
      match h[a]? with
      | none => none
      | some env =>
        match env.lookup name with
        | some v =>
          match noCycleH name a h with
          | none => none
          | some (a1, h1) =>
            match rec v a1 h1 with
            | none => none
            | some (.error e, h2) => some (.error e, h2)
            | some (.ok (body, ns), h2) => some (.ok ([Re.group (encName name) (seqOf body)], name :: ns), h2)
        | none => some (.ok ([Re.group (encName name) Gen.Pat.matcher_frag_var], [name]), h)
  | .android rep =>
    if rep then some (.ok ([Re.backref (encName androidName)], []), h)
    else
      match h[a]? with
      | none => none
      | some env =>
        match getAndroidLocaleH (expandValH (fuelFor env)) a h with
        | none => none
        | some (.error e, h1) => some (.error e, h1)
        | some (.ok (some r), h1) =>
          some (.ok ([Re.group (encName androidName) (seqOf (r.map Re.lit))], [androidName]), h1)
        | some (.ok none, h1) =>
          some (.ok ([Re.group (encName androidName) Gen.Pat.matcher_frag_var], [androidName]), h1)
  | .star n => some (.ok ([Re.group (encName (sname n)) Gen.Pat.matcher_frag_star], [sname n]), h)
  | .starstar n sfx =>
    some (.ok ([Re.alt (Re.group (encName (sname n)) (seqOf (Gen.Pat.matcher_frag_starstar :: sfx.map Re.lit))) Re.eps],
               [sname n]), h)

def rxChildrenH (rec : RxRecH) : List Node → Addr → HM (List Re × List Text)
  | [], _ => fun h => some (.ok ([], []), h)
  | c :: cs, a => fun h =>
    match rxNodeH rec c a h with
    | none => none
    | some (.error e, h1) => some (.error e, h1)
    | some (.ok (x, nx), h1) =>
      match rxChildrenH rec cs a h1 with
      | none => none
      | some (.error e, h2) => some (.error e, h2)
      | some (.ok (y, ny), h2) => some (.ok (x ++ y, nx ++ ny), h2)

/-- `Pattern.regex_pattern(env)` -/
def rxPatH (rec : RxRecH) (p : Pattern) (a : Addr) : HM (List Re × List Text) := fun h =>
  match h[a]? with
  | none => none
  | some env =>
    match rootOfH (expandValH (fuelFor env)) p a h with
    | none => none
    | some (.error e, h1) => some (.error e, h1)
    | some (.ok root, h1) =>
      match rxChildrenH rec p.nodes a h1 with
      | none => none
      | some (.error e, h2) => some (.error e, h2)
      | some (.ok (items, names), h2) => some (.ok (root.map Re.lit ++ items, names), h2)

def rxValH : Nat → Val → Addr → HM (List Re × List Text)
  | _, .str s, _ => fun h => some (.ok (s.map Re.lit, []), h)
  | 0, .pat _, _ => fun h => some (.error .recursion, h)
  | f + 1, .pat p, a => rxPatH (rxValH f) p a

/-- the pattern `Matcher._cache_regex` compiles, for a pattern and the dict at an address -/
def regexOfH (p : Pattern) (a : Addr) : HM (Re × List Text) := fun h =>
  match h[a]? with
  | none => none
  | some env =>
    match rxPatH (rxValH (fuelFor env)) p a h with
    | none => none
    | some (.error e, h1) => some (.error e, h1)
    | some (.ok (items, names), h1) =>
      let re := seqOf (items ++ [Gen.Pat.matcher_frag_anchor])
      if names.all validName && (wfRe re ([], [])).isSome then some (.ok (re, names), h1)
      else some (.error .reError, h1)

/-! ### matcher objects -/

/-- a `Matcher` object: `pattern` (with root and prefix_length), the address of `self.env`, `_cached_re` -/
structure MObj where
  pattern : Pattern
  env : Addr
  cache : Option (Re × List Text)

structure Store where
  heap : Heap
  objs : List MObj

/-- result (or Python exception) of a method call and the store afterwards; `none` = dangling reference -/
abbrev SM (α : Type) := Store → Option (Except XErr α × Store)

/-- what an object looks like from outside: the `CMatcher` value of `MatcherX.lean` -/
def Store.view (s : Store) (o : Nat) : Option CMatcher :=
  match s.objs[o]? with
  | none => none
  | some ob =>
    match s.heap[ob.env]? with
    | none => none
    | some env => some { m := { pattern := ob.pattern, env := env }, cache := ob.cache }

/-- `Matcher(pattern, env, root)` once the arguments are parsed: `self.env = real_env` is a NEW dict -/
def Store.construct (s : Store) (m : Matcher) : Nat × Store :=
  (s.objs.length, { heap := s.heap ++ [m.env], objs := s.objs ++ [{ pattern := m.pattern, env := s.heap.length, cache := none }] })

/-- `Matcher(pattern, env, root)` -/
def Store.new (cwd pattern : Text) (env : List (Text × Text)) (root : Option Text) : SM Nat := fun s =>
  match mkMatcherAt cwd pattern env root with
  | .error e => some (.error (.py e), s)
  | .ok m => let r := s.construct m; some (.ok r.1, r.2)

/-- the pattern `Matcher.prefix` expands -/
def prefixPatternOf (p : Pattern) : Pattern :=
  { nodes := p.nodes.take p.prefixLen, root := p.root, prefixLen := p.prefixLen }

/-- `pattern.expand(self.env, raise_missing)` called with the matcher's OWN dict -/
def Store.expandOwn (p : MObj → Pattern) (rm : Bool) (o : Nat) : SM Text := fun s =>
  match s.objs[o]? with
  | none => none
  | some ob =>
    match expandTopH (p ob) ob.env rm s.heap with
    | none => none
    | some (.error e, h') => some (.error (.py e), { s with heap := h' })
    | some (.ok t, h') => some (.ok t, { s with heap := h' })

/-- `Matcher.prefix` -/
def Store.prefix : Nat → SM Text := Store.expandOwn (fun ob => prefixPatternOf ob.pattern) false
/-- `Matcher.__str__` -/
def Store.str : Nat → SM Text := Store.expandOwn (fun ob => ob.pattern) false
/-- `matcher.pattern.expand(matcher.env, raise_missing=True)` -/
def Store.expandRaise : Nat → SM Text := Store.expandOwn (fun ob => ob.pattern) true

/-- `Matcher.__repr__`: reads the pattern, the environment and the root -/
def Store.repr (o : Nat) : SM Unit := fun s =>
  match s.view o with
  | none => none
  | some _ => some (.ok (), s)

/-- `a == b`, `a != b` for two matcher objects -/
def Store.eq (o1 o2 : Nat) : SM (Bool × Bool) := fun s =>
  match s.view o1, s.view o2 with
  | some a, some b => some (.ok (Matcher.eq a.m b.m, Matcher.ne a.m b.m), s)
  | _, _ => none

/-- `Matcher._cache_regex()` -/
def Store.cacheRegex (o : Nat) : SM (Re × List Text) := fun s =>
  match s.objs[o]? with
  | none => none
  | some ob =>
    match ob.cache with
    | some rn => some (.ok rn, s)
    | none =>
      match regexOfH ob.pattern ob.env s.heap with
      | none => none
      | some (.error e, h') => some (.error (.py e), { s with heap := h' })
      | some (.ok rn, h') => some (.ok rn, { heap := h', objs := s.objs.set o { ob with cache := some rn } })

/-- `Matcher.match(path)` -/
def Store.match (o : Nat) (path : Text) : SM (Option GroupDict) := fun s =>
  match s.cacheRegex o with
  | none => none
  | some (.error e, s') => some (.error e, s')
  | some (.ok rn, s') => some (liftX (matchWith rn path), s')

/-- `self.sub(other, path)`: `env = {}` is a new dict, filled with the captures and then `other.env`; `other.pattern` is
    expanded against it -/
def Store.sub (o other : Nat) (path : Text) : SM (Option Text) := fun s =>
  match s.match o path with
  | none => none
  | some (.error e, s') => some (.error e, s')
  | some (.ok none, s') => some (.ok none, s')
  | some (.ok (some d), s') =>
    match s'.view other with
    | none => none
    | some ov =>
      let a := s'.heap.length
      match expandTopH ov.m.pattern a false (s'.heap ++ [subEnv d ov.m.env]) with
      | none => none
      | some (.error e, h') => some (.error (.py e), { s' with heap := h' })
      | some (.ok t, h') => some (.ok (some t), { s' with heap := h' })

/-- `Matcher(other, env, root)` (so `with_env`): `self.pattern = Pattern(other.pattern)`, `self.env = other.env.copy()`
    (a NEW dict), `self.env.update(real_env)` (written at the new address), the root replaced when given -/
def Store.rebuild (o : Nat) (env : List (Text × Text)) (root : Option Text) : SM Nat := fun s =>
  match realEnv env with
  | .error e => some (.error (.py e), s)
  | .ok e =>
    match s.objs[o]? with
    | none => none
    | some ob =>
      match s.heap[ob.env]? with
      | none => none
      | some oenv =>
        let a := s.heap.length
        let h1 := s.heap ++ [oenv]                      -- other.env.copy()
        let h2 := h1.set a (dupdate oenv e)              -- self.env.update(real_env)
        let p := match root with
          | some r => { ob.pattern with root := some r }
          | none => ob.pattern
        some (.ok s.objs.length, { heap := h2, objs := s.objs ++ [{ pattern := p, env := a, cache := none }] })

/-- the argument of `concat`: a matcher OBJECT or a text -/
inductive ConcatObj where
  | obj (o : Nat)
  | text (t : Text)

/-- the second half of `Matcher.concat`, `other_matcher` being at hand: the root check, `result = Matcher(self)`,
    `result.pattern += other_pattern` (and the prefix length), `result.env.update(other_matcher.env)` -/
def Store.concatWith (o : Nat) (om : Matcher) : SM Nat := fun s =>
  if om.pattern.root.isSome then some (.error .valueError, s)
  else
    match Store.rebuild o [] none s with
    | none => none
    | some (.error e, s1) => some (.error e, s1)
    | some (.ok r, s1) =>
      match s1.objs[r]?, s.objs[o]? with
      | some rb, some ob =>
        match s1.heap[rb.env]? with
        | none => none
        | some renv =>
          let pl := if ob.pattern.prefixLen == ob.pattern.nodes.length then ob.pattern.prefixLen + om.pattern.prefixLen
                    else ob.pattern.prefixLen
          let p : Pattern := { nodes := rb.pattern.nodes ++ om.pattern.nodes, root := rb.pattern.root, prefixLen := pl }
          some (.ok r, { heap := s1.heap.set rb.env (dupdate renv om.env),
                         objs := s1.objs.set r { rb with pattern := p } })
      | _, _ => none

/-- the `ConcatArg` of `MatcherX.lean` an argument stands for -/
def Store.argOf (s : Store) : ConcatObj → Option ConcatArg
  | .text t => some (.text t)
  | .obj o2 => (s.view o2).map (fun v => .matcher v.m)

/-- `Matcher.concat(other)`: `other if isinstance(other, Matcher) else Matcher(other)`, then the above -/
def Store.concat (o : Nat) (other : ConcatObj) : SM Nat := fun s =>
  match s.argOf other with
  | none => none
  | some arg =>
    match arg.toMatcher with
    | .error e => some (.error (.py e), s)
    | .ok om => Store.concatWith o om s

/-- `matcher.env[k] = PatternParser().parse(v)`: the one MUTATING operation of the alphabet (what `concat` does to its
    result, what outside code may do to a matcher it owns) -/
def Store.envSet (o : Nat) (k v : Text) : SM Unit := fun s =>
  match parsePattern v with
  | .error e => some (.error (.py e), s)
  | .ok p =>
    match s.objs[o]? with
    | none => none
    | some ob =>
      match s.heap[ob.env]? with
      | none => none
      | some env => some (.ok (), { s with heap := s.heap.set ob.env (dset env k (.pat p)) })

/-! ### histories -/

inductive Op where
  | new (cwd pattern : Text) (env : List (Text × Text)) (root : Option Text)
  | prefix (o : Nat) | str (o : Nat) | expandRaise (o : Nat) | repr (o : Nat)
  | eq (o1 o2 : Nat)
  | matchP (o : Nat) (path : Text)
  | sub (o other : Nat) (path : Text)
  | rebuild (o : Nat) (env : List (Text × Text)) (root : Option Text)
  | concat (o : Nat) (other : ConcatObj)
  | envSet (o : Nat) (k v : Text)

inductive Out where
  | text (t : Text)
  | unit
  | bools (a b : Bool)
  | groups (d : Option GroupDict)
  | optText (t : Option Text)
  | obj (o : Nat)

def mapOut {α} (f : α → Out) : Option (Except XErr α × Store) → Option (Except XErr Out × Store)
  | none => none
  | some (.error e, s) => some (.error e, s)
  | some (.ok a, s) => some (.ok (f a), s)

/-- one method call on the store -/
def Store.step (s : Store) : Op → Option (Except XErr Out × Store)
  | .new cwd p env root => mapOut Out.obj (Store.new cwd p env root s)
  | .prefix o => mapOut Out.text (Store.prefix o s)
  | .str o => mapOut Out.text (Store.str o s)
  | .expandRaise o => mapOut Out.text (Store.expandRaise o s)
  | .repr o => mapOut (fun _ => Out.unit) (Store.repr o s)
  | .eq a b => mapOut (fun r => Out.bools r.1 r.2) (Store.eq a b s)
  | .matchP o path => mapOut Out.groups (Store.match o path s)
  | .sub o other path => mapOut Out.optText (Store.sub o other path s)
  | .rebuild o env root => mapOut Out.obj (Store.rebuild o env root s)
  | .concat o other => mapOut Out.obj (Store.concat o other s)
  | .envSet o k v => mapOut (fun _ => Out.unit) (Store.envSet o k v s)

/-- a history: the outputs of all calls, and the store at the end -/
def Store.run : Store → List Op → Option (List (Except XErr Out) × Store)
  | s, [] => some ([], s)
  | s, op :: ops =>
    match s.step op with
    | none => none
    | some (r, s1) =>
      match Store.run s1 ops with
      | none => none
      | some (rs, s2) => some (r :: rs, s2)

def Store.empty : Store := { heap := [], objs := [] }

end PM

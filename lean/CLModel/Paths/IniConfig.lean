/-
Model of the legacy `l10n.ini` route to a `ProjectConfig` (`compare_locales/paths/ini.py`): `L10nConfigParser`
(`__init__`, `getDepth`, `loadConfigs`, `addChild`, `dirsIter`, `directories`, `allLocales`, `getFilters`),
`SourceTreeConfigParser.addChild`, `EnumerateApp` / `EnumerateSourceTreeApp` (`__init__`, `asConfig`, `_config_for_ini`), as a function
from the PARSED ini sections (`IniDoc`: what `configparser.ConfigParser` answers for the options the code asks — `configparser`
itself, its interpolation and its case folding stay external) to the `ProjectConfig` graph `TC.PC` of Paths/TomlConfig.lean.
Core Lean only.

* `IniWorld.inis` maps a normalised ini path to its sections; a path that is not there is a file `cp.read` silently skips
  (a missing `l10n.ini` is an EMPTY configuration, not an error);
* `IniWorld.filters` lists the ini paths next to which a `filter.py` with a callable `test` exists (`getFilters` runs that
  file: external); `IniWorld.locales` maps the path of an `all-locales` file to `util.parseLocales(open(path).read())`;
* include cycles make Python recurse until `RecursionError`: the fuel of `loadF`.
-/
import CLModel.Paths.TomlConfig
namespace TI
open TC PF

/-- what the code asks a `ConfigParser` -/
structure IniDoc where
  depth : Option Text                              -- `cp.get("general", "depth")`, none = NoSectionError / NoOptionError
  all : Option Text                                -- `cp.get("general", "all")`
  includes : Option (List (Text × Text))           -- `cp.items("includes")`, none = NoSectionError
  dirs : Option Text                               -- `cp.get("compare", "dirs")`
  details : List (Text × Text × Text)              -- sections `include_<title>`: (title, `mozilla`, `l10n.ini`)
  deriving Repr, DecidableEq

/-- the configuration of a file `cp.read` could not read -/
def IniDoc.empty : IniDoc := { depth := none, all := none, includes := none, dirs := none, details := [] }

structure IniWorld where
  inis : List (Text × IniDoc)
  filters : List Text
  locales : List (Text × List Text)
  cwd : Text

/-- a loaded `L10nConfigParser` / `SourceTreeConfigParser` -/
inductive Loaded where
  | mk (inipath : Text) (base : Text) (dirs : List Text) (allPath : Option Text) (children : List Loaded)

def Loaded.inipath : Loaded → Text | .mk p _ _ _ _ => p
def Loaded.base : Loaded → Text | .mk _ b _ _ _ => b
def Loaded.dirs : Loaded → List Text | .mk _ _ d _ _ => d
def Loaded.allPath : Loaded → Option Text | .mk _ _ _ a _ => a
def Loaded.children : Loaded → List Loaded | .mk _ _ _ _ c => c

inductive Err where
  | recursion                      -- include cycle
  | noOption                       -- `orig_cp.get(details, …)` of an `include_<title>` section without that option
  | openNone                       -- `open(None)`: no `all` option (TypeError)
  | fileNotFound (path : Text)     -- the all-locales file cannot be read (OSError)
  | matcher (e : PM.PyErr)
  deriving Repr, DecidableEq

/-- ASCII white space (`str.split()` without argument; other Unicode white space is outside the model) -/
def isSpace (c : Nat) : Bool := c == 32 || (9 ≤ c && c ≤ 13) || (28 ≤ c && c ≤ 31)

def splitWsAux : Text → Text → List Text
  | [], cur => if cur.isEmpty then [] else [cur.reverse]
  | c :: cs, cur =>
    if isSpace c then (if cur.isEmpty then splitWsAux cs [] else cur.reverse :: splitWsAux cs [])
    else splitWsAux cs (c :: cur)

/-- `s.split()` -/
def splitWs (s : Text) : List Text := splitWsAux s []

/-- `IniWorld` lookup: `cp.read(self.inipath)` -/
def IniWorld.doc (w : IniWorld) (inipath : Text) : IniDoc :=
  match w.inis.lookup inipath with
  | some d => d
  | none => IniDoc.empty

/-- which flavour of parser is loading: `L10nConfigParser` or `SourceTreeConfigParser(base, redirects)` -/
inductive Flavour where
  | plain
  | sourceTree (base : Text) (redirects : List (Text × Text))

/-- the path given to the child parser's constructor in `addChild` -/
def childIni (fl : Flavour) (selfBase : Text) (doc : IniDoc) (title path : Text) : Except Err Text :=
  match fl with
  | .plain => .ok (join selfBase path)
  | .sourceTree _ redirects =>
    match doc.details.find? (·.1 == title) with
    | some (_, mozilla, ini) =>
      let branch := match redirects.lookup mozilla with | some b => b | none => mozilla
      .ok (join (join selfBase branch) ini)
    | none => .ok (join selfBase path)

/-- the loop over `cp.items("includes")`: every child is constructed, loaded and appended in turn -/
def loadChildren (loadOne : Text → Except Err Loaded) (fl : Flavour) (selfBase : Text) (doc : IniDoc) :
    List (Text × Text) → Except Err (List Loaded)
  | [] => .ok []
  | (title, path) :: rest =>
    match childIni fl selfBase doc title path with
    | .error e => .error e
    | .ok p =>
      match loadOne p with
      | .error e => .error e
      | .ok c => (loadChildren loadOne fl selfBase doc rest).map (c :: ·)

/-- `L10nConfigParser(inipath).loadConfigs()`; `inipath` as given to the constructor -/
def loadF (w : IniWorld) (fl : Flavour) : Nat → Text → Except Err Loaded
  | 0, _ => .error .recursion
  | fuel + 1, given =>
    let inipath := normpath given
    let doc := w.doc inipath
    let depth := match doc.depth with | some d => d | none => dot
    -- `loadConfigs` overwrites the `base` a `SourceTreeConfigParser` got from its constructor
    let base := join (dirname inipath) depth
    match loadChildren (loadF w fl fuel) fl base doc (optL doc.includes) with
    | .error e => .error e
    | .ok children =>
      let dirs := match doc.dirs with | some s => splitWs s | none => []
      let allPath := doc.all.map (join base)
      .ok (.mk inipath base dirs allPath children)

/-- a chain of includes longer than the number of known files repeats a file (or leaves the known files, where it ends) -/
def load (w : IniWorld) (fl : Flavour) (inipath : Text) : Except Err Loaded :=
  loadF w fl (w.inis.length + 2) inipath

mutual
/-- `L10nConfigParser.directories()`: `(base, dir)` of this file, then of the included ones, recursively -/
def Loaded.directories : Loaded → List (Text × Text)
  | .mk _ base dirs _ ch => dirs.map (base, ·) ++ directoriesL ch
def directoriesL : List Loaded → List (Text × Text)
  | [] => []
  | c :: cs => c.directories ++ directoriesL cs
end

mutual
/-- the ini files in the order `getFilters` visits them -/
def Loaded.inipaths : Loaded → List Text
  | .mk p _ _ _ ch => p :: inipathsL ch
def inipathsL : List Loaded → List Text
  | [] => []
  | c :: cs => c.inipaths ++ inipathsL cs
end

/-- the dictionary `_config_for_ini` hands to `add_paths` for one directory -/
def ruleOfDir (bm : Text × Text) : PathD :=
  { l10n := normpath (Gen.TablesCfg.iniL10nPrefix ++ bm.2 ++ Gen.TablesCfg.iniL10nSuffix),
    reference := some (normpath (bm.1 ++ Gen.TablesCfg.iniRefSep ++ bm.2 ++ Gen.TablesCfg.iniRefSuffix)),
    test := if bm.2 == Gen.TablesCfg.iniTestModule then some [Gen.TablesCfg.iniTestName] else none,
    locales := none,
    module := some bm.2 }

/-- `add_paths` builds `Matcher(l10n, env=environ, root=None)` and `Matcher(reference, …)` -/
def checkRules (cwd : Text) (environ : Env) : List PathD → Except Err Unit
  | [] => .ok ()
  | d :: ds =>
    match checkMatcher cwd none environ d.l10n with
    | .error (.matcher e) => .error (.matcher e)
    | .error _ => .error (.matcher .typeError)
    | .ok () =>
      match (match d.reference with | some r => checkMatcher cwd none environ r | none => .ok ()) with
      | .error (.matcher e) => .error (.matcher e)
      | .error _ => .error (.matcher .typeError)
      | .ok () => checkRules cwd environ ds

/-- the result of `EnumerateApp(inipath, l10nbase).asConfig()`: the `ProjectConfig` and the ini file whose `filter.py`
    became `filter_py` (none: no legacy filter) -/
structure Result where
  pc : PC
  filterFrom : Option Text

/-- `EnumerateApp.asConfig` on a loaded configuration; `absBase` = `self.l10nbase`, which `__init__` set to
    `mozpath.abspath(l10nbase)` -/
def asConfigAbs (w : IniWorld) (absBase : Text) (cfg : Loaded) : Except Err Result :=
  -- `ProjectConfig(None)`, `set_root(".")` (stays None), `add_environment(l10n_base=self.l10nbase)`
  let environ : Env := PM.dupdate [] [(l10nBaseName, absBase)]
  let paths := cfg.directories.map ruleOfDir
  match checkRules w.cwd environ paths with
  | .error e => .error e
  | .ok () =>
    -- `filters = self.config.getFilters(); if filters: set_filter_py(filters[0])`
    let filterFrom := cfg.inipaths.find? fun p => w.filters.contains p
    -- `config.set_locales(self.config.allLocales(), deep=True)`
    match cfg.allPath with
    | none => .error .openNone
    | some ap =>
      -- the OS resolves `..` (no symbolic links): the file is found under its normalised path, the exception names `ap`
      match w.locales.lookup (normpath ap) with
      | none => .error (.fileNotFound ap)
      | some ls => .ok { pc := .mk none (setRoot w.cwd none dot) environ paths [] (some ls) [] [], filterFrom := filterFrom }

/-- `__init__` (`self.l10nbase = mozpath.abspath(l10nbase)`) followed by `asConfig()` on the loaded configuration -/
def asConfig (w : IniWorld) (l10nbase : Text) (cfg : Loaded) : Except Err Result :=
  asConfigAbs w (abspath w.cwd l10nbase) cfg

/-- `EnumerateApp(inipath, l10nbase).asConfig()` / `EnumerateSourceTreeApp(inipath, basepath, l10nbase, redirects).asConfig()` -/
def enumerateApp (w : IniWorld) (fl : Flavour) (inipath l10nbase : Text) : Except Err Result :=
  match load w fl inipath with
  | .error e => .error e
  | .ok cfg => asConfig w l10nbase cfg

end TI

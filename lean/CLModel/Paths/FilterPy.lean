/-
Model of the parts of compare_locales/paths/project.py `ProjectConfig` that `Paths/Filter.lean` leaves out
(round 4): legacy `filter.py` support — `set_filter_py`, its closure `filter_`, the `filter_py` branch of
`filter` — and the guards of the object graph: the `assert`s of `add_rules` / `set_filter_py`, `ExcludeError`
in `add_child` / `exclude`, `set_locales(locales, deep)`.  Transliteration; core Lean only.

The legacy callable `filter_function(module, path, entity=None)` is an abstract function (`PyFilter`) into
`PyOut`, the classes of outcomes `filter_` distinguishes.  Path matchers and key predicates are those of
`Paths/Filter.lean` (abstract `PathM`, `KeyPred`).  A configuration node carries its `filter_py` (`ConfigP`);
`erase` forgets it and gives the `Filt.Config` of `Filter.lean` (`C14.filterp_no_py`).
-/
import CLModel.Paths.Filter
namespace FiltP
open Filt

inductive PyErr where
  | assertion      -- AssertionError
  | typeError      -- TypeError: unhashable type (the `dict.get` of `filter_`)
  | excludeError   -- paths.project.ExcludeError
  | unmodelled     -- a string allowed by the `assert` that is not one of "error" / "warning" / "ignore"
  deriving DecidableEq, Repr, Inhabited

/-- what calling the legacy `filter_function(module, path, entity=entity)` results in, as far as `filter_` can
    tell the cases apart -/
inductive PyOut where
  /-- it raised (any `BaseException`: `Exception`, `KeyboardInterrupt`, `SystemExit`, …) -/
  | raised
  /-- `True` / `False` — and everything that is equal and hash-equal to them as a dict key: `1`, `0`, `1.0`, `0.0` -/
  | bool (b : Bool)
  | str (s : Text)
  | none
  /-- an unhashable object (a list, a dict): `{…}.get(rv, rv)` raises `TypeError`, outside the `try` -/
  | unhashable
  /-- any other hashable object (`2`, a tuple, `object()`) -/
  | other
  deriving DecidableEq, Repr, Inhabited

/-- `paths.File` as the filter sees it: `fullpath`, `locale` (project rules), `module`, `file` (legacy callable) -/
structure FileP where
  fullpath : Text
  locale : Text
  module : Option Text
  file : Text

def FileP.toFile (f : FileP) : File := ⟨f.fullpath, f.locale⟩

/-- `filter_function`: (module, path, entity) ↦ outcome -/
abbrev PyFilter := Option Text → Text → Option Text → PyOut

/-- the three strings filters and observers exchange -/
def Action.name : Action → Text
  | .error => [101, 114, 114, 111, 114]
  | .warning => [119, 97, 114, 110, 105, 110, 103]
  | .ignore => [105, 103, 110, 111, 114, 101]

def actionOfText (t : Text) : Option Action :=
  [Action.error, Action.warning, Action.ignore].find? (fun a => Action.name a == t)

/-- a string result of `filter_` as a verdict -/
def verdictOfText (t : Text) : Except PyErr (Option Action) :=
  match actionOfText t with
  | some a => .ok (some a)
  | none => .error .unmodelled

/-- `{True: "error", False: "ignore", "report": "warning"}.get(rv, rv)` for a `str` -/
def normStr (s : Text) : Text :=
  match Gen.Tables.filterPyStrMap.lookup s with
  | some v => v
  | none => s

/-- the closure `filter_(module, path, entity=None)` that `set_filter_py` installs; `none` is Python's `None` -/
def filterPyCall (f : PyFilter) (module : Option Text) (path : Text) (entity : Option Text) :
    Except PyErr (Option Action) :=
  match f module path entity with
  | .raised => verdictOfText Gen.Tables.filterPyOnRaise                 -- except BaseException: return "error"
  | .unhashable => .error .typeError                                     -- {...}.get(rv, rv)
  | .other => .error .assertion                                          -- assert rv in (...)
  | .none => if Gen.Tables.filterPyAllowsNone then .ok none else .error .assertion
  | .bool b =>
    let rv := if b then Gen.Tables.filterPyTrue else Gen.Tables.filterPyFalse
    if Gen.Tables.filterPyAllowed.contains rv then verdictOfText rv else .error .assertion
  | .str s =>
    let rv := normStr s
    if Gen.Tables.filterPyAllowed.contains rv then verdictOfText rv else .error .assertion

/-! ### configurations with `filter_py` -/

inductive ConfigP where
  | mk (filterPy : Option PyFilter) (locales : Option (List Text)) (paths : List PathEntry) (rules : List Rule)
       (children : List ConfigP) (excludes : List ConfigP)

def ConfigP.filterPy : ConfigP → Option PyFilter | .mk f _ _ _ _ _ => f
def ConfigP.locales : ConfigP → Option (List Text) | .mk _ l _ _ _ _ => l
def ConfigP.paths : ConfigP → List PathEntry | .mk _ _ p _ _ _ => p
def ConfigP.rules : ConfigP → List Rule | .mk _ _ _ r _ _ => r
def ConfigP.children : ConfigP → List ConfigP | .mk _ _ _ _ c _ => c
def ConfigP.excludes : ConfigP → List ConfigP | .mk _ _ _ _ _ e => e

/-- `ProjectConfig(path)`: the empty configuration -/
def ConfigP.empty : ConfigP := .mk none none [] [] [] []

mutual
/-- forget `filter_py` everywhere: the configuration of `Paths/Filter.lean` -/
def erase : ConfigP → Config
  | .mk _ locales paths rules children excludes => .mk locales paths rules (eraseList children) (eraseList excludes)
def eraseList : List ConfigP → List Config
  | [] => []
  | c :: cs => erase c :: eraseList cs
end

mutual
/-- no node of the tree (included and excluded configurations too) has a `filter_py` -/
def noPy : ConfigP → Bool
  | .mk f _ _ _ children excludes => f.isNone && noPyList children && noPyList excludes
def noPyList : List ConfigP → Bool
  | [] => true
  | c :: cs => noPy c && noPyList cs
end

mutual
/-- `ProjectConfig.all_locales` (as in `Filt.allLocales`; `filter_py` plays no role) -/
def allLocalesP : ConfigP → List Text
  | .mk _ locales paths _ children _ => ownLocales locales paths ++ allLocalesListP children
def allLocalesListP : List ConfigP → List Text
  | [] => []
  | c :: cs => allLocalesP c ++ allLocalesListP cs
end

/-! ### building the object graph: the guards -/

/-- `set_filter_py(filter_function)`: `assert not self.rules` -/
def setFilterPy (c : ConfigP) (f : PyFilter) : Except PyErr ConfigP :=
  match c with
  | .mk _ locales paths rules children excludes =>
    if !rules.isEmpty then .error .assertion
    else .ok (.mk (some f) locales paths rules children excludes)

/-- `add_rules(*rules)`: `assert self.filter_py is None` (also for zero rules), then extend with the compiled rules -/
def addRulesP (c : ConfigP) (raws : List RawRule) : Except PyErr ConfigP :=
  match c with
  | .mk f locales paths rules children excludes =>
    if f.isSome then .error .assertion
    else .ok (.mk f locales paths (addRules rules raws) children excludes)

/-- `add_paths(*paths)` -/
def addPathsP (c : ConfigP) (ps : List PathEntry) : ConfigP :=
  match c with
  | .mk f locales paths rules children excludes => .mk f locales (paths ++ ps) rules children excludes

/-- `add_child(child)`: `if child.excludes: raise ExcludeError` -/
def addChild (c child : ConfigP) : Except PyErr ConfigP :=
  match c with
  | .mk f locales paths rules children excludes =>
    if !child.excludes.isEmpty then .error .excludeError
    else .ok (.mk f locales paths rules (children ++ [child]) excludes)

mutual
/-- `any(config.excludes for config in c.configs)`: the configuration or an included one declares excludes -/
def anyExcludes : ConfigP → Bool
  | .mk _ _ _ _ children excludes => !excludes.isEmpty || anyExcludesList children
def anyExcludesList : List ConfigP → Bool
  | [] => false
  | c :: cs => anyExcludes c || anyExcludesList cs
end

/-- `exclude(child)`: `for config in child.configs: if config.excludes: raise ExcludeError` -/
def excludeP (c child : ConfigP) : Except PyErr ConfigP :=
  match c with
  | .mk f locales paths rules children excludes =>
    if anyExcludes child then .error .excludeError
    else .ok (.mk f locales paths rules children (excludes ++ [child]))

mutual
/-- `set_locales(locales, deep=True)`: this configuration and, recursively, the included ones (not the excluded) -/
def setLocalesDeep : ConfigP → Option (List Text) → ConfigP
  | .mk f _ paths rules children excludes, ls => .mk f ls paths rules (setLocalesDeepList children ls) excludes
def setLocalesDeepList : List ConfigP → Option (List Text) → List ConfigP
  | [], _ => []
  | c :: cs, ls => setLocalesDeep c ls :: setLocalesDeepList cs ls
end

/-- `set_locales(locales, deep=False)` -/
def setLocalesShallow : ConfigP → Option (List Text) → ConfigP
  | .mk f _ paths rules children excludes, ls => .mk f ls paths rules children excludes

/-! ### `_filter` and `filter` -/

mutual
/-- `ProjectConfig._filter(l10n_file, entity)`: does not look at `self.filter_py`; the excluded configurations are
    asked through their PUBLIC `filter` (which does) -/
def filterInnerP : ConfigP → FileP → Option Text → Except PyErr (Option Action)
  | .mk _ _ paths rules children excludes, file, entity => do
    if (← anyExcludeErrorP excludes file) then pure none else
    let actions ← childActionsP children file entity
    if actions.contains (some .error) then pure (some .error) else
    let cached := buildCache paths rules file.locale
    let actions :=
      if cached.l10nPaths.any (fun p => p.matchPath file.fullpath) then
        actions ++ [some (scanRules file.fullpath entity cached.rules.reverse)]
      else actions
    pure (pick actions)
/-- `{child._filter(l10n_file, entity=entity) for child in self.children}`: `_filter`, not `filter` -/
def childActionsP : List ConfigP → FileP → Option Text → Except PyErr (List (Option Action))
  | [], _, _ => pure []
  | c :: cs, file, entity => do
    let a ← filterInnerP c file entity
    let rest ← childActionsP cs file entity
    pure (a :: rest)
/-- `any(exclude.filter(l10n_file) == "error" for exclude in self.excludes)` (short-circuit), with the body of the
    public `filter` inlined: locale test, then `filter_py` if set, else `_filter` -/
def anyExcludeErrorP : List ConfigP → FileP → Except PyErr Bool
  | [], _ => pure false
  | ex :: rest, file => do
    let hit ←
      if !(allLocalesP ex).contains file.locale then pure false
      else match ex.filterPy with
        | some g => do
          let rv ← filterPyCall g file.module file.file none
          pure (rv == some Action.error)
        | none => do
          let rv ← filterInnerP ex file none
          pure (rv == some Action.error)                  -- `None` → "ignore" ≠ "error"
    if hit then pure true else anyExcludeErrorP rest file
end

/-- `ProjectConfig.filter(l10n_file, entity=None)`; `none` = Python's `None` (only the legacy callable can produce it) -/
def filterP (cfg : ConfigP) (file : FileP) (entity : Option Text) : Except PyErr (Option Action) :=
  if !(allLocalesP cfg).contains file.locale then pure (some .ignore) else
  match cfg.filterPy with
  | some f => filterPyCall f file.module file.file entity
  | none => do
    match ← filterInnerP cfg file entity with
    | none => pure (some .ignore)
    | some a => pure (some a)

end FiltP

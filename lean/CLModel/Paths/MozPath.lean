/-
Model of the pure helpers of compare_locales/mozpath.py (normsep, normpath, join, relpath, abspath,
commonprefix, basedir, dirname, basename, split, splitext, rebase) on POSIX (`os.sep == "/"`,
`os.altsep is None`), i.e. of the `posixpath` functions they wrap, transliterated from CPython's
`posixpath.py` / `genericpath.py`.  The current directory (`os.getcwd()`) is a parameter.
Text = `List Nat` of code points.  Partial operations are `Except Err`.
`realpath` (file system: symbolic links) is outside the model.
Tied to the Python by the `c12.mp.*` correspondence streams (Ops/C12.lean, harness/props/c12.py).
-/
namespace MP

abbrev Text := List Nat

inductive Err where
  | typeError | valueError | assertionError
  deriving Repr, DecidableEq, Inhabited

/-- "." -/
def dot : Text := [46]
/-- ".." -/
def dotdot : Text := [46, 46]

/-- `mozpath.normsep`: on POSIX `os.sep` is "/" and `os.altsep` is `None`: nothing is replaced -/
def normsep (p : Text) : Text := p

/-- `str.split("/")` -/
def split : Text → List Text
  | [] => [[]]
  | c :: cs =>
    if c = 47 then [] :: split cs
    else match split cs with
      | [] => [[c]]
      | h :: t => (c :: h) :: t

/-- `"/".join(parts)` -/
def joinSlash : List Text → Text
  | [] => []
  | [a] => a
  | a :: b :: r => a ++ 47 :: joinSlash (b :: r)

def startsSlash (p : Text) : Bool := p.head? == some 47
def endsSlash (p : Text) : Bool := p.getLast? == some 47

/-- one step of `posixpath.join`: `path` so far, next argument `b` -/
def join2 (path b : Text) : Text :=
  if startsSlash b then b
  else if path.isEmpty || endsSlash path then path ++ b
  else path ++ 47 :: b

/-- `mozpath.join(*paths)` = `posixpath.join`; no argument at all is a `TypeError` -/
def join : List Text → Except Err Text
  | [] => throw .typeError
  | a :: ps => pure (ps.foldl join2 a)

/-- the loop body of `posixpath.normpath`: `initial` = number of leading slashes kept (0, 1, 2) -/
def normStep (initial : Nat) (acc : List Text) (comp : Text) : List Text :=
  if comp == [] || comp == dot then acc
  else if comp != dotdot || (initial == 0 && acc.isEmpty) || (!acc.isEmpty && acc.getLast? == some dotdot) then
    acc ++ [comp]
  else if !acc.isEmpty then acc.dropLast
  else acc

/-- `initial_slashes` of `posixpath.normpath`: POSIX keeps exactly two leading slashes, three or more count as one -/
def initialSlashes (path : Text) : Nat :=
  if [47, 47].isPrefixOf path && !([47, 47, 47].isPrefixOf path) then 2
  else if [47].isPrefixOf path then 1
  else 0

/-- `posixpath.normpath` (= `mozpath.normpath`) -/
def normpath (path : Text) : Text :=
  if path.isEmpty then dot else
  let initial := initialSlashes path
  let comps := (split path).foldl (normStep initial) []
  let p := List.replicate initial 47 ++ joinSlash comps
  if p.isEmpty then dot else p

/-- `posixpath.abspath` (= `mozpath.abspath`), `cwd` = `os.getcwd()` -/
def abspath (cwd path : Text) : Text :=
  normpath (if startsSlash path then path else join2 cwd path)

/-- length of the longest common prefix of two lists (`len(commonprefix([a, b]))`) -/
def commonLen {α} [BEq α] : List α → List α → Nat
  | a :: as, b :: bs => if a == b then commonLen as bs + 1 else 0
  | _, _ => 0

/-- `posixpath.relpath(path, start)` -/
def osRelpath (cwd path start : Text) : Except Err Text :=
  if path.isEmpty then throw .valueError else
  let startList := (split (abspath cwd start)).filter (fun x => !x.isEmpty)
  let pathList := (split (abspath cwd path)).filter (fun x => !x.isEmpty)
  let i := commonLen startList pathList
  let rel := List.replicate (startList.length - i) dotdot ++ pathList.drop i
  match rel with
  | [] => pure dot
  | _ => join rel

/-- `mozpath.relpath(path, start)` -/
def relpath (cwd path start : Text) : Except Err Text := do
  let rel ← osRelpath cwd path start
  pure (if rel == dot then [] else rel)

/-- `p.rfind(c) + 1`: length of the part up to and including the last `c` (0 if there is none) -/
def afterLast (c : Nat) : Text → Nat
  | [] => 0
  | x :: xs =>
    let r := afterLast c xs
    if r > 0 then r + 1 else if x = c then 1 else 0

/-- `s.rstrip("/")` -/
def rstripSlash (s : Text) : Text := (s.reverse.dropWhile (· == 47)).reverse

/-- `posixpath.dirname` (= `mozpath.dirname`) -/
def dirname (p : Text) : Text :=
  let head := p.take (afterLast 47 p)
  if !head.isEmpty && head != List.replicate head.length 47 then rstripSlash head else head

/-- `os.path.basename` (= `mozpath.basename`) -/
def basename (p : Text) : Text := p.drop (afterLast 47 p)

/-- `posixpath.splitext` (`genericpath._splitext(p, "/", None, ".")`) -/
def splitext (p : Text) : Text × Text :=
  let i := afterLast 47 p          -- sepIndex + 1
  let j := afterLast 46 p          -- dotIndex + 1
  if j > i then
    -- "skip all leading dots": some character of the file name before the last dot is not a dot
    if ((p.drop i).take (j - 1 - i)).any (· != 46) then (p.take (j - 1), p.drop (j - 1)) else (p, [])
  else (p, [])

/-- Python's `<` on `str` (code point order) -/
def lexLt : Text → Text → Bool
  | [], [] => false
  | [], _ :: _ => true
  | _ :: _, [] => false
  | a :: as, b :: bs => if a < b then true else if b < a then false else lexLt as bs

def minText (a b : Text) : Text := if lexLt b a then b else a
def maxText (a b : Text) : Text := if lexLt a b then b else a

/-- the loop of `genericpath.commonprefix`: the prefix of `s1` up to the first difference with `s2` -/
def prefixUpTo : Text → Text → Text
  | a :: as, b :: bs => if a = b then a :: prefixUpTo as bs else []
  | _, _ => []

/-- `posixpath.commonprefix` (= `mozpath.commonprefix`): character-wise, via `min` and `max` -/
def commonprefix : List Text → Text
  | [] => []
  | p :: ps => prefixUpTo (ps.foldl minText p) (ps.foldl maxText p)

/-- insertion into a list sorted in descending order -/
def insertDesc (x : Text) : List Text → List Text
  | [] => [x]
  | y :: ys => if lexLt x y then y :: insertDesc x ys else x :: y :: ys

/-- `sorted(bases, reverse=True)` -/
def sortDesc : List Text → List Text
  | [] => []
  | x :: xs => insertDesc x (sortDesc xs)

/-- `mozpath.basedir(path, bases)`; `none` = the function falls off its end (returns `None`) -/
def basedir (path : Text) (bases : List Text) : Option Text :=
  if bases.contains path then some path
  else (sortDesc bases).find? (fun b => b.isEmpty || (b ++ [47]).isPrefixOf path)

/-- `mozpath.rebase(oldbase, base, relativepath)` -/
def rebase (cwd oldbase base rel : Text) : Except Err Text :=
  if base == oldbase then pure rel else do
    let result ←
      if base.length < oldbase.length then do
        if basedir oldbase [base] != some base then throw .assertionError
        let relbase ← relpath cwd oldbase base
        pure (join2 relbase rel)
      else do
        if basedir base [oldbase] != some oldbase then throw .assertionError
        let relbase ← relpath cwd base oldbase
        relpath cwd rel relbase
    let result := normpath result
    pure (if endsSlash rel && !endsSlash result then result ++ [47] else result)

end MP

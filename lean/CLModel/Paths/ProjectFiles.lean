/-
Model of `compare_locales.paths.files.ProjectFiles` (`__init__`, `__iter__`, `iter_locale`,
`iter_reference`, `_files`, `match`; as of /repo 2964cef, i.e. with the fixes for F7, F15 and F16), of `ProjectConfig.configs` / `all_locales`
(paths/project.py) and of `TOMLParser.processEnv` (paths/configparser.py).  Core Lean only.

Abstractions (all supplied by the harness from the real objects):
* a `Matcher` is an id; `MEnv` gives its `prefix`, `realpath(prefix)`, the equality class of its
  `pattern`, whether the pattern is wildcard-free, its `match` relation (`some g` = the groupdict, `none` = `None`) and, for
  `Matcher.sub(other, path)`, `expand other g` = `other.pattern.expand(groups ∪ other.env)`.
  `matcher.sub(o, p)` re-runs the pure `matcher.match(p)` that `_files`/`match` just evaluated;
  the model keeps that result `g` instead of recomputing it.
* the file system is the list of regular files in `os.walk` order; `os.walk(base)` visits the files
  whose path starts with `base` read as a *directory* (real semantics: if `base` is not an existing
  directory nothing is visited); `_files` walks `dirname(prefix)` when the prefix does not end in `/`; `mozpath.join(d, f)` is string concatenation for the paths that occur
  (prefixes without `//`, `.` or `..` segments — the harness asserts this on every generated project).
* Python `dict` = insertion-ordered association list, `set` of test names = sorted duplicate-free
  list, `sorted(known.items())` = insertion sort on the (unique) path keys with Python's `str` order.
-/
namespace PF

abbrev Path := List Nat
abbrev Loc := List Nat
abbrev MId := Nat
abbrev GId := Nat

/-- what the model needs to know about the `Matcher` objects -/
structure MEnv where
  pfx : MId → Path                 -- `m.prefix`
  realpfx : MId → Path             -- `mozpath.realpath(m.prefix)`
  pat : MId → Nat                  -- equality class of `m.pattern` (`Pattern.__eq__`)
  literal : MId → Bool             -- `m.pattern.prefix_length == len(m.pattern)`: no wildcard in the pattern
  mtch : MId → Path → Option GId   -- `m.match(path)`
  expand : MId → GId → Path        -- `other.pattern.expand(env of the groups)` inside `Matcher.sub`

/-- Python `str.__lt__`: lexicographic on code points -/
def pathLt : Path → Path → Bool
  | [], [] => false
  | [], _ :: _ => true
  | _ :: _, [] => false
  | a :: as, b :: bs => decide (a < b) || (a == b && pathLt as bs)

/-! ### file system -/

structure FS where
  files : List Path

/-- `os.path.isfile(path)` -/
def FS.isfile (fs : FS) (p : Path) : Bool := fs.files.contains p

/-- the string every path yielded by `os.walk(base)` + `mozpath.join(d, f)` starts with -/
def dirPrefix (base : Path) : Path :=
  if base.getLast? == some 47 then base else base ++ [47]

/-- `p` lies in the directory tree `os.walk(base)` visits -/
def isUnder (base p : Path) : Bool := (dirPrefix base).isPrefixOf p

/-- the file paths `for d, dirs, files in os.walk(base): for f in files: join(d, f)` produces
    (`os.walk("")` visits nothing) -/
def FS.walk (fs : FS) (base : Path) : List Path :=
  if base.isEmpty then [] else fs.files.filter (isUnder base)

/-- `p[: p.rfind("/") + 1]` -/
def headOf : Path → Path
  | [] => []
  | c :: cs =>
    let h := headOf cs
    if h.isEmpty then (if c == 47 then [c] else []) else c :: h

/-- `p.rstrip("/")` -/
def rstripSlash : Path → Path
  | [] => []
  | c :: cs =>
    let t := rstripSlash cs
    if t.isEmpty && c == 47 then [] else c :: t

/-- `mozpath.dirname` = `posixpath.dirname`: the head up to the last slash, trailing slashes stripped
    unless it consists of slashes only -/
def dirname (p : Path) : Path :=
  let head := headOf p
  if head.all (· == 47) then head else rstripSlash head

/-- `if not base.endswith("/"): base = mozpath.dirname(base)` -/
def walkBase (base : Path) : Path :=
  if base.getLast? == some 47 then base else dirname base

/-! ### sets of test names -/

def setInsert (x : Nat) : List Nat → List Nat
  | [] => [x]
  | y :: ys => if x < y then x :: y :: ys else if x == y then y :: ys else y :: setInsert x ys

/-- `a | b` -/
def setUnion (a b : List Nat) : List Nat := b.foldl (fun s x => setInsert x s) a

/-- `set(l)` -/
def setOfList (l : List Nat) : List Nat := setUnion [] l

/-! ### configuration objects -/

/-- one entry of `ProjectConfig.paths`, with the matchers `ProjectFiles.__init__` derives from it
    for the locale at hand -/
structure PathRule where
  l10n : MId                       -- `paths["l10n"].with_env({"locale": locale or REFERENCE_LOCALE})`
  reference : Option MId           -- `paths["reference"]` if present
  merge : MId                      -- `paths["l10n"].with_env({"locale": locale, "l10n_base": mergebase})`
  test : Option (List Nat)         -- `paths.get("test")`
  locales : Option (List Loc)      -- `paths["locales"]` if present
  deriving Repr

inductive Config where
  | mk (path : Nat) (locales : Option (List Loc)) (paths : List PathRule)
       (children : List Config) (excludes : List Config)

def Config.path : Config → Nat | .mk p _ _ _ _ => p
def Config.locales : Config → Option (List Loc) | .mk _ l _ _ _ => l
def Config.paths : Config → List PathRule | .mk _ _ ps _ _ => ps
def Config.children : Config → List Config | .mk _ _ _ c _ => c
def Config.excludes : Config → List Config | .mk _ _ _ _ e => e

mutual
/-- `ProjectConfig.configs`: this config, then the children's configs, recursively -/
def Config.configs : Config → List Config
  | .mk p l ps ch ex => .mk p l ps ch ex :: configsL ch
def configsL : List Config → List Config
  | [] => []
  | c :: cs => c.configs ++ configsL cs
end

def optHas (ls : Option (List Loc)) (loc : Loc) : Bool :=
  match ls with
  | some l => l.contains loc
  | none => false

/-- `locale in project.all_locales` -/
def inAllLocales (project : Config) (loc : Loc) : Bool :=
  project.configs.any fun c => optHas c.locales loc || c.paths.any fun p => optHas p.locales loc

/-- `ConfigList.maybe_extend` -/
def maybeExtend (self other : List Config) : List Config :=
  other.foldl (fun s c => if s.any (fun mine => mine.path == c.path) then s else s ++ [c]) self

/-! ### ProjectFiles -/

/-- one element of `self.matchers` -/
structure Rule where
  l10n : MId
  reference : Option MId
  merge : Option MId
  test : List Nat
  deriving DecidableEq, Repr

inductive PF where
  | mk (locale : Option Loc) (matchers : List Rule) (exclude : Option PF)

def PF.locale : PF → Option Loc | .mk l _ _ => l
def PF.matchers : PF → List Rule | .mk _ m _ => m
def PF.exclude : PF → Option PF | .mk _ _ e => e

/-- Python truthiness of `locale` (`None` and `""` are false) -/
def truthy : Option Loc → Bool
  | some (_ :: _) => true
  | _ => false

inductive Err where
  | runtimeMismatch     -- RuntimeError("Mismatch in reference for …")
  | attributeNone       -- `m_.get("reference").prefix` with no reference: AttributeError
  | typeErrorLocale     -- `with_env({"locale": None, …})` when a mergebase is given in validation mode
  | depth               -- model artefact: recursion fuel exhausted
  deriving DecidableEq, Repr

/-- the two comparisons that make two matchers "the same" in the duplicate scan -/
def sameKey (env : MEnv) (m m_ : Rule) : Bool :=
  env.realpfx m.l10n == env.realpfx m_.l10n && env.pat m.l10n == env.pat m_.l10n

/-- inner loop of the duplicate scan for the matcher `m` over `self.matchers[(i + 1):]`;
    the flag of an element says `index in drops` -/
def scan (env : MEnv) (m : Rule) : List (Rule × Bool) → Except Err (Rule × List (Rule × Bool))
  | [] => .ok (m, [])
  | (m_, d) :: rest =>
    if env.realpfx m.l10n != env.realpfx m_.l10n then
      (scan env m rest).map fun (m', r) => (m', (m_, d) :: r)
    else if env.pat m.l10n != env.pat m_.l10n then
      (scan env m rest).map fun (m', r) => (m', (m_, d) :: r)
    else
      let check : Except Err Unit :=
        match m.reference with
        | none => .ok ()
        | some mr =>
          match m_.reference with
          | none => .error .attributeNone
          | some mr_ => if env.realpfx mr != env.realpfx mr_ then .error .runtimeMismatch else .ok ()
      match check with
      | .error e => .error e
      | .ok () => (scan env { m with test := setUnion m.test m_.test } rest).map fun (m', r) => (m', (m_, true) :: r)

/-- outer loop of the duplicate scan followed by `del self.matchers[i]` for the dropped indexes;
    the first argument bounds the length of the list -/
def dedupGo (env : MEnv) : Nat → List (Rule × Bool) → Except Err (List Rule)
  | _, [] => .ok []
  | _, [(m, d)] => .ok (if d then [] else [m])      -- `self.matchers[:-1]`: the last one is never scanned from
  | 0, _ => .ok []
  | n + 1, (m, d) :: rest =>
    if d then dedupGo env n rest
    else
      match scan env m rest with
      | .error e => .error e
      | .ok (m', rest') => (dedupGo env n rest').map (m' :: ·)

def dedup (env : MEnv) (ms : List Rule) : Except Err (List Rule) :=
  dedupGo env ms.length (ms.map (·, false))

/-- `paths.get("test", [])` -/
def optList (o : Option (List Nat)) : List Nat :=
  match o with
  | some t => t
  | none => []

/-- the `m = {...}` dict of one path rule -/
def mkRule (locale : Option Loc) (mergebase : Bool) (p : PathRule) : Except Err Rule :=
  if mergebase then
    match locale with
    | none => .error .typeErrorLocale
    | some _ => .ok { l10n := p.l10n, reference := p.reference, merge := some p.merge,
                      test := setOfList (optList p.test) }
  else
    .ok { l10n := p.l10n, reference := p.reference, merge := none,
          test := setOfList (optList p.test) }

/-- `locale is not None and locale not in project.all_locales` -/
def skipProject (locale : Option Loc) (project : Config) : Bool :=
  match locale with
  | some l => !inAllLocales project l
  | none => false

/-- `for project in projects: …` : the config list and the exclude list -/
def collect (locale : Option Loc) (projects : List Config) : List Config × List Config :=
  projects.foldl (fun (acc : List Config × List Config) project =>
    if skipProject locale project then acc
    else (maybeExtend acc.1 project.configs, maybeExtend acc.2 project.excludes)) ([], [])

/-- negation of `locale and ls is not None and locale not in ls` (the two `continue` gates) -/
def localeOk (locale : Option Loc) (ls : Option (List Loc)) : Bool :=
  !(truthy locale && (match ls, locale with
                      | some ls, some l => !ls.contains l
                      | _, _ => false))

/-- the path rules that pass the locale gates, in config order -/
def gated (locale : Option Loc) (configs : List Config) : List PathRule :=
  configs.flatMap fun pc =>
    if localeOk locale pc.locales then pc.paths.filter fun paths => localeOk locale paths.locales
    else []

/-- `self.matchers.append(m)` for every gated rule -/
def mkRules (locale : Option Loc) (mergebase : Bool) : List PathRule → Except Err (List Rule)
  | [] => .ok []
  | p :: ps =>
    match mkRule locale mergebase p with
    | .error e => .error e
    | .ok r => (mkRules locale mergebase ps).map (r :: ·)

/-- the exclude list after "if an excluded config is explicitly included, drop it from the excludes" -/
def excludesOf (locale : Option Loc) (projects : List Config) : List Config :=
  (collect locale projects).2.filter fun ex => !(collect locale projects).1.any (fun c => c.path == ex.path)

/-- `ProjectFiles.__init__`; the first argument bounds the nesting of exclude lists -/
def build (env : MEnv) : Nat → Option Loc → List Config → Bool → Except Err PF
  | 0, _, _, _ => .error .depth
  | fuel + 1, locale, projects, mergebase =>
    match (if (excludesOf locale projects).isEmpty then Except.ok none
           else (build env fuel locale (excludesOf locale projects) false).map some) with
    | .error e => .error e
    | .ok exclude =>
      match mkRules locale mergebase (gated locale (collect locale projects).1) with
      | .error e => .error e
      | .ok ms =>
        match dedup env ms.reverse with
        | .error e => .error e
        | .ok ms => .ok (.mk locale ms exclude)

mutual
def Config.size : Config → Nat
  | .mk _ _ _ ch ex => 1 + sizeL ch + sizeL ex
def sizeL : List Config → Nat
  | [] => 0
  | c :: cs => c.size + sizeL cs
end

/-- `ProjectFiles(locale, projects, mergebase)` -/
def PF.new (env : MEnv) (locale : Option Loc) (projects : List Config) (mergebase : Bool) : Except Err PF :=
  build env (sizeL projects + 1) locale projects mergebase

/-! ### lookup -/

structure Item where
  path : Path
  reference : Option Path
  merge : Option Path
  test : List Nat
  deriving DecidableEq, Repr

/-- the `for matchers in self.matchers` loop of `ProjectFiles.match`; `excluded q` =
    `self.exclude and self.exclude.match(q) is not None` -/
def matchRules (env : MEnv) (locNotNone : Bool) (excluded : Path → Bool) (path : Path) : List Rule → Option Item
  | [] => none
  | r :: rs =>
    match (if locNotNone then env.mtch r.l10n path else none) with
    | some g =>
      some { path := path, reference := r.reference.map (env.expand · g),
             merge := r.merge.map (env.expand · g), test := r.test }
    | none =>
      match r.reference with
      | none => matchRules env locNotNone excluded path rs
      | some rm =>
        match env.mtch rm path with
        | some g =>
          if locNotNone && excluded (env.expand r.l10n g) then none   -- the localized file belongs to an excluded config
          else
            some { path := env.expand r.l10n g, reference := some path,
                   merge := r.merge.map (env.expand · g), test := r.test }
        | none => matchRules env locNotNone excluded path rs

/-- `ProjectFiles.match(path)` -/
def PF.matchPath (env : MEnv) : PF → Path → Option Item
  | .mk locale ms exclude, path =>
    if locale.isSome && (match exclude with
                         | some ex => (ex.matchPath env path).isSome
                         | none => false) then none
    else matchRules env locale.isSome
      (fun q => match exclude with
                | some ex => (ex.matchPath env q).isSome
                | none => false) path ms

/-- `self.exclude and self.exclude.match(p) is not None` -/
def excludedBy (env : MEnv) (exclude : Option PF) (p : Path) : Bool :=
  match exclude with
  | some ex => (ex.matchPath env p).isSome
  | none => false

/-! ### enumeration -/

/-- `ProjectFiles._files(matcher)`: paths together with the result of `matcher.match` -/
def files (env : MEnv) (fs : FS) (excluded : Path → Bool) (m : MId) : List (Path × GId) :=
  let base := env.pfx m
  if env.literal m && fs.isfile base then
    if excluded base then []
    else match env.mtch m base with
      | some g => [(base, g)]
      | none => []
  else
    (fs.walk (walkBase base)).filterMap fun p =>
      if excluded p then none else (env.mtch m p).map (p, ·)

structure Entry where
  reference : Option Path
  merge : Option Path
  test : List Nat
  deriving DecidableEq, Repr

abbrev Known := List (Path × Entry)

/-- `if path not in known: known[path] = e` -/
def kAdd (known : Known) (p : Path) (e : Entry) : Known :=
  if known.any (·.1 == p) then known else known ++ [(p, e)]

/-- body of `for matchers in self.matchers` in `iter_locale` -/
def stepLocale (env : MEnv) (fs : FS) (excluded : Path → Bool) (known : Known) (r : Rule) : Known :=
  let known := (files env fs excluded r.l10n).foldl (fun k (pg : Path × GId) =>
      kAdd k pg.1 { reference := r.reference.map (env.expand · pg.2),
                    merge := r.merge.map (env.expand · pg.2), test := r.test }) known
  match r.reference with
  | none => known
  | some rm =>
    (files env fs excluded rm).foldl (fun k (pg : Path × GId) =>
      if excluded (env.expand r.l10n pg.2) then k   -- the localized file belongs to an excluded config
      else kAdd k (env.expand r.l10n pg.2) { reference := some pg.1,
                                             merge := r.merge.map (env.expand · pg.2), test := r.test }) known

/-- body of `for matchers in self.matchers` in `iter_reference` -/
def stepReference (env : MEnv) (fs : FS) (known : Known) (r : Rule) : Known :=
  match r.reference with
  | none => known
  | some rm =>
    (files env fs (fun _ => false) rm).foldl (fun k (pg : Path × GId) =>
      kAdd k (env.expand rm pg.2) { reference := some pg.1, merge := none, test := r.test }) known

def insertSorted (x : Path × Entry) : Known → Known
  | [] => [x]
  | y :: ys => if pathLt y.1 x.1 then y :: insertSorted x ys else x :: y :: ys

/-- `sorted(known.items())` -/
def sortKnown (known : Known) : Known := known.foldr insertSorted []

def toItem (pe : Path × Entry) : Item :=
  { path := pe.1, reference := pe.2.reference, merge := pe.2.merge, test := pe.2.test }

/-- `ProjectFiles.iter_locale` -/
def PF.iterLocale (env : MEnv) (fs : FS) (pf : PF) : List Item :=
  (sortKnown (pf.matchers.foldl (stepLocale env fs (excludedBy env pf.exclude)) [])).map toItem

/-- `ProjectFiles.iter_reference` -/
def PF.iterReference (env : MEnv) (fs : FS) (pf : PF) : List Item :=
  (sortKnown (pf.matchers.foldl (stepReference env fs) [])).map toItem

/-- `ProjectFiles.__iter__` -/
def PF.iter (env : MEnv) (fs : FS) (pf : PF) : List Item :=
  if truthy pf.locale then pf.iterLocale env fs else pf.iterReference env fs

/-! ### `TOMLParser.processEnv` -/

/-- `dict.update` on an insertion-ordered dict -/
def dictSet (d : List (Nat × Nat)) (k v : Nat) : List (Nat × Nat) :=
  if d.any (·.1 == k) then d.map (fun p => if p.1 == k then (k, v) else p) else d ++ [(k, v)]

def dictUpdate (d other : List (Nat × Nat)) : List (Nat × Nat) :=
  other.foldl (fun d kv => dictSet d kv.1 kv.2) d

def dictGet (d : List (Nat × Nat)) (k : Nat) : Option Nat := (d.find? (·.1 == k)).map (·.2)

/-- `pc.add_environment(**data.get("env", {})); pc.add_environment(**ctx.env)` on a fresh config -/
def processEnv (fileEnv parserEnv : List (Nat × Nat)) : List (Nat × Nat) :=
  dictUpdate (dictUpdate [] fileEnv) parserEnv

end PF

/-
Model of the rest of compare_locales/paths/matcher.py (round 4): `Matcher.__eq__/__ne__`, `Pattern.__eq__/__ne__`
(and the node `__eq__`s they call), `Matcher.concat`, `Matcher(other_matcher, env, root)` with a root,
`PatternParser.parse` on a `Pattern`/`Matcher` argument, the module function `expand(root, path, env)`
(with `mozpath.abspath` of the root inside the model) and the `encoding` branches of
`prefix / match / _cache_regex / sub`.
Transliteration, same branches in the same order; errors that the functions of `Matcher.lean` cannot raise are
`XErr` (the shared `PyErr` is not extended).
-/
import CLModel.Paths.Matcher
import CLModel.Paths.MozPath
namespace PM

inductive XErr where
  | py (e : PyErr)
  | valueError
  | attributeError
  deriving Repr, DecidableEq, Inhabited

def liftX {α} : Except PyErr α → Except XErr α
  | .ok a => .ok a
  | .error e => .error (.py e)

/-! ### equality -/

/-- `Literal.__eq__` (str), `Variable.__eq__` (same class, name, repeat; `AndroidLocale` is its own class),
    `Star.__eq__` (same class, number), `Starstar.__eq__` (that, and the suffix): structural equality of nodes -/
def Node.eq (a b : Node) : Bool :=
  match a, b with
  | .lit s, .lit t => s == t
  | .var n r, .var n' r' => n == n' && r == r'
  | .android r, .android r' => r == r'
  | .star n, .star n' => n == n'
  | .starstar n s, .starstar n' s' => n == n' && s == s'
  | _, _ => false

def nodesEq : List Node → List Node → Bool
  | [], [] => true
  | a :: as, b :: bs => Node.eq a b && nodesEq as bs
  | _, _ => false

/-- `Pattern.__eq__(other)` for another `Pattern`: `list.__eq__`, then `root` and `prefix_length` -/
def Pattern.eq (a b : Pattern) : Bool :=
  if !nodesEq a.nodes b.nodes then false
  else a.root == b.root && a.prefixLen == b.prefixLen

/-- `Pattern.__ne__` -/
def Pattern.ne (a b : Pattern) : Bool := !(Pattern.eq a b)

/-- equality of environment values (parsed patterns; `Literal`s only occur inside `sub`) -/
def Val.eq : Val → Val → Bool
  | .pat p, .pat q => Pattern.eq p q
  | .str s, .str t => s == t
  | _, _ => false

/-- `Matcher.__eq__(other)` for another `Matcher` (both with `encoding=None`): same pattern and no conflicting
    environment entry; additional entries on either side are fine -/
def Matcher.eq (self other : Matcher) : Bool :=
  if Pattern.ne self.pattern other.pattern then false
  else if !self.env.isEmpty && !other.env.isEmpty then
    self.env.all (fun kv =>
      match other.env.lookup kv.1 with
      | none => true                       -- `continue`
      | some v => Val.eq kv.2 v)
  else true

/-- `Matcher.__ne__` -/
def Matcher.ne (self other : Matcher) : Bool := !(Matcher.eq self other)

/-! ### construction from a matcher, concat, expand -/

/-- `Matcher(other_matcher, env, root)`: pattern copied, `env` on top of the other's, the root replaced when given -/
def Matcher.rebuild (other : Matcher) (env : List (Text × Text)) (root : Option Text) : Except PyErr Matcher := do
  let e ← realEnv env
  let p := match root with
    | some r => { other.pattern with root := some r }
    | none => other.pattern
  pure { pattern := p, env := dupdate other.env e }

/-- the argument of `concat`: a `Matcher`, or anything else (a string) that `Matcher(other)` accepts -/
inductive ConcatArg where
  | matcher (m : Matcher)
  | text (t : Text)

/-- `other if isinstance(other, Matcher) else Matcher(other)` -/
def ConcatArg.toMatcher : ConcatArg → Except PyErr Matcher
  | .matcher m => pure m
  | .text t => mkMatcher t [] none

/-- `Matcher.concat(other)` -/
def Matcher.concat (self : Matcher) (other : ConcatArg) : Except XErr Matcher := do
  let om ← liftX other.toMatcher
  let op := om.pattern
  if op.root.isSome then throw .valueError
  -- result = Matcher(self); result.pattern += other_pattern
  let pl := if self.pattern.prefixLen == self.pattern.nodes.length then self.pattern.prefixLen + op.prefixLen
            else self.pattern.prefixLen
  pure { pattern := { nodes := self.pattern.nodes ++ op.nodes, root := self.pattern.root, prefixLen := pl },
         env := dupdate self.env om.env }

/-- `mozpath.abspath(root) + "/"` -/
def rootOfDir (cwd root : Text) : Text := MP.abspath cwd root ++ [47]

/-- `Matcher(pattern, env, root)` with the root as the caller gives it (`cwd` = `os.getcwd()`) -/
def mkMatcherAt (cwd : Text) (pattern : Text) (env : List (Text × Text)) (root : Option Text) : Except PyErr Matcher :=
  mkMatcher pattern env (root.map (rootOfDir cwd))

/-- the module function `expand(root, path, env)` = `str(Matcher(path, env=env, root=root))` -/
def expandFn (cwd : Text) (root : Option Text) (path : Text) (env : List (Text × Text)) : Except PyErr Text := do
  let m ← mkMatcherAt cwd path env root
  m.str

/-! ### `encoding` (ASCII texts: encoding and decoding are the identity on code points) -/

/-- `Matcher.match` of a matcher built with an `encoding`: the group values are `.decode`d, which is an
    `AttributeError` for a group that did not take part in the match (`None`) -/
def Matcher.matchEnc (m : Matcher) (path : Text) : Except XErr (Option GroupDict) := do
  let (re, names) ← liftX m.regexOf
  let s := path.toArray
  match Rx.matchAt s re 0 with
  | none => pure none
  | some st =>
    let d := groupDict s st names
    if d.any (fun p => p.2.isNone) then throw .attributeError
    else liftX (m.match path)

/-- `Matcher.sub` of a matcher built with an `encoding` -/
def Matcher.subEnc (self other : Matcher) (path : Text) : Except XErr (Option Text) := do
  match ← self.matchEnc path with
  | none => pure none
  | some d =>
    let r ← liftX (expandTop other.pattern (subEnv d other.env))
    pure (some r)

end PM

/-! ### the regex cache as explicit state (`Matcher._cached_re`) -/
namespace PM

/-- what `Matcher.match` does once the compiled pattern is at hand -/
def matchWith (rn : Rx.Re × List Text) (path : Text) : Except PyErr (Option GroupDict) :=
  let s := path.toArray
  match Rx.matchAt s rn.1 0 with
  | none => pure none
  | some st =>
    let d := groupDict s st rn.2
    if d.any (·.1 == androidName) && !d.any (·.1 == localeName) then
      match d.lookup androidName with
      | some (some a) => do
        let l ← toStandard a
        pure (some (d ++ [(localeName, some l)]))
      | _ => throw .typeError
    else pure (some d)

/-- a `Matcher` object: pattern, environment and `_cached_re` (`none` = not compiled yet) -/
structure CMatcher where
  m : Matcher
  cache : Option (Rx.Re × List Text)

/-- `Matcher(pattern, env, root)`: `self._cached_re = None` -/
def CMatcher.mk' (m : Matcher) : CMatcher := { m := m, cache := none }

/-- `Matcher._cache_regex()`: compile unless it is cached (a compile error leaves the cache empty) -/
def CMatcher.cacheRegex (c : CMatcher) : Except PyErr (CMatcher × (Rx.Re × List Text)) :=
  match c.cache with
  | some rn => pure (c, rn)
  | none => do
    let rn ← c.m.regexOf
    pure ({ c with cache := some rn }, rn)

/-- `Matcher.match(path)`: result and the object afterwards; on an exception the object is as before -/
def CMatcher.match (c : CMatcher) (path : Text) : Except PyErr (Option GroupDict) × CMatcher :=
  match c.cacheRegex with
  | .error e => (.error e, c)
  | .ok (c', rn) => (matchWith rn path, c')

/-- `Matcher.sub(other, path)` (only `self` is matched, `other` is expanded: its cache is not touched) -/
def CMatcher.sub (c other : CMatcher) (path : Text) : Except PyErr (Option Text) × CMatcher :=
  match c.match path with
  | (.error e, c') => (.error e, c')
  | (.ok none, c') => (.ok none, c')
  | (.ok (some d), c') => ((expandTop other.m.pattern (subEnv d other.m.env)).map some, c')

/-- `Matcher(other, env, root)` (and so `with_env`): the copy starts with an EMPTY cache -/
def CMatcher.rebuild (c : CMatcher) (env : List (Text × Text)) (root : Option Text) : Except PyErr CMatcher := do
  let m ← c.m.rebuild env root
  pure (CMatcher.mk' m)

/-- `Matcher.concat(other)`: `result = Matcher(self)` (empty cache), then the pattern is extended -/
def CMatcher.concat (c : CMatcher) (other : ConcatArg) : Except XErr CMatcher := do
  let m ← c.m.concat other
  pure (CMatcher.mk' m)

end PM

/-
Line protocol helpers for the native driver (core Lean only).
A text is `t:` followed by comma separated decimal code points (`t:` = empty).
-/
import CLModel.Rx.Basic
namespace Proto

def natOfChars (cs : List Char) : Option Nat :=
  if cs.isEmpty then none else
  cs.foldl (fun acc c => match acc with
    | some n => if c.isDigit then some (n * 10 + (c.toNat - 48)) else none
    | none => none) (some 0)

def splitChars (sep : Char) (cs : List Char) : List (List Char) :=
  let (cur, acc) := cs.foldl (fun (p : List Char × List (List Char)) c =>
    if c == sep then ([], p.1.reverse :: p.2) else (c :: p.1, p.2)) ([], [])
  (cur.reverse :: acc).reverse

def parseNat (tok : String) : Option Nat := natOfChars tok.toList

def parseInt (tok : String) : Option Int :=
  match tok.toList with
  | '-' :: cs => (natOfChars cs).map (fun n => - (n : Int))
  | cs => (natOfChars cs).map (fun n => (n : Int))

def parseText (tok : String) : Option (List Nat) :=
  match tok.toList with
  | 't' :: ':' :: body =>
    if body.isEmpty then some [] else (splitChars ',' body).mapM natOfChars
  | _ => none

def showText (l : List Nat) : String := "t:" ++ ",".intercalate (l.map toString)

def showOptSpan : Option (Nat × Nat) → String
  | some (a, b) => s!"{a} {b}"
  | none => "-1 -1"

def parseClsItem (it : String) : Option Rx.ClsItem :=
  match it.toList with
  | 'c' :: a => (natOfChars a).map Rx.ClsItem.ch
  | 'r' :: a => match splitChars '-' a with
                | [lo, hi] => match natOfChars lo, natOfChars hi with
                              | some l, some h => some (Rx.ClsItem.range l h)
                              | _, _ => none
                | _ => none
  | ['w'] => some .word | ['d'] => some .digit | ['s'] => some .space
  | ['W'] => some .notWord | ['D'] => some .notDigit | ['X'] => some .notSpace
  | _ => none

/-- wire format of a regex AST: prefix notation, space separated tokens -/
partial def parseRe : List String → Option (Rx.Re × List String)
  | [] => none
  | tok :: rest =>
    match tok.toList with
    | 'L' :: a => (natOfChars a).map (fun c => (Rx.Re.lit c, rest))
    | 'N' :: a => (natOfChars a).map (fun c => (Rx.Re.notLit c, rest))
    | ['A', d] => some (Rx.Re.any (d == '1'), rest)
    | ['E'] => some (Rx.Re.eps, rest)
    | ['Z'] => some (Rx.Re.eos, rest)
    | ['^', d] => some (Rx.Re.bol (d == '1'), rest)
    | ['$', d] => some (Rx.Re.eol (d == '1'), rest)
    | 'B' :: a => (natOfChars a).map (fun c => (Rx.Re.backref c, rest))
    | ['S'] => do
        let (a, r1) ← parseRe rest
        let (b, r2) ← parseRe r1
        pure (Rx.Re.seq a b, r2)
    | ['|'] => do
        let (a, r1) ← parseRe rest
        let (b, r2) ← parseRe r1
        pure (Rx.Re.alt a b, r2)
    | 'G' :: a => do
        let i ← natOfChars a
        let (x, r1) ← parseRe rest
        pure (Rx.Re.group i x, r1)
    | ['K', ah, ng] => do   -- K<ahead><neg>
        let (a, r1) ← parseRe rest
        pure (Rx.Re.look (ah == '1') (ng == '1') a, r1)
    | ['R', g] =>          -- R<greedy> mn mx|-  body
        match rest with
        | mn :: mx :: r0 => do
          let mn ← parseNat mn
          let mx ← if mx == "-" then pure none else (parseNat mx).map some
          let (a, r1) ← parseRe r0
          pure (Rx.Re.rep mn mx (g == '1') a, r1)
        | _ => none
    | ['C', ng] =>         -- C<neg> n item*
        match rest with
        | n :: r0 => do
          let n ← parseNat n
          let its ← (r0.take n).mapM parseClsItem
          pure (Rx.Re.cls (ng == '1') its, r0.drop n)
        | _ => none
    | _ => none

end Proto

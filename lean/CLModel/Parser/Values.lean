/-
Value semantics of the parsers (C02): what `entity.key`, `.raw_val`, `.val` and `pre_comment.val`
evaluate to, as transliterations of the Python, plus -- independently -- the *documented* escape
rules as directly recursive specification functions.  Core Lean only.
-/
import CLModel.Parser.Formats
namespace P
open Rx Gen.Pat

/-! ### Python slicing `contents[a:b]` with possibly negative indices (`m.span("val") == (-1, -1)`) -/

def pyIndex (len : Nat) (i : Int) : Nat :=
  if i < 0 then (if (len : Int) + i < 0 then 0 else ((len : Int) + i).toNat) else min i.toNat len

def pySlice (s : Array Nat) (a b : Int) : List Nat :=
  slice s (pyIndex s.size a) (pyIndex s.size b)

/-! ### properties: `PropertiesEntityMixin.val = escape.sub(unescape, raw_val)` -/

def hexDigitVal (c : Nat) : Option Nat :=
  if 48 ≤ c && c ≤ 57 then some (c - 48)
  else if 97 ≤ c && c ≤ 102 then some (c - 87)
  else if 65 ≤ c && c ≤ 70 then some (c - 55)
  else none

/-- `int(txt, 16)` on the texts the regex can hand over; `none` = ValueError -/
def intBase16 (l : List Nat) : Option Nat :=
  if l.isEmpty then none else
  l.foldlM (fun acc c => (hexDigitVal c).map (fun d => acc * 16 + d)) 0

/-- `known_escapes.get(single, single)` -/
def knownEscape (t : List Nat) : List Nat :=
  match t with
  | [c] => match Gen.Tables.knownEscapes.find? (·.1 == c) with
           | some (_, v) => [v]
           | none => t
  | _ => t

/-- the callback `unescape(m)`; `none` = the callback raises / returns None -/
def propsUnescapeCb (s : Array Nat) (_q : Nat) (st : St) : Option (List Nat) :=
  let uni := st.group PropertiesEntityMixin_escape_g_uni
  let nl := st.group PropertiesEntityMixin_escape_g_nl
  let single := st.group PropertiesEntityMixin_escape_g_single
  -- `if found["uni"]:` (None and "" are falsy)
  match (match uni with | some (a, b) => if a != b then some (a, b) else none | none => none) with
  | some (a, b) => (intBase16 (slice s (a + 1) b)).map (fun v => [v])      -- chr(int(found["uni"][1:], 16))
  | none =>
  match (match nl with | some (a, b) => if a != b then some (a, b) else none | none => none) with
  | some _ => some []
  | none =>
  match single with
  | some (a, b) => some (knownEscape (slice s a b))
  | none => none

/-- `PropertiesEntityMixin.val` for a raw value -/
def propsVal (raw : List Nat) : Option (List Nat) :=
  let s := raw.toArray
  subWithOpt s PropertiesEntityMixin_escape (propsUnescapeCb s)

/-! ### the documented .properties escape rules, as a one-pass scanner (SPECIFICATION) -/

def isHex (c : Nat) : Bool := (48 ≤ c && c ≤ 57) || (97 ≤ c && c ≤ 102) || (65 ≤ c && c ≤ 70)

/-- at most `n` leading hex digits -/
def takeHex : Nat → List Nat → List Nat
  | 0, _ => []
  | _ + 1, [] => []
  | n + 1, c :: t => if isHex c then c :: takeHex n t else []

def hexDigit (c : Nat) : Nat :=
  if 48 ≤ c && c ≤ 57 then c - 48 else if 97 ≤ c && c ≤ 102 then c - 87 else c - 55

def hexValue (l : List Nat) : Nat := l.foldl (fun acc c => acc * 16 + hexDigit c) 0

def dropBlank : List Nat → List Nat
  | [] => []
  | c :: t => if c == 32 || c == 9 then dropBlank t else c :: t

theorem dropBlank_length (l : List Nat) : (dropBlank l).length ≤ l.length := by
  induction l with
  | nil => simp [dropBlank]
  | cons c t ih => simp only [dropBlank]; split <;> simp <;> omega

/-- `\n \r \t \\` are the control characters / the backslash, every other `\c` is `c` -/
def specEscape (c : Nat) : Nat :=
  if c == 110 then 10 else if c == 114 then 13 else if c == 116 then 9 else c

/-- The documented rules: `\uXXXX` (1 to 4 hex digits) is that code point; backslash, newline and the
    following indentation (blanks, tabs) vanish; `\n \r \t \\` are newline, CR, tab, backslash; any other
    `\c` is `c` (so `\u` not followed by a hex digit is `u`); a lone backslash at the very end stays. -/
def propsUnescapeSpec : List Nat → List Nat
  | [] => []
  | c :: rest =>
    if c ≠ 92 then c :: propsUnescapeSpec rest else
    match rest with
    | [] => [92]
    | d :: rest' =>
      if d = 117 then
        if (takeHex 4 rest').isEmpty then 117 :: propsUnescapeSpec rest'
        else hexValue (takeHex 4 rest') :: propsUnescapeSpec (rest'.drop (takeHex 4 rest').length)
      else if d = 10 then propsUnescapeSpec (dropBlank rest')
      else specEscape d :: propsUnescapeSpec rest'
termination_by l => l.length
decreasing_by
  all_goals simp_wf
  all_goals first
    | omega
    | (have := dropBlank_length rest'; omega)

/-! ### PO: one-pass unescape of a string-list fragment (SPECIFICATION)

A fragment accepted by `reListItem` is a sequence of tokens: an escape `\\ \t \r \n \"` or a plain
character (anything but quote, newline, backslash). -/

inductive PoTok
  | esc (c : Nat)      -- backslash followed by c
  | plain (c : Nat)
  deriving Repr, DecidableEq

def PoTok.render : PoTok → List Nat
  | .esc c => [92, c]
  | .plain c => [c]

def poRender (ts : List PoTok) : List Nat := (ts.map PoTok.render).flatten

def poEscVal (c : Nat) : Nat :=
  if c == 116 then 9 else if c == 114 then 13 else if c == 110 then 10 else c   -- `\\` and `\"` stand for themselves

def PoTok.value : PoTok → Nat
  | .esc c => poEscVal c
  | .plain c => c

/-- the documented PO rules applied once, left to right -/
def poOnePass (ts : List PoTok) : List Nat := ts.map PoTok.value

/-- one-pass unescape on raw text (tokenises greedily; a backslash before any other character or at the
    end is kept as it is): the SPECIFICATION of `poUnescape` on arbitrary texts -/
def poOnePassText : List Nat → List Nat
  | [] => []
  | [c] => [c]
  | c :: d :: rest =>
    if c == 92 && (d == 92 || d == 116 || d == 114 || d == 110 || d == 34) then poEscVal d :: poOnePassText rest
    else c :: poOnePassText (d :: rest)

/-! ### entity views: key, raw value, value, attached comment -/

structure EntView where
  key : List Nat
  /-- PO: the msgctxt part of the key tuple (`some none` = Python `None`) -/
  ctxt : Option (Option (List Nat)) := none
  raw : List Nat
  /-- `none` = not modelled (DTD values containing `&` go through the external `html.unescape`) or raising -/
  val : Option (List Nat)
  comment : Option (List Nat)
  deriving Repr, DecidableEq

def commentStyleOf : Fmt → CommentStyle
  | .properties => .offset Gen.Tables.offsetCommentDefault
  | .dtd => .dtd
  | .ini => .offset Gen.Tables.offsetCommentDefault
  | .inc => .offset Gen.Tables.offsetCommentDefines
  | .po => .plain

def entView (f : Fmt) (s : Array Nat) (e : Entry) : Option EntView :=
  let raw := pySlice s e.vs e.ve
  let key := pySlice s e.ks e.ke
  let comment := e.pc.map (fun (a, b) => commentVal (commentStyleOf f) (slice s a b))
  match f with
  | .properties => some { key, raw, val := propsVal raw, comment }
  | .dtd => some { key, raw, val := if raw.contains 38 then none else some raw, comment }
  | .ini | .inc => some { key, raw, val := some raw, comment }
  | .po =>
    match poCreate s e.s with
    | none => none
    | some p =>
      -- createEntity evaluates msgctxt, msgid, msgstr in this order; an exception there propagates (`none`)
      match (match p.msgctxt with | some fr => (poEval s fr).map some | none => some none), poEval s p.msgid, poEval s p.msgstr with
      | some ctxt, some msgid, some msgstr =>
        some { key := msgid, ctxt := some ctxt, raw,
               -- `self.stringlist_val if self.stringlist_val else self.stringlist_key[0]`
               val := some (if msgstr.isEmpty then msgid else msgstr), comment }
      | _, _, _ => none

end P

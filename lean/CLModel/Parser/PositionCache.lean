/-
The line table of `Parser.Context` is built lazily and cached (parser/base.py):

    def linecol(self, position):
        if self._lines is None:
            nl = re.compile("\n", re.M)
            self._lines = [m.end() for m in nl.finditer(self.contents)]
        line_offset = bisect.bisect(self._lines, position)
        line_start = self._lines[line_offset - 1] if line_offset else 0
        col_offset = position - line_start
        return line_offset + 1, col_offset + 1

`Pos.linecol` (Parser/Position.lean) is the function of (contents, position); this file models the object with its
`_lines` attribute, so that "the first call builds the table, later calls reuse it" is part of the model
(a regression that builds the cached table differently from what a fresh call computes shows here).
Core Lean only.
-/
import CLModel.Parser.Position
namespace Pos

/-- `Parser.Context`: `contents` and the cached `_lines` (`none` = `None`, not built yet) -/
structure Ctx where
  contents : Array Nat
  lines : Option (List Nat) := none
  deriving Repr, DecidableEq, Inhabited

/-- the part of `linecol` after the table exists: bisect, line start, column -/
def linecolWith (lines : List Nat) (position : Int) : Option (Int × Int) :=
  let lineOffset := bisect lines position
  match (if lineOffset != 0 then lines[lineOffset - 1]? else some 0) with
  | none => none
  | some lineStart =>
    let colOffset : Int := position - lineStart
    some ((lineOffset : Int) + 1, colOffset + 1)

/-- `Context.linecol(position)`: result and the context afterwards -/
def Ctx.linecol (c : Ctx) (position : Int) : Option (Int × Int) × Ctx :=
  -- `if self._lines is None: self._lines = [...]`
  let lines := match c.lines with
    | none => lineEnds c.contents
    | some l => l
  (linecolWith lines position, { c with lines := some lines })

/-- a sequence of calls on one context object -/
def Ctx.linecolSeq (c : Ctx) : List Int → List (Option (Int × Int)) × Ctx
  | [] => ([], c)
  | x :: xs =>
    let r := c.linecol x
    let rest := r.2.linecolSeq xs
    (r.1 :: rest.1, rest.2)

end Pos

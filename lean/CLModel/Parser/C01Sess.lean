/-
C01 round 4: more of the parser code inside the model.

* `Sess`: one parser OBJECT over a sequence of calls — `readUnicode` creates a fresh `Context`
  (for `DefinesParser`: `filter_empty_lines = False`), `walk()` / `__iter__` run on the CURRENT
  context; the flag lives on the context and a walk leaves it as it ended, but `DefinesParser.walk`
  resets it to False when a walk starts (/repo 0f5119c; before that fix the state of one walk leaked
  into the next walk of the same context); `walk` on an object without context returns nothing
  (`if not self.ctx: return`).
* `fluentWalkC`: `FluentParser.walk` over the fluent.syntax body WITH the junk `content`
  strings, as the code uses them (`entry.content.strip(...)`, `re.match(..., entry.content)`);
  the contract of fluent.syntax is the decidable predicate `contractB`.
Core Lean only.
-/
import CLModel.Parser.Formats
import CLModel.Parser.Fluent
namespace C01M
open P Rx Gen.Pat

/-! ### a parser object over a sequence of calls -/

/-- `walkFrom` that also returns the parser context as the loop left it -/
def walkFromSt {σ : Type} (next : σ → Nat → Entry × σ) (size : Nat) (loc : Bool) :
    Nat → σ → Nat → WalkResult × σ
  | 0, c, off => (if off ≥ size then .done [] else .stuck off [], c)
  | fuel + 1, c, off =>
    if off ≥ size then (.done [], c) else
    let (e, c') := next c off
    let (r, cf) := walkFromSt next size loc fuel c' e.e
    (if !loc || e.localizable then r.cons e else r, cf)

/-- `Parser.walk(only_localizable = loc)` of format `f` on a context whose
    `filter_empty_lines` flag is `fel` (only `DefinesParser` reads or writes it) -/
def walkSt (f : Fmt) (s : Array Nat) (loc : Bool) (fel : Bool) : WalkResult × Bool :=
  match f with
  | .properties => ((walkFromSt (fun (_ : Unit) off => (propsGetNext s off, ())) s.size loc (s.size + 1) () 0).1, fel)
  | .dtd => ((walkFromSt (fun (_ : Unit) off => (dtdGetNext s off, ())) s.size loc (s.size + 1) () 0).1, fel)
  | .ini => ((walkFromSt (fun (_ : Unit) off => (iniGetNext s off, ())) s.size loc (s.size + 1) () 0).1, fel)
  | .inc => walkFromSt (fun fel off => definesGetNext s fel off) s.size loc (s.size + 1) fel 0
  | .po => ((walkFromSt (fun (_ : Unit) off => (poGetNext s off, ())) s.size loc (s.size + 1) () 0).1, fel)

/-- `parser.ctx`: `None`, or the contents and the `filter_empty_lines` flag -/
abbrev PCtx := Option (Array Nat × Bool)

inductive Cmd
  | read (t : Array Nat)      -- parser.readUnicode(t)
  | walk (loc : Bool)         -- list(parser.walk()) / list(parser)
  deriving Repr, DecidableEq

/-- one call on the parser object: the new `ctx` and what the call yielded (walks only) -/
def step (f : Fmt) (ctx : PCtx) : Cmd → PCtx × Option WalkResult
  | .read t => (some (t, false), none)                      -- `self.ctx = self.Context(contents)`
  | .walk loc =>
    match ctx with
    | none => (none, some (.done []))                       -- `if not self.ctx: return`
    | some (s, fel) =>
      -- DefinesParser.walk: `if self.ctx is not None: self.ctx.filter_empty_lines = False`, then Parser.walk
      let fel0 := match f with | .inc => false | _ => fel
      let (r, fel') := walkSt f s loc fel0
      (some (s, fel'), some r)

/-- the results of all walks of a call sequence on one parser object -/
def run (f : Fmt) : PCtx → List Cmd → List WalkResult
  | _, [] => []
  | ctx, c :: cs =>
    let (ctx', r) := step f ctx c
    match r with
    | some r => r :: run f ctx' cs
    | none => run f ctx' cs

/-! ### FluentParser.walk with the junk contents -/

/-- a body entry of fluent.syntax with the `content` attribute of a Junk (empty otherwise) -/
structure FBody where
  b : FEntry
  content : List Nat := []
  deriving Repr, DecidableEq, Inhabited

/-- the characters of `entry.content.strip(" \t\r\n")` -/
def isStripWs (c : Nat) : Bool := c == 32 || c == 9 || c == 13 || c == 10

/-- entries yielded for one body entry; the junk branch reads `entry.content`, the spans come from `entry.span` -/
def fluentEntryC (s : Array Nat) (onlyLoc : Bool) (x : FBody) : List Entry :=
  match x.b.kind with
  | .junk =>
    let b := x.b
    let content := x.content.toArray
    if x.content.all isStripWs then
      [({ kind := .junk, full := b.s, s := b.s, e := b.e } : Entry)]
    else
    let lead := match matchAt content parser_fluent_FluentParser_walk_0 0 with | some st => st.pos | none => 0
    let start := b.s + lead
    let trail := match search content parser_fluent_FluentParser_walk_1 0 with | some (q, st) => st.pos - q | none => 0
    let stop := b.e - trail
    (if !onlyLoc && b.s < start then [({ kind := .whitespace, full := b.s, s := b.s, e := start, ks := b.s, ke := start, vs := b.s, ve := start } : Entry)] else [])
    ++ [({ kind := .junk, full := start, s := start, e := stop } : Entry)]
    ++ (if !onlyLoc && stop < b.e then [({ kind := .whitespace, full := stop, s := stop, e := b.e, ks := stop, ke := b.e, vs := stop, ve := b.e } : Entry)] else [])
  | _ => fluentEntry s onlyLoc x.b

def fluentWalkFromC (s : Array Nat) (onlyLoc : Bool) : List FBody → Nat → List Entry
  | [], last =>
    if !onlyLoc && s.size > last then [{ kind := .whitespace, full := last, s := last, e := s.size, ks := last, ke := s.size, vs := last, ve := s.size }] else []
  | x :: rest, last =>
    (if !onlyLoc && x.b.s > last then [({ kind := .whitespace, full := last, s := last, e := x.b.s, ks := last, ke := x.b.s, vs := last, ve := x.b.s } : Entry)] else [])
    ++ fluentEntryC s onlyLoc x ++ fluentWalkFromC s onlyLoc rest x.b.e

/-- `FluentParser.walk`; `ctx = none` is the parser without a loaded context -/
def fluentWalkC (ctx : Option (Array Nat)) (body : List FBody) (onlyLoc : Bool) : List Entry :=
  match ctx with
  | none => []                                               -- `if not self.ctx: return`
  | some s => fluentWalkFromC s onlyLoc body 0

/-- what the walk relies on for ONE body entry of fluent.syntax:
    junk: `content` is the text of its span; message/term: the id (with the `-` of a term) lies
    inside the entry and so does the value pattern when there is one (`val_span = None` is
    encoded (-1, -1)); an entry of an unknown class is empty. -/
def entryOKB (s : Array Nat) (x : FBody) : Bool :=
  match x.b.kind with
  | .junk => x.content == slice s x.b.s x.b.e
  | .message | .term =>
    decide ((x.b.s : Int) ≤ x.b.ks) && decide (x.b.ks ≤ x.b.ke) && decide (x.b.ke ≤ (x.b.e : Int)) &&
    ((x.b.vs == -1 && x.b.ve == -1) ||
     (decide ((x.b.s : Int) ≤ x.b.vs) && decide (x.b.vs ≤ x.b.ve) && decide (x.b.ve ≤ (x.b.e : Int))))
  | .comment => true
  | .other => x.b.s == x.b.e

/-- the contract of the external fluent.syntax parser as a decidable predicate on its output:
    the spans are ordered, disjoint and inside the text, and every entry is `entryOKB` -/
def contractB (s : Array Nat) : List FBody → Nat → Bool
  | [], _ => true
  | x :: rest, last =>
    decide (last ≤ x.b.s) && decide (x.b.s ≤ x.b.e) && decide (x.b.e ≤ s.size) && entryOKB s x &&
    contractB s rest x.b.e

end C01M

/-
Model of the offset → (line, column) machinery of compare_locales:
  parser/base.py    Parser.Context.linecol, Entry.position, Entry.value_position, Junk.position, Junk.error_message
  parser/dtd.py     DTDEntityMixin.value_position (tuples from the XML parser)
  parser/fluent.py  FluentEntity.value_position
  compare/content.py, lint/linter.py   how a checker's position is resolved (`EntityPos` → position, else value_position)
Core Lean only.  Texts are arrays of code points; offsets handed to `linecol` are Python ints (`Int`):
nothing in the code stops a negative one (a `(-1, -1)` span of an unmatched regex group).
-/
import CLModel.Parser.Base
namespace Pos
open Rx P

/-- `self._lines = [m.end() for m in nl.finditer(self.contents)]` with `nl = re.compile("\n", re.M)`;
    the pattern is the GENERATED translation of the literal compiled inside `linecol`. -/
def lineEnds (s : Array Nat) : List Nat :=
  (finditer s Gen.Pat.parser_base_Parser_Context_linecol_nl).map (fun p => p.2.pos)

/-- `bisect.bisect(a, x)` (= `bisect_right`, C function of the standard library) by its contract on a
    sorted list: the insertion point to the right of every element `≤ x`, i.e. their number.
    (`lineEnds` is proved strictly increasing in Proofs/C17.) -/
def bisect (a : List Nat) (x : Int) : Nat := (a.filter (fun (e : Nat) => decide ((e : Int) ≤ x))).length

/-- Parser.Context.linecol.  `none` = IndexError of `self._lines[line_offset - 1]`. -/
def linecol (s : Array Nat) (position : Int) : Option (Int × Int) :=
  let lines := lineEnds s
  let lineOffset := bisect lines position
  -- `line_start = self._lines[line_offset - 1] if line_offset else 0`
  match (if lineOffset != 0 then lines[lineOffset - 1]? else some 0) with
  | none => none
  | some lineStart =>
    let colOffset : Int := position - lineStart
    some ((lineOffset : Int) + 1, colOffset + 1)

/-- Entry.position and Junk.position (same body): `offset < 0` means the end of the span. -/
def position (s : Array Nat) (e : Entry) (offset : Int) : Option (Int × Int) :=
  let pos : Int := if offset < 0 then (e.e : Int) else (e.s : Int) + offset
  linecol s pos

/-- Python's `val_span` of an entry of the models in Parser/{Formats,Fluent}: `None` for comments
    (`Comment.__init__`) and for Fluent messages without a value (`fluent = true`, where spans are never negative);
    a `Junk` has no `val_span` (and no `value_position`) at all.  For the regex formats an unmatched `val`
    group gives the span `(-1, -1)`, which is *not* `None`. -/
def valSpan (fluent : Bool) (e : Entry) : Option (Int × Int) :=
  match e.kind with
  | .comment => none
  | .junk => none
  | _ => if fluent && e.vs < 0 then none else some (e.vs, e.ve)

/-- Entry.value_position.  `none` = `assert self.val_span is not None` fails (or the IndexError of linecol). -/
def valuePosition (s : Array Nat) (valSpan : Option (Int × Int)) (offset : Int) : Option (Int × Int) :=
  match valSpan with
  | none => none
  | some (vs, ve) =>
    let pos : Int := if offset < 0 then ve else vs + offset
    linecol s pos

/-- DTDEntityMixin.value_position for `offset = (line_pos, col_pos)` (what DTDChecker yields) -/
def dtdValuePositionTuple (s : Array Nat) (valSpan : Option (Int × Int)) (linePos colPos : Int) : Option (Int × Int) :=
  match valuePosition s valSpan 0 with       -- `line, col = super().value_position()`
  | none => none
  | some (line, col) =>
    if linePos == 1 then some (line, col + colPos)
    else some (line + (linePos - 1), colPos)

/-- FluentEntity.value_position(offset=None): offsets are relative to the start of the entry;
    without an offset the start of the value, or the end of the id when there is no value. -/
def fluentValuePosition (s : Array Nat) (e : Entry) (offset : Option Int) : Option (Int × Int) :=
  let off : Int := match offset with
    | some o => o
    | none =>
      if (valSpan true e).isSome then e.vs - (e.s : Int)     -- `if self.val_span:` (a 2-tuple is truthy)
      else e.ke - (e.s : Int)
  position s e off

/-- the numbers `Junk.error_message` formats: `position() + position(-1)` -/
def junkMessagePositions (s : Array Nat) (e : Entry) : Option (Int × Int × Int × Int) :=
  match position s e 0, position s e (-1) with
  | some (l1, c1), some (l2, c2) => some (l1, c1, l2, c2)
  | _, _ => none

/-- the entity classes that override `value_position` -/
inductive EntCls | plain | dtd | fluent
  deriving Repr, DecidableEq, Inhabited

/-- what a checker yields as position -/
inductive CheckPos
  | entityPos (n : Int)        -- `EntityPos(n)`: offset into the entity
  | offset (n : Int)           -- plain int: offset into the value (Fluent: into the entry)
  | tuple (line col : Int)     -- DTDChecker: (line, col) from the XML parser
  deriving Repr, DecidableEq, Inhabited

/-- ContentComparer.compare / EntityLinter.lint_value:
    `if isinstance(pos, EntityPos): l10nent.position(pos) else: l10nent.value_position(pos)`;
    `none` also stands for the TypeError of `val_span[0] + tuple` when a non-DTD entity gets a tuple. -/
def resolveCheckPos (s : Array Nat) (cls : EntCls) (e : Entry) (p : CheckPos) : Option (Int × Int) :=
  match p with
  | .entityPos n => position s e n
  | .offset n =>
    match cls with
    | .fluent => fluentValuePosition s e (some n)
    | _ => valuePosition s (valSpan false e) n
  | .tuple l c =>
    match cls with
    | .dtd => dtdValuePositionTuple s (valSpan false e) l c
    | _ => none

end Pos

/-
C01/C02 round 5: `Parser.walk()` / `__iter__` as GENERATOR OBJECTS of one long-lived parser object.

`Parser.walk` is a generator function: `g = p.walk()` creates an object and runs nothing; the body
starts at the first `next(g)` (`if not self.ctx: return`, `ctx = self.ctx`; `DefinesParser.walk` first
resets `self.ctx.filter_empty_lines`), every further `next(g)` resumes the `while` loop after the
`yield` (`next_offset = entity.span[1]`) and runs `getNext` until an entry is yielded or the text is
used up.  A walk in progress is therefore: the Context OBJECT the body captured (`ctx`), the value of
`next_offset`, and the view (`only_localizable`); the only thing a walk stores outside its own frame is
`ctx.filter_empty_lines` (DefinesParser).  An abandoned generator (`break`, `zip` against a shorter
list, `next(iter(p))`, `del g`, `g.close()`) just stops existing: `walk` has no `try/finally`.

State of the model = every mutable component:
* `heap`  : the `Context` objects ever created by `readUnicode` (contents + `filter_empty_lines`);
* `cur`   : `parser.ctx` (index into `heap`);
* `gens`  : the generator objects ever created, each `fresh` (body not started), `running cid off`
            (suspended at the `yield`, bound to context `cid`, `next_offset` will be `off`) or `finished`.
Core Lean only.
-/
import CLModel.Parser.C01Sess
namespace C01M
open P

/-- `getNext` of format `f` on text `s` as a function of (`ctx.filter_empty_lines`, offset);
    only `DefinesParser` reads or writes the flag -/
def nextOf (f : Fmt) (s : Array Nat) (fel : Bool) (off : Nat) : Entry × Bool :=
  match f with
  | .properties => (propsGetNext s off, fel)
  | .dtd => (dtdGetNext s off, fel)
  | .ini => (iniGetNext s off, fel)
  | .inc => definesGetNext s fel off
  | .po => (poGetNext s off, fel)

/-- what one `next(g)` gives: an entry, `StopIteration`, or the `while` loop would not end -/
inductive Pull
  | yield (e : Entry)
  | stop
  | stuck
  deriving Repr, DecidableEq

/-- one `next(g)` of a generator suspended in `Parser.walk` with `next_offset = off`:
    run `getNext` until an entry is yielded or the text is used up.
    Returns the flag as the loop leaves it and the new `next_offset`. -/
def pull (nx : Bool → Nat → Entry × Bool) (size : Nat) (loc : Bool) : Nat → Bool → Nat → Pull × Bool × Nat
  | 0, fel, off => (if off ≥ size then .stop else .stuck, fel, off)
  | fuel + 1, fel, off =>
    if off ≥ size then (.stop, fel, off) else
    let (e, fel') := nx fel off
    if !loc || e.localizable then (.yield e, fel', e.e)
    else pull nx size loc fuel fel' e.e

/-- what an operation that consumes a generator shows -/
inductive Out
  | part (es : List Entry)      -- the requested number of entries was obtained; the generator is still suspended
  | full (r : WalkResult)       -- the generator ended (`StopIteration`) after these entries (`.stuck`: it would not end)
  deriving Repr, DecidableEq

def Out.cons (e : Entry) : Out → Out
  | .part es => .part (e :: es)
  | .full r => .full (r.cons e)

def Out.entries : Out → List Entry
  | .part es => es
  | .full (.done es) => es
  | .full (.stuck _ es) => es

/-- a `Context` object -/
structure CtxO where
  s : Array Nat
  fel : Bool := false
  deriving Repr, DecidableEq

inductive GSt
  | fresh                           -- `p.walk()` returned the object; the body has not started
  | running (cid : Nat) (off : Nat) -- suspended at `yield`; bound to `heap[cid]`; `next_offset` will be `off`
  | finished
  deriving Repr, DecidableEq

structure GenO where
  loc : Bool
  st : GSt
  deriving Repr, DecidableEq

/-- the parser object with everything reachable from it -/
structure Obj where
  heap : List CtxO := []
  cur : Option Nat := none
  gens : List GenO := []
  deriving Repr, DecidableEq

inductive Op
  | read (t : Array Nat)        -- p.readUnicode(t)  (readContents / readFile end here)
  | mk (loc : Bool)             -- g = p.walk() / g = iter(p); the new object has id `gens.length`
  | next (g : Nat) (k : Nat)    -- up to k calls of next(g), stopping at StopIteration
  | drain (g : Nat)             -- list(g)
  | close (g : Nat)             -- g.close() / the last reference to g is dropped
  deriving Repr, DecidableEq

/-- resume generator `g` (view `loc`) bound to context `cid` at `next_offset = off` -/
def resume (f : Fmt) (σ : Obj) (g : Nat) (loc : Bool) (cid off : Nat) : Obj × Pull :=
  match σ.heap[cid]? with
  | none => (σ, .stop)                                   -- (no such object: cannot happen)
  | some c =>
    let (r, fel', off') := pull (nextOf f c.s) c.s.size loc (c.s.size + 1) c.fel off
    let st : GSt := match r with
      | .yield _ => .running cid off'
      | .stop => .finished
      | .stuck => .running cid off'
    ({ σ with heap := σ.heap.set cid { c with fel := fel' }, gens := σ.gens.set g { loc := loc, st := st } }, r)

/-- `DefinesParser.walk`: `self.ctx.filter_empty_lines = False` before the loop starts -/
def resetFel (heap : List CtxO) (cid : Nat) : List CtxO :=
  match heap[cid]? with
  | some c => heap.set cid { c with fel := false }
  | none => heap

/-- the heap when the body of a walk of format `f` starts on `heap[cid]`: only `DefinesParser.walk` writes -/
def startHeap (f : Fmt) (heap : List CtxO) (cid : Nat) : List CtxO :=
  match f with
  | .inc => resetFel heap cid                            -- DefinesParser.walk
  | _ => heap

/-- one `next(g)` -/
def next1 (f : Fmt) (σ : Obj) (g : Nat) : Obj × Pull :=
  match σ.gens[g]? with
  | none => (σ, .stop)                                   -- (no such object: cannot happen)
  | some go =>
    match go.st with
    | .finished => (σ, .stop)                            -- an exhausted or closed generator raises StopIteration
    | .running cid off => resume f σ g go.loc cid off
    | .fresh =>
      -- the body starts now
      match σ.cur with
      | none =>                                          -- `if not self.ctx: return`
        ({ σ with gens := σ.gens.set g { go with st := .finished } }, .stop)
      | some cid =>                                      -- `ctx = self.ctx`
        resume f { σ with heap := startHeap f σ.heap cid } g go.loc cid 0

/-- up to `k` calls of `next(g)` -/
def nextK (f : Fmt) : Nat → Obj → Nat → Obj × Out
  | 0, σ, _ => (σ, .part [])
  | k + 1, σ, g =>
    match next1 f σ g with
    | (σ', .yield e) => let (σ'', o) := nextK f k σ' g; (σ'', o.cons e)
    | (σ', .stop) => (σ', .full (.done []))
    | (σ', .stuck) =>
      (σ', .full (.stuck (match σ'.gens[g]? with | some ⟨_, .running _ off⟩ => off | _ => 0) []))

/-- the context generator `g` is (or, if it has not started, would be) bound to -/
def genCtx (σ : Obj) (g : Nat) : Option CtxO :=
  let cid := match σ.gens[g]? with
    | some ⟨_, .running cid _⟩ => some cid
    | some ⟨_, .fresh⟩ => σ.cur
    | _ => none
  match cid with
  | some cid => σ.heap[cid]?
  | none => none

def genSize (σ : Obj) (g : Nat) : Nat :=
  match genCtx σ g with
  | some c => c.s.size
  | none => 0

/-- `list(g)`: `next` until StopIteration; a loop that makes progress ends after at most `size` entries -/
def drainG (f : Fmt) (σ : Obj) (g : Nat) : Obj × Out :=
  match nextK f (genSize σ g + 1) σ g with
  | (σ', .part es) => (σ', .full (.stuck 0 es))          -- more entries than characters: would not end
  | r => r

/-- `g.close()` / `del g`: GeneratorExit at the `yield`; `walk` has no handler, nothing else happens -/
def closeG (σ : Obj) (g : Nat) : Obj :=
  match σ.gens[g]? with
  | some go => { σ with gens := σ.gens.set g { go with st := .finished } }
  | none => σ

def stepG (f : Fmt) (σ : Obj) : Op → Obj × Option Out
  | .read t => ({ σ with heap := σ.heap ++ [{ s := t, fel := false }], cur := some σ.heap.length }, none)
  | .mk loc => ({ σ with gens := σ.gens ++ [{ loc := loc, st := .fresh }] }, none)
  | .next g k => let (σ', o) := nextK f k σ g; (σ', some o)
  | .drain g => let (σ', o) := drainG f σ g; (σ', some o)
  | .close g => (closeG σ g, none)

/-- the object after a history -/
def execG (f : Fmt) : Obj → List Op → Obj
  | σ, [] => σ
  | σ, op :: ops => execG f (stepG f σ op).1 ops

/-- everything a history shows, in order -/
def runG (f : Fmt) : Obj → List Op → List Out
  | _, [] => []
  | σ, op :: ops =>
    match stepG f σ op with
    | (σ', some o) => o :: runG f σ' ops
    | (σ', none) => runG f σ' ops

/-- `parser.ctx.contents`, if a context is loaded -/
def curText (σ : Obj) : Option (Array Nat) :=
  match σ.cur with
  | some cid => (σ.heap[cid]?).map CtxO.s
  | none => none

end C01M

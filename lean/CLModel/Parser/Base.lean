/-
Model of compare_locales.parser.base: Entry spans, Parser.getJunk, Parser.getNext, Parser.walk.
Core Lean only.  Texts are arrays of code points.
-/
import CLModel.Rx.Basic
import CLModel.Gen.Regexes
namespace P
open Rx

/-- Entry classes of the code. `section`/`instruction` are IniSection/DefinesInstruction
    (Entry subclasses that are neither Entity nor Junk). -/
inductive Kind | entity | comment | whitespace | junk | section | instruction
  deriving Repr, DecidableEq, Inhabited

structure Entry where
  kind : Kind
  /-- `_span_start()`: start of the attached pre-comment, else `span[0]` -/
  full : Nat
  s : Nat
  e : Nat
  /-- key span / value span as Python stores them (may be degenerate, see C01) -/
  ks : Int := -1
  ke : Int := -1
  vs : Int := -1
  ve : Int := -1
  /-- span of the attached pre_comment -/
  pc : Option (Nat × Nat) := none
  deriving Repr, DecidableEq, Inhabited

def Entry.localizable (e : Entry) : Bool := e.kind == .entity || e.kind == .junk

/-- `contents[a:b]` -/
def slice (s : Array Nat) (a b : Nat) : List Nat := (s.extract a b).toList

def countNl (s : Array Nat) (a b : Nat) : Nat := ((slice s a b).filter (· == 10)).length

/-- `needle in hay` -/
def isInfix (needle : List Nat) : List Nat → Bool
  | [] => needle.isEmpty
  | h :: t => needle.isPrefixOf (h :: t) || isInfix needle t

def licenseWord : List Nat := [76, 105, 99, 101, 110, 115, 101]   -- "License"

/-- `str.splitlines(True)` restricted to "\n" (texts are newline-normalised; other
    line boundaries such as \x0b \x0c \x1c-\x1e \x85     are handled by `isLineBreak`) -/
def isLineBreak (c : Nat) : Bool :=
  c == 10 || c == 13 || c == 11 || c == 12 || c == 28 || c == 29 || c == 30 || c == 133 || c == 8232 || c == 8233

def splitLinesGo (cur : List Nat) : List Nat → List (List Nat)
  | [] => if cur.isEmpty then [] else [cur.reverse]
  | 13 :: 10 :: rest => ((10 :: 13 :: cur).reverse) :: splitLinesGo [] rest
  | c :: rest =>
    if isLineBreak c then ((c :: cur).reverse) :: splitLinesGo [] rest
    else splitLinesGo (c :: cur) rest

def splitLinesKeep (l : List Nat) : List (List Nat) := splitLinesGo [] l

/-- `OffsetComment.val`: every line without its first `off` characters -/
def offsetCommentVal (off : Nat) (all : List Nat) : List Nat :=
  ((splitLinesKeep all).map (·.drop off)).flatten

/-- how a format computes `Comment.val` from `Comment.all` -/
inductive CommentStyle | plain | offset (n : Nat) | dtd
  deriving Repr, DecidableEq, Inhabited

def commentVal : CommentStyle → List Nat → List Nat
  | .plain, all => all
  | .offset n, all => offsetCommentVal n all
  | .dtd, all => (all.drop 4).take (all.length - 4 - 3)      -- all[4:-3]

/-- Parser.getJunk: `junkend = min(junkend, m.start()) if junkend else m.start()`;
    `Junk(ctx, (offset, junkend or len(contents)))` -/
def getJunk (s : Array Nat) (off : Nat) (exps : List Re) : Entry :=
  let junkend : Option Nat := exps.foldl (fun je exp =>
    match search s exp (off + 1) with     -- junk is at least one character long
    | some (q, _) =>
        match je with
        | some j => if j != 0 then some (min j q) else some q    -- `if junkend` truthiness
        | none => some q
    | none => je) none
  let e := match junkend with
    | some j => if j != 0 then j else s.size                      -- `junkend or len(contents)`
    | none => s.size
  { kind := .junk, full := off, s := off, e := e }

def spanI (st : St) (g : Nat) : Int × Int :=
  match st.group g with
  | some (a, b) => ((a : Int), (b : Int))
  | none => (-1, -1)

/-- configuration of a parser that uses the base `getNext` -/
structure BaseCfg where
  reComment : Re
  reWhitespace : Re
  reKey : Re
  commentStyle : CommentStyle
  /-- createEntity: `none` models `BadEntity`; gets (contents, start of key match, match state) and
      returns (span end, key span, val span) -/
  create : Array Nat → Nat → St → Option (Nat × (Int × Int) × (Int × Int))
  /-- expressions handed to getJunk -/
  junkExps : List Re

/-- Parser.getNext (base.py) -/
def getNext (c : BaseCfg) (s : Array Nat) (off0 : Nat) : Entry :=
  let cm := matchAt s c.reComment off0
  match (match cm with
         | some st =>
            if off0 < 2 && isInfix licenseWord (commentVal c.commentStyle (slice s off0 st.pos))
            then some ({ kind := .comment, full := off0, s := off0, e := st.pos } : Entry) else none
         | none => none) with
  | some e => e
  | none =>
  let off1 := match cm with | some st => st.pos | none => off0
  let ws := matchAt s c.reWhitespace off1
  match (match ws with
         | some w =>
            if cm.isSome && countNl s off1 w.pos > 1 then
              some ({ kind := .comment, full := off0, s := off0, e := off1 } : Entry)
            else if cm.isNone then some ({ kind := .whitespace, full := off1, s := off1, e := w.pos, ks := off1, ke := w.pos, vs := off1, ve := w.pos } : Entry)
            else none
         | none => none) with
  | some e => e
  | none =>
  let off2 := match ws with | some w => w.pos | none => off1
  match (match matchAt s c.reKey off2 with
         | some km => (c.create s off2 km).map (fun (e, k, v) =>
              ({ kind := .entity, full := off0, s := off2, e := e, ks := k.1, ke := k.2, vs := v.1, ve := v.2,
                 pc := if cm.isSome then some (off0, off1) else none } : Entry))
         | none => none) with
  | some e => e
  | none =>
    if cm.isSome then { kind := .comment, full := off0, s := off0, e := off1 }
    else if ws.isSome then { kind := .whitespace, full := off1, s := off1, e := off2, ks := off1, ke := off2, vs := off1, ve := off2 }
    else getJunk s off0 c.junkExps

inductive WalkResult
  | done (es : List Entry)
  | stuck (off : Nat) (es : List Entry)     -- the Python `while` loop would not terminate
  deriving Repr, DecidableEq

def WalkResult.cons (e : Entry) : WalkResult → WalkResult
  | .done es => .done (e :: es)
  | .stuck o es => .stuck o (e :: es)

/-- Parser.walk with fuel standing for "the while loop is still running";
    `next` threads the parser context (only `DefinesParser` has one). -/
def walkFrom {σ : Type} (next : σ → Nat → Entry × σ) (size : Nat) : Nat → σ → Nat → WalkResult
  | 0, _, off => if off ≥ size then .done [] else .stuck off []
  | fuel + 1, ctx, off =>
    if off ≥ size then .done [] else
    let (e, ctx') := next ctx off
    (walkFrom next size fuel ctx' e.e).cons e

/-- Parser.walk(only_localizable=True): same loop, entries that are neither Entity nor Junk are not yielded -/
def walkFromLoc {σ : Type} (next : σ → Nat → Entry × σ) (size : Nat) : Nat → σ → Nat → WalkResult
  | 0, _, off => if off ≥ size then .done [] else .stuck off []
  | fuel + 1, ctx, off =>
    if off ≥ size then .done [] else
    let (e, ctx') := next ctx off
    if e.localizable then (walkFromLoc next size fuel ctx' e.e).cons e
    else walkFromLoc next size fuel ctx' e.e

def Entry.all (s : Array Nat) (e : Entry) : List Nat := slice s e.full e.e

end P

/-
Model of FluentParser.walk over the body returned by the external `fluent.syntax` parser.
The body (entry kinds and spans) is a parameter; its contract is `BodyContract` (Props/C01).
-/
import CLModel.Parser.Base
namespace P
open Rx Gen.Pat

inductive FKind | message | term | junk | comment | other
  deriving Repr, DecidableEq, Inhabited

structure FEntry where
  kind : FKind
  s : Nat
  e : Nat
  ks : Int := -1
  ke : Int := -1
  vs : Int := -1
  ve : Int := -1
  deriving Repr, DecidableEq, Inhabited

/-- entries yielded for one body entry (without the leading gap whitespace) -/
def fluentEntry (s : Array Nat) (onlyLoc : Bool) (b : FEntry) : List Entry :=
  match b.kind with
  | .message | .term =>
    [{ kind := .entity, full := b.s, s := b.s, e := b.e, ks := b.ks, ke := b.ke, vs := b.vs, ve := b.ve }]
  | .junk =>
    let content := (slice s b.s b.e).toArray
    -- `if not entry.content.strip(" \t\r\n")`: white-space only junk is kept whole
    if (slice s b.s b.e).all (fun c => c == 32 || c == 9 || c == 13 || c == 10) then
      [({ kind := .junk, full := b.s, s := b.s, e := b.e } : Entry)]
    else
    let lead := match matchAt content parser_fluent_FluentParser_walk_0 0 with | some st => st.pos | none => 0
    let start := b.s + lead
    let trail := match search content parser_fluent_FluentParser_walk_1 0 with | some (q, st) => st.pos - q | none => 0
    let stop := b.e - trail
    (if !onlyLoc && b.s < start then [({ kind := .whitespace, full := b.s, s := b.s, e := start, ks := b.s, ke := start, vs := b.s, ve := start } : Entry)] else [])
    ++ [({ kind := .junk, full := start, s := start, e := stop } : Entry)]
    ++ (if !onlyLoc && stop < b.e then [({ kind := .whitespace, full := stop, s := stop, e := b.e, ks := stop, ke := b.e, vs := stop, ve := b.e } : Entry)] else [])
  | .comment => if onlyLoc then [] else [{ kind := .comment, full := b.s, s := b.s, e := b.e }]
  | .other => []

def fluentWalkFrom (s : Array Nat) (onlyLoc : Bool) : List FEntry → Nat → List Entry
  | [], last =>
    if !onlyLoc && s.size > last then [{ kind := .whitespace, full := last, s := last, e := s.size, ks := last, ke := s.size, vs := last, ve := s.size }] else []
  | b :: rest, last =>
    (if !onlyLoc && b.s > last then [({ kind := .whitespace, full := last, s := last, e := b.s, ks := last, ke := b.s, vs := last, ve := b.s } : Entry)] else [])
    ++ fluentEntry s onlyLoc b ++ fluentWalkFrom s onlyLoc rest b.e

def fluentWalk (s : Array Nat) (body : List FEntry) (onlyLoc : Bool) : List Entry :=
  fluentWalkFrom s onlyLoc body 0

end P

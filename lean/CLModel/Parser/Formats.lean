/-
Per-format parser models: properties, DTD, ini, defines (.inc), PO.
Each `getNext` is a transliteration of the Python override, over the GENERATED regexes.
-/
import CLModel.Parser.Base
import CLModel.Gen.Tables
namespace P
open Rx Gen.Pat

/-! ### properties -/

/-- `contents.find("\n", off)` -/
def findNl (s : Array Nat) (off : Nat) : Option Nat :=
  (List.range (s.size - off)).findSome? (fun i => if s[off + i]? == some 10 then some (off + i) else none)

/-- the `while True` loop of PropertiesParser.getNext: returns (endval, startline).
    fuel bounds the number of physical lines. -/
def propsLines (s : Array Nat) : Nat → Nat → Nat → (Nat × Nat)
  | 0, off, startline => (off, startline)          -- unreachable for fuel = size + 1
  | fuel + 1, off, startline =>
    match findNl s off with
    | none => (s.size, startline)                  -- endval = offset = len(contents)
    | some nl =>
      match search (s.extract 0 nl) PropertiesParser__escapedEnd off with
      | none => (nl, startline)
      | some (q, st) =>
        if (st.pos - q) % 2 == 0 then (nl, startline)
        else propsLines s fuel (nl + 1) (nl + 1)

def propsGetNext (s : Array Nat) (off0 : Nat) : Entry :=
  let cm := matchAt s PropertiesParser_reComment off0
  match (match cm with
         | some st =>
            if off0 == 0 && isInfix licenseWord (commentVal (.offset Gen.Tables.offsetCommentDefault) (slice s off0 st.pos))
            then some ({ kind := .comment, full := off0, s := off0, e := st.pos } : Entry) else none
         | none => none) with
  | some e => e
  | none =>
  let off1 := match cm with | some st => st.pos | none => off0
  let ws := matchAt s Parser_reWhitespace off1
  match (match ws with
         | some w =>
            if cm.isSome && countNl s off1 w.pos > 1 then
              some ({ kind := .comment, full := off0, s := off0, e := off1 } : Entry)
            else if cm.isNone then some ({ kind := .whitespace, full := off1, s := off1, e := w.pos, ks := off1, ke := w.pos, vs := off1, ve := w.pos } : Entry)
            else none
         | none => none) with
  | some e => e
  | none =>
  let off2 := match ws with | some w => w.pos | none => off1
  match matchAt s PropertiesParser_reKey off2 with
  | some km =>
    let (endval0, startline) := propsLines s (s.size + 1) km.pos km.pos
    let endval := match search s PropertiesParser__trailingWS startline with
      | some (q, _) => q
      | none => endval0
    let k := spanI km PropertiesParser_reKey_g_key
    { kind := .entity, full := off0, s := off2, e := endval, ks := k.1, ke := k.2, vs := km.pos, ve := endval,
      pc := if cm.isSome then some (off0, off1) else none }
  | none =>
    if cm.isSome then { kind := .comment, full := off0, s := off0, e := off1 }
    else if ws.isSome then { kind := .whitespace, full := off1, s := off1, e := off2, ks := off1, ke := off2, vs := off1, ve := off2 }
    else getJunk s off0 [PropertiesParser_reKey, PropertiesParser_reComment]

/-! ### DTD -/

def dtdCfg : BaseCfg where
  reComment := DTDParser_reComment
  reWhitespace := Parser_reWhitespace
  reKey := DTDParser_reKey
  commentStyle := .dtd
  create := fun _ _ km =>
    let k := spanI km DTDParser_reKey_g_key
    let v := spanI km DTDParser_reKey_g_val
    some (km.pos, k, (v.1 + 1, v.2 - 1))
  junkExps := [DTDParser_reKey, DTDParser_reComment]

def dtdGetNext (s : Array Nat) (off0 : Nat) : Entry :=
  let off := if off0 == 0 && (matchAt s DTDParser_reHeader 0).isSome then off0 + 1 else off0
  let e := getNext dtdCfg s off
  if e.kind == .junk then
    match matchAt s DTDParser_rePE off with
    | some st =>
      let k := spanI st DTDParser_rePE_g_key
      let v := spanI st DTDParser_rePE_g_val
      { kind := .entity, full := off, s := off, e := st.pos, ks := k.1, ke := k.2, vs := v.1, ve := v.2 }
    | none => e
  else e

/-! ### ini -/

def iniCfg : BaseCfg where
  reComment := IniParser_reComment
  reWhitespace := Parser_reWhitespace
  reKey := IniParser_reKey
  commentStyle := .offset Gen.Tables.offsetCommentDefault
  create := fun _ _ km =>
    some (km.pos, spanI km IniParser_reKey_g_key, spanI km IniParser_reKey_g_val)
  junkExps := [IniParser_reKey, IniParser_reComment, IniParser_reSection]

def iniGetNext (s : Array Nat) (off : Nat) : Entry :=
  match matchAt s IniParser_reSection off with
  | some st =>
    let v := spanI st IniParser_reSection_g_val
    { kind := .section, full := off, s := off, e := st.pos, ks := v.1, ke := v.2, vs := v.1, ve := v.2 }
  | none => getNext iniCfg s off

/-! ### defines (.inc) -/

def filterEmptyLines : List Nat := [102, 105, 108, 116, 101, 114, 32, 101, 109, 112, 116, 121, 76, 105, 110, 101, 115]
def unfilterEmptyLines : List Nat := [117, 110] ++ filterEmptyLines

/-- DefinesParser.getNext; the context is `ctx.filter_empty_lines` -/
def definesGetNext (s : Array Nat) (fel : Bool) (off0 : Nat) : Entry × Bool :=
  let cm := matchAt s DefinesParser_reComment off0
  let off1 := match cm with | some st => st.pos | none => off0
  let cmE : Entry := { kind := .comment, full := off0, s := off0, e := off1 }
  let ws := matchAt s DefinesParser_reWhitespace off1
  match (match ws with
         | some w =>
            if off1 == 0 || !(w.pos - off1 == 1 || fel) then
              if cm.isSome then some cmE
              else some ({ kind := .junk, full := off1, s := off1, e := w.pos } : Entry)
            else if cm.isSome && countNl s off1 w.pos > 1 then some cmE
            else if cm.isNone then some ({ kind := .whitespace, full := off1, s := off1, e := w.pos, ks := off1, ke := w.pos, vs := off1, ve := w.pos } : Entry)
            else none
         | none => none) with
  | some e => (e, fel)
  | none =>
  let off2 := match ws with | some w => w.pos | none => off1
  match matchAt s DefinesParser_reKey off2 with
  | some km =>
    let k := spanI km DefinesParser_reKey_g_key
    let v := spanI km DefinesParser_reKey_g_val
    ({ kind := .entity, full := off0, s := off2, e := km.pos, ks := k.1, ke := k.2, vs := v.1, ve := v.2,
       pc := if cm.isSome then some (off0, off1) else none }, fel)
  | none =>
    if cm.isSome then (cmE, fel)
    else if ws.isSome then ({ kind := .whitespace, full := off1, s := off1, e := off2, ks := off1, ke := off2, vs := off1, ve := off2 }, fel)
    else
      match matchAt s DefinesParser_rePI off2 with
      | some st =>
        let v := spanI st DefinesParser_rePI_g_val
        let val := slice s v.1.toNat v.2.toNat
        let fel' := if val == filterEmptyLines then true else if val == unfilterEmptyLines then false else fel
        ({ kind := .instruction, full := off2, s := off2, e := st.pos, ks := v.1, ke := v.2, vs := v.1, ve := v.2 }, fel')
      | none => (getJunk s off0 [DefinesParser_reComment, DefinesParser_reKey, DefinesParser_rePI], fel)

/-! ### PO -/

def startsWithAt (s : Array Nat) (key : List Nat) (cursor : Nat) : Bool :=
  (slice s cursor (cursor + key.length)) == key

/-- the `while True` loop of `_parse_string_list`: returns fragment spans (group 1) and the cursor -/
def poFrags (s : Array Nat) : Nat → Nat → List (Nat × Nat) × Nat
  | 0, cursor => ([], cursor)
  | fuel + 1, cursor =>
    match matchAt s PoParser_reListItem cursor with
    | none => ([], cursor)
    | some st =>
      if st.pos ≤ cursor then ([], cursor) else    -- cannot happen: the item contains two quotes
      let frag := match st.group 1 with | some p => p | none => (cursor, cursor)
      let (rest, c') := poFrags s fuel st.pos
      (frag :: rest, c')

/-- `_parse_string_list`: `none` = BadEntity -/
def poStringList (s : Array Nat) (cursor : Nat) (key : List Nat) : Option (List (Nat × Nat) × Nat) :=
  if !startsWithAt s key cursor then none else
  let (frags, c) := poFrags s (s.size + 1) (cursor + key.length)
  if frags.isEmpty then none else some (frags, c)

def kwMsgctxt : List Nat := [109, 115, 103, 99, 116, 120, 116]
def kwMsgid : List Nat := [109, 115, 103, 105, 100]
def kwMsgstr : List Nat := [109, 115, 103, 115, 116, 114]

structure PoParts where
  e : Nat
  idS : Nat
  idE : Nat
  valS : Nat
  msgctxt : Option (List (Nat × Nat))
  msgid : List (Nat × Nat)
  msgstr : List (Nat × Nat)
  deriving Repr, DecidableEq

/-- PoParser.createEntity: `none` = BadEntity propagates to getNext -/
def poCreate (s : Array Nat) (start : Nat) : Option PoParts :=
  let (msgctxt, cursor) := match poStringList s start kwMsgctxt with
    | some (fr, c) =>
      let c' := match matchAt s Parser_reWhitespace c with | some w => w.pos | none => c
      (some fr, c')
    | none => (none, start)
  match poStringList s cursor kwMsgid with
  | none => none
  | some (idfr, c1) =>
    let c2 := match matchAt s Parser_reWhitespace c1 with | some w => w.pos | none => c1
    match poStringList s c2 kwMsgstr with
    | none => none
    | some (strfr, c3) =>
      some { e := c3, idS := start, idE := c1, valS := c2, msgctxt := msgctxt, msgid := idfr, msgstr := strfr }

def poCfg : BaseCfg where
  reComment := PoParser_reComment
  reWhitespace := Parser_reWhitespace
  reKey := PoParser_reKey
  commentStyle := .plain
  create := fun s off _ =>
    (poCreate s off).map (fun p => (p.e, ((p.idS : Int), (p.idE : Int)), ((p.valS : Int), (p.e : Int))))
  junkExps := [PoParser_reKey, PoParser_reComment]

def poGetNext (s : Array Nat) (off : Nat) : Entry := getNext poCfg s off

/-- `str.replace` (non-overlapping, left to right); `skip` = characters of a match still to drop.
    (no longer used by `eval_stringlist`, which unescapes in one pass since /repo b81665f) -/
def replaceAllAux (pat rep : List Nat) : Nat → List Nat → List Nat
  | _, [] => []
  | skip + 1, _ :: t => replaceAllAux pat rep skip t
  | 0, c :: t =>
    if pat.isPrefixOf (c :: t) && !pat.isEmpty then rep ++ replaceAllAux pat rep (pat.length - 1) t
    else c :: replaceAllAux pat rep 0 t

def replaceAll (pat rep : List Nat) (l : List Nat) : List Nat := replaceAllAux pat rep 0 l

/-- `re.sub(pattern, callback, s)` with a callback that may raise (`none`) -/
def subGo (s : Array Nat) (f : Nat → St → Option (List Nat)) : List (Nat × St) → Nat → Option (List Nat)
  | [], last => some (slice s last s.size)
  | (q, st) :: rest, last =>
    match f q st, subGo s f rest st.pos with
    | some a, some b => some (slice s last q ++ a ++ b)
    | _, _ => none

def subWithOpt (s : Array Nat) (r : Re) (f : Nat → St → Option (List Nat)) : Option (List Nat) :=
  subGo s f (finditer s r) 0

/-- the callback `lambda m: escapes[m.group(1)]`; `none` = KeyError -/
def poEscapeCb (s : Array Nat) (_q : Nat) (st : St) : Option (List Nat) :=
  match st.group 1 with
  | some (a, b) =>
    match slice s a b with
    | [c] => (Gen.Tables.poEscapes.find? (·.1 == c)).map (fun p => [p.2])
    | _ => none
  | none => none

/-- `eval_stringlist` on one fragment: `reEscape.sub(lambda m: escapes[m.group(1)], line)`; `none` = raises -/
def poUnescape (l : List Nat) : Option (List Nat) :=
  let s := l.toArray
  subWithOpt s parser_po_reEscape (poEscapeCb s)

/-- `"".join(... for line in lines)` -/
def poEval (s : Array Nat) (frags : List (Nat × Nat)) : Option (List Nat) :=
  (frags.mapM (fun (a, b) => poUnescape (slice s a b))).map List.flatten

/-- `poEval` as a total function for the models that only need the key text.  The `none`
    branch (KeyError in `escapes[...]`) is unreachable: `C02.po_unescape_is_spec` proves
    `poUnescape v = some _` for every text. -/
def poEvalT (s : Array Nat) (frags : List (Nat × Nat)) : List Nat :=
  match poEval s frags with
  | some t => t
  | none => []

/-! ### format dispatch -/

inductive Fmt | properties | dtd | ini | inc | po
  deriving Repr, DecidableEq, Inhabited

/-- full walk (`only_localizable = False`) -/
def walk (f : Fmt) (s : Array Nat) : WalkResult :=
  match f with
  | .properties => walkFrom (fun (_ : Unit) off => (propsGetNext s off, ())) s.size (s.size + 1) () 0
  | .dtd => walkFrom (fun (_ : Unit) off => (dtdGetNext s off, ())) s.size (s.size + 1) () 0
  | .ini => walkFrom (fun (_ : Unit) off => (iniGetNext s off, ())) s.size (s.size + 1) () 0
  | .inc => walkFrom (fun fel off => definesGetNext s fel off) s.size (s.size + 1) false 0
  | .po => walkFrom (fun (_ : Unit) off => (poGetNext s off, ())) s.size (s.size + 1) () 0

/-- localizable-only walk (`__iter__`) -/
def walkLoc (f : Fmt) (s : Array Nat) : WalkResult :=
  match f with
  | .properties => walkFromLoc (fun (_ : Unit) off => (propsGetNext s off, ())) s.size (s.size + 1) () 0
  | .dtd => walkFromLoc (fun (_ : Unit) off => (dtdGetNext s off, ())) s.size (s.size + 1) () 0
  | .ini => walkFromLoc (fun (_ : Unit) off => (iniGetNext s off, ())) s.size (s.size + 1) () 0
  | .inc => walkFromLoc (fun fel off => definesGetNext s fel off) s.size (s.size + 1) false 0
  | .po => walkFromLoc (fun (_ : Unit) off => (poGetNext s off, ())) s.size (s.size + 1) () 0

end P

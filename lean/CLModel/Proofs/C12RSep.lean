/- Sufficient conditions for the separation hypothesis `NoLaterHit` (used in `PSep` / `WellSepN`), and for the
   environment hypotheses. -/
import CLModel.Proofs.C11RNest
namespace C11R
open Rx PM

/-- a star at the end of the pattern (nothing follows its value) needs no separator -/
theorem noLaterHit_nil (L : Text) : NoLaterHit L [] := by
  intro j h1 h2
  simp at h2; omega

theorem takeWhile_stop (P : Nat → Bool) : ∀ (R : Text) (x : Nat), R[(R.takeWhile P).length]? = some x → P x = false
  | [], x, h => by simp at h
  | c :: R, x, h => by
    simp only [List.takeWhile_cons] at h
    by_cases hp : P c = true
    · simp only [hp, if_true, List.length_cons, List.getElem?_cons_succ] at h
      exact takeWhile_stop P R x h
    · simp only [hp, Bool.false_eq_true, if_false, List.length_nil, List.getElem?_cons_zero,
        Option.some.injEq] at h
      subst h; simpa using hp

/-- the usual separator condition: the first character of the literal that follows the star does not occur
    again before the next `/` (or the end of the path).  A literal beginning with `/` always qualifies. -/
theorem noLaterHit_of_first {c : Nat} {L' R : Text} (hpre : (c :: L') <+: R)
    (h : c ∉ (R.takeWhile (fun c => c != 47)).tail) : NoLaterHit (c :: L') R := by
  intro j hj1 hj2 hp
  have hRj : R[j]? = some c := by
    have := (List.prefix_iff_getElem?.mp hp) 0 (by simp)
    simpa [List.getElem?_drop] using this
  by_cases hlt : j < (R.takeWhile (fun c => c != 47)).length
  · have htw := (List.prefix_iff_getElem?.mp (List.takeWhile_prefix (fun c => c != 47) (l := R))) j hlt
    rw [hRj] at htw
    apply h
    apply List.mem_iff_getElem?.mpr
    refine ⟨j - 1, ?_⟩
    rw [List.getElem?_tail, show j - 1 + 1 = j by omega]
    rw [List.getElem?_eq_getElem hlt]
    exact htw.symm
  · have hje : j = (R.takeWhile (fun c => c != 47)).length := by omega
    rw [hje] at hRj
    have hc := takeWhile_stop _ R c hRj
    have hc47 : c = 47 := by simpa using hc
    subst hc47
    obtain ⟨t, rfl⟩ := hpre
    simp at hj2
    omega

theorem noLaterHit_slash {L' R : Text} (hpre : (47 :: L') <+: R) : NoLaterHit (47 :: L') R := by
  apply noLaterHit_of_first hpre
  obtain ⟨t, rfl⟩ := hpre
  simp

/-! ### environments -/

/-- the environment of a `Matcher` (`EnvOK`: parsed unrooted patterns) without `{android_locale}` in its values -/
theorem goodEnv_of {env : Env} (h : EnvOK env) (hna : ∀ k p, (k, Val.pat p) ∈ env → NoAndroid p) : GoodEnv env := by
  intro k v hm
  cases v with
  | str s => trivial
  | pat p => exact ⟨(h k _ hm).1, hna k p hm⟩

theorem keysOnce_of_nodup {β} {l : List (Text × β)} (h : (l.map (·.1)).Nodup) : KeysOnce l := by
  intro k
  exact List.nodup_iff_count.mp h k

/-! ### the hypotheses of the wildcard theorems, bundled -/

/-- What `C12.expand_match_star_partial` asks of a matcher `m`, wildcard values `vs`, the group names `names` of its
    regular expression and the root text `rt`. -/
structure Fillable (vs : Nat → Text) (m : Matcher) (names : List Text) (rt : Text) : Prop where
  /-- the environment has the shape `Matcher(...)` builds: parsed unrooted patterns, no variable twice in one value -/
  env : EnvOK m.env
  /-- top-level nodes: literal, `*`, `**/`, final `**`, first occurrence of a fully bound variable -/
  cls : ∀ n ∈ m.pattern.nodes, InClassN m.env n
  /-- `re.compile` accepts the pattern (distinct group names, F12); `names` are its group names -/
  compiles : ∃ re, m.regexOf = .ok (re, names)
  /-- the pattern does not use `{android_locale}` -/
  noAndroidGroup : androidName ∉ names
  /-- the root decision succeeds (F11) and gives `rt` (`[]`, or the root for a rooted relative pattern) -/
  root : rootOf (expandVal (fuelFor m.env)) m.pattern m.env = .ok rt
  /-- the filling is well separated -/
  sep : WellSepN vs m.env m.pattern.nodes

/-- What `sub` needs in addition of the matcher whose pattern it expands. -/
structure Expandable (m : Matcher) : Prop where
  /-- no `{android_locale}` inside environment values -/
  noAndroid : ∀ k p, (k, Val.pat p) ∈ m.env → NoAndroid p
  /-- the environment is a dict: distinct keys -/
  keys : KeysOnce m.env
  /-- no key is named like a wildcard group (`s1`, `s2`, ...) -/
  noWildKey : ∀ k, m.env.lookup (sname k) = none

theorem Fillable.goodEnv {vs : Nat → Text} {m : Matcher} {names : List Text} {rt : Text}
    (h : Fillable vs m names rt) (he : Expandable m) : GoodEnv m.env := goodEnv_of h.env he.noAndroid

end C11R

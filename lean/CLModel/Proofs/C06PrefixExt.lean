/- C06 helper lemmas (round 4): the mirror image of `opcodes_prefix` — when `a` is a proper prefix of `b`,
   `get_opcodes` is `[equal 0..|a|, insert |a|..|b|]`, for sequences of ANY length (autojunk heuristic
   included: popularity is now counted in the LONGER sequence `b = a ++ t`, and the positions of `t` take part
   in `b2j`; the best match still stays on the diagonal and the extension loops complete it). -/
import CLModel.Checks.Difflib
import CLModel.Proofs.C06Prefix
namespace Difflib
variable {α : Type} [DecidableEq α]

section ext_
variable (a t : List α)

theorem ext_get {i : Nat} (h : i < a.length) : (a ++ t)[i]? = a[i]? := by
  rw [List.getElem?_append_left h]

theorem ME_np {i j : Nat} (h : Mrel a (chainB (a ++ t)) i j = true) : npB (a ++ t) j = true := by
  obtain ⟨x, _, hb, hp⟩ := (Mrel_chainB _ _ _ _).mp h
  simp [npB, hb, hp]

theorem ME_diag {i : Nat} (h : i < a.length) : Mrel a (chainB (a ++ t)) i i = npB (a ++ t) i := by
  rw [Bool.eq_iff_iff, Mrel_chainB, ext_get a t h]
  simp only [npB, ext_get a t h]
  rw [List.getElem?_eq_getElem h]
  simp

theorem ME_to_diag {i j : Nat} (h : i < a.length) (hm : Mrel a (chainB (a ++ t)) i j = true) :
    Mrel a (chainB (a ++ t)) i i = true := by
  obtain ⟨x, ha, hb, hp⟩ := (Mrel_chainB _ _ _ _).mp hm
  rw [Mrel_chainB]
  exact ⟨x, ha, by rw [ext_get a t h]; exact ha, hp⟩

/-- the DP row of the top-level box -/
abbrev RE (n j : Nat) : Nat := rowv (Mrel a (chainB (a ++ t))) 0 (a ++ t).length 0 n j

theorem RE_succ (n j : Nat) :
    RE a t (n + 1) j = if Mrel a (chainB (a ++ t)) n j = true ∧ j < (a ++ t).length then
      (if j = 0 then 0 else RE a t n (j - 1)) + 1 else 0 := by
  simp [RE, rowv]

theorem RE_le_nprun : ∀ n j, RE a t n j ≤ nprun (a ++ t) j := by
  intro n
  induction n with
  | zero => intro j; simp [RE, rowv]
  | succ n ih =>
    intro j
    rw [RE_succ]
    split
    · rename_i hc
      have hnp := ME_np a t hc.1
      cases j with
      | zero => simp [nprun, hnp]
      | succ j =>
        simp only [Nat.add_one_ne_zero, if_false, Nat.add_sub_cancel, nprun, hnp, if_true]
        have := ih j
        omega
    · omega

theorem RE_diag : ∀ i, i < a.length → RE a t (i + 1) i = nprun (a ++ t) i := by
  intro i
  induction i with
  | zero =>
    intro h
    have h' : 0 < a.length + t.length := by omega
    rw [RE_succ, ME_diag a t h]
    simp [nprun, h']
  | succ i ih =>
    intro h
    have h' : i + 1 < (a ++ t).length := by simp; omega
    rw [RE_succ, ME_diag a t h]
    simp only [h', and_true, Nat.add_one_ne_zero, if_false, Nat.add_sub_cancel, nprun]
    rw [ih (by omega)]

theorem RE_off_le : ∀ i j, i < j → i < a.length → j < (a ++ t).length → RE a t (i + 1) j ≤ RE a t (i + 1) i := by
  intro i
  induction i with
  | zero =>
    intro j hij hi hj
    rw [RE_succ, RE_succ]
    split
    · rename_i hc
      have := ME_to_diag a t hi hc.1
      have h0 : 0 < (a ++ t).length := by omega
      simp only [this, h0, and_self, if_true]
      have : j ≠ 0 := by omega
      simp [this, RE, rowv]
    · omega
  | succ i ih =>
    intro j hij hi hj
    rw [RE_succ (j := j), RE_succ (j := i + 1)]
    split
    · rename_i hc
      have hd := ME_to_diag a t hi hc.1
      have h0 : i + 1 < (a ++ t).length := by omega
      have hj0 : j ≠ 0 := by omega
      simp only [hd, h0, and_self, if_true, hj0, if_false, Nat.add_one_ne_zero, Nat.add_sub_cancel]
      have := ih (j - 1) (by omega) (by omega) (by omega)
      omega
    · omega

end ext_

theorem outerLoop_ext (a t : List α) :
    ∃ x, outerLoop a (chainB (a ++ t)) 0 (a ++ t).length (a.length - 0) 0 [] ⟨0, 0, 0⟩ = some x ∧
      x.i = x.j ∧ InBox 0 a.length 0 (a ++ t).length x ∧ IsMatch a (a ++ t) x := by
  have := outerLoop_inv a (chainB (a ++ t)) 0 (a ++ t).length 0 (chainB_sorted (a ++ t))
    (fun n best => (InBox 0 (0 + n) 0 (a ++ t).length best ∧ IsMatch a (a ++ t) best) ∧ best.i = best.j ∧
      ∀ j, j < n → nprun (a ++ t) j ≤ best.k)
    (by
      intro n best x hx hinv
      obtain ⟨hv, hd, hbound⟩ := hinv
      have hx' : a[n]? = some x := by simpa using hx
      have hna : n < a.length := by
        apply Classical.byContradiction
        intro hge
        rw [List.getElem?_eq_none (by omega)] at hx'
        cases hx'
      have hnb : n < (a ++ t).length := by simp; omega
      refine ⟨step_valid a (a ++ t) (chainB (a ++ t)) (chainB_sound (a ++ t)) 0 0 (a ++ t).length n best _ hv, ?_⟩
      have hmemf : ∀ j, j ∈ (b2jGet (chainB (a ++ t)) x).filter (fun j => decide (0 ≤ j ∧ j < (a ++ t).length)) ↔
          Mrel a (chainB (a ++ t)) n j = true ∧ j < (a ++ t).length := by
        intro j
        rw [List.mem_filter, mem_b2j_iff_Mrel a (chainB (a ++ t)) hx' j]
        simp
      have key := diag_fold n (fun j => RE a t (n + 1) j)
        ((b2jGet (chainB (a ++ t)) x).filter (fun j => decide (0 ≤ j ∧ j < (a ++ t).length))) best hd
        ((chainB_sorted (a ++ t) x).filter _)
        (by
          intro j hj hjn
          exact Nat.le_trans (RE_le_nprun a t (n + 1) j) (hbound j hjn))
        (by
          intro j hj hnj
          obtain ⟨hm, hjb⟩ := (hmemf j).mp hj
          refine ⟨Or.inl ((hmemf n).mpr ⟨ME_to_diag a t hna hm, hnb⟩), RE_off_le a t n j hnj hna hjb⟩)
      simp only [Nat.zero_add]
      refine ⟨key.1, ?_⟩
      intro j hj
      by_cases hjn : j < n
      · exact Nat.le_trans (hbound j hjn) key.2.1
      · have : j = n := by omega
        subst this
        rw [← RE_diag a t j hna]
        by_cases hm : Mrel a (chainB (a ++ t)) j j = true
        · exact key.2.2 ((hmemf j).mpr ⟨hm, hnb⟩)
        · rw [RE_succ]
          simp [hm])
    (a.length - 0) 0 [] ⟨0, 0, 0⟩ (by omega) (by intro j; simp [getK, rowv])
    ⟨⟨⟨by simp, by simp, by simp, by simp⟩, by intro t ht; simp at ht⟩, rfl, by intro j hj; omega⟩
  obtain ⟨x, hx1, hx2⟩ := this
  refine ⟨x, by simpa using hx1, hx2.2.1, ?_, hx2.1.2⟩
  have e : 0 + (0 + (a.length - 0)) = a.length := by omega
  have := hx2.1.1
  rw [e] at this
  exact this

theorem extendBack_ext (a t : List α) :
    ∀ d k, d ≤ a.length → extendBack a (a ++ t) 0 0 d d k = some ⟨0, 0, k + d⟩ := by
  intro d
  induction d with
  | zero => intro k _; simp [extendBack]
  | succ d ih =>
    intro k hd
    have hdb : d < a.length := by omega
    simp only [extendBack, Nat.add_sub_cancel]
    have h1 : a[d]? = some a[d] := List.getElem?_eq_getElem hdb
    have h2 : (a ++ t)[d]? = some a[d] := by rw [List.getElem?_append_left hdb, h1]
    simp only [h1, h2]
    simp only [gt_iff_lt, Nat.zero_lt_succ, and_self, if_true]
    rw [ih (k + 1) (by omega)]
    congr 2; omega

theorem extendFwd_ext (a t : List α) :
    ∀ fuel k, k ≤ a.length → fuel ≥ a.length - k →
      extendFwd a (a ++ t) a.length (a ++ t).length 0 0 fuel k = some ⟨0, 0, a.length⟩ := by
  intro fuel
  induction fuel with
  | zero =>
    intro k hk hf
    have : k = a.length := by omega
    simp [extendFwd, this]
  | succ fuel ih =>
    intro k hk hf
    simp only [extendFwd, Nat.zero_add]
    by_cases hlt : k < a.length
    · have hlb : k < (a ++ t).length := by simp; omega
      have h1 : a[k]? = some a[k] := List.getElem?_eq_getElem hlt
      have h2 : (a ++ t)[k]? = some a[k] := by rw [List.getElem?_append_left hlt, h1]
      simp only [hlb, hlt, and_self, if_true, h1, h2]
      exact ih (k + 1) (by omega) (by omega)
    · have : k = a.length := by omega
      simp [this]

/-- `find_longest_match` on the whole box finds the whole of `a` when `a` is a prefix of `b` -/
theorem flm_ext (a t : List α) :
    findLongestMatch a (a ++ t) (chainB (a ++ t)) 0 a.length 0 (a ++ t).length = some ⟨0, 0, a.length⟩ := by
  obtain ⟨x, hx, hd, hb, _⟩ := outerLoop_ext a t
  have h2 := hb.h2
  unfold findLongestMatch
  rw [hx]
  simp only
  rw [hd, extendBack_ext a t x.j x.k (by omega)]
  simp only
  exact extendFwd_ext a t _ _ (by omega) (by omega)

/-- **`get_opcodes` when the first sequence is a proper prefix of the second**: one `equal` block (absent if
    `a` is empty) followed by one trailing `insert`.  No bound on the lengths. -/
theorem opcodes_ext (a t : List α) (ht : t ≠ []) :
    opcodes a (a ++ t) = some
      ((if a.length ≠ 0 then [(⟨.equal, 0, a.length, 0, a.length⟩ : Opcode)] else []) ++
        [⟨.insert, a.length, a.length, a.length, (a ++ t).length⟩]) := by
  have hlen : a.length < (a ++ t).length := by
    have : t.length ≠ 0 := by simpa using ht
    simp; omega
  have hmb : mbLoop a (a ++ t) (chainB (a ++ t)) (2 * a.length + 2) [⟨0, a.length, 0, (a ++ t).length⟩] [] =
      some (if a.length ≠ 0 then [⟨0, 0, a.length⟩] else []) := by
    simp only [mbLoop, flm_ext]
    by_cases hb : a.length = 0
    · simp [hb, mbLoop_nil]
    · simp [hb, mbLoop_nil]
  unfold opcodes matchingBlocks
  simp only [hmb]
  by_cases hb : a.length = 0
  · simp only [hb, ne_eq, not_true_eq_false, if_false, List.mergeSort_nil, collapse, List.nil_append]
    have : 0 < t.length := by simpa [hb] using hlen
    simp [opcodesGo, this, hb]
  · simp only [ne_eq, hb, not_false_eq_true, if_true, List.mergeSort_singleton, collapse]
    simp only [Nat.add_zero, and_self, if_true, Nat.zero_add, collapse, ne_eq, hb, not_false_eq_true]
    have : 0 < t.length := by simpa using hlen
    simp [opcodesGo, hb, this]

end Difflib

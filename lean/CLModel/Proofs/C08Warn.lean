/-
C08, round 4: the texts of the CSS *warnings* of `CSSCheckMixin.check_style`, the in-place `ref_map.pop`, and what that
means for several `style` attributes in one message; `maybe_style`; `check_style` with categories.
-/
import CLModel.Proofs.C08
import CLModel.Checks.FluentExt
namespace C08W
open Ftl Gen.Tables

/-! ### dict lemmas -/

theorem dictGet?_dictDel_ne {ν : Type} (d : List (Str × ν)) (k k' : Str) (h : k ≠ k') :
    dictGet? (dictDel d k) k' = dictGet? d k' := by
  induction d with
  | nil => rfl
  | cons p r ih =>
    obtain ⟨a, v⟩ := p
    simp only [dictDel]
    by_cases ha : (a == k) = true
    · have : a = k := by simpa using ha
      subst this
      have : (a == k') = false := by simpa using h
      simp [dictGet?, this]
    · simp only [ha, Bool.false_eq_true, if_false, dictGet?]
      rw [ih]

theorem dictGet?_none_iff {ν : Type} (d : List (Str × ν)) (k : Str) : dictGet? d k = none ↔ k ∉ dictKeys d := by
  induction d with
  | nil => simp [dictGet?, dictKeys]
  | cons p r ih =>
    obtain ⟨a, v⟩ := p
    simp only [dictGet?, dictKeys, List.map_cons, List.mem_cons]
    by_cases ha : (a == k) = true
    · have : a = k := by simpa using ha
      simp [this]
    · have hne : ¬ a = k := by simpa using ha
      simp only [ha, Bool.false_eq_true, if_false]
      rw [ih]
      simp only [dictKeys]
      constructor
      · intro h1 h2
        rcases h2 with h2 | h2
        · exact hne h2.symm
        · exact h1 h2
      · intro h1 h2
        exact h1 (Or.inr h2)

/-- in a dict (distinct keys) `pop(k)` removes every pair with that key -/
theorem dictDel_eq_filter {ν : Type} (d : List (Str × ν)) (k : Str) (h : (dictKeys d).Nodup) :
    dictDel d k = d.filter (fun q => !(q.1 == k)) := by
  induction d with
  | nil => rfl
  | cons p r ih =>
    obtain ⟨a, v⟩ := p
    simp only [dictKeys, List.map_cons, List.nodup_cons] at h
    simp only [dictDel, List.filter_cons]
    by_cases ha : (a == k) = true
    · have hak : a = k := by simpa using ha
      subst hak
      simp only [BEq.rfl, if_true, Bool.not_true, Bool.false_eq_true, if_false]
      symm
      rw [List.filter_eq_self]
      intro q hq
      have : q.1 ≠ a := by
        intro he
        exact h.1 (he ▸ List.mem_map.mpr ⟨q, hq, rfl⟩)
      simpa using this
    · simp only [ha, Bool.false_eq_true, if_false, Bool.not_false, if_true]
      rw [ih (by simpa [dictKeys] using h.2)]

theorem nodup_keys_filter {ν : Type} (d : List (Str × ν)) (p : Str × ν → Bool) (h : (dictKeys d).Nodup) :
    (dictKeys (d.filter p)).Nodup := by
  unfold dictKeys at *
  exact List.Nodup.sublist (List.Sublist.map _ List.filter_sublist) h

/-! ### the first loop of check_style -/

/-- `"%s only in l10n" % prop` -/
def onlyL10nMsg (prop : Str) : Str := fmt checkStyleStr_6 [prop]
/-- `"%s only in reference" % prop` -/
def onlyRefMsg (prop : Str) : Str := fmt checkStyleStr_8 [prop]
/-- `"units for %s don't match (%s != %s)" % (prop, unit, ref_unit)` -/
def unitsMsg (prop : Str) (unit refUnit : Option Str) : Str := fmt checkStyleStr_7 [prop, unitStr unit, unitStr refUnit]

/-- properties of the localization that the reference does not have, in the localization's order -/
def onlyL10n (rm lm : CssMap) : List Str := (lm.filter (fun p => (dictGet? rm p.1).isNone)).map (·.1)

/-- properties on both sides whose units differ, in the localization's order -/
def mismatches (rm lm : CssMap) : List Str :=
  lm.filterMap (fun p => match dictGet? rm p.1 with
    | some ru => if p.2 != ru then some (unitsMsg p.1 p.2 ru) else none
    | none => none)

/-- properties of the reference that the localization does not have, in the reference's order -/
def onlyRef (rm lm : CssMap) : List Str := (rm.filter (fun q => !(dictKeys lm).contains q.1)).map (·.1)

theorem filterMap_congr' {α β : Type} (f g : α → Option β) (l : List α) (h : ∀ x ∈ l, f x = g x) :
    l.filterMap f = l.filterMap g := by
  induction l with
  | nil => rfl
  | cons x r ih =>
    simp only [List.filterMap_cons, h x List.mem_cons_self]
    rw [ih (fun y hy => h y (List.mem_cons_of_mem _ hy))]

theorem onlyL10n_cons_none (rm rest : CssMap) (prop : Str) (unit : Option Str) (hg : dictGet? rm prop = none) :
    onlyL10n rm ((prop, unit) :: rest) = prop :: onlyL10n rm rest := by
  simp [onlyL10n, hg]

theorem onlyL10n_cons_some (rm rest : CssMap) (prop : Str) (unit ru : Option Str) (hg : dictGet? rm prop = some ru) :
    onlyL10n rm ((prop, unit) :: rest) = onlyL10n rm rest := by
  simp [onlyL10n, hg]

theorem mismatches_cons_none (rm rest : CssMap) (prop : Str) (unit : Option Str) (hg : dictGet? rm prop = none) :
    mismatches rm ((prop, unit) :: rest) = mismatches rm rest := by
  simp [mismatches, hg]

theorem mismatches_cons_some (rm rest : CssMap) (prop : Str) (unit ru : Option Str) (hg : dictGet? rm prop = some ru) :
    mismatches rm ((prop, unit) :: rest) =
      (if unit != ru then [unitsMsg prop unit ru] else []) ++ mismatches rm rest := by
  simp only [mismatches, List.filterMap_cons, hg]
  split <;> simp_all

theorem styleLoop_spec (lm rm : CssMap) (msgs : List Str) (hl : (dictKeys lm).Nodup) (hr : (dictKeys rm).Nodup) :
    styleLoop lm rm msgs =
      (rm.filter (fun q => !(dictKeys lm).contains q.1),
       ((onlyL10n rm lm).map onlyL10nMsg).reverse ++ msgs ++ mismatches rm lm) := by
  induction lm generalizing rm msgs with
  | nil =>
    have : rm.filter (fun q => !(dictKeys ([] : CssMap)).contains q.1) = rm := by
      rw [List.filter_eq_self]; intro q _; simp [dictKeys]
    rw [this]
    simp [styleLoop, onlyL10n, mismatches]
  | cons p rest ih =>
    obtain ⟨prop, unit⟩ := p
    have hl' : (dictKeys rest).Nodup := by
      simp only [dictKeys, List.map_cons, List.nodup_cons] at hl
      simpa [dictKeys] using hl.2
    have hprop : prop ∉ dictKeys rest := by
      simp only [dictKeys, List.map_cons, List.nodup_cons] at hl
      simpa [dictKeys] using hl.1
    simp only [styleLoop]
    cases hg : dictGet? rm prop with
    | none =>
      simp only
      rw [ih rm _ hl' hr]
      have hnot : prop ∉ dictKeys rm := (dictGet?_none_iff rm prop).mp hg
      have hf : rm.filter (fun q => !(dictKeys ((prop, unit) :: rest)).contains q.1) =
          rm.filter (fun q => !(dictKeys rest).contains q.1) := by
        apply List.filter_congr
        intro q hq
        have : q.1 ≠ prop := fun he => hnot (he ▸ List.mem_map.mpr ⟨q, hq, rfl⟩)
        have h2 : (q.1 == prop) = false := by simpa using this
        simp [dictKeys, h2]
      rw [hf, onlyL10n_cons_none _ _ _ _ hg, mismatches_cons_none _ _ _ _ hg]
      simp [onlyL10nMsg]
    | some refUnit =>
      simp only
      have hr' : (dictKeys (dictDel rm prop)).Nodup := by
        rw [dictDel_eq_filter rm prop hr]; exact nodup_keys_filter _ _ hr
      have hsame : ∀ q ∈ rest, dictGet? (dictDel rm prop) q.1 = dictGet? rm q.1 := by
        intro q hq
        apply dictGet?_dictDel_ne
        intro he
        exact hprop (he ▸ List.mem_map.mpr ⟨q, hq, rfl⟩)
      have hL : onlyL10n (dictDel rm prop) rest = onlyL10n rm rest := by
        unfold onlyL10n
        congr 1
        apply List.filter_congr
        intro q hq
        rw [hsame q hq]
      have hM : mismatches (dictDel rm prop) rest = mismatches rm rest := by
        unfold mismatches
        apply filterMap_congr'
        intro q hq
        rw [hsame q hq]
      have hF : (dictDel rm prop).filter (fun q => !(dictKeys rest).contains q.1) =
          rm.filter (fun q => !(dictKeys ((prop, unit) :: rest)).contains q.1) := by
        rw [dictDel_eq_filter rm prop hr, List.filter_filter]
        apply List.filter_congr
        intro q _
        simp only [dictKeys, List.map_cons, List.contains_cons]
        cases h1 : (q.1 == prop) <;> cases h2 : (List.map (fun x => x.1) rest).contains q.1 <;> simp
      rw [onlyL10n_cons_some _ _ _ _ _ hg, mismatches_cons_some _ _ _ _ _ hg]
      split
      · rename_i hne
        rw [ih _ _ hl' hr', hL, hM, hF]
        simp [unitsMsg]
      · rename_i hne
        rw [ih _ _ hl' hr', hL, hM, hF]
        simp

theorem foldl_cons_rev (f : Str → Str) (ks : List Str) (acc : List Str) :
    ks.foldl (fun acc prop => f prop :: acc) acc = (ks.map f).reverse ++ acc := by
  induction ks generalizing acc with
  | nil => rfl
  | cons k r ih => simp [List.foldl_cons, ih]

/-- the list `msgs` of check_style when the localized value parsed without errors -/
def styleMsgs (rm lm : CssMap) : List Str :=
  ((onlyRef rm lm).map onlyRefMsg).reverse ++ ((onlyL10n rm lm).map onlyL10nMsg).reverse ++ mismatches rm lm

/-- what is left in `ref_map` after check_style -/
def popped (rm lm : CssMap) : CssMap := rm.filter (fun q => !(dictKeys lm).contains q.1)

theorem checkStyle_ok (rm lm : CssMap) (ce : Option (List CssErr)) (hne : lm ≠ [])
    (hce : (match ce with | some (_ :: _) => true | _ => false) = false)
    (hl : (dictKeys lm).Nodup) (hr : (dictKeys rm).Nodup) :
    checkStyle rm (some lm) ce =
      (if (styleMsgs rm lm).isEmpty then []
        else [⟨fmt checkStyleStr_9 [], 0, join (fmt checkStyleStr_10 []) (styleMsgs rm lm)⟩], popped rm lm) := by
  cases lm with
  | nil => exact absurd rfl hne
  | cons p rest =>
    have hmsgs : (List.map (fun prop => fmt checkStyleStr_8 [prop])
        (dictKeys (List.filter (fun q => !(dictKeys (p :: rest)).contains q.1) rm))).reverse ++
        ((List.map onlyL10nMsg (onlyL10n rm (p :: rest))).reverse ++ mismatches rm (p :: rest)) = styleMsgs rm (p :: rest) := by
      simp [styleMsgs, onlyRef, onlyRefMsg, dictKeys, List.append_assoc]
    have hbody : ∀ ce', (match ce' with | some (_ :: _) => true | _ => false) = false →
        checkStyle rm (some (p :: rest)) ce' =
          (if (styleMsgs rm (p :: rest)).isEmpty then []
            else [⟨fmt checkStyleStr_9 [], 0, join (fmt checkStyleStr_10 []) (styleMsgs rm (p :: rest))⟩], popped rm (p :: rest)) := by
      intro ce' h'
      cases ce' with
      | none =>
        simp only [checkStyle, Bool.false_eq_true, if_false]
        rw [styleLoop_spec _ _ _ hl hr]
        simp only [foldl_cons_rev, List.append_nil]
        rw [hmsgs]
        rfl
      | some l =>
        cases l with
        | nil =>
          simp only [checkStyle, Bool.false_eq_true, if_false]
          rw [styleLoop_spec _ _ _ hl hr]
          simp only [foldl_cons_rev, List.append_nil]
          rw [hmsgs]
          rfl
        | cons c cs => simp at h'
    exact hbody ce hce

theorem checkStyle_bad_keeps (rm : CssMap) (lm : Option CssMap) (ce : Option (List CssErr)) (h : cssBadP (lm, ce) = true) :
    checkStyle rm lm ce = ([⟨fmt checkStyleStr_0 [], 0, fmt checkStyleStr_1 []⟩], rm) := by
  have e3 : fmt checkStyleStr_3 [] = fmt checkStyleStr_0 [] := by decide
  have e4 : fmt checkStyleStr_4 [] = fmt checkStyleStr_1 [] := by decide
  unfold checkStyle
  cases lm with
  | none => rfl
  | some m =>
    cases m with
    | nil => rfl
    | cons p r =>
      cases ce with
      | none => simp [cssBadP] at h
      | some l =>
        cases l with
        | nil => simp [cssBadP] at h
        | cons c cs => simp [e3, e4]

/-! ### the maps parse_css_spec returns are dicts -/

theorem cssLoop_nodup (s : Array Nat) (ms : List (Nat × Rx.St)) (endp : Nat) (rm : Option CssMap) (errs : Option (List CssErr))
    (h : ∀ m, rm = some m → (dictKeys m).Nodup) :
    ∀ m, (cssLoop s ms endp rm errs).1 = some m → (dictKeys m).Nodup := by
  induction ms generalizing endp rm errs with
  | nil => intro m hm; exact h m hm
  | cons q rest ih =>
    obtain ⟨q, st⟩ := q
    intro m hm
    simp only [cssLoop] at hm
    split at hm
    · cases hm
    · refine ih _ _ _ ?_ m hm
      intro m' hm'
      split at hm'
      · split at hm'
        · exact h m' hm'
        · cases hm'
          rw [dictKeys_dictSet]
          apply nodup_setAdd
          cases rm with
          | none => simp [dictKeys]
          | some d => exact h d rfl
      · exact h m' hm'

theorem parseCssSpec_nodup (v : Str) (m : CssMap) (h : (parseCssSpec v).1 = some m) : (dictKeys m).Nodup := by
  unfold parseCssSpec at h
  exact cssLoop_nodup _ _ _ _ _ (by intro m hm; cases hm) m h

/-! ### check_style with categories / maybe_style -/

def dropCat (o : Out) : Msg := ⟨o.sev, o.pos.toNat, o.text⟩

theorem checkStyle4_eq (rm : CssMap) (lm : Option CssMap) (ce : Option (List CssErr)) :
    (checkStyle4 rm lm ce).1.map dropCat = (checkStyle rm lm ce).1 ∧ (checkStyle4 rm lm ce).2 = (checkStyle rm lm ce).2 ∧
    ∀ o ∈ (checkStyle4 rm lm ce).1, o.cat = fmt checkStyleStr_2 [] := by
  have c5 : fmt checkStyleStr_5 [] = fmt checkStyleStr_2 [] := by decide
  have c11 : fmt checkStyleStr_11 [] = fmt checkStyleStr_2 [] := by decide
  cases lm with
  | none => simp [checkStyle4, checkStyle, dropCat]
  | some m =>
    cases m with
    | nil => simp [checkStyle4, checkStyle, dropCat]
    | cons p r =>
      cases ce with
      | none =>
        simp only [checkStyle4, checkStyle, Bool.false_eq_true, if_false]
        split <;> simp [dropCat, c11]
      | some l =>
        cases l with
        | nil =>
          simp only [checkStyle4, checkStyle, Bool.false_eq_true, if_false]
          split <;> simp [dropCat, c11]
        | cons c cs => simp [checkStyle4, checkStyle, dropCat, c5]

theorem dictSet_ne_nil {κ ν : Type} [BEq κ] (d : List (κ × ν)) (k : κ) (v : ν) : dictSet d k v ≠ [] := by
  cases d with
  | nil => simp [dictSet]
  | cons x xs =>
    obtain ⟨a, b⟩ := x
    simp only [dictSet]
    split <;> simp

theorem cssLoop_ne_nil (s : Array Nat) (ms : List (Nat × Rx.St)) (endp : Nat) (rm : Option CssMap) (errs : Option (List CssErr))
    (h : ∀ m, rm = some m → m ≠ []) :
    ∀ m, (cssLoop s ms endp rm errs).1 = some m → m ≠ [] := by
  induction ms generalizing endp rm errs with
  | nil => intro m hm; exact h m hm
  | cons q rest ih =>
    obtain ⟨q, st⟩ := q
    intro m hm
    simp only [cssLoop] at hm
    split at hm
    · cases hm
    · refine ih _ _ _ ?_ m hm
      intro m' hm'
      split at hm'
      · split at hm'
        · exact h m' hm'
        · cases hm'
          exact dictSet_ne_nil _ _ _
      · exact h m' hm'

theorem parseCssSpec_ne_nil (v : Str) (m : CssMap) (h : (parseCssSpec v).1 = some m) : m ≠ [] := by
  unfold parseCssSpec at h
  exact cssLoop_ne_nil _ _ _ _ _ (by intro m hm; cases hm) m h

theorem maybeStyle_none (r l : Str) (h : (parseCssSpec r).1 = none) : maybeStyle r l = [] := by
  simp [maybeStyle, h]

theorem maybeStyle_some (r l : Str) (rm : CssMap) (h : (parseCssSpec r).1 = some rm) :
    maybeStyle r l = (checkStyle4 rm (parseCssSpec l).1 (parseCssSpec l).2).1 := by
  have hne := parseCssSpec_ne_nil r rm h
  cases rm with
  | nil => exact absurd rfl hne
  | cons p rest => simp [maybeStyle, h]

/-! ### the `style` part of L10nMessageVisitor.visit_Attribute, per attribute and threaded through the attributes -/

/-- the map of a `style` attribute the checker accepts: one text element that parses without errors -/
def goodMap (a : Attribute) : Option CssMap :=
  if a.name == sStyle then
    match patternVariants a.value with
    | t :: _ => if cssBad t then none else (parseCssSpec t).1
    | [] => none
  else none

theorem cssBad_false (t : Str) (h : cssBad t = false) :
    ∃ lm, (parseCssSpec t).1 = some lm ∧ lm ≠ [] ∧ (dictKeys lm).Nodup ∧
      (match (parseCssSpec t).2 with | some (_ :: _) => true | _ => false) = false := by
  unfold cssBad at h
  rcases hp : parseCssSpec t with ⟨lm, ce⟩
  rw [hp] at h
  cases lm with
  | none => simp [cssBadP] at h
  | some m =>
    have hn := parseCssSpec_nodup t m (by rw [hp])
    cases m with
    | nil => simp [cssBadP] at h
    | cons p r =>
      refine ⟨p :: r, rfl, by simp, hn, ?_⟩
      cases ce with
      | none => rfl
      | some l =>
        cases l with
        | nil => rfl
        | cons c cs => simp [cssBadP] at h

/-- the CSS warning of check_style as a message of the Fluent visitor -/
def cssWarning (rm lm : CssMap) : List Msg :=
  if (styleMsgs rm lm).isEmpty then [] else [⟨sevWarning, 0, join [44, 32] (styleMsgs rm lm)⟩]

theorem cssCheck_good (rm : CssMap) (hr : (dictKeys rm).Nodup) (a : Attribute) (lm : CssMap) (h : goodMap a = some lm) :
    cssCheck (.map rm) a = (cssWarning rm lm, .map (popped rm lm)) ∧ (dictKeys (popped rm lm)).Nodup := by
  have e9 : fmt checkStyleStr_9 [] = sevWarning := by decide
  have e10 : fmt checkStyleStr_10 [] = [44, 32] := by decide
  refine ⟨?_, nodup_keys_filter _ _ hr⟩
  unfold goodMap at h
  by_cases hn : (a.name == sStyle) = true
  · simp only [hn, if_true] at h
    have hn' : (a.name != sStyle) = false := by simpa using hn
    unfold cssCheck
    simp only [hn', Bool.false_eq_true, if_false]
    cases hpv : patternVariants a.value with
    | nil => rw [hpv] at h; cases h
    | cons t r =>
      rw [hpv] at h
      simp only at h
      by_cases hb : cssBad t = true
      · simp [hb] at h
      · have hb' : cssBad t = false := by simpa using hb
        simp only [hb', Bool.false_eq_true, if_false] at h
        obtain ⟨lm', h1, h2, h3, h4⟩ := cssBad_false t hb'
        rw [h1] at h
        cases h
        simp only
        rw [h1, checkStyle_ok rm lm _ h2 h4 h3 hr]
        simp [cssWarning, e9, e10]
  · simp [hn] at h

theorem cssCheck_good_nomap (rc : CssVal) (hrc : ∀ rm, rc ≠ .map rm) (a : Attribute) (lm : CssMap) (h : goodMap a = some lm) :
    cssCheck rc a = (cssWarning [] lm, rc) := by
  have e9 : fmt checkStyleStr_9 [] = sevWarning := by decide
  have e10 : fmt checkStyleStr_10 [] = [44, 32] := by decide
  unfold goodMap at h
  by_cases hn : (a.name == sStyle) = true
  · simp only [hn, if_true] at h
    have hn' : (a.name != sStyle) = false := by simpa using hn
    unfold cssCheck
    simp only [hn', Bool.false_eq_true, if_false]
    cases hpv : patternVariants a.value with
    | nil => rw [hpv] at h; cases h
    | cons t r =>
      rw [hpv] at h
      simp only at h
      by_cases hb : cssBad t = true
      · simp [hb] at h
      · have hb' : cssBad t = false := by simpa using hb
        simp only [hb', Bool.false_eq_true, if_false] at h
        obtain ⟨lm', h1, h2, h3, h4⟩ := cssBad_false t hb'
        rw [h1] at h
        cases h
        have hk : checkStyle [] (parseCssSpec t).1 (parseCssSpec t).2 = (cssWarning [] lm, popped [] lm) := by
          rw [h1, checkStyle_ok [] lm _ h2 h4 h3 (by simp [dictKeys])]
          simp [cssWarning, e9, e10]
        cases rc with
        | map rm => exact absurd rfl (hrc rm)
        | none => simp only; rw [hk]
        | skip => simp only; rw [hk]
  · simp [hn] at h

/-- an attribute without an accepted map leaves `reference.css_styles` as it is -/
theorem cssCheck_nomap (rc : CssVal) (a : Attribute) (h : goodMap a = none) : (cssCheck rc a).2 = rc := by
  unfold goodMap at h
  unfold cssCheck
  by_cases hn : (a.name == sStyle) = true
  · have hn' : (a.name != sStyle) = false := by simpa using hn
    simp only [hn, if_true] at h
    simp only [hn', Bool.false_eq_true, if_false]
    cases hpv : patternVariants a.value with
    | nil => rfl
    | cons t r =>
      rw [hpv] at h
      simp only at h
      by_cases hb : cssBad t = true
      · simp only
        cases rc with
        | map rm =>
          simp only
          have : cssBadP ((parseCssSpec t).1, (parseCssSpec t).2) = true := hb
          rw [checkStyle_bad_keeps rm _ _ this]
        | none => rfl
        | skip => rfl
      · have hb' : cssBad t = false := by simpa using hb
        obtain ⟨lm', h1, _⟩ := cssBad_false t hb'
        simp [hb', h1] at h
  · have hn' : (a.name != sStyle) = true := by simpa using hn
    simp [hn']

/-- `reference.css_styles` after the l10n visitor went through `attrs`, starting from the map `rm` -/
def cssAfter (rm : CssMap) : List Attribute → CssMap
  | [] => rm
  | a :: r => cssAfter (match goodMap a with | some lm => popped rm lm | none => rm) r

/-- the properties of the reference still un-popped = those that no accepted `style` attribute so far named -/
theorem mem_cssAfter (rm : CssMap) (attrs : List Attribute) (q : Str × Option Str) :
    q ∈ cssAfter rm attrs ↔ q ∈ rm ∧ ∀ a ∈ attrs, ∀ lm, goodMap a = some lm → q.1 ∉ dictKeys lm := by
  induction attrs generalizing rm with
  | nil => simp [cssAfter]
  | cons a r ih =>
    simp only [cssAfter]
    rw [ih]
    cases hg : goodMap a with
    | none =>
      simp only [List.mem_cons, forall_eq_or_imp, hg]
      constructor
      · rintro ⟨h1, h2⟩
        exact ⟨h1, ⟨(fun lm h => by cases h), h2⟩⟩
      · rintro ⟨h1, _, h2⟩
        exact ⟨h1, h2⟩
    | some lm =>
      simp only [List.mem_cons, forall_eq_or_imp, hg, popped, List.mem_filter]
      constructor
      · rintro ⟨⟨h1, h2⟩, h3⟩
        refine ⟨h1, ?_, h3⟩
        intro lm' hl
        cases hl
        simpa using h2
      · rintro ⟨h1, h2, h3⟩
        refine ⟨⟨h1, ?_⟩, h3⟩
        have := h2 lm rfl
        simpa using this

theorem cssCheck_nomap_msgs (rc : CssVal) (a : Attribute) (h : goodMap a = none) :
    (cssCheck rc a).1 = if badStyle a then [cssError] else [] := by
  have e0 : fmt checkStyleStr_0 [] = sevError := by decide
  unfold goodMap at h
  unfold cssCheck badStyle
  by_cases hn : (a.name == sStyle) = true
  · have hn' : (a.name != sStyle) = false := by simpa using hn
    simp only [hn, if_true] at h
    simp only [hn', Bool.false_eq_true, if_false, hn, Bool.true_and]
    cases hpv : patternVariants a.value with
    | nil => rfl
    | cons t r =>
      rw [hpv] at h
      simp only at h
      by_cases hb : cssBad t = true
      · simp only [hb, if_true]
        have hbp : cssBadP ((parseCssSpec t).1, (parseCssSpec t).2) = true := hb
        cases rc with
        | map rm => simp only; rw [checkStyle_bad_keeps rm _ _ hbp]; simp [cssError, e0]
        | none => simp only; rw [checkStyle_bad_keeps [] _ _ hbp]; simp [cssError, e0]
        | skip => simp only; rw [checkStyle_bad_keeps [] _ _ hbp]; simp [cssError, e0]
      · have hb' : cssBad t = false := by simpa using hb
        obtain ⟨lm', h1, _⟩ := cssBad_false t hb'
        simp [hb', h1] at h
  · have hn' : (a.name != sStyle) = true := by simpa using hn
    have hn'' : (a.name == sStyle) = false := by simpa using hn
    simp [hn', hn'']

/-- what the `style` check of one attribute appends, given the reference map at that moment -/
def styleVerdict (rm : CssMap) (a : Attribute) : List Msg :=
  match goodMap a with
  | some lm => cssWarning rm lm
  | none => if badStyle a then [cssError] else []

/-- … and the reference map afterwards (`ref_map.pop` for every property of an accepted style) -/
def popOne (rm : CssMap) (a : Attribute) : CssMap :=
  match goodMap a with
  | some lm => popped rm lm
  | none => rm

/-- the per-attribute messages of the l10n visitor with the reference map threaded explicitly -/
def attrsSpec (kp : Option (List Str)) (rr : Slot → List Str) : CssMap → List Attribute → List Msg
  | _, [] => []
  | rm, a :: r =>
    (evPattern false a.value).flatMap (evMsgs kp (rr (some a.name))) ++ styleVerdict rm a ++ attrsSpec kp rr (popOne rm a) r

/-- the same when the reference has no usable map (no `style`, or a complex one): every call gets a fresh `{}` -/
def attrsSpecNoMap (kp : Option (List Str)) (rr : Slot → List Str) : List Attribute → List Msg
  | [] => []
  | a :: r =>
    (evPattern false a.value).flatMap (evMsgs kp (rr (some a.name))) ++ styleVerdict [] a ++ attrsSpecNoMap kp rr r

theorem attrsMsgs_map (kp : Option (List Str)) (rr : Slot → List Str) (rm : CssMap) (hr : (dictKeys rm).Nodup)
    (attrs : List Attribute) : attrsMsgs kp rr (.map rm) attrs = attrsSpec kp rr rm attrs := by
  induction attrs generalizing rm with
  | nil => rfl
  | cons a r ih =>
    simp only [attrsMsgs, attrsSpec, styleVerdict, popOne]
    cases hg : goodMap a with
    | some lm =>
      obtain ⟨h1, h2⟩ := cssCheck_good rm hr a lm hg
      rw [h1]
      simp only
      rw [ih _ h2]
    | none =>
      rw [cssCheck_nomap_msgs _ a hg, cssCheck_nomap _ a hg]
      simp only
      rw [ih _ hr]

theorem attrsMsgs_nomap (kp : Option (List Str)) (rr : Slot → List Str) (rc : CssVal) (hrc : ∀ rm, rc ≠ .map rm)
    (attrs : List Attribute) : attrsMsgs kp rr rc attrs = attrsSpecNoMap kp rr attrs := by
  induction attrs with
  | nil => rfl
  | cons a r ih =>
    simp only [attrsMsgs, attrsSpecNoMap, styleVerdict]
    cases hg : goodMap a with
    | some lm =>
      rw [cssCheck_good_nomap rc hrc a lm hg]
      simp only
      rw [ih]
    | none =>
      rw [cssCheck_nomap_msgs _ a hg, cssCheck_nomap _ a hg]
      simp only
      rw [ih]

theorem cssAfter_eq_foldl (rm : CssMap) (attrs : List Attribute) : cssAfter rm attrs = attrs.foldl popOne rm := by
  induction attrs generalizing rm with
  | nil => rfl
  | cons a r ih => simp only [cssAfter, List.foldl_cons, popOne, ih]

/-! ### the reference visitor's map is a dict -/

theorem styleOf_nodup (p : Pattern) (x : CssVal × Option (List CssErr)) (rm : CssMap) (h : (styleOf p x).1 = .map rm) :
    (dictKeys rm).Nodup := by
  obtain ⟨c, e⟩ := x
  unfold styleOf at h
  simp only at h
  split at h
  · cases h
  · rename_i t r _
    rcases hp : parseCssSpec t with ⟨m, e'⟩
    rw [hp] at h
    cases m with
    | none => cases h
    | some m =>
      simp only at h
      cases h
      exact parseCssSpec_nodup t _ (by rw [hp])

theorem foldl_refVisitAttribute_css (attrs : List Attribute) (st : RefState)
    (h : ∀ rm, st.css = .map rm → (dictKeys rm).Nodup) :
    ∀ rm, (attrs.foldl refVisitAttribute st).css = .map rm → (dictKeys rm).Nodup := by
  induction attrs generalizing st with
  | nil => exact h
  | cons a r ih =>
    simp only [List.foldl_cons]
    apply ih
    intro rm hrm
    unfold refVisitAttribute at hrm
    simp only at hrm
    split at hrm
    · exact h rm hrm
    · exact styleOf_nodup a.value _ rm hrm

theorem refVisitEntry_css_nodup (ref : Entry) (rm : CssMap) (h : (refVisitEntry ref).css = .map rm) : (dictKeys rm).Nodup := by
  cases ref with
  | message m =>
    simp only [refVisitEntry, refVisit] at h
    refine foldl_refVisitAttribute_css m.attributes _ ?_ rm h
    intro rm' h'
    cases hv : m.value <;> simp [hv, refInit] at h'
  | term t =>
    simp only [refVisitEntry, refVisit] at h
    refine foldl_refVisitAttribute_css t.attributes _ ?_ rm h
    intro rm' h'
    simp [refInit] at h'

/-- the messages of `styleMsgs`, read as a set -/
theorem mem_styleMsgs (rm lm : CssMap) (m : Str) :
    m ∈ styleMsgs rm lm ↔
      (∃ q ∈ rm, q.1 ∉ dictKeys lm ∧ m = onlyRefMsg q.1) ∨
      (∃ p ∈ lm, p.1 ∉ dictKeys rm ∧ m = onlyL10nMsg p.1) ∨
      (∃ p ∈ lm, ∃ ru, dictGet? rm p.1 = some ru ∧ p.2 ≠ ru ∧ m = unitsMsg p.1 p.2 ru) := by
  simp only [styleMsgs, List.mem_append, List.mem_reverse, List.mem_map, onlyRef, onlyL10n, mismatches,
    List.mem_filter, List.mem_filterMap]
  constructor
  · rintro ((⟨k, ⟨q, ⟨hq, hc⟩, rfl⟩, rfl⟩ | ⟨k, ⟨p, ⟨hp, hc⟩, rfl⟩, rfl⟩) | ⟨p, hp, hm⟩)
    · exact Or.inl ⟨q, hq, by simpa using hc, rfl⟩
    · refine Or.inr (Or.inl ⟨p, hp, ?_, rfl⟩)
      rw [← dictGet?_none_iff]
      simpa using hc
    · refine Or.inr (Or.inr ⟨p, hp, ?_⟩)
      cases hg : dictGet? rm p.1 with
      | none => simp [hg] at hm
      | some ru =>
        simp only [hg] at hm
        split at hm
        · rename_i hne
          cases hm
          exact ⟨ru, rfl, by simpa using hne, rfl⟩
        · cases hm
  · rintro (⟨q, hq, hc, rfl⟩ | ⟨p, hp, hc, rfl⟩ | ⟨p, hp, ru, hg, hne, rfl⟩)
    · exact Or.inl (Or.inl ⟨q.1, ⟨q, ⟨hq, by simpa using hc⟩, rfl⟩, rfl⟩)
    · refine Or.inl (Or.inr ⟨p.1, ⟨p, ⟨hp, ?_⟩, rfl⟩, rfl⟩)
      have := (dictGet?_none_iff rm p.1).mpr hc
      simp [this]
    · refine Or.inr ⟨p, hp, ?_⟩
      simp [hg, hne]

end C08W

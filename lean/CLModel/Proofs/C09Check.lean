/- Assembly: `check_string` / `check` of the Android checker against the reference notions of C09Spec. -/
import CLModel.Proofs.C09Params
namespace Android
open Rx Gen.Pat Android.Spec

/-! ### severities -/

theorem hasError_append (a b : List Result) : hasError (a ++ b) = (hasError a || hasError b) := by
  simp [hasError, List.any_append]

theorem hasError_map_warn {α : Type} (l : List α) (f : α → Nat) (g : α → Msg) :
    hasError (l.map (fun x => warn (f x) (g x))) = false := by
  induction l with
  | nil => rfl
  | cons x xs ih => simp only [List.map_cons, hasError, List.any_cons] at ih ⊢; simp [warn]

theorem hasError_map_err {α : Type} (l : List α) (f : α → Nat) (g : α → Msg) :
    hasError (l.map (fun x => err (f x) (g x))) = !l.isEmpty := by
  cases l with
  | nil => rfl
  | cons x xs => simp [hasError, err]

theorem all_warn_of_not_hasError {rs : List Result} (h : hasError rs = false) :
    ∀ r ∈ rs, r.sev = .warning := by
  intro r hr
  simp only [hasError, List.any_eq_false] at h
  have := h r hr
  cases hs : r.sev with
  | error => simp [hs] at this
  | warning => rfl

/-! ### node predicates -/

theorem notTranslatable_iff (ns : List Node) :
    notTranslatable ns = true ↔ ∃ n ∈ ns, TranslatableFalse n := by
  simp only [notTranslatable, List.any_eq_true, TranslatableFalse, Bool.and_eq_true]
  constructor
  · rintro ⟨n, hn, _, h2⟩; exact ⟨n, hn, by simpa using h2⟩
  · rintro ⟨n, hn, h⟩; exact ⟨n, hn, by simp [h], by simp [h]⟩

theorem noAtString_iff (ns : List Node) :
    noAtString ns = true ↔ ∃ n ∈ ns, AtString n := by
  simp only [noAtString, List.any_eq_true, AtString, List.isPrefixOf_iff_prefix]

theorem dropWhile_eq_nil {p : Nat → Bool} : ∀ {l : List Nat}, l.dropWhile p = [] ↔ ∀ x ∈ l, p x = true := by
  intro l
  induction l with
  | nil => simp
  | cons a t ih =>
    simp only [List.dropWhile_cons]
    by_cases ha : p a = true
    · simp [ha, ih]
    · simp [ha]

theorem strip_eq_nil (l : List Nat) : strip l = [] ↔ ∀ x ∈ l, isSpace x = true := by
  unfold strip
  rw [List.reverse_eq_nil_iff, dropWhile_eq_nil]
  constructor
  · intro h x hx
    by_cases hp : isSpace x = true
    · exact hp
    · exfalso
      -- x survives dropWhile from the left: the first non-space element is in `l.dropWhile isSpace`
      have hne : l.dropWhile isSpace ≠ [] := by
        intro hnil
        rw [dropWhile_eq_nil] at hnil
        exact hp (hnil x hx)
      cases hd : l.dropWhile isSpace with
      | nil => exact hne hd
      | cons y ys =>
        have hy : isSpace y = false := by
          have := List.head?_dropWhile_not isSpace l
          rw [hd] at this
          simpa using this
        have := h y (by rw [hd]; simp)
        rw [hy] at this; cases this
  · intro h x hx
    have : x ∈ l := by
      have h1 : x ∈ l.dropWhile isSpace := by simpa using hx
      exact (List.dropWhile_sublist _).subset h1
    exact h x this

theorem nonSimpleData_iff (n : Node) : nonSimpleData n = false ↔ SimpleData n := by
  unfold nonSimpleData SimpleData
  by_cases h0 : (n.children.filter (·.isCdata)).length = 0
  · simp only [h0, beq_self_eq_true, if_true]
    have hnc : ∀ c ∈ n.children, c.isCdata = false := by
      intro c hc
      have : n.children.filter (·.isCdata) = [] := List.eq_nil_of_length_eq_zero h0
      rw [List.filter_eq_nil_iff] at this
      simpa using this c hc
    rcases hch : n.children with _ | ⟨c, _ | ⟨c2, rest⟩⟩
    · simp
    · constructor
      · intro h
        right; left
        cases c with
        | text d => exact ⟨d, rfl⟩
        | cdata d => simp [Child.isText] at h
        | other => simp [Child.isText] at h
      · rintro (h | ⟨d, hd⟩ | ⟨h1, _⟩)
        · cases h
        · cases hd; rfl
        · rw [hch] at h0; omega
    · constructor
      · intro h; cases h
      · rintro (h | ⟨d, hd⟩ | ⟨h1, _⟩)
        · cases h
        · cases hd
        · rw [hch] at h0; omega
  · have h0' : ((n.children.filter (·.isCdata)).length == 0) = false := by simp [h0]
    simp only [h0', Bool.false_eq_true, if_false]
    by_cases h1 : (n.children.filter (·.isCdata)).length > 1
    · simp only [h1, if_true, reduceCtorEq, false_iff]
      rintro (h | ⟨d, hd⟩ | ⟨h2, _⟩)
      · rw [h] at h0; simp at h0
      · rw [hd] at h0; simp [Child.isCdata] at h0
      · omega
    · have h1' : (n.children.filter (·.isCdata)).length = 1 := by omega
      simp only [h1, if_false, List.any_eq_false]
      constructor
      · intro h
        right; right
        refine ⟨h1', ?_⟩
        intro c hc
        have := h c hc
        cases c with
        | text d =>
          right
          refine ⟨d, rfl, ?_⟩
          simp only [bne_iff_ne, ne_eq, Decidable.not_not] at this
          exact (strip_eq_nil d).mp (by simpa using this)
        | cdata d => left; rfl
        | other => simp at this
      · rintro (h | ⟨d, hd⟩ | ⟨_, h2⟩)
        · rw [h] at h0; simp at h0
        · rw [hd] at h0; simp [Child.isCdata] at h0
        · intro c hc
          rcases h2 c hc with hcd | ⟨d, hd, hw⟩
          · cases c with
            | cdata d => simp
            | text d => simp [Child.isCdata] at hcd
            | other => simp [Child.isCdata] at hcd
          · subst hd
            simp [(strip_eq_nil d).mpr hw]

/-! ### check_apostrophes -/

theorem checkApostrophes_all_errors (v : List Nat) : ∀ r ∈ checkApostrophes v, r.sev = .error := by
  intro r hr
  unfold checkApostrophes at hr
  simp only [List.mem_append, List.mem_map] at hr
  rcases hr with ⟨m, _, rfl⟩ | hr
  · rfl
  · split at hr
    · simp only [List.mem_map] at hr
      obtain ⟨m, _, rfl⟩ := hr; rfl
    · cases hr

theorem hasError_checkApostrophes (v : List Nat) :
    hasError (checkApostrophes v) = true ↔
      DoubledQuote (blankEsc v) ∨ (¬ Quoted (silence v) ∧ 39 ∈ silence v) := by
  have hne : hasError (checkApostrophes v) = true ↔ checkApostrophes v ≠ [] := by
    constructor
    · intro h hnil; rw [hnil] at h; cases h
    · intro h
      cases hc : checkApostrophes v with
      | nil => exact absurd hc h
      | cons r rs =>
        have := checkApostrophes_all_errors v r (by rw [hc]; simp)
        simp [hasError, this]
  rw [hne]
  unfold checkApostrophes
  simp only [silenced_eq, blanked_eq, ne_eq, List.append_eq_nil_iff, List.map_eq_nil_iff, Classical.not_and_iff_not_or_not]
  rw [show (¬ finditer (blankEsc v).toArray checks_android_check_apostrophes_0 = []) ↔ DoubledQuote (blankEsc v)
    from dq_exists (blankEsc v)]
  apply or_congr Iff.rfl
  by_cases hq : Quoted (silence v)
  · have := (quoted_iff (silence v)).mpr hq
    simp [this, hq]
  · have hb : (Gen.Tables.android_quote_start.isPrefixOf (silence v) &&
        Gen.Tables.android_quote_end.isSuffixOf (silence v)) = false := by
      cases h : (Gen.Tables.android_quote_start.isPrefixOf (silence v) &&
        Gen.Tables.android_quote_end.isSuffixOf (silence v))
      · rfl
      · exact absurd ((quoted_iff _).mp h) hq
    simp only [hb, Bool.not_false, if_true, List.map_eq_nil_iff, hq, not_false_eq_true, true_and]
    have h1 := apos_positions (silence v)
    have h2 := indicesOf_ne_nil 39 0 (silence v)
    constructor
    · intro h
      apply h2.mp
      intro hnil
      rw [← h1] at hnil
      exact h (by simpa using hnil)
    · intro h hnil
      apply h2.mpr h
      rw [← h1, hnil]; rfl

/-! ### conflicts -/

theorem firstFmt_some {us : List (Nat × Tok)} {p : Nat} {f : List Nat} (h : firstFmt us p = some f) :
    ∃ u ∈ us, u.1 = p ∧ u.2.fmt = f := by
  unfold firstFmt at h
  cases hf : us.find? (fun u => u.1 == p) with
  | none => rw [hf] at h; cases h
  | some u =>
    rw [hf] at h
    have hm := List.mem_of_find?_eq_some hf
    have hp := List.find?_some hf
    exact ⟨u, hm, by simpa using hp, by simpa using h⟩

theorem conflictsOf_ne_nil (us : List (Nat × Tok)) :
    conflictsOf us ≠ [] ↔ ∃ u1 u2, u1 ∈ us ∧ u2 ∈ us ∧ u1.1 = u2.1 ∧ u1.2.fmt ≠ u2.2.fmt := by
  rw [conflictsOf_eq]
  constructor
  · intro h
    obtain ⟨x, hx⟩ := List.exists_mem_of_ne_nil _ h
    obtain ⟨u, hu, hc⟩ := List.mem_filterMap.mp hx
    unfold confl at hc
    cases hf : firstFmt us u.1 with
    | none => rw [hf] at hc; cases hc
    | some f =>
      rw [hf] at hc
      obtain ⟨u0, hu0, hp, hff⟩ := firstFmt_some hf
      refine ⟨u0, u, hu0, hu, hp, ?_⟩
      by_cases hfe : (f == u.2.fmt) = true
      · simp [hfe] at hc
      · rw [hff]; simpa using hfe
  · rintro ⟨u1, u2, h1, h2, hp, hne⟩ hnil
    obtain ⟨f, hf⟩ := firstFmt_of_mem h1
    have hf2 : firstFmt us u2.1 = some f := by rw [← hp]; exact hf
    have hall : ∀ u ∈ us, confl us u = none := by
      intro u hu
      cases hc : confl us u with
      | none => rfl
      | some y =>
        have : y ∈ us.filterMap (confl us) := List.mem_filterMap.mpr ⟨u, hu, hc⟩
        rw [hnil] at this; cases this
    have c1 := hall u1 h1
    have c2 := hall u2 h2
    simp only [confl, hf, hf2] at c1 c2
    have e1 : f = u1.2.fmt := by
      by_cases h : (f == u1.2.fmt) = true
      · simpa using h
      · simp [h] at c1
    have e2 : f = u2.2.fmt := by
      by_cases h : (f == u2.2.fmt) = true
      · simpa using h
      · simp [h] at c2
    exact hne (e1.symm.trans e2)

/-! ### check_params -/

theorem mem_insertKey (p : Nat × List Nat) (l : List (Nat × List Nat)) (x : Nat × List Nat) :
    x ∈ insertKey p l ↔ x = p ∨ x ∈ l := by
  induction l with
  | nil => simp [insertKey]
  | cons q rest ih =>
    simp only [insertKey]
    split
    · simp
    · simp only [List.mem_cons, ih]
      constructor
      · rintro (h | h | h)
        · exact Or.inr (Or.inl h)
        · exact Or.inl h
        · exact Or.inr (Or.inr h)
      · rintro (h | h | h)
        · exact Or.inr (Or.inl h)
        · exact Or.inl h
        · exact Or.inr (Or.inr h)

theorem mem_sortKeys (l : List (Nat × List Nat)) (x : Nat × List Nat) : x ∈ sortKeys l ↔ x ∈ l := by
  unfold sortKeys
  induction l with
  | nil => simp
  | cons a t ih => simp only [List.foldr_cons, mem_insertKey, ih, List.mem_cons]

theorem dget_none_iff {β : Type} (d : List (Nat × β)) (p : Nat) :
    dget d p = none ↔ p ∉ d.map (·.1) := by
  unfold dget
  cases hf : d.find? (fun x => x.1 == p) with
  | some y =>
    simp only [reduceCtorEq, false_iff, Classical.not_not]
    have hm := List.mem_of_find?_eq_some hf
    have hp := List.find?_some hf
    exact List.mem_map.mpr ⟨y, hm, by simpa using hp⟩
  | none =>
    simp only [true_iff]
    intro hmem
    obtain ⟨y, hy, hyp⟩ := List.mem_map.mp hmem
    have := List.find?_eq_none.mp hf y hy
    simp [hyp] at this

/-- what `check_params` yields, given the reference's params dict `rp` (as a function `R`) -/
theorem checkParams_spec (rp : List (Nat × List Nat)) (count : Nat) (v : List Nat) :
    ∃ c, checkParams rp count v = some c ∧
      (hasError c = true ↔ Conflict v ∨ ∃ p f, argMap v p = some f ∧ dget rp p ≠ some f) ∧
      (∀ p f, (p, f) ∈ rp → argMap v p = none → warn 0 (.notInL10n p f) ∈ c) := by
  obtain ⟨st, hst, hinv, hnd⟩ := getParams_str v
  unfold checkParams
  simp only [hst]
  refine ⟨_, rfl, ?_, ?_⟩
  · simp only [hasError_append]
    have e1 : hasError (st.errors.map (fun e => err e.2 e.1)) = !st.errors.isEmpty :=
      hasError_map_err st.errors (fun e => e.2) (fun e => e.1)
    have e3 : hasError (rp.filterMap (fun p =>
        if !((sortKeys st.params).map (·.1)).contains p.1 then some (warn 0 (.notInL10n p.1 p.2)) else none)) = false := by
      simp only [hasError, List.any_eq_false, List.mem_filterMap]
      rintro r ⟨p, _, hp⟩
      split at hp
      · cases hp; simp [warn]
      · cases hp
    have e4 : ∀ b : Bool, hasError (if b then [warn 0 .countMismatch] else []) = false := by
      intro b; cases b <;> rfl
    rw [e1, e3, e4]
    simp only [Bool.or_false, Bool.or_eq_true, Bool.not_eq_true', List.isEmpty_eq_false_iff]
    apply or_congr
    · rw [hinv.errors]
      exact conflictsOf_ne_nil _
    · simp only [hasError, List.any_eq_true, List.mem_filterMap]
      constructor
      · rintro ⟨r, ⟨x, hx, hr⟩, _⟩
        rw [mem_sortKeys] at hx
        have hxm : argMap v x.1 = some x.2 := by
          unfold argMap; rw [← hinv.params]; exact (dget_eq_some_iff hnd _ _).mpr hx
        refine ⟨x.1, x.2, hxm, ?_⟩
        intro hd
        rw [hd] at hr
        simp at hr
      · rintro ⟨p, f, hm, hne⟩
        have hx : (p, f) ∈ st.params := by
          apply (dget_eq_some_iff hnd _ _).mp
          rw [hinv.params]; exact hm
        cases hd : dget rp p with
        | none =>
          exact ⟨err 0 (.notInRef p f), ⟨(p, f), (mem_sortKeys _ _).mpr hx, by simp [hd]⟩, rfl⟩
        | some rf =>
          have : rf ≠ f := by intro h; subst h; exact hne hd
          exact ⟨err 0 .mismatch, ⟨(p, f), (mem_sortKeys _ _).mpr hx, by simp [hd, this]⟩, rfl⟩
  · intro p f hp hnone
    simp only [List.mem_append]
    left; right
    apply List.mem_filterMap.mpr
    refine ⟨(p, f), hp, ?_⟩
    have : dget st.params p = none := by rw [hinv.params]; exact hnone
    rw [dget_none_iff] at this
    have hk : ((sortKeys st.params).map (·.1)).contains p = false := by
      cases hc : ((sortKeys st.params).map (·.1)).contains p with
      | false => rfl
      | true =>
        exfalso; apply this
        have := List.contains_iff_mem.mp hc
        obtain ⟨y, hy, hyp⟩ := List.mem_map.mp this
        exact List.mem_map.mpr ⟨y, (mem_sortKeys _ _).mp hy, hyp⟩
    show (if (!((sortKeys st.params).map (·.1)).contains p) = true then some (warn 0 (.notInL10n p f)) else none) = _
    rw [hk]; rfl

/-! ### check_string, check -/

/-- the right-hand side of the error characterisation -/
def ErrorCause (ref : Node) (l10n : Entity) : Prop :=
  TranslatableFalse ref ∨ TranslatableFalse l10n.node ∨ AtString l10n.node ∨ ¬ SimpleData l10n.node ∨
  DoubledQuote (blankEsc l10n.val) ∨ (¬ Quoted (silence l10n.val) ∧ 39 ∈ silence l10n.val) ∨
  Conflict l10n.val ∨ ∃ p f, argMap l10n.val p = some f ∧ argMap (textContent ref) p ≠ some f

theorem checkString_spec (ref : Node) (l10n : Entity) :
    ∃ rs, checkString [ref] l10n = some rs ∧
      (hasError rs = true ↔ ErrorCause ref l10n) ∧
      (¬ TranslatableFalse ref → ¬ TranslatableFalse l10n.node → ¬ AtString l10n.node → SimpleData l10n.node →
        ∀ p f, argMap (textContent ref) p = some f → argMap l10n.val p = none →
          warn 0 (.notInL10n p f) ∈ rs) := by
  unfold checkString ErrorCause
  by_cases hnt : notTranslatable [l10n.node, ref] = true
  · have := (notTranslatable_iff _).mp hnt
    simp only [hnt, if_true]
    refine ⟨_, rfl, ?_, ?_⟩
    · simp only [hasError, err, List.any_cons, List.any_nil, Bool.or_false, beq_self_eq_true, true_iff]
      obtain ⟨n, hn, h⟩ := this
      simp only [List.mem_cons, List.mem_nil_iff, or_false] at hn
      rcases hn with rfl | rfl
      · exact Or.inr (Or.inl h)
      · exact Or.inl h
    · intro h1 h2
      obtain ⟨n, hn, h⟩ := this
      simp only [List.mem_cons, List.mem_nil_iff, or_false] at hn
      rcases hn with rfl | rfl
      · exact absurd h h2
      · exact absurd h h1
  · have hnt' : ¬ TranslatableFalse ref ∧ ¬ TranslatableFalse l10n.node := by
      constructor <;> intro h <;> apply hnt <;> apply (notTranslatable_iff _).mpr
      · exact ⟨ref, by simp, h⟩
      · exact ⟨l10n.node, by simp, h⟩
    simp only [hnt, Bool.false_eq_true, if_false]
    by_cases hat : noAtString [l10n.node] = true
    · have hat' : AtString l10n.node := by
        obtain ⟨n, hn, h⟩ := (noAtString_iff _).mp hat
        simp at hn; subst hn; exact h
      simp only [hat, if_true]
      refine ⟨_, rfl, ?_, ?_⟩
      · simp only [hasError, err, List.any_cons, List.any_nil, Bool.or_false, beq_self_eq_true, true_iff]
        exact Or.inr (Or.inr (Or.inl hat'))
      · intro _ _ h3; exact absurd hat' h3
    · have hat' : ¬ AtString l10n.node := by
        intro h; apply hat; exact (noAtString_iff _).mpr ⟨_, by simp, h⟩
      simp only [hat, Bool.false_eq_true, if_false]
      have hw : ∀ b : Bool, hasError (if b then [warn 0 .notTranslatable] else []) = false := by
        intro b; cases b <;> rfl
      by_cases hns : nonSimpleData l10n.node = true
      · have hns' : ¬ SimpleData l10n.node := by
          intro h; rw [(nonSimpleData_iff _).mpr h] at hns; cases hns
        simp only [hns, if_true]
        refine ⟨_, rfl, ?_, ?_⟩
        · rw [hasError_append, hw]
          simp only [hasError, err, List.any_cons, List.any_nil, Bool.or_false, beq_self_eq_true,
            Bool.false_or, true_iff]
          exact Or.inr (Or.inr (Or.inr (Or.inl hns')))
        · intro _ _ _ h4; exact absurd h4 hns'
      · have hns' : SimpleData l10n.node := by
          apply (nonSimpleData_iff _).mp
          cases h : nonSimpleData l10n.node
          · rfl
          · exact absurd h hns
        simp only [hns, Bool.false_eq_true, if_false]
        obtain ⟨rst, hrst, hrinv, hrnd⟩ := getParams_node ref
        have hmap : [ref].map RefArg.node = [RefArg.node ref] := rfl
        rw [hmap, hrst]
        obtain ⟨c, hc, hcerr, hcwarn⟩ := checkParams_spec rst.params rst.count l10n.val
        simp only [hc]
        refine ⟨_, rfl, ?_, ?_⟩
        · simp only [hasError_append, hw, Bool.false_or]
          have he : hasError (rst.errors.map (fun x => warn x.2 x.1)) = false :=
            hasError_map_warn rst.errors (fun x => x.2) (fun x => x.1)
          rw [he, Bool.or_false, Bool.or_eq_true, hasError_checkApostrophes, hcerr]
          have hR : ∀ p f, dget rst.params p ≠ some f ↔ argMap (textContent ref) p ≠ some f := by
            intro p f; unfold argMap; rw [hrinv.params]
          simp only [hR]
          constructor
          · rintro ((h | h) | (h | h))
            · exact Or.inr (Or.inr (Or.inr (Or.inr (Or.inl h))))
            · exact Or.inr (Or.inr (Or.inr (Or.inr (Or.inr (Or.inl h)))))
            · exact Or.inr (Or.inr (Or.inr (Or.inr (Or.inr (Or.inr (Or.inl h))))))
            · exact Or.inr (Or.inr (Or.inr (Or.inr (Or.inr (Or.inr (Or.inr h))))))
          · rintro (h | h | h | h | h | h | h | h)
            · exact absurd h hnt'.1
            · exact absurd h hnt'.2
            · exact absurd h hat'
            · exact absurd hns' h
            · exact Or.inl (Or.inl h)
            · exact Or.inl (Or.inr h)
            · exact Or.inr (Or.inl h)
            · exact Or.inr (Or.inr h)
        · intro _ _ _ _ p f hp hn
          simp only [List.mem_append]
          right
          apply hcwarn p f _ hn
          apply (dget_eq_some_iff hrnd _ _).mp
          rw [hrinv.params]; exact hp

theorem hasError_baseCheck (l10n : Entity) : hasError (baseCheck l10n) = false := by
  unfold baseCheck
  exact hasError_map_warn _ (fun (m : Nat × St) => m.1) (fun _ => .mojibake)

theorem check_spec (ref l10n : Entity) :
    ∃ rs, check ref l10n = some rs ∧
      (hasError rs = true ↔
        ref.node.name ≠ l10n.node.name ∨
        (ref.node.name = Gen.Tables.android_string_tag ∧ ErrorCause ref.node l10n)) ∧
      (ref.node.name = l10n.node.name → ref.node.name = Gen.Tables.android_string_tag →
        ¬ TranslatableFalse ref.node → ¬ TranslatableFalse l10n.node → ¬ AtString l10n.node →
        SimpleData l10n.node →
        ∀ p f, argMap (textContent ref.node) p = some f → argMap l10n.val p = none →
          warn 0 (.notInL10n p f) ∈ rs) := by
  unfold check
  by_cases hn : ref.node.name = l10n.node.name
  · have hn' : (ref.node.name != l10n.node.name) = false := by simp [hn]
    simp only [hn', Bool.false_eq_true, if_false]
    by_cases hs : ref.node.name = Gen.Tables.android_string_tag
    · have hs' : (ref.node.name != Gen.Tables.android_string_tag) = false := by simp [hs]
      simp only [hs', Bool.false_eq_true, if_false]
      obtain ⟨rs, hrs, herr, hwarn⟩ := checkString_spec ref.node l10n
      refine ⟨baseCheck l10n ++ rs, by simp [hrs], ?_, ?_⟩
      · rw [hasError_append, hasError_baseCheck, Bool.false_or, herr]
        constructor
        · intro h; exact Or.inr ⟨hs, h⟩
        · rintro (h | ⟨_, h⟩)
          · exact absurd hn h
          · exact h
      · intro _ _ h1 h2 h3 h4 p f hp hq
        exact List.mem_append.mpr (Or.inr (hwarn h1 h2 h3 h4 p f hp hq))
    · have hs' : (ref.node.name != Gen.Tables.android_string_tag) = true := by simp [hs]
      simp only [hs', if_true]
      refine ⟨_, rfl, ?_, ?_⟩
      · rw [hasError_append, hasError_baseCheck]
        simp only [hasError, warn, List.any_cons, List.any_nil, Bool.or_false, Bool.false_or]
        constructor
        · intro h; simp at h
        · rintro (h | ⟨h, _⟩)
          · exact absurd hn h
          · exact absurd h hs
      · intro _ h; exact absurd h hs
  · have hn' : (ref.node.name != l10n.node.name) = true := by simp [hn]
    simp only [hn', if_true]
    refine ⟨_, rfl, ?_, ?_⟩
    · rw [hasError_append, hasError_baseCheck]
      simp only [hasError, err, List.any_cons, List.any_nil, Bool.or_false, Bool.false_or,
        beq_self_eq_true, true_iff]
      exact Or.inl hn
    · intro h; exact absurd h hn

/-- decidable forms of the two existential notions, for evaluating examples -/
theorem doubledQuote_iff_positions (v : List Nat) : DoubledQuote v ↔ dqPositions 0 v ≠ [] := by
  rw [← dq_exists, ← dq_positions]
  simp

theorem conflict_iff_conflictsOf (v : List Nat) : Conflict v ↔ conflictsOf (uses 1 (lex v)) ≠ [] := by
  rw [conflictsOf_ne_nil]; rfl

/-! ### doubled quotes: flag formulation -/

theorem dq_cons (a : Nat) (w : List Nat) :
    DoubledQuote (a :: w) ↔ (a = 34 ∧ w.head? = some 34) ∨ DoubledQuote w := by
  constructor
  · rintro ⟨i, h0, h1⟩
    cases i with
    | zero =>
      left
      simp at h0 h1
      exact ⟨h0, by cases w <;> simp_all⟩
    | succ j => right; exact ⟨j, by simpa using h0, by simpa using h1⟩
  · rintro (⟨ha, hw⟩ | ⟨j, h0, h1⟩)
    · refine ⟨0, by simp [ha], ?_⟩
      cases w <;> simp_all
    · exact ⟨j + 1, by simpa using h0, by simpa using h1⟩

theorem blankEsc_head (b : Nat) (rest : List Nat) :
    (blankPairs escCond (b :: rest)).head? = some 34 ↔ b = 34 := by
  cases rest with
  | nil => simp [blankPairs]
  | cons c r =>
    simp only [blankPairs]
    by_cases h : escCond b c = true
    · simp only [h, if_true, List.head?_cons]
      simp [escCond] at h
      constructor
      · intro h'; simp at h'
      · intro hb; omega
    · simp [h]

theorem unescapedDq_true (c : Nat) (rest : List Nat) :
    unescapedDq true (c :: rest) = unescapedDq false rest := by
  simp [unescapedDq]

theorem unescapedDq_iff_aux : ∀ n (v : List Nat), v.length ≤ n →
    (unescapedDq false v = true ↔ DoubledQuote (blankEsc v)) := by
  intro n
  induction n with
  | zero =>
    intro v h
    have : v = [] := List.eq_nil_of_length_eq_zero (by omega)
    subst this
    simp [unescapedDq, DoubledQuote, blankEsc, blankPairs]
  | succ n ih =>
    intro v h
    rcases v with _ | ⟨a, _ | ⟨b, rest⟩⟩
    · simp [unescapedDq, DoubledQuote, blankEsc, blankPairs]
    · simp [unescapedDq, DoubledQuote, blankEsc, blankPairs]
    · simp only [List.length_cons] at h
      unfold blankEsc
      simp only [blankPairs]
      by_cases hc : escCond a b = true
      · simp only [hc, if_true]
        have ha : a = 92 := by simp [escCond] at hc; exact hc.1
        subst ha
        rw [dq_cons, dq_cons]
        have := ih rest (by omega)
        unfold blankEsc at this
        simp only [unescapedDq]
        simp [this]
      · simp only [hc, Bool.false_eq_true, if_false]
        rw [dq_cons, blankEsc_head]
        by_cases ha : a = 92
        · subst ha
          have hb : b = 10 := by simp [escCond] at hc; exact hc
          subst hb
          have := ih (10 :: rest) (by simp; omega)
          unfold blankEsc at this
          rw [← this]
          simp [unescapedDq]
        · have := ih (b :: rest) (by simp; omega)
          unfold blankEsc at this
          rw [← this]
          have ha' : (a == 92) = false := by simp [ha]
          simp [unescapedDq, ha']

/-- the flag-based and the blank-out formulation of "a doubled straight quote" agree -/
theorem unescapedDq_iff (v : List Nat) : unescapedDq false v = true ↔ DoubledQuote (blankEsc v) :=
  unescapedDq_iff_aux v.length v (Nat.le_refl _)

end Android

/-
C13 helper lemmas: `all_locales` of a parsed graph, and how the `PF.Config` trees / matcher table that `TC.toPFM` hands to
`ProjectFilesM` relate to the `ProjectConfig` graph (TOML route composed with the enumeration).
-/
import CLModel.Proofs.C13Toml
import CLModel.Proofs.C13Build
import CLModel.Proofs.C13MExample
namespace C13T
open TC PF

/-! ### `all_locales` -/

theorem mem_insertText {x y : Text} : ∀ {l : List Text}, y ∈ insertText x l ↔ y = x ∨ y ∈ l
  | [] => by simp [insertText]
  | z :: zs => by
    unfold insertText
    split
    · simp
    · split
      · rename_i h
        have : x = z := by simpa using h
        subst this
        simp
      · simp only [List.mem_cons, mem_insertText (l := zs)]
        constructor
        · rintro (h | h | h)
          · exact Or.inr (Or.inl h)
          · exact Or.inl h
          · exact Or.inr (Or.inr h)
        · rintro (h | h | h)
          · exact Or.inr (Or.inl h)
          · exact Or.inl h
          · exact Or.inr (Or.inr h)

theorem mem_foldl_insertText {y : Text} : ∀ {l s : List Text},
    y ∈ l.foldl (fun s x => insertText x s) s ↔ y ∈ s ∨ y ∈ l
  | [], s => by simp
  | x :: xs, s => by
    simp only [List.foldl_cons, List.mem_cons]
    rw [mem_foldl_insertText (l := xs), mem_insertText]
    constructor
    · rintro ((h | h) | h)
      · exact Or.inr (Or.inl h)
      · exact Or.inl h
      · exact Or.inr (Or.inr h)
    · rintro (h | h | h)
      · exact Or.inl (Or.inr h)
      · exact Or.inl (Or.inl h)
      · exact Or.inr h

theorem mem_sortedSet {y : Text} {l : List Text} : y ∈ sortedSet l ↔ y ∈ l := by
  unfold sortedSet
  rw [mem_foldl_insertText]
  simp

theorem configs_mk (p r e ps rs l ch ex) :
    (PC.mk p r e ps rs l ch ex).configs = PC.mk p r e ps rs l ch ex :: configsL ch := by
  simp [PC.configs]

theorem mem_configsL {c : PC} : ∀ {l : List PC}, c ∈ configsL l ↔ ∃ x ∈ l, c ∈ x.configs
  | [] => by simp [TC.configsL]
  | y :: ys => by
    simp only [TC.configsL, List.mem_append, List.mem_cons, exists_eq_or_imp]
    rw [mem_configsL (l := ys)]

theorem self_mem_configs (c : PC) : c ∈ c.configs := by
  obtain ⟨p, r, e, ps, rs, l, ch, ex⟩ := c
  rw [configs_mk]; exact List.mem_cons_self

/-- `configs` only follows the includes: every config of `pc.configs` is a node of the graph -/
theorem configs_sub_nodes : ∀ (pc : PC) (c : PC), c ∈ pc.configs → c ∈ pc.nodes
  | .mk p r e ps rs l ch ex, c, h => by
    rw [configs_mk] at h
    rw [nodes_mk]
    rcases List.mem_cons.1 h with rfl | h
    · exact List.mem_cons_self
    · refine List.mem_cons_of_mem _ (List.mem_append_left _ ?_)
      obtain ⟨x, hx, hcx⟩ := mem_configsL.1 h
      exact mem_nodesL.2 ⟨x, hx, configs_sub_nodes x c hcx⟩
termination_by pc => sizeOf pc
decreasing_by
  simp_wf
  have := List.sizeOf_lt_of_mem hx
  omega

/-- **`all_locales`** = the config's own `locales`, those of its path rules, and `all_locales` of every INCLUDED config;
    the excludes contribute nothing -/
theorem mem_allLocales (pc : PC) (l : Text) :
    l ∈ pc.allLocales ↔ l ∈ ownLocales pc ∨ ∃ ch ∈ pc.children, l ∈ ch.allLocales := by
  obtain ⟨p, r, e, ps, rs, ls, ch, ex⟩ := pc
  unfold PC.allLocales
  rw [mem_sortedSet, configs_mk, List.flatMap_cons, List.mem_append]
  refine or_congr Iff.rfl ?_
  simp only [List.mem_flatMap, PC.children]
  constructor
  · rintro ⟨c, hc, hl⟩
    obtain ⟨x, hx, hcx⟩ := mem_configsL.1 hc
    exact ⟨x, hx, mem_sortedSet.2 (List.mem_flatMap.2 ⟨c, hcx, hl⟩)⟩
  · rintro ⟨x, hx, hl⟩
    obtain ⟨c, hcx, hl⟩ := List.mem_flatMap.1 (mem_sortedSet.1 hl)
    exact ⟨c, mem_configsL.2 ⟨x, hx, hcx⟩, hl⟩

/-! ### the trees handed to `ProjectFilesM` -/

/-- the locale test of `all_locales` on one `PF.Config` -/
def hasLoc (loc : Loc) (c : Config) : Bool :=
  optHas c.locales loc || c.paths.any fun p => optHas p.locales loc

theorem rulesOf_locales (md : Mode) (root : Option Text) (environ : Env) : ∀ (ps : List PathD) (n : Nat),
    (rulesOf md root environ ps n).2.map (·.locales) = ps.map (·.locales)
  | [], _ => by simp [rulesOf]
  | d :: ds, n => by
    simp only [rulesOf, List.map_cons, rulesOf_locales md root environ ds]
    simp [pathSpecs]

theorem optHas_iff {ls : Option (List Loc)} {loc : Loc} :
    optHas ls loc = true ↔ loc ∈ (match ls with | some l => l | none => []) := by
  cases ls <;> simp [optHas]

theorem hasLoc_mk {loc : Loc} {id : Nat} {locales : Option (List Loc)} {rs : List PathRule} {ch ex : List Config}
    {p r e ps rls c x} (h : rs.map (·.locales) = ps.map (·.locales)) :
    hasLoc loc (Config.mk id locales rs ch ex) = true ↔ loc ∈ ownLocales (PC.mk p r e ps rls locales c x) := by
  unfold hasLoc ownLocales
  simp only [Config.locales, Config.paths, PC.locales, PC.paths, Bool.or_eq_true, List.mem_append, optHas_iff]
  refine or_congr Iff.rfl ?_
  rw [List.any_eq_true, List.mem_flatMap]
  constructor
  · rintro ⟨pr, hpr, hl⟩
    have : pr.locales ∈ rs.map (·.locales) := List.mem_map.2 ⟨pr, hpr, rfl⟩
    rw [h] at this
    obtain ⟨d, hd, e⟩ := List.mem_map.1 this
    exact ⟨d, hd, by rw [e]; exact optHas_iff.1 hl⟩
  · rintro ⟨d, hd, hl⟩
    have : d.locales ∈ ps.map (·.locales) := List.mem_map.2 ⟨d, hd, rfl⟩
    rw [← h] at this
    obtain ⟨pr, hpr, e⟩ := List.mem_map.1 this
    exact ⟨pr, hpr, optHas_iff.2 (by rw [e]; exact hl)⟩

theorem pf_configs_mk (id ls rs ch ex) :
    (Config.mk id ls rs ch ex).configs = Config.mk id ls rs ch ex :: PF.configsL ch := by
  simp [Config.configs]

mutual
theorem toCfg_hasLoc (md : Mode) (ids : List (Option Text)) (loc : Loc) : ∀ (pc : PC) (n : Nat),
    ((toCfg md ids pc n).2.configs.any (hasLoc loc) = true) ↔ ∃ c ∈ pc.configs, loc ∈ ownLocales c
  | .mk p root environ paths rules locales ch ex, n => by
    have ih := toCfgL_hasLoc md ids loc ch (n + (rulesOf md root environ paths n).1.length)
    simp only [toCfg, pf_configs_mk, configs_mk, List.any_cons, Bool.or_eq_true, List.mem_cons, exists_eq_or_imp]
    rw [ih, hasLoc_mk (rulesOf_locales md root environ paths n)]
theorem toCfgL_hasLoc (md : Mode) (ids : List (Option Text)) (loc : Loc) : ∀ (pcs : List PC) (n : Nat),
    ((PF.configsL (toCfgL md ids pcs n).2).any (hasLoc loc) = true) ↔ ∃ c ∈ TC.configsL pcs, loc ∈ ownLocales c
  | [], _ => by simp [toCfgL, PF.configsL, TC.configsL]
  | c :: cs, n => by
    have h1 := toCfg_hasLoc md ids loc c n
    have h2 := toCfgL_hasLoc md ids loc cs (n + (toCfg md ids c n).1.length)
    simp only [toCfgL, PF.configsL, TC.configsL, List.any_append, Bool.or_eq_true, List.mem_append]
    rw [h1, h2]
    constructor
    · rintro (⟨x, hx, hl⟩ | ⟨x, hx, hl⟩)
      · exact ⟨x, Or.inl hx, hl⟩
      · exact ⟨x, Or.inr hx, hl⟩
    · rintro ⟨x, hx | hx, hl⟩
      · exact Or.inl ⟨x, hx, hl⟩
      · exact Or.inr ⟨x, hx, hl⟩
end

/-- the project gate of `ProjectFiles.__init__` (`locale in project.all_locales`) on the tree handed to `ProjectFilesM`
    is membership in `all_locales` of the parsed `ProjectConfig` -/
theorem inAllLocales_toCfg (md : Mode) (ids : List (Option Text)) (pc : PC) (n : Nat) (loc : Loc) :
    inAllLocales (toCfg md ids pc n).2 loc = true ↔ loc ∈ pc.allLocales := by
  have h := toCfg_hasLoc md ids loc pc n
  unfold inAllLocales
  unfold hasLoc at h
  rw [h]
  unfold PC.allLocales
  rw [mem_sortedSet, List.mem_flatMap]

theorem mem_rulesOf (md : Mode) (root : Option Text) (environ : Env) : ∀ (ps : List PathD) (n : Nat) (pr : PathRule),
    pr ∈ (rulesOf md root environ ps n).2 → ∃ d ∈ ps, ∃ k, pr = (pathSpecs md root environ d k).2
  | [], _, pr, h => by simp [rulesOf] at h
  | d :: ds, n, pr, h => by
    simp only [rulesOf, List.mem_cons] at h
    rcases h with rfl | h
    · exact ⟨d, List.mem_cons_self, n, rfl⟩
    · obtain ⟨d', hd', k, e⟩ := mem_rulesOf md root environ ds _ pr h
      exact ⟨d', List.mem_cons_of_mem _ hd', k, e⟩

theorem toCfg_paths (md : Mode) (ids : List (Option Text)) (c : PC) (m : Nat) (pr : PathRule)
    (h : pr ∈ (toCfg md ids c m).2.paths) : ∃ d ∈ c.paths, ∃ k, pr = (pathSpecs md c.root c.environ d k).2 := by
  obtain ⟨p, root, environ, paths, rules, locales, ch, ex⟩ := c
  simp only [toCfg, Config.paths] at h
  exact mem_rulesOf md root environ paths m pr h

theorem toCfg_locales (md : Mode) (ids : List (Option Text)) (c : PC) (m : Nat) :
    (toCfg md ids c m).2.locales = c.locales := by
  obtain ⟨p, root, environ, paths, rules, locales, ch, ex⟩ := c
  simp [toCfg, Config.locales, PC.locales]

mutual
theorem toCfg_configs (md : Mode) (ids : List (Option Text)) : ∀ (pc : PC) (n : Nat) (cfg : Config),
    cfg ∈ (toCfg md ids pc n).2.configs → ∃ c ∈ pc.configs, ∃ m, cfg = (toCfg md ids c m).2
  | .mk p root environ paths rules locales ch ex, n, cfg, h => by
    simp only [toCfg, pf_configs_mk, List.mem_cons] at h
    rw [configs_mk]
    rcases h with rfl | h
    · exact ⟨_, List.mem_cons_self, n, by simp [toCfg]⟩
    · obtain ⟨c, hc, m, e⟩ := toCfgL_configs md ids ch _ cfg h
      exact ⟨c, List.mem_cons_of_mem _ hc, m, e⟩
theorem toCfgL_configs (md : Mode) (ids : List (Option Text)) : ∀ (pcs : List PC) (n : Nat) (cfg : Config),
    cfg ∈ PF.configsL (toCfgL md ids pcs n).2 → ∃ c ∈ TC.configsL pcs, ∃ m, cfg = (toCfg md ids c m).2
  | [], _, cfg, h => by simp [toCfgL, PF.configsL] at h
  | x :: xs, n, cfg, h => by
    simp only [toCfgL, PF.configsL, List.mem_append] at h
    simp only [TC.configsL, List.mem_append]
    rcases h with h | h
    · obtain ⟨c, hc, m, e⟩ := toCfg_configs md ids x n cfg h
      exact ⟨c, Or.inl hc, m, e⟩
    · obtain ⟨c, hc, m, e⟩ := toCfgL_configs md ids xs _ cfg h
      exact ⟨c, Or.inr hc, m, e⟩
end

theorem mem_toCfgL (md : Mode) (ids : List (Option Text)) : ∀ (pcs : List PC) (n : Nat) (cfg : Config),
    cfg ∈ (toCfgL md ids pcs n).2 → ∃ pc ∈ pcs, ∃ m, cfg = (toCfg md ids pc m).2
  | [], _, cfg, h => by simp [toCfgL] at h
  | x :: xs, n, cfg, h => by
    simp only [toCfgL, List.mem_cons] at h
    rcases h with rfl | h
    · exact ⟨x, List.mem_cons_self, n, rfl⟩
    · obtain ⟨pc, hpc, m, e⟩ := mem_toCfgL md ids xs _ cfg h
      exact ⟨pc, List.mem_cons_of_mem _ hpc, m, e⟩

theorem parseAll_mem {w : World} {env : Env} {ig : Bool} : ∀ {configs : List Text} {pcs : List PC},
    parseAll w env ig configs = .ok pcs → ∀ pc ∈ pcs, ∃ p ∈ configs, parse w env ig p = .ok pc
  | [], pcs, h => by
    simp only [parseAll, Except.ok.injEq] at h
    subst h
    intro pc hpc; cases hpc
  | p :: ps, pcs, h => by
    unfold parseAll at h
    split at h
    · cases h
    · rename_i c hc
      split at h
      · cases h
      · rename_i cs hcs
        simp only [Except.ok.injEq] at h
        subst h
        intro pc hpc
        rcases List.mem_cons.1 hpc with rfl | hpc
        · exact ⟨p, List.mem_cons_self, hc⟩
        · obtain ⟨q, hq, e⟩ := parseAll_mem hcs pc hpc
          exact ⟨q, List.mem_cons_of_mem _ hq, e⟩

theorem projectFiles_ok {w : World} {env : Env} {ig : Bool} {configs : List Text} {locale : Option Loc}
    {mb : Option Text} {o : PFM.Obj} (h : projectFiles w env ig configs locale mb = .ok o) :
    ∃ pcs, parseAll w env ig configs = .ok pcs ∧
      PFM.newM (toPFM { locale := locale, mergebase := mb, cwd := w.cwd } pcs).1 locale
        (toPFM { locale := locale, mergebase := mb, cwd := w.cwd } pcs).2 mb.isSome = .ok o := by
  unfold projectFiles at h
  split at h
  · cases h
  · rename_i pcs hpcs
    simp only at h
    split at h
    · cases h
    · rename_i o' ho'
      simp only [Except.ok.injEq] at h
      subst h
      exact ⟨pcs, hpcs, ho'⟩

theorem enumerate_ok {w : World} {env : Env} {ig : Bool} {configs : List Text} {locale : Option Loc}
    {mb : Option Text} {fs : FS} {its : List Item} (h : enumerate w env ig configs locale mb fs = .ok its) :
    ∃ o, projectFiles w env ig configs locale mb = .ok o ∧ its = o.pf.iter o.env fs := by
  unfold enumerate at h
  split at h
  · cases h
  · rename_i o ho
    split at h
    · cases h
    · rename_i its' hits
      simp only [Except.ok.injEq] at h
      subst h
      exact ⟨o, ho, PFM.iterM_ok hits⟩

/-! ### where the matchers of a rule sit in the table -/

/-- the specs `ss` sit in the table `tbl` from index `k` on -/
def Located (tbl : List PFM.MSpec) (k : Nat) (ss : List PFM.MSpec) : Prop :=
  ∃ pre post, tbl = pre ++ ss ++ post ∧ pre.length = k

theorem Located.get {tbl : List PFM.MSpec} {k : Nat} {ss : List PFM.MSpec} (h : Located tbl k ss) (i : Nat) (s : PFM.MSpec)
    (hs : ss[i]? = some s) : tbl[k + i]? = some s := by
  obtain ⟨pre, post, rfl, rfl⟩ := h
  rw [List.append_assoc, List.getElem?_append_right (by omega)]
  have : pre.length + i - pre.length = i := by omega
  rw [this, List.getElem?_append_left]
  · exact hs
  · cases Nat.lt_or_ge i ss.length with
    | inl h => exact h
    | inr h =>
      rw [List.getElem?_eq_none h] at hs
      cases hs

theorem located_mid {tbl pre a b post : List PFM.MSpec} {n : Nat} (h : tbl = pre ++ (a ++ b) ++ post) (hn : pre.length = n) :
    (tbl = pre ++ a ++ (b ++ post) ∧ pre.length = n) ∧ (tbl = (pre ++ a) ++ b ++ post ∧ (pre ++ a).length = n + a.length) := by
  subst h
  refine ⟨⟨by simp [List.append_assoc], hn⟩, by simp [List.append_assoc], by simp [hn]⟩

/-- a rule of the tree and the place of its matchers in the table -/
def RuleAt (md : Mode) (tbl : List PFM.MSpec) (c : PC) (pr : PathRule) : Prop :=
  ∃ d ∈ c.paths, ∃ k, pr = (pathSpecs md c.root c.environ d k).2 ∧ Located tbl k (pathSpecs md c.root c.environ d k).1

theorem rulesOf_located (md : Mode) (root : Option Text) (environ : Env) (tbl : List PFM.MSpec) :
    ∀ (ps : List PathD) (n : Nat) (pre post : List PFM.MSpec),
      tbl = pre ++ (rulesOf md root environ ps n).1 ++ post → pre.length = n →
      ∀ pr ∈ (rulesOf md root environ ps n).2, ∃ d ∈ ps, ∃ k, pr = (pathSpecs md root environ d k).2 ∧
        Located tbl k (pathSpecs md root environ d k).1
  | [], _, _, _, _, _, pr, h => by simp [rulesOf] at h
  | d :: ds, n, pre, post, htbl, hn, pr, h => by
    simp only [rulesOf] at htbl h
    obtain ⟨⟨h1, h1n⟩, ⟨h2, h2n⟩⟩ := located_mid htbl hn
    rcases List.mem_cons.1 h with rfl | h
    · exact ⟨d, List.mem_cons_self, n, rfl, pre, _, h1, h1n⟩
    · obtain ⟨d', hd', k, e, hl⟩ := rulesOf_located md root environ tbl ds _ _ _ h2 h2n pr h
      exact ⟨d', List.mem_cons_of_mem _ hd', k, e, hl⟩

mutual
/-- every `PF.Config` below a config: the config, its children's and its excludes' -/
def cfgNodes : Config → List Config
  | .mk p l ps ch ex => .mk p l ps ch ex :: (cfgNodesL ch ++ cfgNodesL ex)
def cfgNodesL : List Config → List Config
  | [] => []
  | c :: cs => cfgNodes c ++ cfgNodesL cs
end

mutual
theorem toCfg_located (md : Mode) (ids : List (Option Text)) (tbl : List PFM.MSpec) :
    ∀ (pc : PC) (n : Nat) (pre post : List PFM.MSpec),
      tbl = pre ++ (toCfg md ids pc n).1 ++ post → pre.length = n →
      ∀ cfg ∈ cfgNodes (toCfg md ids pc n).2, ∀ pr ∈ cfg.paths, ∃ c ∈ pc.nodes, RuleAt md tbl c pr
  | .mk p root environ paths rules locales ch ex, n, pre, post, htbl, hn, cfg, hcfg, pr, hpr => by
    simp only [toCfg] at htbl hcfg
    rw [nodes_mk]
    -- the three segments: own rules, children, excludes
    have e1 : tbl = pre ++ ((rulesOf md root environ paths n).1 ++
        ((toCfgL md ids ch (n + (rulesOf md root environ paths n).1.length)).1 ++
         (toCfgL md ids ex (n + (rulesOf md root environ paths n).1.length +
            (toCfgL md ids ch (n + (rulesOf md root environ paths n).1.length)).1.length)).1)) ++ post := by
      rw [htbl]; simp [List.append_assoc]
    obtain ⟨⟨h1, h1n⟩, ⟨h2, h2n⟩⟩ := located_mid e1 hn
    obtain ⟨⟨h3, h3n⟩, ⟨h4, h4n⟩⟩ := located_mid h2 h2n
    simp only [cfgNodes, List.mem_cons, List.mem_append] at hcfg
    rcases hcfg with rfl | hcfg | hcfg
    · simp only [Config.paths] at hpr
      obtain ⟨d, hd, k, e, hl⟩ := rulesOf_located md root environ tbl paths n pre _ h1 h1n pr hpr
      exact ⟨_, List.mem_cons_self, d, hd, k, e, hl⟩
    · obtain ⟨c, hc, hr⟩ := toCfgL_located md ids tbl ch _ _ _ h3 h3n cfg hcfg pr hpr
      exact ⟨c, List.mem_cons_of_mem _ (List.mem_append_left _ hc), hr⟩
    · obtain ⟨c, hc, hr⟩ := toCfgL_located md ids tbl ex _ _ _ h4 (by rw [h4n]) cfg hcfg pr hpr
      exact ⟨c, List.mem_cons_of_mem _ (List.mem_append_right _ hc), hr⟩
theorem toCfgL_located (md : Mode) (ids : List (Option Text)) (tbl : List PFM.MSpec) :
    ∀ (pcs : List PC) (n : Nat) (pre post : List PFM.MSpec),
      tbl = pre ++ (toCfgL md ids pcs n).1 ++ post → pre.length = n →
      ∀ cfg ∈ cfgNodesL (toCfgL md ids pcs n).2, ∀ pr ∈ cfg.paths, ∃ c ∈ nodesL pcs, RuleAt md tbl c pr
  | [], _, _, _, _, _, cfg, hcfg, _, _ => by simp [toCfgL, cfgNodesL] at hcfg
  | x :: xs, n, pre, post, htbl, hn, cfg, hcfg, pr, hpr => by
    simp only [toCfgL] at htbl hcfg
    obtain ⟨⟨h1, h1n⟩, ⟨h2, h2n⟩⟩ := located_mid htbl hn
    simp only [cfgNodesL, List.mem_append] at hcfg
    simp only [nodesL, List.mem_append]
    rcases hcfg with hcfg | hcfg
    · obtain ⟨c, hc, hr⟩ := toCfg_located md ids tbl x n pre _ h1 h1n cfg hcfg pr hpr
      exact ⟨c, Or.inl hc, hr⟩
    · obtain ⟨c, hc, hr⟩ := toCfgL_located md ids tbl xs _ _ _ h2 h2n cfg hcfg pr hpr
      exact ⟨c, Or.inr hc, hr⟩
end

/-- in the table `toPFM` builds, every path rule of every config of the trees (included or excluded) names the matchers
    derived from ITS `[[paths]]` entry of ITS `ProjectConfig` -/
theorem toPFM_located (md : Mode) (pcs : List PC) :
    ∀ cfg ∈ cfgNodesL (toPFM md pcs).2, ∀ pr ∈ cfg.paths, ∃ c ∈ nodesL pcs, RuleAt md (toPFM md pcs).1 c pr :=
  toCfgL_located md (allPathsL pcs) (toPFM md pcs).1 pcs 0 [] [] (by simp [toPFM]) rfl

mutual
theorem toCfg_located_configs (md : Mode) (ids : List (Option Text)) (tbl : List PFM.MSpec) :
    ∀ (pc : PC) (n : Nat) (pre post : List PFM.MSpec),
      tbl = pre ++ (toCfg md ids pc n).1 ++ post → pre.length = n →
      ∀ cfg ∈ (toCfg md ids pc n).2.configs, ∀ pr ∈ cfg.paths,
        ∃ c ∈ pc.configs, cfg.locales = c.locales ∧ RuleAt md tbl c pr
  | .mk p root environ paths rules locales ch ex, n, pre, post, htbl, hn, cfg, hcfg, pr, hpr => by
    simp only [toCfg] at htbl hcfg
    rw [configs_mk]
    have e1 : tbl = pre ++ ((rulesOf md root environ paths n).1 ++
        ((toCfgL md ids ch (n + (rulesOf md root environ paths n).1.length)).1 ++
         (toCfgL md ids ex (n + (rulesOf md root environ paths n).1.length +
            (toCfgL md ids ch (n + (rulesOf md root environ paths n).1.length)).1.length)).1)) ++ post := by
      rw [htbl]; simp [List.append_assoc]
    obtain ⟨⟨h1, h1n⟩, ⟨h2, h2n⟩⟩ := located_mid e1 hn
    obtain ⟨⟨h3, h3n⟩, _⟩ := located_mid h2 h2n
    rw [pf_configs_mk] at hcfg
    rcases List.mem_cons.1 hcfg with rfl | hcfg
    · simp only [Config.paths] at hpr
      obtain ⟨d, hd, k, e, hl⟩ := rulesOf_located md root environ tbl paths n pre _ h1 h1n pr hpr
      exact ⟨_, List.mem_cons_self, rfl, d, hd, k, e, hl⟩
    · obtain ⟨c, hc, hr⟩ := toCfgL_located_configs md ids tbl ch _ _ _ h3 h3n cfg hcfg pr hpr
      exact ⟨c, List.mem_cons_of_mem _ hc, hr⟩
theorem toCfgL_located_configs (md : Mode) (ids : List (Option Text)) (tbl : List PFM.MSpec) :
    ∀ (pcs : List PC) (n : Nat) (pre post : List PFM.MSpec),
      tbl = pre ++ (toCfgL md ids pcs n).1 ++ post → pre.length = n →
      ∀ cfg ∈ PF.configsL (toCfgL md ids pcs n).2, ∀ pr ∈ cfg.paths,
        ∃ c ∈ TC.configsL pcs, cfg.locales = c.locales ∧ RuleAt md tbl c pr
  | [], _, _, _, _, _, cfg, hcfg, _, _ => by simp [toCfgL, PF.configsL] at hcfg
  | x :: xs, n, pre, post, htbl, hn, cfg, hcfg, pr, hpr => by
    simp only [toCfgL] at htbl hcfg
    obtain ⟨⟨h1, h1n⟩, ⟨h2, h2n⟩⟩ := located_mid htbl hn
    simp only [PF.configsL, List.mem_append] at hcfg
    simp only [TC.configsL, List.mem_append]
    rcases hcfg with hcfg | hcfg
    · obtain ⟨c, hc, hr⟩ := toCfg_located_configs md ids tbl x n pre _ h1 h1n cfg hcfg pr hpr
      exact ⟨c, Or.inl hc, hr⟩
    · obtain ⟨c, hc, hr⟩ := toCfgL_located_configs md ids tbl xs _ _ _ h2 h2n cfg hcfg pr hpr
      exact ⟨c, Or.inr hc, hr⟩
end

/-- a project of the list handed to `ProjectFilesM`, one of its configs (reached through includes), one of its rules:
    the `ProjectConfig`, the `[[paths]]` entry and the place in the table -/
theorem toPFM_rule_origin (md : Mode) : ∀ (pcs : List PC) (n : Nat) (pre post : List PFM.MSpec) (tbl : List PFM.MSpec),
    tbl = pre ++ (toCfgL md ids pcs n).1 ++ post → pre.length = n →
    ∀ project ∈ (toCfgL md ids pcs n).2, ∀ cfg ∈ project.configs, ∀ pr ∈ cfg.paths,
      ∃ pc ∈ pcs, (∃ m, project = (toCfg md ids pc m).2) ∧ ∃ c ∈ pc.configs, cfg.locales = c.locales ∧ RuleAt md tbl c pr
  | [], _, _, _, _, _, _, project, hp, _, _, _, _ => by simp [toCfgL] at hp
  | x :: xs, n, pre, post, tbl, htbl, hn, project, hp, cfg, hcfg, pr, hpr => by
    simp only [toCfgL] at htbl hp
    obtain ⟨⟨h1, h1n⟩, ⟨h2, h2n⟩⟩ := located_mid htbl hn
    rcases List.mem_cons.1 hp with rfl | hp
    · obtain ⟨c, hc, hr⟩ := toCfg_located_configs md ids tbl x n pre _ h1 h1n cfg hcfg pr hpr
      exact ⟨x, List.mem_cons_self, ⟨n, rfl⟩, c, hc, hr⟩
    · obtain ⟨pc, hpc, hm, hr⟩ := toPFM_rule_origin md xs _ _ _ tbl h2 h2n project hp cfg hcfg pr hpr
      exact ⟨pc, List.mem_cons_of_mem _ hpc, hm, hr⟩

/-! ### the ids are those of the table: `newM` never answers `badId` -/

theorem ruleIdsOk_of_ruleAt {md : Mode} {tbl : List PFM.MSpec} {c : PC} {pr : PathRule} (h : RuleAt md tbl c pr) :
    PFM.ruleIdsOk tbl.length pr = true := by
  obtain ⟨d, _, k, rfl, pre, post, rfl, hk⟩ := h
  unfold PFM.ruleIdsOk pathSpecs
  cases hr : d.reference <;> cases hm : md.mergebase <;> cases hl : md.locale <;>
    simp [hk] <;> (try simp only [PF.MId]) <;> first | omega | (refine ⟨?_, ?_⟩ <;> first | omega | (show (_ : Nat) < (_ : Nat); omega)) | (show (_ : Nat) < (_ : Nat); omega) | trace_state

mutual
theorem idsOk_of_nodes (n : Nat) : ∀ (c : Config),
    (∀ cfg ∈ cfgNodes c, ∀ pr ∈ cfg.paths, PFM.ruleIdsOk n pr = true) → PFM.idsOk n c = true
  | .mk p l ps ch ex, h => by
    simp only [PFM.idsOk, Bool.and_eq_true, List.all_eq_true]
    refine ⟨⟨fun pr hpr => h (.mk p l ps ch ex) (by simp [cfgNodes]) pr hpr, ?_⟩, ?_⟩
    · exact idsOkL_of_nodes n ch (fun cfg hcfg => h cfg (by simp [cfgNodes, hcfg]))
    · exact idsOkL_of_nodes n ex (fun cfg hcfg => h cfg (by simp [cfgNodes, hcfg]))
theorem idsOkL_of_nodes (n : Nat) : ∀ (cs : List Config),
    (∀ cfg ∈ cfgNodesL cs, ∀ pr ∈ cfg.paths, PFM.ruleIdsOk n pr = true) → PFM.idsOkL n cs = true
  | [], _ => by simp [PFM.idsOkL]
  | c :: cs, h => by
    simp only [PFM.idsOkL, Bool.and_eq_true]
    exact ⟨idsOk_of_nodes n c (fun cfg hcfg => h cfg (by simp [cfgNodesL, hcfg])),
      idsOkL_of_nodes n cs (fun cfg hcfg => h cfg (by simp [cfgNodesL, hcfg]))⟩
end

theorem toPFM_idsOk (md : Mode) (pcs : List PC) :
    PFM.idsOkL (toPFM md pcs).1.length (toPFM md pcs).2 = true :=
  idsOkL_of_nodes _ _ (fun cfg hcfg pr hpr => by
    obtain ⟨c, _, hr⟩ := toPFM_located md pcs cfg hcfg pr hpr
    exact ruleIdsOk_of_ruleAt hr)

/-- what `RuleAt` says about the table: the rule's l10n id holds `Matcher(d.l10n, env=c.environ, root=c.root)` bound to the
    locale, its reference id (present iff the table has a `reference`) holds `Matcher(d.reference, env=c.environ, root=c.root)` -/
theorem ruleAt_specs {md : Mode} {tbl : List PFM.MSpec} {c : PC} {pr : PathRule} (h : RuleAt md tbl c pr) :
    ∃ d ∈ c.paths, pr.locales = d.locales ∧ pr.test = d.test.map (fun ts => ts.map PFM.encode) ∧
      tbl[pr.l10n]? = some (l10nSpec md c.root c.environ d.l10n) ∧
      (match d.reference with
       | some t => ∃ r, pr.reference = some r ∧ tbl[r]? = some (refSpec md c.root c.environ t)
       | none => pr.reference = none) := by
  obtain ⟨d, hd, k, rfl, hl⟩ := h
  refine ⟨d, hd, rfl, rfl, ?_, ?_⟩
  · have := hl.get 0 (l10nSpec md c.root c.environ d.l10n) (by simp [pathSpecs])
    simpa [pathSpecs] using this
  · cases hr : d.reference with
    | none => simp [pathSpecs, hr]
    | some t =>
      refine ⟨k + 1, by simp [pathSpecs, hr], ?_⟩
      exact hl.get 1 (refSpec md c.root c.environ t) (by simp [pathSpecs, hr])

end C13T

/-
C17 helper lemmas, part 4 (round 4): the linter model (`Lint/Linter.lean`, C19) has its own transliteration of
`Context.linecol` (line ends by a scan, `bisectStart`); it is the same function as `Pos.linecol` for EVERY position
(also negative ones and positions beyond the text), so everything proved about `Pos.linecol` holds for the
line/column members of lint results.
-/
import CLModel.Proofs.C17Formula
import CLModel.Proofs.C19
namespace C17P
open Pos

theorem lint_lineEnds_eq (l : List Nat) : ∀ i, Lint.lineEndsFrom i l = lineEndsL l i := by
  induction l with
  | nil => intro i; rfl
  | cons c t ih =>
    intro i
    simp only [Lint.lineEndsFrom, lineEndsL, ih]
    by_cases hc : c = 10 <;> simp [hc]

/-- `bisectStart` on a strictly increasing list = (`bisect`, the element before the insertion point) -/
theorem bisectStart_eq : ∀ (l : List Nat) (x : Int) (st : Nat), l.Pairwise (· < ·) →
    Lint.bisectStart l x st =
      (bisect l x, match (if bisect l x != 0 then l[bisect l x - 1]? else some st) with | some v => v | none => st) := by
  intro l
  induction l with
  | nil => intro x st _; simp [Lint.bisectStart, bisect]
  | cons a t ih =>
    intro x st hs
    have hs' := (List.pairwise_cons.mp hs)
    by_cases hle : (a : Int) ≤ x
    · have hb : bisect (a :: t) x = bisect t x + 1 := by
        simp [bisect, hle]
      simp only [Lint.bisectStart, hle, if_true]
      rw [ih x a hs'.2, hb]
      simp only [Nat.add_sub_cancel, bne_iff_ne, ne_eq, Nat.add_eq_zero_iff, Nat.one_ne_zero, and_false,
        not_false_eq_true, if_true]
      congr 1
      by_cases h0 : bisect t x = 0
      · simp [h0]
      · have : (a :: t)[bisect t x]? = t[bisect t x - 1]? := by
          obtain ⟨k, hk⟩ : ∃ k, bisect t x = k + 1 := ⟨bisect t x - 1, by omega⟩
          rw [hk]; simp
        simp only [h0, not_false_eq_true, if_true, this]
        have hlt : bisect t x - 1 < t.length := by
          have : bisect t x ≤ t.length := by
            unfold bisect; exact List.length_filter_le _ _
          omega
        simp [List.getElem?_eq_getElem hlt]
    · have hall : ∀ e ∈ t, ¬ ((e : Int) ≤ x) := by
        intro e he
        have := hs'.1 e he
        omega
      have hb : bisect (a :: t) x = 0 := by
        unfold bisect
        rw [List.length_eq_zero_iff, List.filter_eq_nil_iff]
        intro e he
        rcases List.mem_cons.mp he with rfl | h
        · simpa using hle
        · simpa using hall e h
      simp [Lint.bisectStart, hle, hb]

/-- the linter's `linecol` is `Pos.linecol`, for every position -/
theorem lint_linecol_eq (s : Array Nat) (x : Int) :
    some (Lint.linecol (Lint.lineEnds s.toList) x) = linecol s x := by
  have hl : Lint.lineEnds s.toList = lineEnds s := by
    rw [lineEnds_eq]; exact lint_lineEnds_eq _ 0
  have hsorted : (lineEnds s).Pairwise (· < ·) := by rw [lineEnds_eq]; exact lineEndsL_sorted _ _
  unfold Lint.linecol linecol
  rw [hl, bisectStart_eq _ x 0 hsorted]
  simp only
  by_cases h0 : bisect (lineEnds s) x = 0
  · simp [h0]
  · have hlt : bisect (lineEnds s) x - 1 < (lineEnds s).length := by
      have : bisect (lineEnds s) x ≤ (lineEnds s).length := by
        unfold bisect; exact List.length_filter_le _ _
      omega
    simp [h0, List.getElem?_eq_getElem hlt]

/-- `Lint.position` of an entry with spans = `Pos.position` of the parser entry with the same span -/
theorem lint_position_eq (s : Array Nat) (e : Lint.Ent) (pe : P.Entry) (hm : e.mode ≠ .node)
    (hs : e.s = pe.s) (he : e.e = pe.e) (off : Int) :
    some (Lint.position (Lint.lineEnds s.toList) e off) = position s pe off := by
  unfold Lint.position position
  cases hmode : e.mode
  · simp only [hs, he]; exact lint_linecol_eq s _
  · simp only [hs, he]; exact lint_linecol_eq s _
  · simp only [hs, he]; exact lint_linecol_eq s _
  · exact absurd hmode hm

/-- the position of an entry with spans, at offset 0, is the cursor at its start -/
theorem lint_position_zero (s : Array Nat) (e : Lint.Ent) (hm : e.mode ≠ .node) :
    Lint.position (Lint.lineEnds s.toList) e 0 = castLC (cursor s e.s) := by
  have h := lint_position_eq s e { kind := .entity, full := e.s, s := e.s, e := e.e } hm rfl rfl 0
  rw [show position s { kind := .entity, full := e.s, s := e.s, e := e.e } 0 = some (castLC (cursor s e.s)) by
    unfold position; simpa using linecol_nat s e.s] at h
  exact Option.some.inj h

theorem lint_position_end (s : Array Nat) (e : Lint.Ent) (hm : e.mode ≠ .node) (off : Int) (ho : off < 0) :
    Lint.position (Lint.lineEnds s.toList) e off = castLC (cursor s e.e) := by
  have h := lint_position_eq s e { kind := .entity, full := e.s, s := e.s, e := e.e } hm rfl rfl off
  rw [show position s { kind := .entity, full := e.s, s := e.s, e := e.e } off = some (castLC (cursor s e.e)) by
    unfold position; simpa [ho] using linecol_nat s e.e] at h
  exact Option.some.inj h

end C17P

/-
The contract `C10P.CompareRuns` holds for the world the driver uses (CLModel/Compare/ProjectsPipe.lean): whatever the
composed pipeline model of `ContentComparer.compare` (C05, `Pipe.compareParsed`) does to the observers is a run of
`error` / `warning` / `missingEntity` / `obsoleteEntity` notifications for the localized file followed by one
`updateStats` call without an `errors` entry; the two `readFile` failures are one `error` for that file.
Core Lean only.
-/
import CLModel.Compare.ProjectsPipe
import CLModel.Proofs.C10Proj
namespace C10P
open TreeM ObsM ProjM

/-- events about one file, none of them a file notification -/
def EvsFor (f : File) (evs : List Ev) : Prop := ∀ ev ∈ evs, ev.file = f ∧ isFileEv ev = false

theorem EvsFor.nil (f : File) : EvsFor f [] := by intro ev hev; cases hev

theorem EvsFor.append {f : File} {a b : List Ev} (ha : EvsFor f a) (hb : EvsFor f b) : EvsFor f (a ++ b) := by
  intro ev hev
  rcases List.mem_append.1 hev with h | h
  · exact ha ev h
  · exact hb ev h

theorem EvsFor.single {f : File} {cat : Cat} {d : Data} (hc : cat.isFile = false) : EvsFor f [.notify cat f d] := by
  intro ev hev
  simp only [List.mem_singleton] at hev
  subst hev
  exact ⟨rfl, hc⟩

/-- notifications only: no stats at all -/
def NotifyOnly (evs : List Ev) : Prop := ∀ ev ∈ evs, ∃ c f d, ev = .notify c f d

theorem NotifyOnly.noErrStats {evs : List Ev} (h : NotifyOnly evs) : NoErrStats evs := by
  intro ev hev
  obtain ⟨c, f, d, rfl⟩ := h ev hev
  trivial

theorem NotifyOnly.append {a b : List Ev} (ha : NotifyOnly a) (hb : NotifyOnly b) : NotifyOnly (a ++ b) := by
  intro ev hev
  rcases List.mem_append.1 hev with h | h
  · exact ha ev h
  · exact hb ev h

theorem NotifyOnly.single (c : Cat) (f : File) (d : Data) : NotifyOnly [.notify c f d] := by
  intro ev hev
  simp only [List.mem_singleton] at hev
  exact ⟨c, f, d, hev⟩

theorem NotifyOnly.nil : NotifyOnly [] := by intro ev hev; cases hev

/-- `Pipe.notify` is one notification for the localized file -/
theorem pipe_notify_run {env : Pipe.Env} {obs obs' : ObsList} {cat : Cat} {d : Data} {rv : Ret}
    (h : Pipe.notify env obs cat d = .ok (obs', rv)) : obs.run [.notify cat env.file d] = .ok obs' := by
  unfold Pipe.notify at h
  split at h
  · cases h
  · rename_i r hn
    injection h with h
    subst h
    exact notify_run hn

/-- a run of notifications for the localized file -/
def PipeRun (env : Pipe.Env) (obs obs' : ObsList) : Prop :=
  ∃ evs, obs.run evs = .ok obs' ∧ EvsFor env.file evs ∧ NotifyOnly evs

theorem PipeRun.refl (env : Pipe.Env) (obs : ObsList) : PipeRun env obs obs :=
  ⟨[], rfl, EvsFor.nil _, NotifyOnly.nil⟩

theorem PipeRun.trans {env : Pipe.Env} {a b c : ObsList} (h1 : PipeRun env a b) (h2 : PipeRun env b c) : PipeRun env a c := by
  obtain ⟨e1, r1, f1, n1⟩ := h1
  obtain ⟨e2, r2, f2, n2⟩ := h2
  exact ⟨e1 ++ e2, run_append _ _ _ _ _ r1 r2, f1.append f2, n1.append n2⟩

theorem PipeRun.of_notify {env : Pipe.Env} {obs obs' : ObsList} {cat : Cat} {d : Data} {rv : Ret}
    (hc : cat.isFile = false) (h : Pipe.notify env obs cat d = .ok (obs', rv)) : PipeRun env obs obs' :=
  ⟨_, pipe_notify_run h, EvsFor.single hc, NotifyOnly.single _ _ _⟩

theorem notifyDups_run {env : Pipe.Env} {cat : Cat} (hc : cat.isFile = false) :
    ∀ (l : List (Cmp.Key × Nat)) (obs obs' : ObsList), Pipe.notifyDups env cat l obs = .ok obs' → PipeRun env obs obs'
  | [], obs, obs', h => by
    simp only [Pipe.notifyDups, Except.ok.injEq] at h
    subst h
    exact PipeRun.refl _ _
  | (k, n) :: rest, obs, obs', h => by
    simp only [Pipe.notifyDups] at h
    split at h
    · cases h
    · rename_i o1 rv hn
      exact (PipeRun.of_notify hc hn).trans (notifyDups_run hc rest o1 obs' h)

theorem sevCat_notFile (s : Checks.Severity) : (Pipe.sevCat s).isFile = false := by cases s <;> rfl

theorem checkLoop_run {env : Pipe.Env} {refent l10nent : Pipe.PEnt} :
    ∀ (cs : List Pipe.CheckRes) (obs : ObsList) (skips : List Pipe.PEnt) (obs' : ObsList) (skips' : List Pipe.PEnt),
      Pipe.checkLoop env refent l10nent cs (obs, skips) = .ok (obs', skips') → PipeRun env obs obs'
  | [], obs, skips, obs', skips', h => by
    simp only [Pipe.checkLoop, Except.ok.injEq, Prod.mk.injEq] at h
    obtain ⟨h1, _⟩ := h
    subst h1
    exact PipeRun.refl _ _
  | c :: cs, obs, skips, obs', skips', h => by
    simp only [Pipe.checkLoop] at h
    split at h
    · cases h
    · split at h
      · cases h
      · rename_i o1 rv hn
        exact (PipeRun.of_notify (sevCat_notFile _) hn).trans (checkLoop_run cs o1 _ obs' skips' h)

theorem step_run {env : Pipe.Env} {ref l10n : List Pipe.PEnt} {st st' : Pipe.LoopSt} {p : AR.Label × Cmp.Key}
    (h : Pipe.step env ref l10n st p = .ok st') : PipeRun env st.obs st'.obs := by
  unfold Pipe.step at h
  simp only at h
  split at h
  · -- delete
    split at h
    · cases h
    · split at h
      · split at h
        · cases h
        · rename_i o1 rv hn
          injection h with h; subst h
          exact PipeRun.of_notify rfl hn
      · split at h
        · cases h
        · rename_i o1 rv hn
          split at h <;> (injection h with h; subst h; exact PipeRun.of_notify rfl hn)
  · -- add
    split at h
    · cases h
    · split at h
      · split at h
        · cases h
        · split at h
          · cases h
          · rename_i o1 rv hn
            injection h with h; subst h
            exact PipeRun.of_notify rfl hn
      · split at h
        · cases h
        · rename_i o1 rv hn
          split at h <;> (injection h with h; subst h; exact PipeRun.of_notify rfl hn)
  · -- equal
    split at h
    · cases h
    · cases h
    · split at h
      · cases h
      · split at h
        · cases h
        · split at h
          · cases h
          · rename_i o1 sk hcl
            injection h with h; subst h
            exact checkLoop_run _ _ _ _ _ hcl

theorem foldE_step_run {env : Pipe.Env} {ref l10n : List Pipe.PEnt} :
    ∀ (ar : List (AR.Label × Cmp.Key)) (st st' : Pipe.LoopSt),
      Pipe.foldE (Pipe.step env ref l10n) ar st = .ok st' → PipeRun env st.obs st'.obs
  | [], st, st', h => by
    simp only [Pipe.foldE, Except.ok.injEq] at h
    subst h
    exact PipeRun.refl _ _
  | p :: rest, st, st', h => by
    simp only [Pipe.foldE] at h
    split at h
    · cases h
    · rename_i st1 hs
      exact (step_run hs).trans (foldE_step_run rest st1 st' h)

/-- the stats dict of `compare` has no `errors` entry -/
theorem statsList_noErrors (s : Cmp.Stats) : ∀ kv ∈ Pipe.statsList s, kv.1 ≠ StatKey.errors := by
  intro kv hkv
  simp only [Pipe.statsList, Cmp.Stats.toDict, List.filterMap_cons, List.filterMap_nil] at hkv
  simp +decide [Pipe.statKeyOf, StatKey.all, StatKey.name] at hkv
  rcases hkv with rfl | rfl | rfl | rfl | rfl | rfl | rfl | rfl | rfl <;> simp

/-- `Pipe.compareParsed`: notifications for the localized file, then one `updateStats` without `errors` -/
theorem compareParsed_run {env : Pipe.Env} {ref l10n : List Pipe.PEnt} {obs0 obs : ObsList} {o : Merge.Outcome}
    (h : Pipe.compareParsed env ref l10n obs0 = .ok (obs, o)) :
    ∃ evs, obs0.run evs = .ok obs ∧ EvsFor env.file evs ∧ NoErrStats evs := by
  unfold Pipe.compareParsed at h
  simp only at h
  split at h
  · cases h
  · rename_i obs1 h1
    split at h
    · cases h
    · rename_i obs2 h2
      split at h
      · cases h
      · rename_i st hf
        split at h
        · cases h
        · rename_i outcome hm
          injection h with h
          simp only [Prod.mk.injEq] at h
          obtain ⟨hobs, _⟩ := h
          have r1 := notifyDups_run (cat := .warning) rfl _ _ _ h1
          have r2 := notifyDups_run (cat := .error) rfl _ _ _ h2
          have r3 := foldE_step_run _ _ _ hf
          obtain ⟨evs, e1, e2, e3⟩ := (r1.trans r2).trans r3
          refine ⟨evs ++ [.stats env.file (Pipe.statsList st.stats)], ?_, ?_, ?_⟩
          · rw [← hobs]
            exact run_append _ _ _ _ _ e1 (stats_run _ _ _)
          · apply e2.append
            intro ev hev
            simp only [List.mem_singleton] at hev
            subst hev
            exact ⟨rfl, rfl⟩
          · intro ev hev
            rcases List.mem_append.1 hev with hev | hev
            · exact e3.noErrStats ev hev
            · simp only [List.mem_singleton] at hev
              subst hev
              exact statsList_noErrors _

/-- THE CONTRACT HOLDS FOR THE COMPOSED MODEL: `compareBodyOf` (the pipeline model of C05 behind the two `readFile`
    try-blocks) only ever raises events for the two files of the call, never a file notification, never `errors` stats -/
theorem compareBodyOf_runs (ext : Pipe.Ext) (cs : List (Path × ProjPipe.Content)) (md : List (Path × Text)) (c : Call)
    (junk : Nat) (l : ObsList) (r : ObsList × List Text × Nat) (h : ProjPipe.compareBodyOf ext cs md c junk l = .ok r) :
    ∃ evs, l.run evs = .ok r.1 ∧ (∀ ev ∈ evs, (ev.file = c.l10n ∨ ev.file = c.ref) ∧ isFileEv ev = false) ∧
      NoErrStats evs := by
  have one : ∀ (f : File) (msg : Text) (l' : ObsList) (rv : Ret), (f = c.l10n ∨ f = c.ref) →
      l.notify .error f (.str msg) = .ok (l', rv) →
      ∃ evs, l.run evs = .ok l' ∧ (∀ ev ∈ evs, (ev.file = c.l10n ∨ ev.file = c.ref) ∧ isFileEv ev = false) ∧
        NoErrStats evs := by
    intro f msg l' rv hf hn
    refine ⟨[.notify .error f (.str msg)], notify_run hn, ?_, (NotifyOnly.single _ _ _).noErrStats⟩
    intro ev hev
    simp only [List.mem_singleton] at hev
    subst hev
    exact ⟨hf, rfl⟩
  unfold ProjPipe.compareBodyOf at h
  simp only at h
  split at h
  · cases h
  · split at h
    · cases h
    · split at h
      · cases h
      · -- the reference could not be read
        split at h
        · cases h
        · rename_i l' rv hn
          injection h with h; subst h
          exact one _ _ _ _ (Or.inr rfl) hn
      · split at h
        · cases h
        · split at h
          · cases h
          · -- the localized file could not be read
            split at h
            · cases h
            · rename_i l' rv hn
              injection h with h; subst h
              exact one _ _ _ _ (Or.inl rfl) hn
          · split at h
            · cases h
            · split at h
              · cases h
              · rename_i obs' outcome hcp
                obtain ⟨evs, e1, e2, e3⟩ := compareParsed_run hcp
                have hfiles : ∀ ev ∈ evs, (ev.file = c.l10n ∨ ev.file = c.ref) ∧ isFileEv ev = false :=
                  fun ev hev => ⟨Or.inl (e2 ev hev).1, (e2 ev hev).2⟩
                split at h
                · injection h with h; subst h
                  exact ⟨evs, e1, hfiles, e3⟩
                · split at h
                  · split at h
                    · cases h
                    · injection h with h; subst h
                      exact ⟨evs, e1, hfiles, e3⟩
                  · injection h with h; subst h
                    exact ⟨evs, e1, hfiles, e3⟩

/-- every world built by `ProjPipe.worldOf` (what the driver operation `c10.handle` runs) keeps the contract, whatever
    the external functions `ext` of the pipeline model are -/
theorem worldOf_compareRuns (ext : Pipe.Ext) (cwd : Path) (enums : List (Option Text × Except ProjM.PyErr Files))
    (existing : List Path) (md : List (Path × Text)) (cs : List (Path × ProjPipe.Content)) :
    CompareRuns (ProjPipe.worldOf ext cwd enums existing md cs) :=
  fun c junk l r h => compareBodyOf_runs ext cs md c junk l r h

end C10P

/- C08/C07 CSS (extension C), part 4: what `parse_css_spec` reports on specs with defects.
   `SpecE first off ds t errs`: declarations `ds`, each preceded by a gap that is a correct separator, white space
   without the semicolon (→ `css-missing-semicolon` at the end of the previous declaration) or junk
   (→ `css-bad-content`), followed by a correct trailing edge or junk.  `css_spec_errors`: the model returns
   exactly the map of the declarations and exactly these errors.  The breaking edits of the harness
   (missing semicolon, touching declarations, junk before / after) are instances. -/
import CLModel.Proofs.C08CGrammar
import CLModel.Proofs.C08CAgree
namespace C08C
open Rx

/-! ### a regex that can only consume characters of a class -/

def onlyP (P : Nat → Bool) : Re → Bool
  | .lit c => P c
  | .cls false items => items.all (fun it => match it with | .ch c => P c | _ => false)
  | .seq a b | .alt a b => onlyP P a && onlyP P b
  | .rep _ _ _ r | .group _ r => onlyP P r
  | .eps | .eol _ | .eos | .bol _ => true
  | _ => false

def Span (s : Array Nat) (P : Nat → Bool) (a b : Nat) : Prop :=
  ∀ j, a ≤ j → j < b → ∃ c, s[j]? = some c ∧ P c = true

theorem Span.trans {s P a b c} (h1 : Span s P a b) (h2 : Span s P b c) : Span s P a c := by
  intro j hj1 hj2
  by_cases h : j < b
  · exact h1 j hj1 h
  · exact h2 j (by omega) hj2

theorem Span.refl (s P a) : Span s P a a := by intro j h1 h2; omega

def GoodP (s : Array Nat) (P : Nat → Bool) (f : St → K → Option St) : Prop :=
  ∀ st k res, f st k = some res → ∃ st', st.pos ≤ st'.pos ∧ Span s P st.pos st'.pos ∧ k st' = some res

theorem loop_onlyP (s : Array Nat) (P : Nat → Bool) (body : St → K → Option St) (g : Bool) (hb : GoodP s P body) :
    ∀ fuel mn mx, GoodP s P (fun st k => loop body g fuel mn mx st k) := by
  intro fuel
  induction fuel with
  | zero => intro mn mx st k res h; simp [loop] at h
  | succ fuel ih =>
    intro mn mx st k res h
    simp only [loop] at h
    generalize hmdef : (if mx == some 0 then none else
          body st (fun st' => if st'.pos ≤ st.pos then none else
            loop body g fuel (mn - 1) (mx.map (· - 1)) st' k)) = more at h
    have hmore : ∀ res, more = some res →
        ∃ st', st.pos ≤ st'.pos ∧ Span s P st.pos st'.pos ∧ k st' = some res := by
      intro res hm
      rw [← hmdef] at hm
      split at hm
      · cases hm
      · obtain ⟨st1, h1, h2, h3⟩ := hb _ _ _ hm
        split at h3
        · cases h3
        · obtain ⟨st2, h4, h5, h6⟩ := ih (mn - 1) (mx.map (· - 1)) st1 k res h3
          exact ⟨st2, by omega, h2.trans h5, h6⟩
    split at h
    · exact hmore _ h
    · split at h
      · rcases orElse_some h with h' | ⟨_, h'⟩
        · exact hmore _ h'
        · exact ⟨st, Nat.le_refl _, Span.refl _ _ _, h'⟩
      · rcases orElse_some h with h' | ⟨_, h'⟩
        · exact ⟨st, Nat.le_refl _, Span.refl _ _ _, h'⟩
        · exact hmore _ h'

theorem span_one (s : Array Nat) (P : Nat → Bool) (p c : Nat) (hc : s[p]? = some c) (hp : P c = true) :
    Span s P p (p + 1) := by
  intro j h1 h2
  have : j = p := by omega
  subst this
  exact ⟨c, hc, hp⟩

theorem m_onlyP (s : Array Nat) (P : Nat → Bool) : ∀ r, onlyP P r = true → GoodP s P (m s r) := by
  intro r
  induction r with
  | eps => intro _ st k res h; exact ⟨st, Nat.le_refl _, Span.refl _ _ _, by simpa [m] using h⟩
  | lit c =>
    intro hp st k res h
    simp only [onlyP] at hp
    simp only [m] at h
    split at h
    · rename_i hc
      exact ⟨_, by simp, span_one s P st.pos c (by simpa using hc) hp, h⟩
    · cases h
  | notLit c => intro hp; simp [onlyP] at hp
  | any da => intro hp; simp [onlyP] at hp
  | cls neg items =>
    intro hp st k res h
    cases neg with
    | true => simp [onlyP] at hp
    | false =>
      simp only [onlyP, List.all_eq_true] at hp
      simp only [m] at h
      split at h
      · rename_i d hd
        split at h
        · rename_i hin
          simp only [bne_iff_ne, ne_eq, Bool.not_eq_false] at hin
          obtain ⟨it, hit, hhas⟩ := List.any_eq_true.mp hin
          have := hp it hit
          cases it with
          | ch c =>
            simp only [ClsItem.has, beq_iff_eq] at hhas
            subst hhas
            exact ⟨_, by simp, span_one s P st.pos d hd this, h⟩
          | _ => simp at this
        · cases h
      · cases h
  | seq a b iha ihb =>
    intro hp st k res h
    simp only [onlyP, Bool.and_eq_true] at hp
    simp only [m] at h
    obtain ⟨st1, h1, h2, h3⟩ := iha hp.1 _ _ _ h
    obtain ⟨st2, h4, h5, h6⟩ := ihb hp.2 _ _ _ h3
    exact ⟨st2, by omega, h2.trans h5, h6⟩
  | alt a b iha ihb =>
    intro hp st k res h
    simp only [onlyP, Bool.and_eq_true] at hp
    simp only [m] at h
    rcases orElse_some h with h' | ⟨_, h'⟩
    · exact iha hp.1 _ _ _ h'
    · exact ihb hp.2 _ _ _ h'
  | group i r ih =>
    intro hp st k res h
    simp only [onlyP] at hp
    simp only [m] at h
    obtain ⟨st1, h1, h2, h3⟩ := ih hp _ _ _ h
    exact ⟨_, by simpa using h1, by simpa using h2, h3⟩
  | backref i => intro hp; simp [onlyP] at hp
  | bol ml =>
    intro _ st k res h; simp only [m] at h; split at h
    · exact ⟨st, Nat.le_refl _, Span.refl _ _ _, h⟩
    · cases h
  | eol ml =>
    intro _ st k res h; simp only [m] at h; split at h
    · exact ⟨st, Nat.le_refl _, Span.refl _ _ _, h⟩
    · cases h
  | eos =>
    intro _ st k res h; simp only [m] at h; split at h
    · exact ⟨st, Nat.le_refl _, Span.refl _ _ _, h⟩
    · cases h
  | look ahead neg r ih => intro hp; simp [onlyP] at hp
  | rep mn mx g r ih =>
    intro hp st k res h
    simp only [onlyP] at hp
    simp only [m] at h
    exact loop_onlyP s P (m s r) g (ih hp) (s.size + 2 - st.pos) mn mx st k res h

/-! ### `_css_sep` refuses anything but white space and `;` -/

def wsOrSemi (c : Nat) : Bool := isWs c || c == 59

/-- `_css_sep` without its final `$` -/
def sepBody : Re := .seq wsStar (.seq (.alt (.group 1 (.lit 59)) .eps) wsStar)

/-- a successful `_css_sep.match(val, e, q)` means: only white space and `;` between `e` and `q` -/
theorem sep_only (s' : Array Nat) (e : Nat) (sp : St) (he : e ≤ s'.size)
    (h : matchAt s' Gen.Pat.CSSCheckMixin__css_sep e = some sp) : Span s' wsOrSemi e s'.size := by
  rw [sep_shape] at h
  simp only [matchAt] at h
  rw [m_seq] at h
  obtain ⟨st1, h1, s1, h⟩ := m_onlyP s' wsOrSemi wsStar (by decide) _ _ _ h
  rw [m_seq] at h
  obtain ⟨st2, h2, s2, h⟩ := m_onlyP s' wsOrSemi (.alt (.group 1 (.lit 59)) .eps) (by decide) _ _ _ h
  rw [m_seq] at h
  obtain ⟨st3, h3, s3, h⟩ := m_onlyP s' wsOrSemi wsStar (by decide) _ _ _ h
  have hspan : Span s' wsOrSemi e st3.pos := (s1.trans s2).trans s3
  rw [m_eol'] at h
  split at h
  · rename_i hend
    simp only [Bool.or_eq_true, Bool.and_eq_true, beq_iff_eq] at hend
    rcases hend with hend | ⟨hend, h10⟩
    · rw [← hend]; exact hspan
    · refine hspan.trans ?_
      rw [← hend]
      exact span_one s' wsOrSemi st3.pos 10 h10 (by decide)
  · cases h

theorem sep_fail (s' : Array Nat) (e : Nat) (g : Text) (he : e ≤ s'.size) (h : s'.toList.drop e = g)
    (hbad : ∃ c ∈ g, isWs c = false ∧ c ≠ 59) : matchAt s' Gen.Pat.CSSCheckMixin__css_sep e = none := by
  cases hm : matchAt s' Gen.Pat.CSSCheckMixin__css_sep e with
  | none => rfl
  | some sp =>
    exfalso
    have hspan := sep_only s' e sp he hm
    obtain ⟨c, hc, hws, h59⟩ := hbad
    obtain ⟨i, hi, hgi⟩ := List.getElem_of_mem hc
    have hlen : g.length = s'.size - e := by rw [← h]; simp
    have hget : s'[e + i]? = some c := by
      have : (s'.toList.drop e)[i]? = some c := by rw [h]; simp [hgi, hi]
      simpa [List.getElem?_drop] using this
    obtain ⟨c', hc', hp⟩ := hspan (e + i) (by omega) (by omega)
    rw [hget] at hc'
    cases hc'
    simp [wsOrSemi, hws, h59] at hp

/-! ### gaps and their verdicts -/

/-- no property name starts with this character -/
def noPropHead (c : Nat) : Bool := cssProps.all (fun t => t.head? != some c)

/-- junk: no property name can start inside it, and some character is neither white space nor `;` -/
structure IsJunk (g : Text) : Prop where
  nohead : ∀ c ∈ g, noPropHead c = true
  bad : ∃ c ∈ g, isWs c = false ∧ c ≠ 59

/-- what stands before a declaration (`first`: before the first one) and the error it causes -/
inductive GapIs : Bool → Text → Option Dtd.CssCode → Prop
  | lead (g : Text) : IsEdge g → GapIs true g none
  | sep (g : Text) : IsSep g → GapIs false g none
  | missing (g : Text) : g.all isWs = true → GapIs false g (some .missingSemicolon)
  | junk (f : Bool) (g : Text) : IsJunk g → GapIs f g (some .badContent)

/-- what stands after the last declaration -/
inductive TrailIs : Text → Option Dtd.CssCode → Prop
  | edge (g : Text) : IsEdge g → TrailIs g none
  | junk (g : Text) : IsJunk g → TrailIs g (some .badContent)

def errAt (pos : Nat) : Option Dtd.CssCode → List Dtd.CssErr
  | none => []
  | some c => [⟨pos, c⟩]

/-- a spec with its declarations and the errors `parse_css_spec` must report; `off` = where it starts -/
inductive SpecE : Bool → Nat → List Decl → Text → List Dtd.CssErr → Prop
  | last (f : Bool) (off : Nat) (gap : Text) (d : Decl) (trail : Text) (c1 c2 : Option Dtd.CssCode) :
      GapIs f gap c1 → d.Ok → TrailIs trail c2 →
      SpecE f off [d] (gap ++ (d.text ++ trail)) (errAt off c1 ++ errAt (off + gap.length + d.text.length) c2)
  | cons (f : Bool) (off : Nat) (gap : Text) (d : Decl) (ds : List Decl) (t : Text) (c1 : Option Dtd.CssCode)
      (errs : List Dtd.CssErr) :
      GapIs f gap c1 → d.Ok → SpecE false (off + gap.length + d.text.length) ds t errs →
      SpecE f off (d :: ds) (gap ++ (d.text ++ t)) (errAt off c1 ++ errs)

def optOf (l : List Dtd.CssErr) : Option (List Dtd.CssErr) := if l.isEmpty then none else some l
def errList (o : Option (List Dtd.CssErr)) : List Dtd.CssErr := match o with | some l => l | none => []

theorem optOf_errList (o : Option (List Dtd.CssErr)) (h : o ≠ some []) : optOf (errList o) = o := by
  cases o with
  | none => rfl
  | some l =>
    cases l with
    | nil => exact absurd rfl h
    | cons x xs => rfl

theorem optOf_ne (l : List Dtd.CssErr) : optOf l ≠ some [] := by
  cases l <;> simp [optOf]

theorem errList_optOf (l : List Dtd.CssErr) : errList (optOf l) = l := by
  cases l <;> rfl

/-! ### positions without a match -/

theorem noHead_no_match (s : Array Nat) (j c : Nat) (hc : s[j]? = some c) (h : noPropHead c = true) :
    matchAt s Gen.Pat.CSSCheckMixin__css_spec j = none := by
  have hlt := getElem?_some_lt hc
  rw [spec_shape]
  simp only [matchAt, m_alt]
  rw [m_seq, m_group, m_lang_none s propRe cssProps lang_prop]
  · simp only [Option.orElse_none, m]
    rw [if_neg]
    simp; omega
  · intro t ht
    simp only [noPropHead, List.all_eq_true, bne_iff_ne, ne_eq] at h
    have := h t ht
    cases t with
    | nil =>
      obtain ⟨_, _, he, _, _⟩ := mem_props_cons ht
      cases he
    | cons hd tl =>
      apply textAt_head_ne s j hd c tl hc
      rintro rfl
      exact this rfl

theorem gap_no_match (s : Array Nat) (e : Nat) (g rest : Text) (h : s.toList.drop e = g ++ rest)
    (hg : IsEdge g ∨ IsJunk g) :
    ∀ q', e ≤ q' → q' < e + g.length → matchAt s Gen.Pat.CSSCheckMixin__css_spec q' = none := by
  rcases hg with hg | hg
  · exact isEdge_no_match s e g rest h hg
  · intro q' h1 h2
    have hget : s[q']? = g[q' - e]? := by
      have : (s.toList.drop e)[q' - e]? = (g ++ rest)[q' - e]? := by rw [h]
      rw [List.getElem?_drop, List.getElem?_append_left (by omega)] at this
      have e' : e + (q' - e) = q' := by omega
      rw [e'] at this
      simpa using this
    have hc : g[q' - e]? = some (g[q' - e]'(by omega)) := List.getElem?_eq_getElem (by omega)
    exact noHead_no_match s q' _ (hget.trans hc) (hg.nohead _ (List.getElem_mem _))

theorem gapIs_cases {f : Bool} {g : Text} {c : Option Dtd.CssCode} (h : GapIs f g c) : IsEdge g ∨ IsJunk g := by
  cases h with
  | lead g h => exact Or.inl h
  | sep g h => exact Or.inl (Or.inr h)
  | missing g h => exact Or.inl (Or.inl h)
  | junk f g h => exact Or.inr h

/-! ### the loop body, with the verdict of the gap -/

/-- the outcome of `_css_sep.match(val, e, q)` for a gap with verdict `c` -/
def GapRes (s : Array Nat) (e q : Nat) : Option Dtd.CssCode → Prop
  | none => GapOk s e q
  | some .missingSemicolon => 0 < e ∧ ∃ sp, matchAt (s.extract 0 q) Gen.Pat.CSSCheckMixin__css_sep e = some sp ∧
      (sp.group Gen.Pat.CSSCheckMixin__css_sep_g_semi).isNone = true
  | some .badContent => e < q ∧ matchAt (s.extract 0 q) Gen.Pat.CSSCheckMixin__css_sep e = none

theorem sep_ws_state (s' : Array Nat) (e : Nat) (a : Text) (he : e ≤ s'.size) (h : s'.toList.drop e = a)
    (ha : a.all isWs = true) :
    ∃ sp, matchAt s' Gen.Pat.CSSCheckMixin__css_sep e = some sp ∧
      (sp.group Gen.Pat.CSSCheckMixin__css_sep_g_semi).isNone = true :=
  ⟨_, sep_ws_exact s' e a he h ha, by simp [St.group, capOf]⟩

theorem optOf_snoc (o : Option (List Dtd.CssErr)) (x : Dtd.CssErr) :
    some ((match o with | some l => l | none => []) ++ [x]) = optOf (errList o ++ [x]) := by
  cases o with
  | none => rfl
  | some l => cases l <;> rfl

/-- the loop body on a declaration after a gap with verdict `c` -/
theorem cssStep_decl_gen (s : Array Nat) (stt : Dtd.CssState) (q : Nat) (d : Decl) (rest : Text)
    (h : s.toList.drop q = d.text ++ rest) (hd : d.Ok) (c : Option Dtd.CssCode) (hgap : GapRes s stt.end_ q c)
    (herr : stt.errors ≠ some []) :
    Dtd.cssStep s stt (q, declSt q d) =
      some ⟨some (Dtd.dset (mapOr stt.refMap) d.prop d.unit), optOf (errList stt.errors ++ errAt stt.end_ c),
        q + d.text.length⟩ := by
  cases c with
  | none =>
    rw [cssStep_decl s stt q d rest h hd hgap]
    simp [errAt, optOf_errList _ herr]
  | some code =>
    obtain ⟨ph, ptl, hpe, _, _⟩ := mem_props_cons hd.prop
    have hplen : 0 < d.prop.length := by rw [hpe]; simp
    have hg1 : (declSt q d).group Gen.Pat.CSSCheckMixin__css_spec_g_prop = some (q, q + d.prop.length) := by
      simp [declSt, St.group, capOf, Gen.Pat.CSSCheckMixin__css_spec_g_prop]
    have hg3 : (declSt q d).group Gen.Pat.CSSCheckMixin__css_spec_g_unit
        = some (q + (d.prop.length + d.ws1.length + 1 + d.ws2.length + d.num.length), q + d.text.length) := by
      simp [declSt, St.group, capOf, Gen.Pat.CSSCheckMixin__css_spec_g_unit]
    have hsl1 : Dtd.slice s q (q + d.prop.length) = d.prop := by
      rw [slice_drop, h]; simp [Decl.text]
    have hsl3 : Dtd.slice s (q + (d.prop.length + d.ws1.length + 1 + d.ws2.length + d.num.length)) (q + d.text.length) = d.unit := by
      have e : q + d.text.length = q + (d.prop.length + d.ws1.length + 1 + d.ws2.length + d.num.length) + d.unit.length := by
        rw [decl_text_length]; omega
      have h1 : s.toList.drop q = (d.prop ++ (d.ws1 ++ 58 :: (d.ws2 ++ d.num))) ++ (d.unit ++ rest) := by
        rw [h]; simp [Decl.text]
      have h2 := drop_append_of_drop h1
      have e2 : q + (d.prop ++ (d.ws1 ++ 58 :: (d.ws2 ++ d.num))).length
          = q + (d.prop.length + d.ws1.length + 1 + d.ws2.length + d.num.length) := by simp; omega
      rw [e2] at h2
      rw [e, slice_drop, h2]; simp
    have hpos : (declSt q d).pos = q + d.text.length := rfl
    have hlen : 0 < d.text.length := decl_text_pos hd
    have hlt : q < q + d.prop.length := by omega
    unfold Dtd.cssStep
    simp only [hg1, hg3, hpos, hsl1, hsl3]
    have hne : (stt.end_ == 0 && q == q + d.text.length) = false := by
      have : (q == q + d.text.length) = false := by rw [beq_eq_false_iff_ne]; omega
      simp [this]
    simp only [hne, Bool.false_eq_true, if_false, hlt, if_true, decide_true, Bool.and_true, mapOr]
    cases code with
    | missingSemicolon =>
      obtain ⟨he, sp, hsp, hnone⟩ := hgap
      have hc : (decide (q > stt.end_) || decide (stt.end_ > 0)) = true := by simp; omega
      have hc2 : (decide (stt.end_ > 0) && (sp.group Gen.Pat.CSSCheckMixin__css_sep_g_semi).isNone) = true := by
        simp [hnone]; omega
      simp only [hc, if_true, hsp, hc2, errAt]
      cases stt.refMap <;> (cases stt.errors with | none => rfl | some l => cases l <;> rfl)
    | badContent =>
      obtain ⟨he, hsp⟩ := hgap
      have hc : (decide (q > stt.end_) || decide (stt.end_ > 0)) = true := by simp; omega
      simp only [hc, if_true, hsp, errAt]
      cases stt.refMap <;> (cases stt.errors with | none => rfl | some l => cases l <;> rfl)

/-- the outcome of `_css_sep.match(val, e)` on the trailing text -/
def TrailRes (s : Array Nat) (e : Nat) : Option Dtd.CssCode → Prop
  | none => e = s.size ∨ (e < s.size ∧ ∃ sp, matchAt (s.extract 0 s.size) Gen.Pat.CSSCheckMixin__css_sep e = some sp)
  | some _ => e < s.size ∧ matchAt (s.extract 0 s.size) Gen.Pat.CSSCheckMixin__css_sep e = none

theorem cssStep_final_gen (s : Array Nat) (stt : Dtd.CssState) (he : 0 < stt.end_) (c : Option Dtd.CssCode)
    (hc : c = none ∨ c = some .badContent) (hgap : TrailRes s stt.end_ c) (herr : stt.errors ≠ some []) :
    Dtd.cssStep s stt (s.size, ⟨s.size, []⟩) =
      some ⟨stt.refMap, optOf (errList stt.errors ++ errAt stt.end_ c), s.size⟩ := by
  rcases hc with rfl | rfl
  · rw [cssStep_final s stt he hgap]
    simp [errAt, optOf_errList _ herr]
  · obtain ⟨hlt, hsp⟩ := hgap
    unfold Dtd.cssStep
    have hne : (stt.end_ == 0) = false := by simp; omega
    simp only [hne, Bool.false_and, Bool.false_eq_true, if_false, St.group, capOf, List.find?_nil, Bool.and_false,
      Bool.or_false]
    rw [if_pos (by simp; omega), hsp]
    simp only [errAt]
    cases stt.errors with
    | none => rfl
    | some l => cases l <;> rfl

/-! ### from the text of a gap to the outcome of `_css_sep` -/

theorem gapRes_of_gapIs (s : Array Nat) (f : Bool) (e : Nat) (g rest : Text) (c : Option Dtd.CssCode)
    (h : s.toList.drop e = g ++ rest) (hg : GapIs f g c) (hf : (f = true ∧ e = 0) ∨ (f = false ∧ 0 < e))
    (hle : e ≤ s.size) : GapRes s e (e + g.length) c := by
  have hx := extract_drop s (e + g.length) e g rest h rfl
  have hsz : e + g.length ≤ (s.extract 0 (e + g.length)).size := by
    have : (s.toList.drop e).length = s.size - e := by simp
    rw [h] at this
    simp only [List.length_append] at this
    simp; omega
  cases hg with
  | lead g hg =>
    rcases hf with ⟨_, rfl⟩ | ⟨hf, _⟩
    · exact gap_of_edge0 s g rest h hg
    · cases hf
  | sep g hg => exact gap_of_sep s e g rest h hg
  | missing g hg =>
    rcases hf with ⟨hf, _⟩ | ⟨_, he⟩
    · cases hf
    · obtain ⟨sp, h1, h2⟩ := sep_ws_state _ e g (by omega) hx hg
      exact ⟨he, sp, h1, h2⟩
  | junk f g hg =>
    obtain ⟨c, hc, _⟩ := hg.bad
    have hpos : 0 < g.length := List.length_pos_iff.mpr (List.ne_nil_of_mem hc)
    exact ⟨by omega, sep_fail _ e g (by omega) hx hg.bad⟩

theorem trailRes_of_trailIs (s : Array Nat) (e : Nat) (trail : Text) (c : Option Dtd.CssCode)
    (h : s.toList.drop e = trail) (hle : e ≤ s.size) (ht : TrailIs trail c) : TrailRes s e c := by
  have hsz : e + trail.length = s.size := by
    have : (s.toList.drop e).length = s.size - e := by simp
    rw [h] at this; omega
  have hx : (s.extract 0 s.size).toList.drop e = trail :=
    extract_drop s s.size e trail [] (by simpa using h) (by omega)
  cases ht with
  | edge hg =>
    by_cases hnil : trail = []
    · left; subst hnil; simpa using hsz
    · right
      have hl : 0 < trail.length := List.length_pos_iff.mpr hnil
      refine ⟨by omega, ?_⟩
      rcases hg with hg | ⟨a, b, rfl, ha, hb⟩
      · exact sep_ws _ e trail (by simp; omega) hx hg
      · obtain ⟨sp, h1, _⟩ := sep_semi _ e a b hx ha hb
        exact ⟨sp, h1⟩
  | junk hg =>
    obtain ⟨c, hc, _⟩ := hg.bad
    have hpos : 0 < trail.length := List.length_pos_iff.mpr (List.ne_nil_of_mem hc)
    exact ⟨by omega, sep_fail _ e trail (by simp; omega) hx hg.bad⟩

theorem trailIs_cases {g : Text} {c : Option Dtd.CssCode} (h : TrailIs g c) :
    (IsEdge g ∨ IsJunk g) ∧ (c = none ∨ c = some .badContent) := by
  cases h with
  | edge h => exact ⟨Or.inl h, Or.inl rfl⟩
  | junk h => exact ⟨Or.inr h, Or.inr rfl⟩

/-! ### the loop -/

theorem loop_tail_gen (s : Array Nat) (fuel e : Nat) (stt : Dtd.CssState) (trail : Text) (c : Option Dtd.CssCode)
    (he : stt.end_ = e) (hpos : 0 < e) (h : s.toList.drop e = trail) (hle : e ≤ s.size) (ht : TrailIs trail c)
    (herr : stt.errors ≠ some []) :
    Dtd.cssLoop s (finditerAux s Gen.Pat.CSSCheckMixin__css_spec (fuel + 1) e false) stt
      = some ⟨stt.refMap, optOf (errList stt.errors ++ errAt e c), s.size⟩ := by
  have hsz : e + trail.length = s.size := by
    have : (s.toList.drop e).length = s.size - e := by simp
    rw [h] at this; omega
  obtain ⟨hkind, hc⟩ := trailIs_cases ht
  rw [finditerAux_skip s _ fuel e s.size ⟨s.size, []⟩ hle (Nat.le_refl _)
    (by
      intro q' h1 h2
      exact gap_no_match s e trail [] (by simpa using h) hkind q' h1 (by omega))
    (spec_end s)]
  simp only [beq_self_eq_true, finditerAux_end s _ fuel (spec_end_ne s), Dtd.cssLoop]
  rw [cssStep_final_gen s stt (by omega) c hc (by rw [he]; exact trailRes_of_trailIs s e trail c h hle ht) herr, he]

theorem loop_specE (s : Array Nat) : ∀ (f : Bool) (off : Nat) (ds : List Decl) (t : Text) (errs : List Dtd.CssErr),
    SpecE f off ds t errs → ∀ (fuel : Nat) (stt : Dtd.CssState), stt.end_ = off →
      ((f = true ∧ off = 0) ∨ (f = false ∧ 0 < off)) → s.toList.drop off = t → off ≤ s.size →
      stt.errors ≠ some [] → s.size + 2 ≤ fuel + off →
      Dtd.cssLoop s (finditerAux s Gen.Pat.CSSCheckMixin__css_spec fuel off false) stt
        = some ⟨some (foldDecls (mapOr stt.refMap) ds), optOf (errList stt.errors ++ errs), s.size⟩ := by
  intro f off ds t errs hsp
  induction hsp with
  | last f off gap d trail c1 c2 hg hd ht =>
    intro fuel stt he hf h hle herr hfuel
    have hq : s.toList.drop (off + gap.length) = d.text ++ trail := drop_append_of_drop h
    have hlen : 0 < d.text.length := decl_text_pos hd
    have hqs : off + gap.length + d.text.length ≤ s.size := by
      have : (s.toList.drop (off + gap.length)).length = s.size - (off + gap.length) := by simp
      rw [hq] at this; simp at this; omega
    obtain ⟨fu, rfl⟩ : ∃ fu, fuel = fu + 1 + 1 := ⟨fuel - 2, by omega⟩
    rw [finditerAux_skip s _ (fu + 1) off (off + gap.length) (declSt (off + gap.length) d) (by omega) (by omega)
      (gap_no_match s off gap _ h (gapIs_cases hg)) (decl_match s _ d hd trail hq)]
    have hb : ((declSt (off + gap.length) d).pos == off + gap.length) = false := by
      rw [beq_eq_false_iff_ne]; simp only [declSt]; omega
    rw [hb]
    simp only [Dtd.cssLoop]
    rw [cssStep_decl_gen s stt _ d trail hq hd c1 (by rw [he]; exact gapRes_of_gapIs s f off gap _ c1 h hg hf hle) herr]
    simp only [declSt]
    rw [loop_tail_gen s fu (off + gap.length + d.text.length) _ trail c2 rfl (by omega) (drop_append_of_drop hq) hqs ht
      (optOf_ne _)]
    simp [foldDecls, mapOr, errList_optOf, he, List.append_assoc]
  | cons f off gap d ds t c1 errs hg hd _ ih =>
    intro fuel stt he hf h hle herr hfuel
    have hq : s.toList.drop (off + gap.length) = d.text ++ t := drop_append_of_drop h
    have hlen : 0 < d.text.length := decl_text_pos hd
    have hq2 : s.toList.drop (off + gap.length + d.text.length) = t := drop_append_of_drop hq
    have hqs : off + gap.length + d.text.length ≤ s.size := by
      have : (s.toList.drop (off + gap.length)).length = s.size - (off + gap.length) := by simp
      rw [hq] at this; simp at this; omega
    obtain ⟨fu, rfl⟩ : ∃ fu, fuel = fu + 1 := ⟨fuel - 1, by omega⟩
    rw [finditerAux_skip s _ fu off (off + gap.length) (declSt (off + gap.length) d) (by omega) (by omega)
      (gap_no_match s off gap _ h (gapIs_cases hg)) (decl_match s _ d hd t hq)]
    have hb : ((declSt (off + gap.length) d).pos == off + gap.length) = false := by
      rw [beq_eq_false_iff_ne]; simp only [declSt]; omega
    rw [hb]
    simp only [Dtd.cssLoop]
    rw [cssStep_decl_gen s stt _ d t hq hd c1 (by rw [he]; exact gapRes_of_gapIs s f off gap _ c1 h hg hf hle) herr]
    simp only [declSt]
    rw [ih fu _ rfl (Or.inr ⟨rfl, by omega⟩) hq2 hqs (optOf_ne _) (by omega)]
    simp [foldDecls, mapOr, errList_optOf, he, List.append_assoc]

/-- **css_spec_errors**: on a spec with defects `parse_css_spec` returns exactly the map of the declarations and
    exactly the errors of the defective gaps, in order -/
theorem css_spec_errors (ds : List Decl) (v : Text) (errs : List Dtd.CssErr) (h : SpecE true 0 ds v errs) :
    Dtd.parseCssSpec v = (some (declMap ds), optOf errs) := by
  unfold Dtd.parseCssSpec finditer
  simp only []
  have := loop_specE v.toArray true 0 ds v errs h (2 * v.toArray.size + 3) ⟨none, none, 0⟩ rfl (Or.inl ⟨rfl, rfl⟩)
    (by simp) (by omega) (by simp) (by omega)
  rw [this]
  rfl

/-! ### building defective specs from correct blocks -/

/-- a correct block `d₁ ; d₂ ; … dₙ` in front of an already classified rest -/
theorem specE_prepend {ds : List Decl} {t : Text} (hdt : DeclsText ds t) :
    ∀ (f : Bool) (off : Nat) (gap : Text) (c1 : Option Dtd.CssCode) (ds' : List Decl) (t' : Text) (errs' : List Dtd.CssErr),
      GapIs f gap c1 → SpecE false (off + gap.length + t.length) ds' t' errs' →
      SpecE f off (ds ++ ds') (gap ++ (t ++ t')) (errAt off c1 ++ errs') := by
  induction hdt with
  | one d hd =>
    intro f off gap c1 ds' t' errs' hg hrest
    exact .cons f off gap d ds' t' c1 errs' hg hd hrest
  | cons d sep ds t hd hsep _ ih =>
    intro f off gap c1 ds' t' errs' hg hrest
    have e1 : off + gap.length + (d.text ++ (sep ++ t)).length = off + gap.length + d.text.length + sep.length + t.length := by
      simp; omega
    rw [e1] at hrest
    have := ih false (off + gap.length + d.text.length) sep none ds' t' errs' (.sep sep hsep) hrest
    have e2 : gap ++ (d.text ++ (sep ++ t) ++ t') = gap ++ (d.text ++ (sep ++ (t ++ t'))) := by simp
    rw [e2]
    exact SpecE.cons f off gap d (ds ++ ds') (sep ++ (t ++ t')) c1 errs' hg hd (by simpa [errAt] using this)

/-- a correct block followed by its trailing text -/
theorem specE_block {ds : List Decl} {t : Text} (hdt : DeclsText ds t) :
    ∀ (f : Bool) (off : Nat) (gap trail : Text) (c1 c2 : Option Dtd.CssCode),
      GapIs f gap c1 → TrailIs trail c2 →
      SpecE f off ds (gap ++ (t ++ trail)) (errAt off c1 ++ errAt (off + gap.length + t.length) c2) := by
  induction hdt with
  | one d hd =>
    intro f off gap trail c1 c2 hg ht
    exact .last f off gap d trail c1 c2 hg hd ht
  | cons d sep ds t hd hsep _ ih =>
    intro f off gap trail c1 c2 hg ht
    have := ih false (off + gap.length + d.text.length) sep trail none c2 (.sep sep hsep) ht
    have e1 : off + gap.length + (d.text ++ (sep ++ t)).length = off + gap.length + d.text.length + sep.length + t.length := by
      simp; omega
    have e2 : gap ++ (d.text ++ (sep ++ t) ++ trail) = gap ++ (d.text ++ (sep ++ (t ++ trail))) := by simp
    rw [e1, e2]
    simpa [errAt] using SpecE.cons f off gap d ds (sep ++ (t ++ trail)) c1 _ hg hd (by simpa [errAt] using this)

/-- a grammatical spec is a spec without defects -/
theorem specE_of_cssSpec {ds : List Decl} {v : Text} (h : CssSpec ds v) : SpecE true 0 ds v [] := by
  cases h with
  | mk lead t trail ds hl hdt htr =>
    simpa [errAt] using specE_block hdt true 0 lead trail none none (.lead lead hl) (.edge trail htr)

/-- **missing semicolon** (also: declarations that touch, `ws = []`): two correct blocks with only white space
    between them — the map is that of all declarations, the one error is `css-missing-semicolon` at the end of
    the first block -/
theorem css_missing_semicolon (ds1 ds2 : List Decl) (lead t1 ws t2 trail : Text) (hl : IsEdge lead)
    (h1 : DeclsText ds1 t1) (hws : ws.all isWs = true) (h2 : DeclsText ds2 t2) (htr : IsEdge trail) :
    Dtd.parseCssSpec (lead ++ (t1 ++ (ws ++ (t2 ++ trail)))) =
      (some (declMap (ds1 ++ ds2)), some [⟨lead.length + t1.length, .missingSemicolon⟩]) := by
  have hb := specE_block h2 false (0 + lead.length + t1.length) ws trail (some .missingSemicolon) none
    (.missing ws hws) (.edge trail htr)
  have := specE_prepend h1 true 0 lead none ds2 _ _ (.lead lead hl) hb
  rw [css_spec_errors _ _ _ this]
  simp [errAt, optOf]

/-- **junk after** a correct spec: `css-bad-content` at the end of the last declaration -/
theorem css_junk_after (ds : List Decl) (lead t junk : Text) (hl : IsEdge lead) (h : DeclsText ds t)
    (hj : IsJunk junk) :
    Dtd.parseCssSpec (lead ++ (t ++ junk)) = (some (declMap ds), some [⟨lead.length + t.length, .badContent⟩]) := by
  have := specE_block h true 0 lead junk none (some .badContent) (.lead lead hl) (.junk junk hj)
  rw [css_spec_errors _ _ _ this]
  simp [errAt, optOf]

/-- **junk before** a correct spec: `css-bad-content` at position 0 -/
theorem css_junk_before (ds : List Decl) (junk t trail : Text) (hj : IsJunk junk) (h : DeclsText ds t)
    (htr : IsEdge trail) :
    Dtd.parseCssSpec (junk ++ (t ++ trail)) = (some (declMap ds), some [⟨0, .badContent⟩]) := by
  have := specE_block h true 0 junk trail (some .badContent) none (.junk true junk hj) (.edge trail htr)
  rw [css_spec_errors _ _ _ this]
  simp [errAt, optOf]

end C08C

/-
C20 (round 4) — hash independence: the diff depends only on the EQUALITY PATTERN of the keys.
Renaming the keys by any injective function (in particular replacing every key by its hash-table slot,
by its `id()`, by itself under another `PYTHONHASHSEED`) renames the result and changes nothing else.
Core Lean only.
-/
import CLModel.Compare.AddRemoveObj
import CLModel.Proofs.C20Dup
namespace C20P
open AR C20M

variable {α γ : Type} [BEq α] [LawfulBEq α] [BEq γ] [LawfulBEq γ]

theorem contains_map_inj (f : α → γ) (hf : Function.Injective f) (l : List α) (x : α) :
    (l.map f).contains (f x) = l.contains x := by
  rw [Bool.eq_iff_iff, List.contains_iff_mem, List.contains_iff_mem, List.mem_map]
  constructor
  · rintro ⟨a, ha, e⟩
    exact hf e ▸ ha
  · intro h
    exact ⟨x, h, rfl⟩

theorem dedupLast_map (f : α → γ) (hf : Function.Injective f) (l : List α) :
    dedupLast (l.map f) = (dedupLast l).map f := by
  induction l with
  | nil => rfl
  | cons x xs ih =>
    simp only [List.map_cons, dedupLast, contains_map_inj f hf]
    split
    · exact ih
    · rw [List.map_cons, ih]

/-- renaming of an (anchor, key) pair -/
def renPair (f : α → γ) (p : Option α × α) : Option γ × γ := (p.1.map f, f p.2)

theorem anchorsD_map (f : α → γ) (hf : Function.Injective f) (l r : List α) (cur : Option α)
    (acc : List (Option α × α)) :
    anchorsD (l.map f) (r.map f) (cur.map f) (acc.map (renPair f))
      = (anchorsD l r cur acc).map (renPair f) := by
  induction r generalizing cur acc with
  | nil => rfl
  | cons x xs ih =>
    simp only [List.map_cons, anchorsD, contains_map_inj f hf]
    split
    · exact ih (some x) acc
    · rw [List.find?_map]
      have hp : ((fun p : Option γ × γ => p.2 == f x) ∘ renPair f) = (fun p : Option α × α => p.2 == x) := by
        funext p
        simp only [Function.comp, renPair]
        rw [Bool.eq_iff_iff]
        simp only [beq_iff_eq]
        exact ⟨fun e => hf e, fun e => by rw [e]⟩
      rw [hp]
      cases acc.find? (fun p => p.2 == x) with
      | some p => exact ih p.1 acc
      | none =>
        have := ih cur (acc ++ [(cur, x)])
        simpa [renPair] using this

theorem option_map_beq (f : α → γ) (hf : Function.Injective f) (a b : Option α) :
    (a.map f == b.map f) = (a == b) := by
  rw [Bool.eq_iff_iff]
  simp only [beq_iff_eq]
  cases a <;> cases b <;> simp
  exact ⟨fun e => hf e, fun e => by rw [e]⟩

/-- renaming of a (label, key) pair -/
def renOut (f : α → γ) (p : Label × α) : Label × γ := (p.1, f p.2)

theorem adds_map (f : α → γ) (hf : Function.Injective f) (anc : List (Option α × α)) (a : Option α) :
    ((anc.map (renPair f)).filter (fun p => p.1 == a.map f)).map (fun p => (Label.add, p.2))
      = ((anc.filter (fun p => p.1 == a)).map (fun p => (Label.add, p.2))).map (renOut f) := by
  rw [List.filter_map, List.map_map, List.map_map]
  have : ((fun p : Option γ × γ => p.1 == a.map f) ∘ renPair f) = (fun p : Option α × α => p.1 == a) := by
    funext p
    exact option_map_beq f hf p.1 a
  rw [this]
  rfl

theorem specD_map (f : α → γ) (hf : Function.Injective f) (l r : List α) :
    specD (l.map f) (r.map f) = (specD l r).map (renOut f) := by
  have ha := anchorsD_map f hf l r none []
  simp only [Option.map_none, List.map_nil] at ha
  simp only [specD]
  rw [ha, List.map_append, dedupLast_map f hf, List.flatMap_map, List.map_flatMap]
  congr 1
  · exact adds_map f hf _ none
  · apply flatMap_congr'
    intro k _
    rw [List.map_cons]
    congr 1
    · simp only [renOut, contains_map_inj f hf]
    · exact adds_map f hf _ (some k)

/-- **the diff is equivariant under injective renamings of the keys** -/
theorem addRemove_map (f : α → γ) (hf : Function.Injective f) (l r : List α) :
    addRemove (l.map f) (r.map f) = (addRemove l r).map (renOut f) := by
  rw [addRemove_eq_specD, addRemove_eq_specD, specD_map f hf]

end C20P

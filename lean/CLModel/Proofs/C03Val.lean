/-
C03 round 4 — the comparison looks at the VALUE (`val`, unescaped) of two entities, never at the raw text
(`raw_val`): composition of the loop of Compare/Pipeline.lean with the value semantics proved for C02.
-/
import CLModel.Compare.Pipeline
import CLModel.Proofs.C02Props
namespace C03V
open Pipe

/-- a `.properties` entity built by the parser model: `val` is the documented unescape of `raw_val` -/
theorem mkEnt_props_val (s : Array Nat) (h : Hist.Ent) (e : PEnt) (hm : mkEnt .properties s h = .ok e) (hj : e.junk = false) :
    e.val = P.propsUnescapeSpec e.raw := by
  unfold mkEnt at hm
  cases hjid : h.jid with
  | some id =>
    rw [hjid] at hm
    simp only [Except.ok.injEq] at hm
    subst hm
    simp at hj
  | none =>
    rw [hjid] at hm
    simp only [P.entView] at hm
    rw [P.propsVal_eq_spec] at hm
    simp only [Except.ok.injEq] at hm
    subst hm
    rfl

/-- the `equal` branch of the loop: a shared key that is not a key binding is `unchanged` iff key and VALUE agree;
    `raw_val` plays no role, and the words counted are those of the reference VALUE -/
theorem equal_step_by_val (env : Env) (ref l10n : List PEnt) (st st' : LoopSt) (k : Cmp.Key) (refent l10nent : PEnt)
    (hr : lookup ref k = .ok refent) (hl : lookup l10n k = .ok l10nent) (hk : Cmp.keyMatch k = false)
    (h : step env ref l10n st (.equal, k) = .ok st') :
    st'.stats = (if refent.key == l10nent.key && refent.val == l10nent.val then
        { st.stats with unchanged := st.stats.unchanged + 1, unchanged_w := st.stats.unchanged_w + Cmp.countWords refent.val }
      else { st.stats with changed := st.stats.changed + 1, changed_w := st.stats.changed_w + Cmp.countWords refent.val }) := by
  simp only [step, hr, hl, hk, Bool.false_eq_true, if_false] at h
  by_cases hj : refent.junk = true
  · simp [hj] at h
  · simp only [hj, Bool.false_eq_true, if_false] at h
    cases hck : runChecker env.ck env.file.locale refent l10nent with
    | error e => split at h <;> simp [hck] at h
    | ok results =>
      split at h
      · rename_i e he
        split at he <;> cases he
      · rename_i stats hs
        rw [hck] at h
        simp only at h
        cases hc : checkLoop env refent l10nent results (st.obs, st.skips) with
        | error e => rw [hc] at h; cases h
        | ok r =>
          rw [hc] at h
          simp only [Except.ok.injEq] at h
          subst h
          simp only
          split at hs <;> simp only [Except.ok.injEq] at hs <;> subst hs <;> simp_all

/-- two entities of a `.properties` file pair whose raw texts unescape to the same value are equal for the comparison -/
theorem props_same_value (s1 s2 : Array Nat) (h1 h2 : Hist.Ent) (a b : PEnt) (ha : mkEnt .properties s1 h1 = .ok a)
    (hb : mkEnt .properties s2 h2 = .ok b) (ja : a.junk = false) (jb : b.junk = false)
    (hv : P.propsUnescapeSpec a.raw = P.propsUnescapeSpec b.raw) : a.val = b.val := by
  rw [mkEnt_props_val s1 h1 a ha ja, mkEnt_props_val s2 h2 b hb jb, hv]

end C03V

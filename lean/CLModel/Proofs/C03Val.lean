/-
C03 round 4 — the comparison looks at the VALUE (`val`, unescaped) of two entities, never at the raw text
(`raw_val`): composition of the loop of Compare/Pipeline.lean with the value semantics proved for C02.

Adapted to the five-format pipeline of C05: `Entry.equals` is `Pipe.entEquals cls` (key and val for every class but
Fluent's, whose `FluentEntity.equals` compares the ASTs — `C03.fluent_equals_is_erased_equality`), `count_words()` is the
field `PEnt.words` (= `Cmp.countWords val` for everything the regex parsers build, `PipeBridge.mkEnt_words`), and the
external functions `ext` are a parameter that `.properties` never consults.
-/
import CLModel.Compare.Pipeline
import CLModel.Proofs.C02Props
import CLModel.Proofs.FixPipeBridge
namespace C03V
open Pipe

/-- a `.properties` entity built by the parser model: `val` is the documented unescape of `raw_val` -/
theorem mkEnt_props_val (ext : Ext) (s : Array Nat) (h : Hist.Ent) (e : PEnt) (hm : mkEnt ext P.Fmt.properties s h = .ok e)
    (hj : e.junk = false) : e.val = P.propsUnescapeSpec e.raw := by
  unfold mkEnt at hm
  cases hjid : h.jid with
  | some id =>
    rw [hjid] at hm
    simp only [Except.ok.injEq] at hm
    subst hm
    simp [mkJunk] at hj
  | none =>
    rw [hjid] at hm
    simp only [P.entView, entVal] at hm
    rw [P.propsVal_eq_spec] at hm
    simp only [Except.ok.injEq] at hm
    subst hm
    rfl

/-- the `equal` branch of the loop, for every entity class with `Entry.equals` (all but Fluent): a shared key that is
    not a key binding is `unchanged` iff key and VALUE agree; `raw_val` plays no role, and the words counted are
    `count_words()` of the reference entity -/
theorem equal_step_by_val (env : Env) (hcls : env.cls ≠ .fluent) (ref l10n : List PEnt) (st st' : LoopSt) (k : Cmp.Key)
    (refent l10nent : PEnt)
    (hr : lookup ref k = .ok refent) (hl : lookup l10n k = .ok l10nent) (hk : Cmp.keyMatch k = false)
    (h : step env ref l10n st (.equal, k) = .ok st') :
    st'.stats = (if refent.key == l10nent.key && refent.val == l10nent.val then
        { st.stats with unchanged := st.stats.unchanged + 1, unchanged_w := st.stats.unchanged_w + refent.words }
      else { st.stats with changed := st.stats.changed + 1, changed_w := st.stats.changed_w + refent.words }) := by
  simp only [step, hr, hl, hk, Bool.false_eq_true, if_false,
    PipeBridge.entEquals_of_ne_fluent hcls] at h
  by_cases hj : refent.junk = true
  · simp [hj] at h
  · simp only [hj, Bool.false_eq_true, if_false] at h
    cases hb : (refent.key == l10nent.key && refent.val == l10nent.val) <;>
    · simp only [hb] at h
      cases hck : runChecker env.ck refent l10nent with
      | error e => simp [hck] at h
      | ok results =>
        rw [hck] at h
        simp only at h
        cases hc : checkLoop env refent l10nent results (st.obs, st.skips) with
        | error e => rw [hc] at h; cases h
        | ok r =>
          rw [hc] at h
          simp only [Except.ok.injEq] at h
          subst h
          simp

/-- two entities of a `.properties` file pair whose raw texts unescape to the same value are equal for the comparison -/
theorem props_same_value (ext : Ext) (s1 s2 : Array Nat) (h1 h2 : Hist.Ent) (a b : PEnt)
    (ha : mkEnt ext P.Fmt.properties s1 h1 = .ok a)
    (hb : mkEnt ext P.Fmt.properties s2 h2 = .ok b) (ja : a.junk = false) (jb : b.junk = false)
    (hv : P.propsUnescapeSpec a.raw = P.propsUnescapeSpec b.raw) : a.val = b.val := by
  rw [mkEnt_props_val ext s1 h1 a ha ja, mkEnt_props_val ext s2 h2 b hb jb, hv]

end C03V

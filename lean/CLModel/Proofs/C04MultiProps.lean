/- C04, several cuts in a printed `.properties` file: records (some with a check error, to be skipped and replaced by their
   reference record) and garbage lines (junk), in any arrangement in which a garbage line is followed by a record or the
   end of the file.  The walk reports exactly the spans that are cut; the staged text is a token text (records and
   blank lines) and re-parses without junk. -/
import CLModel.Proofs.C04Multi
import CLModel.Proofs.C04Splice
import CLModel.Proofs.C02XGarbage
namespace C04M
open P Rx Gen.Pat Merge

inductive Line
  | rcd (r : PRec) (bad : Option PRec)   -- a record; `some rref`: it has an error-level check result, `rref` is the reference record
  | garb (g : List Nat)                  -- a garbage line (junk)

def lineText : Line → List Nat
  | .rcd r _ => printRec r
  | .garb g => g ++ [10]

def linesText : List Line → List Nat
  | [] => []
  | l :: ls => lineText l ++ linesText ls

/-- the pieces of a line: a record with an error is cut WITHOUT its newline (the entity span ends before it) -/
def linePcs : Line → List Pc
  | .rcd r none => [.keep (printRec r)]
  | .rcd r (some rref) => [.cut (r.1 ++ 61 :: r.2) false (printRec rref), .keep [10]]
  | .garb g => [.cut (g ++ [10]) true []]

def linesPcs : List Line → List Pc
  | [] => []
  | l :: ls => linePcs l ++ linesPcs ls

/-- the entries the walk must report -/
def lentries : Nat → List Line → List Entry
  | _, [] => []
  | off, .rcd r _ :: ls =>
    propsEntity_c02 off r.1.length r.2.length :: wsEntry (off + r.1.length + 1 + r.2.length) ::
      lentries (off + r.1.length + 1 + r.2.length + 1) ls
  | off, .garb g :: ls => C02X.junkEntry off (off + g.length + 1) :: lentries (off + g.length + 1) ls

/-- the next line is a record, or the text ends -/
def startsRec : List Line → Prop
  | .garb _ :: _ => False
  | _ => True

def LinesOK : List Line → Prop
  | [] => True
  | .rcd r bad :: ls => SafeRec r ∧ (∀ rref, bad = some rref → SafeRec rref) ∧ LinesOK ls
  | .garb g :: ls => C02X.SafeGarbage g ∧ startsRec ls ∧ LinesOK ls

def lrecs : List Line → List PRec
  | [] => []
  | .rcd r _ :: ls => r :: lrecs ls
  | .garb _ :: ls => lrecs ls

def lgarb : List Line → List (List Nat)
  | [] => []
  | .rcd _ _ :: ls => lgarb ls
  | .garb g :: ls => (g ++ [10]) :: lgarb ls

/-- reference records of the skipped records, in file order -/
def lrefs : List Line → List PRec
  | [] => []
  | .rcd _ (some rref) :: ls => rref :: lrefs ls
  | .rcd _ none :: ls => lrefs ls
  | .garb _ :: ls => lrefs ls

/-- what is kept, as tokens: a skipped record leaves its newline -/
def ltoks : List Line → List C04R.Tok
  | [] => []
  | .rcd r none :: ls => .record r :: ltoks ls
  | .rcd _ (some _) :: ls => .nl :: ltoks ls
  | .garb _ :: ls => ltoks ls

theorem lineText_length (l : Line) : (pcText (linePcs l)).length = (lineText l).length := by
  cases l with
  | rcd r bad => cases bad <;> simp [linePcs, pcText, lineText, printRec] <;> omega
  | garb g => simp [linePcs, pcText, lineText]

theorem pcText_linePcs (l : Line) : pcText (linePcs l) = lineText l := by
  cases l with
  | rcd r bad => cases bad <;> simp [linePcs, pcText, lineText, printRec]
  | garb g => simp [linePcs, pcText, lineText]

theorem pcText_linesPcs : ∀ ls, pcText (linesPcs ls) = linesText ls
  | [] => rfl
  | l :: ls => by simp [linesPcs, linesText, pcText_append, pcText_linePcs, pcText_linesPcs ls]

theorem pcKept_linesPcs : ∀ ls, pcKept (linesPcs ls) = C04R.printToks (ltoks ls)
  | [] => rfl
  | .rcd r none :: ls => by simp [linesPcs, linePcs, pcKept, ltoks, C04R.printToks, pcKept_linesPcs ls]
  | .rcd r (some rref) :: ls => by
    simp [linesPcs, linePcs, pcKept, ltoks, C04R.printToks, pcKept_linesPcs ls]
  | .garb g :: ls => by simp [linesPcs, linePcs, pcKept, ltoks, pcKept_linesPcs ls]

theorem cutsNonempty_lines (ls : List Line) : CutsNonempty (linesPcs ls) := by
  induction ls with
  | nil => intro x j ra h; simp [linesPcs] at h
  | cons l ls ih =>
    intro x j ra h
    simp only [linesPcs, List.mem_append] at h
    rcases h with h | h
    · cases l with
      | rcd r bad =>
        cases bad with
        | none => simp [linePcs] at h
        | some rref =>
          simp [linePcs] at h
          obtain ⟨rfl, _, _⟩ := h
          simp
      | garb g =>
        simp [linePcs] at h
        obtain ⟨rfl, _, _⟩ := h
        simp
    · exact ih x j ra h

theorem refs_of_skips : ∀ (ls : List Line) (off : Nat),
    ((pcSkips off (linesPcs ls)).filter (fun s => !s.junk)).map (·.refAll) = (lrefs ls).map printRec
  | [], _ => rfl
  | .rcd r none :: ls, off => by
    simp only [linesPcs, linePcs, List.cons_append, List.nil_append, pcSkips, lrefs]
    exact refs_of_skips ls _
  | .rcd r (some rref) :: ls, off => by
    simp only [linesPcs, linePcs, List.cons_append, List.nil_append, pcSkips, lrefs, List.map_cons]
    rw [List.filter_cons_of_pos (by simp), List.map_cons, refs_of_skips ls _]
  | .garb g :: ls, off => by
    simp only [linesPcs, linePcs, List.cons_append, List.nil_append, pcSkips, lrefs]
    rw [List.filter_cons_of_neg (by simp), refs_of_skips ls _]

/-- every skip is the span of an entry the walk reports, junk for junk -/
theorem skips_are_entries : ∀ (ls : List Line) (off : Nat) (sk : Skip), sk ∈ pcSkips off (linesPcs ls) →
    ∃ e ∈ lentries off ls, sk.span = some (e.s, e.e) ∧ sk.junk = (e.kind == .junk)
  | [], _, sk, h => by simp [linesPcs, pcSkips] at h
  | .rcd r none :: ls, off, sk, h => by
    simp only [linesPcs, linePcs, List.cons_append, List.nil_append, pcSkips] at h
    rw [printRec_length, show off + (r.1.length + 1 + r.2.length + 1) = off + r.1.length + 1 + r.2.length + 1 by omega] at h
    obtain ⟨e, he, h1, h2⟩ := skips_are_entries ls _ sk h
    exact ⟨e, by simp [lentries, he], h1, h2⟩
  | .rcd r (some rref) :: ls, off, sk, h => by
    simp only [linesPcs, linePcs, List.cons_append, List.nil_append, pcSkips, List.mem_cons] at h
    rcases h with h | h
    · subst h
      refine ⟨propsEntity_c02 off r.1.length r.2.length, by simp [lentries], ?_, by simp [propsEntity_c02]⟩
      simp [propsEntity_c02]; omega
    · rw [show off + (r.1 ++ 61 :: r.2).length + [10].length = off + r.1.length + 1 + r.2.length + 1 by simp; omega] at h
      obtain ⟨e, he, h1, h2⟩ := skips_are_entries ls _ sk h
      exact ⟨e, by simp [lentries, he], h1, h2⟩
  | .garb g :: ls, off, sk, h => by
    simp only [linesPcs, linePcs, List.cons_append, List.nil_append, pcSkips, List.mem_cons] at h
    rcases h with h | h
    · subst h
      exact ⟨C02X.junkEntry off (off + g.length + 1), by simp [lentries], by simp [C02X.junkEntry]; omega,
        by simp [C02X.junkEntry]⟩
    · have e : (g ++ [10]).length = g.length + 1 := by simp
      rw [e, ← Nat.add_assoc] at h
      obtain ⟨e, he, h1, h2⟩ := skips_are_entries ls _ sk h
      exact ⟨e, by simp [lentries, he], h1, h2⟩

/-! ### the walk -/

theorem lines_head (s : Array Nat) (p : Nat) (ls : List Line) (h : s.toList.drop p = linesText ls) (hok : LinesOK ls) :
    s[p]? = none ∨ ∃ c, s[p]? = some c ∧ c ≠ 32 ∧ c ≠ 9 ∧ c ≠ 13 ∧ c ≠ 10 := by
  have g := get_of_drop s p 0 _ h
  simp only [Nat.add_zero] at g
  cases ls with
  | nil => left; simpa [linesText] using g
  | cons l ls' =>
    right
    cases l with
    | rcd r bad =>
      have hs : SafeRec r := hok.1
      have hkl : 0 < r.1.length := List.length_pos_iff.mpr hs.key_ne
      have f0 := keyChar_facts (hs.key r.1[0] (List.getElem_mem _))
      refine ⟨r.1[0], ?_, f0.2.2.1, f0.2.2.2.1, f0.2.2.2.2.1, f0.2.2.2.2.2.1⟩
      rw [g]
      simp [linesText, lineText, printRec, List.getElem?_append_left hkl]
    | garb gg =>
      have hg : C02X.SafeGarbage gg := hok.1
      have hgl : 0 < gg.length := List.length_pos_iff.mpr hg.ne
      have hh : gg.head? = some gg[0] := by rw [List.head?_eq_getElem?]; simp [hgl]
      have a := hg.head _ hh
      have b := hg.chars gg[0] (List.getElem_mem _)
      refine ⟨gg[0], ?_, a.1, a.2.1, a.2.2, b.2.2.2.2⟩
      rw [g]
      simp [linesText, lineText, List.getElem?_append_left hgl]

theorem walk_lines_from (s : Array Nat) :
    ∀ (ls : List Line) (off fuel : Nat), s.toList.drop off = linesText ls → LinesOK ls → 2 * ls.length ≤ fuel →
      walkFrom (fun (_ : Unit) o => (propsGetNext s o, ())) s.size fuel () off = .done (lentries off ls) := by
  intro ls
  induction ls with
  | nil =>
    intro off fuel h _ _
    exact C02X.walk_end _ _ _ _ _ (C02X.size_le_of_drop_nil s off (by simpa [linesText] using h))
  | cons l ls ih =>
    intro off fuel h hok hfuel
    cases l with
    | rcd r bad =>
      simp only [linesText, lineText] at h
      have hs : SafeRec r := hok.1
      have hok' : LinesOK ls := hok.2.2
      have hrec := recAt_of_drop s off r _ hs h
      obtain ⟨f, rfl⟩ : ∃ f, fuel = f + 1 + 1 := ⟨fuel - 2, by simp at hfuel; omega⟩
      have hnl := hrec.nl
      have hnlt := getElem?_some_lt hnl
      have hdrop : s.toList.drop (off + r.1.length + 1 + r.2.length + 1) = linesText ls := by
        have := C02X.drop_app s off _ _ h
        rw [printRec_length] at this
        rw [← this]; congr 1; omega
      have hnext := lines_head s _ ls hdrop hok'
      have e1 : propsGetNext s off = propsEntity_c02 off r.1.length r.2.length := props_entity_at s off _ _ hrec
      have e2 := props_ws_at s (off + r.1.length + 1 + r.2.length) hnl hnext
      rw [C02X.walk_step _ _ _ () () off (propsEntity_c02 off r.1.length r.2.length) (by omega) (by simp only [e1]),
        show (propsEntity_c02 off r.1.length r.2.length).e = off + r.1.length + 1 + r.2.length from rfl,
        C02X.walk_step _ _ _ () () _ (wsEntry (off + r.1.length + 1 + r.2.length)) (by omega) (by simp only [e2]),
        show (wsEntry (off + r.1.length + 1 + r.2.length)).e = off + r.1.length + 1 + r.2.length + 1 from rfl,
        ih _ f hdrop hok' (by simp at hfuel; omega)]
      simp [WalkResult.cons, lentries]
    | garb g =>
      simp only [linesText, lineText] at h
      have hg : C02X.SafeGarbage g := hok.1
      have hst : startsRec ls := hok.2.1
      have hok' : LinesOK ls := hok.2.2
      have hgar := C02X.garbageAt_of_drop s off g _ hg h
      obtain ⟨f, rfl⟩ : ∃ f, fuel = f + 1 := ⟨fuel - 1, by simp at hfuel; omega⟩
      have hdrop : s.toList.drop (off + g.length + 1) = linesText ls := by
        have := C02X.drop_app s off _ _ h
        simpa [Nat.add_assoc] using this
      have hlen : (g ++ [10]).length + (linesText ls).length = s.size - off := by
        have := congrArg List.length h
        simp at this
        simp; omega
      have hnext : (∃ st, matchAt s PropertiesParser_reKey (off + g.length + 1) = some st) ∨ off + g.length + 1 = s.size := by
        cases ls with
        | nil => right; simp [linesText] at hlen; omega
        | cons l' ls' =>
          cases l' with
          | garb g' => exact absurd hst (by simp [startsRec])
          | rcd r' bad' =>
            left
            simp only [linesText, lineText] at hdrop
            exact ⟨_, key_match s _ _ _ (recAt_of_drop s _ r' _ hok'.1 hdrop)⟩
      have ej := C02X.garbage_entry_at s off g.length hgar hnext
      have hlt : off < s.size := by simp at hlen; omega
      rw [C02X.walk_step _ _ _ () () off (C02X.junkEntry off (off + g.length + 1)) hlt (by simp only [ej]),
        show (C02X.junkEntry off (off + g.length + 1)).e = off + g.length + 1 from rfl,
        ih _ f hdrop hok' (by simp at hfuel; omega)]
      simp [WalkResult.cons, lentries]

theorem linesText_length_ge : ∀ (ls : List Line), LinesOK ls → 2 * ls.length ≤ (linesText ls).length
  | [], _ => by simp
  | .rcd r bad :: ls, h => by
    have := linesText_length_ge ls h.2.2
    simp only [linesText, lineText, List.length_append, printRec_length, List.length_cons]
    omega
  | .garb g :: ls, h => by
    have := linesText_length_ge ls h.2.2
    have hg : 0 < g.length := List.length_pos_iff.mpr h.1.ne
    simp only [linesText, lineText, List.length_append, List.length_cons, List.length_nil]
    omega

/-- garbage locality for any number of garbage lines: the walk reports one junk entry per garbage line, spanning exactly
    the line with its newline, and one entity per record -/
theorem walk_lines (ls : List Line) (hok : LinesOK ls) :
    walk .properties (linesText ls).toArray = .done (lentries 0 ls) := by
  unfold walk
  simp only []
  apply walk_lines_from
  · simp
  · exact hok
  · have := linesText_length_ge ls hok
    simp; omega

theorem views_lentries (s : Array Nat) :
    ∀ (ls : List Line) (off : Nat), s.toList.drop off = linesText ls → LinesOK ls →
      entitiesOf .properties s (lentries off ls) = (lrecs ls).map expectedView ∧ junkOf s (lentries off ls) = lgarb ls := by
  intro ls
  induction ls with
  | nil => intro off _ _; simp [entitiesOf, junkOf, lentries, lrecs, lgarb]
  | cons l ls ih =>
    intro off h hok
    cases l with
    | rcd r bad =>
      simp only [linesText, lineText] at h
      have hdrop : s.toList.drop (off + r.1.length + 1 + r.2.length + 1) = linesText ls := by
        have := C02X.drop_app s off _ _ h
        rw [printRec_length] at this
        rw [← this]; congr 1; omega
      obtain ⟨ih1, ih2⟩ := ih _ hdrop hok.2.2
      have hv := entView_propsEntity s off r _ hok.1 h
      constructor
      · simp only [entitiesOf] at ih1 ⊢
        simp only [lentries, lrecs, List.map_cons]
        rw [List.filter_cons_of_pos (by simp [propsEntity_c02]), List.filter_cons_of_neg (by simp [wsEntry]),
          List.map_cons, hv, ih1]
      · simp only [junkOf] at ih2 ⊢
        simp only [lentries, lgarb]
        rw [List.filter_cons_of_neg (by simp [propsEntity_c02]), List.filter_cons_of_neg (by simp [wsEntry]), ih2]
    | garb g =>
      simp only [linesText, lineText] at h
      have hdrop : s.toList.drop (off + g.length + 1) = linesText ls := by
        have := C02X.drop_app s off _ _ h
        simpa [Nat.add_assoc] using this
      obtain ⟨ih1, ih2⟩ := ih _ hdrop hok.2.2
      have hsl : slice s off (off + g.length + 1) = g ++ [10] := by
        have := slice_take s off (g.length + 1) _ h (by simp)
        rw [show off + (g.length + 1) = off + g.length + 1 by omega] at this
        rw [this, List.take_left' (by simp)]
      constructor
      · simp only [entitiesOf] at ih1 ⊢
        simp only [lentries, lrecs]
        rw [List.filter_cons_of_neg (by simp [C02X.junkEntry]), ih1]
      · simp only [junkOf] at ih2 ⊢
        simp only [lentries, lgarb]
        rw [List.filter_cons_of_pos (by simp [C02X.junkEntry]), List.map_cons, ih2]
        simp only [C02X.junkEntry]
        rw [hsl]

/-! ### what `merge` stages -/

theorem trailing_lines (ls : List Line) (ms : List PRec) :
    trailing (ms.map printRec) (pcSkips 0 (linesPcs ls)) = 10 :: printProps (ms ++ lrefs ls) := by
  have e2 : trailing (ms.map printRec) (pcSkips 0 (linesPcs ls)) =
      ensureNewline [10] ++ ((ms.map printRec ++ (lrefs ls).map printRec).map ensureNewline).flatten := by
    simp [trailing, refs_of_skips]
  rw [e2, ← List.map_append, C04R.flatten_ensure_printed]
  simp [ensureNewline]

/-- `merge` for a mergeable format (`.properties`, `.ini`, `.dtd`: CAN_SKIP | CAN_MERGE) with the skips of a line list,
    given in any order -/
theorem merge_lines (ls : List Line) (ms : List PRec) (perm : List Skip)
    (hp : perm.Perm (pcSkips 0 (linesPcs ls))) (hne : perm ≠ []) :
    C04R.staged (linesText ls) (merge true Gen.Tables.cap_properties (linesText ls) perm (ms.map printRec)) =
      some (C04R.printToks (ltoks ls) ++ 10 :: printProps (ms ++ lrefs ls)) := by
  have hs := sortSkips_pieces (linesPcs ls) perm (cutsNonempty_lines ls) hp
  have hc := chunks_pieces (linesPcs ls)
  rw [pcText_linesPcs, pcKept_linesPcs] at hc
  have hemp : perm.isEmpty = false := by cases perm <;> simp_all
  simp only [merge, hasCap, Gen.Tables.cap_properties, Gen.Tables.CAN_SKIP, Gen.Tables.CAN_MERGE, Gen.Tables.CAN_COPY,
    Gen.Tables.CAN_NONE, hemp, hs]
  simp [C04R.staged, hc, trailing_lines]

end C04M

import CLModel.Proofs.C09WalkFacts
namespace C09P
open AndroidP

theorem walkStep_facts {ol : Bool} {n : DNode} {r : List DNode} {s : Step} (h : walkStep ol n r = some s) :
    StepFacts ol n r s := step_facts (walkStep_cases h)

theorem walkStep_rest_length {ol : Bool} {n : DNode} {r : List DNode} {s : Step} (h : walkStep ol n r = some s) :
    s.rest.length ≤ r.length := by
  obtain ⟨pre, h1, h2, _⟩ := (walkStep_facts h).ex
  have := congrArg List.length h1
  cases pre with
  | nil => exact absurd rfl h2
  | cons x xs => simp at this; omega

theorem walkLoop_succ (ol : Bool) {f : Nat} (n : DNode) (r : List DNode) (hf : 0 < f) :
    walkLoop ol (f + 1) (n :: r) =
      (walkStep ol n r).bind (fun s => (walkLoop ol f s.rest).map (s.out ++ ·)) := by
  obtain ⟨f', rfl⟩ : ∃ f', f = f' + 1 := ⟨f - 1, by omega⟩
  rw [walkLoop]
  cases h : walkStep ol n r with
  | none => simp
  | some s =>
    cases s with
    | stop out => simp [Step.rest, Step.out, walkLoop]
    | cont out rest => simp [Step.rest, Step.out]

/-- induction principle for the loop of `walk` -/
theorem walkLoop_induct {ol : Bool} (P : List DNode → List Entry → Prop) (hnil : P [] [])
    (hstep : ∀ n r s es, walkStep ol n r = some s → P s.rest es → P (n :: r) (s.out ++ es)) :
    ∀ f cs es, cs.length < f → walkLoop ol f cs = some es → P cs es := by
  intro f
  induction f with
  | zero => intro cs es h; omega
  | succ f ih =>
    intro cs es hlen h
    cases cs with
    | nil => simp [walkLoop] at h; subst h; exact hnil
    | cons n r =>
      simp at hlen
      rw [walkLoop_succ ol n r (by omega)] at h
      cases hs : walkStep ol n r with
      | none => simp [hs] at h
      | some s =>
        simp [hs] at h
        obtain ⟨es', h1, rfl⟩ := h
        exact hstep n r s es' hs (ih s.rest es' (by have := walkStep_rest_length hs; omega) h1)

theorem walkLoop_fuel (ol : Bool) : ∀ f g cs, cs.length < f → cs.length < g → walkLoop ol f cs = walkLoop ol g cs := by
  intro f
  induction f with
  | zero => intro g cs h; omega
  | succ f ih =>
    intro g cs hf hg
    obtain ⟨g', rfl⟩ : ∃ g', g = g' + 1 := ⟨g - 1, by omega⟩
    cases cs with
    | nil => simp [walkLoop]
    | cons n r =>
      simp at hf hg
      rw [walkLoop_succ ol n r (by omega), walkLoop_succ ol n r (by omega)]
      cases hs : walkStep ol n r with
      | none => simp
      | some s =>
        have := walkStep_rest_length hs
        simp [ih g' s.rest (by omega) (by omega)]

theorem walkLoop_elements {ol : Bool} {f : Nat} {cs : List DNode} {es : List Entry} (hlen : cs.length < f)
    (h : walkLoop ol f cs = some es) :
    (es.filter isLoc).map core = (cs.filter DNode.isElement).map (elemEntry none none) := by
  refine walkLoop_induct (ol := ol) (fun cs es => (es.filter isLoc).map core = (cs.filter DNode.isElement).map (elemEntry none none))
    rfl ?_ f cs es hlen h
  intro n r s es hs ih
  obtain ⟨pre, h1, _, h3, _⟩ := (walkStep_facts hs).ex
  rw [h1]
  simp [List.filter_append, h3, ih]

theorem walkLoop_sublist {f : Nat} {cs : List DNode} {es : List Entry} (hlen : cs.length < f)
    (h : walkLoop false f cs = some es) :
    ∃ ks, ks.Sublist cs ∧ allText es = toxmlList ks := by
  refine walkLoop_induct (ol := false) (fun cs es => ∃ ks, ks.Sublist cs ∧ allText es = toxmlList ks)
    ⟨[], List.Sublist.refl _, rfl⟩ ?_ f cs es hlen h
  intro n r s es hs ⟨ks2, hsub2, hall2⟩
  obtain ⟨pre, h1, _, _, h4⟩ := (walkStep_facts hs).ex
  obtain ⟨ks1, hsub1, hall1, _⟩ := h4 rfl
  refine ⟨ks1 ++ ks2, ?_, ?_⟩
  · rw [h1]; exact List.Sublist.append hsub1 hsub2
  · simp only [allText] at hall1 hall2 ⊢
    simp [List.flatMap_append, hall1, hall2, toxmlList_append]

theorem walkLoop_clean {f : Nat} {cs : List DNode} {es : List Entry} (hlen : cs.length < f)
    (h : walkLoop false f cs = some es) (hcl : Clean cs) : allText es = toxmlList cs := by
  refine walkLoop_induct (ol := false) (fun cs es => Clean cs → allText es = toxmlList cs)
    (fun _ => rfl) ?_ f cs es hlen h hcl
  intro n r s es hs ih hcl
  obtain ⟨pre, h1, _, _, h4⟩ := (walkStep_facts hs).ex
  obtain ⟨ks1, _, hall1, heq⟩ := h4 rfl
  have hk := heq hcl
  subst hk
  have hcl2 : Clean s.rest := by rw [h1] at hcl; exact clean_suffix hcl
  rw [h1]
  simp only [allText] at hall1 ⊢
  have := ih hcl2
  simp only [allText] at this
  simp [List.flatMap_append, hall1, this, toxmlList_append]

end C09P

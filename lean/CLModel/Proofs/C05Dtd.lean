/-
C05 pipeline, DTD files: `DTDChecker.check` (the model of C07, Checks/Dtd.lean) never raises inside the pipeline, for
EVERY verdict function of the external XML parser, provided the texts hold Unicode scalar values only (what
`Parser.readFile` guarantees: `Pipe.decode` never produces a surrogate) — the only `raise` left in the model is the
`UnicodeEncodeError` of `str.encode("utf-8")` on a lone surrogate.  The `IndexError` of `lines[lnr - 1]` on an empty
value (fixed by f80b06f) is ruled out by `Dtd.errorPos_isSome` (C07): with the fix reverted in the model, that lemma
and hence `check_no_exc` below fail.
Core Lean only.
-/
import CLModel.Proofs.C05Pipe
import CLModel.Proofs.C05Lint
import CLModel.Proofs.C07Model
import CLModel.Proofs.RxSearch
namespace C05Dtd
open Dtd

/-- a Unicode scalar value: a code point that is not a surrogate -/
def Scalar (c : Nat) : Prop := c < 0x110000 ∧ ¬ (0xD800 ≤ c ∧ c ≤ 0xDFFF)

instance (c : Nat) : Decidable (Scalar c) := by unfold Scalar; infer_instance

/-- a text `str.encode("utf-8")` accepts -/
def ScalarText (t : List Nat) : Prop := ∀ c ∈ t, Scalar c

theorem ScalarText.append {a b : List Nat} (ha : ScalarText a) (hb : ScalarText b) : ScalarText (a ++ b) := by
  intro c hc
  rcases List.mem_append.1 hc with h | h
  · exact ha c h
  · exact hb c h

theorem ScalarText.sub {a b : List Nat} (hb : ScalarText b) (h : ∀ c ∈ a, c ∈ b) : ScalarText a :=
  fun c hc => hb c (h c hc)

theorem utf8Char_some (c : Nat) (h : Scalar c) : ∃ b, utf8Char c = some b := by
  obtain ⟨h1, h2⟩ := h
  unfold utf8Char
  split
  · exact ⟨_, rfl⟩
  · split
    · exact ⟨_, rfl⟩
    · split
      · rename_i hs
        simp only [Bool.and_eq_true, decide_eq_true_eq] at hs
        exact absurd hs h2
      · split
        · exact ⟨_, rfl⟩
        · simp [h1]

theorem utf8_some : ∀ (t : List Nat), ScalarText t → ∃ b, utf8 t = some b
  | [], _ => ⟨[], rfl⟩
  | c :: cs, h => by
    obtain ⟨a, ha⟩ := utf8Char_some c (h c (by simp))
    obtain ⟨b, hb⟩ := utf8_some cs (fun x hx => h x (by simp [hx]))
    exact ⟨a ++ b, by simp [utf8, ha, hb]⟩

theorem utf8Char_scalar (c : Nat) (b : Bytes) (h : utf8Char c = some b) : Scalar c := by
  unfold utf8Char at h
  unfold Scalar
  by_cases h1 : c < 0x80
  · omega
  · by_cases h2 : c < 0x800
    · omega
    · by_cases h3 : 0xD800 ≤ c ∧ c ≤ 0xDFFF
      · simp [h1, h2, h3] at h
      · by_cases h4 : c < 0x10000
        · omega
        · by_cases h5 : c < 0x110000
          · omega
          · have : ¬ (55296 ≤ c ∧ c ≤ 57343) := h3
            simp [h1, h2, h4, h5, this] at h

/-- … and only those: a lone surrogate or a number beyond U+10FFFF makes `encode` raise -/
theorem utf8_some_iff (t : List Nat) : (utf8 t).isSome ↔ ScalarText t := by
  constructor
  · induction t with
    | nil => intro _ c hc; cases hc
    | cons c cs ih =>
      intro h
      simp only [utf8] at h
      cases hc : utf8Char c with
      | none => simp [hc] at h
      | some a =>
        cases hcs : utf8 cs with
        | none => simp [hc, hcs] at h
        | some b =>
          intro x hx
          simp only [List.mem_cons] at hx
          rcases hx with rfl | hx
          · exact utf8Char_scalar _ _ hc
          · exact ih (by simp [hcs]) x hx
  · intro h
    obtain ⟨b, hb⟩ := utf8_some t h
    simp [hb]

/-! ### the names the checker declares are pieces of the values -/

theorem mem_slice {s : Array Nat} {a b c : Nat} (h : c ∈ Dtd.slice s a b) : c ∈ s.toList := by
  unfold Dtd.slice at h
  rw [Array.toList_extract] at h
  simp only [List.extract_eq_take_drop] at h
  exact List.mem_of_mem_drop (List.mem_of_mem_take h)

theorem erefNames_sub (v : Text) : ∀ n ∈ erefNames v, ∀ c ∈ n, c ∈ v := by
  intro n hn c hc
  unfold erefNames at hn
  simp only [List.mem_filterMap] at hn
  obtain ⟨p, _, hp⟩ := hn
  split at hp
  · simp only [Option.some.injEq] at hp
    subst hp
    simpa using mem_slice hc
  · cases hp

/-- the texts whose pieces end up in the documents built for one pair of entities -/
def InpScalar (i : Inp) : Prop :=
  (∀ v ∈ Dtd.refValsOf i, ScalarText v) ∧
  ScalarText i.ref.key ∧ ScalarText i.ref.all ∧ ScalarText i.ref.val ∧
  ScalarText i.l10n.key ∧ ScalarText i.l10n.all ∧ ScalarText i.l10n.val

theorem entityDecls_scalar (names : List Text) (h : ∀ n ∈ names, ScalarText n) : ScalarText (entityDecls names) := by
  intro c hc
  simp only [entityDecls, List.mem_flatten, List.mem_map] at hc
  obtain ⟨l, ⟨n, hn, rfl⟩, hcl⟩ := hc
  simp only [List.mem_append] at hcl
  rcases hcl with (hcl | hcl) | hcl
  · revert c; decide
  · exact h n hn c hcl
  · revert c; decide

theorem known_scalar (i : Inp) (h : InpScalar i) : ∀ n ∈ knownEntities i, ScalarText n := by
  intro n hn
  obtain ⟨v, hv, hnv, _⟩ := Dtd.mem_knownEntities.1 hn
  exact (h.1 v hv).sub (erefNames_sub v n hnv)

theorem missing_scalar (i : Inp) (h : InpScalar i) : ∀ n ∈ missingOf i, ScalarText n := by
  intro n hn
  obtain ⟨hnv, _, _⟩ := Dtd.mem_missingOf.1 hn
  exact h.2.2.2.2.2.2.sub (erefNames_sub _ n hnv)

theorem refDecls_scalar (i : Inp) (h : InpScalar i) : ScalarText (refDecls i) :=
  entityDecls_scalar _ (known_scalar i h)

theorem l10nDecls_scalar (i : Inp) (h : InpScalar i) : ScalarText (l10nDecls i) :=
  (refDecls_scalar i h).append (entityDecls_scalar _ (missing_scalar i h))

theorem docValue_some (e v : Text) (he : ScalarText e) (hv : ScalarText v) : ∃ d, docValue e v = some d := by
  obtain ⟨a, ha⟩ := utf8_some e he
  obtain ⟨b, hb⟩ := utf8_some v hv
  exact ⟨tmpl a b, by simp [docValue, ha, hb]⟩

theorem docDecl_some (e : Text) (x : Dtd.Ent) (he : ScalarText e) (hk : ScalarText x.key) (ha : ScalarText x.all) :
    ∃ d, docDecl e x = some d := by
  obtain ⟨a, ha'⟩ := utf8_some (x.all ++ e) (ha.append he)
  obtain ⟨b, hb⟩ := utf8_some x.key hk
  exact ⟨tmpl a (38 :: b ++ [59]), by simp [docDecl, ha', hb]⟩

/-! ### `DTDChecker.check` raises nothing -/

theorem andThen_exc (a : Out) (f : Unit → Out) (ha : a.exc = none) (hf : (f ()).exc = none) : (a.andThen f).exc = none := by
  unfold Out.andThen
  simp [ha, hf]

theorem refSection_no_exc (xml : Bytes → ParseRes) (i : Inp) (h : InpScalar i) : (refSection xml i).exc = none := by
  obtain ⟨d1, h1⟩ := docValue_some (refDecls i) i.ref.val (refDecls_scalar i h) h.2.2.2.1
  obtain ⟨d2, h2⟩ := docDecl_some (refDecls i) i.ref (refDecls_scalar i h) h.2.1 h.2.2.1
  unfold refSection
  simp only [h1, h2]
  repeat' split
  all_goals rfl

theorem xmlError_no_exc (v : Text) (e : Nat × Nat × Text) : (xmlError v e).exc = none := by
  rw [(Dtd.xmlError_eq v e).1]; rfl

theorem l10nSection_no_exc (xml : Bytes → ParseRes) (i : Inp) (h : InpScalar i) : (l10nSection xml i).1.exc = none := by
  obtain ⟨d3, h3⟩ := docValue_some (l10nDecls i) i.l10n.val (l10nDecls_scalar i h) h.2.2.2.2.2.2
  obtain ⟨d4, h4⟩ := docDecl_some (l10nDecls i) i.l10n (l10nDecls_scalar i h) h.2.2.2.2.1 h.2.2.2.2.2.1
  unfold l10nSection
  simp only [h3, h4]
  repeat' split
  all_goals first | rfl | exact xmlError_no_exc _ _

/-- **the DTD checker never raises** on scalar texts without "android-dtd", whatever expat answers -/
theorem check_no_exc (xml : Bytes → ParseRes) (i : Inp) (ha : i.android = false) (h : InpScalar i) :
    (check xml i).exc = none := by
  unfold check
  refine andThen_exc _ _ rfl ?_
  refine andThen_exc _ _ (refSection_no_exc xml i h) ?_
  refine andThen_exc _ _ (l10nSection_no_exc xml i h) ?_
  refine andThen_exc _ _ rfl ?_
  simp [ha, Out.ok]

end C05Dtd

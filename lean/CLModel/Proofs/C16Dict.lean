/-
Helper lemmas for C16: insertion-ordered dicts (`AR.dset`/`AR.dget` folds), "last match",
first occurrences, and the generic whitespace-folding step.  Core Lean only.
-/
import CLModel.Compare.AddRemove
import CLModel.Proofs.AddRemove
namespace C16L
open AR

variable {α : Type} [BEq α] [LawfulBEq α] {β : Type}

/-! ### `lastMatch`: what a dict built from a list of pairs holds for a key -/

/-- the last element satisfying `p` -/
def lastMatch {γ : Type} (p : γ → Bool) : List γ → Option γ
  | [] => none
  | x :: xs => match lastMatch p xs with
    | some y => some y
    | none => if p x then some x else none

theorem lastMatch_some {γ : Type} {p : γ → Bool} {l : List γ} {x : γ} (h : lastMatch p l = some x) :
    x ∈ l ∧ p x = true := by
  induction l with
  | nil => simp [lastMatch] at h
  | cons y ys ih =>
    simp only [lastMatch] at h
    cases hm : lastMatch p ys with
    | some z =>
      rw [hm] at h
      simp only [Option.some.injEq] at h
      subst h
      exact ⟨List.mem_cons_of_mem _ (ih hm).1, (ih hm).2⟩
    | none =>
      rw [hm] at h
      by_cases hp : p y = true
      · simp only [hp, if_true, Option.some.injEq] at h
        subst h
        exact ⟨List.mem_cons_self, hp⟩
      · simp [hp] at h

theorem lastMatch_none {γ : Type} {p : γ → Bool} {l : List γ} (h : lastMatch p l = none) :
    ∀ x ∈ l, p x = false := by
  induction l with
  | nil => simp
  | cons y ys ih =>
    simp only [lastMatch] at h
    cases hm : lastMatch p ys with
    | some z => rw [hm] at h; simp at h
    | none =>
      rw [hm] at h
      intro x hx
      rw [List.mem_cons] at hx
      rcases hx with rfl | hx
      · by_cases hp : p x = true
        · simp [hp] at h
        · simpa using hp
      · exact ih hm x hx

theorem lastMatch_eq_none_iff {γ : Type} {p : γ → Bool} {l : List γ} :
    lastMatch p l = none ↔ ∀ x ∈ l, p x = false := by
  refine ⟨lastMatch_none, ?_⟩
  intro h
  cases hm : lastMatch p l with
  | none => rfl
  | some x =>
    have := lastMatch_some hm
    rw [h x this.1] at this
    simp at this

/-- if only one element can match, it is the last match -/
theorem lastMatch_unique {γ : Type} {p : γ → Bool} {l : List γ} {x : γ} (hx : x ∈ l) (hp : p x = true)
    (hu : ∀ y ∈ l, p y = true → y = x) : lastMatch p l = some x := by
  cases hm : lastMatch p l with
  | none => have := lastMatch_none hm x hx; rw [hp] at this; simp at this
  | some y =>
    have := lastMatch_some hm
    rw [hu y this.1 this.2]

theorem lastMatch_map {γ δ : Type} (p : γ → Bool) (q : δ → Bool) (f : γ → δ) (l : List γ)
    (h : ∀ x ∈ l, q (f x) = p x) : lastMatch q (l.map f) = (lastMatch p l).map f := by
  induction l with
  | nil => rfl
  | cons y ys ih =>
    have ih' := ih (fun x hx => h x (List.mem_cons_of_mem _ hx))
    simp only [List.map_cons, lastMatch, ih']
    cases lastMatch p ys with
    | some z => rfl
    | none =>
      simp only [Option.map_none]
      rw [h y List.mem_cons_self]
      cases p y <;> rfl

theorem lastMatch_congr {γ : Type} (p q : γ → Bool) (l : List γ) (h : ∀ x ∈ l, p x = q x) :
    lastMatch p l = lastMatch q l := by
  have := lastMatch_map q p id l (fun x hx => h x hx)
  simpa using this

theorem lastMatch_filter {γ : Type} (p f : γ → Bool) (l : List γ) :
    lastMatch p (l.filter f) = lastMatch (fun x => f x && p x) l := by
  induction l with
  | nil => rfl
  | cons y ys ih =>
    rw [List.filter_cons]
    cases hf : f y
    · simp only [Bool.false_eq_true, if_false, lastMatch, ih, hf, Bool.false_and]
      cases lastMatch (fun x => f x && p x) ys <;> rfl
    · simp only [if_true, lastMatch, ih, hf, Bool.true_and]

/-- `d[k]` after `for (k, v) in ps: d[k] = v` -/
theorem dget_foldl_dset (ps : List (α × β)) (d : List (α × β)) (k : α) :
    dget (ps.foldl (fun d p => dset d p.1 p.2) d) k
      = match lastMatch (fun p => p.1 == k) ps with
        | some p => some p.2
        | none => dget d k := by
  induction ps generalizing d with
  | nil => rfl
  | cons p ps ih =>
    rw [List.foldl_cons, ih]
    simp only [lastMatch]
    cases lastMatch (fun p => p.1 == k) ps with
    | some q => rfl
    | none =>
      simp only
      rw [dget_dset]
      by_cases h : (p.1 == k) = true <;> simp [h]

/-! ### keys of a dict built by `dset` -/

theorem dset_keys (d : List (α × β)) (k : α) (v : β) :
    (dset d k v).map (·.1) = if k ∈ d.map (·.1) then d.map (·.1) else d.map (·.1) ++ [k] := by
  unfold dset
  by_cases h : d.any (·.1 == k) = true
  · have hk : k ∈ d.map (·.1) := by
      rw [List.any_eq_true] at h
      obtain ⟨p, hp, hpk⟩ := h
      rw [List.mem_map]
      exact ⟨p, hp, eq_of_beq hpk⟩
    simp only [h, if_true, hk, List.map_map]
    apply List.map_congr_left
    intro p _
    simp only [Function.comp]
    by_cases hp : p.1 == k
    · simp [hp, eq_of_beq hp]
    · simp [hp]
  · have hk : ¬ k ∈ d.map (·.1) := by
      intro hk
      apply h
      rw [List.mem_map] at hk
      obtain ⟨p, hp, rfl⟩ := hk
      rw [List.any_eq_true]
      exact ⟨p, hp, by simp⟩
    simp [h, hk]

/-- first occurrences, in order: the key order of a dict filled from a sequence -/
def firstOcc (l : List α) : List α := l.foldl (fun acc x => if acc.contains x then acc else acc ++ [x]) []

theorem foldl_dset_keys (ps : List (α × β)) (d : List (α × β)) :
    (ps.foldl (fun d p => dset d p.1 p.2) d).map (·.1)
      = (ps.map (·.1)).foldl (fun acc x => if acc.contains x then acc else acc ++ [x]) (d.map (·.1)) := by
  induction ps generalizing d with
  | nil => rfl
  | cons p ps ih =>
    rw [List.foldl_cons, ih, List.map_cons, List.foldl_cons, dset_keys]
    congr 1
    by_cases h : p.1 ∈ d.map (·.1)
    · have : (d.map (·.1)).contains p.1 = true := by simpa using h
      simp only [h, if_true, this]
    · have : (d.map (·.1)).contains p.1 = false := by simpa using h
      simp [h, this]

theorem firstOcc_fold_nodup (l acc : List α) (h : acc.Nodup) :
    (l.foldl (fun acc x => if acc.contains x then acc else acc ++ [x]) acc).Nodup := by
  induction l generalizing acc with
  | nil => exact h
  | cons x xs ih =>
    rw [List.foldl_cons]
    apply ih
    by_cases hx : acc.contains x = true
    · simp only [hx, if_true]; exact h
    · simp only [hx, Bool.false_eq_true, if_false]
      rw [List.nodup_append]
      refine ⟨h, by simp, ?_⟩
      intro a ha b hb e
      rw [List.mem_singleton] at hb
      subst hb e
      exact hx (by simpa using ha)

theorem firstOcc_nodup (l : List α) : (firstOcc l).Nodup := firstOcc_fold_nodup l [] List.nodup_nil

theorem firstOcc_fold_mem (l acc : List α) (x : α) :
    x ∈ l.foldl (fun acc x => if acc.contains x then acc else acc ++ [x]) acc ↔ x ∈ acc ∨ x ∈ l := by
  induction l generalizing acc with
  | nil => simp
  | cons y ys ih =>
    rw [List.foldl_cons, ih]
    by_cases hy : acc.contains y = true
    · simp only [hy, if_true, List.mem_cons]
      have : y ∈ acc := by simpa using hy
      constructor
      · rintro (h | h)
        · exact .inl h
        · exact .inr (.inr h)
      · rintro (h | rfl | h)
        · exact .inl h
        · exact .inl this
        · exact .inr h
    · simp only [hy, Bool.false_eq_true, if_false, List.mem_append, List.mem_cons, List.not_mem_nil, or_false]
      constructor
      · rintro ((h | h) | h)
        · exact .inl h
        · exact .inr (.inl h)
        · exact .inr (.inr h)
      · rintro (h | h | h)
        · exact .inl (.inl h)
        · exact .inl (.inr h)
        · exact .inr h

theorem mem_firstOcc (l : List α) (x : α) : x ∈ firstOcc l ↔ x ∈ l := by
  rw [firstOcc, firstOcc_fold_mem]; simp

theorem firstOcc_fold_of_nodup (l acc : List α) (h : (acc ++ l).Nodup) :
    l.foldl (fun acc x => if acc.contains x then acc else acc ++ [x]) acc = acc ++ l := by
  induction l generalizing acc with
  | nil => simp
  | cons x xs ih =>
    rw [List.foldl_cons]
    have hx : acc.contains x = false := by
      rw [List.nodup_append] at h
      have := h.2.2
      simp only [List.contains_eq_mem, decide_eq_false_iff_not]
      intro hx
      exact this x hx x List.mem_cons_self rfl
    simp only [hx, Bool.false_eq_true, if_false]
    rw [ih]
    · simp
    · simpa using h

/-- duplicate-free sequences are their own first occurrences -/
theorem firstOcc_of_nodup (l : List α) (h : l.Nodup) : firstOcc l = l := by
  have := firstOcc_fold_of_nodup l [] (by simpa using h)
  simpa [firstOcc] using this

/-- `firstOcc` commutes with a partial map that is injective where defined -/
theorem firstOcc_filterMap {γ : Type} [BEq γ] [LawfulBEq γ] (f : α → Option γ)
    (hinj : ∀ a a' b, f a = some b → f a' = some b → a = a') (l acc : List α) :
    (l.filterMap f).foldl (fun acc x => if acc.contains x then acc else acc ++ [x]) (acc.filterMap f)
      = (l.foldl (fun acc x => if acc.contains x then acc else acc ++ [x]) acc).filterMap f := by
  induction l generalizing acc with
  | nil => rfl
  | cons x xs ih =>
    rw [List.foldl_cons, List.filterMap_cons]
    cases hf : f x with
    | none =>
      simp only
      rw [← ih]
      congr 1
      by_cases hx : x ∈ acc
      · simp [hx]
      · simp [hx, List.filterMap_append, hf]
    | some b =>
      simp only
      rw [List.foldl_cons]
      have hc : (acc.filterMap f).contains b = acc.contains x := by
        rw [Bool.eq_iff_iff]
        simp only [List.contains_eq_mem, decide_eq_true_eq, List.mem_filterMap]
        constructor
        · rintro ⟨a, ha, hab⟩
          rw [← hinj a x b hab hf]; exact ha
        · intro hx; exact ⟨x, hx, hf⟩
      rw [hc]
      by_cases hx : acc.contains x = true
      · simp only [hx, if_true]; exact ih acc
      · simp only [hx, Bool.false_eq_true, if_false]
        rw [← ih]
        congr 1
        simp [List.filterMap_append, hf]

theorem firstOcc_filterMap' {γ : Type} [BEq γ] [LawfulBEq γ] (f : α → Option γ)
    (hinj : ∀ a a' b, f a = some b → f a' = some b → a = a') (l : List α) :
    firstOcc (l.filterMap f) = (firstOcc l).filterMap f := by
  have := firstOcc_filterMap f hinj l []
  simpa [firstOcc] using this

/-- key order of `OrderedDict(pairs)` -/
theorem mkDict_keys (ps : List (α × β)) :
    (ps.foldl (fun d p => dset d p.1 p.2) []).map (·.1) = firstOcc (ps.map (·.1)) := by
  rw [foldl_dset_keys]; rfl

theorem mkDict_keys_nodup (ps : List (α × β)) :
    ((ps.foldl (fun d p => dset d p.1 p.2) []).map (·.1)).Nodup := by
  rw [mkDict_keys]; exact firstOcc_nodup _

/-- a list of pairs with distinct keys is the dict it builds -/
theorem foldl_dset_of_nodup (ps d : List (α × β)) (h : ((d ++ ps).map (·.1)).Nodup) :
    ps.foldl (fun d p => dset d p.1 p.2) d = d ++ ps := by
  induction ps generalizing d with
  | nil => simp
  | cons p ps ih =>
    rw [List.foldl_cons]
    have hp : p.1 ∉ d.map (·.1) := by
      rw [List.map_append, List.nodup_append] at h
      intro hx
      exact h.2.2 _ hx _ (by simp) rfl
    rw [dset_of_not_mem _ hp, ih]
    · simp
    · simpa using h

theorem mkDict_of_nodup (ps : List (α × β)) (h : (ps.map (·.1)).Nodup) :
    ps.foldl (fun d p => dset d p.1 p.2) [] = ps := by
  have := foldl_dset_of_nodup ps [] (by simpa using h)
  simpa using this

/-- every pair of the built dict is one of the inserted pairs (or was there before) -/
theorem mem_foldl_dset (ps d : List (α × β)) (q : α × β)
    (h : q ∈ ps.foldl (fun d p => dset d p.1 p.2) d) : q ∈ d ∨ q ∈ ps := by
  induction ps generalizing d with
  | nil => exact .inl h
  | cons p ps ih =>
    rw [List.foldl_cons] at h
    rcases ih _ h with h | h
    · unfold dset at h
      split at h
      · rw [List.mem_map] at h
        obtain ⟨r, hr, hq⟩ := h
        split at hq
        · exact .inr (by rw [← hq]; exact List.mem_cons_self)
        · exact .inl (by rw [← hq]; exact hr)
      · rw [List.mem_append, List.mem_singleton] at h
        rcases h with h | h
        · exact .inl h
        · exact .inr (by rw [h]; exact List.mem_cons_self)
    · exact .inr (List.mem_cons_of_mem _ h)

omit [LawfulBEq α] in
theorem dget_some_mem {d : List (α × β)} {k : α} {v : β} (h : dget d k = some v) :
    ∃ k', (k', v) ∈ d ∧ (k' == k) = true := by
  simp only [dget, Option.map_eq_some_iff] at h
  obtain ⟨p, hp, rfl⟩ := h
  exact ⟨p.1, List.mem_of_find?_eq_some hp, by simpa using List.find?_some hp⟩

theorem dget_some_mem' {d : List (α × β)} {k : α} {v : β} (h : dget d k = some v) : (k, v) ∈ d := by
  obtain ⟨k', hm, hk⟩ := dget_some_mem h
  rw [← eq_of_beq hk]; exact hm

theorem dget_of_mem_nodup {d : List (α × β)} (hd : (d.map (·.1)).Nodup) {k : α} {v : β}
    (h : (k, v) ∈ d) : dget d k = some v := by
  induction d with
  | nil => simp at h
  | cons p d ih =>
    rw [dget_cons]
    rw [List.map_cons, List.nodup_cons] at hd
    rw [List.mem_cons] at h
    rcases h with h | h
    · subst h; simp
    · have : ¬ p.1 = k := by
        intro e
        apply hd.1
        rw [List.mem_map]
        exact ⟨(k, v), h, e.symm⟩
      have hb : (p.1 == k) = false := by simpa using this
      simp only [hb, Bool.false_eq_true, if_false]
      exact ih hd.2 h

theorem dget_isSome_iff {d : List (α × β)} {k : α} : (dget d k).isSome ↔ k ∈ d.map (·.1) := by
  constructor
  · intro h
    cases hg : dget d k with
    | none => rw [hg] at h; simp at h
    | some v =>
      rw [List.mem_map]
      exact ⟨(k, v), dget_some_mem' hg, rfl⟩
  · intro h
    cases hg : dget d k with
    | some v => rfl
    | none =>
      exfalso
      rw [List.mem_map] at h
      obtain ⟨p, hp, rfl⟩ := h
      simp only [dget, Option.map_eq_none_iff, List.find?_eq_none] at hg
      have := hg p hp
      simp at this

theorem dget_none_of_not_mem {d : List (α × β)} {k : α} (h : k ∉ d.map (·.1)) : dget d k = none :=
  dget_eq_none h

/-! ### the whitespace folding step (shared shape of `merge_two.prune` and `prune_whitespace`) -/

/-- one step of the reduce: the accumulator is reversed -/
def genStep {γ : Type} (isWs : γ → Bool) (len : γ → Nat) (racc : List γ) (x : γ) : List γ :=
  match racc with
  | prev :: rest =>
    if isWs x && isWs prev then (if len x > len prev then x :: rest else prev :: rest) else x :: prev :: rest
  | [] => [x]

theorem genStep_cases {γ : Type} (isWs : γ → Bool) (len : γ → Nat) (racc : List γ) (x : γ) :
    genStep isWs len racc x = x :: racc ∨
    (isWs x = true ∧ genStep isWs len racc x = racc) ∨
    (isWs x = true ∧ ∃ prev rest, racc = prev :: rest ∧ isWs prev = true ∧ genStep isWs len racc x = x :: rest) := by
  cases racc with
  | nil => exact .inl rfl
  | cons prev rest =>
    by_cases h : (isWs x && isWs prev) = true
    · have h' := h
      rw [Bool.and_eq_true] at h'
      by_cases h2 : len x > len prev
      · have e : genStep isWs len (prev :: rest) x = x :: rest := by simp [genStep, h'.1, h'.2, h2]
        exact .inr (.inr ⟨h'.1, prev, rest, rfl, h'.2, e⟩)
      · have e : genStep isWs len (prev :: rest) x = prev :: rest := by simp [genStep, h'.1, h'.2, h2]
        exact .inr (.inl ⟨h'.1, e⟩)
    · have e : genStep isWs len (prev :: rest) x = x :: prev :: rest := by
        simp only [genStep, h, Bool.false_eq_true, if_false]
      exact .inl e

/-- the folded list selects elements of the input, in order -/
theorem genFold_sublist {γ : Type} (isWs : γ → Bool) (len : γ → Nat) (xs racc : List γ) :
    (xs.foldl (genStep isWs len) racc).reverse.Sublist (racc.reverse ++ xs) := by
  induction xs generalizing racc with
  | nil => simp
  | cons x xs ih =>
    rw [List.foldl_cons]
    refine (ih _).trans ?_
    have : (genStep isWs len racc x).reverse.Sublist (racc.reverse ++ [x]) := by
      rcases genStep_cases isWs len racc x with h | ⟨_, h⟩ | ⟨_, prev, rest, hr, _, h⟩
      · rw [h]; simp
      · rw [h]; exact List.sublist_append_left _ _
      · rw [h, hr]
        simp only [List.reverse_cons, List.append_assoc]
        apply List.Sublist.append_left
        simp
    have := this.append_right xs
    simpa using this

/-- folding only touches whitespace -/
theorem genFold_nonws {γ : Type} (isWs : γ → Bool) (len : γ → Nat) (xs racc : List γ) :
    ((xs.foldl (genStep isWs len) racc).reverse).filter (fun x => !isWs x)
      = (racc.reverse).filter (fun x => !isWs x) ++ xs.filter (fun x => !isWs x) := by
  induction xs generalizing racc with
  | nil => simp
  | cons x xs ih =>
    rw [List.foldl_cons, ih]
    have : ((genStep isWs len racc x).reverse).filter (fun x => !isWs x)
        = (racc.reverse).filter (fun x => !isWs x) ++ [x].filter (fun x => !isWs x) := by
      rcases genStep_cases isWs len racc x with h | ⟨hx, h⟩ | ⟨hx, prev, rest, hr, hp, h⟩
      · rw [h]; simp [List.filter_cons]
      · rw [h]; simp [List.filter_cons, hx]
      · rw [h, hr]; simp [List.filter_cons, hx, hp]
    rw [this, List.append_assoc]
    congr 1
    rw [← List.filter_append]
    rfl

end C16L

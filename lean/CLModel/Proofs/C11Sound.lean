/- match_sound for "simple" matchers: top-level literals, wildcards and variables whose values are plain
   texts.  The path is the root followed by the pieces the nodes stand for, and that is what
   `sub` onto the same matcher re-assembles. -/
import CLModel.Proofs.C12Bound
import CLModel.Proofs.C11Sub
namespace PM
open Rx

/-! ### which captures an item can add -/

theorem _root_.Rx.BSem.new_caps {s : Array Nat} {r : Re} {st st' : St} (h : BSem s r st st') :
    ∃ new, st'.caps = new ++ st.caps ∧ ∀ e ∈ new, e.1 ∈ gidx r := by
  induction h with
  | seq _ _ iha ihb =>
    obtain ⟨n1, h1, g1⟩ := iha
    obtain ⟨n2, h2, g2⟩ := ihb
    refine ⟨n2 ++ n1, by rw [h2, h1, List.append_assoc], ?_⟩
    intro e he
    rw [gidx_seq]
    rcases List.mem_append.mp he with he | he
    · exact List.mem_append.mpr (Or.inr (g2 e he))
    · exact List.mem_append.mpr (Or.inl (g1 e he))
  | repCons _ _ iha ihb =>
    obtain ⟨n1, h1, g1⟩ := iha
    obtain ⟨n2, h2, g2⟩ := ihb
    refine ⟨n2 ++ n1, by rw [h2, h1, List.append_assoc], ?_⟩
    intro e he
    rw [gidx_rep] at g2 ⊢
    rcases List.mem_append.mp he with he | he
    · exact g2 e he
    · exact g1 e he
  | altL _ ih =>
    obtain ⟨n1, h1, g1⟩ := ih
    exact ⟨n1, h1, fun e he => by rw [gidx_alt]; exact List.mem_append.mpr (Or.inl (g1 e he))⟩
  | altR _ ih =>
    obtain ⟨n1, h1, g1⟩ := ih
    exact ⟨n1, h1, fun e he => by rw [gidx_alt]; exact List.mem_append.mpr (Or.inr (g1 e he))⟩
  | @group i r st st' _ ih =>
    obtain ⟨n1, h1, g1⟩ := ih
    refine ⟨(i, st.pos, st'.pos) :: n1, by simp [h1], ?_⟩
    intro e he
    rw [gidx_group]
    rcases List.mem_cons.mp he with rfl | he
    · simp
    · exact List.mem_cons_of_mem _ (g1 e he)
  | lookPos _ ih =>
    obtain ⟨n1, h1, g1⟩ := ih
    exact ⟨n1, h1, fun e he => by rw [gidx_look]; exact g1 e he⟩
  | _ => exact ⟨[], rfl, fun e he => by cases he⟩

theorem SemL.new_caps {s : Array Nat} {l : List Re} {st st' : St} (h : SemL s l st st') :
    ∃ new, st'.caps = new ++ st.caps ∧ ∀ e ∈ new, e.1 ∈ l.flatMap gidx := by
  induction h with
  | nil => exact ⟨[], rfl, fun e he => by cases he⟩
  | cons hx _ ih =>
    obtain ⟨n1, h1, g1⟩ := hx.new_caps
    obtain ⟨n2, h2, g2⟩ := ih
    refine ⟨n2 ++ n1, by rw [h2, h1, List.append_assoc], ?_⟩
    intro e he
    simp only [List.flatMap_cons]
    rcases List.mem_append.mp he with he | he
    · exact List.mem_append.mpr (Or.inr (g2 e he))
    · exact List.mem_append.mpr (Or.inl (g1 e he))

theorem capOf_append_of_not_mem {new old : List (Nat × Nat × Nat)} {i : Nat} (h : ∀ e ∈ new, e.1 ≠ i) :
    capOf (new ++ old) i = capOf old i := by
  unfold capOf
  rw [List.find?_append]
  have : new.find? (fun x => x.1 == i) = none := by
    apply List.find?_eq_none.mpr
    intro e he
    simpa using h e he
  rw [this]
  rfl

/-- later items do not disturb the capture of an index they do not contain -/
theorem SemL.frame {s : Array Nat} {l : List Re} {st st' : St} (h : SemL s l st st') {i : Nat}
    (hi : i ∉ l.flatMap gidx) : capOf st'.caps i = capOf st.caps i := by
  obtain ⟨new, h1, g1⟩ := h.new_caps
  rw [h1]
  exact capOf_append_of_not_mem (fun e he hc => hi (hc ▸ g1 e he))

theorem BSem.frame {s : Array Nat} {r : Re} {st st' : St} (h : BSem s r st st') {i : Nat}
    (hi : i ∉ gidx r) : capOf st'.caps i = capOf st.caps i := by
  obtain ⟨new, h1, g1⟩ := h.new_caps
  rw [h1]
  exact capOf_append_of_not_mem (fun e he hc => hi (hc ▸ g1 e he))

theorem SemL.pos_bound {s : Array Nat} {l : List Re} {st st' : St} (h : SemL s l st st') :
    st.pos ≤ s.size → st'.pos ≤ s.size := by
  induction h with
  | nil => exact fun hl => hl
  | cons hx _ ih => exact fun hl => ih (hx.pos_bound hl)

theorem textAt_slice {s : Array Nat} {a b : Nat} (hab : a ≤ b) (hb : b ≤ s.size) :
    TextAt s a (slice s a b) ∧ (slice s a b).length = b - a := by
  have hlen : (slice s a b).length = b - a := by
    simp only [slice, Array.length_toList, Array.size_extract]; omega
  refine ⟨?_, hlen⟩
  intro j hj
  rw [hlen] at hj
  simp only [slice, Array.getElem?_toList, Array.getElem?_extract]
  rw [if_pos (by omega)]

/-! ### plain-text values -/

def FlatPat (p : Pattern) : Prop := p.root = none ∧ ∀ n ∈ p.nodes, ∃ t, n = Node.lit t

def litText : Node → Text
  | .lit t => t
  | _ => []

def textOf (p : Pattern) : Text := p.nodes.flatMap litText

theorem expandChildren_flat {rec : ExpRec} {env : Env} {rm : Bool} :
    ∀ (ns : List Node), (∀ n ∈ ns, ∃ t, n = Node.lit t) → expandChildren rec ns env rm = .ok (ns.flatMap litText)
  | [], _ => rfl
  | c :: cs, h => by
    obtain ⟨t, rfl⟩ := h c (by simp)
    have ih := expandChildren_flat (rec := rec) (env := env) (rm := rm) cs (fun n hn => h n (by simp [hn]))
    simp [expandChildren, expandNode, ih, bind, Except.bind, pure, Except.pure, litText]

theorem expandPat_flat {rec : ExpRec} {p : Pattern} {env : Env} {rm : Bool} (h : FlatPat p) :
    expandPat rec p env rm = .ok (textOf p) := by
  simp [expandPat, rootOf_none h.1, expandChildren_flat p.nodes h.2, bind, Except.bind, pure, Except.pure, textOf]

theorem rxChildren_flat {rec : RxRec} {env : Env} :
    ∀ (ns : List Node), (∀ n ∈ ns, ∃ t, n = Node.lit t) →
      rxChildren rec ns env = .ok ((ns.flatMap litText).map Re.lit, [])
  | [], _ => rfl
  | c :: cs, h => by
    obtain ⟨t, rfl⟩ := h c (by simp)
    have ih := rxChildren_flat (rec := rec) (env := env) cs (fun n hn => h n (by simp [hn]))
    simp [rxChildren, rxNode, ih, bind, Except.bind, pure, Except.pure, litText]

theorem rxPat_flat {rec : RxRec} {p : Pattern} {env : Env} (h : FlatPat p) :
    rxPat rec p env = .ok ((textOf p).map Re.lit, []) := by
  simp [rxPat, rootOf_none h.1, rxChildren_flat p.nodes h.2, bind, Except.bind, pure, Except.pure, textOf]

end PM

namespace PM
open Rx

def FlatEnv (env : Env) : Prop := ∀ k v, (k, v) ∈ env → ∃ p, v = Val.pat p ∧ FlatPat p

def SimpleNode : Node → Prop
  | .lit _ => True
  | .var _ r => r = false
  | .star _ => True
  | .starstar _ _ => True
  | .android _ => False

/-- text of the capture of group `i` in the capture list `C` ("" if the group did not take part) -/
def capText (s : Array Nat) (C : List (Nat × Nat × Nat)) (i : Nat) : Text :=
  match capOf C i with
  | some (a, b) => slice s a b
  | none => []

/-- the part of the path a top-level node stands for, given the final captures -/
def piece (s : Array Nat) (C : List (Nat × Nat × Nat)) (env : Env) : Node → Text
  | .lit t => t
  | .var name _ =>
    match env.lookup name with
    | some (.pat p) => textOf p
    | _ => capText s C (encName name)
  | .star k => capText s C (encName (sname k))
  | .starstar k _ => capText s C (encName (sname k))
  | .android _ => []

def nodeIdx : Node → List Nat
  | .var name _ => [encName name]
  | .star k => [encName (sname k)]
  | .starstar k _ => [encName (sname k)]
  | _ => []

theorem gidx_seqOf_lits (t : Text) : gidx (seqOf (t.map Re.lit)) = [] := by
  unfold gidx
  rw [groups_seqOf]
  induction t with
  | nil => rfl
  | cons c t ih => simpa [groups] using ih

theorem flatMap_gidx_lits (t : Text) : (t.map Re.lit).flatMap gidx = [] := by
  induction t with
  | nil => rfl
  | cons c t ih => simpa [gidx, groups] using ih

theorem piece_congr {s : Array Nat} {C C' : List (Nat × Nat × Nat)} {env : Env} {c : Node}
    (h : ∀ i ∈ nodeIdx c, capOf C i = capOf C' i) : piece s C env c = piece s C' env c := by
  cases c with
  | lit t => rfl
  | var name r =>
    have := h (encName name) (by simp [nodeIdx])
    simp only [piece, capText, this]
  | star k =>
    have := h (encName (sname k)) (by simp [nodeIdx])
    simp only [piece, capText, this]
  | starstar k sfx =>
    have := h (encName (sname k)) (by simp [nodeIdx])
    simp only [piece, capText, this]
  | android r => rfl

theorem FlatEnv.lookup {env : Env} (h : FlatEnv env) {k : Text} {v : Val} (hl : env.lookup k = some v) :
    ∃ p, v = Val.pat p ∧ FlatPat p := h k v (lookup_mem hl)

/-- a capturing single-group item: afterwards the group's capture is the span it consumed -/
theorem step_group {s : Array Nat} {i : Nat} {body : Re} {rest : List Re} {st st' : St}
    (h : SemL s (Re.group i body :: rest) st st') (hpos : st.pos ≤ s.size) :
    ∃ m1, SemL s rest m1 st' ∧ st.pos ≤ m1.pos ∧ m1.pos ≤ s.size ∧ capOf m1.caps i = some (st.pos, m1.pos) ∧
      (∀ j, j ∉ gidx (Re.group i body) → capOf m1.caps j = capOf st.caps j) ∧
      ∃ x y, BSem s body x y ∧ x.pos = st.pos ∧ y.pos = m1.pos := by
  cases h with
  | cons hx hr =>
    have hfr := fun j (hj : j ∉ gidx (Re.group i body)) => BSem.frame hx hj
    cases hx with
    | @group _ _ _ st0 hg =>
      refine ⟨_, hr, hg.pos_le, hg.pos_bound hpos, ?_, hfr, st, st0, hg, rfl, rfl⟩
      simp [capOf]

theorem step {s : Array Nat} {env : Env} {f : Nat} (henv : FlatEnv env) {c : Node} (hc : SimpleNode c)
    {a : List Re} {na : List Text} (hr : rxNode (rxVal (f + 1)) c env = .ok (a, na))
    {rest : List Re} {st st' : St} (h : SemL s (a ++ rest) st st') (hpos : st.pos ≤ s.size)
    (hnone : ∀ i ∈ nodeIdx c, capOf st.caps i = none) :
    a.flatMap gidx = nodeIdx c ∧
    ∃ m1, SemL s rest m1 st' ∧ TextAt s st.pos (piece s m1.caps env c) ∧
      m1.pos = st.pos + (piece s m1.caps env c).length ∧ m1.pos ≤ s.size ∧
      (∀ j, j ∉ nodeIdx c → capOf m1.caps j = capOf st.caps j) := by
  cases c with
  | lit t =>
    simp only [rxNode, pure, Except.pure, Except.ok.injEq, Prod.mk.injEq] at hr
    obtain ⟨rfl, _⟩ := hr
    obtain ⟨h1, h2⟩ := semL_lits t h
    refine ⟨flatMap_gidx_lits t, _, h2, h1, rfl, ?_, fun j _ => rfl⟩
    have := SemL.pos_le h2
    have hb : st'.pos ≤ s.size → True := fun _ => trivial
    -- the literal characters were read inside the subject
    by_cases ht : t.length = 0
    · simp [ht]; exact hpos
    · have hlast := h1 (t.length - 1) (by omega)
      have : t[t.length - 1]? = some t[t.length - 1] := List.getElem?_eq_getElem (by omega)
      rw [this] at hlast
      have := getElem?_some_lt hlast
      simp; omega
  | var name rep =>
    have hrep : rep = false := hc
    subst hrep
    simp only [rxNode, Bool.false_eq_true, if_false] at hr
    cases hl : env.lookup name with
    | some v =>
      obtain ⟨p, rfl, hp⟩ := henv.lookup hl
      simp only [hl, rxVal, rxPat_flat hp, bind, Except.bind, pure, Except.pure, Except.ok.injEq, Prod.mk.injEq] at hr
      obtain ⟨rfl, _⟩ := hr
      refine ⟨by simp [gidx_group, gidx_seqOf_lits, nodeIdx], ?_⟩
      obtain ⟨m1, h1, _, h3, _, h5, x, y, hxy, hx, hy⟩ := step_group (by simpa using h) hpos
      have hl' := sem_seqOf _ hxy
      obtain ⟨hta, htl⟩ := semL_lits (textOf p) (rest := []) (by simpa using hl')
      cases htl
      simp only at hy
      refine ⟨m1, h1, ?_, ?_, h3, ?_⟩
      · simpa [piece, hl, hx] using hta
      · simp [piece, hl, ← hy, hx]
      · intro j hj
        exact h5 j (by simpa [gidx_group, gidx_seqOf_lits, nodeIdx] using hj)
    | none =>
      simp only [hl, pure, Except.pure, Except.ok.injEq, Prod.mk.injEq] at hr
      obtain ⟨rfl, _⟩ := hr
      have hgi : gidx (Re.group (encName name) Gen.Pat.matcher_frag_var) = [encName name] := by
        simp [gidx, groups, Gen.Pat.matcher_frag_var]
      refine ⟨by simp [hgi, nodeIdx], ?_⟩
      obtain ⟨m1, h1, h2, h3, h4, h5, _⟩ := step_group (by simpa using h) hpos
      obtain ⟨hta, hlen⟩ := textAt_slice h2 h3
      refine ⟨m1, h1, ?_, ?_, h3, ?_⟩
      · simpa [piece, hl, capText, h4] using hta
      · simp [piece, hl, capText, h4, hlen]; omega
      · intro j hj
        exact h5 j (by simpa [hgi, nodeIdx] using hj)
  | star k =>
    simp only [rxNode, pure, Except.pure, Except.ok.injEq, Prod.mk.injEq] at hr
    obtain ⟨rfl, _⟩ := hr
    have hgi : gidx (Re.group (encName (sname k)) Gen.Pat.matcher_frag_star) = [encName (sname k)] := by
      simp [gidx, groups, Gen.Pat.matcher_frag_star]
    refine ⟨by simp [hgi, nodeIdx], ?_⟩
    obtain ⟨m1, h1, h2, h3, h4, h5, _⟩ := step_group (by simpa using h) hpos
    obtain ⟨hta, hlen⟩ := textAt_slice h2 h3
    refine ⟨m1, h1, ?_, ?_, h3, ?_⟩
    · simpa [piece, capText, h4] using hta
    · simp [piece, capText, h4, hlen]; omega
    · intro j hj
      exact h5 j (by simpa [hgi, nodeIdx] using hj)
  | starstar k sfx =>
    simp only [rxNode, pure, Except.pure, Except.ok.injEq, Prod.mk.injEq] at hr
    obtain ⟨rfl, _⟩ := hr
    have hgb : gidx (seqOf (Gen.Pat.matcher_frag_starstar :: sfx.map Re.lit)) = [] := by
      unfold gidx
      rw [groups_seqOf]
      simp only [List.flatMap_cons, List.map_append, List.map_nil]
      have : groups Gen.Pat.matcher_frag_starstar = [] := by simp [groups, Gen.Pat.matcher_frag_starstar]
      rw [this]
      have := flatMap_gidx_lits sfx
      unfold gidx at this
      simpa [List.map_flatMap] using this
    have hgi : gidx (Re.alt (Re.group (encName (sname k)) (seqOf (Gen.Pat.matcher_frag_starstar :: sfx.map Re.lit))) Re.eps)
        = [encName (sname k)] := by
      rw [gidx_alt, gidx_group, hgb]; simp [gidx, groups]
    refine ⟨by simp [hgi, nodeIdx], ?_⟩
    have h' : SemL s (Re.alt (Re.group (encName (sname k)) (seqOf (Gen.Pat.matcher_frag_starstar :: sfx.map Re.lit))) Re.eps :: rest) st st' := by
      simpa using h
    cases h' with
    | cons hx hrest =>
      cases hx with
      | altL hg =>
        obtain ⟨m1, h1, h2, h3, h4, h5, _⟩ := step_group (SemL.cons hg hrest) hpos
        obtain ⟨hta, hlen⟩ := textAt_slice h2 h3
        refine ⟨m1, h1, ?_, ?_, h3, ?_⟩
        · simpa [piece, capText, h4] using hta
        · simp [piece, capText, h4, hlen]; omega
        · intro j hj
          exact h5 j (by simpa [gidx_group, hgb, nodeIdx] using hj)
      | altR he =>
        cases he
        have hn := hnone (encName (sname k)) (by simp [nodeIdx])
        refine ⟨st, hrest, ?_, ?_, hpos, fun j _ => rfl⟩
        · simp [piece, capText, hn]; intro j hj; simp at hj
        · simp [piece, capText, hn]
  | android r => exact absurd hc (by simp [SimpleNode])

end PM

namespace PM
open Rx

theorem step_idx {env : Env} {f : Nat} (henv : FlatEnv env) {c : Node} (hc : SimpleNode c)
    {a : List Re} {na : List Text} (hr : rxNode (rxVal (f + 1)) c env = .ok (a, na)) :
    a.flatMap gidx = nodeIdx c ∧ na.map encName = nodeIdx c := by
  cases c with
  | lit t =>
    simp only [rxNode, pure, Except.pure, Except.ok.injEq, Prod.mk.injEq] at hr
    obtain ⟨rfl, rfl⟩ := hr
    exact ⟨flatMap_gidx_lits t, rfl⟩
  | var name rep =>
    have hrep : rep = false := hc
    subst hrep
    simp only [rxNode, Bool.false_eq_true, if_false] at hr
    cases hl : env.lookup name with
    | some v =>
      obtain ⟨p, rfl, hp⟩ := henv.lookup hl
      simp only [hl, rxVal, rxPat_flat hp, bind, Except.bind, pure, Except.pure, Except.ok.injEq, Prod.mk.injEq] at hr
      obtain ⟨rfl, rfl⟩ := hr
      exact ⟨by simp [gidx_group, gidx_seqOf_lits, nodeIdx], by simp [nodeIdx]⟩
    | none =>
      simp only [hl, pure, Except.pure, Except.ok.injEq, Prod.mk.injEq] at hr
      obtain ⟨rfl, rfl⟩ := hr
      exact ⟨by simp [gidx, groups, Gen.Pat.matcher_frag_var, nodeIdx], by simp [nodeIdx]⟩
  | star k =>
    simp only [rxNode, pure, Except.pure, Except.ok.injEq, Prod.mk.injEq] at hr
    obtain ⟨rfl, rfl⟩ := hr
    exact ⟨by simp [gidx, groups, Gen.Pat.matcher_frag_star, nodeIdx], by simp [nodeIdx]⟩
  | starstar k sfx =>
    simp only [rxNode, pure, Except.pure, Except.ok.injEq, Prod.mk.injEq] at hr
    obtain ⟨rfl, rfl⟩ := hr
    have hgb : gidx (seqOf (Gen.Pat.matcher_frag_starstar :: sfx.map Re.lit)) = [] := by
      unfold gidx
      rw [groups_seqOf]
      simp only [List.flatMap_cons]
      have : groups Gen.Pat.matcher_frag_starstar = [] := by simp [groups, Gen.Pat.matcher_frag_starstar]
      rw [this]
      have := flatMap_gidx_lits sfx
      unfold gidx at this
      simpa [List.map_flatMap] using this
    refine ⟨?_, by simp [nodeIdx]⟩
    simp only [List.flatMap_cons, List.flatMap_nil, List.append_nil]
    rw [gidx_alt, gidx_group, hgb]; simp [gidx, groups, nodeIdx]
  | android r => exact absurd hc (by simp [SimpleNode])

theorem walk {s : Array Nat} {env : Env} {f : Nat} (henv : FlatEnv env) :
    ∀ {ns : List Node} {items : List Re} {names : List Text}, (∀ n ∈ ns, SimpleNode n) →
      rxChildren (rxVal (f + 1)) ns env = .ok (items, names) →
      (∀ i, (items.flatMap gidx).count i ≤ 1) →
      ∀ {rest : List Re} {st st' : St}, SemL s (items ++ rest) st st' → st.pos ≤ s.size →
        (∀ i ∈ items.flatMap gidx, capOf st.caps i = none) →
        ∃ mid, SemL s rest mid st' ∧ TextAt s st.pos (ns.flatMap (piece s mid.caps env)) ∧
          mid.pos = st.pos + (ns.flatMap (piece s mid.caps env)).length ∧ mid.pos ≤ s.size ∧
          (∀ j, j ∉ items.flatMap gidx → capOf mid.caps j = capOf st.caps j)
  | [], items, names, _, hr, _, rest, st, st', h, hpos, _ => by
    simp only [rxChildren, pure, Except.pure, Except.ok.injEq, Prod.mk.injEq] at hr
    obtain ⟨rfl, _⟩ := hr
    exact ⟨st, by simpa using h, fun j hj => by simp at hj, by simp, hpos, fun j _ => rfl⟩
  | c :: cs, items, names, hs, hr, hcount, rest, st, st', h, hpos, hnone => by
    obtain ⟨a, na, b, nb, h1, h2, rfl, rfl⟩ := rxChildren_cons hr
    obtain ⟨hidx, _⟩ := step_idx henv (hs c (by simp)) h1
    have hfm : (a ++ b).flatMap gidx = a.flatMap gidx ++ b.flatMap gidx := by simp
    rw [hfm] at hcount hnone
    rw [List.append_assoc] at h
    obtain ⟨_, m1, hm1, hta, hp1, hb1, hfr1⟩ := step henv (hs c (by simp)) h1 h hpos
      (fun i hi => hnone i (List.mem_append.mpr (Or.inl (hidx ▸ hi))))
    have hdisj : ∀ i, i ∈ b.flatMap gidx → i ∉ nodeIdx c := by
      intro i hib hia
      have := hcount i
      rw [List.count_append, hidx] at this
      have h1' := List.count_pos_iff.mpr hia
      have h2' := List.count_pos_iff.mpr hib
      omega
    obtain ⟨mid, hmid, htb, hp2, hb2, hfr2⟩ := walk henv (fun n hn => hs n (by simp [hn])) h2
      (fun i => by have := hcount i; rw [List.count_append] at this; omega) hm1 hb1
      (fun i hi => by rw [hfr1 i (hdisj i hi)]; exact hnone i (List.mem_append.mpr (Or.inr hi)))
    have hpc : piece s mid.caps env c = piece s m1.caps env c := by
      apply piece_congr
      intro i hi
      apply hfr2
      intro hib
      exact hdisj i hib hi
    refine ⟨mid, hmid, ?_, ?_, hb2, ?_⟩
    · simp only [List.flatMap_cons, hpc]
      exact TextAt.append hta (by rw [← hp1]; exact htb)
    · simp only [List.flatMap_cons, hpc, List.length_append]
      rw [hp2, hp1]; omega
    · intro j hj
      rw [hfm] at hj
      have hja : j ∉ nodeIdx c := fun hc' => hj (List.mem_append.mpr (Or.inl (hidx ▸ hc')))
      have hjb : j ∉ b.flatMap gidx := fun hc' => hj (List.mem_append.mpr (Or.inr hc'))
      rw [hfr2 j hjb, hfr1 j hja]

end PM

namespace PM
open Rx

theorem gidx_seqOf (l : List Re) : gidx (seqOf l) = l.flatMap gidx := by
  unfold gidx
  rw [groups_seqOf, List.map_flatMap]

theorem textAt_all {s : Array Nat} {q : Text} (h : TextAt s 0 q) (hl : q.length = s.size) : s.toList = q :=
  (h.prefix.eq_of_length (by simpa using hl)).symm

/-- `match_inv` with the condition under which `locale` is appended -/
theorem match_inv' {m : Matcher} {path : Text} {d : GroupDict} (h : m.match path = .ok (some d)) :
    ∃ re names st, m.regexOf = .ok (re, names) ∧ matchAt path.toArray re 0 = some st ∧
      (d = groupDict path.toArray st names ∨
       ∃ l, d = groupDict path.toArray st names ++ [(localeName, some l)] ∧
         (groupDict path.toArray st names).any (·.1 == localeName) = false) := by
  simp only [Matcher.match, bind, Except.bind] at h
  split at h
  · cases h
  · rename_i w hw
    obtain ⟨re, names⟩ := w
    simp only at h
    split at h
    · simp [pure, Except.pure] at h
    · rename_i st hst
      refine ⟨re, names, st, hw, hst, ?_⟩
      split at h
      · rename_i hcond
        split at h
        · rename_i a _
          split at h
          · cases h
          · rename_i l hl
            simp only [pure, Except.pure, Except.ok.injEq, Option.some.injEq] at h
            simp only [Bool.and_eq_true, Bool.not_eq_true'] at hcond
            exact Or.inr ⟨l, h.symm, hcond.2⟩
        · cases h
      · simp only [pure, Except.pure, Except.ok.injEq, Option.some.injEq] at h
        exact Or.inl h.symm

theorem fuelFor_succ (env : Env) : fuelFor env = (2 * env.length + 2) + 1 := rfl

/-- the path is the root followed by the pieces of the top-level nodes -/
theorem match_pieces {m : Matcher} {path : Text} {d : GroupDict} (henv : FlatEnv m.env)
    (hs : ∀ n ∈ m.pattern.nodes, SimpleNode n) (h : m.match path = .ok (some d)) :
    ∃ re names st root citems, m.regexOf = .ok (re, names) ∧ matchAt path.toArray re 0 = some st ∧
      rootOf (expandVal (fuelFor m.env)) m.pattern m.env = .ok root ∧
      rxChildren (rxVal (fuelFor m.env)) m.pattern.nodes m.env = .ok (citems, names) ∧
      (∀ i, (citems.flatMap gidx).count i ≤ 1) ∧
      (d = groupDict path.toArray st names ∨
       ∃ l, d = groupDict path.toArray st names ++ [(localeName, some l)] ∧
         (groupDict path.toArray st names).any (·.1 == localeName) = false) ∧
      path = root ++ m.pattern.nodes.flatMap (piece path.toArray st.caps m.env) := by
  obtain ⟨re, names, st, hre, hst, hd⟩ := match_inv' h
  obtain ⟨items, hrx, hreq, hwf⟩ := regexOf_inv hre
  obtain ⟨root, citems, hroot, hch, hitems⟩ := rxPat_inv hrx
  have hcount : ∀ i, (citems.flatMap gidx).count i ≤ 1 := by
    intro i
    have := wfRe_unique hwf i
    rw [hreq, gidx_seqOf, hitems] at this
    simp only [List.flatMap_append, List.count_append] at this
    omega
  refine ⟨re, names, st, root, citems, hre, hst, hroot, hch, hcount, hd, ?_⟩
  have hsem := sem_seqOf _ (hreq ▸ matchAt_sem hst)
  rw [hitems, List.append_assoc] at hsem
  obtain ⟨htr, hrest⟩ := semL_lits root hsem
  have hfin : st.pos ≤ path.toArray.size := (matchAt_sem hst).pos_bound (Nat.zero_le _)
  have hp1 : (0 : Nat) + root.length ≤ path.toArray.size := Nat.le_trans hrest.pos_le hfin
  rw [fuelFor_succ] at hch
  obtain ⟨mid, hmid, hta, hpm, _, _⟩ := walk (s := path.toArray) henv hs hch hcount hrest hp1
    (fun i _ => by simp [capOf])
  cases hmid with
  | cons ha hn =>
    cases hn
    have hanchor : Gen.Pat.matcher_frag_anchor = Re.eos := rfl
    rw [hanchor] at ha
    cases ha with
    | eos hc =>
      have hall := TextAt.append htr (by simpa using hta)
      simp only at hpm
      have := textAt_all hall (by simp only [List.length_append]; omega)
      simpa using this

end PM

namespace PM
open Rx

/-! ### the environment `sub` builds, looked up -/

def KeysOnce {β} (l : List (Text × β)) : Prop := ∀ k, (l.map (·.1)).count k ≤ 1

theorem lookup_none_of_count {β} : ∀ {l : List (Text × β)} {k : Text}, (l.map (·.1)).count k = 0 → l.lookup k = none
  | [], _, _ => rfl
  | (a, b) :: l, k, h => by
    simp only [List.map_cons, List.count_cons] at h
    have hak : (a == k) = false := by
      cases hh : (a == k) with
      | false => rfl
      | true => simp [hh] at h
    have hka : (k == a) = false := by
      cases hh : (k == a) with
      | false => rfl
      | true =>
        have : k = a := by simpa using hh
        subst this; simp at hak
    simp only [List.lookup_cons, hka]
    exact lookup_none_of_count (by simp [hak] at h; exact h)

theorem KeysOnce.tail {β} {x : Text × β} {l : List (Text × β)} (h : KeysOnce (x :: l)) : KeysOnce l := by
  intro k
  have := h k
  simp only [List.map_cons, List.count_cons] at this
  omega

theorem reverse_lookup {β} : ∀ (l : List (Text × β)), KeysOnce l → ∀ k, l.reverse.lookup k = l.lookup k
  | [], _, _ => rfl
  | (a, b) :: l, h, k => by
    simp only [List.reverse_cons]
    rw [lookup_snoc, reverse_lookup l h.tail k]
    simp only [List.lookup_cons]
    cases hk : (k == a) with
    | true =>
      have : k = a := by simpa using hk
      subst this
      have hc := h k
      simp only [List.map_cons, List.count_cons, beq_self_eq_true, if_true] at hc
      rw [lookup_none_of_count (by omega)]
      simp
    | false => cases l.lookup k <;> rfl

def capsVal (ov : Option Text) : Val :=
  .str (match ov with
    | some t => t
    | none => [])

theorem subEnv_eq (d : GroupDict) (env : Env) :
    subEnv d env = dupdate (dupdate [] (d.map (fun p => (p.1, capsVal p.2)))) env := by
  unfold subEnv dupdate
  rw [List.foldl_map]
  rfl

theorem lookup_map_val {β γ} (g : β → γ) (k : Text) : ∀ (l : List (Text × β)),
    (l.map (fun p => (p.1, g p.2))).lookup k = (l.lookup k).map g
  | [] => rfl
  | (a, b) :: l => by
    simp only [List.map_cons, List.lookup_cons]
    cases (k == a)
    · exact lookup_map_val g k l
    · rfl

theorem keysOnce_map {β γ} (g : β → γ) {l : List (Text × β)} (h : KeysOnce l) :
    KeysOnce (l.map (fun p => (p.1, g p.2))) := by
  intro k
  have := h k
  simpa [List.map_map, Function.comp_def] using this

/-- what `sub`'s environment answers: the matcher's own binding if there is one, else the captured text -/
theorem subEnv_lookup {d : GroupDict} {env : Env} (hd : KeysOnce d) (he : KeysOnce env) (k : Text) :
    (subEnv d env).lookup k = match env.lookup k with
      | some v => some v
      | none => (d.lookup k).map capsVal := by
  rw [subEnv_eq, lookup_dupdate, reverse_lookup env he, lookup_dupdate, reverse_lookup _ (keysOnce_map capsVal hd),
    lookup_map_val]
  cases env.lookup k with
  | some v => rfl
  | none => cases d.lookup k <;> rfl

theorem capsVal_groupText (s : Array Nat) (st : St) (i : Nat) :
    capsVal (groupText s st i) = .str (capText s st.caps i) := by
  unfold capsVal groupText capText St.group
  cases capOf st.caps i with
  | none => rfl
  | some p => obtain ⟨a, b⟩ := p; rfl

theorem keys_groupDict (s : Array Nat) (st : St) (names : List Text) : (groupDict s st names).map (·.1) = names := by
  unfold groupDict
  simp [List.map_map, Function.comp_def]

theorem names_idx {env : Env} {f : Nat} (henv : FlatEnv env) :
    ∀ {ns : List Node} {items names}, (∀ n ∈ ns, SimpleNode n) →
      rxChildren (rxVal (f + 1)) ns env = .ok (items, names) → names.map encName = items.flatMap gidx
  | [], items, names, _, hr => by
    simp only [rxChildren, pure, Except.pure, Except.ok.injEq, Prod.mk.injEq] at hr
    obtain ⟨rfl, rfl⟩ := hr; rfl
  | c :: cs, items, names, hs, hr => by
    obtain ⟨a, na, b, nb, h1, h2, rfl, rfl⟩ := rxChildren_cons hr
    obtain ⟨h3, h4⟩ := step_idx henv (hs c (by simp)) h1
    have ih := names_idx henv (fun n hn => hs n (by simp [hn])) h2
    simp [List.map_append, h3, h4, ih]

theorem names_once {names : List Text} (h : ∀ i, (names.map encName).count i ≤ 1) : ∀ k, names.count k ≤ 1 := by
  intro k
  exact Nat.le_trans (List.count_le_count_map (f := encName)) (h (encName k))

end PM

namespace PM
open Rx

theorem expandChildren_of_nodes {rec : ExpRec} {env : Env} {rm : Bool} {pc : Node → Text} :
    ∀ (ns : List Node), (∀ n ∈ ns, expandNode rec n env true = .ok (pc n)) →
      expandChildren rec ns env rm = .ok (ns.flatMap pc)
  | [], _ => rfl
  | c :: cs, h => by
    have hc := h c (by simp)
    have ih := expandChildren_of_nodes (rec := rec) (env := env) (rm := rm) (pc := pc) cs (fun n hn => h n (by simp [hn]))
    simp [expandChildren, hc, ih, bind, Except.bind, pure, Except.pure]

theorem fuelFor_pos (env : Env) : ∃ g, fuelFor env = g + 1 := ⟨2 * env.length + 2, rfl⟩

/-- `a.sub(a, path)` re-assembles the path from the root and the pieces -/
theorem sub_self_pieces {m : Matcher} {path : Text} {d : GroupDict} (henv : FlatEnv m.env) (hko : KeysOnce m.env)
    (hs : ∀ n ∈ m.pattern.nodes, SimpleNode n) (hw : ∀ k, m.env.lookup (sname k) = none)
    (h : m.match path = .ok (some d)) :
    expandTop m.pattern (subEnv d m.env) = .ok path := by
  obtain ⟨re, names, st, root, citems, hre, hst, hroot, hch, hcount, hd, hpath⟩ := match_pieces henv hs h
  suffices hq : expandTop m.pattern (subEnv d m.env) =
      .ok (root ++ m.pattern.nodes.flatMap (piece path.toArray st.caps m.env)) by rw [hq, ← hpath]
  have hch' := hch
  rw [fuelFor_succ] at hch'
  have hnames := names_idx henv hs hch'
  have hnonce : ∀ k, names.count k ≤ 1 := names_once (by rw [hnames]; exact hcount)
  -- keys of d are distinct, and a group name is looked up to its group text
  have hdk : KeysOnce d ∧ ∀ k ∈ names, d.lookup k = some (groupText path.toArray st (encName k)) := by
    rcases hd with rfl | ⟨l, rfl, hany⟩
    · refine ⟨?_, fun k hk => lookup_map_mem _ k names hk⟩
      intro k; rw [keys_groupDict]; exact hnonce k
    · refine ⟨?_, fun k hk => lookup_append_left _ _ _ (lookup_map_mem _ k names hk)⟩
      intro k
      rw [List.map_append, keys_groupDict, List.count_append]
      simp only [List.map_cons, List.map_nil, List.count_cons, List.count_nil]
      by_cases hkl : (localeName == k) = true
      · have : localeName = k := by simpa using hkl
        subst this
        have : names.count localeName = 0 := by
          apply List.count_eq_zero.mpr
          intro hmem
          have : (groupDict path.toArray st names).any (·.1 == localeName) = true := by
            apply List.any_eq_true.mpr
            refine ⟨(localeName, groupText path.toArray st (encName localeName)), ?_, by simp⟩
            unfold groupDict
            exact List.mem_map.mpr ⟨localeName, hmem, rfl⟩
          rw [hany] at this; cases this
        simp [this]
      · simp [hkl]; exact hnonce k
  obtain ⟨hdonce, hdl⟩ := hdk
  have hlk := fun k => subEnv_lookup (d := d) (env := m.env) hdonce hko k
  obtain ⟨g, hg⟩ := fuelFor_pos (subEnv d m.env)
  -- every top-level node expands to its piece
  have hnode : ∀ n ∈ m.pattern.nodes, ∀ rm,
      expandNode (expandVal (fuelFor (subEnv d m.env))) n (subEnv d m.env) rm = .ok (piece path.toArray st.caps m.env n) := by
    intro n hn rm
    obtain ⟨a, na, hrn, _, hsub⟩ := rxChildren_mem hch' hn
    have hsn := hs n hn
    cases n with
    | lit t => rfl
    | var name rep =>
      have hrep : rep = false := hsn
      subst hrep
      simp only [expandNode, piece, hlk name]
      cases hl : m.env.lookup name with
      | some v =>
        obtain ⟨p, rfl, hp⟩ := henv.lookup hl
        simp only [hg, expandVal, expandPat_flat hp]
      | none =>
        simp only [rxNode, hl, Bool.false_eq_true, if_false, pure, Except.pure, Except.ok.injEq, Prod.mk.injEq] at hrn
        obtain ⟨_, rfl⟩ := hrn
        have hmem : name ∈ names := hsub name (by simp)
        simp only [hdl name hmem, Option.map_some, capsVal_groupText, expandVal, pure, Except.pure]
    | star k =>
      simp only [rxNode, pure, Except.pure, Except.ok.injEq, Prod.mk.injEq] at hrn
      obtain ⟨_, rfl⟩ := hrn
      have hmem : sname k ∈ names := hsub _ (by simp)
      simp only [expandNode, piece, hlk (sname k), hw k, hdl _ hmem, Option.map_some, capsVal_groupText, pure, Except.pure]
    | starstar k sfx =>
      simp only [rxNode, pure, Except.pure, Except.ok.injEq, Prod.mk.injEq] at hrn
      obtain ⟨_, rfl⟩ := hrn
      have hmem : sname k ∈ names := hsub _ (by simp)
      simp only [expandNode, piece, hlk (sname k), hw k, hdl _ hmem, Option.map_some, capsVal_groupText, pure, Except.pure]
    | android r => exact absurd hsn (by simp [SimpleNode])
  -- the root decision is the same as when the regular expression was built
  have hroot' : rootOf (expandVal (fuelFor (subEnv d m.env))) m.pattern (subEnv d m.env) = .ok root := by
    cases hrt : m.pattern.root with
    | none =>
      rw [rootOf_none hrt] at hroot ⊢
      exact hroot
    | some r =>
      cases hns : m.pattern.nodes with
      | nil => simp [rootOf, hrt, hns] at hroot
      | cons n0 tl =>
        have hn0 : n0 ∈ m.pattern.nodes := by simp [hns]
        have hsn := hs n0 hn0
        simp only [rootOf, hrt, hns] at hroot ⊢
        rw [hnode n0 hn0 false]
        -- under the matcher's own environment the first node expanded to the same text
        have hsame : expandNode (expandVal (fuelFor m.env)) n0 m.env false = .ok (piece path.toArray st.caps m.env n0) := by
          cases n0 with
          | lit t => rfl
          | var name rep =>
            have hrep : rep = false := hsn
            subst hrep
            simp only [expandNode, piece] at hroot ⊢
            cases hl : m.env.lookup name with
            | some v =>
              obtain ⟨p, rfl, hp⟩ := henv.lookup hl
              simp only [fuelFor_succ, expandVal, expandPat_flat hp]
            | none => simp [hl] at hroot
          | star k => simp [expandNode, hw k] at hroot
          | starstar k sfx => simp [expandNode, hw k] at hroot
          | android r => exact absurd hsn (by simp [SimpleNode])
        rw [hsame] at hroot
        exact hroot
  simp only [expandTop, expandPat, hroot', bind, Except.bind,
    expandChildren_of_nodes (pc := piece path.toArray st.caps m.env) m.pattern.nodes (fun n hn => hnode n hn true),
    pure, Except.pure]

end PM

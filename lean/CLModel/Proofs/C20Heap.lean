/-
C20 (round 5) — the heap of interacting objects (`Compare/C20Heap.lean`): frame lemmas.  Which
operation can change which component; well-formedness; histories.  Helper lemmas, core Lean only.
-/
import CLModel.Compare.C20Heap
import CLModel.Proofs.C20Keyed
namespace C20HP
open AR C20K C20H

variable {κ : Type} [DecidableEq κ]

/-! ### `storeSrc` -/

omit [DecidableEq κ] in
theorem storeSrc_spec (h h' : Heap κ) (s : Src κ) (r : Ref) (hs : h.storeSrc s = some (h', r)) :
    h'.kts = h.kts ∧ h'.ars = h.ars ∧ h'.elists = h.elists ∧ h'.nextId = h.nextId ∧ r < h'.lists.length ∧
    ((h'.lists = h.lists ∧ s = .ref r) ∨
      (∃ c, h'.lists = h.lists ++ [c] ∧ r = h.lists.length ∧ ∀ r', s ≠ .ref r')) := by
  cases s with
  | ref r0 =>
    simp only [Heap.storeSrc] at hs
    split at hs
    · simp only [Option.some.injEq, Prod.mk.injEq] at hs
      obtain ⟨rfl, rfl⟩ := hs
      simp_all
    · simp at hs
  | keysOf t =>
    simp only [Heap.storeSrc] at hs
    split at hs
    · simp only [Option.some.injEq, Prod.mk.injEq] at hs
      obtain ⟨rfl, rfl⟩ := hs
      simp
    · simp at hs
  | lit ks =>
    simp only [Heap.storeSrc, Option.some.injEq, Prod.mk.injEq] at hs
    obtain ⟨rfl, rfl⟩ := hs
    simp

/-! ### KeyedTuples: nothing ever changes or removes one -/

/-- every operation leaves the existing `KeyedTuple`s alone (it may create one) -/
theorem step_kts (h : Heap κ) (op : Op κ) : ∃ ext, (h.step op).1.kts = h.kts ++ ext := by
  cases op with
  | newKT s =>
    simp only [Heap.step]
    split
    · exact ⟨_, rfl⟩
    · exact ⟨[], by simp⟩
  | setLeft a s =>
    simp only [Heap.step]
    split
    · next o h' r _ hs => exact ⟨[], by simp [(storeSrc_spec h h' s r hs).1]⟩
    · exact ⟨[], by simp⟩
  | setRight a s =>
    simp only [Heap.step]
    split
    · next o h' r _ hs => exact ⟨[], by simp [(storeSrc_spec h h' s r hs).1]⟩
    · exact ⟨[], by simp⟩
  | newList _ | newEList _ | newAR => exact ⟨[], by simp [Heap.step]⟩
  | mutList _ _ | mutEList _ _ | keysToList _ | valuesToList _ | itemsToList _ | iterate _ | readList _
  | readEList _ | ask _ _ =>
    simp only [Heap.step]
    split <;> exact ⟨[], by simp⟩

theorem final_cons (h : Heap κ) (op : Op κ) (ops : List (Op κ)) :
    Heap.final h (op :: ops) = Heap.final (h.step op).1 ops := rfl

theorem final_append (h : Heap κ) (ops ops' : List (Op κ)) :
    Heap.final h (ops ++ ops') = Heap.final (Heap.final h ops) ops' := by
  simp [Heap.final, List.foldl_append]

theorem final_kts (h : Heap κ) (ops : List (Op κ)) : ∃ ext, (Heap.final h ops).kts = h.kts ++ ext := by
  induction ops generalizing h with
  | nil => exact ⟨[], by simp [Heap.final]⟩
  | cons op ops ih =>
    obtain ⟨e1, h1⟩ := step_kts h op
    obtain ⟨e2, h2⟩ := ih (h.step op).1
    exact ⟨e1 ++ e2, by rw [final_cons, h2, h1, List.append_assoc]⟩

/-- a `KeyedTuple` that exists is the same object after any history -/
theorem final_kts_getElem? (h : Heap κ) (ops : List (Op κ)) (t : Nat) (k : KT κ) (hk : h.kts[t]? = some k) :
    (Heap.final h ops).kts[t]? = some k := by
  obtain ⟨ext, he⟩ := final_kts h ops
  rw [he, List.getElem?_append_left (by
    rcases Nat.lt_or_ge t h.kts.length with hlt | hge
    · exact hlt
    · rw [List.getElem?_eq_none hge] at hk; simp at hk)]
  exact hk

theorem step_ktinv (h : Heap κ) (op : Op κ) (hi : h.KTInv) : (h.step op).1.KTInv := by
  cases op with
  | newKT s =>
    simp only [Heap.step]
    split
    · intro k hk
      simp only [List.mem_append, List.mem_singleton] at hk
      rcases hk with hk | rfl
      · exact hi k hk
      · rfl
    · exact hi
  | setLeft a s =>
    simp only [Heap.step]
    split
    · next o h' r _ hs =>
      intro k hk
      simp only [(storeSrc_spec h h' s r hs).1] at hk
      exact hi k hk
    · exact hi
  | setRight a s =>
    simp only [Heap.step]
    split
    · next o h' r _ hs =>
      intro k hk
      simp only [(storeSrc_spec h h' s r hs).1] at hk
      exact hi k hk
    · exact hi
  | newList _ | newEList _ | newAR => exact hi
  | mutList _ _ | mutEList _ _ | keysToList _ | valuesToList _ | itemsToList _ | iterate _ | readList _
  | readEList _ | ask _ _ =>
    simp only [Heap.step]
    split <;> exact hi

theorem final_ktinv (h : Heap κ) (ops : List (Op κ)) (hi : h.KTInv) : (Heap.final h ops).KTInv := by
  induction ops generalizing h with
  | nil => exact hi
  | cons op ops ih => exact ih _ (step_ktinv h op hi)

theorem init_ktinv : (Heap.init : Heap κ).KTInv := by
  intro k hk
  simp [Heap.init] at hk

/-! ### well-formedness -/

omit [DecidableEq κ] in
theorem init_wf : (Heap.init : Heap κ).WF := by
  intro o ho
  simp [Heap.init] at ho

omit [DecidableEq κ] in
theorem wf_mono (lists lists' : List (List κ)) (ars : List ARObj) (hl : lists.length ≤ lists'.length)
    (hw : ∀ o ∈ ars, (∀ r, o.left = some r → r < lists.length) ∧ (∀ r, o.right = some r → r < lists.length)) :
    ∀ o ∈ ars, (∀ r, o.left = some r → r < lists'.length) ∧ (∀ r, o.right = some r → r < lists'.length) := by
  intro o ho
  exact ⟨fun r hr => Nat.lt_of_lt_of_le ((hw o ho).1 r hr) hl, fun r hr => Nat.lt_of_lt_of_le ((hw o ho).2 r hr) hl⟩

theorem step_wf (h : Heap κ) (op : Op κ) (hw : h.WF) : (h.step op).1.WF := by
  cases op with
  | setLeft a s =>
    simp only [Heap.step]
    split
    · next o h' r ho hs =>
      obtain ⟨_, ha, _, _, hr, hl⟩ := storeSrc_spec h h' s r hs
      have hlen : h.lists.length ≤ h'.lists.length := by
        rcases hl with ⟨hl, _⟩ | ⟨c, hl, _⟩ <;> simp [hl]
      intro o' ho'
      simp only [ha] at ho'
      rcases List.mem_or_eq_of_mem_set ho' with hm | rfl
      · exact wf_mono h.lists h'.lists h.ars hlen hw o' hm
      · have hom : o ∈ h.ars := List.mem_of_getElem? ho
        refine ⟨fun r' hr' => ?_, fun r' hr' => Nat.lt_of_lt_of_le ((hw o hom).2 r' hr') hlen⟩
        simp only [Option.some.injEq] at hr'
        exact hr' ▸ hr
    · exact hw
  | setRight a s =>
    simp only [Heap.step]
    split
    · next o h' r ho hs =>
      obtain ⟨_, ha, _, _, hr, hl⟩ := storeSrc_spec h h' s r hs
      have hlen : h.lists.length ≤ h'.lists.length := by
        rcases hl with ⟨hl, _⟩ | ⟨c, hl, _⟩ <;> simp [hl]
      intro o' ho'
      simp only [ha] at ho'
      rcases List.mem_or_eq_of_mem_set ho' with hm | rfl
      · exact wf_mono h.lists h'.lists h.ars hlen hw o' hm
      · have hom : o ∈ h.ars := List.mem_of_getElem? ho
        refine ⟨fun r' hr' => Nat.lt_of_lt_of_le ((hw o hom).1 r' hr') hlen, fun r' hr' => ?_⟩
        simp only [Option.some.injEq] at hr'
        exact hr' ▸ hr
    · exact hw
  | newList ks => exact wf_mono h.lists (h.lists ++ [ks]) h.ars (by simp) hw
  | keysToList t =>
    simp only [Heap.step]
    split
    · (refine wf_mono h.lists _ h.ars ?_ hw; simp)
    · exact hw
  | mutList r m =>
    simp only [Heap.step]
    split
    · (refine wf_mono h.lists _ h.ars ?_ hw; simp)
    · exact hw
  | newAR =>
    intro o ho
    simp only [Heap.step, List.mem_append, List.mem_singleton] at ho
    rcases ho with ho | rfl
    · exact hw o ho
    · simp
  | newEList _ => exact hw
  | mutEList _ _ | newKT _ | valuesToList _ | itemsToList _ | iterate _ | readList _ | readEList _ | ask _ _ =>
    simp only [Heap.step]
    split <;> exact hw

theorem final_wf (h : Heap κ) (ops : List (Op κ)) (hw : h.WF) : (Heap.final h ops).WF := by
  induction ops generalizing h with
  | nil => exact hw
  | cons op ops ih => exact ih _ (step_wf h op hw)

/-! ### list cells: only the caller's own mutation changes the contents of an existing list -/

/-- every operation keeps the existing cells in place (it may allocate one at the end) -/
theorem step_lists_length (h : Heap κ) (op : Op κ) : h.lists.length ≤ (h.step op).1.lists.length := by
  cases op with
  | setLeft a s =>
    simp only [Heap.step]
    split
    · next o h' r _ hs =>
      rcases (storeSrc_spec h h' s r hs).2.2.2.2.2 with ⟨hl, _⟩ | ⟨c, hl, _⟩ <;> simp [hl]
    · exact Nat.le_refl _
  | setRight a s =>
    simp only [Heap.step]
    split
    · next o h' r _ hs =>
      rcases (storeSrc_spec h h' s r hs).2.2.2.2.2 with ⟨hl, _⟩ | ⟨c, hl, _⟩ <;> simp [hl]
    · exact Nat.le_refl _
  | newList _ => simp [Heap.step]
  | newEList _ | newAR => exact Nat.le_refl _
  | mutList _ _ | keysToList _ =>
    simp only [Heap.step]
    split <;> simp
  | mutEList _ _ | newKT _ | valuesToList _ | itemsToList _ | iterate _ | readList _ | readEList _ | ask _ _ =>
    simp only [Heap.step]
    split <;> exact Nat.le_refl _

/-- an operation that is not the caller's mutation of the list `r` leaves the contents of `r` alone -/
theorem step_lists_frame (h : Heap κ) (op : Op κ) (r : Ref) (hr : r < h.lists.length)
    (hop : ∀ m, op ≠ .mutList r m) : (h.step op).1.lists[r]? = h.lists[r]? := by
  cases op with
  | setLeft a s =>
    simp only [Heap.step]
    split
    · next o h' r' _ hs =>
      rcases (storeSrc_spec h h' s r' hs).2.2.2.2.2 with ⟨hl, _⟩ | ⟨c, hl, _⟩
      · simp [hl]
      · simp [hl, List.getElem?_append_left hr]
    · rfl
  | setRight a s =>
    simp only [Heap.step]
    split
    · next o h' r' _ hs =>
      rcases (storeSrc_spec h h' s r' hs).2.2.2.2.2 with ⟨hl, _⟩ | ⟨c, hl, _⟩
      · simp [hl]
      · simp [hl, List.getElem?_append_left hr]
    · rfl
  | newList _ => simp [Heap.step, List.getElem?_append_left hr]
  | keysToList _ =>
    simp only [Heap.step]
    split
    · simp [List.getElem?_append_left hr]
    · rfl
  | mutList r' m =>
    simp only [Heap.step]
    split
    · have hne : r' ≠ r := fun e => hop m (e ▸ rfl)
      simp [List.getElem?_set_ne hne]
    · rfl
  | newEList _ | newAR => rfl
  | mutEList _ _ | newKT _ | valuesToList _ | itemsToList _ | iterate _ | readList _ | readEList _ | ask _ _ =>
    simp only [Heap.step]
    split <;> rfl

/-- the caller's mutation of `r` applies exactly that mutation -/
theorem step_mutList (h : Heap κ) (r : Ref) (m : Mut κ) (c : List κ) (hc : h.lists[r]? = some c) :
    (h.step (.mutList r m)).1.lists[r]? = some (applyMut c m) := by
  have hr : r < h.lists.length := by
    rcases Nat.lt_or_ge r h.lists.length with hlt | hge
    · exact hlt
    · rw [List.getElem?_eq_none hge] at hc; simp at hc
  simp only [Heap.step, hc]
  simp [hr]

/-- **contents of a list after a history** = its contents before, changed by the caller's own
    mutations of that list and by nothing else -/
theorem final_cell (h : Heap κ) (ops : List (Op κ)) (r : Ref) (c : List κ) (hc : h.lists[r]? = some c) :
    (Heap.final h ops).lists[r]? = some (applyMuts c (mutsOf r ops)) := by
  induction ops generalizing h c with
  | nil => simpa [Heap.final, mutsOf, applyMuts] using hc
  | cons op ops ih =>
    rw [final_cons]
    have hr : r < h.lists.length := by
      rcases Nat.lt_or_ge r h.lists.length with hlt | hge
      · exact hlt
      · rw [List.getElem?_eq_none hge] at hc; simp at hc
    by_cases hop : ∃ m, op = .mutList r m
    · obtain ⟨m, rfl⟩ := hop
      rw [ih _ _ (step_mutList h r m c hc)]
      simp [mutsOf, applyMuts]
    · have hop' : ∀ m, op ≠ .mutList r m := fun m e => hop ⟨m, e⟩
      have hfr := step_lists_frame h op r hr hop'
      rw [ih _ c (by rw [hfr]; exact hc)]
      congr 2
      cases op with
      | mutList r' m =>
        have hne : r' ≠ r := fun e => hop' m (e ▸ rfl)
        simp [mutsOf, hne]
      | _ => rfl

/-! ### traces -/

theorem trace_getElem? (h : Heap κ) (ops : List (Op κ)) (n : Nat) :
    (Heap.trace h ops)[n]? = (ops[n]?).map (fun op => ((Heap.final h (ops.take n)).step op).2) := by
  induction ops generalizing h n with
  | nil => simp [Heap.trace]
  | cons op ops ih =>
    cases n with
    | zero => simp [Heap.trace, Heap.final]
    | succ n =>
      rw [Heap.trace, List.getElem?_cons_succ, List.getElem?_cons_succ, ih, List.take_succ_cons, final_cons]

theorem trace_length (h : Heap κ) (ops : List (Op κ)) : (Heap.trace h ops).length = ops.length := by
  induction ops generalizing h with
  | nil => rfl
  | cons op ops ih => simp [Heap.trace, ih]

/-- the answer of a well-built `KeyedTuple` is the closed form over its own elements -/
theorem ktinv_step (k : KT κ) (hk : k = KT.new k.items) (q : Q κ) : (k.step q).2 = specAsk k.items q := by
  have := C20P.step_eq_spec k.items q
  rw [← hk] at this
  exact this

end C20HP

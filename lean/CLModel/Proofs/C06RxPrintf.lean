/- C06 helper lemmas, part 8: capture groups of the `printf` and `#([0-9]+)` regexes:
   the number group is a decimal numeral ≥ 1, an argument match has a one-character type. -/
import CLModel.Checks.Properties
import CLModel.Proofs.C06Rx
import CLModel.Proofs.C06Specs
namespace PropCk
open Rx

theorem slice_eq (s : Array Nat) (a b : Nat) : slice s (a, b) = (s.toList.drop a).take (b - a) := by
  simp [slice]

theorem slice_get (s : Array Nat) (a b t : Nat) :
    (slice s (a, b))[t]? = if t < b - a then s[a + t]? else none := by
  rw [slice_eq, List.getElem?_take]
  split
  · rw [List.getElem?_drop]; simp
  · rfl

theorem slice_single {s : Array Nat} {a c : Nat} (h : s[a]? = some c) : slice s (a, a + 1) = [c] := by
  apply List.ext_getElem?
  intro t
  rw [slice_get]
  cases t with
  | zero => simp [h]
  | succ t => simp

def isDig (c : Nat) : Prop := 48 ≤ c ∧ c ≤ 57

theorem intOf_fold (t : Text) : ∀ acc, (∀ c ∈ t, isDig c) →
    ∃ n, t.foldl (fun acc c => match acc with
      | some n => if 48 ≤ c ∧ c ≤ 57 then some (n * 10 + (c - 48)) else none
      | none => none) (some acc) = some n ∧ acc ≤ n := by
  induction t with
  | nil => intro acc _; exact ⟨acc, rfl, Nat.le_refl _⟩
  | cons c cs ih =>
    intro acc h
    have hc : 48 ≤ c ∧ c ≤ 57 := h c (by simp)
    simp only [List.foldl_cons, hc, and_self, if_true]
    obtain ⟨n, hn, hle⟩ := ih (acc * 10 + (c - 48)) (fun d hd => h d (by simp [hd]))
    exact ⟨n, hn, by omega⟩

/-- `int()` of a non-empty ASCII digit string whose first digit is not 0 -/
theorem intOf_digits {c : Nat} {cs : Text} (hc : 49 ≤ c ∧ c ≤ 57) (hcs : ∀ d ∈ cs, isDig d) :
    ∃ n, intOf (c :: cs) = some n ∧ n ≥ 1 := by
  unfold intOf
  simp only [List.isEmpty_cons, Bool.false_eq_true, if_false, List.foldl_cons]
  have h48 : 48 ≤ c ∧ c ≤ 57 := by omega
  simp only [h48, and_self, if_true]
  obtain ⟨n, hn, hle⟩ := intOf_fold cs (0 * 10 + (c - 48)) hcs
  exact ⟨n, hn, by omega⟩

theorem intOf_digits0 {c : Nat} {cs : Text} (hc : isDig c) (hcs : ∀ d ∈ cs, isDig d) :
    ∃ n, intOf (c :: cs) = some n := by
  unfold intOf
  simp only [List.isEmpty_cons, Bool.false_eq_true, if_false, List.foldl_cons]
  have h48 : 48 ≤ c ∧ c ≤ 57 := hc
  simp only [h48, and_self, if_true]
  obtain ⟨n, hn, _⟩ := intOf_fold cs (0 * 10 + (c - 48)) hcs
  exact ⟨n, hn⟩

/-- `s[a:b]` is a digit string starting with `c0` of the class `lo..57` -/
def DigitsFrom (lo : Nat) (s : Array Nat) (a b : Nat) : Prop :=
  a < b ∧ (∃ c, s[a]? = some c ∧ lo ≤ c ∧ c ≤ 57) ∧ ∀ p, a < p → p < b → ∃ c, s[p]? = some c ∧ isDig c

theorem slice_of_digits {lo : Nat} {s : Array Nat} {a b : Nat} (h : DigitsFrom lo s a b) :
    ∃ c cs, slice s (a, b) = c :: cs ∧ lo ≤ c ∧ c ≤ 57 ∧ ∀ d ∈ cs, isDig d := by
  obtain ⟨hab, ⟨c, hc, hlo, hhi⟩, hrest⟩ := h
  have h0 : (slice s (a, b))[0]? = some c := by
    rw [slice_get]; simp [hc]; omega
  cases hs : slice s (a, b) with
  | nil => rw [hs] at h0; simp at h0
  | cons x xs =>
    rw [hs] at h0
    simp at h0
    subst h0
    refine ⟨x, xs, rfl, hlo, hhi, ?_⟩
    intro d hd
    obtain ⟨t, ht⟩ := List.mem_iff_getElem?.mp hd
    have : (slice s (a, b))[t + 1]? = some d := by rw [hs]; simpa using ht
    rw [slice_get] at this
    split at this
    · obtain ⟨c', hc', hd'⟩ := hrest (a + (t + 1)) (by omega) (by omega)
      rw [hc'] at this
      cases this
      exact hd'
    · cases this

theorem inC_range {lo hi c : Nat} : inC false [.range lo hi] c = true ↔ lo ≤ c ∧ c ≤ hi := by
  simp [inC, ClsItem.has]

/-! ### inversion of the relational semantics -/

theorem sem_seq_inv {s : Array Nat} {a b : Re} {st st2 : St} (h : Sem s (.seq a b) st st2) :
    ∃ st1, Sem s a st st1 ∧ Sem s b st1 st2 := by
  cases h with
  | seq h1 h2 => exact ⟨_, h1, h2⟩

theorem sem_alt_inv {s : Array Nat} {a b : Re} {st st1 : St} (h : Sem s (.alt a b) st st1) :
    Sem s a st st1 ∨ Sem s b st st1 := by
  cases h with
  | altL h => exact Or.inl h
  | altR h => exact Or.inr h

theorem sem_group_inv {s : Array Nat} {i : Nat} {r : Re} {st st' : St} (h : Sem s (.group i r) st st') :
    ∃ st1, Sem s r st st1 ∧ st' = { st1 with caps := (i, st.pos, st1.pos) :: st1.caps } := by
  cases h with
  | group h => exact ⟨_, h, rfl⟩

theorem sem_lit_inv {s : Array Nat} {c : Nat} {st st' : St} (h : Sem s (.lit c) st st') :
    s[st.pos]? = some c ∧ st' = { st with pos := st.pos + 1 } := by
  cases h with
  | lit _ _ hc => exact ⟨hc, rfl⟩

theorem sem_eps_inv {s : Array Nat} {st st' : St} (h : Sem s .eps st st') : st' = st := by
  cases h with
  | eps => rfl

theorem sem_cls_inv {s : Array Nat} {neg : Bool} {items : List ClsItem} {st st' : St}
    (h : Sem s (.cls neg items) st st') :
    ∃ c, s[st.pos]? = some c ∧ inC neg items c = true ∧ st' = { st with pos := st.pos + 1 } := by
  cases h with
  | cls _ _ c _ hc hin => exact ⟨c, hc, hin, rfl⟩

/-- facts about the captures of a `printf` match -/
structure PrintfCaps (s : Array Nat) (caps : List (Nat × Nat × Nat)) : Prop where
  number : ∀ a b, capOf caps 2 = some (a, b) → DigitsFrom 49 s a b
  spec : ∀ a b, capOf caps 1 = some (a, b) → slice s (a, b) ≠ [37] →
    ∃ c ch, capOf caps 5 = some (c, c + 1) ∧ s[c]? = some ch

theorem printf_sem_caps {s : Array Nat} {q : Nat} {st : St}
    (h : Sem s Gen.Pat.PropertiesChecker_printf ⟨q, []⟩ st) : PrintfCaps s st.caps := by
  unfold Gen.Pat.PropertiesChecker_printf at h
  obtain ⟨st1, h1, h2⟩ := sem_seq_inv h
  obtain ⟨_, rfl⟩ := sem_lit_inv h1
  rcases sem_alt_inv h2 with h3 | h3
  · obtain ⟨st2, h4, rfl⟩ := sem_group_inv h3
    rcases sem_alt_inv h4 with h5 | h5
    · -- the escaped percent
      obtain ⟨hc, rfl⟩ := sem_lit_inv h5
      simp only at hc
      constructor
      · intro a b hcap; simp [capOf_cons, capOf] at hcap
      · intro a b hcap hne
        simp only [capOf_cons, if_true, Option.some.injEq, Prod.mk.injEq] at hcap
        obtain ⟨rfl, rfl⟩ := hcap
        exact absurd (slice_single hc) hne
    · -- an argument
      obtain ⟨sa, hnum, h6⟩ := sem_seq_inv h5
      obtain ⟨sb, hwid, h7⟩ := sem_seq_inv h6
      obtain ⟨sc, hprec, h8⟩ := sem_seq_inv h7
      obtain ⟨sd, hspec, rfl⟩ := sem_group_inv h8
      obtain ⟨ch, hch, _, rfl⟩ := sem_cls_inv hspec
      -- the number group after the optional `n$`
      have hnum2 : ∀ a b, capOf sa.caps 2 = some (a, b) → DigitsFrom 49 s a b := by
        rcases sem_alt_inv hnum with hn | hn
        · obtain ⟨sn, hg, hl⟩ := sem_seq_inv hn
          obtain ⟨_, rfl⟩ := sem_lit_inv hl
          obtain ⟨sg, hbody, rfl⟩ := sem_group_inv hg
          obtain ⟨s1, hd1, hdr⟩ := sem_seq_inv hbody
          obtain ⟨c1, hc1, hin1, rfl⟩ := sem_cls_inv hd1
          obtain ⟨r1, r2, r3⟩ := sem_rep_cls hdr _ _ _ rfl
          intro a b hcap
          simp only [capOf_cons, if_true, Option.some.injEq, Prod.mk.injEq] at hcap
          obtain ⟨rfl, rfl⟩ := hcap
          simp only at r2 r3 hc1
          refine ⟨by omega, ⟨c1, hc1, (inC_range.mp hin1).1, (inC_range.mp hin1).2⟩, ?_⟩
          intro p hp1 hp2
          obtain ⟨c, hc, hin⟩ := r3 p (by omega) hp2
          exact ⟨c, hc, inC_range.mp hin⟩
        · have := sem_eps_inv hn
          subst this
          intro a b hcap; simp [capOf] at hcap
      have hw2 : capOf sb.caps 2 = capOf sa.caps 2 := sem_capOf_other hwid 2 (by simp [groupsOf])
      have hp2 : capOf sc.caps 2 = capOf sb.caps 2 := sem_capOf_other hprec 2 (by simp [groupsOf])
      constructor
      · intro a b hcap
        simp only [capOf_cons, show ¬ (1 = 2) by omega, show ¬ (5 = 2) by omega, if_false] at hcap
        rw [hp2, hw2] at hcap
        exact hnum2 a b hcap
      · intro a b _ _
        refine ⟨sc.pos, ch, ?_, hch⟩
        simp [capOf_cons]
  · -- a lone percent
    have := sem_eps_inv h3
    subst this
    constructor
    · intro a b hcap; simp [capOf] at hcap
    · intro a b hcap; simp [capOf] at hcap

/-- **every match of the `printf` regex is a lone `%`, a `%%` or a well-formed argument** -/
theorem atoks_total (val : Text) : ∃ ts, atoks val = some ts := by
  unfold atoks
  simp only
  have key : ∀ m ∈ finditer val.toArray Gen.Pat.PropertiesChecker_printf,
      ((atokOf val.toArray m).map (fun t => (m.1, t))).isSome = true := by
    intro m hm
    have hsem := finditer_sem val.toArray _ m hm
    have hcaps := printf_sem_caps hsem
    unfold atokOf
    simp only [groupText, St.group, Gen.Pat.PropertiesChecker_printf_g_good,
      Gen.Pat.PropertiesChecker_printf_g_number, Gen.Pat.PropertiesChecker_printf_g_spec]
    have hcase : ∀ o : Option (Nat × Nat), o = none ∨ ∃ a b, o = some (a, b) := by
      intro o
      cases o with
      | none => left; rfl
      | some p => right; exact ⟨p.1, p.2, rfl⟩
    rcases hcase (capOf m.2.caps 1) with h1 | ⟨a1, b1, h1⟩
    · simp [h1]
    · simp only [h1, Option.map_some, Option.isNone_some, Bool.false_eq_true, if_false]
      by_cases hp : slice val.toArray (a1, b1) = [37]
      · simp [hp]
      · have hne : ¬ ((some (slice val.toArray (a1, b1)) == some [37]) = true) := by simpa using hp
        simp only [hne, if_false]
        obtain ⟨c, ch, hc5, hch⟩ := hcaps.spec a1 b1 h1 hp
        simp only [hc5, Option.map_some, slice_single hch]
        rcases hcase (capOf m.2.caps 2) with h2 | ⟨a2, b2, h2⟩
        · simp [h2]
        · obtain ⟨d, ds, hsl, hlo, hhi, hds⟩ := slice_of_digits (hcaps.number a2 b2 h2)
          obtain ⟨n, hn, hn1⟩ := intOf_digits ⟨hlo, hhi⟩ hds
          simp [h2, hsl, hn, hn1]
  obtain ⟨r, hr, _⟩ := mapOpt_total _ _ key
  exact ⟨r, hr⟩

end PropCk

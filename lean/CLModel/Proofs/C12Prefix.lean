/- The regex items generated for a node that expands to a text `t` match exactly `t`. -/
import CLModel.Proofs.C11Shape
import CLModel.Proofs.C12Fuel
namespace PM
open Rx

/-- `items` can only match the text `t` (whatever follows) -/
def Exact (items : List Re) (t : Text) : Prop :=
  ∀ (s : Array Nat) (rest : List Re) (st st' : St), SemL s (items ++ rest) st st' →
    TextAt s st.pos t ∧ ∃ mid, mid.pos = st.pos + t.length ∧ SemL s rest mid st'

/-- `items` can only match something that starts with `t` -/
def StartsWith (items : List Re) (t : Text) : Prop :=
  ∀ (s : Array Nat) (rest : List Re) (st st' : St), SemL s (items ++ rest) st st' → TextAt s st.pos t

def NodeNoRep : Node → Prop
  | .var _ r => r = false
  | .android r => r = false
  | _ => True

def NoRep (ns : List Node) : Prop := ∀ n ∈ ns, NodeNoRep n

/-- values of a `Matcher` environment: parsed patterns (never the `Literal`s that `sub` adds), unrooted -/
def ValOK : Val → Prop
  | .str _ => False
  | .pat p => p.root = none ∧ NoRep p.nodes

def EnvOK (env : Env) : Prop := ∀ k v, (k, v) ∈ env → ValOK v

theorem lookup_mem {β} : ∀ {l : List (Text × β)} {k : Text} {v : β}, l.lookup k = some v → (k, v) ∈ l
  | [], _, _, h => by simp at h
  | (a, b) :: l, k, v, h => by
    simp only [List.lookup_cons] at h
    cases hk : (k == a) with
    | true =>
      simp only [hk, Option.some.injEq] at h
      have : k = a := by simpa using hk
      subst this; subst h; simp
    | false =>
      simp only [hk] at h
      exact List.mem_cons_of_mem _ (lookup_mem h)

theorem EnvOK.derase {env : Env} (h : EnvOK env) (k : Text) : EnvOK (derase env k) := by
  intro k' v hm
  exact h k' v (List.mem_filter.mp hm).1

theorem EnvOK.lookup {env : Env} (h : EnvOK env) {k : Text} {v : Val} (hl : env.lookup k = some v) : ValOK v :=
  h k v (lookup_mem hl)

theorem exact_nil : Exact [] [] := by
  intro s rest st st' h
  exact ⟨fun j hj => by simp at hj, st, by simp, by simpa using h⟩

theorem exact_lits (t : Text) : Exact (t.map Re.lit) t := by
  intro s rest st st' h
  obtain ⟨h1, h2⟩ := semL_lits t h
  exact ⟨h1, _, rfl, h2⟩

theorem Exact.append {a b : List Re} {ta tb : Text} (ha : Exact a ta) (hb : Exact b tb) :
    Exact (a ++ b) (ta ++ tb) := by
  intro s rest st st' h
  rw [List.append_assoc] at h
  obtain ⟨h1, mid1, hp1, h2⟩ := ha s _ st st' h
  obtain ⟨h3, mid2, hp2, h4⟩ := hb s _ mid1 st' h2
  refine ⟨TextAt.append h1 (by rw [← hp1]; exact h3), mid2, ?_, h4⟩
  simp [hp2, hp1]; omega

theorem Exact.startsWith_append {a b : List Re} {ta tb : Text} (ha : Exact a ta) (hb : StartsWith b tb) :
    StartsWith (a ++ b) (ta ++ tb) := by
  intro s rest st st' h
  rw [List.append_assoc] at h
  obtain ⟨h1, mid1, hp1, h2⟩ := ha s _ st st' h
  have h3 := hb s _ mid1 st' h2
  exact TextAt.append h1 (by rw [← hp1]; exact h3)

theorem exact_group {i : Nat} {body : List Re} {t : Text} (hb : Exact body t) :
    Exact [Re.group i (seqOf body)] t := by
  intro s rest st st' h
  cases h with
  | cons hx hr =>
    cases hx with
    | group hg =>
      rename_i st0
      have hl := sem_seqOf body hg
      have hl' : SemL s (body ++ []) st st0 := by simpa using hl
      obtain ⟨h1, mid, hp, h2⟩ := hb s [] st st0 hl'
      cases h2
      refine ⟨h1, { st0 with caps := (i, st.pos, st0.pos) :: st0.caps }, hp, ?_⟩
      simpa using hr

theorem agree_of_le {f f' : Nat} (hle : f ≤ f') : AgreeE (expandVal f) (expandVal f') := by
  intro v env rm hne
  exact expandVal_mono hle rfl hne

/-- the two evaluations of `_get_android_locale` (one per recursion depth budget) agree -/
theorem android_same {f1 f2 : Nat} {env : Env} {a : Text} {r : Except PyErr (Option Text)}
    (h1 : getAndroidLocale (expandVal f1) env = .ok (some a))
    (h2 : getAndroidLocale (expandVal f2) env = r) (hne : r ≠ .error .recursion) : r = .ok (some a) := by
  have e1 := getAndroidLocale_agree (agree_of_le (Nat.le_max_left f1 f2)) env (by rw [h1]; intro hc; cases hc)
  have e2 := getAndroidLocale_agree (agree_of_le (Nat.le_max_right f1 f2)) env (by rw [h2]; exact hne)
  rw [← h2, ← e2, e1, h1]

def HR (fE fR : Nat) : Prop :=
  ∀ v env t items names, ValOK v → EnvOK env → expandVal fE v env true = .ok t →
    rxVal fR v env = .ok (items, names) → Exact items t

theorem exact_node {fE fR : Nat} (ih : HR fE fR) {c : Node} (hc : NodeNoRep c) {env : Env} (henv : EnvOK env)
    {t : Text} {items names} (he : expandNode (expandVal fE) c env true = .ok t)
    (hr : rxNode (rxVal fR) c env = .ok (items, names)) : Exact items t := by
  cases c with
  | lit s =>
    simp only [expandNode, rxNode, pure, Except.pure, Except.ok.injEq, Prod.mk.injEq] at he hr
    obtain ⟨rfl, _⟩ := hr
    subst he
    exact exact_lits _
  | var name rep =>
    have hrep : rep = false := hc
    subst hrep
    simp only [expandNode, rxNode] at he hr
    cases hl : env.lookup name with
    | none => simp [hl] at he
    | some v =>
      simp only [hl, Bool.false_eq_true, if_false, bind, Except.bind] at he hr
      split at hr
      · cases hr
      · rename_i w hw
        obtain ⟨body, ns⟩ := w
        simp only [pure, Except.pure, Except.ok.injEq, Prod.mk.injEq] at hr
        obtain ⟨rfl, _⟩ := hr
        exact exact_group (ih v _ t body ns (henv.lookup hl) (henv.derase name) he hw)
  | android rep =>
    have hrep : rep = false := hc
    subst hrep
    simp only [expandNode, rxNode, bind, Except.bind] at he hr
    cases hg : getAndroidLocale (expandVal fE) env with
    | error e => simp [hg] at he
    | ok oa =>
      cases oa with
      | none => simp [hg] at he
      | some a =>
        simp only [hg, pure, Except.pure, Except.ok.injEq] at he
        subst he
        have hne : getAndroidLocale (expandVal (fuelFor env)) env ≠ .error .recursion := by
          intro hcn
          simp [hcn] at hr
        have := android_same hg rfl hne
        simp only [this, Bool.false_eq_true, if_false, pure, Except.pure, Except.ok.injEq, Prod.mk.injEq] at hr
        obtain ⟨rfl, _⟩ := hr
        exact exact_group (exact_lits _)
  | star n =>
    simp only [expandNode] at he
    split at he
    · cases he
    · rename_i s hs
      exact absurd (henv.lookup hs) (by simp [ValOK])
    · cases he
  | starstar n sfx =>
    simp only [expandNode] at he
    split at he
    · cases he
    · rename_i s hs
      exact absurd (henv.lookup hs) (by simp [ValOK])
    · cases he

theorem expandChildren_cons_ok {rec : ExpRec} {c : Node} {cs : List Node} {env : Env} {rm : Bool} {t : Text}
    (h : expandChildren rec (c :: cs) env rm = .ok t) :
    (expandNode rec c env true = .error .missingEnv ∧ rm = false ∧ t = []) ∨
    ∃ a b, expandNode rec c env true = .ok a ∧ expandChildren rec cs env rm = .ok b ∧ t = a ++ b := by
  simp only [expandChildren] at h
  cases hn : expandNode rec c env true with
  | error e =>
    simp only [hn] at h
    cases e with
    | missingEnv =>
      simp only at h
      split at h
      · cases h
      · rename_i hrm
        simp only [pure, Except.pure, Except.ok.injEq] at h
        exact Or.inl ⟨rfl, by simpa using hrm, h.symm⟩
    | notStr =>
      simp only at h
      split at h <;> cases h
    | _ => cases h
  | ok a =>
    simp only [hn, bind, Except.bind] at h
    split at h
    · cases h
    · rename_i b hb
      simp only [pure, Except.pure, Except.ok.injEq] at h
      exact Or.inr ⟨a, b, rfl, hb, h.symm⟩

theorem exact_children {fE fR : Nat} (ih : HR fE fR) {env : Env} (henv : EnvOK env) :
    ∀ {ns : List Node} {t : Text} {items names}, NoRep ns →
      expandChildren (expandVal fE) ns env true = .ok t →
      rxChildren (rxVal fR) ns env = .ok (items, names) → Exact items t
  | [], t, items, names, _, he, hr => by
    simp only [expandChildren, rxChildren, pure, Except.pure, Except.ok.injEq, Prod.mk.injEq] at he hr
    obtain ⟨rfl, _⟩ := hr
    subst he
    exact exact_nil
  | c :: cs, t, items, names, hnr, he, hr => by
    obtain ⟨a, na, b, nb, h1, h2, rfl, rfl⟩ := rxChildren_cons hr
    rcases expandChildren_cons_ok he with ⟨_, hrm, _⟩ | ⟨ta, tb, h3, h4, rfl⟩
    · cases hrm
    · exact (exact_node ih (hnr c (by simp)) henv h3 h1).append
        (exact_children ih henv (fun n hn => hnr n (by simp [hn])) h4 h2)

theorem startsWith_children {fE fR : Nat} (ih : HR fE fR) {env : Env} (henv : EnvOK env) :
    ∀ {ns : List Node} {t : Text} {items names}, NoRep ns →
      expandChildren (expandVal fE) ns env false = .ok t →
      rxChildren (rxVal fR) ns env = .ok (items, names) → StartsWith items t
  | [], t, items, names, _, he, _ => by
    simp only [expandChildren, pure, Except.pure, Except.ok.injEq] at he
    subst he
    intro s rest st st' _ j hj
    simp at hj
  | c :: cs, t, items, names, hnr, he, hr => by
    obtain ⟨a, na, b, nb, h1, h2, rfl, rfl⟩ := rxChildren_cons hr
    rcases expandChildren_cons_ok he with ⟨_, _, rfl⟩ | ⟨ta, tb, h3, h4, rfl⟩
    · intro s rest st st' _ j hj
      simp at hj
    · exact (exact_node ih (hnr c (by simp)) henv h3 h1).startsWith_append
        (startsWith_children ih henv (fun n hn => hnr n (by simp [hn])) h4 h2)

theorem rootOf_none {rec : ExpRec} {p : Pattern} {env : Env} (h : p.root = none) : rootOf rec p env = .ok [] := by
  simp [rootOf, h, pure, Except.pure]

/-- the regular expression built for a value that expands (without missing variables) to `t` matches exactly `t` -/
theorem exact_val : ∀ fR fE, HR fE fR
  | 0, _ => by
    intro v env t items names hv _ _ hr
    cases v with
    | str s => exact absurd hv (by simp [ValOK])
    | pat p => simp [rxVal] at hr
  | fR + 1, 0 => by
    intro v env t items names hv _ he _
    cases v with
    | str s => exact absurd hv (by simp [ValOK])
    | pat p => simp [expandVal] at he
  | fR + 1, fE + 1 => by
    intro v env t items names hv henv he hr
    cases v with
    | str s => exact absurd hv (by simp [ValOK])
    | pat p =>
      obtain ⟨hroot, hnr⟩ := hv
      simp only [expandVal, rxVal] at he hr
      obtain ⟨root, citems, h1, h2, rfl⟩ := rxPat_inv hr
      rw [rootOf_none hroot] at h1
      simp only [Except.ok.injEq] at h1
      subst h1
      simp only [expandPat, rootOf_none hroot, bind, Except.bind] at he
      split at he
      · cases he
      · rename_i body hb
        simp only [pure, Except.pure, Except.ok.injEq, List.nil_append] at he
        subst he
        simpa using exact_children (exact_val fR fE) henv hnr hb h2

end PM

namespace PM

theorem parsePattern_root {t : Text} {p : Pattern} (h : parsePattern t = .ok p) : p.root = none := by
  simp only [parsePattern, bind, Except.bind] at h
  split at h
  · cases h
  · simp only [pure, Except.pure, Except.ok.injEq] at h
    subst h; rfl

theorem realEnv_vals : ∀ {env : List (Text × Text)} {e : Env}, realEnv env = .ok e →
    ∀ k v, (k, v) ∈ e → ∃ p, v = Val.pat p ∧ p.root = none
  | [], e, h, k, v, hm => by
    simp only [realEnv, pure, Except.pure, Except.ok.injEq] at h
    subst h; cases hm
  | (a, b) :: rest, e, h, k, v, hm => by
    simp only [realEnv, bind, Except.bind] at h
    split at h
    · cases h
    · rename_i p hp
      split at h
      · cases h
      · rename_i e' he'
        simp only [pure, Except.pure, Except.ok.injEq] at h
        subst h
        simp only [List.mem_cons, Prod.mk.injEq] at hm
        rcases hm with ⟨_, rfl⟩ | hm
        · exact ⟨p, rfl, parsePattern_root hp⟩
        · exact realEnv_vals he' k v hm

/-- the environment of `Matcher(pattern, env, root)` consists of parsed, unrooted patterns -/
theorem mkMatcher_env {pat : Text} {env : List (Text × Text)} {root : Option Text} {m : Matcher}
    (h : mkMatcher pat env root = .ok m) : ∀ k v, (k, v) ∈ m.env → ∃ p, v = Val.pat p ∧ p.root = none := by
  simp only [mkMatcher, bind, Except.bind] at h
  split at h
  · cases h
  · rename_i e he
    split at h
    · cases h
    · simp only [pure, Except.pure, Except.ok.injEq] at h
      subst h
      exact realEnv_vals he

/-- `EnvOK` for a constructed matcher reduces to: no environment value repeats a variable -/
theorem mkMatcher_envOK {pat : Text} {env : List (Text × Text)} {root : Option Text} {m : Matcher}
    (h : mkMatcher pat env root = .ok m) (hnr : ∀ k p, (k, Val.pat p) ∈ m.env → NoRep p.nodes) : EnvOK m.env := by
  intro k v hm
  obtain ⟨p, rfl, hr⟩ := mkMatcher_env h k v hm
  exact ⟨hr, hnr k p hm⟩

end PM

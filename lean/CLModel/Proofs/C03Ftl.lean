/-
C03 round 4 — helper lemmas about the Fluent functions of CLModel/Compare/FluentEnt.lean:
`equals` is equality of the span-erased ASTs (hence an equivalence relation that does not see spans), the word
count does not see spans either, and the equality classes handed to the comparison loop are exactly `equals`.
-/
import CLModel.Compare.FluentEnt
namespace C03F
open Ftl FtlC

/-! ### erasing the spans -/

def eraseVKey : VKey → VKey
  | .ident _ n => .ident 0 n
  | .num _ v => .num 0 v

mutual
  def erasePattern : Pattern → Pattern
    | .mk _ els => .mk 0 (eraseElems els)
  def eraseElems : List Elem → List Elem
    | [] => []
    | e :: r => eraseElem e :: eraseElems r
  def eraseElem : Elem → Elem
    | .text v => .text v
    | .placeable e => .placeable (eraseExpr e)
  def eraseExpr : Expr → Expr
    | .strLit v => .strLit v
    | .numLit v => .numLit v
    | .varRef i => .varRef i
    | .msgRef _ i a => .msgRef 0 i a
    | .termRef _ i a args => .termRef 0 i a (eraseOptArgs args)
    | .funRef i args => .funRef i (eraseArgs args)
    | .select s vs => .select (eraseExpr s) (eraseVariants vs)
    | .placeable e => .placeable (eraseExpr e)
  def eraseOptArgs : Option CallArgs → Option CallArgs
    | none => none
    | some c => some (eraseArgs c)
  def eraseVariants : List Variant → List Variant
    | [] => []
    | v :: r => eraseVariant v :: eraseVariants r
  def eraseVariant : Variant → Variant
    | .mk k v d => .mk (eraseVKey k) (erasePattern v) d
  def eraseArgs : CallArgs → CallArgs
    | .mk p n => .mk (eraseExprs p) n
  def eraseExprs : List Expr → List Expr
    | [] => []
    | e :: r => eraseExpr e :: eraseExprs r
end

theorem eqVKey_iff (a b : VKey) : eqVKey a b = true ↔ eraseVKey a = eraseVKey b := by
  cases a <;> cases b <;> simp [eqVKey, eraseVKey]

mutual
  theorem eqPattern_iff : ∀ (a b : Pattern), eqPattern a b = true ↔ erasePattern a = erasePattern b
    | .mk _ x, .mk _ y => by simp [eqPattern, erasePattern, eqElems_iff x y]
  theorem eqElems_iff : ∀ (a b : List Elem), eqElems a b = true ↔ eraseElems a = eraseElems b
    | [], [] => by simp [eqElems, eraseElems]
    | [], _ :: _ => by simp [eqElems, eraseElems]
    | _ :: _, [] => by simp [eqElems, eraseElems]
    | a :: as, b :: bs => by simp [eqElems, eraseElems, eqElem_iff a b, eqElems_iff as bs]
  theorem eqElem_iff : ∀ (a b : Elem), eqElem a b = true ↔ eraseElem a = eraseElem b
    | .text a, .text b => by simp [eqElem, eraseElem]
    | .placeable a, .placeable b => by simp [eqElem, eraseElem, eqExpr_iff a b]
    | .text _, .placeable _ => by simp [eqElem, eraseElem]
    | .placeable _, .text _ => by simp [eqElem, eraseElem]
  theorem eqExpr_iff : ∀ (a b : Expr), eqExpr a b = true ↔ eraseExpr a = eraseExpr b
    | .strLit a, b => by cases b <;> simp [eqExpr, eraseExpr]
    | .numLit a, b => by cases b <;> simp [eqExpr, eraseExpr]
    | .varRef a, b => by cases b <;> simp [eqExpr, eraseExpr]
    | .msgRef _ i a, b => by cases b <;> simp [eqExpr, eraseExpr]
    | .termRef _ i a x, b => by
      cases b with
      | termRef _ j b' y =>
        cases x with
        | none => cases y <;> simp [eqExpr, eraseExpr, eraseOptArgs]
        | some c =>
          cases y with
          | none => simp [eqExpr, eraseExpr, eraseOptArgs]
          | some d => simp [eqExpr, eraseExpr, eraseOptArgs, eqArgs_iff c d, and_assoc]
      | _ => simp [eqExpr, eraseExpr]
    | .funRef i x, b => by
      cases b with
      | funRef j y => simp [eqExpr, eraseExpr, eqArgs_iff x y]
      | _ => simp [eqExpr, eraseExpr]
    | .select s vs, b => by
      cases b with
      | select t ws => simp [eqExpr, eraseExpr, eqExpr_iff s t, eqVariants_iff vs ws]
      | _ => simp [eqExpr, eraseExpr]
    | .placeable a, b => by
      cases b with
      | placeable b' => simp [eqExpr, eraseExpr, eqExpr_iff a b']
      | _ => simp [eqExpr, eraseExpr]
  theorem eqVariants_iff : ∀ (a b : List Variant), eqVariants a b = true ↔ eraseVariants a = eraseVariants b
    | [], [] => by simp [eqVariants, eraseVariants]
    | [], _ :: _ => by simp [eqVariants, eraseVariants]
    | _ :: _, [] => by simp [eqVariants, eraseVariants]
    | a :: as, b :: bs => by simp [eqVariants, eraseVariants, eqVariant_iff a b, eqVariants_iff as bs]
  theorem eqVariant_iff : ∀ (a b : Variant), eqVariant a b = true ↔ eraseVariant a = eraseVariant b
    | .mk k v d, .mk k' v' d' => by simp [eqVariant, eraseVariant, eqVKey_iff, eqPattern_iff v v', and_assoc]
  theorem eqArgs_iff : ∀ (a b : CallArgs), eqArgs a b = true ↔ eraseArgs a = eraseArgs b
    | .mk p n, .mk p' n' => by simp [eqArgs, eraseArgs, eqExprs_iff p p']
  theorem eqExprs_iff : ∀ (a b : List Expr), eqExprs a b = true ↔ eraseExprs a = eraseExprs b
    | [], [] => by simp [eqExprs, eraseExprs]
    | [], _ :: _ => by simp [eqExprs, eraseExprs]
    | _ :: _, [] => by simp [eqExprs, eraseExprs]
    | a :: as, b :: bs => by simp [eqExprs, eraseExprs, eqExpr_iff a b, eqExprs_iff as bs]
end

/-! ### attributes, entries -/

def eraseAttr (a : Attribute) : Attribute := { start := 0, name := a.name, value := erasePattern a.value }

def eraseAttrs : List Attribute → List Attribute
  | [] => []
  | a :: r => eraseAttr a :: eraseAttrs r

theorem eqAttr_iff (a b : Attribute) : eqAttr a b = true ↔ eraseAttr a = eraseAttr b := by
  cases a; cases b
  simp [eqAttr, eraseAttr, eqPattern_iff]

theorem eqAttrs_iff : ∀ (a b : List Attribute), eqAttrs a b = true ↔ eraseAttrs a = eraseAttrs b
  | [], [] => by simp [eqAttrs, eraseAttrs]
  | [], _ :: _ => by simp [eqAttrs, eraseAttrs]
  | _ :: _, [] => by simp [eqAttrs, eraseAttrs]
  | a :: as, b :: bs => by simp [eqAttrs, eraseAttrs, eqAttr_iff a b, eqAttrs_iff as bs]

theorem eqOptPattern_iff (a b : Option Pattern) : eqOptPattern a b = true ↔ a.map erasePattern = b.map erasePattern := by
  cases a <;> cases b <;> simp [eqOptPattern, eqPattern_iff]

/-- what `equals` compares: the id, the span-erased value, and (unless `self` is a term) the span-erased attributes -/
theorem equals_iff (self other : Entry) : equals self other = true ↔
    entId self = entId other ∧ (entValue self).map erasePattern = (entValue other).map erasePattern ∧
      (isTerm self = true ∨ eraseAttrs (entAttrs self) = eraseAttrs (entAttrs other)) := by
  simp [equals, eqOptPattern_iff, eqAttrs_iff, and_assoc]

/-- the span-erased entry -/
def eraseEntry : Entry → Entry
  | .message m => .message { start := 0, id := m.id, value := m.value.map erasePattern, attributes := eraseAttrs m.attributes }
  | .term t => .term { start := 0, id := t.id, value := erasePattern t.value, attributes := eraseAttrs t.attributes }

/-- `equals` between entries of the same class (two messages / two terms) — what the comparison loop evaluates: the keys of the
    two entities are equal, and a term's key starts with "-" -/
def sameEq (a b : Entry) : Bool := isTerm a == isTerm b && equals a b

theorem sameEq_iff (a b : Entry) : sameEq a b = true ↔
    isTerm a = isTerm b ∧ entId a = entId b ∧ (entValue a).map erasePattern = (entValue b).map erasePattern ∧
      (isTerm a = true ∨ eraseAttrs (entAttrs a) = eraseAttrs (entAttrs b)) := by
  simp [sameEq, equals_iff]

theorem sameEq_refl (a : Entry) : sameEq a a = true := by simp [sameEq_iff]

theorem sameEq_symm (a b : Entry) : sameEq a b = sameEq b a := by
  have key : ∀ x y, sameEq x y = true → sameEq y x = true := by
    intro x y h
    rw [sameEq_iff] at h ⊢
    obtain ⟨h1, h2, h3, h4⟩ := h
    refine ⟨h1.symm, h2.symm, h3.symm, ?_⟩
    rcases h4 with h4 | h4
    · exact .inl (h1 ▸ h4)
    · exact .inr h4.symm
  cases hab : sameEq a b
  · cases hba : sameEq b a
    · rfl
    · rw [key b a hba] at hab; cases hab
  · exact (key a b hab).symm

theorem sameEq_trans (a b c : Entry) (h1 : sameEq a b = true) (h2 : sameEq b c = true) : sameEq a c = true := by
  rw [sameEq_iff] at *
  obtain ⟨a1, a2, a3, a4⟩ := h1
  obtain ⟨b1, b2, b3, b4⟩ := h2
  refine ⟨a1.trans b1, a2.trans b2, a3.trans b3, ?_⟩
  rcases a4 with a4 | a4
  · exact .inl a4
  · rcases b4 with b4 | b4
    · exact .inl (a1 ▸ b4)
    · exact .inr (a4.trans b4)

/-! ### re-spanning: any two entries with the same span-erased form are `equals`, and have the same word count -/

mutual
  theorem wPattern_erase : ∀ (p : Pattern), wPattern (erasePattern p) = wPattern p
    | .mk _ els => by simp [erasePattern, wPattern, wElems_erase els]
  theorem wElems_erase : ∀ (l : List Elem), wElems (eraseElems l) = wElems l
    | [] => by simp [eraseElems, wElems]
    | e :: r => by simp [eraseElems, wElems, wElem_erase e, wElems_erase r]
  theorem wElem_erase : ∀ (e : Elem), wElem (eraseElem e) = wElem e
    | .text v => by simp [eraseElem, wElem]
    | .placeable e => by simp [eraseElem, wElem, wExpr_erase e]
  theorem wExpr_erase : ∀ (e : Expr), wExpr (eraseExpr e) = wExpr e
    | .strLit _ => by simp [eraseExpr, wExpr]
    | .numLit _ => by simp [eraseExpr, wExpr]
    | .varRef _ => by simp [eraseExpr, wExpr]
    | .msgRef _ _ _ => by simp [eraseExpr, wExpr]
    | .termRef _ _ _ none => by simp [eraseExpr, eraseOptArgs, wExpr]
    | .termRef _ _ _ (some c) => by simp [eraseExpr, eraseOptArgs, wExpr, wArgs_erase c]
    | .funRef _ args => by simp [eraseExpr, wExpr, wArgs_erase args]
    | .select s vs => by simp [eraseExpr, wExpr, wVariants_erase vs]
    | .placeable e => by simp [eraseExpr, wExpr, wExpr_erase e]
  theorem wVariants_erase : ∀ (l : List Variant), wVariants (eraseVariants l) = wVariants l
    | [] => by simp [eraseVariants, wVariants]
    | v :: r => by simp [eraseVariants, wVariants, wVariant_erase v, wVariants_erase r]
  theorem wVariant_erase : ∀ (v : Variant), wVariant (eraseVariant v) = wVariant v
    | .mk _ value _ => by simp [eraseVariant, wVariant, wPattern_erase value]
  theorem wArgs_erase : ∀ (c : CallArgs), wArgs (eraseArgs c) = wArgs c
    | .mk pos _ => by simp [eraseArgs, wArgs, wExprs_erase pos]
  theorem wExprs_erase : ∀ (l : List Expr), wExprs (eraseExprs l) = wExprs l
    | [] => by simp [eraseExprs, wExprs]
    | e :: r => by simp [eraseExprs, wExprs, wExpr_erase e, wExprs_erase r]
end

theorem wAttrs_erase : ∀ (l : List Attribute), wAttrs (eraseAttrs l) = wAttrs l
  | [] => rfl
  | a :: r => by simp [eraseAttrs, wAttrs, eraseAttr, wPattern_erase, wAttrs_erase r]

theorem countWords_erase (e : Entry) : countWords (eraseEntry e) = countWords e := by
  cases e with
  | message m =>
    cases hv : m.value <;> simp [eraseEntry, countWords, hv, wAttrs_erase, wPattern_erase]
  | term t => simp [eraseEntry, countWords, wPattern_erase]

mutual
  theorem erasePattern_idem : ∀ (p : Pattern), erasePattern (erasePattern p) = erasePattern p
    | .mk _ els => by simp [erasePattern, eraseElems_idem els]
  theorem eraseElems_idem : ∀ (l : List Elem), eraseElems (eraseElems l) = eraseElems l
    | [] => by simp [eraseElems]
    | e :: r => by simp [eraseElems, eraseElem_idem e, eraseElems_idem r]
  theorem eraseElem_idem : ∀ (e : Elem), eraseElem (eraseElem e) = eraseElem e
    | .text v => by simp [eraseElem]
    | .placeable e => by simp [eraseElem, eraseExpr_idem e]
  theorem eraseExpr_idem : ∀ (e : Expr), eraseExpr (eraseExpr e) = eraseExpr e
    | .strLit _ => by simp [eraseExpr]
    | .numLit _ => by simp [eraseExpr]
    | .varRef _ => by simp [eraseExpr]
    | .msgRef _ _ _ => by simp [eraseExpr]
    | .termRef _ _ _ none => by simp [eraseExpr, eraseOptArgs]
    | .termRef _ _ _ (some c) => by simp [eraseExpr, eraseOptArgs, eraseArgs_idem c]
    | .funRef _ args => by simp [eraseExpr, eraseArgs_idem args]
    | .select s vs => by simp [eraseExpr, eraseExpr_idem s, eraseVariants_idem vs]
    | .placeable e => by simp [eraseExpr, eraseExpr_idem e]
  theorem eraseVariants_idem : ∀ (l : List Variant), eraseVariants (eraseVariants l) = eraseVariants l
    | [] => by simp [eraseVariants]
    | v :: r => by simp [eraseVariants, eraseVariant_idem v, eraseVariants_idem r]
  theorem eraseVariant_idem : ∀ (v : Variant), eraseVariant (eraseVariant v) = eraseVariant v
    | .mk k value _ => by cases k <;> simp [eraseVariant, eraseVKey, erasePattern_idem value]
  theorem eraseArgs_idem : ∀ (c : CallArgs), eraseArgs (eraseArgs c) = eraseArgs c
    | .mk pos _ => by simp [eraseArgs, eraseExprs_idem pos]
  theorem eraseExprs_idem : ∀ (l : List Expr), eraseExprs (eraseExprs l) = eraseExprs l
    | [] => by simp [eraseExprs]
    | e :: r => by simp [eraseExprs, eraseExpr_idem e, eraseExprs_idem r]
end

theorem eraseAttrs_idem : ∀ (l : List Attribute), eraseAttrs (eraseAttrs l) = eraseAttrs l
  | [] => rfl
  | a :: r => by simp [eraseAttrs, eraseAttr, erasePattern_idem, eraseAttrs_idem r]

/-- an entry and its span-erased form are `equals`, both ways -/
theorem sameEq_erase (e : Entry) : sameEq e (eraseEntry e) = true := by
  rw [sameEq_iff]
  cases e with
  | message m =>
    cases hv : m.value <;>
      simp [eraseEntry, isTerm, entId, entValue, entAttrs, hv, erasePattern_idem, eraseAttrs_idem]
  | term t => simp [eraseEntry, isTerm, entId, entValue, entAttrs, erasePattern_idem]

/-! ### the word count of a select expression -/

def variantValue : Variant → Pattern
  | .mk _ v _ => v

theorem wVariants_sum : ∀ (vs : List Variant), wVariants vs = (vs.map (fun v => wPattern (variantValue v))).sum
  | [] => rfl
  | .mk _ v _ :: r => by simp [wVariants, wVariant, variantValue, wVariants_sum r]

theorem wElems_sum : ∀ (els : List Elem), wElems els = (els.map wElem).sum
  | [] => rfl
  | e :: r => by simp [wElems, wElems_sum r]

theorem wAttrs_sum : ∀ (as : List Attribute), wAttrs as = (as.map (fun a => wPattern a.value)).sum
  | [] => rfl
  | a :: r => by simp [wAttrs, wAttrs_sum r]

/-! ### the equality classes handed to the comparison loop are `equals` -/

/-- representatives are pairwise not `equals` -/
def Indep (reps : List Entry) : Prop := reps.Pairwise (fun a b => sameEq a b = false)

theorem findIdx_get {reps : List Entry} {p : Entry → Bool} {i : Nat} (h : reps.findIdx? p = some i) :
    ∃ r, reps[i]? = some r ∧ p r = true := by
  rw [List.findIdx?_eq_some_iff_getElem] at h
  obtain ⟨hlt, hp, _⟩ := h
  exact ⟨reps[i], by simp [hlt], hp⟩

theorem findIdx_prefix {reps reps' : List Entry} {p : Entry → Bool} {i : Nat} (hp : reps <+: reps')
    (h : reps.findIdx? p = some i) : reps'.findIdx? p = some i := by
  obtain ⟨t, rfl⟩ := hp
  rw [List.findIdx?_append, h]; rfl

theorem classify_spec (reps : List Entry) (e : Entry) (hi : Indep reps) :
    Indep (classify reps e).2 ∧ reps <+: (classify reps e).2 ∧
      (classify reps e).2.findIdx? (fun r => sameEq r e) = some ((classify reps e).1 - 1) ∧ 1 ≤ (classify reps e).1 := by
  unfold classify
  have hfun : (fun r => isTerm r == isTerm e && equals r e) = (fun r => sameEq r e) := rfl
  rw [hfun]
  cases hf : reps.findIdx? (fun r => sameEq r e) with
  | some i => exact ⟨hi, List.prefix_refl _, by simpa using hf, by simp⟩
  | none =>
    rw [List.findIdx?_eq_none_iff] at hf
    refine ⟨?_, List.prefix_append _ _, ?_, by simp⟩
    · unfold Indep
      rw [List.pairwise_append]
      refine ⟨hi, by simp, ?_⟩
      intro a ha b hb
      simp only [List.mem_singleton] at hb
      subst hb
      simpa using hf a ha
    · rw [List.findIdx?_append]
      have : reps.findIdx? (fun r => sameEq r e) = none := by rw [List.findIdx?_eq_none_iff]; exact hf
      rw [this]
      simp [List.findIdx?_cons, sameEq_refl]

theorem indep_idx {R : List Entry} (hi : Indep R) {x y : Entry} {i j : Nat}
    (hx : R.findIdx? (fun r => sameEq r x) = some i) (hy : R.findIdx? (fun r => sameEq r y) = some j) :
    i = j ↔ sameEq x y = true := by
  obtain ⟨rx, hrx, px⟩ := findIdx_get hx
  obtain ⟨ry, hry, py⟩ := findIdx_get hy
  constructor
  · intro hij
    subst hij
    rw [hrx] at hry
    cases hry
    exact sameEq_trans x rx y (by rw [sameEq_symm]; exact px) py
  · intro hxy
    have hr : sameEq rx ry = true :=
      sameEq_trans rx y ry (sameEq_trans rx x y px hxy) (by rw [sameEq_symm]; exact py)
    rcases Nat.lt_trichotomy i j with hlt | heq | hgt
    · have hjl : j < R.length := by
        rcases List.getElem?_eq_some_iff.1 hry with ⟨h, _⟩; exact h
      have := (List.pairwise_iff_getElem.1 hi) i j (by omega) hjl hlt
      rw [List.getElem?_eq_some_iff] at hrx hry
      obtain ⟨_, e1⟩ := hrx
      obtain ⟨_, e2⟩ := hry
      rw [e1, e2, hr] at this; cases this
    · exact heq
    · have hil : i < R.length := by
        rcases List.getElem?_eq_some_iff.1 hrx with ⟨h, _⟩; exact h
      have := (List.pairwise_iff_getElem.1 hi) j i (by omega) hil hgt
      rw [List.getElem?_eq_some_iff] at hrx hry
      obtain ⟨_, e1⟩ := hrx
      obtain ⟨_, e2⟩ := hry
      rw [e1, e2, sameEq_symm, hr] at this; cases this

theorem toEnts_spec : ∀ (items : List Item) (reps : List Entry), Indep reps →
    Indep (toEnts items reps).2 ∧ reps <+: (toEnts items reps).2 ∧
      (∀ (i : Nat) (k : Cmp.Key) (c : Option Str) (e : Entry), items[i]? = some (Item.ent k c e) →
        ∃ a : Cmp.Ent, (toEnts items reps).1[i]? = some a ∧ a.key = k ∧ a.junk = false ∧
        a.words = countWords e ∧ (toEnts items reps).2.findIdx? (fun r => sameEq r e) = some (a.cls - 1) ∧ 1 ≤ a.cls) ∧
      (∀ (i : Nat) (k : Cmp.Key) (m : Nat), items[i]? = some (Item.junk k m) →
        (toEnts items reps).1[i]? = some ({ key := k, junk := true, words := 0, cls := 0, msg := m } : Cmp.Ent))
  | [], reps, hi => ⟨hi, List.prefix_refl _, by simp, by simp⟩
  | .junk k m :: rest, reps, hi => by
    obtain ⟨h1, h2, h3, h4⟩ := toEnts_spec rest reps hi
    simp only [toEnts]
    refine ⟨h1, h2, ?_, ?_⟩
    · intro i k' c e hget
      cases i with
      | zero => simp at hget
      | succ n => simpa using h3 n k' c e (by simpa using hget)
    · intro i k' m' hget
      cases i with
      | zero => simp only [List.getElem?_cons_zero, Option.some.injEq, Item.junk.injEq] at hget; simp [hget.1, hget.2]
      | succ n => simpa using h4 n k' m' (by simpa using hget)
  | .ent k c e :: rest, reps, hi => by
    obtain ⟨c1, c2, c3, c4⟩ := classify_spec reps e hi
    obtain ⟨h1, h2, h3, h4⟩ := toEnts_spec rest (classify reps e).2 c1
    simp only [toEnts]
    refine ⟨h1, c2.trans h2, ?_, ?_⟩
    · intro i k' c' e' hget
      cases i with
      | zero =>
        simp only [List.getElem?_cons_zero, Option.some.injEq, Item.ent.injEq] at hget
        obtain ⟨rfl, _, rfl⟩ := hget
        exact ⟨({ key := k, junk := false, words := countWords e, cls := (classify reps e).1, msg := 0 } : Cmp.Ent),
          by simp, rfl, rfl, rfl, findIdx_prefix h2 c3, c4⟩
      | succ n => simpa using h3 n k' c' e' (by simpa using hget)
    · intro i k' m' hget
      cases i with
      | zero => simp at hget
      | succ n => simpa using h4 n k' m' (by simpa using hget)

/-- the entity lists the loop gets for two Fluent files: the class numbers of a reference entity and a localized entity
    are equal iff the localized entity `equals` the reference one (entries of the same kind) -/
theorem fluent_cls (ref l10n : List Item) (i j : Nat) (k1 k2 : Cmp.Key) (c1 c2 : Option Str) (e1 e2 : Entry)
    (h1 : ref[i]? = some (.ent k1 c1 e1)) (h2 : l10n[j]? = some (.ent k2 c2 e2)) :
    ∃ a b, (toEnts ref []).1[i]? = some a ∧ (toEnts l10n (toEnts ref []).2).1[j]? = some b ∧
      a.key = k1 ∧ b.key = k2 ∧ a.junk = false ∧ b.junk = false ∧ a.words = countWords e1 ∧ b.words = countWords e2 ∧
      ((a.cls == b.cls) = sameEq e1 e2) := by
  obtain ⟨r1, _, r3, _⟩ := toEnts_spec ref [] (by simp [Indep])
  obtain ⟨l1, l2, l3, _⟩ := toEnts_spec l10n (toEnts ref []).2 r1
  obtain ⟨a, ha, ka, ja, wa, ia, pa⟩ := r3 i k1 c1 e1 h1
  obtain ⟨b, hb, kb, jb, wb, ib, pb⟩ := l3 j k2 c2 e2 h2
  refine ⟨a, b, ha, hb, ka, kb, ja, jb, wa, wb, ?_⟩
  have := indep_idx l1 (findIdx_prefix l2 ia) ib
  cases hs : sameEq e1 e2
  · have hne : ¬ (a.cls - 1 = b.cls - 1) := by rw [this, hs]; simp
    have : a.cls ≠ b.cls := by omega
    simpa using this
  · have heq : a.cls - 1 = b.cls - 1 := this.2 hs
    have : a.cls = b.cls := by omega
    simpa using this

/-- the comment of an entry is not looked at -/
def dropComment : Item → Item
  | .junk k m => .junk k m
  | .ent k _ e => .ent k none e

theorem toEnts_comments : ∀ (items : List Item) (reps : List Entry), toEnts (items.map dropComment) reps = toEnts items reps
  | [], _ => rfl
  | .junk k m :: rest, reps => by simp [toEnts, dropComment, toEnts_comments rest reps]
  | .ent k c e :: rest, reps => by simp [toEnts, dropComment, toEnts_comments rest]

end C03F

/- C14 composed: `Matcher.match` computed exactly for a literal pattern and for `dir*suffix` (any environment, any root). -/
import CLModel.Proofs.C14MParse
import CLModel.Proofs.C12RNest
namespace C14M
open Rx PM

/-- what a rooted pattern is prefixed with: nothing for an unrooted pattern or one whose first segment is
    absolute, the root otherwise (`Pattern.expand` / `regex_pattern`) -/
def effRoot (root : Option Text) (first : Text) : Text :=
  match root with
  | none => []
  | some r => if isabs first then [] else r

theorem rootOf_lit (rec : ExpRec) (p : Pattern) (env : Env) {t : Text} {rest : List Node}
    (hn : p.nodes = .lit t :: rest) : rootOf rec p env = .ok (effRoot p.root t) := by
  unfold rootOf effRoot
  cases p.root with
  | none => rfl
  | some r => simp [hn, expandNode, pure, Except.pure]

theorem wfRe_seqOf_cons (x : Re) (l : List Re) (s : List Nat × List Nat) :
    wfRe (seqOf (x :: l)) s = (wfRe x s).bind (wfRe (seqOf l)) := by
  cases l with
  | nil =>
    simp only [seqOf]
    cases wfRe x s <;> simp [wfRe]
  | cons y r =>
    simp only [seqOf, wfRe]
    cases wfRe x s <;> rfl

theorem wfRe_seqOf_lits (t : Text) (rest : List Re) (s : List Nat × List Nat) :
    wfRe (seqOf (t.map Re.lit ++ rest)) s = wfRe (seqOf rest) s := by
  induction t with
  | nil => rfl
  | cons c t ih =>
    simp only [List.map_cons, List.cons_append]
    rw [wfRe_seqOf_cons]
    simp [wfRe, ih]

/-- `_cache_regex` for a pattern that is one literal: the characters of root + text, then `\Z`; no groups -/
theorem regexOf_lit {m : Matcher} {t : Text} (hn : m.pattern.nodes = [.lit t]) :
    m.regexOf = .ok (seqOf ((effRoot m.pattern.root t ++ t).map Re.lit ++ [Gen.Pat.matcher_frag_anchor]), []) := by
  have hroot := rootOf_lit (expandVal (fuelFor m.env)) m.pattern m.env hn
  simp only [Matcher.regexOf, rxPat, hroot, hn, rxChildren, rxNode, bind, Except.bind, pure, Except.pure,
    List.append_nil, List.all_nil, Bool.true_and]
  rw [← List.map_append, wfRe_seqOf_lits]
  simp [seqOf, wfRe, Gen.Pat.matcher_frag_anchor]

/-- group number of the first wildcard, `s1` -/
def s1 : Nat := encName (sname 1)

/-- `_cache_regex` for `dir*suffix`: root + dir, `(?P<s1>[^/]*)`, suffix, `\Z` -/
theorem regexOf_star {m : Matcher} {pre post : Text} (hn : m.pattern.nodes = [.lit pre, .star 1, .lit post]) :
    m.regexOf = .ok (seqOf ((effRoot m.pattern.root pre ++ pre).map Re.lit ++
      (Re.group s1 Gen.Pat.matcher_frag_star :: (post.map Re.lit ++ [Gen.Pat.matcher_frag_anchor]))), [sname 1]) := by
  have hroot := rootOf_lit (expandVal (fuelFor m.env)) m.pattern m.env hn
  have hv : validName (sname 1) = true := by decide
  simp only [Matcher.regexOf, rxPat, hroot, hn, rxChildren, rxNode, bind, Except.bind, pure, Except.pure,
    List.append_nil, List.all_cons, List.all_nil, hv, Bool.true_and, List.nil_append, List.cons_append,
    List.append_assoc]
  have hwf : (wfRe (seqOf ((effRoot m.pattern.root pre).map Re.lit ++ (pre.map Re.lit ++
      Re.group (encName (sname 1)) Gen.Pat.matcher_frag_star ::
        (post.map Re.lit ++ [Gen.Pat.matcher_frag_anchor])))) ([], [])).isSome = true := by
    rw [wfRe_seqOf_lits, wfRe_seqOf_lits, wfRe_seqOf_cons]
    simp only [wfRe, Gen.Pat.matcher_frag_star, List.contains_nil, Bool.false_eq_true, if_false, Option.bind]
    rw [wfRe_seqOf_lits]
    simp [seqOf, wfRe, Gen.Pat.matcher_frag_anchor]
  rw [if_pos hwf, List.map_append, List.append_assoc]
  rfl


theorem eq_iff_textAt (path A : Text) : path = A ↔ TextAt path.toArray 0 A ∧ A.length = path.length := by
  constructor
  · rintro rfl
    exact ⟨by simpa using C11R.textAt_toArray_zero path [], rfl⟩
  · rintro ⟨h1, h2⟩
    have := textAt_all h1 (by simpa using h2)
    simpa using this

/-- **a pattern that is one literal matches exactly its own text** (after the root decision), and the
    dictionary it returns is EMPTY — falsy in Python, which is why `_filter` must test `is not None` -/
theorem match_lit {m : Matcher} {t : Text} (hn : m.pattern.nodes = [.lit t]) (path : Text) :
    m.match path = .ok (if path = effRoot m.pattern.root t ++ t then some [] else none) := by
  have hanchor : Gen.Pat.matcher_frag_anchor = Re.eos := rfl
  simp only [Matcher.match, regexOf_lit hn, bind, Except.bind, matchAt, hanchor]
  by_cases hta : TextAt path.toArray 0 (effRoot m.pattern.root t ++ t)
  · rw [C11R.m_lits_ok _ _ _ ⟨0, []⟩ some hta]
    by_cases hl : (effRoot m.pattern.root t ++ t).length = path.length
    · have : path = effRoot m.pattern.root t ++ t := (eq_iff_textAt _ _).mpr ⟨hta, hl⟩
      rw [if_pos this]
      simp [seqOf, Rx.m, hl, groupDict, pure, Except.pure]
    · have : ¬ path = effRoot m.pattern.root t ++ t := fun h => hl ((eq_iff_textAt _ _).mp h).2
      rw [if_neg this]
      have hl' : ¬ (effRoot m.pattern.root t).length + t.length = path.length := by simpa using hl
      simp [seqOf, Rx.m, hl', pure, Except.pure]
  · have : ¬ path = effRoot m.pattern.root t ++ t := fun h => hta ((eq_iff_textAt _ _).mp h).1
    rw [if_neg this, C11R.m_lits_fail _ _ _ ⟨0, []⟩ some hta]
    rfl


/-- the continuation after the star group: the suffix literally, then the end of the path -/
theorem tail_ok (s : Array Nat) (post : Text) (st : St) (hta : TextAt s st.pos post)
    (hl : st.pos + post.length = s.size) :
    Rx.m s (seqOf (post.map Re.lit ++ [Re.eos])) st some = some ⟨s.size, st.caps⟩ := by
  rw [C11R.m_lits_ok s post _ st some hta]
  simp [seqOf, Rx.m, hl]

theorem tail_fail (s : Array Nat) (post : Text) (st : St) (hl : st.pos + post.length ≠ s.size) :
    Rx.m s (seqOf (post.map Re.lit ++ [Re.eos])) st some = none := by
  by_cases hta : TextAt s st.pos post
  · rw [C11R.m_lits_ok s post _ st some hta]
    simp [seqOf, Rx.m, hl]
  · exact C11R.m_lits_fail s post _ st some hta

/-- where the engine stands after the literal part of `dir*suffix`: the suffix is tried at the end of the
    `/`-free run that follows, then at every shorter prefix of it -/
theorem star_run (A x post : Text) :
    matchAt (A ++ x ++ post).toArray
        (seqOf (A.map Re.lit ++ (Re.group s1 Gen.Pat.matcher_frag_star :: (post.map Re.lit ++ [Re.eos])))) 0 =
      Rx.firstSome (fun j => Rx.m (A ++ x ++ post).toArray (seqOf (post.map Re.lit ++ [Re.eos]))
          ⟨j, [(s1, A.length, j)]⟩ some)
        (Rx.downFrom A.length (C11R.runP (A ++ x ++ post).toArray (fun d => d != 47)
          ((A ++ x ++ post).toArray.size + 2 - A.length) A.length)) := by
  have hta : TextAt (A ++ x ++ post).toArray 0 A := by
    rw [List.append_assoc]; exact C11R.textAt_toArray_zero A (x ++ post)
  unfold matchAt
  rw [C11R.m_lits_ok _ A _ ⟨0, []⟩ some hta, m_seqOf_cons]
  have hfrag : Gen.Pat.matcher_frag_star = Re.rep 0 none true (Re.notLit 47) := rfl
  rw [hfrag]
  simp only [Nat.zero_add]
  rw [C11R.m_star_group _ s1 _ _ (C11R.oneChar_notLit _ 47) A.length (by simp) [] _]

theorem getElem_mid (A x post : Text) (q : Nat) (hq : q < x.length) :
    (A ++ x ++ post).toArray[A.length + q]? = x[q]? := by
  simp only [List.getElem?_toArray, List.append_assoc]
  rw [List.getElem?_append_right (by omega), Nat.add_sub_cancel_left, List.getElem?_append_left hq]

/-- a `/`-free value: the engine succeeds with exactly that value in the group -/
theorem star_hit (A x post : Text) (hx : 47 ∉ x) :
    matchAt (A ++ x ++ post).toArray
        (seqOf (A.map Re.lit ++ (Re.group s1 Gen.Pat.matcher_frag_star :: (post.map Re.lit ++ [Re.eos])))) 0 =
      some ⟨(A ++ x ++ post).toArray.size, [(s1, A.length, A.length + x.length)]⟩ := by
  rw [star_run]
  have hsz : (A ++ x ++ post).toArray.size = A.length + x.length + post.length := by simp; omega
  apply C11R.firstSome_downFrom_hit _ A.length x.length
  · apply tail_ok
    · have := C11R.textAt_toArray_right (A ++ x) post
      simpa using this
    · simp only [hsz]
  · apply C11R.runP_ge
    · omega
    · intro q hq
      rw [getElem_mid A x post q hq]
      refine ⟨x[q], by simp [hq], ?_⟩
      have : x[q] ≠ 47 := fun h => hx (h ▸ List.getElem_mem hq)
      simpa using this
  · intro j hj _
    apply tail_fail
    simp only [hsz]; omega

/-- a value with a `/`: the run stops before the value ends, no candidate reaches the end of the path -/
theorem star_miss (A x post : Text) (hx : 47 ∈ x) :
    matchAt (A ++ x ++ post).toArray
        (seqOf (A.map Re.lit ++ (Re.group s1 Gen.Pat.matcher_frag_star :: (post.map Re.lit ++ [Re.eos])))) 0 = none := by
  rw [star_run]
  have hsz : (A ++ x ++ post).toArray.size = A.length + x.length + post.length := by simp; omega
  obtain ⟨i, hi, hxi⟩ := List.getElem_of_mem hx
  apply C11R.firstSome_none
  intro j hj
  obtain ⟨_, hj2⟩ := C11R.mem_downFrom.mp hj
  apply tail_fail
  simp only [hsz]
  have hrun : C11R.runP (A ++ x ++ post).toArray (fun d => d != 47)
      ((A ++ x ++ post).toArray.size + 2 - A.length) A.length ≤ i := by
    apply Nat.le_of_not_lt
    intro hlt
    obtain ⟨c, hc, hp⟩ := C11R.runP_all _ _ _ _ i hlt
    rw [getElem_mid A x post i hi] at hc
    have : c = 47 := by
      rw [List.getElem?_eq_getElem hi, hxi] at hc
      exact (Option.some.inj hc).symm
    subst this
    simp at hp
  omega


/-- **`dir*suffix` applied to `dir x suffix`**: matches iff `x` contains no `/`, and then reports `s1 = x` -/
theorem match_star {mt : Matcher} {pre post : Text} (hn : mt.pattern.nodes = [.lit pre, .star 1, .lit post])
    (x : Text) :
    mt.match (effRoot mt.pattern.root pre ++ pre ++ x ++ post) =
      .ok (if 47 ∈ x then none else some [(sname 1, some x)]) := by
  have hanchor : Gen.Pat.matcher_frag_anchor = Re.eos := rfl
  simp only [Matcher.match, regexOf_star hn, bind, Except.bind, hanchor]
  by_cases hx : 47 ∈ x
  · rw [star_miss _ x post hx, if_pos hx]; rfl
  · rw [star_hit _ x post hx, if_neg hx]
    have hne : (sname 1 == androidName) = false := by decide
    have hsl : slice (effRoot mt.pattern.root pre ++ pre ++ x ++ post).toArray
        (effRoot mt.pattern.root pre ++ pre).length ((effRoot mt.pattern.root pre ++ pre).length + x.length) = x := by
      apply slice_textAt
      have := C11R.textAt_toArray_right (effRoot mt.pattern.root pre ++ pre) (x ++ post)
      rw [← List.append_assoc] at this
      exact (TextAt.split this).1
    simp only [groupDict, List.map_cons, List.map_nil, List.any_cons, List.any_nil, hne, Bool.or_false,
      Bool.false_and, Bool.false_eq_true, if_false, pure, Except.pure, groupText, St.group, capOf, s1,
      List.find?_cons, beq_self_eq_true, hsl]

end C14M

/- C14 composed: what `PatternParser.parse` makes of a text without specials and of `dir/*suffix`. -/
import CLModel.Paths.FilterM
import CLModel.Proofs.C12REngine
import CLModel.Proofs.RxSearch
namespace C14M
open Rx PM

/-- a text without `*` and without `{`: `PatternParser` finds nothing special in it -/
def Plain (t : Text) : Prop := 42 ∉ t ∧ 123 ∉ t

instance (t : Text) : Decidable (Plain t) := inferInstanceAs (Decidable (42 ∉ t ∧ 123 ∉ t))

theorem special_none (s : Array Nat) (st : St) (k : K) (h42 : s[st.pos]? ≠ some 42) (h123 : s[st.pos]? ≠ some 123) :
    m s Gen.Pat.paths_matcher_PATH_SPECIAL st k = none := by
  simp only [Gen.Pat.paths_matcher_PATH_SPECIAL, m]
  simp [h42, h123]
  split <;> simp

/-- from position `p` on there is neither `*` nor `{` -/
def PlainFrom (s : Array Nat) (p : Nat) : Prop := ∀ j, p ≤ j → s[j]? ≠ some 42 ∧ s[j]? ≠ some 123

theorem finditerAux_plain (s : Array Nat) (fuel pos : Nat) (adv : Bool) (h : PlainFrom s pos) :
    finditerAux s Gen.Pat.paths_matcher_PATH_SPECIAL fuel pos adv = [] := by
  apply List.eq_nil_iff_forall_not_mem.mpr
  intro p hp
  obtain ⟨h1, _, h3⟩ := finditerAux_sound s _ fuel pos adv p hp
  have hn := h p.1 h1
  rcases h3 with h3 | h3
  · unfold matchAt at h3
    rw [special_none s ⟨p.1, []⟩ _ hn.1 hn.2] at h3; cases h3
  · unfold matchAtNE at h3
    rw [special_none s ⟨p.1, []⟩ _ hn.1 hn.2] at h3; cases h3

theorem plainFrom_of_plain {pre t : Text} (h : Plain t) : PlainFrom (pre ++ t).toArray pre.length := by
  intro j hj
  simp only [List.getElem?_toArray]
  rw [List.getElem?_append_right hj]
  constructor
  · intro hc; exact h.1 (List.mem_of_getElem? hc)
  · intro hc; exact h.2 (List.mem_of_getElem? hc)

theorem slice_all (t : Text) : slice t.toArray 0 t.toArray.size = t := by
  simp [slice]

theorem parsePattern_plain {t : Text} (h : Plain t) : parsePattern t = .ok ⟨[.lit t], none, 1⟩ := by
  have hp : PlainFrom t.toArray 0 := by simpa using plainFrom_of_plain (pre := []) h
  simp only [parsePattern, finditer, finditerAux_plain _ _ _ _ hp, parseLoop, bind, Except.bind, pure, Except.pure,
    List.nil_append, slice_all]
  rfl


theorem special_star (s : Array Nat) (q : Nat) (h : s[q]? = some 42) (h2 : s[q + 1]? ≠ some 42) :
    matchAt s Gen.Pat.paths_matcher_PATH_SPECIAL q = some ⟨q + 1, [(3, q, q + 1)]⟩ := by
  simp only [matchAt, Gen.Pat.paths_matcher_PATH_SPECIAL, m]
  simp [h, h2]
  split <;> simp

theorem finditer_one (s : Array Nat) (q : Nat) (st : St) (hq : q ≤ s.size)
    (hbefore : ∀ j, j < q → s[j]? ≠ some 42 ∧ s[j]? ≠ some 123)
    (hm : matchAt s Gen.Pat.paths_matcher_PATH_SPECIAL q = some st) (hpos : st.pos = q + 1)
    (hafter : PlainFrom s (q + 1)) :
    finditer s Gen.Pat.paths_matcher_PATH_SPECIAL = [(q, st)] := by
  unfold finditer
  rw [show 2 * s.size + 3 = (2 * s.size + 2) + 1 from rfl, finditerAux]
  simp only [show ¬ (0 > s.size) by omega, if_false, Bool.false_eq_true]
  by_cases hq0 : q = 0
  · subst hq0
    rw [hm]
    simp only [hpos, finditerAux_plain _ _ _ _ hafter]
  · have h0 := hbefore 0 (by omega)
    have hnone : matchAt s Gen.Pat.paths_matcher_PATH_SPECIAL 0 = none := by
      unfold matchAt; exact special_none s ⟨0, []⟩ _ h0.1 h0.2
    rw [hnone]
    obtain ⟨q', st', hs, hle⟩ := search_complete (pos := 0 + 1) hm (by omega) hq
    obtain ⟨h1, _, h3, _⟩ := search_spec hs
    have hqq : q' = q := by
      by_cases hlt : q' < q
      · have hb := hbefore q' hlt
        unfold matchAt at h3
        rw [special_none s ⟨q', []⟩ _ hb.1 hb.2] at h3; cases h3
      · omega
    subst hqq
    rw [hm] at h3
    cases h3
    simp only [hs, hpos, finditerAux_plain _ _ _ _ hafter]

theorem parsePattern_star {pre post : Text} (hpre : Plain pre) (hne : pre ≠ []) (hpost : Plain post) :
    parsePattern (pre ++ 42 :: post) = .ok ⟨[.lit pre, .star 1, .lit post], none, 1⟩ := by
  have hs42 : (pre ++ 42 :: post).toArray[pre.length]? = some 42 := by simp
  have hnext : (pre ++ 42 :: post).toArray[pre.length + 1]? ≠ some 42 := by
    simp only [List.getElem?_toArray]
    rw [List.getElem?_append_right (by omega)]
    simp only [Nat.add_sub_cancel_left, List.getElem?_cons_succ]
    intro hc
    have : 42 ∈ post := List.mem_of_getElem? hc
    exact hpost.1 this
  have hm := special_star _ _ hs42 hnext
  have hbefore : ∀ j, j < pre.length → (pre ++ 42 :: post).toArray[j]? ≠ some 42 ∧
      (pre ++ 42 :: post).toArray[j]? ≠ some 123 := by
    intro j hj
    simp only [List.getElem?_toArray]
    rw [List.getElem?_append_left hj]
    exact ⟨fun hc => hpre.1 (List.mem_of_getElem? hc), fun hc => hpre.2 (List.mem_of_getElem? hc)⟩
  have hafter : PlainFrom (pre ++ 42 :: post).toArray (pre.length + 1) := by
    have := plainFrom_of_plain (pre := pre ++ [42]) hpost
    simpa using this
  have hfi := finditer_one _ pre.length _ (by simp) hbefore hm rfl hafter
  have hpos : pre.length > 0 := List.length_pos_iff.mpr hne
  have hgv : groupText (pre ++ 42 :: post).toArray ⟨pre.length + 1, [(3, pre.length, pre.length + 1)]⟩ gVariable = none := by
    simp [groupText, St.group, capOf, gVariable, Gen.Pat.paths_matcher_PATH_SPECIAL_g_variable]
  have hgs : groupText (pre ++ 42 :: post).toArray ⟨pre.length + 1, [(3, pre.length, pre.length + 1)]⟩ gStar = some [42] := by
    simp [groupText, St.group, capOf, gStar, Gen.Pat.paths_matcher_PATH_SPECIAL_g_star, slice]
  have hs1 : slice (pre ++ 42 :: post).toArray 0 pre.length = pre := by
    simp [slice]
  have hs2 : slice (pre ++ 42 :: post).toArray (pre.length + 1) (pre.length + (post.length + 1)) = post := by
    simp only [slice, List.extract_toArray, List.extract_eq_take_drop]
    simp only [List.drop_append, List.drop_of_length_le (Nat.le_succ _), List.nil_append,
      Nat.add_sub_cancel_left, List.drop_succ_cons, List.drop_zero]
    exact List.take_of_length_le (by omega)
  simp only [parsePattern, hfi, parseLoop, parseStep, bind, Except.bind, pure, Except.pure, hgv, hgs, truthy,
    hpos, if_true, stepWildcard, markPrefix, hs1]
  simp [hs2]

end C14M

/-
C15W, part 1: the parser models never yield two neighbouring Whitespace entries (`NoAdjWs`), because the
white-space expressions `[ \t\r\n]+` / `\n+` are greedy repeats of a one-character step: after a match that
ends at `p` the expression cannot match at `p`.  Core Lean only.
-/
import CLModel.Proofs.C15Text
import CLModel.Proofs.C02XInc
namespace C15W
open Rx P Gen.Pat Merge

/-! ### a greedy `P+` stops where it cannot go on -/

theorem runLen_none_cons (p : Nat → Bool) (c : Nat) (t : List Nat) :
    runLen p none (c :: t) = if p c then 1 + runLen p none t else 0 := by
  simp [runLen]

theorem runLen_drop (p : Nat → Bool) : ∀ l : List Nat, runLen p none (l.drop (runLen p none l)) = 0
  | [] => by simp [runLen]
  | c :: t => by
    rw [runLen_none_cons]
    by_cases h : p c
    · simp only [h, if_true]
      rw [show 1 + runLen p none t = runLen p none t + 1 by omega, List.drop_succ_cons]
      exact runLen_drop p t
    · simp [h, runLen_none_cons]

/-- the expression is `P+` for a one-character test `P`, in front of the final continuation -/
def PlusRe (R : Re) : Prop :=
  ∃ P : Nat → Bool, ∀ (s : Array Nat) (pos : Nat), pos ≤ s.size →
    matchAt s R pos =
      if runLen P none (s.toList.drop pos) < 1 then none
      else some ⟨pos + runLen P none (s.toList.drop pos), []⟩

theorem plus_exact (s : Array Nat) (P : Nat → Bool) (pos : Nat) (hp : pos ≤ s.size) :
    loop (charStep s P) true (s.size + 2 - pos) 1 none ⟨pos, []⟩ some =
      if runLen P none (s.toList.drop pos) < 1 then none
      else some ⟨pos + runLen P none (s.toList.drop pos), []⟩ := by
  apply loop_greedy_total_step s P [] some (fun _ => rfl) _ 1 none pos
  have := runLen_le P (s.toList.drop pos) none
  simp only [List.length_drop, Array.length_toList] at this
  omega

theorem plusRe_parser : PlusRe Parser_reWhitespace :=
  ⟨inC false [.ch 32, .ch 9, .ch 13, .ch 10], fun s pos hp => by
    simp only [matchAt, Parser_reWhitespace, m_rep, m_cls_charStep]
    exact plus_exact s _ pos hp⟩

theorem plusRe_defines : PlusRe DefinesParser_reWhitespace :=
  ⟨fun d => d == 10, fun s pos hp => by
    simp only [matchAt, DefinesParser_reWhitespace, m_rep, C02X.m_lit_charStep]
    exact plus_exact s _ pos hp⟩

/-- GREEDY STOP: a match of `P+` is non-empty, ends inside the text, and the expression does not match again
    where it ended -/
theorem plus_stop (R : Re) (hR : PlusRe R) (s : Array Nat) (pos : Nat) (w : St) (hp : pos ≤ s.size)
    (h : matchAt s R pos = some w) : pos < w.pos ∧ w.pos ≤ s.size ∧ matchAt s R w.pos = none := by
  obtain ⟨P, hP⟩ := hR
  rw [hP s pos hp] at h
  split at h
  · cases h
  · rename_i hn
    simp only [Option.some.injEq] at h
    subst h
    have hle := runLen_le P (s.toList.drop pos) none
    simp only [List.length_drop, Array.length_toList] at hle
    have hw : pos + runLen P none (s.toList.drop pos) ≤ s.size := by omega
    refine ⟨by simp only; omega, hw, ?_⟩
    rw [hP s _ hw]
    have : s.toList.drop (pos + runLen P none (s.toList.drop pos))
        = (s.toList.drop pos).drop (runLen P none (s.toList.drop pos)) := by
      rw [List.drop_drop]
    rw [this, runLen_drop]
    simp

/-! ### when does a `getNext` yield a Whitespace entry -/

/-- `next` yields a Whitespace entry at `off` only if the white-space expression `R` matches at the offset the
    search really starts from (`off`, or `off + 1` for a DTD whose byte-order mark is skipped), and the entry ends
    where the match ends -/
def WsFrom (R : Re) (s : Array Nat) (next : Nat → Entry) : Prop :=
  ∀ off, (next off).kind = .whitespace →
    ∃ w o, (o = off ∨ (off = 0 ∧ o = 1)) ∧ matchAt s R o = some w ∧ (next off).e = w.pos

theorem getJunk_kind (s : Array Nat) (off : Nat) (exps : List Re) : (getJunk s off exps).kind = .junk := rfl

theorem getNext_ws (c : BaseCfg) (s : Array Nat) (off : Nat) (h : (getNext c s off).kind = .whitespace) :
    ∃ w, matchAt s c.reWhitespace off = some w ∧ (getNext c s off).e = w.pos := by
  simp only [getNext] at h ⊢
  rcases hcm : matchAt s c.reComment off with _ | cst
  · simp only [hcm, Option.isSome_none, Option.isNone_none, Bool.false_and] at h ⊢
    rcases hws : matchAt s c.reWhitespace off with _ | w
    · exfalso
      simp only [hws] at h
      rcases hk : matchAt s c.reKey off with _ | km
      · simp [hk, getJunk_kind] at h
      · simp only [hk] at h
        rcases hcr : c.create s off km with _ | ⟨e, k, v⟩
        · simp [hcr, getJunk_kind] at h
        · simp [hcr] at h
    · exact ⟨w, rfl, by simp⟩
  · exfalso
    simp only [hcm, Option.isSome_some, Option.isNone_some] at h
    split at h
    · rename_i e he
      split at he
      · cases he; simp at h
      · cases he
    · rcases hws : matchAt s c.reWhitespace cst.pos with _ | w
      · simp only [hws] at h
        rcases hk : matchAt s c.reKey cst.pos with _ | km
        · simp [hk] at h
        · simp only [hk] at h
          rcases hcr : c.create s cst.pos km with _ | ⟨e, k, v⟩
          · simp [hcr] at h
          · simp [hcr] at h
      · simp only [hws] at h
        split at h
        · rename_i e he
          split at he
          · cases he; simp at h
          · simp at he
        · rcases hk : matchAt s c.reKey w.pos with _ | km
          · simp [hk] at h
          · simp only [hk] at h
            rcases hcr : c.create s w.pos km with _ | ⟨e, k, v⟩
            · simp [hcr] at h
            · simp [hcr] at h

theorem propsGetNext_ws (s : Array Nat) (off : Nat) (h : (propsGetNext s off).kind = .whitespace) :
    ∃ w, matchAt s Parser_reWhitespace off = some w ∧ (propsGetNext s off).e = w.pos := by
  simp only [propsGetNext] at h ⊢
  rcases hcm : matchAt s PropertiesParser_reComment off with _ | cst
  · simp only [hcm, Option.isSome_none, Option.isNone_none, Bool.false_and] at h ⊢
    rcases hws : matchAt s Parser_reWhitespace off with _ | w
    · exfalso
      simp only [hws] at h
      rcases hk : matchAt s PropertiesParser_reKey off with _ | km
      · simp [hk, getJunk_kind] at h
      · simp [hk] at h
    · exact ⟨w, rfl, by simp⟩
  · exfalso
    simp only [hcm, Option.isSome_some, Option.isNone_some] at h
    split at h
    · rename_i e he
      split at he
      · cases he; simp at h
      · cases he
    · rcases hws : matchAt s Parser_reWhitespace cst.pos with _ | w
      · simp only [hws] at h
        rcases hk : matchAt s PropertiesParser_reKey cst.pos with _ | km
        · simp [hk] at h
        · simp [hk] at h
      · simp only [hws] at h
        split at h
        · rename_i e he
          split at he
          · cases he; simp at h
          · simp at he
        · rcases hk : matchAt s PropertiesParser_reKey w.pos with _ | km
          · simp [hk] at h
          · simp [hk] at h

theorem definesGetNext_ws (s : Array Nat) (fel : Bool) (off : Nat)
    (h : (definesGetNext s fel off).1.kind = .whitespace) :
    ∃ w, matchAt s DefinesParser_reWhitespace off = some w ∧ (definesGetNext s fel off).1.e = w.pos := by
  simp only [definesGetNext] at h ⊢
  rcases hcm : matchAt s DefinesParser_reComment off with _ | cst
  · simp only [hcm, Option.isSome_none, Option.isNone_none] at h ⊢
    rcases hws : matchAt s DefinesParser_reWhitespace off with _ | w
    · exfalso
      simp only [hws] at h
      rcases hk : matchAt s DefinesParser_reKey off with _ | km
      · simp only [hk, Option.isSome_none] at h
        rcases hpi : matchAt s DefinesParser_rePI off with _ | st
        · simp [hpi, getJunk_kind] at h
        · simp [hpi] at h
      · simp [hk] at h
    · refine ⟨w, rfl, ?_⟩
      by_cases hb : (off == 0 || !(w.pos - off == 1 || fel)) = true
      · exfalso
        simp only [hws, hb, if_true, Bool.false_eq_true, if_false] at h
        simp at h
      · simp only [hb, if_false, Bool.false_eq_true, Bool.false_and]
        simp
  · exfalso
    simp only [hcm, Option.isSome_some, Option.isNone_some] at h
    rcases hws : matchAt s DefinesParser_reWhitespace cst.pos with _ | w
    · simp only [hws] at h
      rcases hk : matchAt s DefinesParser_reKey cst.pos with _ | km
      · simp [hk] at h
      · simp [hk] at h
    · simp only [hws] at h
      split at h
      · rename_i e he
        split at he
        · simp at he; subst he; simp at h
        · split at he
          · simp at he; subst he; simp at h
          · simp at he
      · rcases hk : matchAt s DefinesParser_reKey w.pos with _ | km
        · simp [hk] at h
        · simp [hk] at h

theorem iniGetNext_ws (s : Array Nat) (off : Nat) (h : (iniGetNext s off).kind = .whitespace) :
    ∃ w, matchAt s Parser_reWhitespace off = some w ∧ (iniGetNext s off).e = w.pos := by
  unfold iniGetNext at h ⊢
  split
  · rename_i st hst
    simp [hst] at h
  · rename_i hst
    simp only [hst] at h
    exact getNext_ws iniCfg s off h

theorem dtdGetNext_ws (s : Array Nat) (off0 : Nat) (h : (dtdGetNext s off0).kind = .whitespace) :
    ∃ w o, off0 ≤ o ∧ o ≤ off0 + 1 ∧ (off0 ≠ 0 → o = off0) ∧
      matchAt s Parser_reWhitespace o = some w ∧ (dtdGetNext s off0).e = w.pos := by
  unfold dtdGetNext at h ⊢
  generalize ho : (if (off0 == 0 && (matchAt s DTDParser_reHeader 0).isSome) = true then off0 + 1 else off0) = o at h ⊢
  have h1 : off0 ≤ o ∧ o ≤ off0 + 1 ∧ (off0 ≠ 0 → o = off0) := by
    rw [← ho]
    split
    · rename_i hc
      simp only [Bool.and_eq_true, beq_iff_eq] at hc
      exact ⟨by omega, by omega, fun hne => absurd hc.1 hne⟩
    · exact ⟨by omega, by omega, fun _ => rfl⟩
  simp only at h ⊢
  by_cases hj : (getNext dtdCfg s o).kind = .junk
  · exfalso
    simp only [hj, beq_self_eq_true, if_true] at h
    split at h
    · simp at h
    · rw [hj] at h; cases h
  · have hb : ((getNext dtdCfg s o).kind == Kind.junk) = false := by
      cases hk : (getNext dtdCfg s o).kind <;> simp_all
    simp only [hb, Bool.false_eq_true, if_false] at h ⊢
    obtain ⟨w, hw, he⟩ := getNext_ws dtdCfg s o h
    exact ⟨w, o, h1.1, h1.2.1, h1.2.2, hw, he⟩

/-! ### the walk -/

/-- no two neighbouring entries are both Whitespace -/
def NoAdjK : List Entry → Prop
  | a :: b :: rest => ¬ (a.kind = .whitespace ∧ b.kind = .whitespace) ∧ NoAdjK (b :: rest)
  | _ => True

theorem walkFrom_noAdj {σ : Type} (next : σ → Nat → Entry × σ) (size : Nat)
    (H : ∀ c off c', off < size → (next c off).1.kind = .whitespace →
      (next c' (next c off).1.e).1.kind ≠ .whitespace) :
    ∀ fuel c off es, walkFrom next size fuel c off = .done es →
      NoAdjK es ∧ ∀ e es', es = e :: es' → e = (next c off).1 ∧ off < size := by
  intro fuel
  induction fuel with
  | zero =>
    intro c off es h
    simp only [walkFrom] at h
    split at h
    · cases h; exact ⟨trivial, fun _ _ h => by cases h⟩
    · cases h
  | succ fuel ih =>
    intro c off es h
    simp only [walkFrom] at h
    split at h
    · cases h; exact ⟨trivial, fun _ _ h => by cases h⟩
    · rename_i hlt
      cases hr : walkFrom next size fuel (next c off).2 (next c off).1.e with
      | stuck o es' => rw [hr] at h; cases h
      | done es' =>
        rw [hr] at h
        simp only [WalkResult.cons, WalkResult.done.injEq] at h
        subst h
        obtain ⟨h1, h2⟩ := ih _ _ _ hr
        refine ⟨?_, fun e es'' heq => by cases heq; exact ⟨rfl, by omega⟩⟩
        cases es' with
        | nil => trivial
        | cons b rest =>
          obtain ⟨hb, _⟩ := h2 b rest rfl
          refine ⟨?_, h1⟩
          rintro ⟨ha, hbw⟩
          rw [hb] at hbw
          exact H c off _ (by omega) ha hbw

/-- GOAL: the walk of every regex format never yields two neighbouring Whitespace entries -/
theorem walk_noAdjK (f : Fmt) (s : Array Nat) (es : List Entry) (h : walk f s = .done es) : NoAdjK es := by
  cases f <;> simp only [walk] at h
  · refine (walkFrom_noAdj _ _ ?_ _ _ _ _ h).1
    intro _ off _ hoff ha hb
    obtain ⟨w, hw, he⟩ := propsGetNext_ws s off ha
    obtain ⟨_, _, hn⟩ := plus_stop _ plusRe_parser s off w (by omega) hw
    simp only at he hb
    rw [he] at hb
    obtain ⟨w', hw', _⟩ := propsGetNext_ws s w.pos hb
    rw [hn] at hw'; cases hw'
  · refine (walkFrom_noAdj _ _ ?_ _ _ _ _ h).1
    intro _ off _ hoff ha hb
    obtain ⟨w, o, h1, h2, _, hw, he⟩ := dtdGetNext_ws s off ha
    obtain ⟨hlt, _, hn⟩ := plus_stop _ plusRe_parser s o w (by omega) hw
    simp only at he hb
    rw [he] at hb
    obtain ⟨w', o', _, _, h3, hw', _⟩ := dtdGetNext_ws s w.pos hb
    rw [h3 (by omega), hn] at hw'; cases hw'
  · refine (walkFrom_noAdj _ _ ?_ _ _ _ _ h).1
    intro _ off _ hoff ha hb
    obtain ⟨w, hw, he⟩ := iniGetNext_ws s off ha
    obtain ⟨_, _, hn⟩ := plus_stop _ plusRe_parser s off w (by omega) hw
    simp only at he hb
    rw [he] at hb
    obtain ⟨w', hw', _⟩ := iniGetNext_ws s w.pos hb
    rw [hn] at hw'; cases hw'
  · refine (walkFrom_noAdj _ _ ?_ _ _ _ _ h).1
    intro c off c' hoff ha hb
    obtain ⟨w, hw, he⟩ := definesGetNext_ws s c off ha
    obtain ⟨_, _, hn⟩ := plus_stop _ plusRe_defines s off w (by omega) hw
    rw [he] at hb
    obtain ⟨w', hw', _⟩ := definesGetNext_ws s c' w.pos hb
    rw [hn] at hw'; cases hw'
  · refine (walkFrom_noAdj _ _ ?_ _ _ _ _ h).1
    intro _ off _ hoff ha hb
    obtain ⟨w, hw, he⟩ := getNext_ws poCfg s off ha
    obtain ⟨_, _, hn⟩ := plus_stop _ plusRe_parser s off w (by omega) hw
    simp only [poGetNext] at he hb
    rw [he] at hb
    obtain ⟨w', hw', _⟩ := getNext_ws poCfg s w.pos hb
    rw [show poCfg.reWhitespace = Parser_reWhitespace from rfl, hn] at hw'; cases hw'

/-! ### … as the merge sees it -/

theorem toEnt_kind (f : Fmt) (s : Array Nat) (v i : Nat) (e : Entry) (x : Ent) (h : toEnt f s v i e = .ok x) :
    x.kind = e.kind := by
  unfold toEnt at h
  split at h
  · simp at h
  · simp only [Except.ok.injEq] at h
    rw [← h]

theorem toEnts_noAdj (f : Fmt) (s : Array Nat) (v : Nat) : ∀ (l : List (Entry × Nat)) (ents : List Ent),
    toEnts f s v l = .ok ents → NoAdjK (l.map (·.1)) → NoAdjWs ents := by
  intro l
  induction l with
  | nil =>
    intro ents h _
    rw [toEnts] at h
    simp only [Except.ok.injEq] at h
    rw [← h]; trivial
  | cons p rest ih =>
    intro ents h hn
    obtain ⟨e, i⟩ := p
    obtain ⟨x, xs, h1, h2, rfl⟩ := toEnts_cons_ok f s v e i rest ents h
    cases rest with
    | nil =>
      rw [toEnts] at h2
      simp only [Except.ok.injEq] at h2
      rw [← h2]; trivial
    | cons q rest' =>
      obtain ⟨e', i'⟩ := q
      obtain ⟨y, ys, h3, h4, rfl⟩ := toEnts_cons_ok f s v e' i' rest' xs h2
      simp only [List.map_cons, NoAdjK] at hn
      refine ⟨?_, ih (y :: ys) h2 hn.2⟩
      rintro ⟨ha, hb⟩
      apply hn.1
      simp only [Ent.isWs, beq_iff_eq] at ha hb
      rw [toEnt_kind f s v i e x h1] at ha
      rw [toEnt_kind f s v i' e' y h3] at hb
      exact ⟨ha, hb⟩

/-- `NoAdjWs` holds for the entries of every parsed text: it is a theorem about the parser models, no longer a
    hypothesis of `merge_identical` -/
theorem walk_noAdjWs (f : Fmt) (s : Array Nat) (es : List Entry) (ents : List Ent) (v : Nat)
    (hw : walk f s = .done es) (he : toEnts f s v es.zipIdx = .ok ents) : NoAdjWs ents := by
  apply toEnts_noAdj f s v _ ents he
  rw [List.zipIdx_map_fst]
  exact walk_noAdjK f s es hw

end C15W

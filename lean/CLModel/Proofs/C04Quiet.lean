/- C04, quiet levels: the entries handed to `merge` by the missing-entity loop of `ContentComparer.compare` are a function of
   the filters' verdicts only — the quiet level of the observers decides what is LISTED, never what is merged. -/
import CLModel.Compare.MergeBytes
import CLModel.Proofs.C10Obs
namespace C04Q
open MergeB ObsM TreeM

/-- the verdict `ObserverList.notify("missingEntity", file, key)` returns, from the filters alone -/
def verdict (filters : List (Option Filter)) (file : File) (key : Data) : Ret :=
  listRet (filters.map (fun f => rvOf f .missingEntity file key))

/-- the entries merged / counted, from the filters alone: only `error` verdicts are merged, `warning` is counted as
    `report`, `ignore` is dropped -/
def missSpec (filters : List (Option Filter)) (file : File) : List (Data × List Nat) → List (List Nat) × Nat × Nat
  | [] => ([], 0, 0)
  | (key, refAll) :: rest =>
    let r := missSpec filters file rest
    match verdict filters file key with
    | .ignore => r
    | .error => (refAll :: r.1, r.2.1 + 1, r.2.2)
    | .warning => (r.1, r.2.1, r.2.2 + 1)

theorem filters_of_all2 {cat f d} : ∀ {obs obs' : List Obs},
    All₂ (fun o o' => o.notify cat f d = .ok (o', rvOf o.filter cat f d)) obs obs' →
      obs'.map (·.filter) = obs.map (·.filter)
  | _, _, .nil => rfl
  | _, _, .cons h t => by
    simp only [List.map_cons]
    rw [(notify_ok h).2.2.1, filters_of_all2 t]

theorem missingLoop_spec (file : File) : ∀ (ents : List (Data × List Nat)) (l l' : ObsList) (ms : List (List Nat)) (m r : Nat),
    missingLoop l file ents = .ok (l', ms, m, r) →
      (ms, m, r) = missSpec (l.observers.map (·.filter)) file ents
  | [], l, l', ms, m, r, h => by
    simp only [missingLoop, pure, Except.pure, Except.ok.injEq, Prod.mk.injEq] at h
    obtain ⟨_, h2, h3, h4⟩ := h
    subst h2; subst h3; subst h4
    rfl
  | (key, refAll) :: rest, l, l', ms, m, r, h => by
    simp only [missingLoop, bind, Except.bind] at h
    cases hn : l.notify .missingEntity file key with
    | error e => rw [hn] at h; cases h
    | ok p =>
      obtain ⟨l1, rv⟩ := p
      rw [hn] at h
      simp only at h
      obtain ⟨hrv, hfan, _⟩ := list_notify_spec hn
      have hf : l1.observers.map (·.filter) = l.observers.map (·.filter) := filters_of_all2 hfan
      cases hr : missingLoop l1 file rest with
      | error e => rw [hr] at h; cases h
      | ok q =>
        obtain ⟨l2, ms', m', r'⟩ := q
        rw [hr] at h
        simp only at h
        have ih := missingLoop_spec file rest l1 l2 ms' m' r' hr
        rw [hf] at ih
        have hv : verdict (l.observers.map (·.filter)) file key = rv := by
          rw [hrv]; simp [verdict, List.map_map, Function.comp_def]
        simp only [missSpec, hv, ← ih]
        cases rv <;> simp [pure, Except.pure] at h ⊢ <;> (obtain ⟨_, a, b, c⟩ := h; subst a; subst b; subst c; simp)

theorem init_filters (q : Nat) (filters : List (Option Filter)) :
    (ObsList.init q (filters.map (Obs.init q))).observers.map (·.filter) = filters := by
  simp [ObsList.init, Obs.init, List.map_map, Function.comp_def]

/-- `compareMerge`, when it returns, returns the byte-level merge of the entries selected by the filters alone -/
theorem compareMerge_spec {q : Nat} {filters : List (Option Filter)} {file : File} {ents : List (Data × List Nat)}
    {caps : Nat} {l10n ref : List Nat} {skips : List Merge.Skip} {out : FileOut × Nat × Nat}
    (h : compareMerge q filters file ents caps l10n ref skips = .ok out) :
    out = (mergeBytes true caps l10n ref skips (missSpec filters file ents).1,
           (missSpec filters file ents).2.1, (missSpec filters file ents).2.2) := by
  simp only [compareMerge, bind, Except.bind] at h
  cases hl : missingLoop (ObsList.init q (filters.map (Obs.init q))) file ents with
  | error e => rw [hl] at h; cases h
  | ok p =>
    obtain ⟨l', ms, m, r⟩ := p
    rw [hl] at h
    simp only [pure, Except.pure, Except.ok.injEq] at h
    have := missingLoop_spec file ents _ l' ms m r hl
    rw [init_filters] at this
    rw [← h, ← this]

/-! ### totality: no notification makes the observers raise (files without a legacy module) -/

theorem missingLoop_ok_of_run (file : File) : ∀ (ents : List (Data × List Nat)) (l : ObsList),
    (∃ l', l.run (ents.map (fun e => Ev.notify .missingEntity file e.1)) = .ok l') →
      ∃ res, missingLoop l file ents = .ok res
  | [], l, _ => ⟨_, rfl⟩
  | (key, refAll) :: rest, l, ⟨l', h⟩ => by
    simp only [List.map_cons, ObsList.run, bind, Except.bind, ObsList.step] at h
    cases hn : l.notify .missingEntity file key with
    | error e => rw [hn] at h; cases h
    | ok p =>
      obtain ⟨l1, rv⟩ := p
      rw [hn] at h
      simp only [pure, Except.pure] at h
      obtain ⟨res, hres⟩ := missingLoop_ok_of_run file rest l1 ⟨l', h⟩
      obtain ⟨l2, ms, m, r⟩ := res
      simp only [missingLoop, bind, Except.bind, hn, hres]
      cases rv <;> simp [pure, Except.pure]

theorem compareMerge_total (q : Nat) (filters : List (Option Filter)) (file : File) (ents : List (Data × List Nat))
    (caps : Nat) (l10n ref : List Nat) (skips : List Merge.Skip) (hm : Modelled file) :
    ∃ out, compareMerge q filters file ents caps l10n ref skips = .ok out := by
  have hrun := list_run_ok (ents.map (fun e => Ev.notify .missingEntity file e.1))
    (ObsList.init q (filters.map (Obs.init q)))
    (by simp [ObsList.init, Obs.init]; exact inv_empty)
    (by
      intro o ho
      simp only [ObsList.init, List.mem_map] at ho
      obtain ⟨f, _, rfl⟩ := ho
      simp [Obs.init]; exact inv_empty)
    (by
      intro ev hev
      simp only [List.mem_map] at hev
      obtain ⟨e, _, rfl⟩ := hev
      exact hm)
  obtain ⟨res, hres⟩ := missingLoop_ok_of_run file ents _ hrun
  obtain ⟨l2, ms, m, r⟩ := res
  exact ⟨(mergeBytes true caps l10n ref skips ms, m, r), by simp [compareMerge, bind, Except.bind, hres, pure, Except.pure]⟩

end C04Q

/- C06 (rendered values), part 5: the plural side.  A value assembled from text (without `#`) and
   `#n` tokens (each followed by a non-digit or the end) has exactly the variables `n`, in order:
   `pluralVars (renderP ts) = some (varsOf ts)` for token lists of ANY length. -/
import CLModel.Checks.Properties
import CLModel.Proofs.C06RLex
namespace C06R
open Rx PropCk

/-- `#([0-9]+)` as generated (both occurrences in `check_plural`) -/
def rePlural : Re := .seq (.lit 35) (.group 1 (.rep 1 none true reDig))

theorem plural0_eq : Gen.Pat.checks_properties_PropertiesChecker_check_plural_0 = rePlural := rfl
theorem plural1_eq : Gen.Pat.checks_properties_PropertiesChecker_check_plural_1 = rePlural := rfl

/-- generator-side token of a plural value: text or `#n` -/
inductive PTok
  | text (t : PropCk.Text)
  | var (n : Nat)
  deriving DecidableEq, Repr

def renderPTok : PTok → PropCk.Text
  | .text t => t
  | .var n => 35 :: decimal n

def renderP (ts : List PTok) : PropCk.Text := ts.flatMap renderPTok

/-- the variables, in order of appearance -/
def varsOf : List PTok → List Nat
  | [] => []
  | .text _ :: ts => varsOf ts
  | .var n :: ts => n :: varsOf ts

def WfPTok : PTok → Prop
  | .text t => 35 ∉ t
  | .var _ => True

/-- the side condition on the sequence: a `#n` is not followed by a digit (which would extend `n`) -/
def SeparatedP : List PTok → Prop
  | [] => True
  | .var _ :: rest => (∀ c, (renderP rest).head? = some c → ¬ IsDig c) ∧ SeparatedP rest
  | .text _ :: rest => SeparatedP rest

def WfRenderP (ts : List PTok) : Prop := (∀ t ∈ ts, WfPTok t) ∧ SeparatedP ts

theorem renderP_cons (t : PTok) (ts : List PTok) : renderP (t :: ts) = renderPTok t ++ renderP ts := by
  simp [renderP]

theorem plural_nomatch {s : Array Nat} {q : Nat} (h : s[q]? ≠ some 35) : matchAt s rePlural q = none := by
  unfold matchAt rePlural
  rw [m_seq, lit_fail h]

/-- `#` + a digit run that ends at a non-digit: the match is exactly that -/
theorem plural_match {s : Array Nat} {q : Nat} {ds : PropCk.Text} (hat : At s q (35 :: ds)) (hne : ds ≠ [])
    (hds : ∀ d ∈ ds, IsDig d) (hstop : NoDigAt s (q + 1 + ds.length)) :
    matchAt s rePlural q = some ⟨q + 1 + ds.length, [(1, q + 1, q + 1 + ds.length)]⟩ := by
  obtain ⟨h0, hat'⟩ := at_cons.mp hat
  have hlt := getElem?_some_lt h0
  unfold matchAt rePlural
  rw [m_seq, lit_ok h0, m_group]
  exact digits_hit hat' hds hstop (by omega) 1
    (by cases ds with
        | nil => exact absurd rfl hne
        | cons _ _ => simp) [] _ _ rfl

theorem pluralVars_walk (s : Array Nat) : ∀ (ts : List PTok) (p fuel : Nat), (∀ t ∈ ts, WfPTok t) →
    SeparatedP ts → Tail s p (renderP ts) → (varsOf ts).length < fuel →
    mapOpt (fun m => match groupText s m.2 1 with
        | some t => intOf t
        | none => none) (finditerAux s rePlural fuel p false) = some (varsOf ts) := by
  intro ts
  induction ts with
  | nil =>
    intro p fuel _ _ htl hf
    obtain ⟨f, rfl⟩ : ∃ f, fuel = f + 1 := ⟨fuel - 1, by omega⟩
    have hp : p = s.size := by have := htl.2; simpa [renderP] using this
    subst hp
    rw [fi_end f (plural_nomatch (by simp))]
    rfl
  | cons tok rest ih =>
    intro p fuel hwf hsep htl hf
    obtain ⟨f, rfl⟩ : ∃ f, fuel = f + 1 := ⟨fuel - 1, by omega⟩
    rw [renderP_cons] at htl
    have hwfr : ∀ t ∈ rest, WfPTok t := fun t ht => hwf t (by simp [ht])
    obtain ⟨hat, htl'⟩ := tail_append htl
    cases tok with
    | text t =>
      simp only [renderPTok] at hat htl'
      have hno : 35 ∉ t := hwf (.text t) (by simp)
      have hle : p + t.length ≤ s.size := by have := htl'.2; omega
      rw [fi_skip f t.length p hle (fun j hj => plural_nomatch (by
        rw [at_get hat hj]
        intro h
        have : t[j] = 35 := by simpa using h
        exact hno (this ▸ List.getElem_mem hj)))]
      exact ih (p + t.length) (f + 1) hwfr hsep htl' (by simpa [varsOf] using hf)
    | var n =>
      obtain ⟨hne, hds, hint⟩ := decimal_any n
      simp only [renderPTok] at hat htl'
      have hlen : (35 :: decimal n).length = 1 + (decimal n).length := by simp; omega
      have hstop : NoDigAt s (p + 1 + (decimal n).length) := by
        intro c hc
        have := tail_head htl'
        rw [hlen, ← Nat.add_assoc] at this
        rw [this] at hc
        exact hsep.1 c hc
      have hm := plural_match hat hne hds hstop
      have hple : p ≤ s.size := by have := htl.2; omega
      rw [fi_hit f hple hm]
      have hb : ((⟨p + 1 + (decimal n).length, [(1, p + 1, p + 1 + (decimal n).length)]⟩ : St).pos == p) = false := by
        simp; omega
      rw [hb]
      have hsl : slice s (p + 1, p + 1 + (decimal n).length) = decimal n := slice_of_at (at_cons.mp hat).2
      have htl'' : Tail s (p + 1 + (decimal n).length) (renderP rest) := by
        rw [hlen, ← Nat.add_assoc] at htl'; exact htl'
      have ih' := ih (p + 1 + (decimal n).length) f hwfr hsep.2 htl'' (by simp [varsOf] at hf; omega)
      rw [mapOpt, ih']
      simp only [groupText, St.group, capOf_cons, if_true, Option.map_some, hsl, hint, varsOf]

theorem varsOf_le (ts : List PTok) : (varsOf ts).length ≤ (renderP ts).length := by
  induction ts with
  | nil => simp [varsOf]
  | cons tok rest ih =>
    rw [renderP_cons, List.length_append]
    cases tok with
    | text t => simp only [varsOf]; omega
    | var n => simp only [varsOf, renderPTok, List.length_cons]; omega

/-- **the variables of an assembled plural value are exactly the `#n` tokens it was assembled from** -/
theorem pluralVars_render (ts : List PTok) (h : WfRenderP ts) :
    pluralVars rePlural (renderP ts) = some (varsOf ts) := by
  unfold pluralVars finditer
  have := varsOf_le ts
  exact pluralVars_walk (renderP ts).toArray ts 0 _ h.1 h.2 (tail_toArray _) (by simp; omega)

end C06R

/-
Helper lemmas for C10: `Observer` / `ObserverList` (core Lean only).
-/
import CLModel.Compare.Observer
import CLModel.Proofs.C10Tree
namespace ObsM
open TreeM

/-! ### what `notify` does, in one formula -/

def Cat.isFile : Cat → Bool
  | .missingFile | .obsoleteFile => true
  | _ => false

def Cat.isError : Cat → Bool
  | .error => true
  | _ => false

/-- the value `notify` returns: the filter's answer (asked without entity for file categories) -/
def rvOf (flt : Option Filter) (cat : Cat) (file : File) (data : Data) : Ret :=
  match flt with
  | none => .error
  | some f => if cat.isFile then f file .none else f file data

/-- is a non-ignored notification of this category stored in the details at this quiet level? -/
def shows (q : Nat) : Cat → Bool
  | .missingFile => q < 2
  | .obsoleteFile => q == 0
  | .missingEntity => q < 2
  | .obsoleteEntity => q < 1
  | .error => q < 4
  | .warning => q < 3
  | .other => false

/-- the details item of a notification -/
def detailOf (cat : Cat) (rv : Ret) (data : Data) : Detail :=
  if cat.isFile then (cat, .ret rv) else (cat, .data data)

/-- the summary counter a notification bumps -/
def countKey : Cat → Option StatKey
  | .error => some .errors
  | .warning => some .warnings
  | _ => none

def bumpCat (s : Summary) (loc : Option Text) (cat : Cat) : Summary :=
  match countKey cat with
  | some k => bump s loc k 1
  | none => s

theorem notify_eq (o : Obs) (cat : Cat) (file : File) (data : Data) :
    o.notify cat file data =
      (let rv := rvOf o.filter cat file data
       if rv = .ignore then pure (o, rv)
       else do
         let d ← if shows o.quiet cat then appendDetail o.details file (detailOf cat rv data) else pure o.details
         pure ({ o with details := d, error := o.error || cat.isError,
                        summary := bumpCat o.summary file.locale cat }, rv)) := by
  obtain ⟨q, flt, s, d, e⟩ := o
  cases cat <;> cases flt <;>
    simp +decide [Obs.notify, rvOf, Cat.isError, shows, detailOf, countKey, bumpCat, bind, Except.bind, pure, Except.pure]
  all_goals
    by_cases h2 : 2 ≤ q
    · have h2' : ¬ q < 2 := by omega
      have h0 : ¬ q = 0 := by omega
      simp [h2, h2', h0]
    · have h2' : q < 2 := by omega
      simp [h2, h2']

/-! ### summary and error flag: a pure fold, independent of quiet and details -/

/-- `(summary, error)` -/
abbrev Core := Summary × Bool

def Obs.core (o : Obs) : Core := (o.summary, o.error)

def coreNotify (ign : Bool) (c : Core) (cat : Cat) (loc : Option Text) : Core :=
  if ign then c else (bumpCat c.1 loc cat, c.2 || cat.isError)

def coreAddStats (c : Core) (loc : Option Text) : List (StatKey × Nat) → Core
  | [] => c
  | (k, v) :: rest => coreAddStats (bump c.1 loc k v, c.2 || (k == .errors)) loc rest

def coreEv (ign : Ev → Bool) (c : Core) (ev : Ev) : Core :=
  match ev with
  | .notify cat f _ => coreNotify (ign ev) c cat f.locale
  | .stats f st => if ign ev then c else coreAddStats c f.locale st

def coreRun (ign : Ev → Bool) (c : Core) (h : List Ev) : Core := h.foldl (coreEv ign) c

/-- does an observer with this filter ignore the event? -/
def ignObs (flt : Option Filter) : Ev → Bool
  | .notify cat f d => rvOf flt cat f d == .ignore
  | .stats f _ => match flt with
    | some g => g f (.str []) == .ignore
    | none => false

/-- does the `ObserverList` ignore the event?  (`updateStats` is never filtered by the list) -/
def ignList (flts : List (Option Filter)) : Ev → Bool
  | .notify cat f d => flts.all (fun flt => rvOf flt cat f d == .ignore)
  | .stats _ _ => false

theorem addStats_core (o : Obs) (loc : Option Text) (st : List (StatKey × Nat)) :
    (o.addStats loc st).core = coreAddStats o.core loc st ∧ (o.addStats loc st).filter = o.filter ∧
      (o.addStats loc st).quiet = o.quiet ∧ (o.addStats loc st).details = o.details := by
  induction st generalizing o with
  | nil => simp [Obs.addStats, coreAddStats]
  | cons kv rest ih =>
    obtain ⟨k, v⟩ := kv
    simp only [Obs.addStats, coreAddStats]
    cases hk : (k == StatKey.errors)
    · obtain ⟨h1, h2, h3, h4⟩ := ih { o with summary := bump o.summary loc k v }
      simp only [Bool.false_eq_true, ↓reduceIte]
      exact ⟨by rw [h1]; simp [Obs.core], h2, h3, h4⟩
    · obtain ⟨h1, h2, h3, h4⟩ := ih { o with error := true, summary := bump o.summary loc k v }
      simp only [↓reduceIte]
      exact ⟨by rw [h1]; simp [Obs.core], h2, h3, h4⟩

theorem updateStats_core (o : Obs) (f : File) (st : List (StatKey × Nat)) :
    (o.updateStats f st).core = coreEv (ignObs o.filter) o.core (.stats f st) ∧
      (o.updateStats f st).filter = o.filter ∧ (o.updateStats f st).quiet = o.quiet ∧
      (o.updateStats f st).details = o.details := by
  obtain ⟨h1, h2, h3, h4⟩ := addStats_core o f.locale st
  cases hf : o.filter with
  | none => simp [Obs.updateStats, hf, coreEv, ignObs, h1, h2, h3, h4]
  | some g =>
    simp only [Obs.updateStats, hf, coreEv, ignObs]
    by_cases hg : (g f (Data.str []) == Ret.ignore) = true
    · simp [hg, hf]
    · simp [hg, h1, h2, h3, h4, hf]

/-- one `notify`: return value, summary/error step, details step -/
theorem notify_ok {o o' : Obs} {cat file data rv} (h : o.notify cat file data = .ok (o', rv)) :
    rv = rvOf o.filter cat file data ∧
      o'.core = coreEv (ignObs o.filter) o.core (.notify cat file data) ∧
      o'.filter = o.filter ∧ o'.quiet = o.quiet ∧
      (if rv ≠ .ignore ∧ shows o.quiet cat = true
        then appendDetail o.details file (detailOf cat rv data) = .ok o'.details
        else o'.details = o.details) := by
  rw [notify_eq] at h
  simp only at h
  by_cases hi : rvOf o.filter cat file data = Ret.ignore
  · simp only [hi, ↓reduceIte, pure, Except.pure, Except.ok.injEq, Prod.mk.injEq] at h
    obtain ⟨h1, h2⟩ := h
    subst h1; subst h2
    simp [coreEv, ignObs, coreNotify, hi]
  · simp only [hi, ↓reduceIte] at h
    cases hs : shows o.quiet cat
    · simp only [hs, Bool.false_eq_true, ↓reduceIte, pure, Except.pure, bind, Except.bind, Except.ok.injEq,
        Prod.mk.injEq] at h
      obtain ⟨h1, h2⟩ := h
      subst h1; subst h2
      simp [coreEv, ignObs, coreNotify, hi, Obs.core]
    · simp only [hs, ↓reduceIte, bind, Except.bind, pure, Except.pure] at h
      cases ha : appendDetail o.details file (detailOf cat (rvOf o.filter cat file data) data) with
      | error e => rw [ha] at h; cases h
      | ok d =>
        rw [ha] at h
        simp only [Except.ok.injEq, Prod.mk.injEq] at h
        obtain ⟨h1, h2⟩ := h
        subst h1; subst h2
        simp [coreEv, ignObs, coreNotify, hi, Obs.core, ha]

/-- conversely `notify` succeeds when the details update does -/
theorem notify_ok_of {o : Obs} {cat file data}
    (h : shows o.quiet cat = true → rvOf o.filter cat file data ≠ .ignore →
      ∃ d, appendDetail o.details file (detailOf cat (rvOf o.filter cat file data) data) = .ok d) :
    ∃ o', o.notify cat file data = .ok (o', rvOf o.filter cat file data) := by
  rw [notify_eq]
  simp only
  by_cases hi : rvOf o.filter cat file data = Ret.ignore
  · simp [hi, pure, Except.pure]
  · cases hs : shows o.quiet cat
    · simp [hi, pure, Except.pure, bind, Except.bind]
    · obtain ⟨d, hd⟩ := h hs hi
      simp [hi, hd, pure, Except.pure, bind, Except.bind]


theorem getCount_bump (s : Summary) (loc' loc : Option Text) (key' key : StatKey) (n : Nat) :
    getCount (bump s loc' key' n) loc key = getCount s loc key + (if loc' = loc ∧ key' = key then n else 0) := by
  induction s with
  | nil =>
    simp only [bump, getCount, List.find?_cons, List.find?_nil]
    by_cases hl : loc' = loc
    · subst hl
      by_cases hk : key = key'
      · simp [Counters.add, Counters.zero, hk]
      · have hk' : ¬ key' = key := fun h => hk h.symm
        simp [Counters.add, Counters.zero, hk, hk']
    · have : (loc' == loc) = false := by simpa using hl
      simp [this, hl]
  | cons p rest ih =>
    simp only [bump]
    by_cases hp : (p.1 == loc') = true
    · have hp' : p.1 = loc' := by simpa using hp
      simp only [hp, ↓reduceIte, getCount, List.find?_cons]
      by_cases hl : loc' = loc
      · subst hl
        by_cases hk : key = key'
        · simp [hp, Counters.add, hk]
        · have hk' : ¬ key' = key := fun h => hk h.symm
          simp [hp, Counters.add, hk, hk']
      · have : (p.1 == loc) = false := by rw [hp']; simpa using hl
        simp [this, hl]
    · have hpf : (p.1 == loc') = false := by simpa using hp
      simp only [hpf, Bool.false_eq_true, ↓reduceIte]
      unfold getCount at ih ⊢
      simp only [List.find?_cons]
      cases hpl : (p.1 == loc)
      · exact ih
      · have : ¬ loc' = loc := by
          intro h; subst h; rw [hpl] at hpf; cases hpf
        simp [this]

theorem totalErrors_bump (s : Summary) (loc : Option Text) (key : StatKey) (n : Nat) :
    totalErrors (bump s loc key n) = totalErrors s + (if key = .errors then n else 0) := by
  induction s with
  | nil => by_cases hk : key = .errors <;> simp [bump, totalErrors, Counters.add, Counters.zero, hk, eq_comm]
  | cons p rest ih =>
    simp only [bump]
    by_cases hp : (p.1 == loc) = true
    · by_cases hk : key = .errors
      · subst hk; simp [hp, totalErrors, Counters.add]; omega
      · simp [hp, totalErrors, Counters.add, hk, eq_comm]
    · have hpf : (p.1 == loc) = false := by simpa using hp
      simp only [hpf, Bool.false_eq_true, ↓reduceIte]
      simp only [totalErrors, List.map_cons, List.sum_cons] at ih ⊢
      rw [ih]; omega

/-! ### what the summary counts -/

/-- the total a stats dict holds for one key -/
def statSum (st : List (StatKey × Nat)) (key : StatKey) : Nat := ((st.filter (·.1 == key)).map (·.2)).sum

/-- what one event adds to `summary[loc][key]` -/
def contrib (ign : Ev → Bool) (loc : Option Text) (key : StatKey) (ev : Ev) : Nat :=
  if ign ev then 0 else
    match ev with
    | .notify cat f _ => if f.locale = loc ∧ countKey cat = some key then 1 else 0
    | .stats f st => if f.locale = loc then statSum st key else 0

/-- number of non-ignored error/warning notifications of the locale, plus the non-ignored stats -/
def countSpec (ign : Ev → Bool) (loc : Option Text) (key : StatKey) (h : List Ev) : Nat :=
  (h.map (contrib ign loc key)).sum

/-- does the event raise the error flag? -/
def isErrEv : Ev → Bool
  | .notify cat _ _ => cat.isError
  | .stats _ st => st.any (·.1 == .errors)

theorem getCount_bumpCat (s : Summary) (loc' loc : Option Text) (cat : Cat) (key : StatKey) :
    getCount (bumpCat s loc' cat) loc key
      = getCount s loc key + (if loc' = loc ∧ countKey cat = some key then 1 else 0) := by
  unfold bumpCat
  cases hc : countKey cat with
  | none => simp
  | some k => simp [getCount_bump]

theorem coreAddStats_spec (c : Core) (loc' : Option Text) (st : List (StatKey × Nat)) :
    (∀ loc key, getCount (coreAddStats c loc' st).1 loc key
        = getCount c.1 loc key + (if loc' = loc then statSum st key else 0)) ∧
      (coreAddStats c loc' st).2 = (c.2 || st.any (·.1 == .errors)) ∧
      totalErrors (coreAddStats c loc' st).1 = totalErrors c.1 + statSum st .errors := by
  induction st generalizing c with
  | nil => simp [coreAddStats, statSum]
  | cons kv rest ih =>
    obtain ⟨k, v⟩ := kv
    obtain ⟨h1, h2, h3⟩ := ih (bump c.1 loc' k v, c.2 || (k == .errors))
    simp only [coreAddStats]
    refine ⟨?_, ?_, ?_⟩
    · intro loc key
      rw [h1, getCount_bump]
      by_cases hl : loc' = loc
      · by_cases hk : k = key
        · subst hk; simp [hl, statSum]; omega
        · have : (k == key) = false := by simpa using hk
          simp [hl, hk, statSum, this]
      · simp [hl]
    · rw [h2]; simp [Bool.or_assoc]
    · rw [h3, totalErrors_bump]
      by_cases hk : k = .errors
      · subst hk; simp [statSum]; omega
      · have : (k == StatKey.errors) = false := by simpa using hk
        simp [hk, statSum, this]

theorem coreEv_spec (ign : Ev → Bool) (c : Core) (ev : Ev) :
    (∀ loc key, getCount (coreEv ign c ev).1 loc key = getCount c.1 loc key + contrib ign loc key ev) ∧
      (coreEv ign c ev).2 = (c.2 || (!ign ev && isErrEv ev)) := by
  cases ev with
  | notify cat f d =>
    simp only [coreEv, coreNotify, contrib, isErrEv]
    cases hi : ign (.notify cat f d)
    · simp [getCount_bumpCat]
    · simp
  | stats f st =>
    simp only [coreEv, contrib, isErrEv]
    cases hi : ign (.stats f st)
    · obtain ⟨h1, h2, _⟩ := coreAddStats_spec c f.locale st
      simp [h1, h2]
    · simp

theorem coreRun_spec (ign : Ev → Bool) (h : List Ev) : ∀ (c : Core),
    (∀ loc key, getCount (coreRun ign c h).1 loc key = getCount c.1 loc key + countSpec ign loc key h) ∧
      (coreRun ign c h).2 = (c.2 || h.any (fun ev => !ign ev && isErrEv ev)) := by
  induction h with
  | nil => intro c; simp [coreRun, countSpec]
  | cons ev rest ih =>
    intro c
    obtain ⟨h1, h2⟩ := ih (coreEv ign c ev)
    obtain ⟨e1, e2⟩ := coreEv_spec ign c ev
    simp only [coreRun, List.foldl_cons] at h1 h2 ⊢
    refine ⟨?_, ?_⟩
    · intro loc key
      rw [h1, e1]; simp [countSpec]; omega
    · rw [h2, e2]; simp [Bool.or_assoc]

/-- an `errors` entry in a stats dict has a positive value -/
def ErrStatsPos (h : List Ev) : Prop :=
  ∀ ev ∈ h, match ev with
    | .stats _ st => ∀ kv ∈ st, kv.1 = StatKey.errors → 0 < kv.2
    | _ => True

theorem statSum_pos {st : List (StatKey × Nat)} (hp : ∀ kv ∈ st, kv.1 = StatKey.errors → 0 < kv.2) :
    (st.any (·.1 == .errors) = true ↔ 0 < statSum st .errors) := by
  induction st with
  | nil => simp [statSum]
  | cons kv rest ih =>
    have ih' := ih (fun x hx => hp x (by simp [hx]))
    by_cases hk : kv.1 = StatKey.errors
    · have := hp kv (by simp) hk
      simp [statSum, hk]; omega
    · have hb : (kv.1 == StatKey.errors) = false := by simpa using hk
      simp only [List.any_cons, hb, Bool.false_or, statSum, List.filter_cons, Bool.false_eq_true, ↓reduceIte]
      exact ih'

/-- the error flag says that an error has been counted -/
def FlagOK (c : Core) : Prop := c.2 = true ↔ 0 < totalErrors c.1

theorem totalErrors_bumpCat (s : Summary) (loc : Option Text) (cat : Cat) :
    totalErrors (bumpCat s loc cat) = totalErrors s + (if cat.isError then 1 else 0) := by
  cases cat <;> simp [bumpCat, countKey, totalErrors_bump, Cat.isError]

theorem coreRun_flag (ign : Ev → Bool) (h : List Ev) (hp : ErrStatsPos h) : ∀ (c : Core), FlagOK c →
    FlagOK (coreRun ign c h) := by
  induction h with
  | nil => intro c hc; exact hc
  | cons ev rest ih =>
    intro c hc
    simp only [coreRun, List.foldl_cons]
    apply ih (fun e he => hp e (by simp [he]))
    have hev := hp ev (by simp)
    unfold FlagOK at hc ⊢
    cases ev with
    | notify cat f d =>
      simp only [coreEv, coreNotify]
      cases ign (.notify cat f d)
      · simp only [Bool.false_eq_true, ↓reduceIte, Bool.or_eq_true, totalErrors_bumpCat, hc]
        cases cat.isError <;> simp <;> omega
      · simpa using hc
    | stats f st =>
      simp only [coreEv]
      cases ign (.stats f st)
      · obtain ⟨_, h2, h3⟩ := coreAddStats_spec c f.locale st
        simp only [Bool.false_eq_true, ↓reduceIte, h2, h3, Bool.or_eq_true, hc, statSum_pos hev]
        omega
      · simpa using hc



/-! ### runs: summary and error flag -/

theorem Obs.run_core : ∀ (h : List Ev) (o o' : Obs), o.run h = .ok o' →
    o'.core = coreRun (ignObs o.filter) o.core h ∧ o'.filter = o.filter ∧ o'.quiet = o.quiet
  | [], o, o', hr => by
    simp only [Obs.run, pure, Except.pure, Except.ok.injEq] at hr
    subst hr; simp [coreRun]
  | ev :: rest, o, o', hr => by
    simp only [Obs.run, bind, Except.bind] at hr
    cases hs : o.step ev with
    | error e => rw [hs] at hr; cases hr
    | ok o1 =>
      rw [hs] at hr
      obtain ⟨h1, h2, h3⟩ := Obs.run_core rest o1 o' hr
      have hstep : o1.core = coreEv (ignObs o.filter) o.core ev ∧ o1.filter = o.filter ∧ o1.quiet = o.quiet := by
        cases ev with
        | notify cat f d =>
          simp only [Obs.step, bind, Except.bind] at hs
          cases hn : o.notify cat f d with
          | error e => rw [hn] at hs; cases hs
          | ok r =>
            rw [hn] at hs
            simp only [pure, Except.pure, Except.ok.injEq] at hs
            obtain ⟨o2, rv⟩ := r
            simp only at hs
            subst hs
            obtain ⟨_, a, b, c, _⟩ := notify_ok hn
            exact ⟨a, b, c⟩
        | stats f st =>
          simp only [Obs.step, pure, Except.pure, Except.ok.injEq] at hs
          subst hs
          obtain ⟨a, b, c, _⟩ := updateStats_core o f st
          exact ⟨a, b, c⟩
      obtain ⟨s1, s2, s3⟩ := hstep
      refine ⟨?_, by rw [h2, s2], by rw [h3, s3]⟩
      rw [h1, s2, s1]
      simp [coreRun]

/-! ### path segments of a `File` -/

/-- a `File` that has a (non-empty) module also has a locale, without `/` -/
def Modelled (f : File) : Prop :=
  ∀ m, f.module = some m → m ≠ [] → ∃ loc, f.locale = some loc ∧ 47 ∉ loc

theorem splitSlash_aux (s : Text) : ∀ (cur : List Nat) (acc : List Part),
    47 ∉ cur → (∀ x ∈ acc, 47 ∉ x) →
    let r := s.foldl (fun (p : List Nat × List Part) c =>
      if c == 47 then ([], p.1.reverse :: p.2) else (c :: p.1, p.2)) (cur, acc)
    47 ∉ r.1 ∧ ∀ x ∈ r.2, 47 ∉ x := by
  induction s with
  | nil => intro cur acc h1 h2; exact ⟨h1, h2⟩
  | cons c cs ih =>
    intro cur acc h1 h2
    simp only [List.foldl_cons]
    by_cases hc : c = 47
    · subst hc
      simp only [beq_self_eq_true, ↓reduceIte]
      apply ih
      · simp
      · intro x hx
        simp only [List.mem_cons] at hx
        cases hx with
        | inl h => subst h; simpa using h1
        | inr h => exact h2 x h
    · have : (c == 47) = false := by simpa using hc
      simp only [this, Bool.false_eq_true, ↓reduceIte]
      apply ih
      · simp only [List.mem_cons, not_or]; exact ⟨fun h => hc h.symm, h1⟩
      · exact h2

theorem splitSlash_spec (s : Text) : splitSlash s ≠ [] ∧ ∀ x ∈ splitSlash s, 47 ∉ x := by
  have := splitSlash_aux s [] [] (by simp) (by simp)
  simp only at this
  unfold splitSlash
  generalize s.foldl (fun (p : List Nat × List Part) c =>
      if c == 47 then ([], p.1.reverse :: p.2) else (c :: p.1, p.2)) ([], []) = r at this
  obtain ⟨cur, acc⟩ := r
  simp only at this ⊢
  refine ⟨by simp, ?_⟩
  intro x hx
  simp only [List.reverse_cons, List.mem_append, List.mem_reverse, List.mem_singleton] at hx
  cases hx with
  | inl h => exact this.2 x h
  | inr h => subst h; simpa using this.1

theorem partsOf_ok {f : File} (hm : Modelled f) :
    ∃ parts, partsOf f = .ok parts ∧ parts ≠ [] ∧ ∀ s ∈ parts, 47 ∉ s := by
  unfold partsOf
  have hfile := splitSlash_spec f.file
  cases hmod : f.module with
  | none => exact ⟨_, rfl, hfile.1, hfile.2⟩
  | some m =>
    by_cases hme : m = []
    · subst hme; exact ⟨_, rfl, hfile.1, hfile.2⟩
    · have : m.isEmpty = false := by cases m <;> simp_all
      obtain ⟨loc, hl, hls⟩ := hm m hmod hme
      simp only [this, Bool.not_false, ↓reduceIte, hl]
      refine ⟨_, rfl, by simp, ?_⟩
      intro s hs
      simp only [List.cons_append, List.nil_append, List.mem_cons, List.mem_append] at hs
      have hmsp := splitSlash_spec m
      rcases hs with h | h | h
      · subst h; exact hls
      · exact hmsp.2 s h
      · exact hfile.2 s h

/-! ### runs: details -/

/-- the tree path of the file is `p` -/
def hasParts (f : File) (p : List Part) : Bool :=
  match partsOf f with
  | .ok p' => p' == p
  | .error _ => false

/-- the details item an event leaves at path `p` (if any) -/
def evDetail (q : Nat) (flt : Option Filter) (p : List Part) : Ev → Option Detail
  | .notify cat f d =>
    if rvOf flt cat f d ≠ .ignore ∧ shows q cat = true ∧ hasParts f p = true
    then some (detailOf cat (rvOf flt cat f d) d) else none
  | .stats _ _ => none

/-- the non-ignored, non-hidden notifications raised for files with path `p`, in order -/
def detailsSpec (q : Nat) (flt : Option Filter) (h : List Ev) (p : List Part) : List Detail :=
  h.filterMap (evDetail q flt p)

theorem getMod_unique {t t1 : Tree Detail} {parts : List Part} {f} (hinv : Inv t) (hp : parts ≠ [])
    (h : getMod t parts f = .ok t1) :
    Inv t1 ∧ (NoSlash t → (∀ s ∈ parts, 47 ∉ s) → NoSlash t1) ∧
      ∀ p, find t1 p = if p = parts then some (f ((find t parts).getD [])) else find t p := by
  obtain ⟨t', e, h1, h2, h3⟩ := getMod_spec f parts.length t parts (Nat.le_refl _) hinv hp
  rw [e] at h
  injection h with h
  subst h
  exact ⟨h1, h2, h3⟩

/-- the details tree after one event -/
theorem step_details {o o1 : Obs} {ev : Ev} (hinv : Inv o.details) (hs : o.step ev = .ok o1) :
    Inv o1.details ∧ o1.filter = o.filter ∧ o1.quiet = o.quiet ∧
      (∀ p, find o1.details p = match evDetail o.quiet o.filter p ev with
        | none => find o.details p
        | some item => some ((find o.details p).getD [] ++ [item])) ∧
      (Modelled ev.file → NoSlash o.details → NoSlash o1.details) := by
  cases ev with
  | stats f st =>
    simp only [Obs.step, pure, Except.pure, Except.ok.injEq] at hs
    subst hs
    obtain ⟨_, b, c, d⟩ := updateStats_core o f st
    rw [d]
    exact ⟨hinv, b, c, fun p => by simp [evDetail], fun _ h => h⟩
  | notify cat f d =>
    simp only [Obs.step, bind, Except.bind] at hs
    cases hn : o.notify cat f d with
    | error e => rw [hn] at hs; cases hs
    | ok r =>
      rw [hn] at hs
      simp only [pure, Except.pure, Except.ok.injEq] at hs
      obtain ⟨o2, rv⟩ := r
      simp only at hs
      subst hs
      obtain ⟨hrv, _, b, c, hd⟩ := notify_ok hn
      subst hrv
      by_cases hcond : rvOf o.filter cat f d ≠ Ret.ignore ∧ shows o.quiet cat = true
      · rw [if_pos hcond] at hd
        simp only [appendDetail, bind, Except.bind] at hd
        cases hpo : partsOf f with
        | error e => rw [hpo] at hd; cases hd
        | ok parts =>
          rw [hpo] at hd
          simp only at hd
          have hpne : parts ≠ [] := by
            unfold partsOf at hpo
            have hfile := splitSlash_spec f.file
            cases hmod : f.module with
            | none => rw [hmod] at hpo; injection hpo with hpo; rw [← hpo]; exact hfile.1
            | some m =>
              rw [hmod] at hpo
              simp only at hpo
              split at hpo
              · cases hl : f.locale with
                | none => rw [hl] at hpo; cases hpo
                | some loc => rw [hl] at hpo; injection hpo with hpo; rw [← hpo]; simp
              · injection hpo with hpo; rw [← hpo]; exact hfile.1
          obtain ⟨i1, i2, i3⟩ := getMod_unique hinv hpne hd
          refine ⟨i1, b, c, ?_, ?_⟩
          · intro p
            rw [i3 p]
            simp only [evDetail, hcond, true_and, hasParts, hpo]
            by_cases hp : p = parts
            · subst hp; simp [hcond.1]
            · have : ¬ parts = p := fun h => hp h.symm
              simp [hp, this]
          · intro hm hns
            obtain ⟨parts', e', _, hsl⟩ := partsOf_ok hm
            simp only [Ev.file] at e'
            rw [hpo] at e'
            injection e' with e'
            subst e'
            exact i2 hns hsl
      · rw [if_neg hcond] at hd
        rw [hd]
        refine ⟨hinv, b, c, ?_, fun _ h => h⟩
        intro p
        have : ¬ (rvOf o.filter cat f d ≠ Ret.ignore ∧ shows o.quiet cat = true ∧ hasParts f p = true) :=
          fun h => hcond ⟨h.1, h.2.1⟩
        simp [evDetail, this]

theorem detailsSpec_cons_none {q flt p ev} (rest : List Ev) (h : evDetail q flt p ev = none) :
    detailsSpec q flt (ev :: rest) p = detailsSpec q flt rest p := List.filterMap_cons_none h

theorem detailsSpec_cons_some {q flt p ev item} (rest : List Ev) (h : evDetail q flt p ev = some item) :
    detailsSpec q flt (ev :: rest) p = item :: detailsSpec q flt rest p := List.filterMap_cons_some h

theorem combine_details {D : Type} (a : Option (List D)) (x : Option D) (r : List D) :
    (if r.isEmpty then (match x with | none => a | some item => some (a.getD [] ++ [item]))
      else some ((match x with | none => a | some item => some (a.getD [] ++ [item])).getD [] ++ r))
    = if (match x with | none => r | some b => b :: r).isEmpty then a
      else some (a.getD [] ++ (match x with | none => r | some b => b :: r)) := by
  cases x <;> cases r <;> simp

/-- the details tree after a history: per path, the old list followed by what the history raised for that path -/
theorem Obs.run_details : ∀ (h : List Ev) (o o' : Obs), Inv o.details → o.run h = .ok o' →
    Inv o'.details ∧
      (∀ p, find o'.details p =
        if (detailsSpec o.quiet o.filter h p).isEmpty then find o.details p
        else some ((find o.details p).getD [] ++ detailsSpec o.quiet o.filter h p)) ∧
      ((∀ ev ∈ h, Modelled ev.file) → NoSlash o.details → NoSlash o'.details)
  | [], o, o', hinv, hr => by
    simp only [Obs.run, pure, Except.pure, Except.ok.injEq] at hr
    subst hr
    exact ⟨hinv, fun p => by simp [detailsSpec], fun _ h => h⟩
  | ev :: rest, o, o', hinv, hr => by
    simp only [Obs.run, bind, Except.bind] at hr
    cases hs : o.step ev with
    | error e => rw [hs] at hr; cases hr
    | ok o1 =>
      rw [hs] at hr
      obtain ⟨i1, hf, hq, hfind1, hns1⟩ := step_details hinv hs
      obtain ⟨i2, hfind2, hns2⟩ := Obs.run_details rest o1 o' i1 hr
      refine ⟨i2, ?_, ?_⟩
      · intro p
        rw [hfind2 p, hfind1 p, hf, hq]
        cases hx : evDetail o.quiet o.filter p ev with
        | none => simp [detailsSpec_cons_none rest hx]
        | some item =>
          simp only [detailsSpec_cons_some rest hx]
          by_cases he : (detailsSpec o.quiet o.filter rest p).isEmpty = true
          · have hnil : detailsSpec o.quiet o.filter rest p = [] := List.isEmpty_iff.1 he
            simp [hnil]
          · simp [he]
      · intro hm hns
        exact hns2 (fun e he => hm e (by simp [he])) (hns1 (hm ev (by simp)) hns)

/-- no notification sequence over modelled files raises -/
theorem Obs.run_ok : ∀ (h : List Ev) (o : Obs), Inv o.details → (∀ ev ∈ h, Modelled ev.file) →
    ∃ o', o.run h = .ok o'
  | [], o, _, _ => ⟨o, rfl⟩
  | ev :: rest, o, hinv, hm => by
    have hstep : ∃ o1, o.step ev = .ok o1 := by
      cases ev with
      | stats f st => exact ⟨_, rfl⟩
      | notify cat f d =>
        have : ∃ o', o.notify cat f d = .ok (o', rvOf o.filter cat f d) := by
          apply notify_ok_of
          intro _ _
          obtain ⟨parts, e, hne, _⟩ := partsOf_ok (hm (.notify cat f d) (by simp))
          obtain ⟨t', e', _⟩ := getMod_spec (fun l => l ++ [detailOf cat (rvOf o.filter cat f d) d])
            parts.length o.details parts (Nat.le_refl _) hinv hne
          simp only [Ev.file] at e
          exact ⟨t', by simp [appendDetail, e, bind, Except.bind, e']⟩
        obtain ⟨o', e⟩ := this
        exact ⟨o', by simp [Obs.step, e, bind, Except.bind, pure, Except.pure]⟩
    obtain ⟨o1, hs⟩ := hstep
    obtain ⟨i1, _⟩ := step_details hinv hs
    obtain ⟨o', hr⟩ := Obs.run_ok rest o1 i1 (fun e he => hm e (by simp [he]))
    exact ⟨o', by simp [Obs.run, hs, bind, Except.bind, hr]⟩



/-! ### the set of return values in `ObserverList.notify` -/

theorem eraseDups_filter_single {α : Type} [BEq α] [LawfulBEq α] (p : α → Bool) (w : α) :
    ∀ (n : Nat) (l : List α), l.length ≤ n → (∀ x ∈ l, p x = true → x = w) → (∃ x ∈ l, p x = true) →
      l.eraseDups.filter p = [w] := by
  intro n
  induction n with
  | zero =>
    intro l hl _ hex
    obtain ⟨x, hx, _⟩ := hex
    cases l with
    | nil => cases hx
    | cons _ _ => simp at hl
  | succ n ih =>
    intro l hl hall hex
    cases l with
    | nil => obtain ⟨x, hx, _⟩ := hex; cases hx
    | cons a as =>
      rw [List.eraseDups_cons]
      have hlen : (as.filter (fun b => !b == a)).length ≤ n := by
        have := List.length_filter_le (fun b => !b == a) as
        simp at hl; omega
      by_cases hpa : p a = true
      · have haw : a = w := hall a (by simp) hpa
        simp only [List.filter_cons, hpa, ↓reduceIte]
        have : (List.filter (fun b => !b == a) as).eraseDups.filter p = [] := by
          rw [List.filter_eq_nil_iff]
          intro x hx hpx
          rw [List.mem_eraseDups] at hx
          simp only [List.mem_filter, Bool.not_eq_eq_eq_not, Bool.not_true, beq_eq_false_iff_ne, ne_eq] at hx
          exact hx.2 ((hall x (by simp [hx.1]) hpx).trans haw.symm)
        rw [this, haw]
      · have hpa' : p a = false := by simpa using hpa
        simp only [List.filter_cons, hpa', Bool.false_eq_true, ↓reduceIte]
        apply ih _ hlen
        · intro x hx hpx
          simp only [List.mem_filter] at hx
          exact hall x (by simp [hx.1]) hpx
        · obtain ⟨x, hx, hpx⟩ := hex
          have hxa : x ≠ a := by intro h; subst h; rw [hpx] at hpa'; cases hpa'
          simp only [List.mem_cons] at hx
          cases hx with
          | inl h => exact absurd h hxa
          | inr h => exact ⟨x, by simp [List.mem_filter, h, hxa], hpx⟩

/-- what `ObserverList.notify` returns for the given return values of the project observers -/
def listRet (rvl : List Ret) : Ret :=
  if rvl.all (· == .ignore) then .ignore else if rvl.contains .error then .error else .warning

theorem ret_set (rvl : List Ret) (hna : rvl.all (· == .ignore) = false) :
    (rvl.eraseDups.all (· == .ignore) = false) ∧
      ((rvl.eraseDups.filter (· != .ignore)).contains .error = rvl.contains .error) ∧
      (rvl.contains .error = false → rvl.eraseDups.filter (· != .ignore) = [.warning]) := by
  refine ⟨?_, ?_, ?_⟩
  · rw [List.all_eq_false] at hna ⊢
    obtain ⟨x, hx, hx2⟩ := hna
    exact ⟨x, List.mem_eraseDups.2 hx, hx2⟩
  · cases hc : rvl.contains .error
    · rw [List.contains_eq_mem, decide_eq_false_iff_not] at hc
      rw [List.contains_eq_mem, decide_eq_false_iff_not, List.mem_filter, List.mem_eraseDups]
      exact fun h => hc h.1
    · rw [List.contains_eq_mem, decide_eq_true_eq] at hc
      rw [List.contains_eq_mem, decide_eq_true_eq, List.mem_filter, List.mem_eraseDups]
      exact ⟨hc, by decide⟩
  · intro hc
    rw [List.contains_eq_mem, decide_eq_false_iff_not] at hc
    apply eraseDups_filter_single _ _ rvl.length rvl (Nat.le_refl _)
    · intro x hx hpx
      cases x with
      | error => exact absurd hx hc
      | warning => rfl
      | ignore => simp at hpx
    · rw [List.all_eq_false] at hna
      obtain ⟨x, hx, hx2⟩ := hna
      exact ⟨x, hx, by cases x <;> simp_all⟩

/-! ### `ObserverList.notify` -/

/-- two lists related element by element -/
inductive All₂ {α β : Type} (R : α → β → Prop) : List α → List β → Prop
  | nil : All₂ R [] []
  | cons {a b as bs} : R a b → All₂ R as bs → All₂ R (a :: as) (b :: bs)

theorem notifyAll_ok {cat f d} : ∀ {obs obs' : List Obs} {rvs : List Ret},
    notifyAll cat f d obs = .ok (obs', rvs) →
      rvs = obs.map (fun o => rvOf o.filter cat f d) ∧
      All₂ (fun o o' => o.notify cat f d = .ok (o', rvOf o.filter cat f d)) obs obs'
  | [], obs', rvs, h => by
    simp only [notifyAll, pure, Except.pure, Except.ok.injEq, Prod.mk.injEq] at h
    obtain ⟨h1, h2⟩ := h
    subst h1; subst h2
    exact ⟨rfl, All₂.nil⟩
  | o :: rest, obs', rvs, h => by
    simp only [notifyAll, bind, Except.bind] at h
    cases hn : o.notify cat f d with
    | error e => rw [hn] at h; cases h
    | ok r =>
      obtain ⟨o1, rv⟩ := r
      rw [hn] at h
      simp only at h
      cases hr : notifyAll cat f d rest with
      | error e => rw [hr] at h; cases h
      | ok r2 =>
        obtain ⟨rest', rvs'⟩ := r2
        rw [hr] at h
        simp only [pure, Except.pure, Except.ok.injEq, Prod.mk.injEq] at h
        obtain ⟨h1, h2⟩ := h
        subst h1; subst h2
        obtain ⟨i1, i2⟩ := notifyAll_ok hr
        have hrv := (notify_ok hn).1
        subst hrv
        exact ⟨by simp [i1], All₂.cons hn i2⟩

theorem notifyAll_ok_of {cat f d} : ∀ {obs : List Obs},
    (∀ o ∈ obs, ∃ o', o.notify cat f d = .ok (o', rvOf o.filter cat f d)) →
      ∃ obs', notifyAll cat f d obs = .ok (obs', obs.map (fun o => rvOf o.filter cat f d))
  | [], _ => ⟨[], rfl⟩
  | o :: rest, h => by
    obtain ⟨o', e⟩ := h o (by simp)
    obtain ⟨rest', e2⟩ := notifyAll_ok_of (obs := rest) (fun x hx => h x (by simp [hx]))
    exact ⟨o' :: rest', by simp [notifyAll, bind, Except.bind, e, e2, pure, Except.pure]⟩

/-- `ObserverList.notify` in one formula: the assert never fails -/
theorem list_notify_eq (l : ObsList) (cat : Cat) (f : File) (d : Data) :
    l.notify cat f d =
      (match notifyAll cat f d l.observers with
       | .error e => .error e
       | .ok (obs', rvl) =>
         if rvl.all (· == .ignore) then .ok ({ l with observers := obs' }, .ignore)
         else match l.own.notify cat f d with
           | .error e => .error e
           | .ok (own', _) => .ok ({ own := own', observers := obs' }, listRet rvl)) := by
  unfold ObsList.notify
  simp only [bind, Except.bind, pure, Except.pure]
  cases hn : notifyAll cat f d l.observers with
  | error e => rfl
  | ok r =>
    obtain ⟨obs', rvl⟩ := r
    simp only
    cases hall : rvl.all (· == .ignore)
    · obtain ⟨s1, s2, s3⟩ := ret_set rvl hall
      simp only [s1, Bool.false_eq_true, ↓reduceIte]
      cases ho : l.own.notify cat f d with
      | error e => rfl
      | ok r2 =>
        obtain ⟨own', rv'⟩ := r2
        simp only [s2, listRet, hall, Bool.false_eq_true, ↓reduceIte]
        cases hc : rvl.contains .error
        · simp [s3 hc]
        · simp
    · have : rvl.eraseDups.all (· == .ignore) = true := by
        rw [List.all_eq_true] at hall ⊢
        intro x hx
        exact hall x (List.mem_eraseDups.1 hx)
      simp [this]



theorem All₂.map_right {α β : Type} {R : α → β → Prop} (f : α → β) :
    ∀ (l : List α), (∀ a ∈ l, R a (f a)) → All₂ R l (l.map f)
  | [], _ => All₂.nil
  | a :: as, h => All₂.cons (h a (by simp)) (All₂.map_right f as (fun x hx => h x (by simp [hx])))

theorem All₂.imp {α β : Type} {R S : α → β → Prop} (hrs : ∀ a b, R a b → S a b) :
    ∀ {l : List α} {l' : List β}, All₂ R l l' → All₂ S l l'
  | _, _, .nil => .nil
  | _, _, .cons h t => .cons (hrs _ _ h) (All₂.imp hrs t)

theorem All₂.comp {α : Type} {R S T : α → α → Prop} (hrst : ∀ a b c, R a b → S b c → T a c) :
    ∀ {l l' l'' : List α}, All₂ R l l' → All₂ S l' l'' → All₂ T l l''
  | _, _, _, .nil, .nil => .nil
  | _, _, _, .cons h t, .cons h' t' => .cons (hrst _ _ _ h h') (All₂.comp hrst t t')

theorem All₂.refl_of {α : Type} {R : α → α → Prop} (h : ∀ a, R a a) : ∀ (l : List α), All₂ R l l
  | [] => .nil
  | a :: as => .cons (h a) (All₂.refl_of h as)

theorem All₂.map_eq {α β γ : Type} {R : α → β → Prop} (f : α → γ) (g : β → γ) (h : ∀ a b, R a b → f a = g b) :
    ∀ {l : List α} {l' : List β}, All₂ R l l' → l.map f = l'.map g
  | _, _, .nil => rfl
  | _, _, .cons hd tl => by simp [h _ _ hd, All₂.map_eq f g h tl]

theorem All₂.mem_right {α β : Type} {R : α → β → Prop} :
    ∀ {l : List α} {l' : List β}, All₂ R l l' → ∀ b ∈ l', ∃ a ∈ l, R a b
  | _, _, .nil, b, hb => by cases hb
  | _, _, .cons hd tl, b, hb => by
    cases hb with
    | head => exact ⟨_, by simp, hd⟩
    | tail _ hm =>
      obtain ⟨a, ha, hr⟩ := All₂.mem_right tl b hm
      exact ⟨a, by simp [ha], hr⟩

theorem All₂.mem_left {α β : Type} {R : α → β → Prop} :
    ∀ {l : List α} {l' : List β}, All₂ R l l' → ∀ a ∈ l, ∃ b ∈ l', R a b
  | _, _, .nil, a, ha => by cases ha
  | _, _, .cons hd tl, a, ha => by
    cases ha with
    | head => exact ⟨_, by simp, hd⟩
    | tail _ hm =>
      obtain ⟨b, hb, hr⟩ := All₂.mem_left tl a hm
      exact ⟨b, by simp [hb], hr⟩

theorem Obs.step_core {o o1 : Obs} {ev : Ev} (hs : o.step ev = .ok o1) :
    o1.core = coreEv (ignObs o.filter) o.core ev ∧ o1.filter = o.filter ∧ o1.quiet = o.quiet := by
  have := Obs.run_core [ev] o o1 (by simp [Obs.run, hs, bind, Except.bind, pure, Except.pure])
  simpa [coreRun] using this

/-- the filters of the project observers -/
def ObsList.filters (l : ObsList) : List (Option Filter) := l.observers.map (·.filter)

theorem ignList_notify (l : ObsList) (cat : Cat) (f : File) (d : Data) :
    (l.observers.map (fun o => rvOf o.filter cat f d)).all (· == .ignore)
      = ignList l.filters (.notify cat f d) := by
  simp only [ignList, ObsList.filters, List.all_map]
  rfl

/-- one event through the list: the own state steps like an unfiltered observer unless every project
    observer ignores the notification; every project observer makes its own step -/
theorem list_step_spec {l l' : ObsList} {ev : Ev} (h : l.step ev = .ok l') :
    (if ignList l.filters ev then l'.own = l.own else l.own.step ev = .ok l'.own) ∧
      All₂ (fun o o' => o.step ev = .ok o') l.observers l'.observers := by
  cases ev with
  | stats f st =>
    simp only [ObsList.step, pure, Except.pure, Except.ok.injEq] at h
    subst h
    simp only [ignList, Bool.false_eq_true, ↓reduceIte, ObsList.updateStats, Obs.step, pure, Except.pure, true_and]
    exact All₂.map_right _ _ (fun _ _ => rfl)
  | notify cat f d =>
    simp only [ObsList.step, bind, Except.bind] at h
    cases hn : l.notify cat f d with
    | error e => rw [hn] at h; cases h
    | ok r =>
      obtain ⟨l1, rv⟩ := r
      rw [hn] at h
      simp only [pure, Except.pure, Except.ok.injEq] at h
      subst h
      rw [list_notify_eq] at hn
      cases hall : notifyAll cat f d l.observers with
      | error e => rw [hall] at hn; cases hn
      | ok r2 =>
        obtain ⟨obs', rvl⟩ := r2
        rw [hall] at hn
        simp only at hn
        obtain ⟨hrvl, hfan⟩ := notifyAll_ok hall
        have hstep : All₂ (fun o o' => o.step (.notify cat f d) = .ok o') l.observers obs' :=
          All₂.imp (fun o o' hr => by simp [Obs.step, hr, bind, Except.bind, pure, Except.pure]) hfan
        have hign := ignList_notify l cat f d
        rw [← hrvl] at hign
        by_cases hi : rvl.all (· == .ignore) = true
        · simp only [hi, ↓reduceIte, Except.ok.injEq, Prod.mk.injEq] at hn
          obtain ⟨h1, _⟩ := hn
          subst h1
          rw [← hign, hi]
          exact ⟨by simp, hstep⟩
        · simp only [hi, Bool.false_eq_true, ↓reduceIte] at hn
          cases ho : l.own.notify cat f d with
          | error e => rw [ho] at hn; cases hn
          | ok r3 =>
            obtain ⟨own', rv'⟩ := r3
            rw [ho] at hn
            simp only [Except.ok.injEq, Prod.mk.injEq] at hn
            obtain ⟨h1, _⟩ := hn
            subst h1
            have hif : ignList l.filters (.notify cat f d) = false := by
              rw [← hign]; simpa using hi
            rw [hif]
            exact ⟨by simp [Obs.step, ho, bind, Except.bind, pure, Except.pure], hstep⟩

/-- what `ObserverList.notify` returns and does: `list_fanout` -/
theorem list_notify_spec {l l' : ObsList} {cat f d rv} (h : l.notify cat f d = .ok (l', rv)) :
    rv = listRet (l.observers.map (fun o => rvOf o.filter cat f d)) ∧
      All₂ (fun o o' => o.notify cat f d = .ok (o', rvOf o.filter cat f d)) l.observers l'.observers ∧
      (if rv = .ignore then l'.own = l.own else ∃ r, l.own.notify cat f d = .ok (l'.own, r)) := by
  rw [list_notify_eq] at h
  cases hall : notifyAll cat f d l.observers with
  | error e => rw [hall] at h; cases h
  | ok r2 =>
    obtain ⟨obs', rvl⟩ := r2
    rw [hall] at h
    simp only at h
    obtain ⟨hrvl, hfan⟩ := notifyAll_ok hall
    subst hrvl
    by_cases hi : (l.observers.map (fun o => rvOf o.filter cat f d)).all (· == .ignore) = true
    · simp only [hi, ↓reduceIte, Except.ok.injEq, Prod.mk.injEq] at h
      obtain ⟨h1, h2⟩ := h
      subst h1; subst h2
      exact ⟨by simp [listRet, hi], hfan, by simp⟩
    · simp only [hi, Bool.false_eq_true, ↓reduceIte] at h
      cases ho : l.own.notify cat f d with
      | error e => rw [ho] at h; cases h
      | ok r3 =>
        obtain ⟨own', rv'⟩ := r3
        rw [ho] at h
        simp only [Except.ok.injEq, Prod.mk.injEq] at h
        obtain ⟨h1, h2⟩ := h
        subst h1; subst h2
        have hne : listRet (l.observers.map (fun o => rvOf o.filter cat f d)) ≠ .ignore := by
          have hi' : (l.observers.map (fun o => rvOf o.filter cat f d)).all (· == .ignore) = false := by
            simpa using hi
          simp only [listRet, hi', Bool.false_eq_true, ↓reduceIte]
          split <;> simp
        exact ⟨rfl, hfan, by simp [hne]⟩

theorem list_run_spec : ∀ (h : List Ev) (l l' : ObsList), l.run h = .ok l' → l.own.filter = none →
    l.own.run (h.filter (fun ev => !ignList l.filters ev)) = .ok l'.own ∧
      All₂ (fun o o' => o.run h = .ok o') l.observers l'.observers ∧ l'.filters = l.filters
  | [], l, l', hr, _ => by
    simp only [ObsList.run, pure, Except.pure, Except.ok.injEq] at hr
    subst hr
    exact ⟨rfl, All₂.refl_of (R := fun (o o' : Obs) => Obs.run o [] = Except.ok o') (fun _ => rfl) _, rfl⟩
  | ev :: rest, l, l', hr, hown => by
    simp only [ObsList.run, bind, Except.bind] at hr
    cases hs : l.step ev with
    | error e => rw [hs] at hr; cases hr
    | ok l1 =>
      rw [hs] at hr
      simp only at hr
      obtain ⟨s1, s2⟩ := list_step_spec hs
      have hfil : l1.filters = l.filters := by
        unfold ObsList.filters
        exact (All₂.map_eq (·.filter) (·.filter) (fun a b hab => ((Obs.step_core hab).2.1).symm) s2).symm
      have hown1 : l1.own.filter = none := by
        cases hi : ignList l.filters ev
        · rw [hi] at s1
          simp only [Bool.false_eq_true, ↓reduceIte] at s1
          rw [(Obs.step_core s1).2.1, hown]
        · rw [hi] at s1
          simp only [↓reduceIte] at s1
          rw [s1, hown]
      obtain ⟨r1, r2, r3⟩ := list_run_spec rest l1 l' hr hown1
      refine ⟨?_, ?_, by rw [r3, hfil]⟩
      · rw [hfil] at r1
        simp only [List.filter_cons]
        cases hi : ignList l.filters ev
        · rw [hi] at s1
          simp only [Bool.false_eq_true, ↓reduceIte] at s1
          simp [Obs.run, s1, bind, Except.bind, r1]
        · rw [hi] at s1
          simp only [↓reduceIte] at s1
          rw [s1] at r1
          simpa using r1
      · exact All₂.comp (fun a b c hab hbc => by simp [Obs.run, hab, bind, Except.bind, hbc]) s2 r2

/-- summary and error flag of the list itself -/
theorem list_run_core {h : List Ev} {l l' : ObsList} (hr : l.run h = .ok l') (hown : l.own.filter = none) :
    l'.own.core = coreRun (ignList l.filters) l.own.core h := by
  induction h generalizing l with
  | nil =>
    simp only [ObsList.run, pure, Except.pure, Except.ok.injEq] at hr
    subst hr; rfl
  | cons ev rest ih =>
    simp only [ObsList.run, bind, Except.bind] at hr
    cases hs : l.step ev with
    | error e => rw [hs] at hr; cases hr
    | ok l1 =>
      rw [hs] at hr
      simp only at hr
      obtain ⟨s1, s2⟩ := list_step_spec hs
      have hfil : l1.filters = l.filters := by
        unfold ObsList.filters
        exact (All₂.map_eq (·.filter) (·.filter) (fun a b hab => ((Obs.step_core hab).2.1).symm) s2).symm
      have hcore : l1.own.core = coreEv (ignList l.filters) l.own.core ev ∧ l1.own.filter = none := by
        cases hi : ignList l.filters ev
        · rw [hi] at s1
          simp only [Bool.false_eq_true, ↓reduceIte] at s1
          obtain ⟨c1, c2, _⟩ := Obs.step_core s1
          refine ⟨?_, by rw [c2, hown]⟩
          rw [c1, hown]
          cases ev with
          | notify cat f d =>
            have : (Ret.error == Ret.ignore) = false := by decide
            simp [coreEv, ignObs, rvOf, hi, this]
          | stats f st => simp [coreEv, ignObs, hi]
        · rw [hi] at s1
          simp only [↓reduceIte] at s1
          rw [s1]
          refine ⟨?_, hown⟩
          cases ev with
          | notify cat f d => simp [coreEv, coreNotify, hi]
          | stats f st => simp [coreEv, hi]
      have := ih hr hcore.2
      rw [this, hfil, hcore.1]
      simp [coreRun]



/-! ### quiet -/

theorem shows_mono {q q' : Nat} (hq : q ≤ q') (cat : Cat) (h : shows q' cat = true) : shows q cat = true := by
  cases cat <;> simp only [shows, decide_eq_true_eq, beq_iff_eq] at h ⊢ <;> omega

theorem filterMap_sublist_of_imp {α β : Type} (f g : α → Option β) (h : ∀ a b, f a = some b → g a = some b) :
    ∀ (l : List α), (l.filterMap f).Sublist (l.filterMap g)
  | [] => List.Sublist.slnil
  | a :: l => by
    have ih := filterMap_sublist_of_imp f g h l
    cases hf : f a with
    | none =>
      rw [List.filterMap_cons_none hf]
      cases hg : g a with
      | none => rw [List.filterMap_cons_none hg]; exact ih
      | some c => rw [List.filterMap_cons_some hg]; exact List.Sublist.cons _ ih
    | some b =>
      rw [List.filterMap_cons_some hf, List.filterMap_cons_some (h a b hf)]
      exact List.Sublist.cons_cons _ ih

theorem detailsSpec_mono {q q' : Nat} (hq : q ≤ q') (flt : Option Filter) (h : List Ev) (p : List Part) :
    (detailsSpec q' flt h p).Sublist (detailsSpec q flt h p) := by
  apply filterMap_sublist_of_imp
  intro ev item hev
  cases ev with
  | stats f st => simp [evDetail] at hev
  | notify cat f d =>
    simp only [evDetail] at hev ⊢
    split at hev
    · rename_i hc
      have : rvOf flt cat f d ≠ .ignore ∧ shows q cat = true ∧ hasParts f p = true :=
        ⟨hc.1, shows_mono hq cat hc.2.1, hc.2.2⟩
      rw [if_pos this]; exact hev
    · cases hev

theorem find_empty (p : List Part) : find (Tree.empty : Tree Detail) p = none := by
  cases p <;> simp [Tree.empty, find, findBr]

theorem inv_empty : TreeM.Inv (Tree.empty : Tree Detail) := by simp [Tree.empty, TreeM.Inv, InvBr]

theorem noslash_empty : NoSlash (Tree.empty : Tree Detail) := by simp [Tree.empty, NoSlash, NoSlashBr]

/-- from a fresh observer: the stored list of a path is exactly the specification -/
theorem init_details {q : Nat} {flt : Option Filter} {h : List Ev} {o' : Obs}
    (hr : (Obs.init q flt).run h = .ok o') (p : List Part) :
    find o'.details p = if (detailsSpec q flt h p).isEmpty then none else some (detailsSpec q flt h p) := by
  obtain ⟨_, hf, _⟩ := Obs.run_details h (Obs.init q flt) o' inv_empty hr
  rw [hf p]
  simp [Obs.init, find_empty]

theorem mem_detailsSpec {q flt h p item} (hm : item ∈ detailsSpec q flt h p) :
    ∃ ev ∈ h, partsOf ev.file = .ok p := by
  simp only [detailsSpec, List.mem_filterMap] at hm
  obtain ⟨ev, hev, hd⟩ := hm
  refine ⟨ev, hev, ?_⟩
  cases ev with
  | stats f st => simp [evDetail] at hd
  | notify cat f d =>
    simp only [evDetail] at hd
    split at hd
    · rename_i hc
      have := hc.2.2
      simp only [hasParts] at this
      simp only [Ev.file]
      cases hp : partsOf f with
      | error e => rw [hp] at this; cases this
      | ok p' => rw [hp] at this; simp at this; rw [this]
    · cases hd

/-! ### exit status -/

/-- no stats dict has an `errors` entry (what every caller of `updateStats` guarantees) -/
def NoErrStats (h : List Ev) : Prop :=
  ∀ ev ∈ h, match ev with
    | .stats _ st => ∀ kv ∈ st, kv.1 ≠ StatKey.errors
    | _ => True

theorem NoErrStats.pos {h : List Ev} (hn : NoErrStats h) : ErrStatsPos h := by
  intro ev hev
  have := hn ev hev
  cases ev with
  | notify _ _ _ => trivial
  | stats f st => exact fun kv hkv hk => absurd hk (this kv hkv)

theorem flagOK_init : FlagOK (([], false) : Core) := by simp [FlagOK, totalErrors]

theorem any_err_notify {h : List Ev} (hn : NoErrStats h) (ign : Ev → Bool) :
    h.any (fun ev => !ign ev && isErrEv ev) = true ↔
      ∃ cat f d, Ev.notify cat f d ∈ h ∧ cat.isError = true ∧ ign (.notify cat f d) = false := by
  simp only [List.any_eq_true, Bool.and_eq_true, Bool.not_eq_eq_eq_not, Bool.not_true]
  constructor
  · rintro ⟨ev, hev, hi, he⟩
    cases ev with
    | notify cat f d => exact ⟨cat, f, d, hev, he, hi⟩
    | stats f st =>
      have := hn _ hev
      simp only [isErrEv, List.any_eq_true, beq_iff_eq] at he
      obtain ⟨kv, hkv, hk⟩ := he
      exact absurd hk (this kv hkv)
  · rintro ⟨cat, f, d, hev, he, hi⟩
    exact ⟨_, hev, hi, he⟩



theorem Obs.step_ok {o : Obs} {ev : Ev} (hinv : TreeM.Inv o.details) (hm : Modelled ev.file) :
    ∃ o1, o.step ev = .ok o1 ∧ TreeM.Inv o1.details := by
  obtain ⟨o1, h⟩ := Obs.run_ok [ev] o hinv (by simpa using hm)
  simp only [Obs.run, bind, Except.bind] at h
  cases hs : o.step ev with
  | error e => rw [hs] at h; cases h
  | ok o2 => exact ⟨o2, rfl, (step_details hinv hs).1⟩

theorem notify_of_step {o o1 : Obs} {cat f d} (hs : o.step (.notify cat f d) = .ok o1) :
    o.notify cat f d = .ok (o1, rvOf o.filter cat f d) := by
  simp only [Obs.step, bind, Except.bind] at hs
  cases hn : o.notify cat f d with
  | error e => rw [hn] at hs; cases hs
  | ok r =>
    obtain ⟨o2, rv⟩ := r
    rw [hn] at hs
    simp only [pure, Except.pure, Except.ok.injEq] at hs
    subst hs
    rw [(notify_ok hn).1]

/-- no notification sequence over modelled files makes the list raise (in particular the assert holds) -/
theorem list_run_ok : ∀ (h : List Ev) (l : ObsList), TreeM.Inv l.own.details →
    (∀ o ∈ l.observers, TreeM.Inv o.details) → (∀ ev ∈ h, Modelled ev.file) → ∃ l', l.run h = .ok l'
  | [], l, _, _, _ => ⟨l, rfl⟩
  | ev :: rest, l, hown, hobs, hm => by
    have hmev := hm ev (by simp)
    have hstep : ∃ l1, l.step ev = .ok l1 := by
      cases ev with
      | stats f st => exact ⟨_, rfl⟩
      | notify cat f d =>
        have hall : ∃ obs', notifyAll cat f d l.observers
            = .ok (obs', l.observers.map (fun o => rvOf o.filter cat f d)) := by
          apply notifyAll_ok_of
          intro o ho
          obtain ⟨o1, hs, _⟩ := Obs.step_ok (ev := .notify cat f d) (hobs o ho) hmev
          exact ⟨o1, notify_of_step hs⟩
        obtain ⟨obs', hall⟩ := hall
        obtain ⟨own1, hs, _⟩ := Obs.step_ok (ev := .notify cat f d) hown hmev
        have hon := notify_of_step hs
        simp only [ObsList.step, bind, Except.bind]
        rw [list_notify_eq, hall]
        simp only [hon]
        by_cases hi : (l.observers.map (fun o => rvOf o.filter cat f d)).all (· == .ignore) = true
        · simp only [hi, ↓reduceIte, pure, Except.pure]; exact ⟨_, rfl⟩
        · simp only [hi, Bool.false_eq_true, ↓reduceIte, pure, Except.pure]; exact ⟨_, rfl⟩
    obtain ⟨l1, hs⟩ := hstep
    obtain ⟨s1, s2⟩ := list_step_spec hs
    have hown1 : TreeM.Inv l1.own.details := by
      cases hi : ignList l.filters ev
      · rw [hi] at s1
        simp only [Bool.false_eq_true, ↓reduceIte] at s1
        exact (step_details hown s1).1
      · rw [hi] at s1
        simp only [↓reduceIte] at s1
        rw [s1]; exact hown
    have hobs1 : ∀ o ∈ l1.observers, TreeM.Inv o.details := by
      intro o1 ho1
      obtain ⟨o, ho, hso⟩ := All₂.mem_right s2 o1 ho1
      exact (step_details (hobs o ho) hso).1
    obtain ⟨l', hr⟩ := list_run_ok rest l1 hown1 hobs1 (fun e he => hm e (by simp [he]))
    exact ⟨l', by simp [ObsList.run, hs, bind, Except.bind, hr]⟩


end ObsM
